package modsa

// End-to-end stage of C49: the same cases, observed where the property states it -
// at a harness-owned TCP backend behind a real in-process BFE (sys rig) with
// mod_rewrite, mod_header and mod_redirect enabled. Rule files go through the
// reload handlers registered with the server's web monitor.

import (
	"fmt"
	"net"
	"net/http"
	"net/http/fcgi"
	"path/filepath"
	"strings"
	"sync"
	"time"

	"verif/harness/internal/ref"
	"verif/harness/internal/sys"
)

type c49Rig struct {
	rig     *sys.Rig
	backend *sys.Backend
	mu      sync.Mutex
	resp    []hdr             // headers the backend answers with
	got     chan *ref.Message // requests as received by the backend
	gen     int
	useFcgi bool // route the next exchanges to the FastCGI cluster
	nRw     int  // rewrite cases without host action seen (two of three go to the FastCGI cluster)
	retries int  // repeated attempts after a 5xx without forwarding
	total   int // end-to-end exchanges asked for
	rig5xx  int // ... of which the rig itself could not forward even without rules
}

const c49E2EWait = 45 * time.Second

func c49StartRig() (*c49Rig, error) {
	r := &c49Rig{got: make(chan *ref.Message, 64)}
	b, err := sys.NewBackend("b0", func(bc *sys.BackendConn) {
		off := 0
		for {
			m, err := bc.ReadRequest(off, 30*time.Minute) // never close an idle keep-alive connection under bfe's feet
			if err != nil {
				return
			}
			off += m.ConsumedLen
			r.mu.Lock()
			hs := append([]hdr(nil), r.resp...)
			r.mu.Unlock()
			var sb strings.Builder
			sb.WriteString("HTTP/1.1 200 OK\r\nContent-Length: 0\r\n")
			for _, h := range hs {
				fmt.Fprintf(&sb, "%s: %s\r\n", h.K, h.V)
			}
			sb.WriteString("\r\n")
			select {
			case r.got <- m:
			default:
			}
			if _, err := bc.Conn.Write([]byte(sb.String())); err != nil {
				return
			}
		}
	})
	if err != nil {
		return nil, err
	}
	r.backend = b
	// second backend: a FastCGI responder (std net/http/fcgi) behind a cluster with
	// Protocol "fcgi"; requests carrying the marker header X-Verif-Fcgi are routed to it.
	// What it reports is the request URI the application sees (REQUEST_URI) and HTTP_HOST.
	fln, err := net.Listen("tcp", "127.0.0.1:0")
	if err != nil {
		return nil, err
	}
	go fcgi.Serve(fln, http.HandlerFunc(func(w http.ResponseWriter, hr *http.Request) {
		m := &ref.Message{Method: hr.Method, Target: hr.URL.RequestURI(), Proto: "FCGI",
			Fields: []ref.Field{{Name: "Host", Value: hr.Host}}}
		r.mu.Lock()
		hs := append([]hdr(nil), r.resp...)
		r.mu.Unlock()
		for _, h := range hs {
			w.Header().Add(h.K, h.V)
		}
		select {
		case r.got <- m:
		default:
		}
		w.WriteHeader(200)
	}))
	fcl := sys.OneBackendCluster("cluster_f", fln.Addr().(*net.TCPAddr).Port)
	fcl.Protocol = "fcgi"
	data := &sys.DataConf{
		Version:        "v1",
		Hosts:          map[string][]string{"t": {"example.org"}},
		HostTags:       map[string][]string{"p": {"t"}},
		DefaultProduct: "p",
		Rules: map[string][]sys.Rule{"p": {
			{Cond: `req_header_key_in("X-Verif-Fcgi")`, Cluster: "cluster_f"},
			{Cond: "default_t()", Cluster: "cluster_x"}}},
		Clusters: []sys.Cluster{sys.OneBackendCluster("cluster_x", b.Port), fcl},
	}
	// generous time budgets: the rig shares the machine with 15 sibling shards and other jobs
	for i := range data.Clusters {
		data.Clusters[i].TimeoutConnSrvMs = 10000
		data.Clusters[i].TimeoutResponseHeaderMs = 30000
	}
	rig, err := sys.Start(sys.Options{
		Modules: []string{"mod_redirect", "mod_rewrite", "mod_header"},
		Files: map[string]string{
			"mod_rewrite/mod_rewrite.conf":   "[Basic]\nDataPath = mod_rewrite/rewrite.data\n",
			"mod_rewrite/rewrite.data":       emptyRules,
			"mod_header/mod_header.conf":     "[Basic]\nDataPath = mod_header/header_rule.data\n",
			"mod_header/header_rule.data":    emptyRules,
			"mod_redirect/mod_redirect.conf": "[Basic]\nDataPath = mod_redirect/redirect.data\n",
			"mod_redirect/redirect.data":     emptyRules,
		},
		Data: data,
	})
	if err != nil {
		return nil, err
	}
	r.rig = rig
	return r, nil
}

func (r *c49Rig) reloadOne(mod, content string) error {
	r.gen++
	name := "mod_" + mod
	p := filepath.Join(r.rig.ConfRoot, name, fmt.Sprintf("e2e%d.data", r.gen%4))
	if err := mustWriteFile(p, content); err != nil {
		return harnessErr{err}
	}
	return callReload(r.rig.Srv.Monitor.WebHandlers, name, p)
}

// load installs the case's rules in its module and empty rule sets in the other two.
func (r *c49Rig) load(c *c49Case) (error, []string) {
	for _, m := range []string{"rewrite", "header", "redirect"} {
		if m != c.Mod {
			if err := r.reloadOne(m, emptyRules); err != nil {
				return harnessErr{err}, nil
			}
		}
	}
	err := r.reloadOne(c.Mod, c49RuleFile(c.Mod, c.Rules))
	if err == nil {
		return nil, nil
	}
	seen := map[string]bool{}
	var culprits []string
	for _, rl := range c.Rules {
		for _, a := range rl.Actions {
			one := []c49Rule{{Actions: []c49Action{a}, Last: true, Status: 302}}
			if e := r.reloadOne(c.Mod, c49RuleFile(c.Mod, one)); e != nil && !seen[a.Cmd] {
				seen[a.Cmd] = true
				culprits = append(culprits, a.Cmd)
			}
		}
	}
	return err, culprits
}

func is5xxNotForwarded(x c49Exchange) bool {
	return !x.timeout && x.msg == nil && x.status >= 500
}

// exchangeRobust is exchange with protection against the rig's own time budgets
// (backend connect / response-header timeouts of the in-process BFE when the machine
// is overloaded show up as a 5xx without the backend being contacted). A 5xx answer
// without forwarding is retried twice on fresh connections; if it persists, the same
// request is sent with all three rule sets emptied: if even that is not forwarded the
// rig is in trouble (rigTrouble=true, the case is inconclusive); otherwise the case's
// rules are loaded again and the request gets two more attempts, and only a result
// that still is a 5xx is handed back for judgement.
func (r *c49Rig) exchangeRobust(c *c49Case) (x c49Exchange, rigTrouble bool) {
	r.total++
	for attempt := 0; attempt < 3; attempt++ {
		if attempt > 0 {
			r.retries++
			time.Sleep(time.Duration(attempt) * 400 * time.Millisecond)
		}
		if x = r.exchange(c); !is5xxNotForwarded(x) {
			return x, false
		}
	}
	for _, m := range []string{"rewrite", "header", "redirect"} {
		if err := r.reloadOne(m, emptyRules); err != nil {
			r.rig5xx++
			return x, true
		}
	}
	ctl := r.exchange(c)
	if err, _ := r.load(c); err != nil {
		r.rig5xx++
		return x, true
	}
	if ctl.timeout || ctl.msg == nil {
		r.rig5xx++
		return x, true
	}
	for attempt := 0; attempt < 2; attempt++ {
		time.Sleep(time.Second)
		if x = r.exchange(c); !is5xxNotForwarded(x) {
			return x, false
		}
	}
	return x, false
}

type c49Exchange struct {
	msg       *ref.Message        // request as received by the backend (nil: not forwarded)
	rsp       map[string][]string // response headers seen by the client, lower-case names
	status    int
	localPort int
	timeout   bool
	note      string
}

// exchange sends the case's request on a fresh client connection and collects what
// the backend received and what the client got back.
func (r *c49Rig) exchange(c *c49Case) c49Exchange {
	var x c49Exchange
	r.mu.Lock()
	r.resp = c.Resp
	r.mu.Unlock()
	for len(r.got) > 0 {
		<-r.got
	}
	conn, err := net.DialTimeout("tcp", r.rig.HTTPAddr, c49E2EWait)
	if err != nil {
		x.timeout, x.note = true, err.Error()
		return x
	}
	defer conn.Close()
	x.localPort = conn.LocalAddr().(*net.TCPAddr).Port
	conn.SetDeadline(time.Now().Add(c49E2EWait))
	spec := c.Req
	if r.useFcgi {
		spec.Headers = append(append([]hdr(nil), spec.Headers...), hdr{"X-Verif-Fcgi", "1"})
	}
	if _, err := conn.Write(spec.wire()); err != nil {
		x.timeout, x.note = true, err.Error()
		return x
	}
	var raw []byte
	buf := make([]byte, 16*1024)
	closed := false
	for {
		if len(raw) > 0 {
			m, perr := ref.ParseResponse(raw, c.Req.Method, closed)
			if perr == nil {
				x.status = m.Status
				x.rsp = map[string][]string{}
				for _, f := range m.Fields {
					k := strings.ToLower(f.Name)
					x.rsp[k] = append(x.rsp[k], f.Value)
				}
				break
			}
			if perr != ref.ErrIncomplete {
				x.timeout, x.note = true, "unparsable response: "+perr.Error()
				return x
			}
		}
		if closed {
			x.timeout, x.note = true, "connection closed without a complete response"
			return x
		}
		n, rerr := conn.Read(buf)
		raw = append(raw, buf[:n]...)
		if rerr != nil {
			if ne, ok := rerr.(net.Error); ok && ne.Timeout() {
				x.timeout, x.note = true, "timeout waiting for the response"
				return x
			}
			closed = true
		}
	}
	select {
	case x.msg = <-r.got:
	default:
	}
	return x
}

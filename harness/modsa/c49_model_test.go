package modsa

// Reference model of the documented rewrite / header / redirect actions
// (docs/en_us/modules/mod_rewrite|mod_header|mod_redirect/*.md, docs/en_us/example/rewrite.md).
// Written from the doc text only. Where the docs leave the outcome open the model
// keeps alternatives (any of them is accepted) or marks the component unspecified.

import (
	"sort"
	"strings"
)

type c49Action struct {
	Cmd    string   `json:"Cmd"`
	Params []string `json:"Params"`
}

type c49Rule struct {
	PathPrefix string      `json:"path_prefix,omitempty"` // "" => default_t(), else req_path_prefix_in("<p>", false)
	Actions    []c49Action `json:"actions"`
	Last       bool        `json:"last"`
	Status     int         `json:"status,omitempty"` // redirect only
}

func (r *c49Rule) cond() string {
	if r.PathPrefix == "" {
		return "default_t()"
	}
	return `req_path_prefix_in("` + r.PathPrefix + `", false)`
}

// ---------------------------------------------------------------- rewrite

type rwModel struct {
	Hosts      []string // acceptable Host values at the backend
	Paths      []string // acceptable decoded paths
	Pairs      []qpair  // expected query elements
	QueryLoose bool     // order of elements not specified (QUERY_ADD happened)
	QueryOpen  bool     // query outcome not specified by the docs
	DeletedBy  map[string]string
	Applied    []string // commands of applied actions
}

func uniq(ss []string) []string {
	sort.Strings(ss)
	out := ss[:0]
	for i, s := range ss {
		if i == 0 || s != ss[i-1] {
			out = append(out, s)
		}
	}
	return out
}

func ensureSlash(p string) string {
	if !strings.HasPrefix(p, "/") {
		return "/" + p
	}
	return p
}

func mapAll(ss []string, f func(string) []string) []string {
	var out []string
	for _, s := range ss {
		out = append(out, f(s)...)
	}
	return uniq(out)
}

func newRwModel(host, rawPath, rawQuery string) *rwModel {
	p, _ := pctDecode(rawPath, false)
	return &rwModel{Hosts: []string{host}, Paths: []string{p}, Pairs: splitQuery(rawQuery), DeletedBy: map[string]string{}}
}

// matches: the rule condition on the current request. With path alternatives the
// verdict may be open; ok=false then.
func (m *rwModel) matches(r *c49Rule) (match, ok bool) {
	if r.PathPrefix == "" {
		return true, true
	}
	n := 0
	for _, p := range m.Paths {
		if strings.HasPrefix(p, r.PathPrefix) {
			n++
		}
	}
	if n != 0 && n != len(m.Paths) {
		return false, false
	}
	return n > 0, true
}

func (m *rwModel) apply(a c49Action) {
	m.Applied = append(m.Applied, a.Cmd)
	switch a.Cmd {
	case "HOST_SET": // "Set host to specified value"
		m.Hosts = []string{a.Params[0]}
	case "HOST_SET_FROM_PATH_PREFIX": // "Set host to specified path prefix"
		// path "/<seg>/<rest>": host becomes <seg>; whether the prefix is also removed
		// from the path is not documented (both accepted). A path with a single segment
		// and no further '/': not documented (host unchanged or the segment).
		var hosts, paths []string
		for _, p := range m.Paths {
			segs := strings.SplitN(p, "/", 3)
			switch {
			case len(segs) == 3 && segs[1] != "":
				hosts = append(hosts, segs[1])
				paths = append(paths, p, "/"+segs[2])
			case len(segs) == 2 && segs[1] != "":
				hosts = append(hosts, segs[1])
				hosts = append(hosts, m.Hosts...)
				paths = append(paths, p, "/")
			default:
				hosts = append(hosts, m.Hosts...)
				paths = append(paths, p)
			}
		}
		m.Hosts, m.Paths = uniq(hosts), uniq(paths)
	case "HOST_SUFFIX_REPLACE": // "Replace suffix of host"
		m.Hosts = mapAll(m.Hosts, func(h string) []string {
			if strings.HasSuffix(h, a.Params[0]) {
				return []string{strings.TrimSuffix(h, a.Params[0]) + a.Params[1]}
			}
			return []string{h}
		})
	case "PATH_SET": // "Set path to specified value"
		m.Paths = []string{a.Params[0]}
	case "PATH_PREFIX_ADD": // "Add prefix to orignal path"; example: "/v1/" + "/service" -> "/v1/service"
		pre := a.Params[0]
		m.Paths = mapAll(m.Paths, func(p string) []string {
			joined := ensureSlash(pre + strings.TrimPrefix(p, "/"))
			if strings.HasPrefix(pre, "/") && strings.HasSuffix(pre, "/") {
				return []string{joined} // the documented shape
			}
			return []string{joined, ensureSlash(pre + p)} // "/v1"+"/service": both readings accepted
		})
	case "PATH_PREFIX_TRIM": // "Trim prefix from orignal path"
		pre := a.Params[0]
		m.Paths = mapAll(m.Paths, func(p string) []string {
			if strings.HasPrefix(p, pre) {
				return []string{ensureSlash(strings.TrimPrefix(p, pre))}
			}
			return []string{p}
		})
	case "QUERY_ADD": // "Add query"
		k, v := a.Params[0], a.Params[1]
		m.Pairs = append(m.Pairs, qpair{Raw: k + "=" + v, RawK: k, RawV: v, Key: k, Val: v, HasEq: true})
		m.QueryLoose = true
	case "QUERY_DEL": // "Delete query"
		del := map[string]bool{}
		for _, k := range a.Params {
			del[k] = true
		}
		var keep []qpair
		for _, p := range m.Pairs {
			if del[p.Key] {
				m.DeletedBy[p.Raw] = a.Cmd
				continue
			}
			keep = append(keep, p)
		}
		m.Pairs = keep
	case "QUERY_DEL_ALL_EXCEPT": // "Del all queries except specified queries"
		exc := map[string]bool{}
		for _, k := range a.Params {
			exc[k] = true
		}
		var keep []qpair
		for _, p := range m.Pairs {
			if !exc[p.Key] {
				m.DeletedBy[p.Raw] = a.Cmd
				continue
			}
			keep = append(keep, p)
		}
		m.Pairs = keep
	case "QUERY_RENAME": // "Rename query"
		old, nw := a.Params[0], a.Params[1]
		for i, p := range m.Pairs {
			if p.Key != old {
				continue
			}
			if p.RawK == old && p.HasEq {
				p.RawK, p.Key = nw, nw
				p.Raw = nw + "=" + p.RawV
				m.Pairs[i] = p
				continue
			}
			// key written in an encoded form or without '=': the docs do not say
			m.QueryOpen = true
		}
	}
}

// runRewrite applies an ordered rule list ("Last: if true, stop to check the remaining rules").
// ok=false: a condition verdict is open (alternatives disagree) - the case is outside the oracle.
func runRewrite(m *rwModel, rules []c49Rule) (matchedAny, ok bool) {
	for i := range rules {
		r := &rules[i]
		match, def := m.matches(r)
		if !def {
			return matchedAny, false
		}
		if !match {
			continue
		}
		matchedAny = true
		for _, a := range r.Actions {
			m.apply(a)
		}
		if r.Last {
			break
		}
	}
	return matchedAny, true
}

// ---------------------------------------------------------------- header

type hdrModel struct {
	vals map[string][]string // lower-case name -> values in order
	open bool                // phase outcome not specified (Last rule without actions of this phase)
	vars map[string]string
}

func newHdrModel(hs []hdr, vars map[string]string) *hdrModel {
	m := &hdrModel{vals: map[string][]string{}, vars: vars}
	for _, h := range hs {
		k := strings.ToLower(h.K)
		m.vals[k] = append(m.vals[k], h.V)
	}
	return m
}

func (m *hdrModel) value(v string) string {
	if strings.HasPrefix(v, "%") {
		if x, ok := m.vars[v[1:]]; ok {
			return x
		}
	}
	return v
}

func (m *hdrModel) apply(a c49Action) {
	k := strings.ToLower(a.Params[0])
	switch a.Cmd[4:] {
	case "HEADER_SET": // "Set request/response header"
		m.vals[k] = []string{m.value(a.Params[1])}
	case "HEADER_ADD": // "Add request/response header"
		m.vals[k] = append(m.vals[k], m.value(a.Params[1]))
	case "HEADER_DEL": // "Delete request/response header"
		delete(m.vals, k)
	}
}

// runHeader applies the rules to one phase ("REQ_" or "RSP_").
func runHeader(m *hdrModel, rules []c49Rule, phase, path string) (applied int) {
	for i := range rules {
		r := &rules[i]
		if r.PathPrefix != "" && !strings.HasPrefix(path, r.PathPrefix) {
			continue
		}
		n := 0
		for _, a := range r.Actions {
			if strings.HasPrefix(a.Cmd, phase) {
				m.apply(a)
				n++
			}
		}
		applied += n
		if r.Last {
			if n == 0 && i+1 < len(rules) {
				// "If true, stop processing the next rule": whether a matching Last rule
				// that has no action for this direction ends this direction's processing
				// is not stated.
				m.open = true
			}
			break
		}
	}
	return applied
}

// ---------------------------------------------------------------- redirect

// redirectModel returns the expected Location for the first matching rule.
// open=true: the docs do not define the outcome for this request.
// hostRelativeClean: s is a host-relative reference ("/path[?query]") whose path has
// no empty, "." or ".." segment. Such a target needs no normalisation, so the Location
// is the target itself, byte for byte (path, trailing slash and query included).
func hostRelativeClean(s string) bool {
	if !strings.HasPrefix(s, "/") || strings.HasPrefix(s, "//") {
		return false
	}
	p := s
	if i := strings.IndexByte(s, '?'); i >= 0 {
		p = s[:i]
	}
	if strings.ContainsAny(p, "#") {
		return false
	}
	segs := strings.Split(p[1:], "/")
	for i, seg := range segs {
		if seg == "." || seg == ".." {
			return false
		}
		if seg == "" && i != len(segs)-1 {
			return false
		}
	}
	return true
}

func redirectModel(rules []c49Rule, host, target string) (redirect bool, status int, location string, open bool, cmd string) {
	rawPath, rawQuery, _ := splitTarget(target)
	path, _ := pctDecode(rawPath, false)
	for i := range rules {
		r := &rules[i]
		if r.PathPrefix != "" && !strings.HasPrefix(path, r.PathPrefix) {
			continue
		}
		a := r.Actions[0]
		switch a.Cmd {
		case "URL_SET": // "Redirect to specified URL"
			location = a.Params[0]
		case "URL_FROM_QUERY": // "Redirect to URL parsed from specified query in request"
			found := false
			for _, p := range splitQuery(rawQuery) {
				if p.Key == a.Params[0] {
					location, found = p.Val, true
					break
				}
			}
			if !found || !(strings.HasPrefix(location, "http://") || strings.HasPrefix(location, "https://") || hostRelativeClean(location)) {
				open = true // no such query / value is neither an absolute URL nor a clean host-relative one: not documented
			}
		case "URL_PREFIX_ADD": // "Redirect to URL concatenated by specified prefix and the original URL"
			location = a.Params[0] + target
			if !strings.Contains(a.Params[0], "://") && !hostRelativeClean(location) {
				open = true
			}
		case "SCHEME_SET": // "Redirect to the original URL but with scheme changed"
			location = a.Params[0] + "://" + host + target
		}
		return true, r.Status, location, open, a.Cmd
	}
	return false, 0, "", false, ""
}

package modsa

// C49: every documented rewrite / header / redirect action, configured with valid
// parameters, is accepted by the module's rule loader and has its documented effect;
// after QUERY_DEL / QUERY_DEL_ALL_EXCEPT no deleted key is left in the query sent to
// the backend in any encoding and the other parameters are untouched.
//
// Access: mod_rewrite / mod_header / mod_redirect are constructed like in their own
// unit tests (NewModule*, Init with BfeCallbacks + WebHandlers on a generated conf
// root); every case writes a rule file and loads it through the reload handler the
// module registered; the request (bfe_http.ReadRequest on wire bytes) is passed
// through the HandlerList of the callback point the module registered at. The
// observation point for rewrite/request-header actions is the byte stream
// Request.Write produces for the backend, parsed by the harness' strict parser; for
// response-header actions the response header map after HandleReadResponse; for
// redirects the Location/status written by bfe_server.Redirect.

import (
	"encoding/json"
	"fmt"
	"sort"
	"strconv"
	"strings"
	"sync"
	"testing"

	"github.com/bfenetworks/bfe/bfe_basic"
	"github.com/bfenetworks/bfe/bfe_http"
	"github.com/bfenetworks/bfe/bfe_module"
	"github.com/bfenetworks/bfe/bfe_modules/mod_header"
	"github.com/bfenetworks/bfe/bfe_modules/mod_redirect"
	"github.com/bfenetworks/bfe/bfe_modules/mod_rewrite"
	"github.com/bfenetworks/bfe/bfe_server"
	"pgregory.net/rapid"

	"verif/harness/internal/ev"
	"verif/harness/internal/ref"
)

const c49RuleText = "cases = (module, 1-2 rules of 1-3 documented actions with doc-valid parameters, cond default_t()/req_path_prefix_in, Last) x request (host, path of 0-4 segments incl. %XX, query of 0-6 elements: plain/percent-/plus-encoded keys, keys without '=', empty values, repeated keys, ';', empty elements). non-trivial: a rule matched AND (rewrite: the query has an encoded/'='-less/repeated key touched by a query action, or a host/path action applied; header: an action hit an existing header or used a variable; redirect: redirect issued). distinct by the JSON of the whole case"

type c49Case struct {
	Mod   string    `json:"mod"` // rewrite | header | redirect
	Rules []c49Rule `json:"rules"`
	Req   reqSpec   `json:"req"`
	Resp  []hdr     `json:"resp,omitempty"`
}

type c49Mods struct {
	rewrite, header, redirect *modHost
}

var (
	c49Once sync.Once
	c49M    c49Mods
	c49Err  error
)

const emptyRules = `{"Version":"0","Config":{}}`

func c49Setup() (*c49Mods, error) {
	c49Once.Do(func() {
		if c49M.rewrite, c49Err = newModHost("c49-rewrite", mod_rewrite.NewModuleReWrite(),
			"[Basic]\nDataPath = mod_rewrite/rewrite.data\n", "mod_rewrite/rewrite.data", emptyRules); c49Err != nil {
			return
		}
		if c49M.header, c49Err = newModHost("c49-header", mod_header.NewModuleHeader(),
			"[Basic]\nDataPath = mod_header/header_rule.data\n", "mod_header/header_rule.data", emptyRules); c49Err != nil {
			return
		}
		c49M.redirect, c49Err = newModHost("c49-redirect", mod_redirect.NewModuleRedirect(),
			"[Basic]\nDataPath = mod_redirect/redirect.data\n", "mod_redirect/redirect.data", emptyRules)
	})
	return &c49M, c49Err
}

// ruleFile renders the rule file of the case's module for product "p".
func c49RuleFile(mod string, rules []c49Rule) string {
	var rs []map[string]any
	for _, r := range rules {
		var as []map[string]any
		for _, a := range r.Actions {
			ps := a.Params
			if ps == nil {
				ps = []string{}
			}
			if mod == "header" {
				as = append(as, map[string]any{"cmd": a.Cmd, "params": ps})
			} else {
				as = append(as, map[string]any{"Cmd": a.Cmd, "Params": ps})
			}
		}
		switch mod {
		case "rewrite":
			rs = append(rs, map[string]any{"Cond": r.cond(), "Actions": as, "Last": r.Last})
		case "header":
			rs = append(rs, map[string]any{"cond": r.cond(), "actions": as, "last": r.Last})
		case "redirect":
			rs = append(rs, map[string]any{"Cond": r.cond(), "Actions": as, "Status": r.Status})
		}
	}
	b, _ := json.Marshal(map[string]any{"Version": "c49", "Config": map[string]any{"p": rs}})
	return string(b)
}

func (ms *c49Mods) host(mod string) *modHost {
	switch mod {
	case "rewrite":
		return ms.rewrite
	case "header":
		return ms.header
	}
	return ms.redirect
}

// c49Load loads the case's rules; on rejection it names the documented action(s)
// that are rejected on their own.
func c49Load(ms *c49Mods, c *c49Case) (err error, culprits []string) {
	h := ms.host(c.Mod)
	err = h.reload(c49RuleFile(c.Mod, c.Rules))
	if err == nil {
		return nil, nil
	}
	seen := map[string]bool{}
	for _, r := range c.Rules {
		for _, a := range r.Actions {
			one := []c49Rule{{Actions: []c49Action{a}, Last: true, Status: 302}}
			if e := h.reload(c49RuleFile(c.Mod, one)); e != nil && !seen[a.Cmd] {
				seen[a.Cmd] = true
				culprits = append(culprits, a.Cmd)
			}
		}
	}
	sort.Strings(culprits)
	return err, culprits
}

type respRecorder struct {
	h    bfe_http.Header
	code int
	body []byte
}

func (r *respRecorder) Header() bfe_http.Header { return r.h }
func (r *respRecorder) Write(b []byte) (int, error) {
	r.body = append(r.body, b...)
	return len(b), nil
}
func (r *respRecorder) WriteHeader(c int) { r.code = c }

func c49VarsFor(s *reqSpec) map[string]string {
	return map[string]string{
		"bfe_client_ip": "10.1.2.3", "bfe_cip": "10.1.2.3", "bfe_client_port": "40000",
		"bfe_request_host": s.Host, "bfe_log_id": "log-4711", "bfe_vip": "10.9.8.7", "bfe_cluster": "cluster_x",
	}
}

func lowerMulti(h bfe_http.Header) map[string][]string {
	keys := make([]string, 0, len(h))
	for k := range h {
		keys = append(keys, k)
	}
	sort.Strings(keys)
	out := map[string][]string{}
	for _, k := range keys {
		lk := strings.ToLower(k)
		out[lk] = append(out[lk], h[k]...)
	}
	return out
}

var c49DefaultHdr = map[string]bool{"x-forwarded-host": true, "x-forwarded-for": true, "x-forwarded-port": true,
	"x-real-ip": true, "x-real-port": true, "x-bfe-ip": true, "host": true, "content-length": true, "user-agent": true}

func hasClass(cs []string, c string) bool {
	for _, x := range cs {
		if x == c {
			return true
		}
	}
	return false
}

// c49Check evaluates one case. It returns false when the case hit a known finding
// (excluded by construction).
func c49Check(tb ev.TB, rec *ev.Rec, c *c49Case, e2e *c49Rig) {
	ms, err := c49Setup()
	if err != nil {
		tb.Fatalf("harness: module setup: %v", err)
	}
	fpb, _ := json.Marshal(c)
	fp := string(fpb)
	classes := []string{"mod:" + c.Mod}
	if e2e != nil {
		fp = "e2e:" + fp
		classes = append(classes, "stage:end-to-end")
	} else {
		classes = append(classes, "stage:module")
	}
	for _, r := range c.Rules {
		for _, a := range r.Actions {
			classes = append(classes, "act:"+a.Cmd)
		}
	}
	nt := false
	defer func() { rec.Case(fp, nt, uniq(classes)...) }()

	// (i) acceptance
	loadFn := func() (error, []string) { return c49Load(ms, c) }
	if e2e != nil {
		loadFn = func() (error, []string) { return e2e.load(c) }
	}
	if lerr, culprits := loadFn(); lerr != nil {
		if _, ok := lerr.(harnessErr); ok || strings.HasPrefix(lerr.Error(), "harness:") {
			tb.Fatalf("harness: %v", lerr)
		}
		if len(culprits) == 0 {
			rec.Fail(tb, "accept/combination", c, "rule file with documented actions rejected although every action loads alone: %v", lerr)
			rec.Excluded("known-finding")
			return
		}
		for _, cmd := range culprits {
			if rec.Fail(tb, "accept/"+cmd, c, "documented action %s with valid parameters rejected by the %s loader: %v", cmd, c.Mod, lerr) {
				return
			}
		}
		classes = append(classes, "rejected-known")
		rec.Excluded("known-finding")
		return
	}

	req, err := buildReq(&c.Req, "p")
	if err != nil {
		rec.Excluded("bfe-parser-rejects-request")
		return
	}
	req.LogId = "log-4711"
	req.Route.ClusterName = "cluster_x"
	rawPath, rawQuery, _ := splitTarget(c.Req.Target)

	switch c.Mod {
	case "rewrite":
		m := newRwModel(c.Req.Host, rawPath, rawQuery)
		origPairs := splitQuery(rawQuery)
		matched, ok := runRewrite(m, c.Rules)
		if !ok {
			rec.Excluded("cond-open")
			return
		}
		for _, h := range m.Hosts {
			for i := 0; i < len(h); i++ {
				if h[i] <= 0x20 || h[i] >= 0x7f {
					// HOST_SET_FROM_PATH_PREFIX on a segment that is no host name (space, non-ASCII)
					rec.Excluded("host-from-path-not-a-hostname")
					return
				}
			}
		}
		var msg *ref.Message
		if e2e != nil {
			// every second case without a host action goes to the FastCGI cluster: there the
			// request URI the application sees (REQUEST_URI) is the observation
			hostAction := false
			for _, r := range c.Rules {
				for _, a := range r.Actions {
					if strings.HasPrefix(a.Cmd, "HOST_") {
						hostAction = true
					}
				}
			}
			if !hostAction {
				e2e.nRw++
			}
			e2e.useFcgi = !hostAction && e2e.nRw%3 != 1 // two of three eligible cases
			if e2e.useFcgi {
				classes = append(classes, "stage:end-to-end-fcgi")
			}
			x, rigTrouble := e2e.exchangeRobust(c)
			e2e.useFcgi = false
			if rigTrouble {
				classes = append(classes, "e2e-inconclusive-rig-5xx")
				rec.Excluded("e2e-inconclusive-rig-5xx")
				return
			}
			if x.timeout {
				rec.Excluded("e2e-inconclusive")
				return
			}
			if x.msg == nil {
				if x.status >= 500 && !c49ModuleForwards(ms, c) {
					rec.Excluded("e2e-5xx-agrees-with-module-stage")
					return
				}
				rec.Fail(tb, "rewrite/not-forwarded", c, "request was not forwarded to the backend (client got status %d, every retry; the same request without rules is forwarded)", x.status)
				return
			}
			msg = x.msg
		} else {
			var ret int
			if p := ev.Try(func() { ret, _ = ms.rewrite.filterRequest(bfe_module.HandleAfterLocation, req) }); p != nil {
				rec.Fail(tb, "panic/rewrite", c, "mod_rewrite panicked: %v", p)
				return
			}
			if ret != bfe_module.BfeHandlerGoOn {
				rec.Fail(tb, "rewrite/verdict", c, "rewrite handler returned %d, want GoOn", ret)
				return
			}
			var raw []byte
			if msg, raw, err = toBackend(req); err != nil {
				rec.Fail(tb, "rewrite/backend-write", c, "request not writable to the backend after rewrite: %v (%q)", err, raw)
				return
			}
		}
		obsHost := strings.Join(msg.Get("Host"), "|")
		obsRawPath, obsRawQuery, _ := splitTarget(msg.Target)
		obsPath, _ := pctDecode(obsRawPath, false)
		obsPairs := splitQuery(obsRawQuery)
		if matched {
			classes = append(classes, "matched")
		} else {
			classes = append(classes, "not-matched")
		}
		// class / non-trivial bookkeeping
		keyCount := map[string]int{}
		for _, p := range origPairs {
			keyCount[p.Key]++
		}
		for _, p := range origPairs {
			if p.RawK != p.Key {
				classes = append(classes, "q:encoded-key")
			}
			if !p.HasEq {
				classes = append(classes, "q:no-eq")
			}
			if keyCount[p.Key] > 1 {
				classes = append(classes, "q:repeated-key")
			}
			if strings.Contains(p.Raw, ";") {
				classes = append(classes, "q:semicolon")
			}
			if p.HasEq && p.RawV == "" {
				classes = append(classes, "q:empty-value")
			}
			if strings.Contains(p.Raw, "+") {
				classes = append(classes, "q:plus")
			}
		}
		if matched {
			for _, a := range m.Applied {
				switch {
				case strings.HasPrefix(a, "HOST_") || strings.HasPrefix(a, "PATH_"):
					nt = true
				case strings.HasPrefix(a, "QUERY_"):
					if hasClass(classes, "q:encoded-key") || hasClass(classes, "q:no-eq") || hasClass(classes, "q:repeated-key") {
						nt = true
					}
				}
			}
			if len(m.DeletedBy) > 0 {
				classes = append(classes, "q:something-deleted")
			}
		}
		// host
		if !hasClass(m.Hosts, obsHost) {
			key := "rewrite/host"
			for _, a := range m.Applied {
				if strings.HasPrefix(a, "HOST_") {
					key = "effect/" + a
				}
			}
			if rec.Fail(tb, key, c, "Host sent to backend %q, documented outcome(s) %q", obsHost, m.Hosts) {
				return
			}
			rec.Excluded("known-finding")
			return
		}
		// path
		if !hasClass(m.Paths, obsPath) {
			key := "rewrite/path"
			for _, a := range m.Applied {
				if strings.HasPrefix(a, "PATH_") {
					key = "effect/" + a
				}
			}
			if rec.Fail(tb, key, c, "path sent to backend %q (raw %q), documented outcome(s) %q", obsPath, obsRawPath, m.Paths) {
				return
			}
			rec.Excluded("known-finding")
			return
		}
		// query
		if m.QueryOpen {
			classes = append(classes, "q:rename-open")
			// still: nothing a delete action removed may be left
		}
		exp, obs := rawPairs(m.Pairs), rawPairs(obsPairs)
		same := eqStrings(exp, obs)
		if !same && m.QueryLoose {
			e2, o2 := append([]string(nil), exp...), append([]string(nil), obs...)
			sort.Strings(e2)
			sort.Strings(o2)
			same = eqStrings(e2, o2)
		}
		if !same && !m.QueryOpen {
			key, what := c49QueryDiff(m, exp, obs)
			if rec.Fail(tb, key, c, "query sent to backend %q: %s (elements expected %q, got %q)", obsRawQuery, what, exp, obs) {
				return
			}
			rec.Excluded("known-finding")
			return
		}
		if m.QueryOpen {
			// weaker check: no element deleted by a delete action survives
			for _, o := range obsPairs {
				if cmd, del := m.DeletedBy[o.Raw]; del && !c49StillExpected(m, o.Raw) {
					key := c49DelKey(cmd, o)
					if rec.Fail(tb, key, c, "deleted key %q still present as %q in %q", o.Key, o.Raw, obsRawQuery) {
						return
					}
					rec.Excluded("known-finding")
					return
				}
			}
		}

	case "header":
		path, _ := pctDecode(rawPath, false)
		vars := c49VarsFor(&c.Req)
		var msg *ref.Message
		var obsRsp map[string][]string
		if e2e != nil {
			x, rigTrouble := e2e.exchangeRobust(c)
			if rigTrouble {
				classes = append(classes, "e2e-inconclusive-rig-5xx")
				rec.Excluded("e2e-inconclusive-rig-5xx")
				return
			}
			if x.timeout {
				rec.Excluded("e2e-inconclusive")
				return
			}
			if x.msg == nil {
				if x.status >= 500 && !c49ModuleForwards(ms, c) {
					rec.Excluded("e2e-5xx-agrees-with-module-stage")
					return
				}
				rec.Fail(tb, "header/not-forwarded", c, "request was not forwarded to the backend (client got status %d, every retry; the same request without rules is forwarded)", x.status)
				return
			}
			msg, obsRsp = x.msg, x.rsp
			// what the real connection looks like: loopback client, no mod_logid, no VIP
			vars = map[string]string{"bfe_client_ip": "127.0.0.1", "bfe_cip": "127.0.0.1", "bfe_client_port": strconv.Itoa(x.localPort),
				"bfe_request_host": c.Req.Host, "bfe_cluster": "cluster_x"}
			for _, r := range c.Rules {
				for _, a := range r.Actions {
					if len(a.Params) > 1 && strings.HasPrefix(a.Params[1], "%") {
						if _, ok := vars[a.Params[1][1:]]; !ok {
							rec.Excluded("e2e-variable-not-modelled")
							return
						}
					}
				}
			}
		} else {
			res, err := attachResponse(req, 200, c.Resp)
			if err != nil {
				rec.Excluded("bfe-parser-rejects-response")
				return
			}
			var ret, ret2 int
			if p := ev.Try(func() {
				ret, _ = ms.header.filterRequest(bfe_module.HandleAfterLocation, req)
				ret2 = ms.header.filterResponse(bfe_module.HandleReadResponse, req, res)
			}); p != nil {
				rec.Fail(tb, "panic/header", c, "mod_header panicked: %v", p)
				return
			}
			if ret != bfe_module.BfeHandlerGoOn || ret2 != bfe_module.BfeHandlerGoOn {
				rec.Fail(tb, "header/verdict", c, "header handlers returned %d/%d, want GoOn", ret, ret2)
				return
			}
			var raw []byte
			if msg, raw, err = toBackend(req); err != nil {
				rec.Fail(tb, "header/backend-write", c, "request not writable to the backend after header actions: %v (%q)", err, raw)
				return
			}
			obsRsp = lowerMulti(res.Header)
		}
		reqM := newHdrModel(c.Req.Headers, vars)
		rspM := newHdrModel(c.Resp, vars)
		nReq := runHeader(reqM, c.Rules, "REQ_", path)
		nRsp := runHeader(rspM, c.Rules, "RSP_", path)
		obsReq := map[string][]string{}
		for _, f := range msg.Fields {
			k := strings.ToLower(f.Name)
			obsReq[k] = append(obsReq[k], f.Value)
		}
		if nReq+nRsp > 0 {
			classes = append(classes, "matched")
		} else {
			classes = append(classes, "not-matched")
		}
		for _, r := range c.Rules {
			for _, a := range r.Actions {
				k := strings.ToLower(a.Params[0])
				pre := newHdrModel(c.Req.Headers, vars)
				if strings.HasPrefix(a.Cmd, "RSP_") {
					pre = newHdrModel(c.Resp, vars)
				}
				if _, ok := pre.vals[k]; ok && nReq+nRsp > 0 {
					nt = true
					classes = append(classes, "h:existing-header")
				}
				if len(a.Params) > 1 && strings.HasPrefix(a.Params[1], "%") && nReq+nRsp > 0 {
					nt = true
					classes = append(classes, "h:variable")
				}
			}
		}
		known := map[string]bool{}
		for _, h := range c.Req.Headers {
			known[strings.ToLower(h.K)] = true
		}
		for _, h := range c.Resp {
			known[strings.ToLower(h.K)] = true
		}
		for _, r := range c.Rules {
			for _, a := range r.Actions {
				known[strings.ToLower(a.Params[0])] = true
			}
		}
		cmp := func(phase string, m *hdrModel, obs map[string][]string) bool {
			if m.open {
				classes = append(classes, "h:last-open")
				return true
			}
			names := map[string]bool{}
			for k := range m.vals {
				names[k] = true
			}
			for k := range obs {
				if e2e == nil || known[k] {
					names[k] = true // end to end the server adds headers of its own (Date, Connection, ...)
				}
			}
			var ns []string
			for k := range names {
				if !c49DefaultHdr[k] {
					ns = append(ns, k)
				}
			}
			sort.Strings(ns)
			for _, k := range ns {
				if !eqStrings(m.vals[k], obs[k]) {
					key := "header/untouched-changed"
					for _, r := range c.Rules {
						for _, a := range r.Actions {
							if strings.HasPrefix(a.Cmd, phase) && strings.ToLower(a.Params[0]) == k {
								key = "effect/" + a.Cmd
							}
						}
					}
					if rec.Fail(tb, key, c, "%sheader %q: got %q, documented outcome %q", phase, k, obs[k], m.vals[k]) {
						return false
					}
					rec.Excluded("known-finding")
					return false
				}
			}
			return true
		}
		if !cmp("REQ_", reqM, obsReq) {
			return
		}
		if !cmp("RSP_", rspM, obsRsp) {
			return
		}

	case "redirect":
		redirect, status, loc, open, cmd := redirectModel(c.Rules, c.Req.Host, c.Req.Target)
		if e2e != nil {
			x, rigTrouble := e2e.exchangeRobust(c)
			if rigTrouble {
				classes = append(classes, "e2e-inconclusive-rig-5xx")
				rec.Excluded("e2e-inconclusive-rig-5xx")
				return
			}
			if x.timeout {
				rec.Excluded("e2e-inconclusive")
				return
			}
			if !redirect {
				classes = append(classes, "not-matched")
				if x.msg == nil && x.status >= 500 && !c49ModuleForwards(ms, c) {
					rec.Excluded("e2e-5xx-agrees-with-module-stage")
					return
				}
				if x.msg == nil || x.status != 200 {
					rec.Fail(tb, "redirect/unexpected", c, "no rule matches but the request was not forwarded (status %d)", x.status)
				}
				return
			}
			classes = append(classes, "matched")
			if x.msg != nil {
				rec.Fail(tb, "effect/"+cmd, c, "matching redirect rule but the request was forwarded to the backend")
				return
			}
			if x.status != status {
				rec.Fail(tb, "redirect/status", c, "status %d, configured %d", x.status, status)
				return
			}
			if open {
				classes = append(classes, "r:open")
				return
			}
			nt = true
			if got := strings.Join(x.rsp["location"], "|"); got != loc {
				key := c49RedirectKey(c, cmd, rawQuery)
				if rec.Fail(tb, key, c, "%s: Location %q, documented %q", cmd, got, loc) {
					return
				}
				rec.Excluded("known-finding")
			}
			return
		}
		var ret int
		if p := ev.Try(func() { ret, _ = ms.redirect.filterRequest(bfe_module.HandleFoundProduct, req) }); p != nil {
			rec.Fail(tb, "panic/redirect", c, "mod_redirect panicked: %v", p)
			return
		}
		if !redirect {
			classes = append(classes, "not-matched")
			if ret != bfe_module.BfeHandlerGoOn {
				rec.Fail(tb, "redirect/unexpected", c, "no rule matches but handler returned %d", ret)
			}
			return
		}
		classes = append(classes, "matched")
		if ret != bfe_module.BfeHandlerRedirect {
			rec.Fail(tb, "effect/"+cmd, c, "matching redirect rule but handler returned %d, want Redirect", ret)
			return
		}
		rw := &respRecorder{h: bfe_http.Header{}}
		if p := ev.Try(func() {
			bfe_server.Redirect(rw, req.HttpRequest, req.Redirect.Url, req.Redirect.Code, req.Redirect.Header)
		}); p != nil {
			rec.Fail(tb, "panic/redirect-write", c, "bfe_server.Redirect panicked: %v", p)
			return
		}
		if rw.code != status {
			rec.Fail(tb, "redirect/status", c, "status %d, configured %d", rw.code, status)
			return
		}
		if open {
			classes = append(classes, "r:open")
			return
		}
		nt = true
		if got := rw.h.Get("Location"); got != loc {
			key := c49RedirectKey(c, cmd, rawQuery)
			if rec.Fail(tb, key, c, "%s: Location %q, documented %q", cmd, got, loc) {
				return
			}
			rec.Excluded("known-finding")
		}
	}
}

// c49ModuleForwards: does the module-level stage say the case's request goes on to a
// backend (module verdict GoOn and the request writable)? Used to judge an end-to-end
// 5xx: if the module stage does not forward either, both stages agree and the module
// stage is the one that reports.
func c49ModuleForwards(ms *c49Mods, c *c49Case) bool {
	if err, _ := c49Load(ms, c); err != nil {
		return false
	}
	req, err := buildReq(&c.Req, "p")
	if err != nil {
		return false
	}
	req.LogId = "log-4711"
	req.Route.ClusterName = "cluster_x"
	goOn := false
	if p := ev.Try(func() {
		var ret int
		switch c.Mod {
		case "rewrite":
			ret, _ = ms.rewrite.filterRequest(bfe_module.HandleAfterLocation, req)
		case "header":
			ret, _ = ms.header.filterRequest(bfe_module.HandleAfterLocation, req)
		default:
			ret, _ = ms.redirect.filterRequest(bfe_module.HandleFoundProduct, req)
		}
		goOn = ret == bfe_module.BfeHandlerGoOn
	}); p != nil || !goOn {
		return false
	}
	_, _, err = toBackend(req)
	return err == nil
}

func c49RedirectKey(c *c49Case, cmd, rawQuery string) string {
	key := "effect/" + cmd
	if cmd == "URL_FROM_QUERY" {
		for _, r := range c.Rules {
			if r.Actions[0].Cmd != cmd {
				continue
			}
			for _, p := range splitQuery(rawQuery) {
				if p.Key == r.Actions[0].Params[0] {
					if strings.Contains(p.Raw, ";") {
						key = "effect/URL_FROM_QUERY/semicolon-element"
					}
					break
				}
			}
		}
	}
	return key
}

func c49StillExpected(m *rwModel, raw string) bool {
	for _, p := range m.Pairs {
		if p.Raw == raw {
			return true
		}
	}
	return false
}

func c49DelKey(cmd string, p qpair) string {
	pre := "query-del/"
	if cmd == "QUERY_DEL_ALL_EXCEPT" {
		pre = "query-del-all-except/"
	}
	switch {
	case strings.Contains(p.Raw, ";") && cmd == "QUERY_DEL_ALL_EXCEPT":
		return pre + "semicolon-element" // the keys to delete come from url.Query() there
	case !p.HasEq:
		return pre + "key-without-eq"
	case p.RawK != p.Key:
		return pre + "encoded-key"
	}
	return pre + "plain-key-survives"
}

// c49QueryDiff names the discrepancy between expected and observed query elements.
func c49QueryDiff(m *rwModel, exp, obs []string) (key, what string) {
	cnt := map[string]int{}
	for _, e := range exp {
		cnt[e]++
	}
	var extra []string
	for _, o := range obs {
		if cnt[o] > 0 {
			cnt[o]--
		} else {
			extra = append(extra, o)
		}
	}
	missing := 0
	for _, n := range cnt {
		missing += n
	}
	if missing == 0 && len(extra) > 0 {
		all := true
		for _, x := range extra {
			if _, ok := m.DeletedBy[x]; !ok {
				all = false
			}
		}
		if all {
			p := splitQuery(extra[0])[0]
			return c49DelKey(m.DeletedBy[extra[0]], p), fmt.Sprintf("deleted key %q still present as %q", p.Key, p.Raw)
		}
	}
	for _, a := range m.Applied {
		if a != "QUERY_RENAME" {
			continue
		}
		for e, n := range cnt {
			if n > 0 && strings.Contains(e, ";") {
				return "effect/QUERY_RENAME/semicolon-element", "element containing ';' not renamed (renamed form " + e + " missing)"
			}
		}
	}
	if missing > 0 && len(m.DeletedBy) > 0 && len(extra) == 0 {
		return "query-del/other-parameter-lost", "a parameter that was not to be deleted is gone"
	}
	for _, a := range m.Applied {
		if a == "QUERY_RENAME" {
			// an element with ';' that was not renamed shows up as itself (extra) or, when a
			// later action removed it under its old name, only as a missing renamed element
			cand := append([]string(nil), extra...)
			for e, n := range cnt {
				if n > 0 {
					cand = append(cand, e)
				}
			}
			for _, x := range cand {
				if strings.Contains(x, ";") {
					return "effect/QUERY_RENAME/semicolon-element", "element containing ';' not renamed"
				}
			}
			return "effect/QUERY_RENAME", "rename outcome differs"
		}
	}
	for _, a := range m.Applied {
		if a == "QUERY_ADD" {
			return "effect/QUERY_ADD", "add outcome differs"
		}
	}
	if len(m.DeletedBy) > 0 {
		return "query-del/other-parameter-changed", "remaining parameters changed"
	}
	return "rewrite/query", "query changed"
}

// ---------------------------------------------------------------- generators

var (
	c49Hosts    = []string{"example.org", "www.example.org", "a.b.example.com", "example.org:8080", "m.example.net"}
	c49Segs     = []string{"a", "b", "service", "v1", "x.example.com", "%41bc", "a%2Db", "~u", "rewrite", "S"}
	c49Keys     = []string{"a", "b", "c", "k", "ab", "url", "a b", "q-1"}
	c49Vals     = []string{"1", "2", "x%20y", "a+b", "v;w", "%26x", "http%3A%2F%2Fx.org%2Fp%3Fz%3D1", "a=b", "%E4%B8%AD"}
	c49ReqNames = []string{"X-Custom", "x-lower", "X-Bfe-Log-Id", "Referer", "Accept-Language", "X_Under_Score", "X-Multi"}
	c49RspNames = []string{"X-Proxied-By", "Server", "Cache-Control", "X-Custom", "Set-Cookie", "x-lower"}
	c49HdrVals  = []string{"1", "abc", "v a l", "http://ref.example/x?y=1", "x=y; z"}
	c49HdrVars  = []string{"%bfe_client_ip", "%bfe_cip", "%bfe_client_port", "%bfe_request_host", "%bfe_log_id", "%bfe_vip", "%bfe_cluster"}
)

func pct(c byte) string { return fmt.Sprintf("%%%02X", c) }

func c49EncKey(rt *rapid.T, k string) string {
	mode := rapid.IntRange(0, 5).Draw(rt, "kenc")
	var b strings.Builder
	for i := 0; i < len(k); i++ {
		c := k[i]
		switch {
		case c == ' ':
			if mode == 3 || mode == 0 {
				b.WriteByte('+')
			} else {
				b.WriteString("%20")
			}
		case mode == 1 && i == 0, mode == 2:
			b.WriteString(pct(c))
		case mode == 4 && i == len(k)-1:
			b.WriteString(strings.ToLower(pct(c)))
		default:
			b.WriteByte(c)
		}
	}
	return b.String()
}

func c49GenQuery(rt *rapid.T, want []string) string {
	n := rapid.IntRange(0, 6).Draw(rt, "nq")
	var parts []string
	for i := 0; i < n; i++ {
		var k string
		if len(want) > 0 && rapid.IntRange(0, 9).Draw(rt, "usewant") < 6 {
			k = rapid.SampledFrom(want).Draw(rt, "wk")
		} else if rapid.IntRange(0, 19).Draw(rt, "semi") == 0 {
			k = "s;t"
		} else {
			k = rapid.SampledFrom(c49Keys).Draw(rt, "qk")
		}
		rk := k
		if rapid.IntRange(0, 9).Draw(rt, "enc") < 4 || strings.Contains(k, " ") {
			rk = c49EncKey(rt, k)
		}
		switch rapid.IntRange(0, 9).Draw(rt, "form") {
		case 0, 1:
			parts = append(parts, rk) // no '='
		case 2:
			parts = append(parts, rk+"=")
		default:
			parts = append(parts, rk+"="+rapid.SampledFrom(c49Vals).Draw(rt, "qv"))
		}
		if rapid.IntRange(0, 24).Draw(rt, "emptyel") == 0 {
			parts = append(parts, "")
		}
	}
	return strings.Join(parts, "&")
}

// c49EscSegs: segments whose percent-escapes stand for reserved characters, space, '%'
// and non-ASCII UTF-8 - the escapes a proxy must not decode when it repeats the URL
// (upper and lower case hex).
var c49EscSegs = []string{"hello%20world.html", "search%3Fq=1", "h%23frag", "100%25", "%E4%B8%AD%E6%96%87", "a%3fb", "%e4%b8%ad", "x%26y%3Dz", "semi%3Bcolon"}

func c49GenPath(rt *rapid.T, mod string) string {
	n := rapid.IntRange(0, 4).Draw(rt, "nseg")
	if n == 0 {
		return "/"
	}
	segs := make([]string, n)
	for i := range segs {
		// (in rewrite cases not as first segment: HOST_SET_FROM_PATH_PREFIX would make it a host name)
		if (mod != "rewrite" || i > 0) && rapid.IntRange(0, 9).Draw(rt, "escseg") < 3 {
			segs[i] = rapid.SampledFrom(c49EscSegs).Draw(rt, "eseg")
			continue
		}
		segs[i] = rapid.SampledFrom(c49Segs).Draw(rt, "seg")
	}
	p := "/" + strings.Join(segs, "/")
	if rapid.IntRange(0, 3).Draw(rt, "trail") == 0 {
		p += "/"
	}
	return p
}

func c49PathPrefixes(rawPath string) []string {
	p, _ := pctDecode(rawPath, false)
	out := []string{"/service", "/a", "/rewrite", "/nomatch"}
	segs := strings.Split(strings.Trim(p, "/"), "/")
	acc := ""
	for _, s := range segs {
		if s == "" {
			continue
		}
		acc += "/" + s
		out = append(out, acc, acc+"/")
	}
	if len(p) > 2 && p[1] < 0x80 {
		out = append(out, p[:2])
	}
	return out
}

func c49GenRewriteAction(rt *rapid.T, host, rawPath string, keysInQuery []string) c49Action {
	cmds := []string{"HOST_SET", "HOST_SET_FROM_PATH_PREFIX", "HOST_SUFFIX_REPLACE", "PATH_SET", "PATH_PREFIX_ADD",
		"PATH_PREFIX_TRIM", "QUERY_ADD", "QUERY_DEL", "QUERY_DEL_ALL_EXCEPT", "QUERY_RENAME",
		"QUERY_DEL", "QUERY_DEL_ALL_EXCEPT"}
	cmd := rapid.SampledFrom(cmds).Draw(rt, "cmd")
	keyPool := append(append([]string(nil), c49Keys...), keysInQuery...)
	keyPool = append(keyPool, keysInQuery...)
	switch cmd {
	case "HOST_SET":
		return c49Action{cmd, []string{rapid.SampledFrom([]string{"backend.internal", "new.example.org", "h2.example.org:8443"}).Draw(rt, "h")}}
	case "HOST_SET_FROM_PATH_PREFIX":
		return c49Action{cmd, []string{}}
	case "HOST_SUFFIX_REPLACE":
		olds := []string{".org", "example.org", ".com", ".net", "nomatch.io", ":8080", host}
		if i := strings.IndexByte(host, '.'); i >= 0 {
			olds = append(olds, host[i:])
		}
		return c49Action{cmd, []string{rapid.SampledFrom(olds).Draw(rt, "old"),
			rapid.SampledFrom([]string{".com", ".internal", "example.cn", ".org:81"}).Draw(rt, "new")}}
	case "PATH_SET":
		return c49Action{cmd, []string{rapid.SampledFrom([]string{"/new", "/a/b/c", "/index.html", "/v2/api/", "/"}).Draw(rt, "p")}}
	case "PATH_PREFIX_ADD":
		return c49Action{cmd, []string{rapid.SampledFrom([]string{"/v1/", "/bfe/", "/x/y/", "/", "/v1/", "/bfe/", "/v1", "pre/", "p"}).Draw(rt, "p")}}
	case "PATH_PREFIX_TRIM":
		return c49Action{cmd, []string{rapid.SampledFrom(c49PathPrefixes(rawPath)).Draw(rt, "p")}}
	case "QUERY_ADD":
		return c49Action{cmd, []string{rapid.SampledFrom([]string{"added", "a", "k2"}).Draw(rt, "k"),
			rapid.SampledFrom([]string{"1", "val", "x-y_z.~"}).Draw(rt, "v")}}
	case "QUERY_DEL", "QUERY_DEL_ALL_EXCEPT":
		n := rapid.IntRange(1, 3).Draw(rt, "nk")
		ks := make([]string, n)
		for i := range ks {
			ks[i] = rapid.SampledFrom(keyPool).Draw(rt, "k")
		}
		return c49Action{cmd, ks}
	default: // QUERY_RENAME
		return c49Action{cmd, []string{rapid.SampledFrom(keyPool).Draw(rt, "old"),
			rapid.SampledFrom([]string{"z", "new_k", "n2"}).Draw(rt, "new")}}
	}
}

func c49CaseVariant(rt *rapid.T, s string) string {
	switch rapid.IntRange(0, 3).Draw(rt, "case") {
	case 0:
		return strings.ToUpper(s)
	case 1:
		return strings.ToLower(s)
	}
	return s
}

func c49GenHeaderAction(rt *rapid.T) c49Action {
	cmd := rapid.SampledFrom([]string{"REQ_HEADER_SET", "REQ_HEADER_ADD", "REQ_HEADER_DEL", "RSP_HEADER_SET", "RSP_HEADER_ADD", "RSP_HEADER_DEL"}).Draw(rt, "cmd")
	names := c49ReqNames
	if strings.HasPrefix(cmd, "RSP_") {
		names = c49RspNames
	}
	name := c49CaseVariant(rt, rapid.SampledFrom(names).Draw(rt, "name"))
	if strings.HasSuffix(cmd, "_DEL") {
		return c49Action{cmd, []string{name}}
	}
	var v string
	if rapid.IntRange(0, 2).Draw(rt, "var") == 0 {
		v = rapid.SampledFrom(c49HdrVars).Draw(rt, "v")
	} else {
		v = rapid.SampledFrom(c49HdrVals).Draw(rt, "v")
	}
	return c49Action{cmd, []string{name, v}}
}

func c49GenHdrs(rt *rapid.T, names []string, label string) []hdr {
	n := rapid.IntRange(0, 4).Draw(rt, label+"n")
	out := make([]hdr, n)
	for i := range out {
		out[i] = hdr{c49CaseVariant(rt, rapid.SampledFrom(names).Draw(rt, label+"k")), rapid.SampledFrom(c49HdrVals).Draw(rt, label+"v")}
	}
	return out
}

func c49GenRedirectAction(rt *rapid.T) c49Action {
	cmd := rapid.SampledFrom([]string{"URL_SET", "URL_FROM_QUERY", "URL_PREFIX_ADD", "SCHEME_SET"}).Draw(rt, "cmd")
	switch cmd {
	case "URL_SET":
		return c49Action{cmd, []string{rapid.SampledFrom([]string{"https://example.org", "http://www.example.com/new?x=1&y=2",
			"https://a.example.org/p/q#frag", "/login", "/a/b/", "/v2/dir/?a=1", "/v2/dir?next=/a/", "/v2/?x=1&y=/"}).Draw(rt, "u")}}
	case "URL_FROM_QUERY":
		return c49Action{cmd, []string{rapid.SampledFrom([]string{"url", "u", "a b"}).Draw(rt, "k")}}
	case "URL_PREFIX_ADD":
		return c49Action{cmd, []string{rapid.SampledFrom([]string{"https://example.org", "http://m.example.org/mobile", "https://example.org:8443/x", "/m", "/mobile/x"}).Draw(rt, "p")}}
	}
	return c49Action{cmd, []string{rapid.SampledFrom([]string{"http", "https"}).Draw(rt, "s")}}
}

func c49GenCase(rt *rapid.T) *c49Case {
	c := &c49Case{}
	c.Mod = rapid.SampledFrom([]string{"rewrite", "rewrite", "rewrite", "header", "header", "redirect"}).Draw(rt, "mod")
	host := rapid.SampledFrom(c49Hosts).Draw(rt, "host")
	rawPath := c49GenPath(rt, c.Mod)
	nr := rapid.IntRange(1, 2).Draw(rt, "nrules")
	// actions first (so that the query can be biased towards the keys they name)
	var want []string
	for i := 0; i < nr; i++ {
		r := c49Rule{Last: rapid.Bool().Draw(rt, "last"), Status: rapid.SampledFrom([]int{301, 302, 303, 307, 308}).Draw(rt, "status")}
		if rapid.IntRange(0, 9).Draw(rt, "condkind") >= 7 {
			r.PathPrefix = rapid.SampledFrom(c49PathPrefixes(rawPath)).Draw(rt, "condp")
		}
		na := rapid.IntRange(1, 3).Draw(rt, "nact")
		if c.Mod == "redirect" {
			na = 1
		}
		for j := 0; j < na; j++ {
			var a c49Action
			switch c.Mod {
			case "rewrite":
				a = c49GenRewriteAction(rt, host, rawPath, want)
				if strings.HasPrefix(a.Cmd, "QUERY_") && a.Cmd != "QUERY_ADD" {
					if a.Cmd == "QUERY_RENAME" {
						want = append(want, a.Params[0])
					} else {
						want = append(want, a.Params...)
					}
				}
			case "header":
				a = c49GenHeaderAction(rt)
			default:
				a = c49GenRedirectAction(rt)
				if a.Cmd == "URL_FROM_QUERY" {
					want = append(want, a.Params[0])
				}
			}
			r.Actions = append(r.Actions, a)
		}
		c.Rules = append(c.Rules, r)
	}
	q := c49GenQuery(rt, want)
	if c.Mod == "redirect" && len(want) > 0 && rapid.IntRange(0, 9).Draw(rt, "urlval") < 7 {
		k := rapid.SampledFrom(want).Draw(rt, "urlkey")
		rk := c49EncKey(rt, k)
		v := rapid.SampledFrom([]string{"http%3A%2F%2Fx.org%2Fp%3Fz%3D1%26w%3D2", "https://n.example.org/x", "https%3a%2f%2fn.example.org%2Fa+b",
			"http://x.org/p;v=1", "https://x.org/?a=b", "%2Fv2%2Fdir%2F%3Fa%3D1", "/v2/dir?next=/a/", "/v2/"}).Draw(rt, "urlv")
		el := rk + "=" + v
		switch {
		case q == "":
			q = el
		case rapid.Bool().Draw(rt, "urlfirst"):
			q = el + "&" + q
		default:
			q = q + "&" + el
		}
	}
	target := rawPath
	if q != "" || rapid.IntRange(0, 9).Draw(rt, "bareq") == 0 {
		target += "?" + q
	}
	c.Req = reqSpec{Method: rapid.SampledFrom([]string{"GET", "GET", "POST", "HEAD"}).Draw(rt, "method"), Target: target, Host: host, Vip: "10.9.8.7"}
	if c.Mod == "header" {
		c.Req.Headers = c49GenHdrs(rt, c49ReqNames, "rq")
		c.Resp = c49GenHdrs(rt, c49RspNames, "rs")
	}
	return c
}

// c49Sweep: every documented action alone, with the parameters of the docs' own examples,
// on a fixed request.
func c49Sweep(t *testing.T, rec *ev.Rec, rig *c49Rig) {
	one := func(mod string, a c49Action, target string, hs, rs []hdr) {
		c := &c49Case{Mod: mod, Rules: []c49Rule{{Actions: []c49Action{a}, Last: true, Status: 301}},
			Req: reqSpec{Method: "GET", Target: target, Host: "www.example.org", Vip: "10.9.8.7", Headers: hs}, Resp: rs}
		rec.Sample(c)
		c49Check(t, rec, c, rig)
	}
	for _, a := range []c49Action{
		{"HOST_SET", []string{"backend.example.org"}}, {"HOST_SET_FROM_PATH_PREFIX", []string{}},
		{"HOST_SUFFIX_REPLACE", []string{".org", ".com"}}, {"PATH_SET", []string{"/index.html"}},
		{"PATH_PREFIX_ADD", []string{"/bfe/"}}, {"PATH_PREFIX_ADD", []string{"/v1/"}}, {"PATH_PREFIX_TRIM", []string{"/x.example.com"}},
		{"QUERY_ADD", []string{"k", "v"}}, {"QUERY_DEL", []string{"a"}}, {"QUERY_DEL_ALL_EXCEPT", []string{"b"}},
		{"QUERY_RENAME", []string{"a", "z"}},
	} {
		one("rewrite", a, "/x.example.com/service?a=1&b=2&c=3", nil, nil)
		one("rewrite", a, "/service", nil, nil)
	}
	for _, a := range []c49Action{
		{"REQ_HEADER_SET", []string{"X-Bfe-Log-Id", "%bfe_log_id"}}, {"REQ_HEADER_SET", []string{"X-Bfe-Vip", "%bfe_vip"}},
		{"REQ_HEADER_ADD", []string{"X-Custom", "2"}}, {"REQ_HEADER_DEL", []string{"X-Custom"}},
		{"RSP_HEADER_SET", []string{"X-Proxied-By", "bfe"}}, {"RSP_HEADER_ADD", []string{"Cache-Control", "no-store"}},
		{"RSP_HEADER_DEL", []string{"Server"}},
	} {
		one("header", a, "/header/x", []hdr{{"X-Custom", "1"}}, []hdr{{"Server", "nginx"}, {"Cache-Control", "private"}})
	}
	for _, a := range []c49Action{
		{"URL_SET", []string{"https://example.org"}}, {"URL_FROM_QUERY", []string{"url"}},
		{"URL_PREFIX_ADD", []string{"https://example.org"}}, {"SCHEME_SET", []string{"https"}},
	} {
		one("redirect", a, "/redirect?url=https%3A%2F%2Fn.example.org%2Fx%3Fy%3D1&b=2", nil, nil)
		one("redirect", a, "/docs/hello%20world.html/search%3Fq=1/100%25/%E4%B8%AD?url=https%3A%2F%2Fn.example.org%2F&b=2", nil, nil)
	}
	// host-relative redirect targets with a query and trailing slashes (path or query)
	for _, a := range []c49Action{
		{"URL_SET", []string{"/v2/dir/?a=1"}}, {"URL_SET", []string{"/v2/dir?next=/a/"}}, {"URL_SET", []string{"/v2/"}},
		{"URL_FROM_QUERY", []string{"url"}}, {"URL_PREFIX_ADD", []string{"/m"}},
	} {
		one("redirect", a, "/old/dir/?url=%2Fv2%2Fdir%2F%3Fa%3D1&b=2", nil, nil)
		one("redirect", a, "/old/dir?b=2&url=/v2/dir?next=/a/", nil, nil)
	}
}

func TestC49(t *testing.T) {
	rec := ev.New("C49", c49RuleText)
	if _, err := c49Setup(); err != nil {
		t.Fatalf("harness: %v", err)
	}
	c49Sweep(t, rec, nil)
	// end-to-end stage: one in-process BFE with the three modules and a harness backend;
	// the sweep and every 16th generated case (8th in the thorough tier) also go through it
	rig, err := c49StartRig()
	if err != nil {
		t.Fatalf("harness: rig: %v", err)
	}
	c49Sweep(t, rec, rig)
	every := ev.N(16, 8)
	n := 0
	rapid.Check(t, func(rt *rapid.T) {
		c := c49GenCase(rt)
		rec.Sample(c)
		c49Check(rt, rec, c, nil)
		n++
		if n%every == 0 {
			c49Check(rt, rec, c, rig)
		}
	})
	rec.Set("e2e_exchanges", int64(rig.total))
	rec.Set("e2e_rig_5xx", int64(rig.rig5xx))
	rec.Set("e2e_5xx_retries", int64(rig.retries))
	if !t.Failed() && rig.total >= 20 && rig.rig5xx*5 > rig.total {
		// infrastructure, not a verdict on bfe: no VIOLATION line, the driver maps this to exit 2
		t.Fatalf("harness: the end-to-end rig could not forward %d of %d requests even without rules (machine overloaded?): inconclusive", rig.rig5xx, rig.total)
	}
}

var _ = bfe_basic.GlobalProduct

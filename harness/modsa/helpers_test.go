package modsa

// Shared plumbing of the modsa checks (no oracle logic here):
//   - modHost: one bfe module instance constructed the way the module's own unit
//     tests do it (NewModuleX(); Init(bfe_module.NewBfeCallbacks(),
//     web_monitor.NewWebHandlers(), confRoot)) on a generated conf root; new rule
//     files go through the reload handler the module registered with the web
//     monitor (what `curl monitor/reload/<mod>?path=...` runs); requests go through
//     the HandlerList of the callback point the module registered at.
//   - buildReq: a bfe_basic.Request built like bfe_server/http_conn.go builds it:
//     wire bytes -> bfe_http.ReadRequest, bfe_basic.NewSession(conn),
//     bfe_basic.NewRequest, ClientAddr as setClientAddr sets it for an untrusted peer.
//   - toBackend: the bytes bfe would write to a backend for the (possibly rewritten)
//     request: copy of HttpRequest as ReverseProxy.ServeHTTP makes it, Request.Write
//     (the function the transport uses), parsed with the harness' strict parser.
//   - query helpers: '&'-split and percent-decoding written here (never url.ParseQuery).

import (
	"bytes"
	"fmt"
	"net"
	"net/url"
	"os"
	"path/filepath"
	"strings"
	"sync"
	"time"

	"github.com/baidu/go-lib/log"
	"github.com/baidu/go-lib/web-monitor/web_monitor"
	"github.com/bfenetworks/bfe/bfe_basic"
	"github.com/bfenetworks/bfe/bfe_bufio"
	"github.com/bfenetworks/bfe/bfe_http"
	"github.com/bfenetworks/bfe/bfe_module"

	"verif/harness/internal/ref"
)

var (
	workOnce sync.Once
	workPath string
	logOnce  sync.Once
)

func workDir() string {
	workOnce.Do(func() {
		if w := os.Getenv("VERIF_WORK"); w != "" {
			workPath = w
		} else {
			workPath, _ = os.MkdirTemp("", "verif-modsa")
		}
		os.MkdirAll(workPath, 0o755)
	})
	return workPath
}

func initLog() {
	logOnce.Do(func() {
		if log.Logger == nil {
			d := filepath.Join(workDir(), "log")
			os.MkdirAll(d, 0o755)
			log.Init("bfe", "ERROR", d, false, "midnight", 7)
		}
	})
}

type modHost struct {
	name string
	mod  bfe_module.BfeModule
	cbs  *bfe_module.BfeCallbacks
	whs  *web_monitor.WebHandlers
	root string
	gen  int
}

// newModHost writes <root>/<name>/<name>.conf (content conf) plus the initial rule
// file (relative path dataRel, content data) and initialises the module.
func newModHost(tag string, mod bfe_module.BfeModule, conf, dataRel, data string) (*modHost, error) {
	initLog()
	root := filepath.Join(workDir(), "conf-"+tag)
	os.RemoveAll(root)
	name := mod.Name()
	if err := os.MkdirAll(filepath.Join(root, name), 0o755); err != nil {
		return nil, err
	}
	if err := os.WriteFile(filepath.Join(root, name, name+".conf"), []byte(conf), 0o644); err != nil {
		return nil, err
	}
	if err := os.WriteFile(filepath.Join(root, dataRel), []byte(data), 0o644); err != nil {
		return nil, err
	}
	h := &modHost{name: name, mod: mod, cbs: bfe_module.NewBfeCallbacks(), whs: web_monitor.NewWebHandlers(), root: root}
	if err := mod.Init(h.cbs, h.whs, root); err != nil {
		return nil, fmt.Errorf("%s.Init: %v", name, err)
	}
	return h, nil
}

// reload writes content as a new rule file and runs the module's reload handler on it.
func (h *modHost) reload(content string) error {
	h.gen++
	p := filepath.Join(h.root, h.name, fmt.Sprintf("gen%d.data", h.gen%2))
	if err := os.WriteFile(p, []byte(content), 0o644); err != nil {
		return fmt.Errorf("harness: %v", err)
	}
	return callReload(h.whs, h.name, p)
}

type harnessErr struct{ error }

func callReload(whs *web_monitor.WebHandlers, name, path string) error {
	f, err := whs.GetHandler(web_monitor.WebHandleReload, name)
	if err != nil {
		return harnessErr{err}
	}
	q := url.Values{}
	q.Set("path", path)
	switch g := f.(type) {
	case func() error:
		return g()
	case func(map[string][]string) error:
		return g(q)
	case func(url.Values) error:
		return g(q)
	case func(url.Values) (string, error):
		_, err := g(q)
		return err
	}
	return harnessErr{fmt.Errorf("reload handler of %s has unsupported type %T", name, f)}
}

func (h *modHost) filterRequest(point int, req *bfe_basic.Request) (int, *bfe_http.Response) {
	hl := h.cbs.GetHandlerList(point)
	if hl == nil {
		return bfe_module.BfeHandlerGoOn, nil
	}
	return hl.FilterRequest(req)
}

func (h *modHost) filterResponse(point int, req *bfe_basic.Request, res *bfe_http.Response) int {
	hl := h.cbs.GetHandlerList(point)
	if hl == nil {
		return bfe_module.BfeHandlerGoOn
	}
	return hl.FilterResponse(req, res)
}

// ---------------------------------------------------------------- requests

type hdr struct {
	K string `json:"k"`
	V string `json:"v"`
}

type reqSpec struct {
	Method  string `json:"method"`
	Target  string `json:"target"` // origin-form request target as sent by the client
	Host    string `json:"host"`
	Headers []hdr  `json:"headers,omitempty"`
	Remote  string `json:"remote,omitempty"` // peer IP (default 10.1.2.3)
	RPort   int    `json:"rport,omitempty"`
	Vip     string `json:"vip,omitempty"`
}

type fakeConn struct {
	remote *net.TCPAddr
	vaddr  *net.TCPAddr
}

func (c *fakeConn) Read(b []byte) (int, error)         { return 0, fmt.Errorf("closed") }
func (c *fakeConn) Write(b []byte) (int, error)        { return len(b), nil }
func (c *fakeConn) Close() error                       { return nil }
func (c *fakeConn) LocalAddr() net.Addr                { return &net.TCPAddr{IP: net.IPv4(127, 0, 0, 1), Port: 8080} }
func (c *fakeConn) RemoteAddr() net.Addr               { return c.remote }
func (c *fakeConn) SetDeadline(t time.Time) error      { return nil }
func (c *fakeConn) SetReadDeadline(t time.Time) error  { return nil }
func (c *fakeConn) SetWriteDeadline(t time.Time) error { return nil }

func (s *reqSpec) wire() []byte {
	var b bytes.Buffer
	m := s.Method
	if m == "" {
		m = "GET"
	}
	fmt.Fprintf(&b, "%s %s HTTP/1.1\r\nHost: %s\r\n", m, s.Target, s.Host)
	for _, h := range s.Headers {
		fmt.Fprintf(&b, "%s: %s\r\n", h.K, h.V)
	}
	b.WriteString("\r\n")
	return b.Bytes()
}

// buildReq returns the bfe request for s routed to product, or an error when
// bfe's own HTTP parser rejects the wire form (case outside the domain).
func buildReq(s *reqSpec, product string) (*bfe_basic.Request, error) {
	hreq, err := bfe_http.ReadRequest(bfe_bufio.NewReader(bytes.NewReader(s.wire())), 8192)
	if err != nil {
		return nil, fmt.Errorf("ReadRequest: %v", err)
	}
	remote := s.Remote
	if remote == "" {
		remote = "10.1.2.3"
	}
	rip := net.ParseIP(remote)
	if rip == nil {
		return nil, fmt.Errorf("bad remote %q", remote)
	}
	if v4 := rip.To4(); v4 != nil {
		rip = v4
	}
	port := s.RPort
	if port == 0 {
		port = 40000
	}
	conn := &fakeConn{remote: &net.TCPAddr{IP: rip, Port: port}}
	hreq.RemoteAddr = conn.remote.String()
	hreq.State.SerialNumber = 1
	hreq.State.Conn = conn
	ses := bfe_basic.NewSession(conn)
	if s.Vip != "" {
		ses.Vip = net.ParseIP(s.Vip)
		ses.Vport = 80
	}
	ses.Proto = "http"
	req := bfe_basic.NewRequest(hreq, conn, bfe_basic.NewRequestStat(time.Unix(1500000000, 0)), ses, nil)
	req.ClientAddr = req.RemoteAddr // setClientAddr for a peer that is not a trusted proxy
	req.Route.Product = product     // findProduct
	return req, nil
}

// attachResponse parses raw response head bytes the way the proxy reads a backend response.
func attachResponse(req *bfe_basic.Request, status int, headers []hdr) (*bfe_http.Response, error) {
	var b bytes.Buffer
	fmt.Fprintf(&b, "HTTP/1.1 %d Status\r\n", status)
	for _, h := range headers {
		fmt.Fprintf(&b, "%s: %s\r\n", h.K, h.V)
	}
	b.WriteString("Content-Length: 0\r\n\r\n")
	res, err := bfe_http.ReadResponse(bfe_bufio.NewReader(&b), req.HttpRequest)
	if err != nil {
		return nil, err
	}
	req.HttpResponse = res
	return res, nil
}

// toBackend serialises the request as the proxy would send it to a backend.
func toBackend(req *bfe_basic.Request) (*ref.Message, []byte, error) {
	out := new(bfe_http.Request)
	*out = *req.HttpRequest
	out.Proto, out.ProtoMajor, out.ProtoMinor = "HTTP/1.1", 1, 1 // httpProtoSet
	var buf bytes.Buffer
	if err := out.Write(&buf); err != nil {
		return nil, nil, err
	}
	m, err := ref.ParseRequest(buf.Bytes())
	if err != nil {
		return nil, buf.Bytes(), fmt.Errorf("backend bytes unparsable: %v", err)
	}
	return m, buf.Bytes(), nil
}

// ---------------------------------------------------------------- query / escaping

// pctDecode decodes %XX (and '+' as space when plus is set). ok=false on a malformed escape.
func pctDecode(s string, plus bool) (string, bool) {
	var b strings.Builder
	for i := 0; i < len(s); i++ {
		c := s[i]
		switch {
		case c == '%':
			if i+2 >= len(s) {
				return s, false
			}
			h, ok1 := unhex(s[i+1])
			l, ok2 := unhex(s[i+2])
			if !ok1 || !ok2 {
				return s, false
			}
			b.WriteByte(h<<4 | l)
			i += 2
		case c == '+' && plus:
			b.WriteByte(' ')
		default:
			b.WriteByte(c)
		}
	}
	return b.String(), true
}

func unhex(c byte) (byte, bool) {
	switch {
	case c >= '0' && c <= '9':
		return c - '0', true
	case c >= 'a' && c <= 'f':
		return c - 'a' + 10, true
	case c >= 'A' && c <= 'F':
		return c - 'A' + 10, true
	}
	return 0, false
}

// qpair is one '&'-separated element of a raw query string.
type qpair struct {
	Raw   string // as on the wire
	Key   string // decoded key
	Val   string // decoded value
	HasEq bool
	RawK  string
	RawV  string
}

// splitQuery splits on '&' only (what a backend sees), dropping empty elements.
func splitQuery(raw string) []qpair {
	var out []qpair
	for _, p := range strings.Split(raw, "&") {
		if p == "" {
			continue
		}
		q := qpair{Raw: p}
		if i := strings.IndexByte(p, '='); i >= 0 {
			q.HasEq = true
			q.RawK, q.RawV = p[:i], p[i+1:]
		} else {
			q.RawK = p
		}
		q.Key, _ = pctDecode(q.RawK, true)
		q.Val, _ = pctDecode(q.RawV, true)
		out = append(out, q)
	}
	return out
}

func rawPairs(ps []qpair) []string {
	out := make([]string, len(ps))
	for i, p := range ps {
		out[i] = p.Raw
	}
	return out
}

// splitTarget splits an origin-form request target into raw path and raw query.
func splitTarget(t string) (path, query string, hasQ bool) {
	if i := strings.IndexByte(t, '?'); i >= 0 {
		return t[:i], t[i+1:], true
	}
	return t, "", false
}

func eqStrings(a, b []string) bool {
	if len(a) != len(b) {
		return false
	}
	for i := range a {
		if a[i] != b[i] {
			return false
		}
	}
	return true
}

func jsonStr(s string) string {
	var b strings.Builder
	b.WriteByte('"')
	for _, r := range s {
		switch {
		case r == '"' || r == '\\':
			b.WriteByte('\\')
			b.WriteRune(r)
		case r < 0x20:
			fmt.Fprintf(&b, "\\u%04x", r)
		default:
			b.WriteRune(r)
		}
	}
	b.WriteByte('"')
	return b.String()
}

func mustWriteFile(p, content string) error {
	if err := os.MkdirAll(filepath.Dir(p), 0o755); err != nil {
		return err
	}
	return os.WriteFile(p, []byte(content), 0o644)
}

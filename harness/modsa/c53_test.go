package modsa

// C53: for a prison rule and a request key, once more than Threshold requests arrive
// within one CheckPeriod the key is denied until StayPeriod plus the rest of that
// period has passed; other keys are unaffected; requests below the threshold are
// never denied.
//
// Real clock, no hook. One batch = many independent keys spread over several prison
// rule groups (products), all driven on one shared ~6 s timeline by one scheduler
// goroutine through mod_prison's registered HandleFoundProduct callback, with rules
// loaded from a generated prison.data through the registered reload handler. Every
// call records t_before / t_after (wall clock, as bfe reads it).
//
// Oracle (docs/en_us/modules/mod_prison/mod_prison.md: "CheckPeriod: period of check
// time", "StayPeriod: period of prison time if visits exceed the limit", "Threshold:
// take action if exceeding threshold during specified CheckPeriod"; property text):
// fixed check windows - a window starts with the first counted request and lasts
// CheckPeriod; the request that makes the count exceed Threshold is denied and the
// key stays denied until windowStart+CheckPeriod+StayPeriod; denied requests are not
// counted; afterwards counting starts afresh. The model is evaluated on the MEASURED
// timestamps. A key is discarded (counted, never a failure) from the first request
// whose [t_before,t_after] comes within 15 ms of a window/jail boundary, or where
// the fixed-window reading and a sliding-window reading of "within one CheckPeriod"
// disagree.

import (
	"encoding/json"
	"fmt"
	"sort"
	"strings"
	"sync"
	"testing"
	"time"

	"github.com/bfenetworks/bfe/bfe_basic"
	"github.com/bfenetworks/bfe/bfe_module"
	"github.com/bfenetworks/bfe/bfe_modules/mod_prison"
	"pgregory.net/rapid"

	"verif/harness/internal/ev"
)

const c53RuleText = "one case = one key: (rule group of 1-2 prison rules: CheckPeriod 1-2 s, StayPeriod 1-2 s (0 rarely), Threshold 0-5, action CLOSE/FINISH/REQ_HEADER_SET, key taken from header/cookie/client ip/query/path/url) x a planned list of request offsets on a shared 6 s timeline (patterns: burst over the threshold + probes inside and after the jail, exactly-threshold then next window, below-threshold spacing, random), planned >= 40 ms away from every model boundary. 100-300 keys per batch interleaved on shared rules; every second key is an IPv6 client, group 0 is keyed by client address; once per batch prison.data is hot-reloaded mid-timeline with the same rules/names and other LRU sizes. non-trivial: the key crosses the threshold and has an evaluated probe inside the jail and one after it. distinct by (rule parameters, planned offsets)"

const (
	c53TimelineMs = 6000
	c53PlanGuard  = 40 * int64(time.Millisecond)
	c53EvalGuard  = 15 * int64(time.Millisecond)
)

type c53Rule struct {
	Name   string `json:"name"`
	Action string `json:"action"` // CLOSE | FINISH | REQ_HEADER_SET
	Sign   string `json:"sign"`   // header | cookie | clientip | query | path | url
	CP     int64  `json:"check_period_s"`
	SP     int64  `json:"stay_period_s"`
	T      int32  `json:"threshold"`
	Dict1  int    `json:"dict_size"`              // AccessDictSize = PrisonDictSize at first load
	Dict2  int    `json:"dict_size_after_reload"` // ... in the rule file reloaded mid-batch (same rule names)
}

type c53Key struct {
	ID      int     `json:"id"`
	Group   int     `json:"group"`
	Pattern string  `json:"pattern"`
	Offsets []int64 `json:"offsets_ms"`
}

type c53Batch struct {
	Groups [][]c53Rule `json:"groups"`
	Keys   []c53Key    `json:"keys"`
	// ReloadAtMs: point of the timeline where prison.data is hot-reloaded through the
	// module's reload handler with unchanged rules but other LRU sizes (0: no reload)
	ReloadAtMs int64 `json:"reload_at_ms"`
}

// c53Remote: client address of key id - every second key is an IPv6 client.
func c53Remote(batch, id int) string {
	if id%2 == 1 {
		return fmt.Sprintf("2001:db8:%x::%x", batch&0xffff, id+1)
	}
	return fmt.Sprintf("10.%d.%d.%d", 1+(batch%200), id>>8, id&255)
}

// ---- model

type c53State struct {
	winStart  int64 // -1: no open window
	winW      int64 // measurement width of the request that opened the window
	count     int32
	jailUntil int64 // 0: not jailed
	jailW     int64
	counted   []int64 // times of counted requests since the last jail (sliding-window cross-check)
	everJail  bool
}

type c53Verdict int

const (
	c53Allow c53Verdict = iota
	c53Deny
	c53Discard
)

// near reports whether the measured interval [b,a] comes within guard of the boundary
// interval [B, B+w].
func near(b, a, B, w, guard int64) bool {
	return b-guard <= B+w && a+guard >= B
}

// step evaluates one request measured in [b,a] for rule r. why is set for discards;
// phase tells where in the cycle an evaluated verdict fell.
func (s *c53State) step(r *c53Rule, b, a, guard int64) (v c53Verdict, phase, why string) {
	cp, sp := r.CP*int64(time.Second), r.SP*int64(time.Second)
	t := b
	if s.jailUntil > 0 {
		if near(b, a, s.jailUntil, s.jailW, guard) {
			return c53Discard, "", "near-jail-end"
		}
		if t < s.jailUntil {
			return c53Deny, "inside-jail", ""
		}
		s.jailUntil = 0
		phase = "after-jail"
	}
	if s.winStart >= 0 {
		if near(b, a, s.winStart+cp, s.winW, guard) {
			return c53Discard, "", "near-window-end"
		}
		if s.winStart+cp < t {
			s.winStart = -1
		}
	}
	if s.winStart < 0 {
		s.winStart, s.winW, s.count = t, a-b, 0
		if a-b > guard/2 {
			return c53Discard, "", "slow-call"
		}
	}
	s.count++
	s.counted = append(s.counted, t)
	if s.count > r.T {
		s.jailUntil, s.jailW = s.winStart+cp+sp, s.winW
		s.winStart = -1
		s.counted = nil
		s.everJail = true
		if phase == "" {
			phase = "crossing"
		}
		return c53Deny, phase, ""
	}
	// allowed by the fixed-window reading; would a sliding window of CheckPeriod deny it?
	n := int32(0)
	for _, x := range s.counted {
		if x > t-cp-guard {
			n++
		}
	}
	if n > r.T {
		return c53Discard, "", "sliding-window-ambiguous"
	}
	if phase == "" {
		phase = "counting"
	}
	return c53Allow, phase, ""
}

// ---- plan generation

func c53Plan(rt *rapid.T, rules []c53Rule, id int) (string, []int64) {
	r := rules[0]
	cp, sp := r.CP*1000, r.SP*1000
	T := int64(r.T)
	var offs []int64
	pattern := rapid.SampledFrom([]string{"burst-probe", "burst-probe", "burst-probe", "exact-then-next-window", "below", "random", "two-cycles"}).Draw(rt, "pattern")
	start := int64(rapid.IntRange(0, 1200).Draw(rt, "start"))
	burst := func(at int64, n int64) int64 {
		for i := int64(0); i < n; i++ {
			offs = append(offs, at)
			at += int64(rapid.IntRange(2, 60).Draw(rt, "gap"))
		}
		return at
	}
	switch pattern {
	case "burst-probe", "two-cycles":
		n := T + 1 + int64(rapid.IntRange(0, 2).Draw(rt, "extra"))
		end := burst(start, n)
		jailEnd := start + cp + sp
		for i := 0; i < rapid.IntRange(1, 3).Draw(rt, "nin"); i++ {
			lo, hi := end+50, jailEnd-60
			if hi > lo {
				offs = append(offs, int64(rapid.Int64Range(lo, hi).Draw(rt, "in")))
			}
		}
		after := jailEnd + int64(rapid.IntRange(50, 600).Draw(rt, "after"))
		offs = append(offs, after)
		if pattern == "two-cycles" {
			burst(after+int64(rapid.IntRange(5, 50).Draw(rt, "g2")), T+1)
			offs = append(offs, after+cp+sp+int64(rapid.IntRange(60, 400).Draw(rt, "after2")))
		} else if rapid.Bool().Draw(rt, "more") {
			offs = append(offs, after+int64(rapid.IntRange(50, 900).Draw(rt, "after3")))
		}
	case "exact-then-next-window":
		if T > 0 {
			burst(start, T)
		}
		nx := start + cp + int64(rapid.IntRange(50, 500).Draw(rt, "next"))
		burst(nx, T+int64(rapid.IntRange(0, 1).Draw(rt, "over")))
		offs = append(offs, nx+cp+int64(rapid.IntRange(50, 500).Draw(rt, "next2")))
	case "below":
		at := start
		for at < c53TimelineMs {
			offs = append(offs, at)
			at += cp/(T+1) + int64(rapid.IntRange(60, 700).Draw(rt, "sp"))
		}
	default:
		n := rapid.IntRange(3, 12).Draw(rt, "n")
		for i := 0; i < n; i++ {
			offs = append(offs, int64(rapid.IntRange(0, c53TimelineMs).Draw(rt, "o")))
		}
	}
	sort.Slice(offs, func(i, j int) bool { return offs[i] < offs[j] })
	// keep planned requests >= 40 ms away from every model boundary of every rule of the group
	var out []int64
	states := make([]c53State, len(rules))
	for i := range states {
		states[i].winStart = -1
	}
	for _, o := range offs {
		placed := false
		for try := 0; try < 6 && !placed; try++ {
			if o > c53TimelineMs || (len(out) > 0 && o <= out[len(out)-1]) {
				o = maxI64(o, lastOr(out, -1)+2)
			}
			if o > c53TimelineMs {
				break
			}
			t := o * int64(time.Millisecond)
			ok := true
			for i := range rules {
				s := states[i] // copy
				s.counted = append([]int64(nil), s.counted...)
				if v, _, why := s.step(&rules[i], t, t, c53PlanGuard); v == c53Discard && why != "sliding-window-ambiguous" {
					ok = false
				}
			}
			if !ok {
				o += 45
				continue
			}
			for i := range rules {
				v, _, _ := states[i].step(&rules[i], t, t, c53PlanGuard)
				if v == c53Deny && rules[i].Action != "REQ_HEADER_SET" {
					break // later rules do not see the request
				}
			}
			out = append(out, o)
			placed = true
		}
	}
	return pattern, out
}

func maxI64(a, b int64) int64 {
	if a > b {
		return a
	}
	return b
}

func lastOr(s []int64, d int64) int64 {
	if len(s) == 0 {
		return d
	}
	return s[len(s)-1]
}

func c53GenBatch(rt *rapid.T, batchNo int) *c53Batch {
	b := &c53Batch{}
	ng := rapid.IntRange(6, 14).Draw(rt, "ngroups")
	for g := 0; g < ng; g++ {
		nr := 1
		if g%3 == 2 {
			nr = 2
		}
		var rules []c53Rule
		for j := 0; j < nr; j++ {
			r := c53Rule{Name: fmt.Sprintf("b%d-g%d-r%d", batchNo, g, j),
				Action: rapid.SampledFrom([]string{"CLOSE", "FINISH", "REQ_HEADER_SET"}).Draw(rt, "action"),
				Sign:   rapid.SampledFrom([]string{"header", "cookie", "clientip", "query", "path", "url"}).Draw(rt, "sign"),
				CP:     int64(rapid.IntRange(1, 2).Draw(rt, "cp")),
				SP:     int64(rapid.SampledFrom([]int{1, 1, 1, 2, 2, 2, 0}).Draw(rt, "sp")),
				T:      int32(rapid.SampledFrom([]int{1, 2, 3, 4, 5, 1, 2, 3, 0}).Draw(rt, "t")),
				// LRU sizes before / after the mid-batch reload (always far above the number of keys)
				Dict1: rapid.SampledFrom([]int{4000, 1000, 8000}).Draw(rt, "dict1"),
				Dict2: rapid.SampledFrom([]int{1000, 4000, 8000}).Draw(rt, "dict2")}
			if nr == 2 && j == 0 && rapid.Bool().Draw(rt, "first-continues") {
				r.Action = "REQ_HEADER_SET"
			}
			if g == 0 && j == 0 {
				r.Sign = "clientip" // every batch has a rule keyed by client address (IPv4 and IPv6 clients)
			}
			rules = append(rules, r)
		}
		b.Groups = append(b.Groups, rules)
	}
	b.ReloadAtMs = int64(rapid.IntRange(1500, 3500).Draw(rt, "reload-at"))
	nk := rapid.IntRange(ev.N(220, 150), ev.N(300, 300)).Draw(rt, "nkeys")
	for k := 0; k < nk; k++ {
		g := rapid.IntRange(0, ng-1).Draw(rt, "group")
		if k < 24 {
			g = 0 // enough keys on the client-address rule
		}
		pat, offs := c53Plan(rt, b.Groups[g], k)
		b.Keys = append(b.Keys, c53Key{ID: k, Group: g, Pattern: pat, Offsets: offs})
	}
	return b
}

// ---- driving bfe

var (
	c53Once  sync.Once
	c53H     *modHost
	c53Err   error
	c53Count int
)

func c53Setup() (*modHost, error) {
	c53Once.Do(func() {
		c53H, c53Err = newModHost("c53", mod_prison.NewModulePrison(),
			"[basic]\nProductRulePath = mod_prison/prison.data\n\n[log]\nOpenDebug = false\n", "mod_prison/prison.data", emptyRules)
	})
	return c53H, c53Err
}

func c53HeaderName(j int) string { return fmt.Sprintf("X-Bfe-Prison-%d", j) }

// c53RuleFile renders prison.data; phase 2 is the mid-batch reload: same products,
// same rule names and parameters, only the LRU sizes differ.
func c53RuleFile(b *c53Batch, phase int) string {
	cfg := map[string]any{}
	for g, rules := range b.Groups {
		var rs []map[string]any
		for j, r := range rules {
			sign := map[string]any{}
			switch r.Sign {
			case "header":
				sign["Header"] = []string{"X-Key"}
			case "cookie":
				sign["Cookie"] = []string{"UID"}
			case "clientip":
				sign["UseClientIP"] = true
			case "query":
				sign["Query"] = []string{"id"}
			case "path":
				sign["UsePath"] = true
			case "url":
				sign["UseUrl"] = true
			}
			act := map[string]any{"Cmd": r.Action, "Params": []string{}}
			if r.Action == "REQ_HEADER_SET" {
				act["Params"] = []string{c53HeaderName(j), "jailed"}
			}
			size := r.Dict1
			if phase == 2 {
				size = r.Dict2
			}
			if size == 0 {
				size = 4000
			}
			rs = append(rs, map[string]any{"Name": r.Name, "Cond": "default_t()", "AccessSignConf": sign, "Action": act,
				"CheckPeriod": r.CP, "StayPeriod": r.SP, "Threshold": r.T, "AccessDictSize": size, "PrisonDictSize": size})
		}
		cfg[fmt.Sprintf("g%d", g)] = rs
	}
	out, _ := json.Marshal(map[string]any{"Version": "c53", "Config": cfg})
	return string(out)
}

type c53Event struct {
	key    int // index into batch.Keys
	seq    int
	planNs int64
	req    *bfe_basic.Request
	b, a   int64
	ret    int
	hdrs   []bool
}

func c53Run(tb ev.TB, rec *ev.Rec, batch *c53Batch) {
	h, err := c53Setup()
	if err != nil {
		tb.Fatalf("harness: %v", err)
	}
	if err := h.reload(c53RuleFile(batch, 1)); err != nil {
		if _, ok := err.(harnessErr); ok || strings.HasPrefix(err.Error(), "harness:") {
			tb.Fatalf("harness: %v", err)
		}
		rec.Fail(tb, "load/valid-rule-rejected", batch.Groups, "documented prison rules rejected: %v", err)
		return
	}
	c53Count++
	var evs []*c53Event
	for ki, k := range batch.Keys {
		id := fmt.Sprintf("b%dk%d", c53Count, k.ID)
		for si, o := range k.Offsets {
			spec := &reqSpec{Method: "GET", Target: "/" + id + "?id=" + id, Host: "example.org",
				Headers: []hdr{{"X-Key", id}, {"Cookie", "UID=" + id}},
				Remote:  c53Remote(c53Count, k.ID)}
			req, err := buildReq(spec, fmt.Sprintf("g%d", k.Group))
			if err != nil {
				tb.Fatalf("harness: %v", err)
			}
			evs = append(evs, &c53Event{key: ki, seq: si, planNs: o * int64(time.Millisecond), req: req})
		}
	}
	sort.SliceStable(evs, func(i, j int) bool { return evs[i].planNs < evs[j].planNs })
	reloadFile := c53RuleFile(batch, 2)
	var reloadErr error

	// one scheduler goroutine issues all requests of the batch on the shared timeline
	done := make(chan struct{})
	go func() {
		defer close(done)
		t0 := time.Now().Add(20 * time.Millisecond)
		reloaded := batch.ReloadAtMs == 0
		for _, e := range evs {
			if !reloaded && e.planNs >= batch.ReloadAtMs*int64(time.Millisecond) {
				// operator hot-reloads the rule file: same rules and names, other LRU sizes
				reloaded = true
				if d := time.Until(t0.Add(time.Duration(batch.ReloadAtMs) * time.Millisecond)); d > 0 {
					time.Sleep(d)
				}
				reloadErr = h.reload(reloadFile)
			}
			if d := time.Until(t0.Add(time.Duration(e.planNs))); d > 0 {
				time.Sleep(d)
			}
			e.b = time.Now().UnixNano()
			e.ret, _ = h.filterRequest(bfe_module.HandleFoundProduct, e.req)
			e.a = time.Now().UnixNano()
		}
	}()
	select {
	case <-done:
	case <-time.After(90 * time.Second):
		// machine overloaded: inconclusive, never a violation
		rec.Excluded("batch-watchdog")
		return
	}
	if reloadErr != nil {
		if _, ok := reloadErr.(harnessErr); ok || strings.HasPrefix(reloadErr.Error(), "harness:") {
			tb.Fatalf("harness: %v", reloadErr)
		}
		rec.Fail(tb, "load/valid-rule-rejected", batch.Groups, "reload of the same prison rules with other dict sizes rejected: %v", reloadErr)
		return
	}
	var t0 int64
	if len(evs) > 0 {
		t0 = evs[0].b
	}
	for _, e := range evs {
		rules := batch.Groups[batch.Keys[e.key].Group]
		e.hdrs = make([]bool, len(rules))
		for j := range rules {
			e.hdrs[j] = e.req.HttpRequest.Header.Get(c53HeaderName(j)) != ""
		}
	}
	perKey := map[int][]*c53Event{}
	for _, e := range evs {
		perKey[e.key] = append(perKey[e.key], e)
	}
	for ki, k := range batch.Keys {
		c53EvalKey(tb, rec, batch.Groups[k.Group], &batch.Keys[ki], perKey[ki], t0,
			fmt.Sprintf("client %s; prison.data reloaded (same rules, other dict sizes) at %d ms of the timeline", c53Remote(c53Count, k.ID), batch.ReloadAtMs))
	}
}

type c53Obs struct {
	AtMs    float64 `json:"at_ms"`
	TookUs  int64   `json:"took_us"`
	Ret     int     `json:"ret"`
	Hdrs    []bool  `json:"hdr_set"`
	Model   string  `json:"model"`
	Planned int64   `json:"planned_ms"`
}

func c53EvalKey(tb ev.TB, rec *ev.Rec, rules []c53Rule, k *c53Key, evs []*c53Event, t0 int64, info string) {
	fpb, _ := json.Marshal(map[string]any{"rules": rules, "offsets": k.Offsets})
	classes := []string{"pattern:" + k.Pattern, fmt.Sprintf("rules:%d", len(rules))}
	if k.ID%2 == 1 {
		classes = append(classes, "client:ipv6")
	} else {
		classes = append(classes, "client:ipv4")
	}
	for _, r := range rules {
		classes = append(classes, fmt.Sprintf("T:%d", r.T), "action:"+r.Action, "sign:"+r.Sign)
	}
	states := make([]c53State, len(rules))
	for i := range states {
		states[i].winStart = -1
	}
	crossed, inside, after := false, false, false
	defer func() {
		if crossed {
			classes = append(classes, "crossed")
		}
		if inside {
			classes = append(classes, "probed-inside-jail")
		}
		if after {
			classes = append(classes, "probed-after-jail")
		}
		rec.Case(string(fpb), crossed && inside && after, uniq(classes)...)
	}()
	var hist []c53Obs
	evaluated := 0
	for _, e := range evs {
		wantRet := bfe_module.BfeHandlerGoOn
		wantHdr := make([]bool, len(rules))
		var phases []string
		model := ""
		for j := range rules {
			v, phase, why := states[j].step(&rules[j], e.b, e.a, c53EvalGuard)
			if v == c53Discard {
				rec.Excluded("key-discarded:" + why)
				classes = append(classes, "discarded:"+why)
				rec.Add("requests_evaluated", int64(evaluated))
				return
			}
			phases = append(phases, phase)
			if v == c53Deny {
				model += "D"
				switch rules[j].Action {
				case "CLOSE":
					wantRet = bfe_module.BfeHandlerClose
				case "FINISH":
					wantRet = bfe_module.BfeHandlerFinish
				default:
					wantHdr[j] = true
				}
				if wantRet != bfe_module.BfeHandlerGoOn {
					break
				}
			} else {
				model += "a"
			}
		}
		hist = append(hist, c53Obs{AtMs: float64(e.b-t0) / 1e6, TookUs: (e.a - e.b) / 1000, Ret: e.ret, Hdrs: e.hdrs, Model: model, Planned: e.planNs / 1e6})
		evaluated++
		for _, p := range phases {
			switch p {
			case "crossing":
				crossed = true
			case "inside-jail":
				inside = true
			case "after-jail":
				after = true
			}
		}
		bad := e.ret != wantRet
		for j := range rules {
			if e.hdrs[j] != wantHdr[j] {
				bad = true
			}
		}
		if !bad {
			continue
		}
		// name the discrepancy by the phase of the first rule whose verdict differs
		key := "verdict-mismatch"
		obsDenied := e.ret != bfe_module.BfeHandlerGoOn
		for j := range rules {
			if e.hdrs[j] {
				obsDenied = true
			}
		}
		modelDenied := strings.Contains(model, "D")
		ph := ""
		for _, p := range phases {
			if p != "" && p != "counting" || ph == "" {
				ph = p
			}
		}
		switch {
		case obsDenied && !modelDenied && !anyJail(states):
			key = "denied-below-threshold"
		case obsDenied && !modelDenied:
			key = "denied-after-jail-ended"
		case !obsDenied && modelDenied && ph == "crossing":
			key = "not-denied-when-threshold-exceeded"
		case !obsDenied && modelDenied:
			key = "released-before-jail-end"
		}
		w := map[string]any{"rules": rules, "key": k, "history": hist, "info": info}
		rec.Fail(tb, key, w, "key %d (pattern %s) request #%d at %.1f ms: bfe ret=%d hdr=%v, model %q wants ret=%d hdr=%v; %s; rules %+v; history %+v",
			k.ID, k.Pattern, e.seq, float64(e.b-t0)/1e6, e.ret, e.hdrs, model, wantRet, wantHdr, info, rules, hist)
		return
	}
	rec.Add("requests_evaluated", int64(evaluated))
}

func anyJail(ss []c53State) bool {
	for _, s := range ss {
		if s.everJail {
			return true
		}
	}
	return false
}

func TestC53(t *testing.T) {
	rec := ev.New("C53", c53RuleText)
	if _, err := c53Setup(); err != nil {
		t.Fatalf("harness: %v", err)
	}
	n := 0
	rapid.Check(t, func(rt *rapid.T) {
		n++
		b := c53GenBatch(rt, n)
		rec.Sample(map[string]any{"groups": b.Groups, "keys": len(b.Keys), "first_key": b.Keys[0]})
		c53Run(rt, rec, b)
		rec.Add("batches", 1)
	})
}

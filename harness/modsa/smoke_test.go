package modsa

import (
	"os"
	"strings"
	"testing"

	"github.com/bfenetworks/bfe/bfe_module"
)

// TestSmokeC49 prints what bfe does for hand-made rewrite cases (exploration only;
// used to write down minimal witnesses). VERIF_SMOKE="CMD|p1,p2|target;..."
func TestSmokeC49(t *testing.T) {
	spec := os.Getenv("VERIF_SMOKE")
	if spec == "" {
		t.Skip("exploration only")
	}
	ms, err := c49Setup()
	if err != nil {
		t.Fatal(err)
	}
	for _, one := range strings.Split(spec, "@@") {
		f := strings.Split(one, "|")
		if len(f) != 3 {
			t.Fatalf("bad spec %q", one)
		}
		a := c49Action{Cmd: f[0], Params: strings.Split(f[1], ",")}
		if f[1] == "" {
			a.Params = []string{}
		}
		c := &c49Case{Mod: "rewrite", Rules: []c49Rule{{Actions: []c49Action{a}, Last: true}},
			Req: reqSpec{Method: "GET", Target: f[2], Host: "www.example.org", Vip: "10.9.8.7"}}
		if err, _ := c49Load(ms, c); err != nil {
			t.Logf("%s: LOAD ERROR %v", one, err)
			continue
		}
		req, err := buildReq(&c.Req, "p")
		if err != nil {
			t.Logf("%s: request rejected %v", one, err)
			continue
		}
		ms.rewrite.filterRequest(bfe_module.HandleAfterLocation, req)
		msg, raw, err := toBackend(req)
		if err != nil {
			t.Logf("%s: write error %v %q", one, err, raw)
			continue
		}
		t.Logf("%s => target %q host %q", one, msg.Target, msg.Get("Host"))
	}
}

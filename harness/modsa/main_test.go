package modsa

import (
	"testing"

	"verif/harness/internal/ev"
)

func TestMain(m *testing.M) { ev.Main(m.Run) }

package modsa

// C52: Access-Control-Allow-* headers are added only when the request's Origin is
// allowed by the matching rule (echoed origin or "*" as configured); whenever the
// response depends on the request Origin its Vary lists Origin in addition to the
// values that were there.
//
// Access: mod_cors built like its own unit tests (NewModuleCors + Init on a generated
// conf root), rule files through the registered reload handler, requests through the
// module's two registered callbacks in the order bfe_server runs them
// (HandleFoundProduct -> optional bfe-made preflight response; HandleReadResponse on
// the response that goes to the client: the preflight response or the backend's,
// parsed with bfe_http.ReadResponse).
//
// Oracle (docs/en_us/modules/mod_cors/mod_cors.md + the property statement):
//   allowed(origin, rule) = "%origin" in AllowOrigins | "*" in AllowOrigins | origin in AllowOrigins (exact)
//   rule = first rule whose Cond matches
//   ACAO present  <=> Origin header present and rule exists and allowed; value "*" for the
//                     wildcard, else the request origin; Allow-Credentials: "true" iff configured
//   not allowed    => response headers exactly as before
//   echoed origin  => Vary has token Origin (or is "*") and every earlier token is still there

import (
	"encoding/json"
	"sort"
	"strconv"
	"strings"
	"sync"
	"testing"

	"github.com/bfenetworks/bfe/bfe_http"
	"github.com/bfenetworks/bfe/bfe_module"
	"github.com/bfenetworks/bfe/bfe_modules/mod_compress"
	"github.com/bfenetworks/bfe/bfe_modules/mod_cors"
	"pgregory.net/rapid"

	"verif/harness/internal/ev"
)

const c52RuleText = "cases = reload history through the module's reload handler (40%: an earlier rule file for products p/q/r, then the current file naming one product; request routed to p or q) x 1-2 cors rules (AllowOrigins: %origin | * | null | explicit list | list+%origin; credentials; expose/allow headers; methods; max-age; cond default_t()/path prefix) x request (Origin: listed / near miss (case, trailing slash, prefix, suffix-extension, other scheme or port) / null / absent; GET/POST/OPTIONS with or without Access-Control-Request-Method) x backend response (Vary: absent, *, single, list with/without Origin, mixed case, two header lines; optional backend-set ACAO); for requests with Accept-Encoding (40%) the response also passes mod_compress, the next handler of the default response chain. non-trivial: origin allowed and echoed while the response already had a Vary without Origin, or a near-miss origin against an explicit list. distinct by the JSON of the case"

type c52RuleSpec struct {
	PathPrefix  string   `json:"path_prefix,omitempty"`
	Origins     []string `json:"origins"`
	Credentials bool     `json:"credentials"`
	Expose      []string `json:"expose,omitempty"`
	Methods     []string `json:"methods,omitempty"`
	Headers     []string `json:"headers,omitempty"`
	MaxAge      *int     `json:"max_age,omitempty"`
}

type c52Case struct {
	// reload history through the module's reload handler: an optional earlier rule file
	// (the same rules for the products in PrevProducts), then the current one, which
	// holds Rules for RuleProduct only ("" = "p"). The request is routed to ReqProduct
	// ("" = "p"). Only the current file counts: a product it does not name has no rule.
	Prev         []c52RuleSpec `json:"prev,omitempty"`
	PrevProducts []string      `json:"prev_products,omitempty"`
	RuleProduct  string        `json:"rule_product,omitempty"`
	ReqProduct   string        `json:"req_product,omitempty"`
	Rules        []c52RuleSpec `json:"rules"`
	Req          reqSpec       `json:"req"`
	Resp         []hdr         `json:"resp"`
}

func orP(s string) string {
	if s == "" {
		return "p"
	}
	return s
}

var (
	c52Once sync.Once
	c52H    *modHost
	c52Err  error
	// c52Z: mod_compress, the module that runs after mod_cors in the HandleReadResponse
	// chain of a default build (bfe_modules.go order) and also edits the response head.
	// It has one static rule per product: default_t() -> GZIP. It only acts on requests
	// that carry Accept-Encoding: gzip.
	c52Z *modHost
)

const c52CompressRules = `{"Version":"c52","Config":{` +
	`"p":[{"Cond":"default_t()","Action":{"Cmd":"GZIP","Quality":6,"FlushSize":512}}],` +
	`"q":[{"Cond":"default_t()","Action":{"Cmd":"GZIP","Quality":6,"FlushSize":512}}]}}`

func c52Setup() (*modHost, error) {
	c52Once.Do(func() {
		c52H, c52Err = newModHost("c52", mod_cors.NewModuleCors(),
			"[Basic]\nDataPath = mod_cors/cors_rule.data\n\n[Log]\nOpenDebug = false\n", "mod_cors/cors_rule.data", emptyRules)
		if c52Err != nil {
			return
		}
		c52Z, c52Err = newModHost("c52-compress", mod_compress.NewModuleCompress(),
			"[basic]\nProductRulePath = mod_compress/compress_rule.data\n\n[log]\nOpenDebug = false\n", "mod_compress/compress_rule.data", c52CompressRules)
	})
	return c52H, c52Err
}

func c52RuleFile(rules []c52RuleSpec, products ...string) string {
	rs := []map[string]any{}
	for _, r := range rules {
		cond := "default_t()"
		if r.PathPrefix != "" {
			cond = `req_path_prefix_in("` + r.PathPrefix + `", false)`
		}
		m := map[string]any{"Cond": cond, "AccessControlAllowOrigins": r.Origins, "AccessControlAllowCredentials": r.Credentials}
		if r.Expose != nil {
			m["AccessControlExposeHeaders"] = r.Expose
		}
		if r.Methods != nil {
			m["AccessControlAllowMethods"] = r.Methods
		}
		if r.Headers != nil {
			m["AccessControlAllowHeaders"] = r.Headers
		}
		if r.MaxAge != nil {
			m["AccessControlMaxAge"] = *r.MaxAge
		}
		rs = append(rs, m)
	}
	cfg := map[string]any{}
	for _, p := range products {
		cfg[p] = rs
	}
	b, _ := json.Marshal(map[string]any{"Version": "c52", "Config": cfg})
	return string(b)
}

func c52Allowed(origin string, r *c52RuleSpec) (bool, string) {
	for _, o := range r.Origins {
		if o == "%origin" {
			return true, origin
		}
	}
	for _, o := range r.Origins {
		if o == "*" {
			return true, "*"
		}
	}
	for _, o := range r.Origins {
		if o == origin {
			return true, origin
		}
	}
	return false, ""
}

var c52StdMethods = map[string]bool{"GET": true, "HEAD": true, "POST": true, "PUT": true, "DELETE": true,
	"CONNECT": true, "OPTIONS": true, "TRACE": true, "PATCH": true}

func varyTokens(lines []string) []string {
	var out []string
	for _, l := range lines {
		for _, t := range strings.Split(l, ",") {
			t = strings.ToLower(strings.TrimSpace(t))
			if t != "" {
				out = append(out, t)
			}
		}
	}
	return out
}

func snapshot(h bfe_http.Header) map[string][]string {
	out := map[string][]string{}
	for k, v := range h {
		out[strings.ToLower(k)] = append([]string(nil), v...)
	}
	return out
}

func firstVal(hs []hdr, name string) string {
	for _, h := range hs {
		if strings.EqualFold(h.K, name) {
			return h.V
		}
	}
	return ""
}

func c52Check(tb ev.TB, rec *ev.Rec, c *c52Case) {
	h, err := c52Setup()
	if err != nil {
		tb.Fatalf("harness: %v", err)
	}
	fpb, _ := json.Marshal(c)
	var classes []string
	nt := false
	defer func() { rec.Case(string(fpb), nt, uniq(classes)...) }()

	if len(c.PrevProducts) > 0 {
		classes = append(classes, "reload-history")
		if err := h.reload(c52RuleFile(c.Prev, c.PrevProducts...)); err != nil {
			if _, ok := err.(harnessErr); ok || strings.HasPrefix(err.Error(), "harness:") {
				tb.Fatalf("harness: %v", err)
			}
			rec.Fail(tb, "load/valid-rule-rejected", c, "documented cors rule (earlier file) rejected: %v", err)
			return
		}
	}
	if err := h.reload(c52RuleFile(c.Rules, orP(c.RuleProduct))); err != nil {
		if _, ok := err.(harnessErr); ok || strings.HasPrefix(err.Error(), "harness:") {
			tb.Fatalf("harness: %v", err)
		}
		rec.Fail(tb, "load/valid-rule-rejected", c, "documented cors rule rejected: %v", err)
		return
	}
	productHasRules := orP(c.RuleProduct) == orP(c.ReqProduct)
	if !productHasRules {
		classes = append(classes, "product-not-in-current-file")
	}
	req, err := buildReq(&c.Req, orP(c.ReqProduct))
	if err != nil {
		rec.Excluded("bfe-parser-rejects-request")
		return
	}
	rawPath, _, _ := splitTarget(c.Req.Target)
	path, _ := pctDecode(rawPath, false)
	origin := firstVal(c.Req.Headers, "Origin")
	acrm := firstVal(c.Req.Headers, "Access-Control-Request-Method")
	var rule *c52RuleSpec
	for i := range c.Rules {
		if !productHasRules {
			break // the current rule file has no rules for the request's product
		}
		if c.Rules[i].PathPrefix == "" || strings.HasPrefix(path, c.Rules[i].PathPrefix) {
			rule = &c.Rules[i]
			break
		}
	}
	allowed, want := false, ""
	if origin != "" && rule != nil {
		allowed, want = c52Allowed(origin, rule)
	}
	realPreflight := c.Req.Method == "OPTIONS" && origin != "" && c52StdMethods[acrm]

	var ret, ret2 int
	var res *bfe_http.Response
	if p := ev.Try(func() { ret, res = h.filterRequest(bfe_module.HandleFoundProduct, req) }); p != nil {
		rec.Fail(tb, "panic/preflight-handler", c, "mod_cors panicked: %v", p)
		return
	}
	req.HttpResponse = res
	byBfe := false
	var before map[string][]string
	switch ret {
	case bfe_module.BfeHandlerResponse:
		byBfe = true
		classes = append(classes, "preflight-answered")
		if res == nil {
			rec.Fail(tb, "preflight/nil-response", c, "BfeHandlerResponse without a response")
			return
		}
		if !(c.Req.Method == "OPTIONS" && origin != "" && acrm != "") {
			rec.Fail(tb, "preflight/answered-non-preflight", c, "bfe answered a request that is not a preflight (method %s origin %q acrm %q)", c.Req.Method, origin, acrm)
			return
		}
		if res.StatusCode < 200 || res.StatusCode > 299 {
			rec.Fail(tb, "preflight/status", c, "preflight response status %d", res.StatusCode)
			return
		}
		before = map[string][]string{}
	case bfe_module.BfeHandlerGoOn:
		if realPreflight && rule != nil {
			rec.Fail(tb, "preflight/not-answered", c, "preflight request matching a cors rule was not answered by bfe")
			return
		}
		if res, err = attachResponse(req, 200, c.Resp); err != nil {
			rec.Excluded("bfe-parser-rejects-response")
			return
		}
		before = snapshot(res.Header)
	default:
		rec.Fail(tb, "verdict", c, "preflight handler returned %d", ret)
		return
	}
	if p := ev.Try(func() { ret2 = h.filterResponse(bfe_module.HandleReadResponse, req, res) }); p != nil {
		rec.Fail(tb, "panic/response-handler", c, "mod_cors panicked: %v", p)
		return
	}
	if ret2 != bfe_module.BfeHandlerGoOn {
		rec.Fail(tb, "verdict", c, "response handler returned %d", ret2)
		return
	}
	// the rest of the response chain of a default build: mod_compress runs after
	// mod_cors; what the client receives is the header set after both
	compressed := false
	if firstVal(c.Req.Headers, "Accept-Encoding") != "" {
		var ret3 int
		if p := ev.Try(func() { ret3 = c52Z.filterResponse(bfe_module.HandleReadResponse, req, res) }); p != nil {
			rec.Fail(tb, "panic/compress-handler", c, "mod_compress panicked: %v", p)
			return
		}
		if ret3 != bfe_module.BfeHandlerGoOn {
			rec.Fail(tb, "verdict", c, "compress handler returned %d", ret3)
			return
		}
		if res.Header.Get("Content-Encoding") != "" {
			compressed = true
			classes = append(classes, "compressed-after-cors")
		}
	}
	after := snapshot(res.Header)

	// classes
	switch {
	case origin == "":
		classes = append(classes, "origin:absent")
	case allowed:
		classes = append(classes, "origin:allowed")
	default:
		classes = append(classes, "origin:not-allowed")
	}
	if rule == nil {
		classes = append(classes, "no-rule")
	}
	bv := varyTokens(before["vary"])
	hasOrigin := false
	for _, t := range bv {
		if t == "origin" || t == "*" {
			hasOrigin = true
		}
	}
	switch {
	case len(bv) == 0:
		classes = append(classes, "vary:absent")
	case hasOrigin:
		classes = append(classes, "vary:has-origin-or-star")
	default:
		classes = append(classes, "vary:without-origin")
	}
	if len(before["vary"]) > 1 {
		classes = append(classes, "vary:two-lines")
	}

	acaNames := []string{"access-control-allow-origin", "access-control-allow-credentials", "access-control-allow-methods",
		"access-control-allow-headers", "access-control-max-age", "access-control-expose-headers"}

	if !allowed {
		if origin != "" && rule != nil {
			for _, o := range rule.Origins {
				if o != origin && (strings.EqualFold(o, origin) || strings.HasPrefix(origin, o) || strings.HasPrefix(o, origin)) {
					nt = true
					classes = append(classes, "near-miss")
				}
			}
		}
		// nothing may be added; the response is as the backend (or bfe's bare preflight answer) made it
		for _, n := range acaNames {
			if !eqStrings(before[n], after[n]) {
				key := "aca-added-for-disallowed-origin"
				if !productHasRules && len(c.PrevProducts) > 0 {
					key = "aca-from-rule-removed-by-reload"
				}
				rec.Fail(tb, key, c, "origin %q is not allowed by the current rules of product %q but %s changed from %q to %q", origin, orP(c.ReqProduct), n, before[n], after[n])
				return
			}
		}
		if compressed {
			// a compressing module may add its own Vary token; nothing may get lost
			have := map[string]bool{}
			for _, t := range varyTokens(after["vary"]) {
				have[t] = true
			}
			for _, t := range bv {
				if !have[t] {
					rec.Fail(tb, "vary/previous-value-lost", c, "Vary before %q, after %q: token %q lost", before["vary"], after["vary"], t)
					return
				}
			}
		} else if !byBfe && !eqStrings(before["vary"], after["vary"]) {
			rec.Fail(tb, "vary-changed-without-cors", c, "no cors headers granted but Vary changed from %q to %q", before["vary"], after["vary"])
			return
		}
		return
	}

	// allowed
	if got := after["access-control-allow-origin"]; len(got) != 1 || got[0] != want {
		rec.Fail(tb, "acao-wrong", c, "origin %q allowed: Access-Control-Allow-Origin %q, want [%q]", origin, got, want)
		return
	}
	gotCred := after["access-control-allow-credentials"]
	if rule.Credentials {
		if len(gotCred) != 1 || gotCred[0] != "true" {
			rec.Fail(tb, "credentials-missing", c, "AccessControlAllowCredentials configured but header is %q", gotCred)
			return
		}
	} else if !eqStrings(gotCred, before["access-control-allow-credentials"]) {
		rec.Fail(tb, "credentials-unconfigured", c, "AccessControlAllowCredentials not configured but header is %q", gotCred)
		return
	}
	if byBfe {
		chk := func(name string, want []string) bool {
			if len(want) == 0 {
				return true
			}
			got := varyTokens(after[name]) // same list syntax
			exp := varyTokens(want)
			sort.Strings(got)
			sort.Strings(exp)
			if !eqStrings(got, exp) {
				rec.Fail(tb, "preflight/"+name, c, "preflight %s %q, configured %q", name, after[name], want)
				return false
			}
			return true
		}
		if !chk("access-control-allow-methods", rule.Methods) || !chk("access-control-allow-headers", rule.Headers) {
			return
		}
		if rule.MaxAge != nil {
			if got := after["access-control-max-age"]; len(got) != 1 || got[0] != strconv.Itoa(*rule.MaxAge) {
				rec.Fail(tb, "preflight/max-age", c, "preflight max-age %q, configured %d", got, *rule.MaxAge)
				return
			}
		}
	} else if len(rule.Expose) > 0 {
		got := varyTokens(after["access-control-expose-headers"])
		exp := varyTokens(rule.Expose)
		sort.Strings(got)
		sort.Strings(exp)
		if !eqStrings(got, exp) {
			rec.Fail(tb, "expose-headers", c, "Access-Control-Expose-Headers %q, configured %q", after["access-control-expose-headers"], rule.Expose)
			return
		}
	}
	// Vary
	av := varyTokens(after["vary"])
	have := map[string]bool{}
	for _, t := range av {
		have[t] = true
	}
	for _, t := range bv {
		if !have[t] {
			rec.Fail(tb, "vary/previous-value-lost", c, "Vary before %q, after %q: token %q lost", before["vary"], after["vary"], t)
			return
		}
	}
	if want != "*" {
		if len(bv) > 0 && !hasOrigin {
			nt = true
		}
		if !have["origin"] && !have["*"] {
			key := "vary/origin-not-added"
			if len(bv) == 0 {
				key = "vary/origin-missing"
			}
			if compressed {
				key = "vary/origin-lost-in-response-chain"
			}
			if !rec.Fail(tb, key, c, "response echoes origin %q but Vary is %q (was %q)", origin, after["vary"], before["vary"]) {
				rec.Excluded("known-finding")
			}
			return
		}
	}
}

// ---------------------------------------------------------------- generator

var (
	c52Origins = []string{"https://example.org", "http://example.org", "https://example.org:8443", "https://app.example.com", "https://a.b.example.net"}
	c52Varys   = [][]string{nil, {"*"}, {"Accept-Encoding"}, {"Accept-Encoding, User-Agent"}, {"Origin"}, {"Accept-Encoding, Origin"},
		{"origin"}, {"ORIGIN, accept-language"}, {"Accept-Encoding", "User-Agent"}, {"Accept-Encoding", "Origin"}, {"Accept-Encoding,Cookie"}, {"Originx"}, {"X-Origin, Accept"}}
)

func c52NearMiss(rt *rapid.T, o string) string {
	switch rapid.IntRange(0, 7).Draw(rt, "miss") {
	case 0:
		return strings.ToUpper(o)
	case 1:
		return o + "/"
	case 2:
		return o[:len(o)-1]
	case 3:
		return o + ".evil.com"
	case 4:
		if strings.HasPrefix(o, "https://") {
			return "http://" + o[8:]
		}
		return "https://" + o[7:]
	case 5:
		return o + ":444"
	case 6:
		return "https://evil.com/" + o
	}
	return strings.Replace(o, "example", "examp1e", 1)
}

func c52GenList(rt *rapid.T, label string, pool []string, star bool) []string {
	switch rapid.IntRange(0, 3).Draw(rt, label+"kind") {
	case 0:
		return nil
	case 1:
		if star {
			return []string{"*"}
		}
	}
	n := rapid.IntRange(1, 3).Draw(rt, label+"n")
	out := make([]string, n)
	for i := range out {
		out[i] = rapid.SampledFrom(pool).Draw(rt, label)
	}
	return out
}

func c52GenCase(rt *rapid.T) *c52Case {
	c := &c52Case{}
	path := rapid.SampledFrom([]string{"/", "/api/x", "/static/a.js", "/api"}).Draw(rt, "path")
	nr := rapid.IntRange(1, 2).Draw(rt, "nrules")
	var listed []string
	for i := 0; i < nr; i++ {
		r := c52RuleSpec{}
		if rapid.IntRange(0, 9).Draw(rt, "cond") >= 7 {
			r.PathPrefix = rapid.SampledFrom([]string{"/api", "/static", "/nomatch"}).Draw(rt, "condp")
		}
		switch rapid.IntRange(0, 9).Draw(rt, "okind") {
		case 0, 1:
			r.Origins = []string{"%origin"}
		case 2:
			r.Origins = []string{"*"}
		case 3:
			r.Origins = []string{"null"}
		case 4:
			r.Origins = []string{rapid.SampledFrom(c52Origins).Draw(rt, "o"), "%origin"}
		default:
			n := rapid.IntRange(1, 3).Draw(rt, "no")
			for j := 0; j < n; j++ {
				r.Origins = append(r.Origins, rapid.SampledFrom(c52Origins).Draw(rt, "o"))
			}
		}
		listed = append(listed, r.Origins...)
		if r.Origins[0] != "*" {
			r.Credentials = rapid.Bool().Draw(rt, "cred")
		}
		r.Expose = c52GenList(rt, "expose", []string{"X-Custom-Header", "Content-Length", "X-Req-Id"}, true)
		r.Methods = c52GenList(rt, "methods", []string{"HEAD", "GET", "POST", "PUT", "DELETE", "OPTIONS", "PATCH"}, true)
		r.Headers = c52GenList(rt, "aheaders", []string{"X-Custom-Header", "Content-Type", "Authorization"}, true)
		switch rapid.IntRange(0, 4).Draw(rt, "maxage") {
		case 0:
		case 1:
			v := -1
			r.MaxAge = &v
		case 2:
			v := 0
			r.MaxAge = &v
		case 3:
			v := 600
			r.MaxAge = &v
		default:
			v := 86400
			r.MaxAge = &v
		}
		c.Rules = append(c.Rules, r)
	}
	var explicit []string
	for _, o := range listed {
		if strings.HasPrefix(o, "http") {
			explicit = append(explicit, o)
		}
	}
	var hs []hdr
	origin := ""
	switch k := rapid.IntRange(0, 9).Draw(rt, "origkind"); {
	case k == 0:
	case k == 1:
		origin = "null"
	case k <= 5 && len(explicit) > 0:
		origin = rapid.SampledFrom(explicit).Draw(rt, "lo")
	case k <= 8 && len(explicit) > 0:
		origin = c52NearMiss(rt, rapid.SampledFrom(explicit).Draw(rt, "mo"))
	default:
		origin = rapid.SampledFrom(c52Origins).Draw(rt, "ro")
	}
	origin = strings.TrimSpace(origin)
	if origin != "" {
		hs = append(hs, hdr{rapid.SampledFrom([]string{"Origin", "origin", "ORIGIN"}).Draw(rt, "oname"), origin})
	}
	if rapid.IntRange(0, 9).Draw(rt, "acceptenc") < 4 {
		// the client accepts gzip: mod_compress (next in the response chain) encodes the response
		hs = append(hs, hdr{"Accept-Encoding", rapid.SampledFrom([]string{"gzip", "gzip, deflate, br"}).Draw(rt, "ae")})
	}
	method := rapid.SampledFrom([]string{"GET", "GET", "POST", "OPTIONS", "OPTIONS", "HEAD"}).Draw(rt, "method")
	if method == "OPTIONS" || rapid.IntRange(0, 9).Draw(rt, "acrmany") == 0 {
		if v := rapid.SampledFrom([]string{"", "GET", "PUT", "DELETE", "FOO", "get"}).Draw(rt, "acrm"); v != "" {
			hs = append(hs, hdr{"Access-Control-Request-Method", v})
			if rapid.Bool().Draw(rt, "acrh") {
				hs = append(hs, hdr{"Access-Control-Request-Headers", "X-Custom-Header"})
			}
		}
	}
	c.Req = reqSpec{Method: method, Target: path, Host: "example.org", Headers: hs}
	c.Resp = []hdr{{"Content-Type", "text/plain"}}
	for _, v := range rapid.SampledFrom(c52Varys).Draw(rt, "vary") {
		c.Resp = append(c.Resp, hdr{rapid.SampledFrom([]string{"Vary", "vary"}).Draw(rt, "vname"), v})
	}
	if rapid.IntRange(0, 9).Draw(rt, "history") < 4 {
		// an earlier rule file was loaded before the current one (hot reload)
		c.PrevProducts = rapid.SampledFrom([][]string{{"p"}, {"q"}, {"p", "q"}, {"p", "q", "r"}}).Draw(rt, "prevproducts")
		if rapid.Bool().Draw(rt, "prevsame") {
			c.Prev = c.Rules
		} else {
			c.Prev = []c52RuleSpec{{Origins: []string{"%origin"}, Credentials: true, Expose: []string{"X-Old"}}}
		}
		c.RuleProduct = rapid.SampledFrom([]string{"p", "q"}).Draw(rt, "ruleproduct")
		c.ReqProduct = rapid.SampledFrom([]string{"p", "q"}).Draw(rt, "reqproduct")
	}
	if rapid.IntRange(0, 11).Draw(rt, "backendaca") == 0 {
		c.Resp = append(c.Resp, hdr{"Access-Control-Allow-Origin", "https://backend-choice.example"})
	}
	return c
}

func TestC52(t *testing.T) {
	rec := ev.New("C52", c52RuleText)
	if _, err := c52Setup(); err != nil {
		t.Fatalf("harness: %v", err)
	}
	// deterministic sweep: the doc example rule against every pre-existing Vary shape and origin kind
	age := -1
	docRule := c52RuleSpec{Origins: []string{"%origin"}, Credentials: true, Expose: []string{"X-Custom-Header"},
		Methods: []string{"HEAD", "GET", "POST", "PUT", "DELETE", "OPTIONS", "PATCH"}, Headers: []string{"X-Custom-Header"}, MaxAge: &age}
	listRule := c52RuleSpec{Origins: []string{"https://example.org", "https://app.example.com"}}
	starRule := c52RuleSpec{Origins: []string{"*"}}
	for _, r := range []c52RuleSpec{docRule, listRule, starRule} {
		for _, v := range c52Varys {
			for _, o := range []string{"", "https://example.org", "https://example.org.evil.com", "HTTPS://EXAMPLE.ORG", "null"} {
				for _, m := range []string{"GET", "OPTIONS", "GET+gzip"} {
					c := &c52Case{Rules: []c52RuleSpec{r}, Req: reqSpec{Method: m, Target: "/", Host: "example.org"}, Resp: []hdr{{"Content-Type", "text/plain"}}}
					if m == "GET+gzip" { // response also passes mod_compress
						c.Req.Method, m = "GET", "GET"
						c.Req.Headers = append(c.Req.Headers, hdr{"Accept-Encoding", "gzip"})
					}
					if o != "" {
						c.Req.Headers = append(c.Req.Headers, hdr{"Origin", o})
					}
					if m == "OPTIONS" {
						c.Req.Headers = append(c.Req.Headers, hdr{"Access-Control-Request-Method", "PUT"})
					}
					for _, l := range v {
						c.Resp = append(c.Resp, hdr{"Vary", l})
					}
					c52Check(t, rec, c)
				}
			}
		}
	}
	// reload histories: rules for {p,q} loaded, then a file that names only one product;
	// requests (simple and preflight) to the product that is gone and to the one that stays
	for _, keep := range []string{"p", "q"} {
		for _, to := range []string{"p", "q"} {
			for _, m := range []string{"GET", "OPTIONS"} {
				c := &c52Case{Prev: []c52RuleSpec{docRule}, PrevProducts: []string{"p", "q"}, RuleProduct: keep, ReqProduct: to,
					Rules: []c52RuleSpec{listRule},
					Req:   reqSpec{Method: m, Target: "/", Host: "example.org", Headers: []hdr{{"Origin", "https://example.org"}}},
					Resp:  []hdr{{"Content-Type", "text/plain"}, {"Vary", "Accept-Encoding"}}}
				if m == "OPTIONS" {
					c.Req.Headers = append(c.Req.Headers, hdr{"Access-Control-Request-Method", "PUT"})
				}
				c52Check(t, rec, c)
			}
		}
	}
	rapid.Check(t, func(rt *rapid.T) {
		c := c52GenCase(rt)
		rec.Sample(c)
		c52Check(rt, rec, c)
	})
}

package util

import (
	"fmt"
	"hash/fnv"
	"os"
	"sort"
	"strings"
	"testing"

	"github.com/bfenetworks/bfe/bfe_util/hash_set"
	"github.com/spaolacci/murmur3"
	"pgregory.net/rapid"

	"verif/harness/internal/ev"
)

// C20: hash set behaves as a bounded set.
//
// Oracle: a Go map. A key is of VALID length when len(key) <= elemSize
// (variable-length mode) resp. len(key) == elemSize (fixed-length mode, the only
// way the one real fixed-length caller, ipdict with 16-byte To16() addresses,
// uses it and what byte_pool.FixedBytePool.Set demands: "length must be N").
//   Add(valid, absent, room)   -> nil, member afterwards
//   Add(valid, present)        -> nil or error (full set), no change
//   Add(valid, absent, full)   -> error, no change
//   Add(invalid)               -> error, no change
//   Remove(valid)              -> nil, not a member afterwards
//   Remove(invalid)            -> no change (error demanded only for too-long keys)
//   Exist(k)                   == model[k] (false for invalid keys)
//   Len()==|model|, Full()==(|model|==capacity)
// After every step Exist is compared for every key used so far plus the whole
// small key universe.

type c20Op struct {
	Op  string `json:"op"`
	Key string `json:"key"`           // hex
	Len int    `json:"len,omitempty"` // >0: the key is the Key bytes repeated cyclically to this length (long keys)
}

func (o c20Op) bytes() []byte {
	var seed []byte
	fmt.Sscanf(o.Key, "%x", &seed)
	if o.Len <= 0 || len(seed) == 0 {
		if seed == nil {
			seed = []byte{}
		}
		return seed
	}
	key := make([]byte, o.Len)
	for i := range key {
		key[i] = seed[i%len(seed)]
	}
	return key
}

// c20Show prints a key, abbreviating long ones.
func c20Show(k []byte) string {
	if len(k) <= 24 {
		return fmt.Sprintf("%x", k)
	}
	return fmt.Sprintf("%x..(%d bytes)", k[:8], len(k))
}

type c20Case struct {
	Cap   int     `json:"cap"`
	Size  int     `json:"size"`
	Fixed bool    `json:"fixed"`
	Hash  string  `json:"hash"`
	Ops   []c20Op `json:"ops"`
}

var c20Hashes = map[string]func([]byte) uint64{
	"murmur-default": nil,
	"const":          func([]byte) uint64 { return 7 },
	"len":            func(b []byte) uint64 { return uint64(len(b)) },
	"first-byte-mod2": func(b []byte) uint64 {
		if len(b) == 0 {
			return 0
		}
		return uint64(b[0] & 1)
	},
	"fnv-ipdict": func(b []byte) uint64 { h := fnv.New64(); h.Write(b); return h.Sum64() },
}

func c20HashNames() []string {
	var n []string
	for k := range c20Hashes {
		n = append(n, k)
	}
	sort.Strings(n)
	return n
}

// universe of keys over alphabet {0x00,'a','b'} up to maxLen
func c20Universe(maxLen int) [][]byte {
	alpha := []byte{0, 'a', 'b'}
	out := [][]byte{{}}
	prev := [][]byte{{}}
	for l := 1; l <= maxLen; l++ {
		var cur [][]byte
		for _, p := range prev {
			for _, c := range alpha {
				k := append(append([]byte(nil), p...), c)
				cur = append(cur, k)
			}
		}
		out = append(out, cur...)
		prev = cur
	}
	return out
}

type c20Run struct {
	tb    ev.TB
	rec   *ev.Rec
	c     *c20Case
	set   *hash_set.HashSet
	model map[string]bool
	used  map[string]bool
	univ  [][]byte
	ul    int // the universe holds every key over the alphabet up to this length
	hf    func([]byte) uint64
	// classification
	order       map[string]int // insertion sequence of current members
	seq         int
	removed     bool
	reuse       bool
	midDelete   bool
	fullReject  bool
	invalidSeen bool
	shortFixed  bool
	longKey     bool
}

func (r *c20Run) valid(k []byte) bool {
	if r.c.Fixed {
		return len(k) == r.c.Size
	}
	return len(k) <= r.c.Size
}

func (r *c20Run) bucket(k []byte) uint64 {
	return r.hf(k) % uint64(r.c.Cap*hash_set.LOAD_FACTOR)
}

func (r *c20Run) witness(step int) map[string]any {
	c := *r.c
	if step+1 < len(c.Ops) {
		c.Ops = c.Ops[:step+1]
	}
	return map[string]any{"case": c, "step": step}
}

// checkState compares the whole observable state with the model.
// Returns false when a known finding was hit (case must stop).
func (r *c20Run) checkState(step int, after string) bool {
	if got, want := r.set.Len(), len(r.model); got != want {
		return r.fail(step, "len-mismatch", "after %s: Len()=%d, model has %d members", after, got, want)
	}
	if got, want := r.set.Full(), len(r.model) >= r.c.Cap; got != want {
		return r.fail(step, "full-mismatch", "after %s: Full()=%v with %d/%d members", after, got, len(r.model), r.c.Cap)
	}
	check := func(k []byte) bool {
		got := r.set.Exist(append([]byte(nil), k...))
		want := r.model[string(k)]
		if got != want {
			key := "phantom-member"
			if want {
				key = "member-lost"
			}
			return r.fail(step, key, "after %s: Exist(%s)=%v, model %v (members %s)", after, c20Show(k), got, want, r.members())
		}
		return true
	}
	for _, k := range r.univ {
		if !check(k) {
			return false
		}
	}
	for k := range r.used {
		if len(k) > r.ul || strings.IndexFunc(k, func(c rune) bool { return c != 0 && c != 'a' && c != 'b' }) >= 0 {
			if !check([]byte(k)) {
				return false
			}
		}
	}
	return true
}

func (r *c20Run) members() string {
	var m []string
	for k := range r.model {
		m = append(m, c20Show([]byte(k)))
	}
	sort.Strings(m)
	return strings.Join(m, ",")
}

func (r *c20Run) fail(step int, key, format string, args ...any) bool {
	if r.c.Fixed && r.shortFixed && !strings.HasPrefix(key, "fixed-short-") {
		// state after an accepted short key in fixed-length mode is already known to be corrupt
		key = "fixed-short-key-" + key
	}
	if !r.rec.Fail(r.tb, key, r.witness(step), "cap=%d size=%d fixed=%v hash=%s step %d: %s", r.c.Cap, r.c.Size, r.c.Fixed, r.c.Hash, step, fmt.Sprintf(format, args...)) {
		r.rec.Excluded("known-finding:" + key)
		return false
	}
	return true
}

func (r *c20Run) step(i int, op c20Op) bool {
	key := op.bytes()
	r.used[string(key)] = true
	if len(key) >= 65536 && r.valid(key) {
		r.longKey = true
	}
	arg := append([]byte(nil), key...) // the set must copy: arg is scribbled over afterwards
	valid := r.valid(key)
	desc := fmt.Sprintf("%s(%s)", op.Op, c20Show(key))
	switch op.Op {
	case "add":
		var err error
		if p := ev.Try(func() { err = r.set.Add(arg) }); p != nil {
			return r.fail(i, "panic-add", "%s panicked: %v", desc, p)
		}
		for j := range arg {
			arg[j] = 0xEE
		}
		present := r.model[string(key)]
		switch {
		case !valid:
			r.invalidSeen = true
			if err == nil {
				if r.c.Fixed && len(key) < r.c.Size {
					r.shortFixed = true
					// describe what the accepted key did to the set (part of the witness)
					cons := fmt.Sprintf("Len()=%d (model %d), Exist(%s)=%v", r.set.Len(), len(r.model), c20Show(key), r.set.Exist(key))
					for _, u := range r.univ {
						if r.set.Exist(u) != r.model[string(u)] {
							cons += fmt.Sprintf(", Exist(%s)=%v but model %v", c20Show(u), r.set.Exist(u), r.model[string(u)])
							r.rec.Class("fixed-short-key-corrupts-membership")
							break
						}
					}
					return r.fail(i, "fixed-short-key-accepted", "%s returned nil: key shorter than the fixed element size %d was not rejected; afterwards %s", desc, r.c.Size, cons)
				}
				return r.fail(i, "invalid-key-accepted", "%s returned nil for a key longer than elemSize %d", desc, r.c.Size)
			}
		case present:
			// nil or "full" error both fine
		case len(r.model) >= r.c.Cap:
			r.fullReject = true
			if err == nil {
				return r.fail(i, "add-beyond-capacity-accepted", "%s returned nil with %d/%d members", desc, len(r.model), r.c.Cap)
			}
		default:
			if err != nil {
				return r.fail(i, "add-refused", "%s failed with room left (%d/%d): %v", desc, len(r.model), r.c.Cap, err)
			}
			if r.removed {
				r.reuse = true
			}
			r.model[string(key)] = true
			r.seq++
			r.order[string(key)] = r.seq
		}
	case "remove":
		var err error
		if p := ev.Try(func() { err = r.set.Remove(arg) }); p != nil {
			return r.fail(i, "panic-remove", "%s panicked: %v", desc, p)
		}
		if !valid {
			r.invalidSeen = true
			if err == nil && len(key) > r.c.Size {
				return r.fail(i, "invalid-key-accepted", "%s returned nil for a key longer than elemSize %d", desc, r.c.Size)
			}
		} else {
			if err != nil {
				return r.fail(i, "remove-failed", "%s returned %v", desc, err)
			}
			if r.model[string(key)] {
				// middle-of-chain deletion? (members of the same bucket added before and after this one)
				b := r.bucket(key)
				older, newer := 0, 0
				for m := range r.model {
					if m != string(key) && r.bucket([]byte(m)) == b {
						if r.order[m] < r.order[string(key)] {
							older++
						} else {
							newer++
						}
					}
				}
				if older > 0 && newer > 0 {
					r.midDelete = true
				}
				delete(r.model, string(key))
				delete(r.order, string(key))
				r.removed = true
			}
		}
	case "exist":
		got := r.set.Exist(arg)
		if want := r.model[string(key)]; got != want {
			k := "phantom-member"
			if want {
				k = "member-lost"
			}
			return r.fail(i, k, "%s=%v, model %v", desc, got, want)
		}
	}
	return r.checkState(i, desc)
}

func c20Exec(tb ev.TB, rec *ev.Rec, c *c20Case, gen string) {
	hf := c20Hashes[c.Hash]
	set, err := hash_set.NewHashSet(c.Cap, c.Size, c.Fixed, hf)
	if err != nil {
		rec.Fail(tb, "new-failed", map[string]any{"case": c}, "NewHashSet(%d,%d,%v): %v", c.Cap, c.Size, c.Fixed, err)
		return
	}
	if hf == nil {
		hf = murmur3.Sum64
	}
	r := &c20Run{tb: tb, rec: rec, c: c, set: set, model: map[string]bool{}, used: map[string]bool{}, hf: hf, order: map[string]int{}}
	ul := c.Size + 1
	if ul > 4 {
		ul = 4
	}
	r.ul = ul
	r.univ = c20Universe(ul)
	ok := r.checkState(-1, "NewHashSet")
	for i := 0; ok && i < len(c.Ops); i++ {
		ok = r.step(i, c.Ops[i])
	}
	mode := "variable"
	if c.Fixed {
		mode = "fixed"
	}
	classes := []string{"mode-" + mode, "hash-" + c.Hash, "gen-" + gen}
	add := func(b bool, s string) {
		if b {
			classes = append(classes, s)
		}
	}
	add(r.reuse, "free-list-reuse")
	add(r.midDelete, "mid-chain-delete")
	add(r.fullReject, "add-at-capacity")
	add(r.invalidSeen, "invalid-length-key")
	add(r.shortFixed, "fixed-short-key")
	add(c.Size >= 65535, "elem-size-around-64KiB")
	add(r.longKey, "key-length>=65536")
	add(!ok, "stopped-at-known-finding")
	rec.Case(fmt.Sprintf("%+v", *c), r.reuse || r.midDelete, classes...)
}

func c20GenKey(rt *rapid.T, c *c20Case, allowShortFixed bool, label string) []byte {
	// lengths: mostly valid, sometimes too long, in fixed mode rarely short
	var l int
	k := rapid.IntRange(0, 19).Draw(rt, label+"lk")
	switch {
	case k == 0:
		l = c.Size + 1 + rapid.IntRange(0, 2).Draw(rt, label+"over")
	case c.Fixed && k == 1 && allowShortFixed:
		l = rapid.IntRange(0, c.Size-1).Draw(rt, label+"short")
	case c.Fixed:
		l = c.Size
	default:
		l = rapid.IntRange(0, c.Size).Draw(rt, label+"len")
	}
	alpha := []byte{0, 'a', 'b'}
	na := 3
	if c.Size >= 3 {
		na = 2 // keep the key space small enough to collide / repeat
	}
	key := make([]byte, l)
	for i := range key {
		key[i] = alpha[rapid.IntRange(0, na-1).Draw(rt, label+"c")]
	}
	if rapid.IntRange(0, 30).Draw(rt, label+"wild") == 0 && l > 0 {
		key[l-1] = byte(rapid.IntRange(0, 255).Draw(rt, label+"wb"))
	}
	return key
}

func TestC20(t *testing.T) {
	rec := ev.New("C20", "histories of 0..80 Add/Remove/Exist on NewHashSet(cap 1..10, elemSize 1..5 (16 for the ipdict shape; 1 case in 40: 65535/65536/65537/70000 with keys of length 1..elemSize+1 around the 16-bit boundary), fixed|variable, hash in {default murmur, constant, len, first-byte&1, fnv}); keys over {0x00,a,b} of length 0..elemSize+3; full state (Len, Full, Exist of the whole key universe) compared with a Go map after every step. non-trivial: an Add succeeds after a Remove (free-list reuse) or a member is removed from the middle of a collision chain; distinct by full case")
	names := c20HashNames()
	maxOps := ev.N(80, 120)
	if w := replayWitness(t); w != nil {
		c := &c20Case{}
		replayInto(t, w["case"], c)
		c20Exec(t, rec, c, "replay")
		return
	}
	// deterministic scenarios (shapes named in DESIGN.md): free-list reuse, middle-of-chain deletion,
	// capacity edge, stale node bytes after a removed key
	mk := func(cap, size int, fixed bool, hash string, ops ...string) *c20Case {
		c := &c20Case{Cap: cap, Size: size, Fixed: fixed, Hash: hash}
		for _, o := range ops {
			f := strings.SplitN(o, ":", 2)
			c.Ops = append(c.Ops, c20Op{Op: f[0], Key: f[1]})
		}
		return c
	}
	scenHashes := names
	if os.Getenv("VERIF_NO_SCENARIOS") != "" { // development aid: measure what the generated part finds alone
		scenHashes = nil
	}
	for _, h := range scenHashes {
		for _, fixed := range []bool{false, true} {
			c20Exec(t, rec, mk(3, 2, fixed, h, "add:6161", "add:6162", "add:6261", "remove:6162", "exist:6161", "add:6262", "remove:6161", "remove:6262", "add:6162", "add:6161", "add:6262"), "scenario")
			c20Exec(t, rec, mk(1, 2, fixed, h, "add:6162", "add:6161", "remove:6162", "add:6161", "add:616263", "remove:616263"), "scenario")
		}
		c20Exec(t, rec, mk(2, 2, true, h, "add:6162", "remove:6162", "add:61"), "scenario")
		c20Exec(t, rec, mk(2, 3, false, h, "add:616263", "remove:616263", "add:61", "exist:616263", "add:", "remove:61", "exist:"), "scenario")
	}
	// keys around the 16-bit length boundary in a variable-length set that allows them
	for _, l := range []int{65535, 65536, 65537} {
		if scenHashes == nil {
			break
		}
		c := &c20Case{Cap: 2, Size: 70000, Fixed: false, Hash: "const"}
		for _, o := range []string{"add", "exist", "add", "remove", "exist"} {
			c.Ops = append(c.Ops, c20Op{Op: o, Key: "6162", Len: l})
		}
		c20Exec(t, rec, c, "scenario")
	}
	rapid.Check(t, func(rt *rapid.T) {
		c := &c20Case{}
		c.Cap = rapid.IntRange(1, 10).Draw(rt, "cap")
		c.Size = rapid.IntRange(1, 5).Draw(rt, "size")
		c.Fixed = rapid.Bool().Draw(rt, "fixed")
		if c.Fixed && rapid.IntRange(0, 7).Draw(rt, "ipshape") == 0 {
			c.Size = 16
		}
		c.Hash = rapid.SampledFrom(names).Draw(rt, "hash")
		allowShort := rapid.IntRange(0, 5).Draw(rt, "allowShortFixed") == 0
		n := rapid.IntRange(0, maxOps).Draw(rt, "nops")
		if rapid.IntRange(0, 39).Draw(rt, "huge") == 23 {
			// rarely: element sizes around 64 KiB (length bookkeeping wider than 16 bits), few members, short history
			c.Size = rapid.SampledFrom([]int{65535, 65536, 65537, 70000}).Draw(rt, "hugeSize")
			c.Cap = rapid.IntRange(1, 3).Draw(rt, "hugeCap")
			n = rapid.IntRange(1, 14).Draw(rt, "hugeNops")
			var hpool []c20Op
			for i := 0; i < n; i++ {
				lbl := fmt.Sprintf("h%d.", i)
				var k c20Op
				if len(hpool) > 0 && rapid.IntRange(0, 9).Draw(rt, lbl+"re") < 6 {
					k = hpool[rapid.IntRange(0, len(hpool)-1).Draw(rt, lbl+"pi")]
				} else {
					k.Key = rapid.SampledFrom([]string{"61", "62", "6162", "00"}).Draw(rt, lbl+"seed")
					k.Len = rapid.SampledFrom([]int{1, 255, 256, 65535, 65536, 65536, 65537, c.Size - 1, c.Size, c.Size, c.Size + 1}).Draw(rt, lbl+"len")
					if c.Fixed && rapid.IntRange(0, 4).Draw(rt, lbl+"exact") > 0 {
						k.Len = c.Size
					}
					if c.Fixed && k.Len < c.Size && !allowShort {
						k.Len = c.Size
					}
					hpool = append(hpool, k)
				}
				k.Op = []string{"add", "add", "add", "remove", "remove", "exist"}[rapid.IntRange(0, 5).Draw(rt, lbl+"op")]
				c.Ops = append(c.Ops, k)
			}
			rec.Sample(map[string]any{"cap": c.Cap, "size": c.Size, "fixed": c.Fixed, "hash": c.Hash, "nops": len(c.Ops), "huge": true})
			c20Exec(rt, rec, c, "rapid-huge")
			return
		}
		var pool [][]byte
		for i := 0; i < n; i++ {
			lbl := fmt.Sprintf("o%d.", i)
			var key []byte
			if len(pool) > 0 && rapid.IntRange(0, 9).Draw(rt, lbl+"re") < 6 {
				key = pool[rapid.IntRange(0, len(pool)-1).Draw(rt, lbl+"pi")]
			} else {
				key = c20GenKey(rt, c, allowShort, lbl)
				pool = append(pool, key)
			}
			op := []string{"add", "add", "add", "remove", "remove", "exist"}[rapid.IntRange(0, 5).Draw(rt, lbl+"op")]
			c.Ops = append(c.Ops, c20Op{Op: op, Key: fmt.Sprintf("%x", key)})
		}
		rec.Sample(map[string]any{"cap": c.Cap, "size": c.Size, "fixed": c.Fixed, "hash": c.Hash, "nops": len(c.Ops)})
		c20Exec(rt, rec, c, "rapid")
	})
}

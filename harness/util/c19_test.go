package util

import (
	"bytes"
	"fmt"
	"net"
	"os"
	"path/filepath"
	"sort"
	"strings"
	"testing"

	"github.com/bfenetworks/bfe/bfe_util/ipdict"
	"github.com/bfenetworks/bfe/bfe_util/ipdict/txt_load"
	"pgregory.net/rapid"

	"verif/harness/internal/ev"
)

// C19: IP dictionaries report exact membership.
//
// Oracle (from the property statement only): an address is contained iff it
// equals a loaded single address or start <= addr <= end (16-byte big-endian
// comparison, IPv4 taken in its v4-in-v6 form exactly as net.IP.To16 gives it)
// for at least one loaded range. No merging, no sorting, no knowledge of ipdict.
//
// The dictionaries are loaded the way the two real callers do it:
//   path "txt":  mod_block.GlobalIPTableLoad  = txt_load.NewTxtFileLoader(path).CheckAndLoad("") ; table.Update(items)
//   path "api":  mod_trust_clientip.ipItemsMake = NewIPItems(#single,#pair) ; InsertSingle/InsertPair ; Sort ; Version ; table.Update

type c19Entry struct {
	Start string `json:"start"`
	End   string `json:"end"` // == Start for a single address
}

type c19Dict struct {
	Path    string     `json:"path"` // "txt" or "api"
	Meta    bool       `json:"meta"` // txt: first line carries {"version",..} meta info
	Version string     `json:"version"`
	Entries []c19Entry `json:"entries"`
}

// small address universe: blocks of 16 consecutive addresses at interesting places
var c19V6Bases = []string{"::", "2001:db8::", "ffff:ffff:ffff:ffff:ffff:ffff:ffff:fff0"}
var c19V4Bases = []string{"0.0.0.0", "10.0.0.0", "255.255.255.240"}

func c19Addr(v4 bool, base, off int) net.IP {
	var b net.IP
	if v4 {
		b = net.ParseIP(c19V4Bases[base]).To16()
	} else {
		b = net.ParseIP(c19V6Bases[base]).To16()
	}
	out := make(net.IP, 16)
	copy(out, b)
	out[15] += byte(off)
	return out
}

func c19Text(ip net.IP, alt bool) string {
	if ip4 := ip.To4(); ip4 != nil && alt {
		return "::ffff:" + ip4.String()
	}
	return ip.String()
}

func c19Inc(ip net.IP) net.IP {
	out := make(net.IP, 16)
	copy(out, ip.To16())
	for i := 15; i >= 0; i-- {
		out[i]++
		if out[i] != 0 {
			return out
		}
	}
	return nil // overflow
}

func c19Dec(ip net.IP) net.IP {
	out := make(net.IP, 16)
	copy(out, ip.To16())
	for i := 15; i >= 0; i-- {
		out[i]--
		if out[i] != 0xff {
			return out
		}
	}
	return nil // underflow
}

type c19Model struct {
	singles []net.IP
	ranges  [][2]net.IP
}

func c19BuildModel(d c19Dict) c19Model {
	var m c19Model
	for _, e := range d.Entries {
		s, en := net.ParseIP(e.Start).To16(), net.ParseIP(e.End).To16()
		if bytes.Equal(s, en) {
			m.singles = append(m.singles, s)
		} else {
			m.ranges = append(m.ranges, [2]net.IP{s, en})
		}
	}
	return m
}

func (m c19Model) contains(ip net.IP) (bool, string) {
	ip16 := ip.To16()
	for _, s := range m.singles {
		if bytes.Equal(s, ip16) {
			return true, "single " + s.String()
		}
	}
	for _, r := range m.ranges {
		if bytes.Compare(r[0], ip16) <= 0 && bytes.Compare(ip16, r[1]) <= 0 {
			return true, "range " + r[0].String() + " - " + r[1].String()
		}
	}
	return false, ""
}

// componentStart returns the lowest address of the union of overlapping ranges
// around ip (used only to name the finding key, not to decide membership).
func (m c19Model) componentStart(ip net.IP) net.IP {
	lo, hi := ip.To16(), ip.To16()
	for changed := true; changed; {
		changed = false
		for _, r := range m.ranges {
			if bytes.Compare(r[0], hi) <= 0 && bytes.Compare(lo, r[1]) <= 0 {
				if bytes.Compare(r[0], lo) < 0 {
					lo, changed = r[0], true
				}
				if bytes.Compare(r[1], hi) > 0 {
					hi, changed = r[1], true
				}
			}
		}
	}
	return lo
}

// classes of a dictionary (for the evidence histogram and the non-trivial rule)
func (m c19Model) classify() (nt bool, classes []string) {
	overlap, nest, adjacent, zero6, zero4, dupStart := false, false, false, false, false, false
	for i, a := range m.ranges {
		if a[0].Equal(net.IPv6zero) {
			zero6 = true
		}
		if a[0].Equal(net.IPv4zero) {
			zero4 = true
		}
		for j, b := range m.ranges {
			if i >= j {
				continue
			}
			if bytes.Equal(a[0], b[0]) {
				dupStart = true
			}
			// overlap: intersect
			if bytes.Compare(a[0], b[1]) <= 0 && bytes.Compare(b[0], a[1]) <= 0 {
				if (bytes.Compare(a[0], b[0]) <= 0 && bytes.Compare(b[1], a[1]) <= 0) ||
					(bytes.Compare(b[0], a[0]) <= 0 && bytes.Compare(a[1], b[1]) <= 0) {
					nest = true
				} else {
					overlap = true
				}
			} else {
				if n := c19Inc(a[1]); n != nil && bytes.Equal(n, b[0]) {
					adjacent = true
				}
				if n := c19Inc(b[1]); n != nil && bytes.Equal(n, a[0]) {
					adjacent = true
				}
			}
		}
	}
	add := func(c bool, s string) {
		if c {
			classes = append(classes, s)
		}
	}
	add(overlap, "ranges-overlap")
	add(nest, "ranges-nested")
	add(adjacent, "ranges-adjacent")
	add(zero6, "range-from-::")
	add(zero4, "range-from-0.0.0.0")
	add(dupStart, "ranges-same-start")
	add(len(m.ranges) == 0, "no-ranges")
	add(len(m.singles) > 0 && len(m.ranges) > 0, "singles+ranges")
	add(len(m.ranges) >= 12, "ranges>=12")
	return overlap || nest || zero6 || zero4, classes
}

func c19FileText(d c19Dict, ws []int) string {
	var sb strings.Builder
	m := c19BuildModel(d)
	if d.Meta {
		fmt.Fprintf(&sb, "#{\"version\": %q, \"singleIPNum\": %d, \"pairIPNum\": %d}\n", d.Version, len(m.singles), len(m.ranges))
	} else if len(ws) > 0 && ws[0]%3 == 0 {
		sb.WriteString("# blocked addresses\n")
	}
	for i, e := range d.Entries {
		w := 0
		if i < len(ws) {
			w = ws[i]
		}
		switch {
		case e.Start == e.End && w%2 == 0:
			sb.WriteString(e.Start)
		default:
			sep := []string{" ", "\t", "   ", " \t", "\t "}[w%5]
			sb.WriteString(e.Start + sep + e.End)
		}
		if w%7 == 3 {
			sb.WriteString("  ")
		}
		sb.WriteString("\n")
		if w%11 == 5 {
			sb.WriteString("\n# comment\n")
		}
	}
	return sb.String()
}

// c19Load loads d through the real entry points; ok=false when the loader
// rejected the dictionary (excluded by construction, counted).
func c19Load(dir string, d c19Dict, ws []int) (items *ipdict.IPItems, fileText string, err error) {
	if d.Path == "txt" {
		fileText = c19FileText(d, ws)
		fn := filepath.Join(dir, "ip.dict")
		if err := os.WriteFile(fn, []byte(fileText), 0o644); err != nil {
			return nil, fileText, fmt.Errorf("harness: %v", err)
		}
		items, err = txt_load.NewTxtFileLoader(fn).CheckAndLoad("")
		return items, fileText, err
	}
	// transcription of mod_trust_clientip.ipItemsMake
	nS, nP := 0, 0
	type sc struct{ b, e net.IP }
	var scopes []sc
	for _, e := range d.Entries {
		b, en := net.ParseIP(e.Start), net.ParseIP(e.End)
		scopes = append(scopes, sc{b, en})
		if bytes.Compare(b, en) == 0 {
			nS++
		} else {
			nP++
		}
	}
	items, err = ipdict.NewIPItems(nS, nP)
	if err != nil {
		return nil, "", err
	}
	for _, s := range scopes {
		if bytes.Compare(s.b, s.e) == 0 {
			err = items.InsertSingle(s.b)
		} else {
			err = items.InsertPair(s.b, s.e)
		}
		if err != nil {
			return nil, "", err
		}
	}
	items.Sort()
	items.Version = d.Version
	return items, "", nil
}

func c19Probes(m c19Model, extra []net.IP) []net.IP {
	seen := map[string]bool{}
	var out []net.IP
	add := func(ip net.IP) {
		if ip == nil {
			return
		}
		k := string(ip.To16())
		if !seen[k] {
			seen[k] = true
			out = append(out, ip)
		}
	}
	for _, s := range m.singles {
		add(s)
		add(c19Dec(s))
		add(c19Inc(s))
	}
	for _, r := range m.ranges {
		for _, b := range r {
			add(b)
			add(c19Dec(b))
			add(c19Inc(b))
		}
	}
	for _, e := range extra {
		add(e)
	}
	add(net.IPv6zero)
	add(net.IPv4zero.To16())
	sort.Slice(out, func(i, j int) bool { return bytes.Compare(out[i].To16(), out[j].To16()) < 0 })
	return out
}

// c19CheckDict loads one dictionary into table and compares every probe.
// returns false when the rest of the case must be skipped (known finding hit).
func c19CheckDict(tb ev.TB, rec *ev.Rec, dir string, table *ipdict.IPTable, d c19Dict, ws []int, extra []net.IP, gen string) bool {
	m := c19BuildModel(d)
	nt, classes := m.classify()
	classes = append(classes, "path-"+d.Path, "gen-"+gen)
	items, fileText, err := c19Load(dir, d, ws)
	fpr := fmt.Sprintf("%s|%v|%v", d.Path, d.Meta, d.Entries)
	if err != nil {
		if strings.HasPrefix(err.Error(), "harness:") {
			tb.Fatalf("harness I/O problem: %v", err)
		}
		// the generator only writes well-formed, same-family, start<=end entries with exact counts
		rec.Case(fpr, nt, append(classes, "load-rejected")...)
		w := map[string]any{"dict": d, "file": fileText, "error": err.Error()}
		rec.Fail(tb, "valid-dict-rejected", w, "well-formed dictionary rejected by loader: %v", err)
		return false
	}
	table.Update(items)
	rec.Case(fpr, nt, classes...)
	if v := table.Version(); v != d.Version && (d.Path == "api" || d.Meta) {
		rec.Fail(tb, "version-mismatch", map[string]any{"dict": d}, "table.Version()=%q, loaded %q", v, d.Version)
	}
	probes := c19Probes(m, extra)
	rec.Add("probes", int64(len(probes)))
	for _, p := range probes {
		want, why := m.contains(p)
		forms := []net.IP{p}
		if p4 := p.To4(); p4 != nil {
			forms = append(forms, p4) // callers pass 4-byte net.IPs for IPv4 peers
		}
		for _, f := range forms {
			got := table.Search(f)
			if got == want {
				continue
			}
			key := "false-positive"
			if want {
				key = "false-negative"
				if m.componentStart(p).Equal(net.IPv6zero) {
					key = "false-negative-range-from-::"
				}
			} else if p.Equal(net.IPv6zero) {
				key = "false-positive-::"
			}
			w := map[string]any{"dict": d, "ws": ws, "file": fileText, "probe": p.String(), "probe_len": len(f), "want": want, "got": got, "why": why}
			if !rec.Fail(tb, key, w, "Search(%s)=%v, want %v (%s); dict(%s)=%v", p, got, want, why, d.Path, d.Entries) {
				rec.Excluded("known-finding:" + key)
				return false
			}
		}
	}
	return true
}

func c19GenEntry(rt *rapid.T, label string) c19Entry {
	v4 := rapid.Bool().Draw(rt, label+"v4")
	alt := rapid.IntRange(0, 5).Draw(rt, label+"alt") == 0
	kind := rapid.IntRange(0, 9).Draw(rt, label+"kind")
	b1 := rapid.IntRange(0, 2).Draw(rt, label+"b1")
	o1 := rapid.IntRange(0, 15).Draw(rt, label+"o1")
	if kind <= 1 { // single
		ip := c19Addr(v4, b1, o1)
		s := c19Text(ip, alt)
		return c19Entry{s, s}
	}
	b2, o2 := b1, rapid.IntRange(0, 15).Draw(rt, label+"o2")
	if kind == 9 { // range across blocks (wide)
		b2 = rapid.IntRange(0, 2).Draw(rt, label+"b2")
	}
	a, b := c19Addr(v4, b1, o1), c19Addr(v4, b2, o2)
	if bytes.Compare(a, b) > 0 {
		a, b = b, a
	}
	return c19Entry{c19Text(a, alt), c19Text(b, rapid.IntRange(0, 5).Draw(rt, label+"alt2") == 0)}
}

func c19GenDict(rt *rapid.T, label string) (c19Dict, []int) {
	var d c19Dict
	if rapid.Bool().Draw(rt, label+"txt") {
		d.Path = "txt"
		d.Meta = rapid.Bool().Draw(rt, label+"meta")
	} else {
		d.Path = "api"
	}
	d.Version = fmt.Sprintf("v%d", rapid.IntRange(1, 9).Draw(rt, label+"ver"))
	if d.Path == "txt" && !d.Meta {
		d.Version = "" // a file without meta line has version ""
	}
	max := 8
	if rapid.IntRange(0, 9).Draw(rt, label+"big") == 0 {
		max = 30 // > 12 elements: sort.Sort leaves the insertion-sort regime
	}
	n := rapid.IntRange(0, max).Draw(rt, label+"n")
	for i := 0; i < n; i++ {
		d.Entries = append(d.Entries, c19GenEntry(rt, fmt.Sprintf("%se%d.", label, i)))
	}
	ws := rapid.SliceOfN(rapid.IntRange(0, 76), n, n).Draw(rt, label+"ws")
	return d, ws
}

func c19Extra() []net.IP {
	var out []net.IP
	for b := 0; b < 3; b++ {
		for _, o := range []int{0, 7, 15} {
			out = append(out, c19Addr(true, b, o), c19Addr(false, b, o))
		}
	}
	return out
}

func TestC19(t *testing.T) {
	rec := ev.New("C19", "dictionaries of 0..30 singles/ranges over six 16-address blocks (::, 2001:db8::, ffff:..:fff0, 0.0.0.0, 10.0.0.0, 255.255.255.240; v4 also written ::ffff:a.b.c.d) loaded via txt_load.CheckAndLoad (file, optional meta line, space/tab separators) or the ipItemsMake call sequence, 1-2 successive loads into one IPTable; probes = every bound and single +-1, both zero addresses, block samples, IPv4 probes in 4- and 16-byte form. non-trivial: >=2 ranges overlap or nest, or a range starts at :: / 0.0.0.0; distinct by (path, entry list)")
	dir := os.Getenv("VERIF_WORK")
	if dir == "" {
		dir = t.TempDir()
	}
	extra := c19Extra()
	if w := replayWitness(t); w != nil {
		var d c19Dict
		var ws []int
		replayInto(t, w["dict"], &d)
		if w["ws"] != nil {
			replayInto(t, w["ws"], &ws)
		}
		if c19CheckDict(t, rec, dir, ipdict.NewIPTable(), d, ws, extra, "replay") {
			t.Logf("replayed dictionary holds")
		}
		return
	}

	// deterministic sweep: every pair of ranges inside one 6-address window, for the :: block and the 0.0.0.0 block,
	// plus a third fixed range, through both paths
	type rg struct{ a, b int }
	var rgs []rg
	for a := 0; a < 5; a++ {
		for b := a + 1; b < 6; b++ {
			rgs = append(rgs, rg{a, b})
		}
	}
	sweep := 0
	for _, v4 := range []bool{false, true} {
		for _, r1 := range rgs {
			for _, r2 := range rgs {
				for third := 0; third < 2; third++ {
					for _, path := range []string{"api", "txt"} {
						d := c19Dict{Path: path, Version: "s1", Meta: path == "txt"}
						mk := func(r rg) c19Entry {
							return c19Entry{c19Addr(v4, 0, r.a).String(), c19Addr(v4, 0, r.b).String()}
						}
						d.Entries = []c19Entry{mk(r1), mk(r2)}
						if third == 1 {
							d.Entries = append(d.Entries, c19Entry{c19Addr(v4, 1, 2).String(), c19Addr(v4, 1, 9).String()})
						}
						table := ipdict.NewIPTable()
						c19CheckDict(t, rec, dir, table, d, nil, extra, "sweep")
						sweep++
					}
				}
			}
		}
	}
	rec.Set("sweep_dicts", int64(sweep))

	rapid.Check(t, func(rt *rapid.T) {
		table := ipdict.NewIPTable()
		nd := 1
		if rapid.IntRange(0, 3).Draw(rt, "reload") == 0 {
			nd = 2
		}
		for i := 0; i < nd; i++ {
			d, ws := c19GenDict(rt, fmt.Sprintf("d%d.", i))
			rec.Sample(d)
			if i == 1 {
				rec.Class("second-load-into-same-table")
			}
			if !c19CheckDict(rt, rec, dir, table, d, ws, extra, "rapid") {
				return
			}
		}
	})
}

package util

import (
	"bytes"
	"errors"
	"fmt"
	"io"
	"os"
	"runtime"
	"sync"
	"sync/atomic"
	"testing"
	"time"

	"github.com/bfenetworks/bfe/bfe_util/pipe"
	"pgregory.net/rapid"

	"verif/harness/internal/ev"
)

// C21: body pipes deliver data in order exactly once.
//
// Model (from the statement and the doc comments of pipe.go): a byte queue of
// the bytes accepted by Write and not yet read, the close error, the break
// error, a released flag.
//   Write(d):   pipe closed/released -> (0, err). Otherwise, if d fits into
//               capacity - len(queue) it must be accepted completely (n==len, nil);
//               if it does not fit: err != nil and n < len(d) ("refused"); whatever
//               n was reported as accepted is appended to the queue (never more, never less).
//   Read(m):    break error set -> (0, breakErr) immediately; queue non-empty ->
//               1..min(m,len) bytes, exactly the head of the queue, nil; queue empty and
//               closed -> (0, closeErr). Reads that would block (queue empty, not
//               closed, not broken) are never issued by the sequential machine.
//   CloseWithError/BreakWithError: first error wins, except that io.EOF is replaced by a
//               later error (documented in closeWithError).
//   Release:    (only after CloseWithError, once, as http2/spdy closeStream do) drops the
//               buffer: reads report the close error, writes are refused, and the next
//               pipe taken from the pool starts empty.

var (
	c21ErrA = errors.New("verif: close error A")
	c21ErrB = errors.New("verif: error B")
	c21Errs = map[string]error{"EOF": io.EOF, "A": c21ErrA, "B": c21ErrB}
)

type c21Op struct {
	Op  string `json:"op"`            // write read close closefn break release newpipe err done
	N   int    `json:"n,omitempty"`   // write/read size
	Err string `json:"err,omitempty"` // EOF A B
}

type c21Case struct {
	Cap    int     `json:"cap"`
	Pooled bool    `json:"pooled"`
	Ops    []c21Op `json:"ops"`
}

type c21Model struct {
	cap      int
	queue    []byte
	closeErr error
	breakErr error
	released bool
	fnArmed  bool // CloseWithErrorAndCode callback pending
	// FixedBuffer geometry, tracked only for the non-trivial rule
	r, w int
}

func (m *c21Model) noteWrite(n, asked int) (slide bool) {
	if m.r > 0 && asked > m.cap-m.w {
		slide = m.w-m.r > 0
		m.w -= m.r
		m.r = 0
	}
	m.w += n
	return slide
}

func (m *c21Model) noteRead(n int) {
	m.r += n
	if m.r == m.w {
		m.r, m.w = 0, 0
	}
}

func c21SetErr(dst *error, e error) bool {
	if *dst != nil {
		if *dst == io.EOF {
			*dst = e
		}
		return false
	}
	*dst = e
	return true
}

type c21Seq struct {
	tb  ev.TB
	rec *ev.Rec
	c   *c21Case
	off int // stream offset of the next byte to write
}

// c21Pat is the stream byte at offset k: never zero-run, no short period (a shift by 256 or 65536 is visible).
func c21Pat(k int) byte { return byte(k*7 + (k>>8)*13 + (k>>16)*5 + 1) }

// c21Diff describes where two byte slices differ, without dumping large buffers.
func c21Diff(got, want []byte) string {
	i := 0
	for i < len(got) && i < len(want) && got[i] == want[i] {
		i++
	}
	e := func(b []byte) []byte {
		if i >= len(b) {
			return nil
		}
		j := i + 8
		if j > len(b) {
			j = len(b)
		}
		return b[i:j]
	}
	return fmt.Sprintf("first difference at byte %d of %d: got %x.. want %x..", i, len(got), e(got), e(want))
}

func (s *c21Seq) fail(step int, key, format string, args ...any) bool {
	c := *s.c
	if step+1 < len(c.Ops) {
		c.Ops = c.Ops[:step+1]
	}
	return s.rec.Fail(s.tb, key, map[string]any{"case": c, "step": step}, "cap=%d pooled=%v step %d (%+v): %s", s.c.Cap, s.c.Pooled, step, s.c.Ops[step], fmt.Sprintf(format, args...))
}

// c21RunSeq executes the sequential machine. Ops that are not enabled in the
// current model state are skipped (counted), so any op list is a valid case.
func c21RunSeq(tb ev.TB, rec *ev.Rec, c *c21Case, gen string) {
	s := &c21Seq{tb: tb, rec: rec, c: c}
	pool := &sync.Pool{New: func() interface{} { return pipe.NewFixedBuffer(make([]byte, c.Cap)) }}
	newPipe := func() *pipe.Pipe {
		if c.Pooled {
			return pipe.NewPipeFromBufferPool(pool)
		}
		return pipe.NewPipeWithSize(uint32(c.Cap))
	}
	p := newPipe()
	m := &c21Model{cap: c.Cap}
	fnCalls := 0
	var slideWrite, closeBuffered, refused, breakBuffered, afterRelease, reuse, eofReplaced, backlog64k bool
	skipped := 0
	var fpr bytes.Buffer
	fmt.Fprintf(&fpr, "%d/%v:", c.Cap, c.Pooled)
	for i, op := range c.Ops {
		switch op.Op {
		case "write":
			d := make([]byte, op.N)
			for j := range d {
				d[j] = c21Pat(s.off + j)
			}
			var n int
			var err error
			if pv := ev.Try(func() { n, err = p.Write(d) }); pv != nil {
				s.fail(i, "panic-write", "Write panicked: %v", pv)
				return
			}
			if n < 0 || n > len(d) {
				s.fail(i, "write-count-out-of-range", "Write(%d bytes) returned n=%d", len(d), n)
				return
			}
			if n < len(d) && err == nil {
				s.fail(i, "write-silently-truncated", "Write(%d bytes) returned n=%d with nil error", len(d), n)
				return
			}
			switch {
			case m.closeErr != nil || m.released:
				if n != 0 || err == nil {
					s.fail(i, "write-after-close-accepted", "Write on a closed/released pipe returned (%d, %v)", n, err)
					return
				}
				afterRelease = afterRelease || m.released
			case m.breakErr != nil:
				// statement is silent about writes after a break; data can never be read
			default:
				free := m.cap - len(m.queue)
				if len(d) <= free {
					if n != len(d) || err != nil {
						s.fail(i, "fitting-write-refused", "Write(%d bytes) with %d free returned (%d, %v)", len(d), free, n, err)
						return
					}
				} else {
					refused = true
					if n > free {
						s.fail(i, "write-over-capacity", "Write(%d bytes) with %d free claims %d accepted", len(d), free, n)
						return
					}
				}
				if m.r > 0 && len(m.queue) <= 65536 && len(m.queue)+n > 65536 {
					backlog64k = true
				}
				if m.noteWrite(n, len(d)) {
					slideWrite = true
				}
				m.queue = append(m.queue, d[:n]...)
				s.off += n
			}
			fmt.Fprintf(&fpr, "w%d,", op.N)
		case "read":
			if m.breakErr == nil && len(m.queue) == 0 && m.closeErr == nil {
				skipped++ // would block
				continue
			}
			if op.N == 0 && (m.breakErr != nil || len(m.queue) == 0) {
				skipped++
				continue
			}
			buf := make([]byte, op.N)
			var n int
			var err error
			before := fnCalls
			if pv := ev.Try(func() { n, err = p.Read(buf) }); pv != nil {
				s.fail(i, "panic-read", "Read panicked: %v", pv)
				return
			}
			switch {
			case m.breakErr != nil:
				breakBuffered = breakBuffered || len(m.queue) > 0
				if n != 0 || err != m.breakErr {
					s.fail(i, "break-not-immediate", "Read after break returned (%d, %v), want (0, %v); %d bytes were buffered", n, err, m.breakErr, len(m.queue))
					return
				}
			case len(m.queue) > 0:
				max := op.N
				if max > len(m.queue) {
					max = len(m.queue)
				}
				if err != nil {
					key := "read-error-with-data-buffered"
					if err == m.closeErr {
						key = "close-error-before-drain"
					}
					s.fail(i, key, "Read(%d) with %d bytes buffered returned (%d, %v)", op.N, len(m.queue), n, err)
					return
				}
				if n > max || (n == 0 && op.N > 0) {
					s.fail(i, "read-count", "Read(%d) with %d bytes buffered returned n=%d", op.N, len(m.queue), n)
					return
				}
				if !bytes.Equal(buf[:n], m.queue[:n]) {
					s.fail(i, "read-wrong-bytes", "Read(%d) with %d bytes buffered returned %d bytes, %s", op.N, len(m.queue), n, c21Diff(buf[:n], m.queue[:n]))
					return
				}
				m.queue = m.queue[n:]
				m.noteRead(n)
			default: // drained and closed
				if n != 0 || err != m.closeErr {
					s.fail(i, "close-error-wrong", "Read on drained closed pipe returned (%d, %v), want (0, %v)", n, err, m.closeErr)
					return
				}
				if m.fnArmed {
					if fnCalls != before+1 {
						s.fail(i, "close-code-not-run", "CloseWithErrorAndCode callback ran %d times in the Read that reported the close error", fnCalls-before)
						return
					}
					m.fnArmed = false
				}
			}
			if fnCalls != before && !(len(m.queue) == 0 && m.breakErr == nil) {
				s.fail(i, "close-code-early", "CloseWithErrorAndCode callback ran in a Read that did not report the close error")
				return
			}
			fmt.Fprintf(&fpr, "r%d,", op.N)
		case "close", "closefn":
			e := c21Errs[op.Err]
			if op.Op == "closefn" {
				wasNil := m.closeErr == nil
				p.CloseWithErrorAndCode(e, func() { fnCalls++ })
				if wasNil {
					m.fnArmed = true
				}
			} else {
				wasNil := m.closeErr == nil
				p.CloseWithError(e)
				if wasNil {
					m.fnArmed = false
				}
			}
			if m.closeErr == io.EOF && e != io.EOF {
				eofReplaced = true
			}
			if c21SetErr(&m.closeErr, e) && len(m.queue) > 0 && !m.released {
				closeBuffered = true
			}
			fmt.Fprintf(&fpr, "c%s,", op.Err)
		case "break":
			e := c21Errs[op.Err]
			p.BreakWithError(e)
			if c21SetErr(&m.breakErr, e) {
				m.fnArmed = false // pipe.go: a first break clears the pending callback
			}
			fmt.Fprintf(&fpr, "b%s,", op.Err)
		case "release":
			// real callers: closeStream does CloseWithError then Release, once, pooled pipes only
			if !c.Pooled || m.released || m.closeErr == nil {
				skipped++
				continue
			}
			if pv := ev.Try(func() { p.Release(pool) }); pv != nil {
				s.fail(i, "panic-release", "Release panicked: %v", pv)
				return
			}
			m.released = true
			m.queue = nil
			m.r, m.w = 0, 0
			fmt.Fprintf(&fpr, "R,")
		case "newpipe":
			// the next stream takes a pipe from the same pool
			if !c.Pooled || !m.released {
				skipped++
				continue
			}
			p = newPipe()
			m = &c21Model{cap: c.Cap}
			reuse = true
			fmt.Fprintf(&fpr, "N,")
		case "err":
			want := m.closeErr
			if m.breakErr != nil {
				want = m.breakErr
			}
			if got := p.Err(); got != want {
				s.fail(i, "err-mismatch", "Err()=%v, want %v", got, want)
				return
			}
			closed := false
			select {
			case <-p.Done():
				closed = true
			default:
			}
			if closed != (want != nil) {
				s.fail(i, "done-mismatch", "Done() closed=%v but Err()=%v", closed, want)
				return
			}
			fmt.Fprintf(&fpr, "e,")
		}
	}
	classes := []string{"gen-" + gen}
	add := func(b bool, c string) {
		if b {
			classes = append(classes, c)
		}
	}
	add(c.Pooled, "pooled")
	add(slideWrite, "write-slides-unread-data")
	add(closeBuffered, "close-with-buffered-data")
	add(breakBuffered, "read-after-break-with-buffered-data")
	add(refused, "write-does-not-fit")
	add(afterRelease, "write-after-release")
	add(reuse, "pool-reuse-after-release")
	add(eofReplaced, "eof-replaced-by-error")
	add(c.Cap > 65536, "cap>64KiB")
	add(backlog64k, "backlog-crosses-64KiB-with-r>0")
	rec.Add("seq_ops_skipped_not_enabled", int64(skipped))
	rec.Case("seq:"+fpr.String(), slideWrite || closeBuffered || backlog64k, classes...)
}

func c21GenSeq(rt *rapid.T) *c21Case {
	c := &c21Case{}
	c.Cap = rapid.IntRange(1, 24).Draw(rt, "cap")
	c.Pooled = rapid.Bool().Draw(rt, "pooled")
	n := rapid.IntRange(1, ev.N(40, 80)).Draw(rt, "nops")
	// 1 case in ~16: windows around and above 64 KiB (h2 "isw" option -> NewPipeWithSize, pooled default 65535)
	// with write/read sizes that let an unread backlog grow past 64 KiB / 128 KiB while partly consumed
	maxW, maxR := c.Cap+2, c.Cap+2
	if rapid.IntRange(0, 15).Draw(rt, "large") == 11 {
		c.Cap = rapid.SampledFrom([]int{65535, 65536, 65537, 100000, 131072, 200000, 262144}).Draw(rt, "largeCap")
		maxW, maxR = 45000, 30000
		if n > 40 {
			n = 40
		}
	}
	errs := []string{"EOF", "A", "B"}
	closed, released := false, false // rough generator-side state, only to steer the op mix
	for i := 0; i < n; i++ {
		l := fmt.Sprintf("o%d.", i)
		k := rapid.IntRange(0, 99).Draw(rt, l+"k")
		if c.Pooled && closed && k < 60 {
			// after a close: drain a little, then release and hand the buffer to the next stream
			switch {
			case released && k < 15:
				k = 93 // newpipe
			case !released && k < 25:
				k = 90 // release
			}
		}
		switch {
		case k >= 76 && k < 85:
			closed = true
		case k >= 88 && k < 92:
			released = closed
		case k >= 92 && k < 95:
			if released {
				closed, released = false, false
			}
		}
		switch {
		case k < 38:
			sz := rapid.IntRange(0, maxW).Draw(rt, l+"n")
			if c.Cap > 24 && rapid.IntRange(0, 19).Draw(rt, l+"huge") == 7 {
				sz = c.Cap - rapid.IntRange(0, 2).Draw(rt, l+"hm") + 1 // around the whole window
			}
			if rapid.IntRange(0, 3).Draw(rt, l+"small") > 0 && sz > c.Cap/2+1 {
				sz = sz % (c.Cap/2 + 1)
			}
			c.Ops = append(c.Ops, c21Op{Op: "write", N: sz})
		case k < 76:
			c.Ops = append(c.Ops, c21Op{Op: "read", N: rapid.IntRange(0, maxR).Draw(rt, l+"n")})
		case k < 82:
			c.Ops = append(c.Ops, c21Op{Op: "close", Err: rapid.SampledFrom(errs).Draw(rt, l+"e")})
		case k < 85:
			c.Ops = append(c.Ops, c21Op{Op: "closefn", Err: rapid.SampledFrom(errs).Draw(rt, l+"e")})
		case k < 88:
			c.Ops = append(c.Ops, c21Op{Op: "break", Err: rapid.SampledFrom(errs).Draw(rt, l+"e")})
		case k < 92:
			c.Ops = append(c.Ops, c21Op{Op: "release"})
		case k < 95:
			c.Ops = append(c.Ops, c21Op{Op: "newpipe"})
		default:
			c.Ops = append(c.Ops, c21Op{Op: "err"})
		}
	}
	return c
}

// ---------------------------------------------------------------------------
// concurrent variant: one writer (window-limited exactly like HTTP/2 flow
// control, so every write must fit), one reader, one closer.

type c21Conc struct {
	Cap      int    `json:"cap"`
	Pooled   bool   `json:"pooled"`
	Writes   []int  `json:"writes"`    // chunk sizes (each <= cap)
	Reads    []int  `json:"reads"`     // read buffer sizes, cycled
	End      string `json:"end"`       // "close" after the last write | "break" somewhere | "close-early"
	EndAfter int    `json:"end_after"` // for break/close-early: closer fires after this many write calls
	Err      string `json:"err"`
	Yields   []int  `json:"yields"` // scheduling nudges (runtime.Gosched counts), cycled
}

type c21ConcResult struct {
	accepted  []byte // concatenation of what Write reported as accepted
	got       []byte
	readErr   error
	problem   string
	problemK  string
	writesRef int
}

// c21AllParked reports whether every goroutine started by c21RunConcOnce is blocked
// (chan receive / select / sync.Cond.Wait / semacquire ...), i.e. none is runnable.
func c21AllParked() bool {
	buf := make([]byte, 4<<20)
	buf = buf[:runtime.Stack(buf, true)]
	found := false
	for _, g := range bytes.Split(buf, []byte("\n\n")) {
		if !bytes.Contains(g, []byte("c21RunConcOnce.func")) || bytes.Contains(g, []byte("c21AllParked")) {
			continue
		}
		found = true
		i, j := bytes.IndexByte(g, '['), bytes.IndexByte(g, ']')
		if i < 0 || j < i {
			return false
		}
		st := string(g[i+1 : j])
		for _, busy := range []string{"runnable", "running", "syscall", "sleep", "GC", "waiting", "IO wait", "preempted", "copystack"} {
			if len(st) >= len(busy) && st[:len(busy)] == busy {
				return false
			}
		}
	}
	return found
}

func c21RunConcOnce(c *c21Conc, watchdog time.Duration) (c21ConcResult, string) {
	res := &c21ConcResult{} // owned by the goroutines until wg.Wait() returned; never touched after a watchdog hit
	pool := &sync.Pool{New: func() interface{} { return pipe.NewFixedBuffer(make([]byte, c.Cap)) }}
	var p *pipe.Pipe
	if c.Pooled {
		p = pipe.NewPipeFromBufferPool(pool)
	} else {
		p = pipe.NewPipeWithSize(uint32(c.Cap))
	}
	endErr := c21Errs[c.Err]
	var acked int64                  // reader -> writer: bytes consumed so far (window updates)
	notify := make(chan struct{}, 1) // wakes the writer after acked moved
	fire := make(chan struct{})      // writer -> closer
	var mu sync.Mutex                // protects res.problem
	setProblem := func(k, f string, a ...any) {
		mu.Lock()
		if res.problem == "" {
			res.problemK, res.problem = k, fmt.Sprintf(f, a...)
		}
		mu.Unlock()
	}
	yield := func(i int) {
		if len(c.Yields) > 0 {
			for k := 0; k < c.Yields[i%len(c.Yields)]; k++ {
				runtime.Gosched()
			}
		}
	}
	var wg sync.WaitGroup
	readerDone := make(chan struct{})
	var accepted []byte
	// writer
	wg.Add(1)
	go func() {
		defer wg.Done()
		written := 0
		fired := false
		for i, sz := range c.Writes {
			if (c.End == "break" || c.End == "close-early") && i == c.EndAfter && !fired {
				close(fire)
				fired = true
			}
			for c.Cap-(written-int(atomic.LoadInt64(&acked))) < sz {
				select {
				case <-notify:
				case <-readerDone:
					return
				}
			}
			d := make([]byte, sz)
			for j := range d {
				d[j] = c21Pat(written + j)
			}
			yield(i)
			n, err := p.Write(d)
			if n < 0 || n > sz {
				setProblem("write-count-out-of-range", "Write(%d) returned n=%d", sz, n)
				return
			}
			accepted = append(accepted, d[:n]...)
			written += n
			if err != nil {
				if n != 0 {
					setProblem("partial-write-on-closed-pipe", "window-conforming Write(%d) returned (%d, %v)", sz, n, err)
				}
				// refused: legitimate only once the closer has fired (pipe closed) - checked by the caller
				res.writesRef++
				return
			}
			if n != sz {
				setProblem("write-silently-truncated", "Write(%d) returned (%d, nil)", sz, n)
				return
			}
		}
		if !fired {
			close(fire)
		}
	}()
	// closer
	wg.Add(1)
	go func() {
		defer wg.Done()
		<-fire
		yield(3)
		if c.End == "break" {
			p.BreakWithError(endErr)
		} else {
			p.CloseWithError(endErr)
		}
	}()
	// reader
	wg.Add(1)
	go func() {
		defer wg.Done()
		defer close(readerDone)
		for i := 0; ; i++ {
			buf := make([]byte, c.Reads[i%len(c.Reads)])
			yield(i + 1)
			n, err := p.Read(buf) // blocks until data or closure: the closer guarantees closure arrives
			if n < 0 || n > len(buf) {
				setProblem("read-count", "Read(%d) returned n=%d", len(buf), n)
				return
			}
			res.got = append(res.got, buf[:n]...)
			if n > 0 {
				atomic.AddInt64(&acked, int64(n))
				select {
				case notify <- struct{}{}:
				default:
				}
			}
			if err != nil {
				res.readErr = err
				if n != 0 {
					setProblem("read-data-with-error", "Read returned (%d, %v)", n, err)
				}
				return
			}
			if n == 0 {
				setProblem("read-zero-nil", "Read(%d) returned (0, nil)", len(buf))
				return
			}
		}
	}()
	done := make(chan struct{})
	go func() { wg.Wait(); close(done) }()
	// Watchdog. A hang is only reported when it is a proven deadlock: every goroutine of
	// this case is parked (none runnable/running), so nobody is left to wake anybody up -
	// a criterion that does not depend on machine load. Anything else that is merely slow
	// ends as "inconclusive" after the long timeout.
	deadline := time.After(watchdog)
	for wait := 3 * time.Second; ; {
		select {
		case <-done:
		case <-time.After(wait):
			if c21AllParked() {
				select {
				case <-done: // finished while we looked
				default:
					return c21ConcResult{}, "deadlock"
				}
			} else {
				continue
			}
		case <-deadline:
			return c21ConcResult{}, "slow"
		}
		break
	}
	res.accepted = accepted
	if c.Pooled {
		p.Release(pool)
	}
	return *res, ""
}

func c21CheckConc(outer, tb ev.TB, rec *ev.Rec, c *c21Conc) {
	fpr := fmt.Sprintf("conc:%+v", *c)
	classes := []string{"concurrent", "conc-end-" + c.End}
	if c.Cap > 65536 {
		classes = append(classes, "conc-cap>64KiB")
	}
	if c.Pooled {
		classes = append(classes, "conc-pooled")
	}
	w := map[string]any{"concurrent": c}
	res, hung := c21RunConcOnce(c, 120*time.Second)
	if hung == "deadlock" {
		buf := make([]byte, 1<<18)
		buf = buf[:runtime.Stack(buf, true)]
		os.Stderr.Write(buf)
		rec.Case(fpr, true, append(classes, "conc-deadlock")...)
		// reported on the outer testing.T: re-running a hanging schedule under rapid's shrinker is pointless
		rec.Fail(outer, "deadlock", w, "reader, writer and closer goroutines are all parked and the exchange is not finished (deadlock): %+v", *c)
		return
	}
	if hung != "" {
		rec.Excluded("conc-slow-inconclusive")
		return
	}
	rec.Case(fpr, true, classes...)
	if res.problem != "" {
		rec.Fail(tb, res.problemK, w, "%s; case %+v", res.problem, *c)
		return
	}
	endErr := c21Errs[c.Err]
	if res.readErr != endErr {
		rec.Fail(tb, "conc-wrong-error", w, "reader ended with %v, want %v; case %+v", res.readErr, endErr, *c)
		return
	}
	if !bytes.HasPrefix(res.accepted, res.got) {
		rec.Fail(tb, "conc-wrong-bytes", w, "reader got %d bytes which are not a prefix of the %d accepted bytes: %s; case %+v", len(res.got), len(res.accepted), c21Diff(res.got, res.accepted), *c)
		return
	}
	if c.End != "break" && len(res.got) != len(res.accepted) {
		rec.Fail(tb, "conc-close-before-drain", w, "close error reported after %d of %d accepted bytes; case %+v", len(res.got), len(res.accepted), *c)
		return
	}
	if c.End == "close" && res.writesRef > 0 {
		rec.Fail(tb, "fitting-write-refused", w, "window-conforming write refused before the pipe was closed; case %+v", *c)
		return
	}
	if len(res.got) < len(res.accepted) {
		rec.Class("conc-break-dropped-data")
	}
	if res.writesRef > 0 {
		rec.Class("conc-write-after-close-refused")
	}
}

func c21GenConc(rt *rapid.T) *c21Conc {
	c := &c21Conc{}
	c.Cap = rapid.IntRange(1, 16).Draw(rt, "cap")
	c.Pooled = rapid.Bool().Draw(rt, "pooled")
	if rapid.IntRange(0, 9).Draw(rt, "large") == 7 {
		// large h2 stream window: the writer may run up to a whole window ahead of the reader
		c.Cap = rapid.SampledFrom([]int{65537, 131072, 262144}).Draw(rt, "largeCap")
		c.Writes = rapid.SliceOfN(rapid.IntRange(1, 50000), 1, 12).Draw(rt, "writes")
		c.Reads = rapid.SliceOfN(rapid.IntRange(1, 30000), 1, 8).Draw(rt, "reads")
	} else {
		c.Writes = rapid.SliceOfN(rapid.IntRange(1, c.Cap), 1, 40).Draw(rt, "writes")
		c.Reads = rapid.SliceOfN(rapid.IntRange(1, c.Cap+3), 1, 8).Draw(rt, "reads")
	}
	c.End = rapid.SampledFrom([]string{"close", "close", "break", "close-early"}).Draw(rt, "end")
	c.EndAfter = rapid.IntRange(0, len(c.Writes)-1).Draw(rt, "endAfter")
	c.Err = rapid.SampledFrom([]string{"EOF", "A", "B"}).Draw(rt, "err")
	c.Yields = rapid.SliceOfN(rapid.IntRange(0, 3), 1, 6).Draw(rt, "yields")
	return c
}

func TestC21(t *testing.T) {
	rec := ev.New("C21", "sequential: 1..40 ops (write 0..cap+2 bytes, read 0..cap+2, CloseWithError/CloseWithErrorAndCode/BreakWithError with EOF|A|B, Release, next pipe from the same pool, Err/Done) on NewPipeWithSize(1..24; 1 case in ~16: 65535..262144 with writes up to 45000 and reads up to 30000 bytes) or pooled pipes of the same sizes, against a byte-queue model; blocking reads are only issued when the model has data/closure. concurrent: writer (window-limited like h2 flow control) + reader + closer goroutines with generated chunk/yield plans under -race; a hang is reported only as a proven deadlock (all goroutines of the case parked), slowness is inconclusive. non-trivial: a write slides unread data (r>0) or a close arrives with buffered data; every concurrent case; distinct by op list")
	if w := replayWitness(t); w != nil {
		if w["concurrent"] != nil {
			c := &c21Conc{}
			replayInto(t, w["concurrent"], c)
			c21CheckConc(t, t, rec, c)
		} else {
			c := &c21Case{}
			replayInto(t, w["case"], c)
			c21RunSeq(t, rec, c, "replay")
		}
		return
	}
	// deterministic scenarios (VERIF_NO_SCENARIOS=1: development aid to measure what the generated part finds alone)
	scen := []bool{false, true}
	if os.Getenv("VERIF_NO_SCENARIOS") != "" {
		scen = nil
	}
	for _, pooled := range scen {
		c21RunSeq(t, rec, &c21Case{Cap: 8, Pooled: pooled, Ops: []c21Op{{Op: "write", N: 6}, {Op: "read", N: 4}, {Op: "write", N: 5}, {Op: "read", N: 20}, {Op: "write", N: 8}, {Op: "write", N: 1}, {Op: "close", Err: "A"}, {Op: "read", N: 3}, {Op: "err"}, {Op: "read", N: 9}, {Op: "read", N: 1}, {Op: "release"}, {Op: "read", N: 1}, {Op: "write", N: 1}, {Op: "newpipe"}, {Op: "write", N: 2}, {Op: "read", N: 8}}}, "scenario")
		c21RunSeq(t, rec, &c21Case{Cap: 4, Pooled: pooled, Ops: []c21Op{{Op: "write", N: 4}, {Op: "closefn", Err: "EOF"}, {Op: "close", Err: "B"}, {Op: "read", N: 2}, {Op: "break", Err: "A"}, {Op: "read", N: 2}, {Op: "err"}}}, "scenario")
	}
	// large (non default) h2 stream window: backlog crosses 64 KiB and 128 KiB while partly consumed
	for _, pooled := range scen {
		c21RunSeq(t, rec, &c21Case{Cap: 262144, Pooled: pooled, Ops: []c21Op{{Op: "write", N: 60000}, {Op: "read", N: 10000}, {Op: "write", N: 20000}, {Op: "read", N: 5000}, {Op: "write", N: 70000}, {Op: "read", N: 30000}, {Op: "write", N: 90000}, {Op: "close", Err: "EOF"}, {Op: "read", N: 300000}, {Op: "read", N: 1}}}, "scenario")
	}
	rapid.Check(t, func(rt *rapid.T) {
		// 1 case in 20 is a concurrent one (scheduled by the Go runtime: the plan is the witness)
		if rapid.IntRange(0, 19).Draw(rt, "concurrent") == 0 {
			c := c21GenConc(rt)
			c21CheckConc(t, rt, rec, c)
			return
		}
		c := c21GenSeq(rt)
		rec.Sample(map[string]any{"cap": c.Cap, "pooled": c.Pooled, "nops": len(c.Ops)})
		c21RunSeq(rt, rec, c, "rapid")
	})
}

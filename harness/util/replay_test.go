package util

import (
	"encoding/json"
	"os"
	"testing"
)

// replayWitness returns the "witness" object of the replay file named by
// VERIF_REPLAY_JSON (`./run replay Cxx <file>`), or nil when not replaying.
// The witnesses written by rec.Fail embed the complete generated case, so a
// replay runs exactly that case through the same oracle, bypassing rapid.
func replayWitness(t *testing.T) map[string]json.RawMessage {
	fn := os.Getenv("VERIF_REPLAY_JSON")
	if fn == "" {
		return nil
	}
	b, err := os.ReadFile(fn)
	if err != nil {
		t.Fatalf("replay file: %v", err)
	}
	var f struct {
		Witness map[string]json.RawMessage `json:"witness"`
	}
	if err := json.Unmarshal(b, &f); err != nil || f.Witness == nil {
		t.Fatalf("replay file %s has no witness object: %v", fn, err)
	}
	return f.Witness
}

func replayInto(t *testing.T, raw json.RawMessage, v any) {
	if err := json.Unmarshal(raw, v); err != nil {
		t.Fatalf("replay witness does not decode: %v", err)
	}
}

package util

import (
	"bufio"
	"bytes"
	"fmt"
	"io"
	"strings"
	"testing"
	"unicode/utf8"

	"github.com/bfenetworks/bfe/bfe_bufio"
	"pgregory.net/rapid"

	"verif/harness/internal/ev"
)

// C22: buffered I/O preserves the byte stream and counts it exactly.
//
// Oracles
//  (i)  stream: every byte an operation hands out must be the next bytes of the
//       underlying stream S (tracked as a position `pos`, moved back by Unread*),
//       and every deterministic operation (everything except the length of a plain
//       Read) must return the same bytes / same nil-ness of error as the standard
//       library's bufio driven in lock-step over the same stream with the same chunk
//       plan (after a plain Read of k bytes std is advanced by exactly k bytes).
//  (ii) counters, per operation (so one miscount does not cascade):
//       delta(TotalRead)  == delta(pos)   - bytes consumed by the op, the quantity
//                                           bfe_http.ReadRequest turns into HeaderSize
//       delta(pulled - Buffered()) == delta(pos)   - conservation, independent of the counter
//       delta(TotalWrite) == bytes accepted by the op, and always
//       TotalWrite == bytes received by the underlying writer + Buffered()

// ---- underlying readers / writers ----------------------------------------

type c22Src struct {
	data    []byte
	chunks  []int
	ci      int
	pos     int
	pulled  int  // bytes handed to the buffered reader
	eofData bool // deliver io.EOF together with the last bytes
}

func (s *c22Src) Read(p []byte) (int, error) {
	if len(p) == 0 {
		return 0, nil
	}
	if s.pos >= len(s.data) {
		return 0, io.EOF
	}
	n := s.chunks[s.ci%len(s.chunks)]
	s.ci++
	if n > len(p) {
		n = len(p)
	}
	if n > len(s.data)-s.pos {
		n = len(s.data) - s.pos
	}
	copy(p, s.data[s.pos:s.pos+n])
	s.pos += n
	s.pulled += n
	if s.eofData && s.pos == len(s.data) {
		return n, io.EOF
	}
	return n, nil
}

// c22SrcWT additionally implements io.WriterTo (bufio's WriteTo fast path)
type c22SrcWT struct{ c22Src }

func (s *c22SrcWT) WriteTo(w io.Writer) (int64, error) {
	n, err := w.Write(s.data[s.pos:])
	s.pos += n
	s.pulled += n
	return int64(n), err
}

type c22Sink struct {
	got    []byte
	writes []int
}

func (k *c22Sink) Write(p []byte) (int, error) {
	k.got = append(k.got, p...)
	k.writes = append(k.writes, len(p))
	return len(p), nil
}

// c22SinkRF additionally implements io.ReaderFrom (Writer.ReadFrom fast path)
type c22SinkRF struct{ c22Sink }

func (k *c22SinkRF) ReadFrom(r io.Reader) (int64, error) {
	b, err := io.ReadAll(r)
	k.got = append(k.got, b...)
	k.writes = append(k.writes, len(b))
	return int64(len(b)), err
}

// ---- reader script --------------------------------------------------------

type c22ROp struct {
	Op string `json:"op"`
	N  int    `json:"n,omitempty"`
	D  byte   `json:"d,omitempty"`
}

type c22RCase struct {
	Buf     int      `json:"buf"`
	Stream  string   `json:"stream_hex"`
	Chunks  []int    `json:"chunks"`
	EOFData bool     `json:"eof_with_data"`
	WT      bool     `json:"src_writerto"`
	Ops     []c22ROp `json:"ops"`
}

func c22RunReader(tb ev.TB, rec *ev.Rec, c *c22RCase, gen string) {
	var S []byte
	fmt.Sscanf(c.Stream, "%x", &S)
	mkSrc := func() (io.Reader, *c22Src) {
		if c.WT {
			s := &c22SrcWT{c22Src{data: S, chunks: c.Chunks, eofData: c.EOFData}}
			return s, &s.c22Src
		}
		s := &c22Src{data: S, chunks: c.Chunks, eofData: c.EOFData}
		return s, s
	}
	r1, src := mkSrc()
	r2, _ := mkSrc()
	br := bfe_bufio.NewReaderSize(r1, c.Buf)
	sr := bufio.NewReaderSize(r2, c.Buf)
	pos := 0
	lastRead := "" // kind of the immediately preceding successful consuming op
	lastRuneSize := 0
	var crossedRefill, longLine, unread, crStraddle, sawEOF, unreadAfterLine bool
	stop, stdLost := false, false
	fail := func(step int, key, format string, args ...any) {
		cc := *c
		if step+1 < len(cc.Ops) {
			cc.Ops = cc.Ops[:step+1]
		}
		rec.Fail(tb, key, map[string]any{"reader_case": cc, "step": step}, "reader buf=%d chunks=%v step %d %+v: %s", c.Buf, c.Chunks, step, c.Ops[step], fmt.Sprintf(format, args...))
	}
	next := func(n int) []byte { // the next n bytes of the stream from pos (shorter at the end)
		e := pos + n
		if e > len(S) {
			e = len(S)
		}
		return S[pos:e]
	}
	for i, op := range c.Ops {
		if stop {
			break
		}
		tot0, pulled0, buffered0, pos0 := br.TotalRead, src.pulled, br.Buffered(), pos
		prevRead, prevRune := lastRead, lastRuneSize
		lastRead, lastRuneSize = "", 0
		streamKey := ""
		var streamMsg string
		bad := func(key, f string, a ...any) {
			if stdLost && strings.Contains(key, "from-std") {
				return
			}
			if streamKey == "" {
				streamKey, streamMsg = key, fmt.Sprintf(f, a...)
			}
		}
		cmpErr := func(e1, e2 error) {
			if (e1 == nil) != (e2 == nil) {
				bad("error-differs-from-std-"+op.Op, "bfe err=%v, std err=%v", e1, e2)
			}
		}
		switch op.Op {
		case "Read":
			p := make([]byte, op.N)
			k, err := br.Read(p)
			if k < 0 || k > len(p) {
				bad("read-count", "Read(%d) returned n=%d", op.N, k)
				break
			}
			if !bytes.Equal(p[:k], next(k)) || k > len(S)-pos {
				bad("stream-corrupt-Read", "Read(%d) returned %x, stream continues %x", op.N, p[:k], next(k))
				break
			}
			q := make([]byte, k)
			if _, e2 := io.ReadFull(sr, q); e2 != nil || !bytes.Equal(q, p[:k]) {
				bad("differs-from-std-Read", "std delivers %x (%v) where bfe delivered %x", q, e2, p[:k])
			}
			if k == 0 {
				if err == nil {
					bad("read-zero-nil", "Read(%d) returned (0, nil)", op.N)
				} else if pos != len(S) {
					bad("early-eof", "Read reports %v at stream position %d of %d", err, pos, len(S))
				}
				sawEOF = true
			}
			pos += k
			if k > 0 {
				lastRead = "Read"
			}
		case "ReadByte":
			b1, e1 := br.ReadByte()
			b2, e2 := sr.ReadByte()
			cmpErr(e1, e2)
			if e1 == nil {
				if pos >= len(S) || b1 != S[pos] {
					bad("stream-corrupt-ReadByte", "ReadByte returned %02x, stream continues %x", b1, next(1))
				} else if e2 == nil && b1 != b2 {
					bad("differs-from-std-ReadByte", "bfe %02x std %02x", b1, b2)
				}
				pos++
				lastRead = "ReadByte"
			} else {
				sawEOF = true
				if pos != len(S) {
					bad("early-eof", "ReadByte reports %v at stream position %d of %d", e1, pos, len(S))
				}
			}
		case "UnreadByte":
			// valid use only: directly after a successful ReadByte / Read / ReadRune (what textproto does)
			if prevRead != "ReadByte" && prevRead != "Read" && prevRead != "ReadRune" && prevRead != "Line" {
				rec.Add("reader_ops_skipped_not_enabled", 1)
				continue
			}
			e1, e2 := br.UnreadByte(), sr.UnreadByte()
			if prevRead == "Line" && e1 != nil && e2 == nil {
				unreadAfterLine = true
				bad("unreadbyte-after-readslice", "UnreadByte after %s refused (%v); the last byte read was %02x and std unreads it", c.Ops[i-1].Op, e1, S[pos-1])
			}
			cmpErr(e1, e2)
			if e1 == nil {
				pos--
				unread = true
				if prevRead == "Line" {
					// "UnreadByte unreads the last byte": after ReadSlice/ReadLine-less line ops that is the last byte handed out
					unreadAfterLine = true
					if pk, _ := br.Peek(1); len(pk) != 1 || pk[0] != S[pos] {
						bad("unreadbyte-after-readslice", "UnreadByte after %s pushed back %x, the last byte read was %02x", c.Ops[i-1].Op, pk, S[pos])
					}
				}
			}
		case "ReadRune":
			r1, s1, e1 := br.ReadRune()
			r2, s2, e2 := sr.ReadRune()
			cmpErr(e1, e2)
			if e1 == nil {
				wr, ws := utf8.DecodeRune(next(utf8.UTFMax))
				if len(next(1)) == 0 || r1 != wr || s1 != ws {
					bad("stream-corrupt-ReadRune", "ReadRune returned (%q,%d), stream continues %x = (%q,%d)", r1, s1, next(4), wr, ws)
				} else if e2 == nil && (r1 != r2 || s1 != s2) {
					bad("differs-from-std-ReadRune", "bfe (%q,%d) std (%q,%d)", r1, s1, r2, s2)
				}
				pos += s1
				lastRead, lastRuneSize = "ReadRune", s1
			} else {
				sawEOF = true
			}
		case "UnreadRune":
			if prevRead != "ReadRune" {
				rec.Add("reader_ops_skipped_not_enabled", 1)
				continue
			}
			e1, e2 := br.UnreadRune(), sr.UnreadRune()
			cmpErr(e1, e2)
			if e1 == nil {
				pos -= prevRune
				unread = true
			}
		case "ReadSlice", "ReadBytes", "ReadString":
			var l1, l2 []byte
			var e1, e2 error
			switch op.Op {
			case "ReadSlice":
				l1, e1 = br.ReadSlice(op.D)
				l1 = append([]byte(nil), l1...)
				l2, e2 = sr.ReadSlice(op.D)
				l2 = append([]byte(nil), l2...)
			case "ReadBytes":
				l1, e1 = br.ReadBytes(op.D)
				l2, e2 = sr.ReadBytes(op.D)
			default:
				var s1, s2 string
				s1, e1 = br.ReadString(op.D)
				s2, e2 = sr.ReadString(op.D)
				l1, l2 = []byte(s1), []byte(s2)
			}
			cmpErr(e1, e2)
			if !bytes.Equal(l1, next(len(l1))) || len(l1) > len(S)-pos {
				bad("stream-corrupt-"+op.Op, "%s(%q) returned %x, stream continues %x", op.Op, op.D, l1, next(len(l1)))
			} else if !bytes.Equal(l1, l2) {
				bad("differs-from-std-"+op.Op, "%s(%q): bfe %x, std %x", op.Op, op.D, l1, l2)
			} else if e1 == nil && (len(l1) == 0 || l1[len(l1)-1] != op.D) {
				bad("line-without-delim-nil-error", "%s(%q) returned %x with nil error", op.Op, op.D, l1)
			}
			if e1 != nil && len(l1) >= c.Buf {
				longLine = true
			}
			if e1 != nil && len(l1) < c.Buf {
				sawEOF = true
			}
			pos += len(l1)
			if len(l1) > 0 && op.Op != "ReadString" {
				lastRead = "Line"
			}
		case "ReadLine":
			l1, p1, e1 := br.ReadLine()
			l1 = append([]byte(nil), l1...)
			l2, p2, e2 := sr.ReadLine()
			l2 = append([]byte(nil), l2...)
			cmpErr(e1, e2)
			if !bytes.Equal(l1, next(len(l1))) {
				bad("stream-corrupt-ReadLine", "ReadLine returned %x, stream continues %x", l1, next(len(l1)))
			} else if !bytes.Equal(l1, l2) || p1 != p2 {
				// std changed since the Go 1.2 code bfe_bufio derives from: when the source delivers io.EOF
				// together with the bytes that fill the buffer, old bufio reports "buffer full" first (isPrefix,
				// a trailing CR kept back) and EOF on the next call; new bufio reports the pending EOF first.
				// Both deliver the same stream; std is no longer in lock-step afterwards.
				if c.EOFData && src.pos == len(S) && len(l2) >= c.Buf-1 && len(l1) >= c.Buf-1 {
					rec.Class("r-full-buffer-at-eof-std-not-compared")
					stdLost = true
				} else {
					bad("differs-from-std-ReadLine", "ReadLine: bfe (%x,%v), std (%x,%v)", l1, p1, l2, p2)
				}
			}
			if e1 != nil {
				sawEOF = true
			}
			pos += len(l1)
			if p1 {
				longLine = true
				if len(l1) == c.Buf-1 {
					crStraddle = true
				}
			} else if e1 == nil {
				// the line end that ReadLine swallowed
				if bytes.HasPrefix(next(2), []byte("\r\n")) {
					pos += 2
				} else if bytes.HasPrefix(next(1), []byte("\n")) {
					pos++
				}
			}
		case "Peek":
			p1, e1 := br.Peek(op.N)
			p1 = append([]byte(nil), p1...)
			p2, e2 := sr.Peek(op.N)
			cmpErr(e1, e2)
			if !bytes.Equal(p1, next(len(p1))) {
				bad("stream-corrupt-Peek", "Peek(%d) returned %x, stream continues %x", op.N, p1, next(len(p1)))
			} else if op.N <= c.Buf && !bytes.Equal(p1, p2) {
				bad("differs-from-std-Peek", "Peek(%d): bfe %x, std %x", op.N, p1, p2)
			} else if e1 == nil && len(p1) != op.N {
				bad("short-peek-nil-error", "Peek(%d) returned %d bytes with nil error", op.N, len(p1))
			}
		case "WriteTo":
			var w1, w2 c22Sink
			n1, e1 := br.WriteTo(&w1)
			n2, e2 := sr.WriteTo(&w2)
			cmpErr(e1, e2)
			if !bytes.Equal(w1.got, S[pos:]) || n1 != int64(len(w1.got)) {
				bad("stream-corrupt-WriteTo", "WriteTo wrote %x (n=%d), rest of stream is %x", w1.got, n1, S[pos:])
			} else if n1 != n2 || !bytes.Equal(w1.got, w2.got) {
				bad("differs-from-std-WriteTo", "WriteTo: bfe n=%d, std n=%d", n1, n2)
			}
			pos += len(w1.got)
		case "Buffered":
			if br.Buffered() < 0 || br.Buffered() > c.Buf {
				bad("buffered-out-of-range", "Buffered()=%d", br.Buffered())
			}
		}
		if streamKey != "" {
			fail(i, streamKey, "%s", streamMsg)
			rec.Excluded("rest-of-script-after-known-finding:" + streamKey)
			stop = true // positions are no longer comparable
			break
		}
		if src.pulled != pulled0 && buffered0 > 0 {
			crossedRefill = true
		}
		dPos, dTot := pos-pos0, br.TotalRead-tot0
		if dCons := (src.pulled - br.Buffered()) - (pulled0 - buffered0); dCons != dPos {
			fail(i, "buffer-accounting-"+op.Op, "bytes pulled from the source minus Buffered() moved by %d but the op consumed %d stream bytes", dCons, dPos)
			stop = true
			break
		}
		if dTot != dPos {
			key := fmt.Sprintf("totalread-%s", op.Op)
			fam := op.Op == "ReadSlice" || op.Op == "ReadLine" || op.Op == "ReadBytes" || op.Op == "ReadString"
			switch {
			case fam && dTot < dPos && src.pulled != pulled0:
				key = "totalread-under-readslice-after-refill" // delimiter found only after a refill while earlier bytes of the line were already buffered
			case op.Op == "ReadLine" && dTot == dPos+1 && crStraddle:
				key = "totalread-over-readline-cr-pushback"
			case dTot < dPos:
				key += "-under"
			default:
				key += "-over"
			}
			fail(i, key, "TotalRead moved by %d but the op consumed %d stream bytes (TotalRead %d->%d, stream pos %d->%d, Buffered %d->%d, pulled %d->%d)",
				dTot, dPos, tot0, br.TotalRead, pos0, pos, buffered0, br.Buffered(), pulled0, src.pulled)
			if !rec.Known(key) {
				stop = true
			}
		}
	}
	classes := []string{"reader", "gen-" + gen}
	add := func(b bool, s string) {
		if b {
			classes = append(classes, s)
		}
	}
	add(crossedRefill, "r-op-crosses-refill")
	add(longLine, "r-line-longer-than-buffer")
	add(crStraddle, "r-cr-straddles-buffer-end")
	add(unread, "r-unread")
	add(unreadAfterLine, "r-unreadbyte-after-readslice")
	add(sawEOF, "r-reached-eof")
	add(c.WT, "r-src-writerto")
	add(c.EOFData, "r-eof-with-data")
	rec.Case(fmt.Sprintf("R%+v", *c), crossedRefill || longLine, classes...)
}

// ---- writer script --------------------------------------------------------

type c22WOp struct {
	Op     string `json:"op"`
	Data   string `json:"data_hex,omitempty"`
	R      rune   `json:"rune,omitempty"`
	Chunks []int  `json:"chunks,omitempty"` // ReadFrom source chunking
	EOFD   bool   `json:"eof_with_data,omitempty"`
}

type c22WCase struct {
	Buf int      `json:"buf"`
	RF  bool     `json:"sink_readerfrom"`
	Ops []c22WOp `json:"ops"`
}

func c22RunWriter(tb ev.TB, rec *ev.Rec, c *c22WCase, gen string) {
	mk := func() (io.Writer, *c22Sink) {
		if c.RF {
			k := &c22SinkRF{}
			return k, &k.c22Sink
		}
		k := &c22Sink{}
		return k, k
	}
	w1, k1 := mk()
	w2, k2 := mk()
	bw := bfe_bufio.NewWriterSize(w1, c.Buf)
	sw := bufio.NewWriterSize(w2, c.Buf)
	var model []byte // every byte accepted so far
	var midFlush, readFrom, bigWrite bool
	fail := func(step int, key, format string, args ...any) {
		cc := *c
		if step+1 < len(cc.Ops) {
			cc.Ops = cc.Ops[:step+1]
		}
		rec.Fail(tb, key, map[string]any{"writer_case": cc, "step": step}, "writer buf=%d step %d %s: %s", c.Buf, step, c.Ops[step].Op, fmt.Sprintf(format, args...))
	}
	for i, op := range c.Ops {
		var data []byte
		fmt.Sscanf(op.Data, "%x", &data)
		tot0, got0 := bw.TotalWrite, len(k1.got)
		accepted := 0
		var e1, e2 error
		switch op.Op {
		case "Write":
			var n1, n2 int
			n1, e1 = bw.Write(data)
			n2, e2 = sw.Write(data)
			accepted = n1
			if n1 != n2 {
				fail(i, "differs-from-std-Write", "bfe n=%d std n=%d", n1, n2)
				return
			}
			bigWrite = bigWrite || len(data) > c.Buf
		case "WriteString":
			var n1, n2 int
			n1, e1 = bw.WriteString(string(data))
			n2, e2 = sw.WriteString(string(data))
			accepted = n1
			if n1 != n2 {
				fail(i, "differs-from-std-WriteString", "bfe n=%d std n=%d", n1, n2)
				return
			}
			bigWrite = bigWrite || len(data) > c.Buf
		case "WriteByte":
			data = data[:1]
			e1 = bw.WriteByte(data[0])
			e2 = sw.WriteByte(data[0])
			accepted = 1
		case "WriteRune":
			var n1, n2 int
			n1, e1 = bw.WriteRune(op.R)
			n2, e2 = sw.WriteRune(op.R)
			var enc [utf8.UTFMax]byte
			data = enc[:utf8.EncodeRune(enc[:], op.R)]
			accepted = n1
			if n1 != n2 || n1 != len(data) {
				fail(i, "writerune-size", "WriteRune(%U): bfe size=%d std size=%d encoding is %d bytes", op.R, n1, n2, len(data))
				return
			}
		case "ReadFrom":
			var n1, n2 int64
			n1, e1 = bw.ReadFrom(&c22Src{data: data, chunks: op.Chunks, eofData: op.EOFD})
			n2, e2 = sw.ReadFrom(&c22Src{data: data, chunks: op.Chunks, eofData: op.EOFD})
			accepted = int(n1)
			if n1 != n2 || n1 != int64(len(data)) {
				fail(i, "readfrom-count", "ReadFrom of %d bytes: bfe n=%d std n=%d", len(data), n1, n2)
				return
			}
			readFrom = true
		case "Flush":
			data = nil
			e1, e2 = bw.Flush(), sw.Flush()
			if e1 == nil && bw.Buffered() != 0 {
				fail(i, "flush-leaves-data", "Buffered()=%d after Flush", bw.Buffered())
				return
			}
			if !bytes.Equal(k1.got, k2.got) {
				fail(i, "differs-from-std-after-Flush", "underlying writer received %x, std's received %x", k1.got, k2.got)
				return
			}
		}
		if e1 != nil || e2 != nil {
			fail(i, "unexpected-error", "bfe err=%v std err=%v on a never-failing underlying writer", e1, e2)
			return
		}
		if accepted > len(data) {
			accepted = len(data)
		}
		model = append(model, data[:accepted]...)
		if len(k1.got) != got0 && op.Op != "Flush" {
			midFlush = true
		}
		if !bytes.HasPrefix(model, k1.got) {
			fail(i, "stream-corrupt-"+op.Op, "underlying writer received %x, accepted stream is %x", k1.got, model)
			return
		}
		if bw.Buffered() < 0 || bw.Buffered() > c.Buf || bw.Available() != c.Buf-bw.Buffered() {
			fail(i, "buffered-out-of-range", "Buffered()=%d Available()=%d size=%d", bw.Buffered(), bw.Available(), c.Buf)
			return
		}
		if len(k1.got)+bw.Buffered() != len(model) {
			fail(i, "buffer-accounting-"+op.Op, "received %d + Buffered %d != %d bytes accepted", len(k1.got), bw.Buffered(), len(model))
			return
		}
		if d := bw.TotalWrite - tot0; d != accepted {
			key := "totalwrite-" + op.Op + "-over"
			if d < accepted {
				key = "totalwrite-" + op.Op + "-under"
			}
			fail(i, key, "TotalWrite moved by %d but the op accepted %d bytes (TotalWrite %d->%d, received %d, Buffered %d)", d, accepted, tot0, bw.TotalWrite, len(k1.got), bw.Buffered())
			if !rec.Known(key) {
				return
			}
		}
	}
	// final flush: the whole accepted stream must arrive, identical to std
	if bw.Flush() != nil || sw.Flush() != nil || !bytes.Equal(k1.got, model) || !bytes.Equal(k1.got, k2.got) {
		cc := *c
		rec.Fail(tb, "stream-corrupt-final", map[string]any{"writer_case": cc}, "writer buf=%d: after the final Flush the underlying writer has %x, accepted stream %x, std %x", c.Buf, k1.got, model, k2.got)
		return
	}
	classes := []string{"writer", "gen-" + gen}
	add := func(b bool, s string) {
		if b {
			classes = append(classes, s)
		}
	}
	add(midFlush, "w-op-crosses-flush")
	add(readFrom, "w-readfrom")
	add(bigWrite, "w-write-larger-than-buffer")
	add(c.RF, "w-sink-readerfrom")
	add(c.Buf < utf8.UTFMax, "w-silly-small-buffer")
	rec.Case(fmt.Sprintf("W%+v", *c), midFlush, classes...)
}

// ---- generators -----------------------------------------------------------

var c22Alphabet = [][]byte{{'a'}, {'b'}, {'a'}, {'b'}, {'x'}, {'\n'}, {'\n'}, {'\r'}, {'\r', '\n'}, {' '}, {0xc3, 0xa9}, {0xe4, 0xb8, 0x96}, {0xf0, 0x9f, 0x98, 0x80}, {0xff}, {0x80}, {0xe4, 0xb8}}

func c22GenBytes(rt *rapid.T, label string, maxTok int) []byte {
	n := rapid.IntRange(0, maxTok).Draw(rt, label+"n")
	var out []byte
	for i := 0; i < n; i++ {
		t := c22Alphabet[rapid.IntRange(0, len(c22Alphabet)-1).Draw(rt, label+"t")]
		rep := 1
		if rapid.IntRange(0, 7).Draw(rt, label+"rep") == 0 {
			rep = rapid.IntRange(2, 40).Draw(rt, label+"reps") // long delimiter-free runs
		}
		for k := 0; k < rep; k++ {
			out = append(out, t...)
		}
	}
	return out
}

func c22GenReader(rt *rapid.T) *c22RCase {
	c := &c22RCase{}
	c.Buf = rapid.IntRange(16, 40).Draw(rt, "buf")
	c.Stream = fmt.Sprintf("%x", c22GenBytes(rt, "s.", 60))
	c.Chunks = rapid.SliceOfN(rapid.IntRange(1, 48), 1, 6).Draw(rt, "chunks")
	c.EOFData = rapid.Bool().Draw(rt, "eofData")
	c.WT = rapid.IntRange(0, 5).Draw(rt, "wt") == 0
	n := rapid.IntRange(1, ev.N(40, 60)).Draw(rt, "nops")
	for i := 0; i < n; i++ {
		l := fmt.Sprintf("o%d.", i)
		k := rapid.IntRange(0, 99).Draw(rt, l+"k")
		delim := func() byte { return []byte{'\n', '\n', 'a', 'x'}[rapid.IntRange(0, 3).Draw(rt, l+"d")] }
		switch {
		case k < 16:
			c.Ops = append(c.Ops, c22ROp{Op: "Read", N: rapid.IntRange(1, c.Buf+8).Draw(rt, l+"n")})
		case k < 28:
			c.Ops = append(c.Ops, c22ROp{Op: "ReadByte"})
		case k < 36:
			c.Ops = append(c.Ops, c22ROp{Op: "UnreadByte"})
		case k < 44:
			c.Ops = append(c.Ops, c22ROp{Op: "ReadRune"})
		case k < 49:
			c.Ops = append(c.Ops, c22ROp{Op: "UnreadRune"})
		case k < 59:
			c.Ops = append(c.Ops, c22ROp{Op: "ReadSlice", D: delim()})
		case k < 71:
			c.Ops = append(c.Ops, c22ROp{Op: "ReadLine"})
		case k < 77:
			c.Ops = append(c.Ops, c22ROp{Op: "ReadBytes", D: delim()})
		case k < 82:
			c.Ops = append(c.Ops, c22ROp{Op: "ReadString", D: delim()})
		case k < 94:
			c.Ops = append(c.Ops, c22ROp{Op: "Peek", N: rapid.IntRange(0, c.Buf+2).Draw(rt, l+"n")})
		case k < 97:
			c.Ops = append(c.Ops, c22ROp{Op: "Buffered"})
		default:
			c.Ops = append(c.Ops, c22ROp{Op: "WriteTo"})
		}
	}
	return c
}

func c22GenWriter(rt *rapid.T) *c22WCase {
	c := &c22WCase{}
	c.Buf = rapid.IntRange(1, 40).Draw(rt, "buf")
	c.RF = rapid.IntRange(0, 4).Draw(rt, "rf") == 0
	n := rapid.IntRange(1, ev.N(30, 50)).Draw(rt, "nops")
	runes := []rune{'a', '\n', 0x7f, 0x80, 0xe9, 0x7ff, 0x800, 0x4e16, 0xffff, 0x10000, 0x1f600, 0x10ffff, 0xd800, 0x110000, utf8.RuneError}
	for i := 0; i < n; i++ {
		l := fmt.Sprintf("o%d.", i)
		k := rapid.IntRange(0, 99).Draw(rt, l+"k")
		switch {
		case k < 25:
			c.Ops = append(c.Ops, c22WOp{Op: "Write", Data: fmt.Sprintf("%x", c22GenBytes(rt, l, 12))})
		case k < 40:
			c.Ops = append(c.Ops, c22WOp{Op: "WriteString", Data: fmt.Sprintf("%x", c22GenBytes(rt, l, 12))})
		case k < 55:
			c.Ops = append(c.Ops, c22WOp{Op: "WriteByte", Data: fmt.Sprintf("%02x", rapid.SampledFrom([]byte{'a', 'b', '\n', 0, 0xff}).Draw(rt, l+"b"))})
		case k < 70:
			c.Ops = append(c.Ops, c22WOp{Op: "WriteRune", R: rapid.SampledFrom(runes).Draw(rt, l+"r")})
		case k < 85:
			c.Ops = append(c.Ops, c22WOp{Op: "ReadFrom", Data: fmt.Sprintf("%x", c22GenBytes(rt, l, 20)),
				Chunks: rapid.SliceOfN(rapid.IntRange(1, 48), 1, 4).Draw(rt, l+"ch"), EOFD: rapid.Bool().Draw(rt, l+"eofd")})
		default:
			c.Ops = append(c.Ops, c22WOp{Op: "Flush"})
		}
	}
	return c
}

func TestC22(t *testing.T) {
	rec := ev.New("C22", "reader scripts: 1..40 ops of Read(1..buf+8)/ReadByte/UnreadByte/ReadRune/UnreadRune/ReadSlice/ReadLine/ReadBytes/ReadString/Peek(0..buf+2)/WriteTo/Buffered on NewReaderSize(16..40) over streams of 0..60 tokens from {a,b,x,LF,CR,CRLF,SP,2/3/4-byte UTF-8, invalid bytes} with long delimiter-free runs, underlying reader delivering cyclic chunk plans (1..48 bytes, never (0,nil), EOF with or after the last bytes, optionally an io.WriterTo); Unread* only directly after a successful read (the documented use). writer scripts: 1..30 ops of Write/WriteString/WriteByte/WriteRune/ReadFrom/Flush on NewWriterSize(1..40) over a never-failing sink (optionally io.ReaderFrom). bfe_bufio vs std bufio in lock-step + stream position + per-op counter deltas. non-trivial: a reader op crosses a refill with bytes already buffered or meets a line longer than the buffer; a writer op flushes in mid-operation; distinct by full script")
	if w := replayWitness(t); w != nil {
		if w["writer_case"] != nil {
			c := &c22WCase{}
			replayInto(t, w["writer_case"], c)
			c22RunWriter(t, rec, c, "replay")
		} else {
			c := &c22RCase{}
			replayInto(t, w["reader_case"], c)
			c22RunReader(t, rec, c, "replay")
		}
		return
	}
	// deterministic scenarios: header line split over two TCP segments; CR at the end of a full buffer
	c22RunReader(t, rec, &c22RCase{Buf: 16, Stream: fmt.Sprintf("%x", "GET / HTTP/1.1\r\nHost: a\r\n\r\n"), Chunks: []int{5, 7, 30}, Ops: []c22ROp{{Op: "ReadLine"}, {Op: "ReadLine"}, {Op: "ReadLine"}, {Op: "ReadLine"}}}, "scenario")
	c22RunReader(t, rec, &c22RCase{Buf: 16, Stream: fmt.Sprintf("%x", "aaaaaaaaaaaaaaa\r\nbbbb\n"), Chunks: []int{48}, Ops: []c22ROp{{Op: "ReadLine"}, {Op: "ReadLine"}, {Op: "ReadLine"}, {Op: "ReadLine"}}}, "scenario")
	rapid.Check(t, func(rt *rapid.T) {
		if rapid.IntRange(0, 2).Draw(rt, "writer") == 0 {
			c := c22GenWriter(rt)
			rec.Sample(map[string]any{"kind": "writer", "buf": c.Buf, "nops": len(c.Ops)})
			c22RunWriter(rt, rec, c, "rapid")
			return
		}
		c := c22GenReader(rt)
		rec.Sample(map[string]any{"kind": "reader", "buf": c.Buf, "stream_len": len(c.Stream) / 2, "chunks": c.Chunks, "nops": len(c.Ops)})
		c22RunReader(rt, rec, c, "rapid")
	})
}

// FuzzC22 drives the reader oracle from raw bytes (thorough tier only):
// stream = the stream itself, script = buffer size, chunk plan and op list.
func FuzzC22(f *testing.F) {
	rec := ev.New("C22", "")
	f.Add([]byte("GET / HTTP/1.1\r\nHost: a\r\n\r\n"), []byte{0, 3, 5, 7, 30, 6, 6, 6, 6})
	f.Add([]byte("aaaaaaaaaaaaaaa\r\nbbbb\n"), []byte{0, 1, 48, 6, 6, 1, 2, 6})
	f.Add([]byte("a\xe4\xb8\x96b\xff\n"), []byte{3, 2, 1, 2, 3, 4, 3, 1, 2, 5, 10, 9, 11})
	f.Fuzz(func(t *testing.T, stream []byte, script []byte) {
		if len(stream) > 400 || len(script) < 3 || len(script) > 80 {
			t.Skip()
		}
		c := &c22RCase{Buf: 16 + int(script[0])%25, Stream: fmt.Sprintf("%x", stream)}
		c.EOFData = script[0]&0x80 != 0
		c.WT = script[0]&0x40 != 0
		nch := 1 + int(script[1])%5
		rest := script[2:]
		for i := 0; i < nch && len(rest) > 0; i++ {
			c.Chunks = append(c.Chunks, 1+int(rest[0])%48)
			rest = rest[1:]
		}
		names := []string{"Read", "ReadByte", "UnreadByte", "ReadRune", "UnreadRune", "ReadSlice", "ReadLine", "ReadBytes", "ReadString", "Peek", "Buffered", "WriteTo"}
		for len(rest) > 0 {
			op := c22ROp{Op: names[int(rest[0]&0x0f)%len(names)]}
			arg := int(rest[0] >> 4)
			rest = rest[1:]
			switch op.Op {
			case "Read":
				op.N = 1 + arg*3
			case "Peek":
				op.N = arg * 3
			case "ReadSlice", "ReadBytes", "ReadString":
				op.D = []byte{'\n', 'a', 'x', '\r'}[arg%4]
			}
			c.Ops = append(c.Ops, op)
		}
		c22RunReader(t, rec, c, "fuzz")
	})
}

package proxy

import (
	"bytes"
	"encoding/base64"
	"encoding/binary"
	"encoding/hex"
	"fmt"
	"net"
	"strings"
	"testing"

	"github.com/bfenetworks/bfe/bfe_basic"
	"github.com/bfenetworks/bfe/bfe_bufio"
	"github.com/bfenetworks/bfe/bfe_http"
	"github.com/bfenetworks/bfe/bfe_modules/mod_doh"
	"github.com/miekg/dns"
	"pgregory.net/rapid"

	"verif/harness/internal/ev"
)

// C56: DoH forwards the client's query with a correct client-subnet option.
//
// A DoH request is built as raw HTTP/1.1 (GET ?dns=<base64url> or POST
// application/dns-message), parsed with bfe_http.ReadRequest and wrapped in a
// bfe_basic.Request the way bfe_server does (NewSession/NewRequest on a
// connection whose RemoteAddr is the peer; ClientAddr as setClientAddr leaves
// it). mod_doh.RequestToDnsMsg is called like DnsClient.Fetch calls it and the
// result is packed like dns.Client.Exchange packs it. The packed bytes are
// decoded with miekg/dns (third party, not part of mod_doh) and compared with
// the client's message; malformedness of mutated messages is decided by a
// small structural walker over the wire format (RFC 1035 4.1) of our own.

const c56MaxPost = 8192 // mod_doh: maxPostMsgLength

// ------------------------------------------------------------ wire walker

const (
	c56WellFormed = iota
	c56Malformed  // an element is cut in the middle / overruns the message / header < 12 bytes
	c56CountLie   // message ends exactly at an element boundary before the counts are satisfied
	c56Trailing   // bytes left after the last counted element
	c56OddPointer // compression pointer that is not plainly backwards
)

var c56WireName = []string{"well-formed", "malformed", "count-lie", "trailing-bytes", "odd-pointer"}

// c56SkipName returns the offset after the name at off, or -1 (malformed), -2 (odd pointer).
func c56SkipName(m []byte, off int) int { return c56SkipNameDepth(m, off, 0) }

func c56SkipNameDepth(m []byte, off int, depth int) int {
	if depth > len(m) {
		return -1 // more pointer hops than bytes: the name loops and never terminates
	}
	for {
		if off >= len(m) {
			return -1
		}
		l := int(m[off])
		switch l & 0xC0 {
		case 0x00:
			if l == 0 {
				return off + 1
			}
			if off+1+l > len(m) {
				return -1
			}
			off += 1 + l
		case 0xC0:
			if off+2 > len(m) {
				return -1
			}
			ptr := int(binary.BigEndian.Uint16(m[off:]) & 0x3FFF)
			if ptr >= len(m) {
				return -1
			}
			if ptr == off {
				return -1 // points at itself: can never terminate
			}
			if ptr > off {
				return -2
			}
			// the target must itself be a walkable name
			if t := c56SkipNameDepth(m, ptr, depth+1); t < 0 {
				return t
			}
			return off + 2
		default:
			return -1 // 0x40 / 0x80 label types are not defined
		}
	}
}

// c56Walk classifies the structure of a DNS message and returns the element boundaries.
func c56Walk(m []byte) (verdict int, bounds []int) {
	verdict, bounds, _ = c56WalkDetail(m)
	return
}

// c56WalkDetail also names the place where a malformed message breaks.
func c56WalkDetail(m []byte) (verdict int, bounds []int, where string) {
	if len(m) < 12 {
		return c56Malformed, nil, "short-header"
	}
	qd := int(binary.BigEndian.Uint16(m[4:]))
	rr := int(binary.BigEndian.Uint16(m[6:])) + int(binary.BigEndian.Uint16(m[8:])) + int(binary.BigEndian.Uint16(m[10:]))
	off := 12
	bounds = append(bounds, off)
	for i := 0; i < qd; i++ {
		if off == len(m) {
			return c56CountLie, bounds, ""
		}
		n := c56SkipName(m, off)
		if n == -2 {
			return c56OddPointer, bounds, ""
		}
		if n < 0 {
			return c56Malformed, bounds, "question-name"
		}
		if n+4 > len(m) {
			return c56Malformed, bounds, "question-type-class-cut"
		}
		off = n + 4
		bounds = append(bounds, off)
	}
	for i := 0; i < rr; i++ {
		if off == len(m) {
			return c56CountLie, bounds, ""
		}
		n := c56SkipName(m, off)
		if n == -2 {
			return c56OddPointer, bounds, ""
		}
		if n < 0 {
			return c56Malformed, bounds, "rr-name"
		}
		if n+10 > len(m) {
			return c56Malformed, bounds, "rr-fixed-part-cut"
		}
		rdl := int(binary.BigEndian.Uint16(m[n+8:]))
		if n+10+rdl > len(m) {
			return c56Malformed, bounds, "rr-rdata-cut"
		}
		off = n + 10 + rdl
		bounds = append(bounds, off)
	}
	if off != len(m) {
		return c56Trailing, bounds, ""
	}
	return c56WellFormed, bounds, ""
}

// ------------------------------------------------------------ case

type c56Case struct {
	Method     string `json:"method"`
	WireHex    string `json:"wire_hex"` // what the client put on the wire (abbreviated in samples)
	WireLen    int    `json:"wire_len"`
	Gen        string `json:"gen"`        // valid | mutated:<how> | big:<how>
	QueryForm  string `json:"query_form"` // GET: plain | padded | dup | missing | extra-params | bad-b64
	ClientForm string `json:"client_form"`
	ClientIP   string `json:"client_ip"`
	HasOPT     bool   `json:"has_opt"`
	HasECS     bool   `json:"has_ecs"`

	wire   []byte
	remote *net.TCPAddr
	client *net.TCPAddr // nil: not set by setClientAddr
	sameAs bool         // ClientAddr is the RemoteAddr pointer (untrusted source)
}

var c56Names = []string{"example.org.", "www.example.com.", "a.b.c.d.e.example.net.", ".", "xn--bcher-kva.example.", "_dns.resolver.arpa.", "localhost."}

func c56DrawName(rt *rapid.T) string {
	switch rapid.IntRange(0, 5).Draw(rt, "name-kind") {
	case 0: // label of maximum length
		return strings.Repeat("a", 63) + ".example."
	case 1: // name close to 255 octets
		return strings.Repeat(strings.Repeat("b", 61)+".", 4)
	case 2:
		n := rapid.IntRange(1, 4).Draw(rt, "labels")
		s := ""
		for i := 0; i < n; i++ {
			s += rapid.StringMatching(`[a-z0-9]([a-z0-9-]{0,10}[a-z0-9])?`).Draw(rt, "label") + "."
		}
		return s
	}
	return c56Names[rapid.IntRange(0, len(c56Names)-1).Draw(rt, "name")]
}

func c56DrawRR(rt *rapid.T, name string) dns.RR {
	hdr := func(t uint16) dns.RR_Header {
		return dns.RR_Header{Name: name, Rrtype: t, Class: dns.ClassINET, Ttl: uint32(rapid.IntRange(0, 86400).Draw(rt, "ttl"))}
	}
	switch rapid.IntRange(0, 3).Draw(rt, "rr-kind") {
	case 0:
		return &dns.A{Hdr: hdr(dns.TypeA), A: net.IPv4(192, 0, 2, byte(rapid.IntRange(0, 255).Draw(rt, "a")))}
	case 1:
		return &dns.AAAA{Hdr: hdr(dns.TypeAAAA), AAAA: net.ParseIP("2001:db8::1")}
	case 2:
		return &dns.TXT{Hdr: hdr(dns.TypeTXT), Txt: []string{rapid.StringMatching(`[a-z =]{0,40}`).Draw(rt, "txt")}}
	}
	return &dns.CNAME{Hdr: hdr(dns.TypeCNAME), Target: "target.example.org."}
}

// c56DrawMsg builds a client query with miekg/dns.
func c56DrawMsg(rt *rapid.T, c *c56Case) []byte {
	m := new(dns.Msg)
	m.Id = uint16(rapid.IntRange(0, 65535).Draw(rt, "id"))
	m.RecursionDesired = rapid.Bool().Draw(rt, "rd")
	m.CheckingDisabled = rapid.Bool().Draw(rt, "cd")
	m.AuthenticatedData = rapid.Bool().Draw(rt, "ad")
	if rapid.IntRange(0, 9).Draw(rt, "opcode") == 0 {
		m.Opcode = dns.OpcodeNotify
	}
	nq := 1
	if rapid.IntRange(0, 19).Draw(rt, "nq") == 0 {
		nq = 2
	}
	qtypes := []uint16{dns.TypeA, dns.TypeAAAA, dns.TypeTXT, dns.TypeMX, dns.TypeANY, 65, dns.TypeSOA, dns.TypePTR, 65280}
	for i := 0; i < nq; i++ {
		qc := uint16(dns.ClassINET)
		if rapid.IntRange(0, 9).Draw(rt, "qclass") == 0 {
			qc = dns.ClassCHAOS
		}
		m.Question = append(m.Question, dns.Question{Name: c56DrawName(rt), Qtype: qtypes[rapid.IntRange(0, len(qtypes)-1).Draw(rt, "qtype")], Qclass: qc})
	}
	if rapid.IntRange(0, 9).Draw(rt, "with-rrs") == 0 {
		n := rapid.IntRange(1, 3).Draw(rt, "nrr")
		for i := 0; i < n; i++ {
			r := c56DrawRR(rt, m.Question[0].Name)
			switch rapid.IntRange(0, 2).Draw(rt, "section") {
			case 0:
				m.Answer = append(m.Answer, r)
			case 1:
				m.Ns = append(m.Ns, r)
			default:
				m.Extra = append(m.Extra, r)
			}
		}
	}
	if rapid.IntRange(0, 2).Draw(rt, "with-opt") != 0 { // most real DoH clients send EDNS0
		c.HasOPT = true
		opt := new(dns.OPT)
		opt.Hdr.Name = "."
		opt.Hdr.Rrtype = dns.TypeOPT
		opt.SetUDPSize([]uint16{512, 1232, 4096, 65535}[rapid.IntRange(0, 3).Draw(rt, "udpsize")])
		if rapid.Bool().Draw(rt, "do") {
			opt.SetDo()
		}
		if rapid.IntRange(0, 2).Draw(rt, "opt-padding") == 0 {
			opt.Option = append(opt.Option, &dns.EDNS0_PADDING{Padding: make([]byte, rapid.IntRange(0, 64).Draw(rt, "padlen"))})
		}
		if rapid.IntRange(0, 3).Draw(rt, "opt-cookie") == 0 {
			opt.Option = append(opt.Option, &dns.EDNS0_COOKIE{Code: dns.EDNS0COOKIE, Cookie: "0123456789abcdef"})
		}
		switch rapid.IntRange(0, 5).Draw(rt, "opt-ecs") {
		case 0:
			c.HasECS = true
			opt.Option = append(opt.Option, &dns.EDNS0_SUBNET{Code: dns.EDNS0SUBNET, Family: 1, SourceNetmask: 24, Address: net.IPv4(198, 51, 100, 0).To4()})
		case 1: // RFC 7871 7.1.2 opt-out
			c.HasECS = true
			opt.Option = append(opt.Option, &dns.EDNS0_SUBNET{Code: dns.EDNS0SUBNET, Family: 1, SourceNetmask: 0, Address: net.IPv4zero.To4()})
		case 2:
			c.HasECS = true
			opt.Option = append(opt.Option, &dns.EDNS0_SUBNET{Code: dns.EDNS0SUBNET, Family: 2, SourceNetmask: 56, Address: net.ParseIP("2001:db8:1:100::")})
		}
		m.Extra = append(m.Extra, opt)
	}
	m.Compress = rapid.Bool().Draw(rt, "compress")
	w, err := m.Pack()
	if err != nil {
		rt.Fatalf("HARNESS BUG: cannot pack generated message: %v", err)
	}
	return w
}

// c56BigMsg builds by hand: header, one question, n TXT records in the
// additional section whose sizes put the end of the message / an RR boundary
// at chosen offsets around the POST limit.
func c56BigMsg(rt *rapid.T) ([]byte, string) {
	q := []byte{7, 'e', 'x', 'a', 'm', 'p', 'l', 'e', 3, 'o', 'r', 'g', 0, 0, 16, 0, 1}
	txt := func(n int) []byte { // one TXT RR owned by the root, n >= 0 text bytes (n <= 255): 12+n bytes
		b := []byte{0, 0, 16, 0, 1, 0, 0, 0, 60, 0, 0}
		binary.BigEndian.PutUint16(b[9:], uint16(1+n))
		b = append(b, byte(n))
		for i := 0; i < n; i++ {
			b = append(b, 'a'+byte(i%26))
		}
		return b
	}
	build := func(total int, tail int) []byte {
		// RRs up to exactly `total` bytes, then RRs for `tail` more bytes
		body := append([]byte{}, q...)
		cnt := 0
		fill := func(target int) {
			for 12+len(body) < target {
				room := target - 12 - len(body)
				n := 200
				if room < 12+200+12 { // keep the remainder encodable (an RR needs >= 12 bytes)
					n = room - 12
					if n > 255 {
						n = room - 12 - 12 - 100
					}
				}
				if n < 0 {
					break
				}
				body = append(body, txt(n)...)
				cnt++
			}
		}
		fill(total)
		if tail > 0 {
			fill(total + tail)
		}
		h := make([]byte, 12)
		binary.BigEndian.PutUint16(h[0:], uint16(rapid.IntRange(0, 65535).Draw(rt, "id")))
		h[2] = 0x01 // RD
		binary.BigEndian.PutUint16(h[4:], 1)
		binary.BigEndian.PutUint16(h[10:], uint16(cnt))
		return append(h, body...)
	}
	switch rapid.IntRange(0, 5).Draw(rt, "big-kind") {
	case 0:
		return build(rapid.IntRange(8150, c56MaxPost).Draw(rt, "size"), 0), "big:within-limit"
	case 1:
		return build(c56MaxPost, 0), "big:exactly-limit"
	case 2:
		return build(rapid.IntRange(c56MaxPost+1, c56MaxPost+40).Draw(rt, "size"), 0), "big:just-over"
	case 3: // an RR boundary exactly at the limit, more RRs behind it
		return build(c56MaxPost, rapid.IntRange(12, 3000).Draw(rt, "tail")), "big:over-rr-boundary-at-limit"
	case 4:
		return build(rapid.IntRange(9000, 40000).Draw(rt, "size"), 0), "big:far-over"
	default: // small valid query followed by zero padding beyond the limit
		w := build(100, 0)
		return append(w, make([]byte, c56MaxPost+rapid.IntRange(1, 500).Draw(rt, "zeros")-len(w))...), "big:small-query-plus-trailing"
	}
}

func c56Mutate(rt *rapid.T, w []byte) ([]byte, string) {
	_, bounds := c56Walk(w)
	out := append([]byte{}, w...)
	switch rapid.IntRange(0, 5).Draw(rt, "mut") {
	case 0:
		k := rapid.IntRange(0, 11).Draw(rt, "cut")
		if k > len(out) {
			k = len(out)
		}
		return out[:k], "short-header"
	case 1: // cut anywhere (walker tells whether it hit a boundary)
		if len(out) <= 13 {
			return out[:len(out)-1], "cut"
		}
		return out[:rapid.IntRange(13, len(out)-1).Draw(rt, "cut")], "cut"
	case 2: // cut exactly at an element boundary
		b := bounds[rapid.IntRange(0, len(bounds)-1).Draw(rt, "bound")]
		return out[:b], "cut-at-boundary"
	case 3: // a label length that runs past the end
		out[12] = byte(rapid.IntRange(1, 63).Draw(rt, "lablen"))
		return out, "label-length"
	case 4: // compression pointer to itself / out of the message
		if rapid.Bool().Draw(rt, "self") {
			out[12], out[13] = 0xC0, 12
		} else {
			out[12], out[13] = 0xFF, 0xFF
		}
		return out, "pointer"
	default:
		pos := rapid.IntRange(0, len(out)-1).Draw(rt, "pos")
		out[pos] = rapid.Byte().Draw(rt, "byte")
		return out, "byte"
	}
}

var c56V4 = []string{"203.0.113.77", "10.1.2.3", "255.255.255.255", "1.0.0.1", "127.0.0.1"}
var c56V6 = []string{"2001:db8::77", "fe80::1", "::1", "2a00:1450:4001:81b::200e", "ffff:ffff:ffff:ffff:ffff:ffff:ffff:ffff"}

func c56DrawClient(rt *rapid.T, c *c56Case) { c56DrawClientForm(rt, c, -1) }

// c56DrawClientForm draws the client address; form -1: any, 2: via X-Real-Ip of a trusted upstream.
func c56DrawClientForm(rt *rapid.T, c *c56Case, form int) {
	v4 := rapid.Bool().Draw(rt, "client-v4")
	var text string
	if v4 {
		text = c56V4[rapid.IntRange(0, len(c56V4)-1).Draw(rt, "client")]
		if rapid.IntRange(0, 3).Draw(rt, "random-v4") == 0 {
			text = fmt.Sprintf("%d.%d.%d.%d", rapid.IntRange(1, 223).Draw(rt, "o"), rapid.IntRange(0, 255).Draw(rt, "o"), rapid.IntRange(0, 255).Draw(rt, "o"), rapid.IntRange(0, 255).Draw(rt, "o"))
		}
	} else {
		text = c56V6[rapid.IntRange(0, len(c56V6)-1).Draw(rt, "client")]
	}
	c.ClientIP = text
	port := rapid.IntRange(1024, 65535).Draw(rt, "cport")
	upstream := &net.TCPAddr{IP: net.IPv4(10, 200, 0, 9).To4(), Port: 33000}
	if form < 0 {
		form = rapid.IntRange(0, 3).Draw(rt, "client-form")
	}
	switch form {
	case 0: // direct connection: accept() yields a 4-byte IP for AF_INET peers, 16 bytes for AF_INET6
		ip := net.ParseIP(text)
		if v4 {
			ip = ip.To4()
		}
		c.ClientForm = "direct"
		c.remote = &net.TCPAddr{IP: ip, Port: port}
		c.client, c.sameAs = c.remote, true
	case 1: // direct connection on a dual-stack listener: IPv4 peers appear IPv4-mapped (16 bytes)
		c.ClientForm = "direct-dualstack"
		c.remote = &net.TCPAddr{IP: net.ParseIP(text).To16(), Port: port}
		c.client, c.sameAs = c.remote, true
	case 2: // trusted upstream, X-Real-Ip parsed by net.ParseIP (setClientAddr/parseClientAddr)
		c.ClientForm = "x-real-ip"
		t := text
		if v4 && rapid.Bool().Draw(rt, "mapped-text") {
			t = "::ffff:" + text
			c.ClientForm = "x-real-ip-mapped-text"
		}
		c.remote = upstream
		c.client = &net.TCPAddr{IP: net.ParseIP(t), Port: port}
	default: // trusted upstream without client address headers: ClientAddr stays nil
		ip := net.ParseIP(text)
		if v4 {
			ip = ip.To4()
		}
		c.ClientForm = "no-clientaddr"
		c.remote = &net.TCPAddr{IP: ip, Port: port}
		c.client = nil
	}
}

// ------------------------------------------------------------ run + oracle

func c56BuildRequest(c *c56Case, sess *bfe_basic.Session) (*bfe_basic.Request, error) {
	var raw bytes.Buffer
	switch c.Method {
	case "GET":
		b64 := base64.RawURLEncoding.EncodeToString(c.wire)
		q := "dns=" + b64
		switch c.QueryForm {
		case "padded":
			q = "dns=" + base64.URLEncoding.EncodeToString(c.wire)
		case "dup":
			q = "dns=" + b64 + "&dns=" + b64
		case "missing":
			q = "name=example.org&type=A"
		case "extra-params":
			q = "ct=application/dns-message&dns=" + b64 + "&x=1"
		case "bad-b64-char":
			q = "dns=" + b64[:len(b64)/2] + "!" + b64[len(b64)/2:]
		case "bad-b64-std-alphabet":
			q = "dns=" + strings.NewReplacer("-", "+", "_", "/").Replace(b64) + "+/"
		case "bad-b64-length":
			q = "dns=" + b64 + "A"
			if len(b64)%4 != 0 {
				q = "dns=" + b64[:len(b64)-len(b64)%4] + "A"
			}
		}
		fmt.Fprintf(&raw, "GET /dns-query?%s HTTP/1.1\r\nHost: doh.example.org\r\nAccept: application/dns-message\r\n\r\n", q)
	default:
		fmt.Fprintf(&raw, "POST /dns-query HTTP/1.1\r\nHost: doh.example.org\r\nContent-Type: application/dns-message\r\nContent-Length: %d\r\n\r\n", len(c.wire))
		raw.Write(c.wire)
	}
	hr, err := bfe_http.ReadRequest(bfe_bufio.NewReader(bytes.NewReader(raw.Bytes())), 1<<20)
	if err != nil {
		return nil, err
	}
	conn := &c46Conn{remote: c.remote, local: c46SockLocal}
	if sess == nil { // first request of a connection
		sess = bfe_basic.NewSession(conn)
		sess.IsSecure = true
	}
	req := bfe_basic.NewRequest(hr, sess.Connection, nil, sess, nil)
	req.ClientAddr = c.client
	return req, nil
}

func c56RRs(rrs []dns.RR, skipOPT bool) []string {
	var out []string
	for _, r := range rrs {
		if skipOPT && r.Header().Rrtype == dns.TypeOPT {
			continue
		}
		out = append(out, r.String())
	}
	return out
}

func c56NonOPT(rrs []dns.RR) []dns.RR {
	var out []dns.RR
	for _, r := range rrs {
		if r.Header().Rrtype != dns.TypeOPT {
			out = append(out, r)
		}
	}
	return out
}

func c56Opts(rrs []dns.RR) []*dns.OPT {
	var out []*dns.OPT
	for _, r := range rrs {
		if o, ok := r.(*dns.OPT); ok {
			out = append(out, o)
		}
	}
	return out
}

type c56Prep struct {
	expect  string
	isV4    bool
	eff     net.IP
	verdict int
	where   string
	w       c56Case
}

// c56Prepare classifies the case, fixes the expectation and records it.
func c56Prepare(rec *ev.Rec, c *c56Case, extra ...string) *c56Prep {
	c.WireLen = len(c.wire)
	c.WireHex = hex.EncodeToString(c.wire)
	eff := c.remote.IP
	if c.client != nil {
		eff = c.client.IP
	}
	isV4 := eff.To4() != nil
	verdict, _, where := c56WalkDetail(c.wire)
	expect := "dont-care"
	switch {
	case c.Method == "POST" && len(c.wire) > c56MaxPost:
		expect = "reject"
	case c.Method == "GET" && (c.QueryForm == "dup" || c.QueryForm == "missing" || strings.HasPrefix(c.QueryForm, "bad-b64")):
		expect = "reject"
	case c.Method == "GET" && c.QueryForm == "padded" && len(c.wire)%3 != 0:
		expect = "dont-care" // RFC 8484: padding MUST NOT be sent; a server may refuse or tolerate it
	case c.Gen == "valid" || c.Gen == "big:within-limit" || c.Gen == "big:exactly-limit":
		expect = "accept"
	case verdict == c56Malformed:
		expect = "reject"
	}
	nt := (isV4 || c.HasOPT) && expect != "dont-care"
	fam := "client-v6"
	if isV4 {
		fam = "client-v4"
	}
	classes := []string{"method:" + c.Method, "gen:" + c.Gen, "expect:" + expect, fam, "client-form:" + c.ClientForm, "wire:" + c56WireName[verdict]}
	if c.Method == "GET" {
		classes = append(classes, "query:"+c.QueryForm)
	}
	if c.HasOPT {
		classes = append(classes, "client-opt")
	}
	if c.HasECS {
		classes = append(classes, "client-ecs")
	}
	classes = append(classes, extra...)
	rec.Case(fmt.Sprintf("%s|%s|%s|%s|%s|%s", c.Method, c.QueryForm, c.WireHex, c.ClientForm, c.ClientIP, c.Gen), nt, classes...)
	sample := *c
	if len(sample.WireHex) > 160 {
		sample.WireHex = sample.WireHex[:160] + "..."
	}
	rec.Sample(sample)
	return &c56Prep{expect: expect, isV4: isV4, eff: eff, verdict: verdict, where: where, w: sample}
}

// c56Convert does what DnsClient.Fetch does up to the first datagram: convert, then pack.
type c56Out struct {
	msg    *dns.Msg
	packed []byte
	err    error
	pan    any
}

func (o *c56Out) convert(req *bfe_basic.Request) {
	o.pan = ev.Try(func() { o.msg, o.err = mod_doh.RequestToDnsMsg(req) })
}

// pack: dns.Client.Exchange -> Conn.WriteMsg -> Pack (once per attempt of exchangeWithRetry)
func (o *c56Out) pack() {
	if o.pan != nil || o.err != nil {
		return
	}
	o.pan = ev.Try(func() {
		o.packed, o.err = o.msg.Pack()
		if o.err != nil {
			o.err = fmt.Errorf("forwarding fails, message does not pack: %v", o.err)
		}
	})
}

// c56Judge compares what was forwarded for c with the expectation. Every
// discrepancy goes to report(key, msg); report returns true to stop judging.
func c56Judge(tb ev.TB, rec *ev.Rec, c *c56Case, p *c56Prep, o *c56Out, report func(key, msg string) bool) {
	expect, isV4, eff, verdict, where := p.expect, p.isV4, p.eff, p.verdict, p.where
	packed, cerr := o.packed, o.err
	fail := func(key, format string, args ...any) bool { return report(key, fmt.Sprintf(format, args...)) }
	if o.pan != nil {
		fail("panic", "mod_doh panicked: %v", o.pan)
		return
	}
	switch expect {
	case "dont-care":
		return
	case "reject":
		if cerr == nil {
			key := "malformed-forwarded." + where
			if c.Method == "POST" && len(c.wire) > c56MaxPost {
				key = "post-oversize-forwarded." + strings.TrimPrefix(c.Gen, "big:")
				if !strings.HasPrefix(c.Gen, "big:") {
					key = "post-oversize-forwarded"
				}
			} else if c.Method == "GET" && c.QueryForm != "plain" && c.QueryForm != "extra-params" {
				key = "get-" + c.QueryForm + "-forwarded"
			}
			var fw dns.Msg
			fw.Unpack(packed)
			fail(key, "%s message of %d bytes (%s, wire %s) was not rejected: %d bytes forwarded (%d questions, %d+%d+%d RRs); head=%.80s",
				c.Method, len(c.wire), c.Gen, c56WireName[verdict], len(packed), len(fw.Question), len(fw.Answer), len(fw.Ns), len(fw.Extra), c.WireHex)
		}
		return
	}
	// ---- accept: forwarded message == client's message + one ECS option
	var in dns.Msg
	if err := in.Unpack(c.wire); err != nil {
		tb.Fatalf("HARNESS BUG: reference decoder rejects the generated message: %v", err)
	}
	if cerr != nil {
		key := "valid-rejected"
		if isV4 && len(eff) == net.IPv4len && strings.Contains(cerr.Error(), "does not pack") {
			key = "ecs-v4-4byte-ip-unpackable"
		}
		fail(key, "valid %s query (%d bytes, client %s as %s) is not forwarded: %v", c.Method, len(c.wire), c.ClientIP, c.ClientForm, cerr)
		return
	}
	var fw dns.Msg
	if err := fw.Unpack(packed); err != nil {
		fail("forwarded-undecodable", "forwarded message does not decode: %v", err)
		return
	}
	if fw.MsgHdr != in.MsgHdr {
		fail("msg-header-altered", "header %+v forwarded as %+v", in.MsgHdr, fw.MsgHdr)
		return
	}
	if fmt.Sprint(fw.Question) != fmt.Sprint(in.Question) {
		fail("msg-question-altered", "question %v forwarded as %v", in.Question, fw.Question)
		return
	}
	if a, b := c56RRs(in.Answer, false), c56RRs(fw.Answer, false); fmt.Sprint(a) != fmt.Sprint(b) {
		fail("msg-rr-altered", "answer section %v forwarded as %v", a, b)
		return
	}
	if a, b := c56RRs(in.Ns, false), c56RRs(fw.Ns, false); fmt.Sprint(a) != fmt.Sprint(b) {
		fail("msg-rr-altered", "authority section %v forwarded as %v", a, b)
		return
	}
	if a, b := c56RRs(in.Extra, true), c56RRs(fw.Extra, true); fmt.Sprint(a) != fmt.Sprint(b) {
		fail("msg-rr-altered", "additional section (without OPT) %v forwarded as %v", a, b)
		return
	}
	opts := c56Opts(fw.Extra)
	if len(opts) != 1 {
		key := "opt-count"
		if len(opts) == 2 && c.HasOPT {
			key = "client-opt-duplicated"
		}
		if fail(key, "forwarded message carries %d OPT RRs (client sent %d); RFC 6891 6.1.1 allows one", len(opts), len(c56Opts(in.Extra))) {
			return
		}
		if len(opts) == 0 {
			return
		}
		// known duplication: go on with the OPT RR bfe appended (the last one) only
		opts = opts[len(opts)-1:]
		in.Extra = c56NonOPT(in.Extra)
		c.HasECS = false
	}
	// the subnet option(s) over all OPT RRs, and the other options
	var ecs []*dns.EDNS0_SUBNET
	var others []string
	do := false
	for _, o := range opts {
		do = do || o.Do()
		for _, e := range o.Option {
			if s, ok := e.(*dns.EDNS0_SUBNET); ok {
				ecs = append(ecs, s)
			} else {
				others = append(others, fmt.Sprintf("%d:%s", e.Option(), e.String()))
			}
		}
	}
	if len(ecs) != 1 {
		key := "ecs-count"
		if len(ecs) == 2 && c.HasECS {
			key = "client-ecs-duplicated"
		}
		if fail(key, "forwarded message carries %d client-subnet options", len(ecs)) {
			return
		}
		if len(ecs) == 0 {
			return
		}
	}
	if in0 := c56Opts(in.Extra); len(in0) == 1 {
		var want []string
		for _, e := range in0[0].Option {
			if _, ok := e.(*dns.EDNS0_SUBNET); !ok {
				want = append(want, fmt.Sprintf("%d:%s", e.Option(), e.String()))
			}
		}
		if fmt.Sprint(want) != fmt.Sprint(others) {
			if fail("client-opt-options-lost", "client EDNS options %v forwarded as %v", want, others) {
				return
			}
		}
		if in0[0].Do() != do {
			if fail("client-do-bit-lost", "DO bit %v forwarded as %v", in0[0].Do(), do) {
				return
			}
		}
	}
	// the option bfe added is the last one; a client-supplied one (if bfe keeps it) may differ
	s := ecs[len(ecs)-1]
	if len(ecs) == 1 && c.HasECS {
		// a single option survives: either the client's own or bfe's; only bfe's is specified here
		in0 := c56Opts(in.Extra)
		for _, e := range in0[0].Option {
			if cs, ok := e.(*dns.EDNS0_SUBNET); ok && cs.String() == s.String() && cs.Family == s.Family {
				return // client's own option kept: acceptable (RFC 7871 7.1.2)
			}
		}
	}
	wantFam, wantMask := uint16(2), uint8(128)
	if isV4 {
		wantFam, wantMask = 1, 32
	}
	if s.Family != wantFam || s.SourceNetmask != wantMask {
		key := "ecs-mismatch-v6-client"
		if isV4 {
			key = "ecs-mismatch-v4-client"
			if s.Family == 2 && s.SourceNetmask == 128 {
				key = "ecs-v4-client-family2-128" // the IPv4 client is described as an IPv6 host
			}
		}
		if fail(key, "client %s (%s, %d-byte IP): subnet option has family %d /%d address %v, want family %d /%d", c.ClientIP, c.ClientForm, len(eff), s.Family, s.SourceNetmask, s.Address, wantFam, wantMask) {
			return
		}
		return
	}
	if !s.Address.Equal(eff) {
		fail("ecs-address", "client %s: subnet option address %v", c.ClientIP, s.Address)
		return
	}
	if s.SourceScope != 0 {
		fail("ecs-scope", "subnet option scope %d in a query", s.SourceScope)
	}
}

func c56Reporter(tb ev.TB, rec *ev.Rec, w any) func(key, msg string) bool {
	return func(key, msg string) bool {
		if !c56Fail(rec, tb, key, w, "%s", msg) {
			rec.Excluded("known-finding:" + key)
			return false
		}
		return true
	}
}

func c56Check(tb ev.TB, rec *ev.Rec, c *c56Case) {
	p := c56Prepare(rec, c)
	if p.expect == "dont-care" {
		rec.Excluded("no-firm-expectation")
	}
	req, err := c56BuildRequest(c, nil)
	if err != nil {
		tb.Fatalf("HARNESS BUG: request does not parse: %v", err)
	}
	var o c56Out
	o.convert(req)
	o.pack()
	c56Judge(tb, rec, c, p, &o, c56Reporter(tb, rec, p.w))
}

// c56Scenario: requests are not served in isolation. `SameSession`: the
// requests arrive on ONE kept-alive connection from a trusted upstream (one
// bfe_basic.Session), each with its own X-Real-Ip, i.e. its own ClientAddr.
// `Overlap`: all requests are converted before the first datagram of any of
// them is packed, and every message is packed twice (the retry of
// DnsClient.exchangeWithRetry) -- what concurrent requests look like from the
// point of view of one of them. Every forwarded message must still be the
// client's own query with the subnet of its own client.
type c56Scenario struct {
	Members     []*c56Case `json:"members"`
	SameSession bool       `json:"same_session"`
	Overlap     bool       `json:"overlap"`
}

func c56CheckScenario(tb ev.TB, rec *ev.Rec, sc *c56Scenario) {
	tag := "scenario"
	if sc.SameSession {
		tag += "-same-session"
	}
	if sc.Overlap {
		tag += "-overlap"
	}
	n := len(sc.Members)
	preps := make([]*c56Prep, n)
	reqs := make([]*bfe_basic.Request, n)
	outs := make([]c56Out, n)
	var sess *bfe_basic.Session
	for i, c := range sc.Members {
		preps[i] = c56Prepare(rec, c, tag)
		var err error
		reqs[i], err = c56BuildRequest(c, sess)
		if err != nil {
			tb.Fatalf("HARNESS BUG: request does not parse: %v", err)
		}
		if sc.SameSession {
			sess = reqs[i].Session
		}
	}
	if sc.Overlap {
		for i := range reqs {
			outs[i].convert(reqs[i])
		}
		for i := range reqs {
			outs[i].pack()
		}
		for i := range reqs { // second attempt: this is the datagram that is judged
			outs[i].pack()
		}
	} else {
		for i := range reqs {
			outs[i].convert(reqs[i])
			outs[i].pack()
		}
	}
	for i, c := range sc.Members {
		if preps[i].expect == "dont-care" {
			continue
		}
		var key, msg string
		collect := func(k, m string) bool {
			if key == "" {
				key, msg = k, m
			}
			return true
		}
		c56Judge(tb, rec, c, preps[i], &outs[i], collect)
		if key == "" {
			continue
		}
		// the same request served alone on a fresh connection
		aloneKey := ""
		req, _ := c56BuildRequest(c, nil)
		var alone c56Out
		alone.convert(req)
		alone.pack()
		c56Judge(tb, rec, c, preps[i], &alone, func(k, m string) bool {
			if aloneKey == "" {
				aloneKey = k
			}
			return true
		})
		if aloneKey == "" {
			k := "cross-request." + key
			m := fmt.Sprintf("request %d of %d (%s) is forwarded wrongly, alone it is forwarded correctly: %s", i+1, n, tag, msg)
			if !c56Fail(rec, tb, k, sc, "%s", m) {
				rec.Excluded("known-finding:" + k)
			}
			return
		}
		// fails alone as well: the ordinary path reports it (with known-finding handling)
		c56Judge(tb, rec, c, preps[i], &alone, c56Reporter(tb, rec, preps[i].w))
		return
	}
}

// c56DrawMember draws one request of a scenario (GET or POST, mostly valid queries).
func c56DrawMember(rt *rapid.T, form int) *c56Case {
	c := &c56Case{Method: "GET", QueryForm: "plain"}
	if rapid.Bool().Draw(rt, "post") {
		c.Method = "POST"
	}
	c56DrawClientForm(rt, c, form)
	if rapid.IntRange(0, 5).Draw(rt, "member-mutated") == 0 {
		w := c56DrawMsg(rt, c)
		var how string
		c.wire, how = c56Mutate(rt, w)
		c.Gen = "mutated:" + how
	} else {
		c.Gen = "valid"
		c.wire = c56DrawMsg(rt, c)
	}
	return c
}

func c56DrawScenario(rt *rapid.T) *c56Scenario {
	sc := &c56Scenario{SameSession: rapid.Bool().Draw(rt, "same-session"), Overlap: rapid.Bool().Draw(rt, "overlap")}
	form := -1
	if sc.SameSession {
		form = 2 // kept-alive connection of a trusted upstream: the client is named per request
	}
	n := rapid.IntRange(2, 3).Draw(rt, "members")
	for i := 0; i < n; i++ {
		sc.Members = append(sc.Members, c56DrawMember(rt, form))
	}
	return sc
}

// c56ScenarioSweep: fixed scenarios, IPv4 then IPv6 then IPv4 clients with plain queries
// (no OPT) and queries carrying an OPT, for the four combinations of same-session / overlap.
func c56ScenarioSweep(t *testing.T, rec *ev.Rec) {
	clients := []string{"192.0.2.33", "2001:db8::42", "198.51.100.9"}
	for _, withOpt := range []bool{false, true} {
		for _, same := range []bool{false, true} {
			for _, overlap := range []bool{false, true} {
				sc := &c56Scenario{SameSession: same, Overlap: overlap}
				for i, ip := range clients {
					m := new(dns.Msg)
					m.SetQuestion(fmt.Sprintf("q%d.example.org.", i), dns.TypeA)
					m.Id = uint16(1000 + i)
					if withOpt {
						m.SetEdns0(1232, i == 1)
					}
					w, err := m.Pack()
					if err != nil {
						t.Fatalf("HARNESS BUG: %v", err)
					}
					c := &c56Case{Method: []string{"GET", "POST"}[i%2], QueryForm: "plain", Gen: "valid", HasOPT: withOpt,
						ClientIP: ip, ClientForm: "x-real-ip", wire: w,
						remote: &net.TCPAddr{IP: net.IPv4(10, 200, 0, 9).To4(), Port: 33000},
						client: &net.TCPAddr{IP: net.ParseIP(ip), Port: 40000 + i}}
					sc.Members = append(sc.Members, c)
				}
				c56CheckScenario(t, rec, sc)
			}
		}
	}
}

func TestC56(t *testing.T) {
	rec := ev.New("C56", "client queries built with miekg/dns (ids, flags, 1-2 questions, names up to 255 octets, optional RRs, EDNS0 OPT with DO/padding/cookie/existing client-subnet), hand-built messages of 8150..40000 B around the 8192 B POST limit, structural mutations (cuts, label lengths, pointers, bytes) judged by an own RFC 1035 walker; GET (?dns= base64url plain/padded/duplicate/missing/extra params/bad alphabet/bad length) and POST; client address IPv4 as 4-byte and 16-byte IP, IPv6, via RemoteAddr, X-Real-Ip (net.ParseIP) or nil ClientAddr. non-trivial: (IPv4 client or client message already has OPT) and a firm expectation; distinct by (method, query form, wire, client form, client ip)")
	c56ScenarioSweep(t, rec)
	rapid.Check(t, func(rt *rapid.T) {
		if rapid.IntRange(0, 4).Draw(rt, "scenario") == 0 {
			c56CheckScenario(rt, rec, c56DrawScenario(rt))
			return
		}
		c := &c56Case{Method: "GET", QueryForm: "plain"}
		if rapid.Bool().Draw(rt, "post") {
			c.Method = "POST"
		}
		c56DrawClient(rt, c)
		kind := rapid.IntRange(0, 9).Draw(rt, "kind")
		switch {
		case kind <= 5:
			c.Gen = "valid"
			c.wire = c56DrawMsg(rt, c)
		case kind <= 7:
			w := c56DrawMsg(rt, c)
			var how string
			c.wire, how = c56Mutate(rt, w)
			c.Gen = "mutated:" + how
		default:
			c.Method = "POST"
			c.wire, c.Gen = c56BigMsg(rt)
		}
		if c.Method == "GET" && c.Gen == "valid" {
			forms := []string{"plain", "plain", "plain", "padded", "dup", "missing", "extra-params", "bad-b64-char", "bad-b64-std-alphabet", "bad-b64-length"}
			c.QueryForm = forms[rapid.IntRange(0, len(forms)-1).Draw(rt, "query-form")]
		}
		c56Check(rt, rec, c)
	})
}

package proxy

import (
	"fmt"
	"os"
	"sync"
)

// Development aid: with VERIF_SURVEY=1 discrepancies are listed (once per
// finding key) instead of failing, to see every key a tree produces in one run.
var (
	surveyMu   sync.Mutex
	surveySeen = map[string]int{}
)

func surveyHit(prop, key, msg string) bool {
	if os.Getenv("VERIF_SURVEY") == "" {
		return false
	}
	surveyMu.Lock()
	defer surveyMu.Unlock()
	surveySeen[prop+" "+key]++
	if surveySeen[prop+" "+key] == 1 {
		fmt.Printf("SURVEY %s %s: %s\n", prop, key, msg)
	}
	return true
}

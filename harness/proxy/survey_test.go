package proxy

import (
	"fmt"
	"os"
	"sync"

	"verif/harness/internal/ev"
)

// Development aid: with VERIF_SURVEY=1 discrepancies are listed (once per
// finding key) instead of failing, to see every key a tree produces in one run.
var (
	surveyMu   sync.Mutex
	surveySeen = map[string]int{}
)

func surveyHit(prop, key, msg string) bool {
	if os.Getenv("VERIF_SURVEY") == "" {
		return false
	}
	surveyMu.Lock()
	defer surveyMu.Unlock()
	surveySeen[prop+" "+key]++
	if surveySeen[prop+" "+key] == 1 {
		fmt.Printf("SURVEY %s %s: %s\n", prop, key, msg)
	}
	return true
}

type failRec interface {
	Fail(tb ev.TB, key string, witness any, format string, args ...any) bool
}

// c55Fail / c56Fail: rec.Fail, or in survey mode list the key and go on as if
// it were a known finding.
func c55Fail(rec failRec, tb ev.TB, key string, w any, format string, args ...any) bool {
	if surveyHit("C55", key, fmt.Sprintf(format, args...)) {
		return false
	}
	return rec.Fail(tb, key, w, format, args...)
}

func c56Fail(rec failRec, tb ev.TB, key string, w any, format string, args ...any) bool {
	if surveyHit("C56", key, fmt.Sprintf(format, args...)) {
		return false
	}
	return rec.Fail(tb, key, w, format, args...)
}

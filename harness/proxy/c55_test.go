package proxy

import (
	"bytes"
	"encoding/binary"
	"errors"
	"fmt"
	"hash/fnv"
	"io"
	"net"
	"sort"
	"strconv"
	"strings"
	"sync"
	"testing"
	"time"

	"github.com/bfenetworks/bfe/bfe_bufio"
	"github.com/bfenetworks/bfe/bfe_fcgi"
	"github.com/bfenetworks/bfe/bfe_http"
	"pgregory.net/rapid"

	"verif/harness/internal/ev"
)

// C55: FastCGI requests and responses are encoded faithfully.
//
// The harness owns a FastCGI record decoder written from the FastCGI 1.0
// specification (sections 3.3 records, 3.4 name-value pairs, 5 application
// record types) and a fake responder on a loopback TCP socket which records
// every record the client sends and replies with a generated script of
// STDOUT / STDERR / END_REQUEST records.
//
// mode "do":        bfe_fcgi.Dial + FCGIClient.Do(params, body) -- exactly what
//                   Transport.RoundTrip does with the map it built; the decoded
//                   FCGI_PARAMS must equal the map, decoded FCGI_STDIN the body.
// mode "roundtrip": bfe_fcgi.Transport{Root, EnvVars}.RoundTrip(outreq) with an
//                   out-request prepared the way bfe_server/reverseproxy.go does
//                   (bfe_http.ReadRequest, proto set, URL.Scheme/Host = backend);
//                   the decoded params must contain the CGI meta-variables of
//                   RFC 3875 for this request, and the HTTP response must be
//                   built from the STDOUT stream only.

// ------------------------------------------------------------ spec decoder

const (
	c55BeginRequest = 1
	c55AbortRequest = 2
	c55EndRequest   = 3
	c55Params       = 4
	c55Stdin        = 5
	c55Stdout       = 6
	c55Stderr       = 7
)

type c55Record struct {
	Version byte
	Type    byte
	ID      uint16
	Content []byte
	Padding int
}

func c55ReadRecord(r io.Reader) (c55Record, error) {
	var h [8]byte
	if _, err := io.ReadFull(r, h[:]); err != nil {
		return c55Record{}, err
	}
	rec := c55Record{Version: h[0], Type: h[1], ID: binary.BigEndian.Uint16(h[2:4]), Padding: int(h[6])}
	if rec.Version != 1 || rec.Type == 0 || rec.Type > 11 {
		// not a record header of FastCGI 1.0: the stream is out of step
		return rec, fmt.Errorf("%w: version %d type %d", errC55BadHeader, rec.Version, rec.Type)
	}
	cl := int(binary.BigEndian.Uint16(h[4:6]))
	buf := make([]byte, cl+rec.Padding)
	if _, err := io.ReadFull(r, buf); err != nil {
		return rec, fmt.Errorf("record body: %w", err)
	}
	rec.Content = buf[:cl]
	return rec, nil
}

func c55WriteRecord(w io.Writer, typ byte, id uint16, content []byte, pad int) error {
	h := [8]byte{1, typ, byte(id >> 8), byte(id), byte(len(content) >> 8), byte(len(content)), byte(pad), 0}
	buf := make([]byte, 0, 8+len(content)+pad)
	buf = append(buf, h[:]...)
	buf = append(buf, content...)
	buf = append(buf, make([]byte, pad)...)
	_, err := w.Write(buf)
	return err
}

var errC55BadHeader = errors.New("bad record header")

type c55Pair struct{ K, V string }

// c55DecodePairs decodes a FCGI name-value stream (spec 3.4).
func c55DecodePairs(b []byte) ([]c55Pair, error) {
	var out []c55Pair
	readLen := func() (int, error) {
		if len(b) == 0 {
			return 0, errors.New("length missing")
		}
		if b[0]&0x80 == 0 {
			n := int(b[0])
			b = b[1:]
			return n, nil
		}
		if len(b) < 4 {
			return 0, errors.New("4-byte length truncated")
		}
		n := int(binary.BigEndian.Uint32(b[:4]) & 0x7fffffff)
		b = b[4:]
		return n, nil
	}
	for len(b) > 0 {
		nl, err := readLen()
		if err != nil {
			return out, err
		}
		vl, err := readLen()
		if err != nil {
			return out, err
		}
		if nl+vl > len(b) {
			return out, fmt.Errorf("pair of %d+%d bytes overruns the %d bytes left", nl, vl, len(b))
		}
		out = append(out, c55Pair{string(b[:nl]), string(b[nl : nl+vl])})
		b = b[nl+vl:]
	}
	return out, nil
}

// ------------------------------------------------------------ fake responder

type c55Out struct {
	Type    byte
	Content []byte
	Pad     int
}

type c55Exchange struct {
	script []c55Out

	mu      sync.Mutex
	conn    net.Conn
	records []c55Record
	readErr error
	done    chan struct{}
}

type c55Responder struct {
	ln  net.Listener
	mu  sync.Mutex
	cur *c55Exchange
}

var (
	c55Once sync.Once
	c55Srv  *c55Responder
	c55Err  error
)

func c55GetResponder() (*c55Responder, error) {
	c55Once.Do(func() {
		ln, err := net.Listen("tcp", "127.0.0.1:0")
		if err != nil {
			c55Err = err
			return
		}
		c55Srv = &c55Responder{ln: ln}
		go c55Srv.loop()
	})
	return c55Srv, c55Err
}

func (s *c55Responder) loop() {
	for {
		conn, err := s.ln.Accept()
		if err != nil {
			return
		}
		s.mu.Lock()
		ex := s.cur
		s.cur = nil
		s.mu.Unlock()
		if ex == nil {
			conn.Close()
			continue
		}
		ex.mu.Lock()
		ex.conn = conn
		ex.mu.Unlock()
		go s.handle(ex, conn)
	}
}

func (s *c55Responder) handle(ex *c55Exchange, conn net.Conn) {
	defer close(ex.done)
	defer conn.Close()
	paramsOpen, stdinOpen := true, true
	var recs []c55Record
	var rerr error
	for paramsOpen || stdinOpen {
		// idle watchdog: hitting it is inconclusive, never a violation
		conn.SetDeadline(time.Now().Add(30 * time.Second))
		r, err := c55ReadRecord(conn)
		if err != nil {
			rerr = err
			break
		}
		recs = append(recs, r)
		if r.Type == c55Params && len(r.Content) == 0 {
			paramsOpen = false
		}
		if r.Type == c55Stdin && len(r.Content) == 0 {
			stdinOpen = false
		}
		if r.Type == c55AbortRequest {
			break
		}
	}
	ex.mu.Lock()
	ex.records, ex.readErr = recs, rerr
	ex.mu.Unlock()
	if rerr != nil {
		return
	}
	id := uint16(1)
	if len(recs) > 0 {
		id = recs[0].ID
	}
	conn.SetDeadline(time.Now().Add(90 * time.Second))
	for _, o := range ex.script {
		if err := c55WriteRecord(conn, o.Type, id, o.Content, o.Pad); err != nil {
			return
		}
	}
}

// ------------------------------------------------------------ case

type c55Case struct {
	Mode             string      `json:"mode"`
	Params           []c55Pair   `json:"-"`
	ParamDesc        [][2]int    `json:"param_sizes"` // (len name, len value)
	BodyLen          int         `json:"body_len"`
	BodyStyle        string      `json:"body_reader"`
	Root             string      `json:"root,omitempty"`
	EnvVars          [][2]string `json:"env_vars,omitempty"`
	RawHead          string      `json:"raw_head,omitempty"` // request line + headers (long values abbreviated)
	Script           []string    `json:"script"`             // type:len:pad
	Status           int         `json:"status"`
	HasStderr        bool        `json:"has_stderr"`
	StderrBeforeBody bool        `json:"stderr_before_header_end"`

	body     []byte
	raw      []byte
	script   []c55Out
	stdout   []byte // concatenation of STDOUT contents
	respBody []byte
	hdrs     [][2]string // response headers written on STDOUT
	expect   map[string]string
	remote   string
}

func c55Fill(n int, seed byte, alphabet string) string {
	b := make([]byte, n)
	for i := range b {
		if alphabet == "" {
			b[i] = seed + byte(i*13)
		} else {
			b[i] = alphabet[(int(seed)+i*7)%len(alphabet)]
		}
	}
	return string(b)
}

const c55Token = "abcdefghijklmnopqrstuvwxyzABCDEFGHIJKLMNOPQRSTUVWXYZ0123456789"

func c55DrawLen(rt *rapid.T, label string, allowHuge bool) int {
	k := rapid.IntRange(0, 19).Draw(rt, label+"-class")
	switch {
	case k < 9:
		return rapid.IntRange(0, 24).Draw(rt, label)
	case k < 12:
		return rapid.IntRange(120, 135).Draw(rt, label) // around the 1-/4-byte length boundary
	case k < 15:
		return rapid.IntRange(200, 6000).Draw(rt, label)
	case k < 17:
		return rapid.IntRange(20000, 40000).Draw(rt, label)
	case k < 19 || !allowHuge:
		return rapid.IntRange(65000, 66000).Draw(rt, label) // around the record size limit
	default:
		return rapid.IntRange(66000, 70000).Draw(rt, label)
	}
}

func c55DrawBody(rt *rapid.T) []byte {
	n := 0
	switch rapid.IntRange(0, 7).Draw(rt, "body-class") {
	case 0, 1:
	case 2, 3:
		n = rapid.IntRange(1, 300).Draw(rt, "body-len")
	case 4:
		n = rapid.IntRange(65490, 65545).Draw(rt, "body-len")
	case 5:
		n = rapid.IntRange(130990, 131080).Draw(rt, "body-len")
	case 6:
		n = rapid.IntRange(300, 70000).Draw(rt, "body-len")
	default:
		n = rapid.IntRange(70000, 200000).Draw(rt, "body-len")
	}
	return []byte(c55Fill(n, rapid.Byte().Draw(rt, "body-seed"), ""))
}

// c55DrawScript builds the responder's reply: the CGI response (headers, blank
// line, body) cut into STDOUT records, interleaved with STDERR records.
func c55DrawScript(rt *rapid.T, c *c55Case) {
	c.Status = []int{200, 200, 201, 404, 500, 302}[rapid.IntRange(0, 5).Draw(rt, "status")]
	var head strings.Builder
	if c.Status != 200 || rapid.Bool().Draw(rt, "explicit-status") {
		reason := map[int]string{200: "OK", 201: "Created", 404: "Not Found", 500: "Internal Server Error", 302: "Found"}[c.Status]
		fmt.Fprintf(&head, "Status: %d %s\r\n", c.Status, reason)
		c.hdrs = append(c.hdrs, [2]string{"Status", fmt.Sprintf("%d %s", c.Status, reason)})
	}
	head.WriteString("Content-Type: text/x-verif\r\n")
	c.hdrs = append(c.hdrs, [2]string{"Content-Type", "text/x-verif"})
	nh := rapid.IntRange(0, 3).Draw(rt, "resp-headers")
	for i := 0; i < nh; i++ {
		v := c55Fill(rapid.IntRange(0, 60).Draw(rt, "resp-hv"), byte(i), c55Token)
		fmt.Fprintf(&head, "X-Verif-%d: %s\r\n", i, v)
		c.hdrs = append(c.hdrs, [2]string{fmt.Sprintf("X-Verif-%d", i), v})
	}
	head.WriteString("\r\n")
	bl := 0
	switch rapid.IntRange(0, 5).Draw(rt, "resp-body-class") {
	case 0:
	case 1, 2:
		bl = rapid.IntRange(1, 200).Draw(rt, "resp-body")
	case 3:
		bl = rapid.IntRange(200, 9000).Draw(rt, "resp-body")
	case 4:
		bl = rapid.IntRange(65530, 65540).Draw(rt, "resp-body")
	default:
		bl = rapid.IntRange(9000, 150000).Draw(rt, "resp-body")
	}
	c.respBody = []byte(c55Fill(bl, rapid.Byte().Draw(rt, "resp-seed"), ""))
	out := append([]byte(head.String()), c.respBody...)
	headLen := head.Len()
	c.stdout = out

	pad := func() int {
		switch rapid.IntRange(0, 3).Draw(rt, "pad") {
		case 0:
			return 0
		case 1:
			return rapid.IntRange(0, 7).Draw(rt, "padn")
		case 2:
			return 255
		}
		return rapid.IntRange(0, 255).Draw(rt, "padn")
	}
	stderrMode := rapid.IntRange(0, 3).Draw(rt, "stderr-mode") // 0,1: none
	stderrText := func() []byte {
		switch rapid.IntRange(0, 3).Draw(rt, "stderr-text") {
		case 0:
			return []byte("PHP Warning:  Undefined variable $x in /var/www/index.php on line 3\n")
		case 1:
			return []byte("X-Injected: 1\r\n\r\n<script>")
		case 2:
			return []byte(c55Fill(rapid.IntRange(1, 3000).Draw(rt, "stderr-len"), 0x41, ""))
		}
		return []byte("\r\n")
	}
	sent := 0
	for sent < len(out) {
		if stderrMode >= 2 && rapid.IntRange(0, 2).Draw(rt, "stderr-here") == 0 {
			c.script = append(c.script, c55Out{c55Stderr, stderrText(), pad()})
			c.HasStderr = true
			if sent < headLen {
				c.StderrBeforeBody = true
			}
		}
		n := 0
		switch rapid.IntRange(0, 4).Draw(rt, "chunk-class") {
		case 0:
			n = rapid.IntRange(1, 16).Draw(rt, "chunk")
		case 1:
			n = rapid.IntRange(1, 1024).Draw(rt, "chunk")
		case 2:
			n = 65535
		case 3:
			n = 8192
		default:
			n = len(out)
		}
		if n > len(out)-sent {
			n = len(out) - sent
		}
		if n > 65535 {
			n = 65535
		}
		c.script = append(c.script, c55Out{c55Stdout, out[sent : sent+n], pad()})
		sent += n
	}
	if stderrMode >= 2 && (!c.HasStderr || rapid.Bool().Draw(rt, "stderr-tail")) {
		c.script = append(c.script, c55Out{c55Stderr, stderrText(), pad()})
		c.HasStderr = true
		if len(out) == 0 {
			c.StderrBeforeBody = true
		}
	}
	// close the streams and the request (spec 5.3, 5.5)
	c.script = append(c.script, c55Out{c55Stdout, nil, 0})
	if c.HasStderr {
		c.script = append(c.script, c55Out{c55Stderr, nil, 0})
	}
	end := make([]byte, 8)
	binary.BigEndian.PutUint32(end, uint32(rapid.IntRange(0, 3).Draw(rt, "app-status")))
	c.script = append(c.script, c55Out{c55EndRequest, end, 0})
	for _, o := range c.script {
		c.Script = append(c.Script, fmt.Sprintf("%d:%d:%d", o.Type, len(o.Content), o.Pad))
	}
}

// c55EncLen is the size of a name-value length field (spec 3.4).
func c55EncLen(n int) int {
	if n <= 127 {
		return 1
	}
	return 4
}

// c55DrawNearLimitParams: many fields of one length profile whose encoded
// FCGI_PARAMS stream ends within a few hundred bytes of the record size limit
// (65 500 used by the client, 65 535 of the format).
func c55DrawNearLimitParams(rt *rapid.T, c *c55Case) {
	target := 0
	switch rapid.IntRange(0, 3).Draw(rt, "target-class") {
	case 0:
		target = rapid.IntRange(65480, 65545).Draw(rt, "target")
	case 1:
		target = rapid.IntRange(65000, 65500).Draw(rt, "target")
	default:
		target = rapid.IntRange(65536, 67000).Draw(rt, "target")
	}
	profile := rapid.IntRange(0, 3).Draw(rt, "profile")
	lens := func() (int, int) {
		switch profile {
		case 0: // both lengths need the 4-byte form but still fit in one byte
			return rapid.IntRange(128, 255).Draw(rt, "nl"), rapid.IntRange(128, 255).Draw(rt, "vl")
		case 1:
			return rapid.IntRange(8, 60).Draw(rt, "nl"), rapid.IntRange(128, 255).Draw(rt, "vl")
		case 2:
			return rapid.IntRange(5, 30).Draw(rt, "nl"), rapid.IntRange(0, 100).Draw(rt, "vl")
		}
		return rapid.IntRange(256, 600).Draw(rt, "nl"), rapid.IntRange(256, 600).Draw(rt, "vl")
	}
	fixed := rapid.Bool().Draw(rt, "fixed-lengths")
	nl0, vl0 := lens()
	size := 0
	for i := 0; i < 4000; i++ {
		nl, vl := nl0, vl0
		if !fixed {
			nl, vl = lens()
		}
		pre := fmt.Sprintf("N%d_", i)
		if nl < len(pre) {
			nl = len(pre)
		}
		enc := c55EncLen(nl) + c55EncLen(vl) + nl + vl
		if size+enc > target {
			// last pair: shrink/stretch the value so that the stream ends at the target
			rest := target - size - c55EncLen(nl) - nl
			switch {
			case rest-1 >= 0 && rest-1 <= 127:
				vl = rest - 1
			case rest-4 >= 128:
				vl = rest - 4
			default:
				vl = -1
			}
			if vl >= 0 {
				c.Params = append(c.Params, c55Pair{pre + c55Fill(nl-len(pre), byte(i), c55Token), c55Fill(vl, byte(i*3), c55Token)})
			}
			return
		}
		c.Params = append(c.Params, c55Pair{pre + c55Fill(nl-len(pre), byte(i), c55Token), c55Fill(vl, byte(i*3), c55Token)})
		size += enc
	}
}

// c55BodyReader hands out the body the way different producers do: in reads
// of `chunk` bytes, the last bytes optionally TOGETHER with io.EOF (allowed by
// the io.Reader contract; iotest.DataErrReader, pipe- and frame-based bodies).
type c55BodyReader struct {
	data        []byte
	chunk       int
	eofWithData bool
}

func (r *c55BodyReader) Read(p []byte) (int, error) {
	if len(r.data) == 0 {
		return 0, io.EOF
	}
	n := len(p)
	if r.chunk > 0 && n > r.chunk {
		n = r.chunk
	}
	if n > len(r.data) {
		n = len(r.data)
	}
	copy(p, r.data[:n])
	r.data = r.data[n:]
	if len(r.data) == 0 && r.eofWithData {
		return n, io.EOF
	}
	return n, nil
}
func (r *c55BodyReader) Close() error { return nil }

var c55BodyStyles = []string{"bytes.Reader", "bytes.Reader", "data+EOF", "data+EOF/4096", "1-byte", "1000-byte", "data+EOF/1-byte"}

func c55NewBodyReader(style string, body []byte) io.ReadCloser {
	switch style {
	case "data+EOF":
		return &c55BodyReader{data: body, eofWithData: true}
	case "data+EOF/4096":
		return &c55BodyReader{data: body, chunk: 4096, eofWithData: true}
	case "data+EOF/1-byte":
		return &c55BodyReader{data: body, chunk: 1, eofWithData: true}
	case "1-byte":
		return &c55BodyReader{data: body, chunk: 1}
	case "1000-byte":
		return &c55BodyReader{data: body, chunk: 1000}
	}
	return nil // the plain bytes.Reader / the body bfe_http.ReadRequest made
}

func c55DrawDoCase(rt *rapid.T, c *c55Case) {
	c.Mode = "do"
	n := 0
	switch rapid.IntRange(0, 6).Draw(rt, "nparams-class") {
	case 6:
		c55DrawNearLimitParams(rt, c)
		c.body = c55DrawBody(rt)
		return
	case 0:
		n = rapid.IntRange(0, 2).Draw(rt, "nparams")
	case 1, 2, 3:
		n = rapid.IntRange(1, 12).Draw(rt, "nparams")
	case 4:
		n = rapid.IntRange(12, 60).Draw(rt, "nparams")
	default:
		n = rapid.IntRange(60, 200).Draw(rt, "nparams")
	}
	seen := map[string]bool{}
	total := 0
	for i := 0; i < n; i++ {
		small := n > 20 // many parameters: keep each one small-ish, the block still exceeds one record
		var nl, vl int
		if small {
			nl = rapid.IntRange(1, 40).Draw(rt, "nl")
			vl = rapid.IntRange(0, 900).Draw(rt, "vl")
		} else {
			nl = c55DrawLen(rt, "nl", rapid.IntRange(0, 5).Draw(rt, "huge-name") == 0)
			vl = c55DrawLen(rt, "vl", true)
			if nl > 6000 && rapid.IntRange(0, 3).Draw(rt, "tame-name") != 0 {
				nl = nl % 300
			}
		}
		if total+nl+vl > 600000 {
			break
		}
		name := c55Fill(nl, byte(i*31+1), "ABCDEFGHIJKLMNOPQRSTUVWXYZ_0123456789")
		if pre := fmt.Sprintf("P%d_", i); nl > len(pre) {
			name = pre + name[len(pre):]
		}
		if seen[name] {
			continue
		}
		seen[name] = true
		alphabet := ""
		if rapid.Bool().Draw(rt, "binary-value") {
			alphabet = c55Token + " /=&;,."
		}
		c.Params = append(c.Params, c55Pair{name, c55Fill(vl, rapid.Byte().Draw(rt, "vseed"), alphabet)})
		total += nl + vl
	}
	c.body = c55DrawBody(rt)
}

func c55DrawRoundTripCase(rt *rapid.T, c *c55Case) {
	c.Mode = "roundtrip"
	c.expect = map[string]string{}
	c.body = nil
	method := []string{"GET", "POST", "PUT", "DELETE", "PATCH"}[rapid.IntRange(0, 4).Draw(rt, "method")]
	if method == "POST" || method == "PUT" || method == "PATCH" {
		c.body = c55DrawBody(rt)
	}
	nseg := rapid.IntRange(0, 3).Draw(rt, "nseg")
	path := ""
	for i := 0; i < nseg; i++ {
		path += "/" + c55Fill(rapid.IntRange(1, 12).Draw(rt, "seg"), byte(i*5), "abcdefghijklmnopqrstuvwxyz0123456789")
	}
	if path == "" || rapid.Bool().Draw(rt, "php") {
		path += "/index.php"
	}
	query := ""
	switch rapid.IntRange(0, 3).Draw(rt, "query") {
	case 1:
		query = "a=1&b=two"
	case 2:
		query = "q=%20x%2Fy&empty=&k"
	case 3:
		query = "long=" + c55Fill(rapid.IntRange(100, 6000).Draw(rt, "qlen"), 3, c55Token)
	}
	uri := path
	if query != "" {
		uri += "?" + query
	}
	host := []string{"example.org", "example.org:8080", "a.b.example.com", "192.0.2.7:81"}[rapid.IntRange(0, 3).Draw(rt, "host")]
	c.remote = []string{"203.0.113.9:41234", "[2001:db8::7]:5000", "10.0.0.1:1"}[rapid.IntRange(0, 2).Draw(rt, "remote")]
	c.Root = []string{"", "/home/work", "/var/www/html"}[rapid.IntRange(0, 2).Draw(rt, "root")]

	var raw bytes.Buffer
	var head strings.Builder
	fmt.Fprintf(&raw, "%s %s HTTP/1.1\r\nHost: %s\r\n", method, uri, host)
	fmt.Fprintf(&head, "%s %.80s HTTP/1.1 | Host: %s", method, uri, host)
	nh := rapid.IntRange(0, 6).Draw(rt, "nheaders")
	seen := map[string]bool{}
	for i := 0; i < nh; i++ {
		nl := 1
		switch rapid.IntRange(0, 9).Draw(rt, "hname-class") {
		case 0:
			nl = rapid.IntRange(120, 135).Draw(rt, "hname")
		case 1:
			nl = rapid.IntRange(1000, 3000).Draw(rt, "hname")
		case 2:
			if rapid.IntRange(0, 2).Draw(rt, "hname-huge") == 0 {
				nl = rapid.IntRange(65400, 66000).Draw(rt, "hname")
			}
		default:
			nl = rapid.IntRange(1, 20).Draw(rt, "hname")
		}
		name := fmt.Sprintf("X-H%d-", i) + c55Fill(nl, byte(i*17), "abcdefghijklmnopqrstuvwxyz")
		if rapid.IntRange(0, 3).Draw(rt, "dash") == 0 && nl > 4 {
			name = name[:len(name)-3] + "-" + name[len(name)-2:]
		}
		key := strings.ToUpper(strings.Replace(name, "-", "_", -1))
		if seen[key] {
			continue
		}
		seen[key] = true
		vl := c55DrawLen(rt, "hval", true)
		val := c55Fill(vl, rapid.Byte().Draw(rt, "hseed"), c55Token+"=;/.")
		fmt.Fprintf(&raw, "%s: %s\r\n", name, val)
		fmt.Fprintf(&head, " | %.24s(%d): (%d)", name, len(name), vl)
		c.expect["HTTP_"+key] = val
	}
	if c.body != nil {
		fmt.Fprintf(&raw, "Content-Length: %d\r\n", len(c.body))
	}
	raw.WriteString("\r\n")
	raw.Write(c.body)
	c.raw = raw.Bytes()
	c.RawHead = head.String()

	// RFC 3875 meta-variables of this request
	c.expect["GATEWAY_INTERFACE"] = "CGI/1.1"
	c.expect["REQUEST_METHOD"] = method
	c.expect["QUERY_STRING"] = query
	c.expect["REQUEST_URI"] = uri
	c.expect["SERVER_PROTOCOL"] = "HTTP/1.1"
	c.expect["CONTENT_LENGTH"] = strconv.Itoa(len(c.body))
	c.expect["HTTP_HOST"] = host
	if h, p, err := net.SplitHostPort(host); err == nil {
		c.expect["SERVER_NAME"], c.expect["SERVER_PORT"] = h, p
	} else {
		c.expect["SERVER_NAME"] = host
	}
	rh, rp, _ := net.SplitHostPort(c.remote)
	c.expect["REMOTE_ADDR"], c.expect["REMOTE_PORT"] = rh, rp
	c.expect["DOCUMENT_ROOT"] = c.Root
	c.expect["SCRIPT_NAME"] = path
	c.expect["SCRIPT_FILENAME"] = c.Root + path
	ne := rapid.IntRange(0, 3).Draw(rt, "nenv")
	for i := 0; i < ne; i++ {
		k := fmt.Sprintf("VERIF_ENV_%d", i)
		if rapid.IntRange(0, 4).Draw(rt, "env-mixed-case") == 0 {
			k = fmt.Sprintf("VarKey%d", i) // the spelling of docs/.../cluster_conf.data.md
		}
		v := c55Fill(rapid.IntRange(0, 40).Draw(rt, "envv"), byte(i), c55Token)
		c.EnvVars = append(c.EnvVars, [2]string{k, v})
	}
}

// ------------------------------------------------------------ run + oracle

type c55Obs struct {
	panicked any
	err      error
	raw      []byte // mode do: everything the reader returned
	resp     *bfe_http.Response
	respBody []byte
	bodyErr  error
}

func c55Hash(b []byte) uint64 {
	h := fnv.New64a()
	h.Write(b)
	return h.Sum64()
}

func c55Check(tb ev.TB, rec *ev.Rec, c *c55Case) {
	srv, err := c55GetResponder()
	if err != nil {
		rec.Excluded("no-loopback-listener")
		return
	}
	// evidence
	maxN, maxV, block := 0, 0, 0
	for _, p := range c.Params {
		c.ParamDesc = append(c.ParamDesc, [2]int{len(p.K), len(p.V)})
	}
	sizes := c.Params
	if c.Mode == "roundtrip" {
		sizes = nil
		for k, v := range c.expect {
			sizes = append(sizes, c55Pair{k, v})
		}
	}
	for _, p := range sizes {
		if len(p.K) > maxN {
			maxN = len(p.K)
		}
		if len(p.V) > maxV {
			maxV = len(p.V)
		}
		block += len(p.K) + len(p.V) + 2
	}
	c.BodyLen = len(c.body)
	nt := maxN >= 128 || maxV >= 128 || block > 65535 || c.HasStderr
	classes := []string{"mode:" + c.Mode}
	if maxN >= 128 || maxV >= 128 {
		classes = append(classes, "len4-form")
	}
	if block > 65535 {
		classes = append(classes, "param-block>65535")
	}
	if maxN+maxV+8 > 65500 {
		classes = append(classes, "pair>65500")
	}
	if maxN > 65492 {
		classes = append(classes, "name>65492")
	}
	if c.HasStderr {
		classes = append(classes, "stderr")
		if c.StderrBeforeBody {
			classes = append(classes, "stderr-before-header-end")
		}
	}
	if len(c.body) > 65500 {
		classes = append(classes, "body>65500")
	} else if len(c.body) > 0 {
		classes = append(classes, "body")
	}
	if len(c.stdout) > 65535 {
		classes = append(classes, "stdout>65535")
	}
	fpb := &bytes.Buffer{}
	if len(c.body) > 0 {
		classes = append(classes, "body-reader:"+c.BodyStyle)
	}
	if block >= 65000 && block <= 67100 {
		classes = append(classes, "param-block-near-64k")
	}
	fmt.Fprintf(fpb, "%s|%s|%x|%x|%v|%v|%s", c.Mode, c.BodyStyle, c55Hash(c.body), c55Hash(c.raw), c.Script, c.EnvVars, c.Root)
	ps := append([]c55Pair{}, c.Params...)
	sort.Slice(ps, func(i, j int) bool { return ps[i].K < ps[j].K })
	for _, p := range ps {
		fmt.Fprintf(fpb, "|%d:%x=%d:%x", len(p.K), c55Hash([]byte(p.K)), len(p.V), c55Hash([]byte(p.V)))
	}
	rec.Case(fpb.String(), nt, classes...)
	rec.Sample(c)

	ex := &c55Exchange{script: c.script, done: make(chan struct{})}
	srv.mu.Lock()
	srv.cur = ex
	srv.mu.Unlock()
	defer func() {
		srv.mu.Lock()
		if srv.cur == ex {
			srv.cur = nil
		}
		srv.mu.Unlock()
	}()
	addr := srv.ln.Addr().String()

	var o c55Obs
	var sent map[string]string
	switch c.Mode {
	case "do":
		sent = map[string]string{}
		for _, p := range c.Params {
			sent[p.K] = p.V
		}
		client, err := bfe_fcgi.Dial("tcp", addr)
		if err != nil {
			rec.Excluded("dial-failed")
			return
		}
		o.panicked = ev.Try(func() {
			var body io.Reader = bytes.NewReader(c.body)
			if br := c55NewBodyReader(c.BodyStyle, c.body); br != nil {
				body = br
			}
			r, err := client.Do(sent, body)
			if err != nil {
				o.err = err
				return
			}
			o.raw, o.bodyErr = io.ReadAll(r)
		})
		client.Close()
	default:
		o.panicked = ev.Try(func() {
			req, err := bfe_http.ReadRequest(bfe_bufio.NewReader(bytes.NewReader(c.raw)), 1<<20)
			if err != nil {
				o.err = fmt.Errorf("harness: ReadRequest: %v", err)
				return
			}
			req.RemoteAddr = c.remote
			// bfe_server/reverseproxy.go: outreq := copy of req; httpProtoSet; setBackendAddr
			outreq := new(bfe_http.Request)
			*outreq = *req
			outreq.Proto, outreq.ProtoMajor, outreq.ProtoMinor, outreq.Close = "HTTP/1.1", 1, 1, false
			outreq.URL.Scheme = "http"
			outreq.URL.Host = addr
			env := map[string]string{}
			for _, kv := range c.EnvVars {
				env[kv[0]] = kv[1]
			}
			if br := c55NewBodyReader(c.BodyStyle, c.body); br != nil && len(c.body) > 0 {
				outreq.Body = br // a body produced by another layer (h2/spdy stream, a module)
			}
			tr := &bfe_fcgi.Transport{Root: c.Root, EnvVars: env} // createTransport, case "fcgi"
			resp, err := tr.RoundTrip(outreq)
			if err != nil {
				o.err = err
				return
			}
			o.resp = resp
			o.respBody, o.bodyErr = io.ReadAll(resp.Body)
		})
	}
	// the transport never closes its connection: release the responder
	closeSrvConn := func() {
		deadline := time.Now().Add(3 * time.Second)
		for time.Now().Before(deadline) {
			ex.mu.Lock()
			cn := ex.conn
			ex.mu.Unlock()
			if cn != nil {
				cn.Close()
				return
			}
			time.Sleep(2 * time.Millisecond)
		}
	}
	if o.panicked != nil || o.err != nil {
		closeSrvConn()
	}
	select {
	case <-ex.done:
	case <-time.After(100 * time.Second):
		closeSrvConn()
		rec.Excluded("watchdog")
		return
	}
	if o.err != nil && strings.HasPrefix(o.err.Error(), "harness:") {
		tb.Fatalf("HARNESS BUG: %v", o.err)
	}

	w := c
	// ---- no crash
	if o.panicked != nil {
		key := "panic"
		if maxN > 65492 {
			key = "param-name>65492.panic"
		}
		if !c55Fail(rec, tb, key, w, "bfe_fcgi panicked (longest name %d B, longest value %d B): %v", maxN, maxV, o.panicked) {
			rec.Excluded("known-finding:" + key)
		}
		return
	}

	// ---- request side: decode what the responder received
	ex.mu.Lock()
	recs, rerr := ex.records, ex.readErr
	ex.mu.Unlock()
	var nerr net.Error
	if rerr != nil && errors.As(rerr, &nerr) && nerr.Timeout() {
		rec.Excluded("watchdog")
		return
	}
	if rerr != nil {
		if !c55Fail(rec, tb, "request-undecodable", w, "responder could not read a complete request: %v (after %d records); client error: %v", rerr, len(recs), o.err) {
			rec.Excluded("known-finding:request-undecodable")
		}
		return
	}
	var paramStream, stdin []byte
	state := 0 // 0 expect BEGIN, then PARAMS*, then STDIN*
	paramsClosed, stdinClosed := false, false
	for i, r := range recs {
		if r.Version != 1 {
			c55Fail(rec, tb, "record-version", w, "record %d has version %d", i, r.Version)
			return
		}
		if r.ID == 0 || (i > 0 && r.ID != recs[0].ID) {
			c55Fail(rec, tb, "record-request-id", w, "record %d has request id %d (first record %d)", i, r.ID, recs[0].ID)
			return
		}
		switch {
		case i == 0:
			if r.Type != c55BeginRequest || len(r.Content) != 8 {
				c55Fail(rec, tb, "begin-request", w, "first record has type %d and %d content bytes", r.Type, len(r.Content))
				return
			}
			if role := binary.BigEndian.Uint16(r.Content[0:2]); role != 1 {
				c55Fail(rec, tb, "begin-request", w, "role %d, want FCGI_RESPONDER", role)
				return
			}
			state = 1
		case r.Type == c55Params && state == 1 && !paramsClosed:
			if len(r.Content) == 0 {
				paramsClosed = true
			}
			paramStream = append(paramStream, r.Content...)
		case r.Type == c55Stdin && paramsClosed && !stdinClosed:
			if len(r.Content) == 0 {
				stdinClosed = true
			}
			stdin = append(stdin, r.Content...)
		default:
			c55Fail(rec, tb, "record-order", w, "record %d of type %d (%d bytes) is out of order (params closed %v, stdin closed %v)", i, r.Type, len(r.Content), paramsClosed, stdinClosed)
			return
		}
	}
	pairs, perr := c55DecodePairs(paramStream)
	if perr != nil {
		c55Fail(rec, tb, "params-undecodable", w, "FCGI_PARAMS stream of %d bytes does not decode: %v", len(paramStream), perr)
		return
	}
	got := map[string]string{}
	for _, p := range pairs {
		if _, dup := got[p.K]; dup {
			c55Fail(rec, tb, "param-duplicate", w, "parameter %.40q sent twice", p.K)
			return
		}
		got[p.K] = p.V
	}
	checkPair := func(k, want string) bool {
		gv, ok := got[k]
		if ok && gv == want {
			return true
		}
		key := "param-mismatch"
		switch {
		case ok && len(gv) < len(want) && strings.HasPrefix(want, gv) && 8+len(k)+len(want) > 65500:
			key = "param-value-truncated"
		case !ok && c.Mode == "roundtrip" && strings.HasPrefix(k, "VarKey"):
			if _, up := got[strings.ToUpper(k)]; up {
				key = "envvar-name-uppercased"
			}
		}
		if !c55Fail(rec, tb, key, w, "parameter %.40q (%d B): sent value of %d B, responder decoded present=%v %d B", k, len(k), len(want), ok, len(gv)) {
			rec.Excluded("known-finding:" + key)
		}
		return false
	}
	if c.Mode == "do" {
		names := make([]string, 0, len(sent))
		for k := range sent {
			names = append(names, k)
		}
		sort.Strings(names)
		for _, k := range names {
			if !checkPair(k, sent[k]) {
				return
			}
		}
		if len(got) != len(sent) {
			c55Fail(rec, tb, "param-extra", w, "%d parameters decoded, %d sent", len(got), len(sent))
			return
		}
	} else {
		names := make([]string, 0, len(c.expect))
		for k := range c.expect {
			names = append(names, k)
		}
		sort.Strings(names)
		for _, k := range names {
			if !checkPair(k, c.expect[k]) {
				return
			}
		}
		for _, kv := range c.EnvVars {
			if !checkPair(kv[0], kv[1]) {
				return
			}
		}
	}
	if !bytes.Equal(stdin, c.body) {
		c55Fail(rec, tb, "stdin-mismatch", w, "FCGI_STDIN decodes to %d bytes, request body has %d", len(stdin), len(c.body))
		return
	}

	// ---- response side
	fail := func(kind, format string, args ...any) {
		key := "response-" + kind
		if c.HasStderr {
			key = "stderr-mixed-into-response"
		}
		if !c55Fail(rec, tb, key, w, format, args...) {
			rec.Excluded("known-finding:" + key)
		}
	}
	if c.Mode == "do" {
		if o.err != nil {
			fail("error", "Do failed: %v", o.err)
			return
		}
		if !bytes.Equal(o.raw, c.stdout) {
			fail("stream", "reader returned %d bytes, FCGI_STDOUT carried %d (stderr records: %v)", len(o.raw), len(c.stdout), c.HasStderr)
		}
		return
	}
	if o.err != nil {
		fail("error", "RoundTrip failed: %v", o.err)
		return
	}
	if o.resp.StatusCode != c.Status {
		fail("status", "status %d, application said %d", o.resp.StatusCode, c.Status)
		return
	}
	for _, h := range c.hdrs {
		if h[0] == "Status" {
			continue
		}
		if gotv := o.resp.Header.Get(h[0]); gotv != h[1] {
			fail("header", "response header %s = %.60q, application sent %.60q", h[0], gotv, h[1])
			return
		}
	}
	if len(o.resp.Header) > len(c.hdrs) {
		fail("header", "response has %d header fields, application sent %d", len(o.resp.Header), len(c.hdrs))
		return
	}
	if !bytes.Equal(o.respBody, c.respBody) {
		fail("body", "response body has %d bytes, application's STDOUT body has %d", len(o.respBody), len(c.respBody))
	}
}

func TestC55(t *testing.T) {
	rec := ev.New("C55", "mode do: parameter maps (0..200 pairs, names/values 0..70000 B incl. 127/128 and 65500 boundaries) + bodies 0..200 KB through Dial+Do; mode roundtrip: HTTP/1.1 requests parsed by bfe_http.ReadRequest (headers with long names/values, query, body) through Transport.RoundTrip with Root/EnvVars; responder script: CGI response cut into STDOUT records with generated sizes/padding interleaved with STDERR records, END_REQUEST. non-trivial: a name/value >= 128 B, parameter block > 65535 B, or STDERR present; distinct by (mode, params, body, request, script)")
	if _, err := c55GetResponder(); err != nil {
		t.Skipf("no loopback listener: %v", err)
	}
	// record size limit of the decoder side: a record the client sends can never
	// exceed 65535 content bytes by construction of the header; what matters is
	// that streams are split so that the concatenation is right (checked above).
	rapid.Check(t, func(rt *rapid.T) {
		c := &c55Case{}
		if rapid.IntRange(0, 2).Draw(rt, "mode") == 0 {
			c55DrawRoundTripCase(rt, c)
		} else {
			c55DrawDoCase(rt, c)
		}
		c.BodyStyle = c55BodyStyles[rapid.IntRange(0, len(c55BodyStyles)-1).Draw(rt, "body-reader")]
		c55DrawScript(rt, c)
		c55Check(rt, rec, c)
	})
}

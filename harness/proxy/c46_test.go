package proxy

import (
	"bytes"
	"encoding/binary"
	"encoding/hex"
	"fmt"
	"io"
	"net"
	"net/netip"
	"strconv"
	"strings"
	"testing"
	"time"

	"github.com/bfenetworks/bfe/bfe_proxy"
	"pgregory.net/rapid"

	"verif/harness/internal/ev"
)

// C46: PROXY protocol headers are parsed per specification.
//
// Generator: the independent writer of c46_ref_test.go (v1 TCP4/TCP6/UNKNOWN
// short+long, v2 PROXY/LOCAL x UNSPEC/TCP4/TCP6/UDP/UNIX with TLVs), hand-made
// malformed variants, byte-level mutations of valid headers and header-less
// streams; every stream is classified by the strict reference classifier
// (c46Classify) which yields the expectation. The stream is handed to
// bfe_proxy.NewConn (as bfe_server.BfeListener.Accept does) over an in-memory
// net.Conn that delivers it in generated pieces and then EOF.

// ------------------------------------------------------------ in-memory conn

type c46Conn struct {
	data   []byte
	off    int
	pieces []int // delivery sizes, then tail
	tail   int
	pi     int
	closed bool
	local  *net.TCPAddr
	remote *net.TCPAddr
}

func (c *c46Conn) Read(b []byte) (int, error) {
	if c.closed {
		return 0, net.ErrClosed
	}
	if len(b) == 0 {
		return 0, nil
	}
	if c.off >= len(c.data) {
		return 0, io.EOF
	}
	sz := c.tail
	if c.pi < len(c.pieces) {
		sz = c.pieces[c.pi]
		c.pi++
	}
	if sz > len(b) {
		sz = len(b)
	}
	if sz > len(c.data)-c.off {
		sz = len(c.data) - c.off
	}
	copy(b, c.data[c.off:c.off+sz])
	c.off += sz
	return sz, nil
}
func (c *c46Conn) Write(b []byte) (int, error)        { return len(b), nil }
func (c *c46Conn) Close() error                       { c.closed = true; return nil }
func (c *c46Conn) LocalAddr() net.Addr                { return c.local }
func (c *c46Conn) RemoteAddr() net.Addr               { return c.remote }
func (c *c46Conn) SetDeadline(t time.Time) error      { return nil }
func (c *c46Conn) SetReadDeadline(t time.Time) error  { return nil }
func (c *c46Conn) SetWriteDeadline(t time.Time) error { return nil }

// ------------------------------------------------------------ case + run

type c46Case struct {
	Gen       string `json:"gen"`
	StreamHex string `json:"stream_hex"`
	HdrLenGen int    `json:"hdr_len_gen"` // length of the generated header part (before mutation)
	Pieces    []int  `json:"pieces"`
	Tail      int    `json:"tail"`
	Limit     int64  `json:"limit"`
	AddrFirst bool   `json:"addr_first"`
	ReadSizes []int  `json:"read_sizes"`
	TLVBytes  int    `json:"tlv_bytes"`
	Mut       string `json:"mut,omitempty"`
	stream    []byte
}

type c46Obs struct {
	data                      []byte
	err                       error
	remote, virt              net.Addr
	sockRemote, sockLocal     *net.TCPAddr
	closed                    bool
	panicked                  any
	deliveredBoundaryInHeader bool
}

var (
	c46SockRemote = &net.TCPAddr{IP: net.IPv4(10, 9, 8, 7), Port: 34567}
	c46SockLocal  = &net.TCPAddr{IP: net.IPv4(10, 1, 2, 3), Port: 8443}
)

// c46Live is one open connection under test: opened the way BfeListener.Accept
// does, read step by step, and finally closed by its owner (bfe_server always
// closes a connection, also after bfe_proxy closed it itself on a bad header).
type c46Live struct {
	c    *c46Case
	mem  *c46Conn
	pc   *bfe_proxy.Conn
	obs  c46Obs
	out  []byte
	i    int
	zero int
	done bool
}

func c46Open(c *c46Case) *c46Live {
	l := &c46Live{c: c}
	l.mem = &c46Conn{data: c.stream, pieces: c.Pieces, tail: c.Tail, local: c46SockLocal, remote: c46SockRemote}
	l.obs = c46Obs{sockRemote: c46SockRemote, sockLocal: c46SockLocal}
	l.try(func() { l.pc = bfe_proxy.NewConn(l.mem, 60*time.Second, c.Limit) })
	return l
}

func (l *c46Live) try(f func()) {
	if l.obs.panicked != nil {
		l.done = true
		return
	}
	if p := ev.Try(f); p != nil {
		l.obs.panicked = p
		l.done = true
	}
}

// addrs asks for the addresses (bfe_server does so right after Accept).
func (l *c46Live) addrs() {
	l.try(func() {
		l.obs.remote = l.pc.RemoteAddr()
		l.obs.virt = l.pc.VirtualAddr()
	})
}

// step performs one Read; false when the connection has ended.
func (l *c46Live) step() bool {
	if l.done {
		return false
	}
	l.try(func() {
		sz := l.c.ReadSizes[l.i%len(l.c.ReadSizes)]
		l.i++
		buf := make([]byte, sz)
		n, err := l.pc.Read(buf)
		l.out = append(l.out, buf[:n]...)
		if err != nil {
			l.obs.err = err
			l.done = true
			return
		}
		if n == 0 {
			l.zero++
			if l.zero > 1000 {
				l.obs.err = fmt.Errorf("harness: 1000 empty reads")
				l.done = true
			}
		}
	})
	return !l.done
}

// finish: late address query and the owner's Close.
func (l *c46Live) finish() c46Obs {
	l.obs.data = l.out
	if !l.c.AddrFirst {
		l.addrs()
	}
	l.obs.closed = l.mem.closed
	if l.pc != nil {
		if p := ev.Try(func() { l.pc.Close() }); p != nil && l.obs.panicked == nil {
			l.obs.panicked = p
		}
	}
	return l.obs
}

func c46Run(c *c46Case) c46Obs {
	l := c46Open(c)
	if c.AddrFirst {
		l.addrs()
	}
	for l.step() {
	}
	return l.finish()
}

func c46AddrEq(a net.Addr, want netip.AddrPort) bool {
	if a == nil {
		return false
	}
	ta, ok := a.(*net.TCPAddr)
	if !ok || ta == nil {
		return false
	}
	ip, ok := netip.AddrFromSlice(ta.IP)
	if !ok {
		return false
	}
	return ip.Unmap() == want.Addr().Unmap() && ta.Port == int(want.Port()) && ta.Zone == ""
}

func c46IsNilAddr(a net.Addr) bool {
	if a == nil {
		return true
	}
	if ta, ok := a.(*net.TCPAddr); ok && ta == nil {
		return true
	}
	return false
}

// evalPass returns "" when the observation is "header consumed (hdrLen bytes),
// rest delivered unchanged, addresses as wanted", else the discrepancy kind.
func c46EvalPass(o *c46Obs, want []byte, adv bool, v *c46Verdict) (kind, msg string) {
	if o.err != io.EOF {
		return "closed", fmt.Sprintf("connection ended with %v after %d of %d payload bytes", o.err, len(o.data), len(want))
	}
	if !bytes.Equal(o.data, want) {
		i := 0
		for i < len(o.data) && i < len(want) && o.data[i] == want[i] {
			i++
		}
		return "data", fmt.Sprintf("payload differs at offset %d: got %d bytes, want %d bytes", i, len(o.data), len(want))
	}
	if adv {
		if !c46AddrEq(o.remote, v.Src) {
			return "addr", fmt.Sprintf("RemoteAddr=%v want %v", o.remote, v.Src)
		}
		if !c46AddrEq(o.virt, v.Dst) {
			return "addr", fmt.Sprintf("VirtualAddr=%v want %v", o.virt, v.Dst)
		}
		return "", ""
	}
	if c46IsNilAddr(o.remote) || o.remote.String() != o.sockRemote.String() {
		return "addr", fmt.Sprintf("RemoteAddr=%v want socket peer %v", o.remote, o.sockRemote)
	}
	if !c46IsNilAddr(o.virt) && o.virt.String() != o.sockLocal.String() {
		return "addr", fmt.Sprintf("VirtualAddr=%v want nil or socket local %v", o.virt, o.sockLocal)
	}
	return "", ""
}

func c46EvalReject(o *c46Obs) (kind, msg string) {
	if len(o.data) > 0 {
		return "data-delivered", fmt.Sprintf("%d bytes delivered to the application (then %v)", len(o.data), o.err)
	}
	return "", ""
}

// c46Record classifies the case and records it as evidence.
func c46Record(rec *ev.Rec, c *c46Case, extra ...string) c46Verdict {
	eff := c.Limit
	if eff <= 0 {
		eff = 2048
	}
	v := c46Classify(c.stream, int(eff))
	// delivery boundary strictly inside the header?
	split := false
	hl := v.HdrLen
	if hl == 0 {
		hl = c.HdrLenGen
	}
	pos := 0
	for _, p := range c.Pieces {
		pos += p
		if pos > 0 && pos < hl {
			split = true
		}
	}
	if c.Tail < hl-pos {
		split = true
	}
	nt := split || c.TLVBytes > 0 || strings.HasPrefix(v.Class, "v2-local") || strings.HasPrefix(v.Class, "v1-unknown")
	classes := []string{"gen:" + c.Gen, "class:" + v.Class, "mode:" + c46ModeName[v.Mode]}
	if split {
		classes = append(classes, "split-in-header")
	}
	if c.TLVBytes > 0 {
		classes = append(classes, "tlv")
	}
	if c.Mut != "" {
		classes = append(classes, "mutated")
	}
	if v.Mapped {
		classes = append(classes, "v4mapped")
	}
	if c.AddrFirst {
		classes = append(classes, "addr-first")
	}
	classes = append(classes, extra...)
	rec.Case(fmt.Sprintf("%s|%v|%d|%d|%v|%v", c.StreamHex, c.Pieces, c.Tail, c.Limit, c.AddrFirst, c.ReadSizes), nt, classes...)
	rec.Sample(map[string]any{"gen": c.Gen, "class": v.Class, "mode": c46ModeName[v.Mode], "stream_len": len(c.stream),
		"hdr_len": v.HdrLen, "head_hex": hex.EncodeToString(c.stream[:min(len(c.stream), 48)]), "pieces": c.Pieces, "limit": c.Limit, "mut": c.Mut})

	return v
}

// c46Eval compares one observation with the expectation; kind == "" means ok.
func c46Eval(rec *ev.Rec, c *c46Case, v *c46Verdict, o *c46Obs) (keyClass, kind, msg string) {
	keyClass = v.Class
	if v.Mapped && v.Mode == c46Advertised {
		keyClass += "-v4mapped"
	}
	if o.panicked != nil {
		return keyClass, "panic", fmt.Sprintf("panic in bfe_proxy: %v", o.panicked)
	}
	switch v.Mode {
	case c46NoHeader:
		kind, msg = c46EvalPass(o, c.stream, false, v)
	case c46Advertised:
		kind, msg = c46EvalPass(o, c.stream[v.HdrLen:], true, v)
	case c46Socket:
		kind, msg = c46EvalPass(o, c.stream[v.HdrLen:], false, v)
	case c46Reject:
		kind, msg = c46EvalReject(o)
	case c46SocketOrReject, c46AdvSocketOrReject:
		kind, msg = c46EvalPass(o, c.stream[v.HdrLen:], false, v)
		if kind != "" {
			if k2, _ := c46EvalReject(o); k2 == "" {
				kind = ""
			}
		}
		if kind != "" && v.Mode == c46AdvSocketOrReject {
			if k3, _ := c46EvalPass(o, c.stream[v.HdrLen:], true, v); k3 == "" {
				kind = ""
			}
		}
		if kind != "" {
			kind, msg = "half-open", "neither accepted (payload intact) nor rejected (no data): "+msg
		}
	case c46DontCare:
		rec.Excluded("spec-has-no-firm-opinion")
		// invariant only: bfe never invents bytes
		if len(o.data) > 0 && !bytes.Contains(c.stream, o.data) {
			kind, msg = "invented-bytes", "delivered data is not a contiguous part of the stream"
		}
	}
	return keyClass, kind, msg
}

// c46Report turns a discrepancy into a (known) finding.
func c46Report(tb ev.TB, rec *ev.Rec, c *c46Case, v *c46Verdict, key, msg string, witness any) {
	if surveyHit("C46", key, msg+" head="+strconv.Quote(string(c.stream[:min(len(c.stream), 60)]))) {
		return
	}
	if !rec.Fail(tb, key, witness, "%s (%s, expectation %s): %s; head=%q",
		key, c.Gen, c46ModeName[v.Mode], msg, string(c.stream[:min(len(c.stream), 60)])) {
		rec.Excluded("known-finding:" + key)
	}
}

func c46Check(tb ev.TB, rec *ev.Rec, c *c46Case) {
	v := c46Record(rec, c)
	o := c46Run(c)
	if keyClass, kind, msg := c46Eval(rec, c, &v, &o); kind != "" {
		c46Report(tb, rec, c, &v, keyClass+"."+kind, msg, c)
	}
}

// c46Scenario: connections are not independent objects for the process that
// serves them -- `History` connections are served and closed one after the
// other, then the `Group` connections are open AT THE SAME TIME (all accepted,
// then read in the interleaving `Schedule`), as on a busy listener. Every
// connection must still report its own addresses and deliver its own bytes.
type c46Scenario struct {
	History  []*c46Case `json:"history"`
	Group    []*c46Case `json:"group"`
	Schedule []int      `json:"schedule"` // index of the connection that does the next Read (cyclic)
}

func c46CheckScenario(tb ev.TB, rec *ev.Rec, sc *c46Scenario) {
	for _, h := range sc.History {
		v := c46Record(rec, h, "scenario-history")
		o := c46Run(h)
		if keyClass, kind, msg := c46Eval(rec, h, &v, &o); kind != "" {
			c46Report(tb, rec, h, &v, keyClass+"."+kind, msg, sc)
			return
		}
	}
	tag := fmt.Sprintf("concurrent-%d", len(sc.Group))
	vs := make([]c46Verdict, len(sc.Group))
	lives := make([]*c46Live, len(sc.Group))
	for i, c := range sc.Group {
		vs[i] = c46Record(rec, c, "scenario-"+tag)
	}
	for i, c := range sc.Group { // all accepted before any is served
		lives[i] = c46Open(c)
	}
	for i, c := range sc.Group {
		if c.AddrFirst {
			lives[i].addrs()
		}
	}
	open := len(lives)
	for k := 0; open > 0; k++ {
		i := k % len(lives)
		if len(sc.Schedule) > 0 {
			i = sc.Schedule[k%len(sc.Schedule)] % len(lives)
		}
		if lives[i].done {
			// the scheduled one has ended: serve the next open one instead
			for j := range lives {
				if !lives[j].done {
					i = j
					break
				}
			}
		}
		if !lives[i].step() {
			open--
		}
	}
	obs := make([]c46Obs, len(lives))
	for i := range lives {
		obs[i] = lives[i].finish()
	}
	for i, c := range sc.Group {
		keyClass, kind, msg := c46Eval(rec, c, &vs[i], &obs[i])
		if kind == "" {
			continue
		}
		// the same connection served alone: if that is fine, the discrepancy is
		// caused by the other connections (state shared between connections)
		alone := c46Run(c)
		if _, k2, _ := c46Eval(rec, c, &vs[i], &alone); k2 == "" {
			c46Report(tb, rec, c, &vs[i], "cross-connection."+kind,
				fmt.Sprintf("connection %d of %d simultaneously open ones (after %d earlier connections) misbehaves, alone it is served correctly: %s",
					i+1, len(sc.Group), len(sc.History), msg), sc)
			return
		}
		c46Report(tb, rec, c, &vs[i], keyClass+"."+kind, msg, sc)
		return
	}
}

// ------------------------------------------------------------ generators

func c46DrawV4(rt *rapid.T, label string) [4]byte {
	var a [4]byte
	switch rapid.IntRange(0, 5).Draw(rt, label+"-shape") {
	case 0:
		a = [4]byte{255, 255, 255, 255}
	case 1:
		a = [4]byte{0, 0, 0, 0}
	case 2:
		a = [4]byte{127, 0, 0, 1}
	default:
		for i := range a {
			a[i] = rapid.Byte().Draw(rt, label)
		}
	}
	return a
}

func c46DrawV6(rt *rapid.T, label string) [16]byte {
	var a [16]byte
	shape := rapid.IntRange(0, 7).Draw(rt, label+"-shape")
	switch shape {
	case 0:
		for i := range a {
			a[i] = 0xff
		}
	case 1: // ::1
		a[15] = 1
	case 2: // IPv4-mapped (dual-stack listener of the sender)
		a[10], a[11] = 0xff, 0xff
		v4 := c46DrawV4(rt, label+"-v4")
		copy(a[12:], v4[:])
	case 3: // zero run in the middle
		a[0], a[1] = 0x20, 0x01
		a[2], a[3] = 0x0d, 0xb8
		a[14], a[15] = rapid.Byte().Draw(rt, label), rapid.Byte().Draw(rt, label)
	default:
		for i := range a {
			a[i] = rapid.Byte().Draw(rt, label)
		}
		if shape == 4 { // a few zero groups
			z := rapid.IntRange(0, 6).Draw(rt, label+"-z")
			a[2*z], a[2*z+1], a[2*z+2], a[2*z+3] = 0, 0, 0, 0
		}
	}
	return a
}

func c46DrawPort(rt *rapid.T, label string) uint16 {
	switch rapid.IntRange(0, 4).Draw(rt, label+"-shape") {
	case 0:
		return 65535
	case 1:
		return 0
	case 2:
		return uint16(rapid.IntRange(1, 9).Draw(rt, label))
	}
	return uint16(rapid.IntRange(0, 65535).Draw(rt, label))
}

var c46TLVTypes = []byte{0x01, 0x02, 0x04, 0x05, 0x20, 0x30, 0xE0, 0xEE}

// c46DrawTLVs returns well-formed TLVs of at most max bytes in total.
func c46DrawTLVs(rt *rapid.T, max int) []byte {
	var out []byte
	n := rapid.IntRange(0, 4).Draw(rt, "ntlv")
	for i := 0; i < n; i++ {
		room := max - len(out) - 3
		if room < 0 {
			break
		}
		l := 0
		switch rapid.IntRange(0, 3).Draw(rt, "tlvsize") {
		case 0:
			l = 0
		case 1:
			l = rapid.IntRange(0, 16).Draw(rt, "tlvlen")
		case 2:
			l = rapid.IntRange(0, 300).Draw(rt, "tlvlen")
		case 3:
			l = room // NOOP padding up to the allowed size
		}
		if l > room {
			l = room
		}
		typ := c46TLVTypes[rapid.IntRange(0, len(c46TLVTypes)-1).Draw(rt, "tlvtype")]
		val := make([]byte, l)
		fill := rapid.Byte().Draw(rt, "tlvfill")
		for j := range val {
			val[j] = fill + byte(j)
		}
		out = append(out, c46TLV(typ, val)...)
	}
	return out
}

func c46DrawPayload(rt *rapid.T, minLen int) []byte {
	var p []byte
	switch rapid.IntRange(0, 6).Draw(rt, "payload-kind") {
	case 0:
		p = []byte("GET /index.html HTTP/1.1\r\nHost: example.org\r\n\r\n")
	case 1: // payload that itself looks like a PROXY header: must not be parsed again
		p = []byte("PROXY TCP4 6.6.6.6 7.7.7.7 666 777\r\nGET / HTTP/1.0\r\n\r\n")
	case 2:
		p = append(append([]byte{}, c46SigV2...), 0x21, 0x11, 0x00, 0x0c, 6, 6, 6, 6, 7, 7, 7, 7, 2, 154, 3, 9, 'x')
	case 3:
		p = []byte{0x16, 0x03, 0x01, 0x00, 0x05, 1, 2, 3, 4, 5}
	default:
		p = rapid.SliceOfN(rapid.Byte(), 0, 24).Draw(rt, "payload-head")
	}
	extra := 0
	switch rapid.IntRange(0, 5).Draw(rt, "payload-size") {
	case 0, 1:
	case 2, 3:
		extra = rapid.IntRange(0, 200).Draw(rt, "payload-extra")
	case 4:
		extra = rapid.IntRange(200, 5000).Draw(rt, "payload-extra")
	case 5:
		extra = rapid.IntRange(4000, 9000).Draw(rt, "payload-extra")
	}
	seed := rapid.Byte().Draw(rt, "payload-seed")
	for i := 0; i < extra; i++ {
		p = append(p, seed+byte(i*7))
	}
	for len(p) < minLen {
		p = append(p, 'z')
	}
	return p
}

var c46Limits = []int64{0, 0, 2048, 512, 1024, 4096, 256}

// c46DrawHeader returns a spec-conformant header of the drawn kind.
func c46DrawHeader(rt *rapid.T, kind int, limit int) (gen string, hdr []byte, tlvBytes int) {
	maxTLV := func(base int) int {
		m := limit
		if m > 1500 { // "this block is always smaller than an MSS"
			m = 1500
		}
		return m - 16 - base
	}
	switch kind {
	case 0:
		return "v1-tcp4", c46WriteV1("TCP4", c46V4Text(c46DrawV4(rt, "src")), c46V4Text(c46DrawV4(rt, "dst")),
			c46DrawPort(rt, "sport"), c46DrawPort(rt, "dport")), 0
	case 1:
		form := rapid.IntRange(0, 2).Draw(rt, "v6form")
		return "v1-tcp6", c46WriteV1("TCP6", c46V6Text(c46DrawV6(rt, "src"), form), c46V6Text(c46DrawV6(rt, "dst"), form),
			c46DrawPort(rt, "sport"), c46DrawPort(rt, "dport")), 0
	case 2:
		switch rapid.IntRange(0, 3).Draw(rt, "unknown-form") {
		case 0:
			return "v1-unknown-short", []byte("PROXY UNKNOWN\r\n"), 0
		case 1: // the worst case of section 2.1
			return "v1-unknown-long", []byte("PROXY UNKNOWN ffff:ffff:ffff:ffff:ffff:ffff:ffff:ffff ffff:ffff:ffff:ffff:ffff:ffff:ffff:ffff 65535 65535\r\n"), 0
		case 2:
			form := rapid.IntRange(0, 2).Draw(rt, "v6form")
			return "v1-unknown-long", []byte("PROXY UNKNOWN " + c46V6Text(c46DrawV6(rt, "src"), form) + " " + c46V4Text(c46DrawV4(rt, "dst")) +
				" " + strconv.Itoa(int(c46DrawPort(rt, "sport"))) + " " + strconv.Itoa(int(c46DrawPort(rt, "dport"))) + "\r\n"), 0
		default:
			filler := rapid.StringOfN(rapid.RuneFrom([]rune("abcXYZ019 .:-_/")), 0, 90, -1).Draw(rt, "unknown-filler")
			return "v1-unknown-long", []byte("PROXY UNKNOWN " + filler + "\r\n"), 0
		}
	case 3:
		tl := c46DrawTLVs(rt, maxTLV(12))
		return "v2-tcp4", c46WriteV2(0x21, 0x11, c46Addr4Block(c46DrawV4(rt, "src"), c46DrawV4(rt, "dst"), c46DrawPort(rt, "sport"), c46DrawPort(rt, "dport")), tl), len(tl)
	case 4:
		tl := c46DrawTLVs(rt, maxTLV(36))
		return "v2-tcp6", c46WriteV2(0x21, 0x21, c46Addr6Block(c46DrawV6(rt, "src"), c46DrawV6(rt, "dst"), c46DrawPort(rt, "sport"), c46DrawPort(rt, "dport")), tl), len(tl)
	case 5:
		switch rapid.IntRange(0, 3).Draw(rt, "local-form") {
		case 0: // what haproxy sends for health checks
			return "v2-local", c46WriteV2(0x20, 0x00, nil, nil), 0
		case 1:
			tl := c46DrawTLVs(rt, maxTLV(0))
			return "v2-local", c46WriteV2(0x20, 0x00, nil, tl), len(tl)
		case 2:
			tl := c46DrawTLVs(rt, maxTLV(12))
			return "v2-local", c46WriteV2(0x20, 0x11, c46Addr4Block(c46DrawV4(rt, "src"), c46DrawV4(rt, "dst"), c46DrawPort(rt, "sport"), c46DrawPort(rt, "dport")), tl), len(tl)
		default:
			tl := c46DrawTLVs(rt, maxTLV(36))
			return "v2-local", c46WriteV2(0x20, 0x21, c46Addr6Block(c46DrawV6(rt, "src"), c46DrawV6(rt, "dst"), c46DrawPort(rt, "sport"), c46DrawPort(rt, "dport")), tl), len(tl)
		}
	case 6:
		tl := c46DrawTLVs(rt, maxTLV(0))
		return "v2-proxy-unspec", c46WriteV2(0x21, 0x00, nil, tl), len(tl)
	default:
		switch rapid.IntRange(0, 2).Draw(rt, "exotic") {
		case 0:
			tl := c46DrawTLVs(rt, maxTLV(12))
			return "v2-udp4", c46WriteV2(0x21, 0x12, c46Addr4Block(c46DrawV4(rt, "src"), c46DrawV4(rt, "dst"), c46DrawPort(rt, "sport"), c46DrawPort(rt, "dport")), tl), len(tl)
		case 1:
			tl := c46DrawTLVs(rt, maxTLV(36))
			return "v2-udp6", c46WriteV2(0x21, 0x22, c46Addr6Block(c46DrawV6(rt, "src"), c46DrawV6(rt, "dst"), c46DrawPort(rt, "sport"), c46DrawPort(rt, "dport")), tl), len(tl)
		default:
			tl := c46DrawTLVs(rt, maxTLV(216))
			fam := byte(0x31)
			if rapid.Bool().Draw(rt, "unix-dgram") {
				fam = 0x32
			}
			return "v2-unix", c46WriteV2(0x21, fam, c46UnixBlock("/var/run/src.sock", "/var/run/dst.sock"), tl), len(tl)
		}
	}
}

// c46MalformedV1 builds the hand-made textual deviations of a v1 line.
func c46MalformedV1(rt *rapid.T) (string, []byte) {
	six := rapid.Bool().Draw(rt, "six")
	proto, src, dst := "TCP4", c46V4Text(c46DrawV4(rt, "src")), c46V4Text(c46DrawV4(rt, "dst"))
	if six {
		proto, src, dst = "TCP6", c46V6Text(c46DrawV6(rt, "src"), 1), c46V6Text(c46DrawV6(rt, "dst"), 1)
	}
	sport, dport := strconv.Itoa(int(c46DrawPort(rt, "sport"))), strconv.Itoa(int(c46DrawPort(rt, "dport")))
	end := "\r\n"
	which := rapid.IntRange(0, 11).Draw(rt, "v1-deviation")
	pick := func(xs ...string) string { return xs[rapid.IntRange(0, len(xs)-1).Draw(rt, "alt")] }
	name := ""
	switch which {
	case 0:
		name, sport = "port-range", pick("65536", "65540", "70000", "99999", "100000", "131071", "4294967296")
	case 1:
		name, dport = "port-range", pick("65536", "65537", "99999", "655350")
	case 2:
		name, dport = "port-text", pick("", "8o", "-1", "0x50", "80a", " ")
	case 3:
		name = "addr"
		if six {
			src = pick("1.2.3.4", "g::1", "1:2:3:4:5:6:7:8:9", ":::", "12345::1", "")
		} else {
			src = pick("256.1.1.1", "1.2.3", "1.2.3.4.5", "::1", "1.2.3.a", "", "1..2.3")
		}
	case 4:
		name = "addr"
		if six {
			dst = pick("10.0.0.1", "::g", "1::2::3", "fe80:::1")
		} else {
			dst = pick("999.9.9.9", "2001:db8::1", "1.2.3.-4", "a.b.c.d")
		}
	case 5:
		name, proto = "proto", pick("TCP5", "tcp4", "UDP4", "TCP", "UNKNOWN4", "TCP44", "UNIX", "")
	case 6:
		name = "missing-field"
		line := "PROXY " + proto + " " + src + " " + dst + " " + sport + end
		return "bad-v1-" + name, []byte(line)
	case 7:
		name = "extra-field"
		line := "PROXY " + proto + " " + src + " " + dst + " " + sport + " " + dport + " " + pick("x", "80", "TCP4", "") + end
		return "bad-v1-" + name, []byte(line)
	case 8:
		name = "double-space"
		line := "PROXY " + proto + "  " + src + " " + dst + " " + sport + " " + dport + end
		return "bad-v1-" + name, []byte(line)
	case 9:
		name, end = "lf-only", "\n"
	case 10:
		name = "no-crlf"
		line := "PROXY " + proto + " " + src + " " + dst + " " + sport + " " + dport
		// followed directly by payload: whether a CRLF shows up later is up to the payload
		return "bad-v1-" + name, []byte(line)
	case 11:
		name = "sig-glued"
		line := "PROXY" + pick("", "\t", "  ", "X ") + proto + " " + src + " " + dst + " " + sport + " " + dport + end
		return "bad-v1-" + name, []byte(line)
	}
	return "bad-v1-" + name, []byte("PROXY " + proto + " " + src + " " + dst + " " + sport + " " + dport + end)
}

// c46MalformedV2 builds binary headers violating section 2.2.
func c46MalformedV2(rt *rapid.T, limit int) (string, []byte, bool) {
	blk4 := c46Addr4Block(c46DrawV4(rt, "src"), c46DrawV4(rt, "dst"), c46DrawPort(rt, "sport"), c46DrawPort(rt, "dport"))
	blk6 := c46Addr6Block(c46DrawV6(rt, "src"), c46DrawV6(rt, "dst"), c46DrawPort(rt, "sport"), c46DrawPort(rt, "dport"))
	six := rapid.Bool().Draw(rt, "six")
	fam, blk := byte(0x11), blk4
	if six {
		fam, blk = 0x21, blk6
	}
	pickB := func(xs ...byte) byte { return xs[rapid.IntRange(0, len(xs)-1).Draw(rt, "alt")] }
	switch rapid.IntRange(0, 5).Draw(rt, "v2-deviation") {
	case 0:
		return "bad-v2-version", c46WriteV2(pickB(0x11, 0x31, 0x01, 0x00, 0x10, 0xF1, 0x41), fam, blk, nil), false
	case 1:
		return "bad-v2-command", c46WriteV2(pickB(0x22, 0x23, 0x2F, 0x28), fam, blk, nil), false
	case 2:
		return "bad-v2-family", c46WriteV2(0x21, pickB(0x41, 0x13, 0x23, 0x51, 0xF1, 0x1F, 0x03, 0x33), blk, nil), false
	case 3: // declared length shorter than the address block of the family
		short := rapid.IntRange(0, len(blk)-1).Draw(rt, "short-len")
		return "bad-v2-short-len", c46WriteV2(0x21, fam, blk[:short], nil), false
	case 4: // stream ends inside the header
		h := c46WriteV2(0x21, fam, blk, c46DrawTLVs(rt, 64))
		cut := rapid.IntRange(12, len(h)-1).Draw(rt, "cut")
		return "bad-v2-truncated", h[:cut], true
	default: // larger than the configured maximum
		over := rapid.IntRange(1, 600).Draw(rt, "over")
		pad := limit + over - 16 - len(blk) - 3
		if pad < 0 {
			pad = 0
		}
		return "bad-v2-oversize", c46WriteV2(0x21, fam, blk, c46TLV(0x04, make([]byte, pad))), false
	}
}

func c46DrawNoHeader(rt *rapid.T) []byte {
	switch rapid.IntRange(0, 8).Draw(rt, "nohdr-kind") {
	case 0:
		return []byte("GET / HTTP/1.1\r\nHost: a\r\n\r\n")
	case 1:
		return []byte("POST /x HTTP/1.1\r\nHost: a\r\nContent-Length: 3\r\n\r\nabc")
	case 2:
		return []byte("PRI * HTTP/2.0\r\n\r\nSM\r\n\r\n")
	case 3: // diverges from "PROXY" after 1..4 matching bytes
		k := rapid.IntRange(1, 4).Draw(rt, "match")
		s := append([]byte{}, c46SigV1[:k]...)
		s = append(s, 'x')
		return append(s, rapid.SliceOfN(rapid.Byte(), 0, 30).Draw(rt, "rest")...)
	case 4: // diverges from the v2 signature after 1..11 matching bytes
		k := rapid.IntRange(1, 11).Draw(rt, "match")
		s := append([]byte{}, c46SigV2[:k]...)
		s = append(s, 'x')
		return append(s, rapid.SliceOfN(rapid.Byte(), 0, 30).Draw(rt, "rest")...)
	case 5: // short stream beginning with 'P' or CR
		first := []byte{'P', 0x0D}[rapid.IntRange(0, 1).Draw(rt, "first")]
		return append([]byte{first}, rapid.SliceOfN(rapid.Byte(), 0, 10).Draw(rt, "rest")...)
	case 6:
		return []byte{0x16, 0x03, 0x01, 0x00, 0x2e, 0x01, 0x00, 0x00, 0x2a, 0x03, 0x03}
	default:
		return rapid.SliceOfN(rapid.Byte(), 0, 40).Draw(rt, "bytes")
	}
}

// c46Mutate applies one byte-level mutation inside the first hdrLen bytes.
func c46Mutate(rt *rapid.T, stream []byte, hdrLen int) ([]byte, string) {
	if hdrLen <= 0 {
		return stream, ""
	}
	pos := rapid.IntRange(0, hdrLen-1).Draw(rt, "mut-pos")
	if hdrLen > 16 && rapid.IntRange(0, 2).Draw(rt, "mut-focus") == 0 {
		pos = rapid.IntRange(0, 15).Draw(rt, "mut-pos16") // signature / ver / fam / len
	}
	out := append([]byte{}, stream...)
	switch rapid.IntRange(0, 4).Draw(rt, "mut-op") {
	case 0:
		bit := rapid.IntRange(0, 7).Draw(rt, "mut-bit")
		out[pos] ^= 1 << bit
		return out, fmt.Sprintf("flip bit %d of byte %d", bit, pos)
	case 1:
		specials := []byte{' ', '\r', '\n', 0, '0', '9', ':', '.', 0xff, 'P'}
		b := specials[rapid.IntRange(0, len(specials)-1).Draw(rt, "mut-byte")]
		out[pos] = b
		return out, fmt.Sprintf("set byte %d to %#x", pos, b)
	case 2:
		out = append(out[:pos], out[pos+1:]...)
		return out, fmt.Sprintf("delete byte %d", pos)
	case 3:
		specials := []byte{' ', '\r', '\n', 0, '1', ':', 'x'}
		b := specials[rapid.IntRange(0, len(specials)-1).Draw(rt, "mut-byte")]
		out = append(out[:pos], append([]byte{b}, out[pos:]...)...)
		return out, fmt.Sprintf("insert %#x at %d", b, pos)
	default:
		return out[:pos], fmt.Sprintf("peer closes after %d bytes", pos)
	}
}

func c46DrawCase(rt *rapid.T) *c46Case { return c46DrawCaseOf(rt, -1) }

// c46DrawCaseOf draws a case of the given generator kind (-1: any).
func c46DrawCaseOf(rt *rapid.T, forceKind int) *c46Case {
	c := &c46Case{}
	c.Limit = c46Limits[rapid.IntRange(0, len(c46Limits)-1).Draw(rt, "limit")]
	eff := int(c.Limit)
	if eff <= 0 {
		eff = 2048
	}
	kind := forceKind
	if kind < 0 {
		kind = rapid.IntRange(0, 11).Draw(rt, "kind")
	}
	var hdr []byte
	noPayload := false
	minPayload := 0
	switch {
	case kind <= 7:
		c.Gen, hdr, c.TLVBytes = c46DrawHeader(rt, kind, eff)
	case kind == 8:
		c.Gen = "no-header"
	case kind == 9:
		c.Gen, hdr = c46MalformedV1(rt)
		minPayload = 1
	case kind == 10:
		c.Gen, hdr, noPayload = c46MalformedV2(rt, eff)
		minPayload = 1
	default: // 11: a second draw of the most common real-world headers
		c.Gen, hdr, c.TLVBytes = c46DrawHeader(rt, []int{0, 3, 4, 5}[rapid.IntRange(0, 3).Draw(rt, "common")], eff)
	}
	c.HdrLenGen = len(hdr)
	var stream []byte
	if c.Gen == "no-header" {
		stream = c46DrawNoHeader(rt)
	} else {
		stream = append(stream, hdr...)
		if !noPayload {
			stream = append(stream, c46DrawPayload(rt, minPayload)...)
		}
		if kind <= 7 && rapid.IntRange(0, 4).Draw(rt, "mutate") == 0 {
			stream, c.Mut = c46Mutate(rt, stream, len(hdr))
		}
	}
	c.stream = stream
	c.StreamHex = hex.EncodeToString(stream)
	// delivery
	switch rapid.IntRange(0, 3).Draw(rt, "delivery") {
	case 0: // everything in one segment
		c.Tail = 1 << 20
	case 1: // byte by byte through the header, then large
		n := c.HdrLenGen + 2
		if n > 120 {
			n = 120
		}
		for i := 0; i < n; i++ {
			c.Pieces = append(c.Pieces, 1)
		}
		c.Tail = 1460
	case 2: // a cut placed around the end of the header
		d := rapid.IntRange(-3, 3).Draw(rt, "cut-delta")
		if p := c.HdrLenGen + d; p > 0 {
			c.Pieces = []int{p}
		}
		c.Tail = []int{1, 1460, 1 << 20}[rapid.IntRange(0, 2).Draw(rt, "tail")]
	default:
		c.Pieces = rapid.SliceOfN(rapid.IntRange(1, 48), 0, 8).Draw(rt, "pieces")
		c.Tail = []int{1, 7, 1460, 4096, 1 << 20}[rapid.IntRange(0, 4).Draw(rt, "tail")]
	}
	c.AddrFirst = rapid.Bool().Draw(rt, "addr-first")
	n := rapid.IntRange(1, 3).Draw(rt, "nread")
	for i := 0; i < n; i++ {
		c.ReadSizes = append(c.ReadSizes, []int{1, 7, 64, 4096, 65536}[rapid.IntRange(0, 4).Draw(rt, "readsize")])
	}
	return c
}

// c46SelfCheck makes sure writer and classifier (both harness code) agree on
// unmutated conformant headers: a disagreement is a harness bug, not a finding.
func c46SelfCheck(t *testing.T) {
	src4, dst4 := [4]byte{192, 0, 2, 1}, [4]byte{198, 51, 100, 7}
	var src6, dst6 [16]byte
	src6[0], src6[1], src6[15] = 0x20, 0x01, 9
	dst6[15] = 1
	type exp struct {
		name string
		h    []byte
		mode int
		src  string
		dst  string
	}
	cases := []exp{
		{"v1-tcp4", c46WriteV1("TCP4", c46V4Text(src4), c46V4Text(dst4), 1000, 443), c46Advertised, "192.0.2.1:1000", "198.51.100.7:443"},
		{"v1-tcp6-0", c46WriteV1("TCP6", c46V6Text(src6, 0), c46V6Text(dst6, 0), 1, 65535), c46Advertised, "[2001::9]:1", "[::1]:65535"},
		{"v1-tcp6-1", c46WriteV1("TCP6", c46V6Text(src6, 1), c46V6Text(dst6, 1), 1, 65535), c46Advertised, "[2001::9]:1", "[::1]:65535"},
		{"v1-tcp6-2", c46WriteV1("TCP6", c46V6Text(src6, 2), c46V6Text(dst6, 2), 1, 65535), c46Advertised, "[2001::9]:1", "[::1]:65535"},
		{"v2-tcp4", c46WriteV2(0x21, 0x11, c46Addr4Block(src4, dst4, 1000, 443), c46TLV(4, []byte{1, 2})), c46Advertised, "192.0.2.1:1000", "198.51.100.7:443"},
		{"v2-tcp6", c46WriteV2(0x21, 0x21, c46Addr6Block(src6, dst6, 1, 65535), nil), c46Advertised, "[2001::9]:1", "[::1]:65535"},
		{"v2-local", c46WriteV2(0x20, 0x00, nil, nil), c46Socket, "", ""},
		{"v1-unknown", []byte("PROXY UNKNOWN\r\n"), c46Socket, "", ""},
	}
	for _, e := range cases {
		v := c46Classify(append(append([]byte{}, e.h...), "tail"...), 2048)
		if v.Mode != e.mode || v.HdrLen != len(e.h) {
			t.Fatalf("HARNESS BUG: %s classified %s hdrLen=%d (want %s, %d)", e.name, c46ModeName[v.Mode], v.HdrLen, c46ModeName[e.mode], len(e.h))
		}
		if e.src != "" && (v.Src != netip.MustParseAddrPort(e.src) || v.Dst != netip.MustParseAddrPort(e.dst)) {
			t.Fatalf("HARNESS BUG: %s classified src=%v dst=%v", e.name, v.Src, v.Dst)
		}
	}
	if got := binary.BigEndian.Uint16(cases[4].h[14:16]); got != 12+5 {
		t.Fatalf("HARNESS BUG: v2 length field %d", got)
	}
}

// c46Sweep: deterministic part, independent of the seed: every header class
// once per delivery mode with a fixed payload.
func c46Sweep(t *testing.T, rec *ev.Rec) {
	src4, dst4 := [4]byte{192, 0, 2, 1}, [4]byte{198, 51, 100, 7}
	var src6, dst6, map6 [16]byte
	src6[0], src6[1], src6[15] = 0x20, 0x01, 9
	dst6[0], dst6[15] = 0xfe, 1
	map6[10], map6[11], map6[12], map6[15] = 0xff, 0xff, 10, 1
	tlv := c46TLV(0x04, make([]byte, 40))
	hs := map[string][]byte{
		"v1-tcp4":          c46WriteV1("TCP4", c46V4Text(src4), c46V4Text(dst4), 1000, 443),
		"v1-tcp4-max":      c46WriteV1("TCP4", "255.255.255.255", "255.255.255.255", 65535, 65535),
		"v1-tcp6":          c46WriteV1("TCP6", c46V6Text(src6, 1), c46V6Text(dst6, 1), 1, 65535),
		"v1-tcp6-max":      c46WriteV1("TCP6", "ffff:ffff:ffff:ffff:ffff:ffff:ffff:ffff", "ffff:ffff:ffff:ffff:ffff:ffff:ffff:ffff", 65535, 65535),
		"v1-tcp6-mapped":   c46WriteV1("TCP6", c46V6Text(map6, 1), c46V6Text(map6, 1), 5, 6),
		"v1-unknown-short": []byte("PROXY UNKNOWN\r\n"),
		"v1-unknown-long":  []byte("PROXY UNKNOWN ffff:ffff:ffff:ffff:ffff:ffff:ffff:ffff ffff:ffff:ffff:ffff:ffff:ffff:ffff:ffff 65535 65535\r\n"),
		"v2-tcp4":          c46WriteV2(0x21, 0x11, c46Addr4Block(src4, dst4, 1000, 443), nil),
		"v2-tcp4-tlv":      c46WriteV2(0x21, 0x11, c46Addr4Block(src4, dst4, 1000, 443), tlv),
		"v2-tcp6":          c46WriteV2(0x21, 0x21, c46Addr6Block(src6, dst6, 1, 65535), nil),
		"v2-tcp6-tlv":      c46WriteV2(0x21, 0x21, c46Addr6Block(src6, dst6, 1, 65535), tlv),
		"v2-tcp6-mapped":   c46WriteV2(0x21, 0x21, c46Addr6Block(map6, map6, 5, 6), nil),
		"v2-local":         c46WriteV2(0x20, 0x00, nil, nil),
		"v2-local-tlv":     c46WriteV2(0x20, 0x00, nil, tlv),
		"v2-local-tcp4":    c46WriteV2(0x20, 0x11, c46Addr4Block(src4, dst4, 1, 2), nil),
		"v2-proxy-unspec":  c46WriteV2(0x21, 0x00, nil, nil),
		"v2-udp4":          c46WriteV2(0x21, 0x12, c46Addr4Block(src4, dst4, 53, 53), nil),
		"v2-unix":          c46WriteV2(0x21, 0x31, c46UnixBlock("/a", "/b"), nil),
		"v2-unix-tlv":      c46WriteV2(0x21, 0x31, c46UnixBlock("/a", "/b"), tlv),
	}
	names := make([]string, 0, len(hs))
	for k := range hs {
		names = append(names, k)
	}
	// fixed order
	for i := 0; i < len(names); i++ {
		for j := i + 1; j < len(names); j++ {
			if names[j] < names[i] {
				names[i], names[j] = names[j], names[i]
			}
		}
	}
	payload := []byte("GET / HTTP/1.1\r\nHost: example.org\r\n\r\n")
	for _, name := range names {
		h := hs[name]
		for mode := 0; mode < 3; mode++ {
			for _, addrFirst := range []bool{true, false} {
				c := &c46Case{Gen: "sweep:" + name, HdrLenGen: len(h), AddrFirst: addrFirst, ReadSizes: []int{4096}, Tail: 1 << 20}
				c.stream = append(append([]byte{}, h...), payload...)
				c.StreamHex = hex.EncodeToString(c.stream)
				if strings.HasSuffix(name, "-tlv") {
					c.TLVBytes = len(tlv)
				}
				switch mode {
				case 1:
					for i := 0; i < len(h)+2; i++ {
						c.Pieces = append(c.Pieces, 1)
					}
				case 2:
					c.Pieces = []int{len(h)}
				}
				c46Check(t, rec, c)
			}
		}
	}
}

// c46DrawScenario: 0..2 earlier connections (biased towards ones whose header
// is refused, so that bfe_proxy closes them itself before the owner does), then
// 2..3 connections that are open at the same time.
func c46DrawScenario(rt *rapid.T) *c46Scenario {
	sc := &c46Scenario{}
	nh := rapid.IntRange(0, 2).Draw(rt, "history-len")
	for i := 0; i < nh; i++ {
		k := -1
		if rapid.Bool().Draw(rt, "history-bad") {
			k = 9 + rapid.IntRange(0, 1).Draw(rt, "history-bad-kind") // malformed v1 / v2
		}
		sc.History = append(sc.History, c46DrawCaseOf(rt, k))
	}
	ng := rapid.IntRange(2, 3).Draw(rt, "group-size")
	for i := 0; i < ng; i++ {
		k := -1
		if rapid.IntRange(0, 2).Draw(rt, "group-common") != 0 {
			k = 11 // the headers real balancers send
		}
		sc.Group = append(sc.Group, c46DrawCaseOf(rt, k))
	}
	sc.Schedule = rapid.SliceOfN(rapid.IntRange(0, ng-1), 0, 6).Draw(rt, "schedule")
	return sc
}

// c46ScenarioSweep: deterministic scenarios -- each kind of earlier connection
// followed by 2 and 3 simultaneously open connections with distinct headers
// and payloads.
func c46ScenarioSweep(t *testing.T, rec *ev.Rec) {
	mk := func(gen string, stream []byte, hdrLen int, addrFirst bool) *c46Case {
		c := &c46Case{Gen: "sweep:" + gen, HdrLenGen: hdrLen, AddrFirst: addrFirst, ReadSizes: []int{7, 64}, Tail: 1 << 20}
		c.stream = stream
		c.StreamHex = hex.EncodeToString(stream)
		return c
	}
	histories := map[string][]byte{
		"0-none":         nil,
		"1-bad-v1-addr":  []byte("PROXY TCP4 not-an-address 10.0.0.2 1 2\r\nxxxx"),
		"2-bad-v2-trunc": c46WriteV2(0x21, 0x11, c46Addr4Block([4]byte{1, 1, 1, 1}, [4]byte{2, 2, 2, 2}, 1, 2), nil)[:20],
		"3-bad-v2-cmd":   append(c46WriteV2(0x2F, 0x11, c46Addr4Block([4]byte{1, 1, 1, 1}, [4]byte{2, 2, 2, 2}, 1, 2), nil), "data"...),
		"4-no-header":    []byte("GET / HTTP/1.0\r\n\r\n"),
		"5-v1-ok":        append(c46WriteV1("TCP4", "9.9.9.9", "8.8.8.8", 9, 8), "hello"...),
	}
	hnames := []string{"0-none", "1-bad-v1-addr", "2-bad-v2-trunc", "3-bad-v2-cmd", "4-no-header", "5-v1-ok"}
	var six [16]byte
	six[0], six[15] = 0x20, 7
	for _, hn := range hnames {
		for _, n := range []int{2, 3} {
			for _, addrFirst := range []bool{true, false} {
				sc := &c46Scenario{}
				if h := histories[hn]; h != nil {
					sc.History = []*c46Case{mk("history:"+hn, h, len(h), addrFirst)}
				}
				for i := 0; i < n; i++ {
					var h []byte
					switch i {
					case 0:
						h = c46WriteV1("TCP4", "10.1.1.1", "10.1.1.2", 1111, 80)
					case 1:
						h = c46WriteV2(0x21, 0x11, c46Addr4Block([4]byte{10, 2, 2, 1}, [4]byte{10, 2, 2, 2}, 2222, 443), c46TLV(4, make([]byte, 9)))
					default:
						h = c46WriteV2(0x21, 0x21, c46Addr6Block(six, six, 3333, 8443), nil)
					}
					payload := bytes.Repeat([]byte{'A' + byte(i)}, 16+300*i)
					sc.Group = append(sc.Group, mk(fmt.Sprintf("group%d-of-%d", i, n), append(h, payload...), len(h), addrFirst))
				}
				c46CheckScenario(t, rec, sc)
			}
		}
	}
}

func TestC46(t *testing.T) {
	rec := ev.New("C46", "streams = header from an independent spec writer (v1 TCP4/TCP6/UNKNOWN short+long, v2 PROXY/LOCAL x UNSPEC/TCP4/TCP6/UDP/UNIX + TLVs up to min(limit,1500) B), hand-made malformed headers, byte mutations of valid headers, header-less streams; + payload 0..9 KB; delivered in generated pieces; expectation from a strict reference classifier. non-trivial: v2 with TLVs, LOCAL, UNKNOWN, or a delivery boundary inside the header; distinct by (stream bytes, pieces, limit, call order, read sizes)")
	c46SelfCheck(t)
	c46Sweep(t, rec)
	c46ScenarioSweep(t, rec)
	rapid.Check(t, func(rt *rapid.T) {
		if rapid.IntRange(0, 4).Draw(rt, "scenario") == 0 {
			c46CheckScenario(rt, rec, c46DrawScenario(rt))
			return
		}
		c46Check(rt, rec, c46DrawCase(rt))
	})
}

// FuzzC46 (thorough tier): raw streams from the native fuzzer, same semantic
// oracle (reference classifier + c46Check).
func FuzzC46(f *testing.F) {
	rec := ev.New("C46", "native fuzz: raw stream bytes, one delivery cut, limit selector, call order; oracle = reference classifier")
	f.Add([]byte("PROXY TCP4 192.0.2.1 198.51.100.7 1000 443\r\nGET / HTTP/1.0\r\n\r\n"), uint16(7), uint8(0), true)
	f.Add(append(c46WriteV2(0x21, 0x11, c46Addr4Block([4]byte{1, 2, 3, 4}, [4]byte{5, 6, 7, 8}, 9, 10), c46TLV(4, []byte{0, 0})), "hello"...), uint16(14), uint8(2), false)
	f.Fuzz(func(t *testing.T, data []byte, cut uint16, limitSel uint8, addrFirst bool) {
		if len(data) > 1<<16 {
			return
		}
		c := &c46Case{Gen: "fuzz", HdrLenGen: 0, Tail: 1 << 20, ReadSizes: []int{4096, 1},
			Limit: c46Limits[int(limitSel)%len(c46Limits)], AddrFirst: addrFirst}
		c.stream = data
		c.StreamHex = hex.EncodeToString(data)
		if len(data) > 0 {
			if p := int(cut) % len(data); p > 0 {
				c.Pieces = []int{p}
			}
		}
		c46Check(t, rec, c)
	})
}

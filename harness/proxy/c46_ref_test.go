package proxy

// Trusted base of C46: an independent PROXY protocol *writer* and a strict
// reference *classifier*, both written from haproxy's proxy-protocol.txt
// (sections 2.1 and 2.2). Nothing in here calls into bfe_proxy.

import (
	"bytes"
	"encoding/binary"
	"fmt"
	"net/netip"
	"strconv"
	"strings"
)

var (
	c46SigV1 = []byte("PROXY")
	c46SigV2 = []byte{0x0D, 0x0A, 0x0D, 0x0A, 0x00, 0x0D, 0x0A, 0x51, 0x55, 0x49, 0x54, 0x0A}
)

// ---------------------------------------------------------------- writer

// c46V6Text renders an IPv6 address in pure hex-colon notation (the only
// notation section 2.1 describes for TCP6). form 0: every group, no
// compression, no leading zeros; form 1: longest run of >=2 zero groups
// replaced by "::" (inet_ntop style, but never with a dotted-quad tail);
// form 2: upper-case, 4 digits per group.
func c46V6Text(a [16]byte, form int) string {
	var g [8]uint16
	for i := range g {
		g[i] = binary.BigEndian.Uint16(a[2*i:])
	}
	switch form {
	case 2:
		parts := make([]string, 8)
		for i, v := range g {
			parts[i] = fmt.Sprintf("%04X", v)
		}
		return strings.Join(parts, ":")
	case 1:
		bestStart, bestLen := -1, 0
		for i := 0; i < 8; {
			if g[i] != 0 {
				i++
				continue
			}
			j := i
			for j < 8 && g[j] == 0 {
				j++
			}
			if j-i > bestLen {
				bestStart, bestLen = i, j-i
			}
			i = j
		}
		if bestLen >= 2 {
			var l, r []string
			for i := 0; i < bestStart; i++ {
				l = append(l, strconv.FormatUint(uint64(g[i]), 16))
			}
			for i := bestStart + bestLen; i < 8; i++ {
				r = append(r, strconv.FormatUint(uint64(g[i]), 16))
			}
			return strings.Join(l, ":") + "::" + strings.Join(r, ":")
		}
		fallthrough
	default:
		parts := make([]string, 8)
		for i, v := range g {
			parts[i] = strconv.FormatUint(uint64(v), 16)
		}
		return strings.Join(parts, ":")
	}
}

func c46V4Text(a [4]byte) string {
	return fmt.Sprintf("%d.%d.%d.%d", a[0], a[1], a[2], a[3])
}

// c46WriteV1 writes "PROXY <proto> <src> <dst> <sport> <dport>\r\n".
func c46WriteV1(proto, src, dst string, sport, dport uint16) []byte {
	return []byte("PROXY " + proto + " " + src + " " + dst + " " +
		strconv.Itoa(int(sport)) + " " + strconv.Itoa(int(dport)) + "\r\n")
}

// c46WriteV2 writes signature, ver/cmd, fam/proto, 16-bit length, address
// block and the TLV bytes.
func c46WriteV2(verCmd, fam byte, addrBlock, tlvs []byte) []byte {
	var b bytes.Buffer
	b.Write(c46SigV2)
	b.WriteByte(verCmd)
	b.WriteByte(fam)
	var l [2]byte
	binary.BigEndian.PutUint16(l[:], uint16(len(addrBlock)+len(tlvs)))
	b.Write(l[:])
	b.Write(addrBlock)
	b.Write(tlvs)
	return b.Bytes()
}

func c46Addr4Block(src, dst [4]byte, sport, dport uint16) []byte {
	b := make([]byte, 12)
	copy(b[0:], src[:])
	copy(b[4:], dst[:])
	binary.BigEndian.PutUint16(b[8:], sport)
	binary.BigEndian.PutUint16(b[10:], dport)
	return b
}

func c46Addr6Block(src, dst [16]byte, sport, dport uint16) []byte {
	b := make([]byte, 36)
	copy(b[0:], src[:])
	copy(b[16:], dst[:])
	binary.BigEndian.PutUint16(b[32:], sport)
	binary.BigEndian.PutUint16(b[34:], dport)
	return b
}

func c46UnixBlock(src, dst string) []byte {
	b := make([]byte, 216)
	copy(b[0:108], src)
	copy(b[108:216], dst)
	return b
}

// c46TLV renders one type-length-value triple.
func c46TLV(typ byte, val []byte) []byte {
	b := []byte{typ, byte(len(val) >> 8), byte(len(val))}
	return append(b, val...)
}

// ---------------------------------------------------------------- classifier

const (
	c46NoHeader          = iota // no signature: whole stream passes through, socket addresses
	c46Advertised               // addresses of the header, payload = bytes after the header
	c46Socket                   // LOCAL / UNKNOWN: socket addresses, payload = bytes after the header
	c46SocketOrReject           // spec leaves the choice to the receiver (PROXY+UNSPEC, AF_UNIX)
	c46AdvSocketOrReject        // datagram families announced on a stream connection
	c46Reject                   // malformed: no data may be delivered
	c46DontCare                 // spec (or this model) has no firm opinion
)

var c46ModeName = []string{"no-header", "advertised", "socket", "socket-or-reject", "adv-socket-or-reject", "reject", "dont-care"}

type c46Verdict struct {
	Mode     int
	Class    string // header class; part of the finding key
	HdrLen   int
	Src, Dst netip.AddrPort
	Mapped   bool // an advertised IPv6 address is IPv4-mapped
}

func c46StrictPort(s string) (p uint16, ok, dontcare bool) {
	if s == "" {
		return 0, false, false
	}
	if s[0] == '+' {
		return 0, false, true
	}
	for _, c := range s {
		if c < '0' || c > '9' {
			return 0, false, false
		}
	}
	if len(s) > 1 && s[0] == '0' {
		return 0, false, true // leading zeros: not canonical, tolerated by many receivers
	}
	if len(s) > 5 {
		return 0, false, false
	}
	v, _ := strconv.Atoi(s)
	if v > 65535 {
		return 0, false, false
	}
	return uint16(v), true, false
}

func c46StrictV4(s string) (a netip.Addr, ok, dontcare bool) {
	parts := strings.Split(s, ".")
	if len(parts) != 4 {
		return a, false, false
	}
	var b [4]byte
	lz := false
	for i, p := range parts {
		if len(p) == 0 || len(p) > 3 {
			return a, false, false
		}
		for _, c := range p {
			if c < '0' || c > '9' {
				return a, false, false
			}
		}
		v, _ := strconv.Atoi(p)
		if v > 255 {
			return a, false, false
		}
		if len(p) > 1 && p[0] == '0' {
			lz = true
		}
		b[i] = byte(v)
	}
	if lz {
		return a, false, true
	}
	return netip.AddrFrom4(b), true, false
}

func c46StrictV6(s string) (a netip.Addr, ok, dontcare bool) {
	if !strings.Contains(s, ":") {
		return a, false, false // e.g. a dotted quad in a TCP6 line
	}
	if strings.ContainsAny(s, ".%") {
		return a, false, true // dotted tail / zone: outside the notation of the spec
	}
	p, err := netip.ParseAddr(s)
	if err != nil || !p.Is6() {
		return a, false, false
	}
	return p, true, false
}

// c46Classify says what proxy-protocol.txt demands of a receiver that is
// handed `stream` (followed by EOF) and accepts headers of up to limit bytes.
func c46Classify(stream []byte, limit int) c46Verdict {
	n := len(stream)
	switch {
	case n >= 5 && bytes.Equal(stream[:5], c46SigV1):
		return c46ClassifyV1(stream)
	case n >= 12 && bytes.Equal(stream[:12], c46SigV2):
		return c46ClassifyV2(stream, limit)
	}
	// no complete signature
	if n == 0 {
		return c46Verdict{Mode: c46NoHeader, Class: "nohdr-empty"}
	}
	if (n < 5 && bytes.Equal(stream, c46SigV1[:n])) || (n < 12 && bytes.Equal(stream, c46SigV2[:n])) {
		// the peer closed in the middle of what may have become a signature
		return c46Verdict{Mode: c46DontCare, Class: "sig-prefix-eof"}
	}
	if (stream[0] == 'P' || stream[0] == 0x0D) && n < 12 {
		// shares its first byte with a signature but is shorter than the longer one
		return c46Verdict{Mode: c46NoHeader, Class: "nohdr-short"}
	}
	return c46Verdict{Mode: c46NoHeader, Class: "nohdr"}
}

func c46ClassifyV1(stream []byte) c46Verdict {
	rej := func(c string) c46Verdict { return c46Verdict{Mode: c46Reject, Class: c} }
	win := stream
	if len(win) > 107 {
		win = win[:107]
	}
	idx := bytes.IndexByte(win, '\n')
	if idx < 0 {
		if bytes.IndexByte(stream, '\n') >= 0 {
			// "If the CRLF sequence is not found in the first 107 characters, the
			// receiver SHOULD declare the line invalid": only a SHOULD
			return c46Verdict{Mode: c46DontCare, Class: "v1-overlong-line"}
		}
		if len(stream) >= 107 {
			return rej("bad-v1-no-crlf")
		}
		return rej("bad-v1-truncated")
	}
	line := stream[:idx+1]
	if len(line) < 2 || line[len(line)-2] != '\r' {
		return rej("bad-v1-lf-only")
	}
	body := string(line[:len(line)-2])
	if len(body) < 6 || body[5] != ' ' {
		return rej("bad-v1-no-space")
	}
	rest := body[6:]
	if strings.HasPrefix(rest, "UNKNOWN") && (len(rest) == 7 || rest[7] == ' ') {
		if strings.ContainsAny(rest, "\r\x00") {
			return c46Verdict{Mode: c46DontCare, Class: "v1-unknown-ctl"}
		}
		c := "v1-unknown-long"
		if len(rest) == 7 {
			c = "v1-unknown-short"
		}
		return c46Verdict{Mode: c46Socket, Class: c, HdrLen: len(line)}
	}
	f := strings.Split(rest, " ")
	if f[0] != "TCP4" && f[0] != "TCP6" {
		return rej("bad-v1-proto")
	}
	if len(f) != 5 {
		if len(f) > 5 {
			return rej("bad-v1-extra-field")
		}
		return rej("bad-v1-missing-field")
	}
	parse := c46StrictV4
	if f[0] == "TCP6" {
		parse = c46StrictV6
	}
	dc := false
	// narrow class: which family was announced and whether the text is an
	// address of the other family or no address at all
	addrClass := func(s string) string {
		other := c46StrictV6
		if f[0] == "TCP6" {
			other = c46StrictV4
		}
		if a, ok, _ := other(s); ok {
			if a.Is4In6() {
				return "bad-v1-addr-v4mapped-text-in-tcp4"
			}
			return "bad-v1-addr-other-family-in-" + strings.ToLower(f[0])
		}
		return "bad-v1-addr-unparsable-in-" + strings.ToLower(f[0])
	}
	src, ok, d := parse(f[1])
	dc = dc || d
	if !ok && !d {
		return rej(addrClass(f[1]))
	}
	dst, ok, d := parse(f[2])
	dc = dc || d
	if !ok && !d {
		return rej(addrClass(f[2]))
	}
	sp, ok, d := c46StrictPort(f[3])
	dc = dc || d
	if !ok && !d {
		return rej("bad-v1-port")
	}
	dp, ok, d := c46StrictPort(f[4])
	dc = dc || d
	if !ok && !d {
		return rej("bad-v1-port")
	}
	if dc {
		return c46Verdict{Mode: c46DontCare, Class: "v1-noncanonical"}
	}
	v := c46Verdict{Mode: c46Advertised, Class: "v1-tcp4", HdrLen: len(line),
		Src: netip.AddrPortFrom(src, sp), Dst: netip.AddrPortFrom(dst, dp)}
	if f[0] == "TCP6" {
		v.Class = "v1-tcp6"
		v.Mapped = src.Is4In6() || dst.Is4In6()
	}
	return v
}

func c46ClassifyV2(stream []byte, limit int) c46Verdict {
	rej := func(c string) c46Verdict { return c46Verdict{Mode: c46Reject, Class: c} }
	if len(stream) < 13 {
		return rej("bad-v2-truncated")
	}
	vc := stream[12]
	if vc>>4 != 2 {
		return rej("bad-v2-version")
	}
	if vc&0x0F > 1 {
		return rej("bad-v2-command")
	}
	if vc&0x0F == 0 {
		// own class names for LOCAL so that findings about LOCAL stay apart
		rej = func(c string) c46Verdict { return c46Verdict{Mode: c46Reject, Class: "v2-local-bad"} }
	}
	if len(stream) < 16 {
		return rej("bad-v2-truncated")
	}
	fam := stream[13]
	if fam>>4 > 3 || fam&0x0F > 2 {
		if vc&0x0F == 0 {
			// LOCAL: "the family ... is ignored" vs "must be rejected as invalid": no firm opinion
			return c46Verdict{Mode: c46DontCare, Class: "v2-local-odd-family"}
		}
		return rej("bad-v2-family")
	}
	l := int(binary.BigEndian.Uint16(stream[14:16]))
	if 16+l > limit {
		return rej("bad-v2-oversize")
	}
	if 16+l > len(stream) {
		return rej("bad-v2-truncated")
	}
	blk := stream[16 : 16+l]
	if vc&0x0F == 0 {
		// LOCAL: "the receiver must accept this connection as valid and must use the
		// real connection endpoints and discard the protocol block including the
		// family which is ignored"
		return c46Verdict{Mode: c46Socket, Class: "v2-local", HdrLen: 16 + l}
	}
	switch fam {
	case 0x00:
		return c46Verdict{Mode: c46SocketOrReject, Class: "v2-proxy-unspec", HdrLen: 16 + l}
	case 0x11, 0x12:
		if l < 12 {
			return rej("bad-v2-short-len")
		}
		var s, d [4]byte
		copy(s[:], blk[0:4])
		copy(d[:], blk[4:8])
		v := c46Verdict{Mode: c46Advertised, Class: "v2-tcp4", HdrLen: 16 + l,
			Src: netip.AddrPortFrom(netip.AddrFrom4(s), binary.BigEndian.Uint16(blk[8:])),
			Dst: netip.AddrPortFrom(netip.AddrFrom4(d), binary.BigEndian.Uint16(blk[10:]))}
		if fam == 0x12 {
			v.Mode, v.Class = c46AdvSocketOrReject, "v2-udp4"
		}
		return v
	case 0x21, 0x22:
		if l < 36 {
			return rej("bad-v2-short-len")
		}
		var s, d [16]byte
		copy(s[:], blk[0:16])
		copy(d[:], blk[16:32])
		sa, da := netip.AddrFrom16(s), netip.AddrFrom16(d)
		v := c46Verdict{Mode: c46Advertised, Class: "v2-tcp6", HdrLen: 16 + l,
			Src:    netip.AddrPortFrom(sa, binary.BigEndian.Uint16(blk[32:])),
			Dst:    netip.AddrPortFrom(da, binary.BigEndian.Uint16(blk[34:])),
			Mapped: sa.Is4In6() || da.Is4In6()}
		if fam == 0x22 {
			v.Mode, v.Class = c46AdvSocketOrReject, "v2-udp6"
		}
		return v
	case 0x31, 0x32:
		if l < 216 {
			return rej("bad-v2-short-len")
		}
		return c46Verdict{Mode: c46SocketOrReject, Class: "v2-unix", HdrLen: 16 + l}
	}
	// AF set with UNSPEC transport or the reverse: not one of the listed combinations
	return c46Verdict{Mode: c46DontCare, Class: "v2-odd-family"}
}

package system

import (
	"bytes"
	"fmt"
	"net"
	"strings"
	"sync"
	"testing"
	"time"

	"verif/harness/internal/ref"
	"verif/harness/internal/sys"
)

// scripted backend responses keyed by request target
type respScript struct {
	Raw        []byte // full raw response bytes (nil: default 200)
	Bursts     []int  // when set: Raw is written in pieces of these lengths (rest at the end), paced
	CloseAfter bool
	// fault before answering
	Fault       string    // "", "close-before-response", "stall", "half-response"
	Early       bool      // respond right after the header section, without reading the body, then close
	NoCL        bool      // answer 200 without Content-Length (close-delimited), then close
	TailPauseMs int       // hold back the last 5 bytes of Raw (a chunked terminator) for that long
	Interim100  bool      // emit an unsolicited "100 Continue" before the final response
	EarlyKeep   bool      // respond (keep-alive) right after the header section, then go on reading the request
	Seq         *faultSeq // when set: the k-th arrival of this target (at any backend) gets faults[k]
}

type faultSeq struct {
	mu     sync.Mutex
	faults []string
	k      int
}

func (f *faultSeq) next() string {
	f.mu.Lock()
	defer f.mu.Unlock()
	if f.k < len(f.faults) {
		f.k++
		return f.faults[f.k-1]
	}
	f.k++
	return ""
}

func (f *faultSeq) peek() string {
	f.mu.Lock()
	defer f.mu.Unlock()
	if f.k < len(f.faults) {
		return f.faults[f.k]
	}
	return ""
}

// peekTarget waits until the header section starting at off is complete and returns the request target ("" on failure).
func peekTarget(bc *sys.BackendConn, off int, d time.Duration) string {
	deadline := time.Now().Add(d)
	for {
		b := bc.Bytes()
		if len(b) > off {
			if i := bytes.Index(b[off:], []byte("\r\n\r\n")); i >= 0 {
				line := b[off:]
				if j := bytes.Index(line, []byte("\r\n")); j >= 0 {
					parts := strings.Split(string(line[:j]), " ")
					if len(parts) == 3 {
						return parts[1]
					}
				}
				return ""
			}
		}
		if bc.EOF() || time.Now().After(deadline) {
			return ""
		}
		bc.Fill(time.Until(deadline))
	}
}

type world struct {
	rig      *sys.Rig
	backends []*sys.Backend
	mu       sync.Mutex
	scripts  map[string]*respScript // by request target
	seen     map[string][]seenReq   // by request target
	holdCh   chan struct{}          // "hold" fault: backends wait until this is closed
}

type seenReq struct {
	Backend string
	Conn    *sys.BackendConn
	Off     int
	Msg     *ref.Message
	Err     error // parse error (Msg nil)
}

var W *world

func (w *world) script(target string) *respScript {
	w.mu.Lock()
	defer w.mu.Unlock()
	return w.scripts[target]
}

func (w *world) setScript(target string, s *respScript) {
	w.mu.Lock()
	w.scripts[target] = s
	w.mu.Unlock()
}

func (w *world) note(target string, s seenReq) {
	w.mu.Lock()
	w.seen[target] = append(w.seen[target], s)
	w.mu.Unlock()
}

func (w *world) seenFor(target string) []seenReq {
	w.mu.Lock()
	defer w.mu.Unlock()
	return append([]seenReq(nil), w.seen[target]...)
}

func (w *world) forget(target string) {
	w.mu.Lock()
	delete(w.seen, target)
	delete(w.scripts, target)
	w.mu.Unlock()
}

// handler: parse requests strictly with the reference parser; answer from the script.
func (w *world) handler(name string) func(bc *sys.BackendConn) {
	return func(bc *sys.BackendConn) {
		off := 0
		for {
			answered := false
			if tgt := peekTarget(bc, off, 15*time.Second); tgt != "" {
				if sc := w.script(tgt); sc != nil && sc.EarlyKeep {
					// answer before the body arrived, keep the connection and keep reading
					w.note(tgt, seenReq{Backend: name, Conn: bc, Off: off})
					fmt.Fprintf(bc.Conn, "HTTP/1.1 200 OK\r\nContent-Length: 5\r\nX-Echo-Target: %s\r\n\r\nearly", tgt)
					answered = true
				} else if sc != nil && sc.Early {
					// answer as soon as the header section is complete, never read the body
					w.note(tgt, seenReq{Backend: name, Conn: bc, Off: off})
					fmt.Fprintf(bc.Conn, "HTTP/1.1 200 OK\r\nContent-Length: 5\r\nX-Echo-Target: %s\r\nConnection: close\r\n\r\nearly", tgt)
					return
				} else if sc != nil && sc.Seq != nil && sc.Seq.peek() == "rst-on-header" {
					// abort the connection (RST) as soon as the header section arrived, while
					// the proxy is still streaming the request body
					sc.Seq.next()
					w.note(tgt, seenReq{Backend: name, Conn: bc, Off: off})
					if tc, ok := bc.Conn.(*net.TCPConn); ok {
						tc.SetLinger(0)
					}
					bc.Conn.Close()
					return
				}
			}
			m, err := bc.ReadRequest(off, 15*time.Second)
			if err != nil {
				if err != ref.ErrIncomplete || len(bc.Bytes()) > off {
					// malformed or truncated bytes: record them under a pseudo target so oracles can see them
					w.note("!malformed", seenReq{Backend: name, Conn: bc, Off: off, Err: err})
				}
				return
			}
			if answered {
				off += m.ConsumedLen
				continue
			}
			w.note(m.Target, seenReq{Backend: name, Conn: bc, Off: off, Msg: m})
			off += m.ConsumedLen
			sc := w.script(m.Target)
			if sc != nil {
				fault := sc.Fault
				if sc.Seq != nil {
					fault = sc.Seq.next()
				}
				switch fault {
				case "close-before-response":
					return
				case "stall":
					time.Sleep(3 * time.Second)
					return
				case "hold":
					w.mu.Lock()
					ch := w.holdCh
					w.mu.Unlock()
					if ch != nil {
						select {
						case <-ch:
						case <-time.After(20 * time.Second):
						}
					}
				case "half-response":
					bc.Conn.Write([]byte("HTTP/1.1 200 OK\r\nContent-Le"))
					return
				}
			}
			if sc != nil && sc.Interim100 {
				bc.Conn.Write([]byte("HTTP/1.1 100 Continue\r\n\r\n"))
			}
			if sc != nil && sc.Raw != nil {
				if len(sc.Bursts) > 0 {
					// deliver the response in separate writes, paced so that the proxy sees
					// them as separate reads (pacing only shapes coverage, never a verdict)
					rest := sc.Raw
					for _, n := range sc.Bursts {
						if n > len(rest) {
							n = len(rest)
						}
						if n > 0 {
							bc.Conn.Write(rest[:n])
							rest = rest[n:]
							time.Sleep(1500 * time.Microsecond)
						}
					}
					if sc.TailPauseMs > 0 && len(rest) > 5 {
						bc.Conn.Write(rest[:len(rest)-5])
						time.Sleep(time.Duration(sc.TailPauseMs) * time.Millisecond)
						rest = rest[len(rest)-5:]
					}
					bc.Conn.Write(rest)
				} else if sc.TailPauseMs > 0 && len(sc.Raw) > 5 {
					bc.Conn.Write(sc.Raw[:len(sc.Raw)-5])
					time.Sleep(time.Duration(sc.TailPauseMs) * time.Millisecond)
					bc.Conn.Write(sc.Raw[len(sc.Raw)-5:])
				} else {
					bc.Conn.Write(sc.Raw)
				}
				if sc.CloseAfter {
					return
				}
				continue
			}
			body := "ok " + name
			if sc != nil && sc.NoCL {
				// close-delimited answer without Content-Length
				fmt.Fprintf(bc.Conn, "HTTP/1.1 200 OK\r\nX-Backend: %s\r\nX-Echo-Target: %s\r\n\r\n", name, m.Target)
				if m.Method != "HEAD" {
					bc.Conn.Write([]byte(body))
				}
				return
			}
			// a kept-alive connection that has carried a lot of data is retired politely, so
			// that the recorded byte log of one connection stays bounded
			retire := ""
			if off > 4<<20 {
				retire = "Connection: close\r\n"
			}
			if m.Method == "HEAD" {
				fmt.Fprintf(bc.Conn, "HTTP/1.1 200 OK\r\nContent-Length: %d\r\nX-Backend: %s\r\nX-Echo-Target: %s\r\n%s\r\n", len(body), name, m.Target, retire)
			} else {
				fmt.Fprintf(bc.Conn, "HTTP/1.1 200 OK\r\nContent-Length: %d\r\nX-Backend: %s\r\nX-Echo-Target: %s\r\n%s\r\n%s", len(body), name, m.Target, retire, body)
			}
			if retire != "" {
				return
			}
		}
	}
}

// startWorld starts the rig with n backends in one cluster "c" (one sub-cluster) unless conf is given.
func startWorld(t *testing.T, nBackends int, o sys.Options, mk func(ports []int) *sys.DataConf) *world {
	t.Helper()
	w := &world{scripts: map[string]*respScript{}, seen: map[string][]seenReq{}}
	var ports []int
	for i := 0; i < nBackends; i++ {
		name := fmt.Sprintf("b%d", i)
		b, err := sys.NewBackend(name, w.handler(name))
		if err != nil {
			t.Fatal(err)
		}
		w.backends = append(w.backends, b)
		ports = append(ports, b.Port)
	}
	if mk != nil {
		o.Data = mk(ports)
	} else {
		cl := sys.Cluster{Name: "c"}
		sc := sys.SubCluster{Name: "c.sub", Weight: 100}
		for i, p := range ports {
			sc.Backends = append(sc.Backends, sys.BackendSpec{Name: fmt.Sprintf("b%d", i), Addr: "127.0.0.1", Port: p, Weight: 10})
		}
		cl.Sub = []sys.SubCluster{sc}
		o.Data = sys.SimpleConf("v0", []sys.Cluster{cl}, nil)
	}
	rig, err := sys.Start(o)
	if err != nil {
		t.Fatalf("rig start: %v", err)
	}
	w.rig = rig
	W = w
	return w
}

// exchange sends raw bytes on a fresh client connection and returns everything BFE
// answered until it closed the connection or `wait` passed without a close.
func (w *world) exchange(raw []byte, wait time.Duration) (resp []byte, closed bool, err error) {
	c, err := w.rig.Dial()
	if err != nil {
		return nil, false, err
	}
	defer c.Close()
	if _, err := c.Write(raw); err != nil {
		return nil, false, err
	}
	resp, closed = sys.ReadAllTimeout(c, wait)
	return resp, closed, nil
}

// exchangeOne sends one request and reads until one complete response was parsed
// (or close / timeout). Returns the response bytes and whether BFE closed.
func (w *world) exchangeOne(raw []byte, method string, wait time.Duration) (resp []byte, m *ref.Message, closed bool, err error) {
	c, err := w.rig.Dial()
	if err != nil {
		return nil, nil, false, err
	}
	defer c.Close()
	if _, err := c.Write(raw); err != nil {
		return nil, nil, false, err
	}
	return readOneResponse(c, method, wait)
}

func readOneResponse(c net.Conn, method string, wait time.Duration) (resp []byte, m *ref.Message, closed bool, err error) {
	// `wait` bounds the time WITHOUT PROGRESS (no new byte), not the total time: a
	// slow transfer on a loaded machine is not a stall. A hard cap keeps the case bounded.
	hardCap := time.Now().Add(wait * 12)
	lastProgress := time.Now()
	buf := make([]byte, 256*1024)
	nextTry := 0 // re-parse only when the buffer grew noticeably, on a quiet tick, or on close
	for {
		if len(resp) > 0 && (len(resp) >= nextTry || closed) {
			pm, perr := ref.ParseResponse(resp, method, closed)
			if perr == nil {
				return resp, pm, closed, nil
			}
			if perr != ref.ErrIncomplete {
				return resp, nil, closed, perr
			}
			nextTry = len(resp) + len(resp)/4 + 1
		}
		if closed {
			return resp, nil, true, ref.ErrIncomplete
		}
		c.SetReadDeadline(time.Now().Add(150 * time.Millisecond))
		n, rerr := c.Read(buf)
		resp = append(resp, buf[:n]...)
		if n > 0 {
			lastProgress = time.Now()
		}
		if rerr != nil {
			if ne, ok := rerr.(net.Error); ok && ne.Timeout() {
				nextTry = 0 // quiet tick: the message may be complete
				if time.Since(lastProgress) > wait || time.Now().After(hardCap) {
					if pm, perr := ref.ParseResponse(resp, method, false); perr == nil {
						return resp, pm, false, nil
					}
					return resp, nil, false, fmt.Errorf("timeout waiting for response (have %d bytes, no progress for %v)", len(resp), time.Since(lastProgress).Round(time.Millisecond))
				}
				continue
			}
			closed = true
		}
	}
}

func lowerFields(m *ref.Message) map[string][]string {
	out := map[string][]string{}
	for _, f := range m.Fields {
		k := strings.ToLower(f.Name)
		out[k] = append(out[k], f.Value)
	}
	return out
}

var _ = bytes.Equal

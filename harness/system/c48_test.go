package system

import (
	"fmt"
	"strings"
	"testing"
	"time"

	"github.com/bfenetworks/bfe/bfe_module"
	"pgregory.net/rapid"

	"verif/harness/internal/ev"
	"verif/harness/internal/ref"
	"verif/harness/internal/sys"
)

// C48: module callbacks run in order and verdicts are honoured.

var c48Points = []int{bfe_module.HandleBeforeLocation, bfe_module.HandleFoundProduct, bfe_module.HandleAfterLocation,
	bfe_module.HandleForward, bfe_module.HandleReadResponse, bfe_module.HandleRequestFinish}

func c48Legal(point int) []int {
	switch point {
	case bfe_module.HandleBeforeLocation, bfe_module.HandleFoundProduct, bfe_module.HandleAfterLocation:
		return []int{bfe_module.BfeHandlerClose, bfe_module.BfeHandlerFinish, bfe_module.BfeHandlerRedirect, bfe_module.BfeHandlerResponse}
	case bfe_module.HandleForward:
		return []int{bfe_module.BfeHandlerFinish}
	case bfe_module.HandleReadResponse:
		return []int{bfe_module.BfeHandlerFinish, bfe_module.BfeHandlerRedirect}
	}
	return []int{bfe_module.BfeHandlerFinish}
}

var verdictName = map[int]string{bfe_module.BfeHandlerFinish: "Finish", bfe_module.BfeHandlerGoOn: "GoOn", bfe_module.BfeHandlerRedirect: "Redirect",
	bfe_module.BfeHandlerResponse: "Response", bfe_module.BfeHandlerClose: "Close"}

func TestC48(t *testing.T) {
	rec := ev.New("C48", "4 harness-registered filters per callback point (HandleAccept, BeforeLocation, FoundProduct, AfterLocation, Forward, ReadResponse, RequestFinish) on a real in-process BFE; per request (bodyless GET, POST with body, POST with Expect: 100-continue) one point gets a generated verdict chain (GoOn* then a verdict legal for that point's handler type, followed by further non-GoOn verdicts that must never run) and optionally a second point (HandleRequestFinish) returns Finish at a generated slot; oracle: invocation log per point is slots 0..first-non-GoOn in order, and the client/backends observe the documented effect of that verdict. non-trivial: chain with a non-GoOn verdict not in the last slot; distinct by point+chain")
	w := startWorld(t, 1, sys.Options{AfterInit: installFilters}, nil)
	n := 0
	rapid.Check(t, func(rt *rapid.T) {
		n++
		target := fmt.Sprintf("/c48/%d", n)
		pi := rapid.IntRange(-1, len(c48Points)-1).Draw(rt, "point") // -1 = HandleAccept
		stop := rapid.IntRange(0, nSlots).Draw(rt, "stopslot")       // nSlots = all GoOn
		s := &filtScript{V: map[int][]int{}, RespStatus: rapid.SampledFrom([]int{200, 403, 418, 503}).Draw(rt, "rstatus"),
			RespBody: rapid.StringMatching(`[a-z]{0,30}`).Draw(rt, "rbody"), RespHeader: map[string]string{"X-Mod": fmt.Sprint(n)},
			RedirURL: fmt.Sprintf(rapid.SampledFrom([]string{"http://r.example/x%d", "http://r.example/x%d", "https://r.example/a%%20b/%d?k=v%%26w", "/login%%3Fnext=/admin/%d", "/p%%2Fq/r%d", "/x%%20y/%d?k=v%%26w", "/plain/%d?a=1"}).Draw(rt, "redirect-target"), n), RedirCode: rapid.SampledFrom([]int{301, 302, 307}).Draw(rt, "rcode")}
		verdict := bfe_module.BfeHandlerGoOn
		var chain []int
		point := bfe_module.HandleAccept
		if pi >= 0 {
			point = c48Points[pi]
		}
		legal := []int{bfe_module.BfeHandlerClose}
		if pi >= 0 {
			legal = c48Legal(point)
		}
		for slot := 0; slot < nSlots; slot++ {
			switch {
			case slot < stop:
				chain = append(chain, bfe_module.BfeHandlerGoOn)
			case slot == stop:
				verdict = rapid.SampledFrom(legal).Draw(rt, "verdict")
				chain = append(chain, verdict)
			default:
				chain = append(chain, rapid.SampledFrom(legal).Draw(rt, "later"))
			}
		}
		var names []string
		for _, v := range chain {
			names = append(names, verdictName[v])
		}
		pname := bfe_module.CallbackPointName(point)
		// the request: bodyless GET, POST with a body, or POST announcing its body with Expect: 100-continue
		reqKind := rapid.SampledFrom([]string{"get", "get", "post", "post-expect", "get-after-keepalive", "upgrade-after-keepalive"}).Draw(rt, "request")
		if pi < 0 && strings.HasSuffix(reqKind, "-after-keepalive") {
			reqKind = "get" // a Close verdict at HandleAccept leaves no connection to send a first request on
		}
		// optionally a second point cooperates: a Finish verdict somewhere in the HandleRequestFinish chain
		rfStop := -1
		if pi >= 0 && point != bfe_module.HandleRequestFinish && rapid.IntRange(0, 2).Draw(rt, "finish-at-requestfinish") == 0 {
			rfStop = rapid.IntRange(0, nSlots-1).Draw(rt, "rf-stopslot")
		}
		nontrivial := stop < nSlots-1
		rec.Case(fmt.Sprintf("%s:%s|%s|rf%d", pname, strings.Join(names, ","), reqKind, rfStop), nontrivial, "point:"+pname, "verdict:"+verdictName[verdict], "request:"+reqKind, fmt.Sprintf("second-point-finish:%v", rfStop >= 0))
		rec.Sample(map[string]any{"point": pname, "chain": names, "request": reqKind, "finish_slot_at_HandleRequestFinish": rfStop})
		wit := map[string]any{"point": pname, "chain": names, "target": target, "request": reqKind, "finish_slot_at_HandleRequestFinish": rfStop}

		if pi >= 0 {
			s.V[point] = chain
		}
		if rfStop >= 0 {
			rf := make([]int, rfStop+1)
			for i := range rf {
				rf[i] = bfe_module.BfeHandlerGoOn
			}
			rf[rfStop] = bfe_module.BfeHandlerFinish
			s.V[bfe_module.HandleRequestFinish] = rf
		}
		hub.set(target, s)
		defer hub.del(target)
		hub.mu.Lock()
		if pi < 0 {
			hub.acceptVerdict = chain
		} else {
			hub.acceptVerdict = nil
		}
		hub.acceptLog = nil
		hub.mu.Unlock()

		c, err := w.rig.Dial()
		if err != nil {
			rt.Fatalf("rig: %v", err)
		}
		defer c.Close()
		method := "GET"
		if strings.HasSuffix(reqKind, "-after-keepalive") {
			// an ordinary request first (no scripted verdicts); the request under test is then not
			// the first one on its connection
			pre := target + "/pre"
			fmt.Fprintf(c, "GET %s HTTP/1.1\r\nHost: example.org\r\n\r\n", pre)
			_, pm, pclosed, pperr := readOneResponse(c, "GET", 8*time.Second)
			w.forget(pre)
			if pperr != nil || pm == nil || pm.Status != 200 || pclosed {
				rt.Fatalf("rig: preliminary request failed: %v", pperr)
			}
		}
		switch reqKind {
		case "get-after-keepalive":
			fmt.Fprintf(c, "GET %s HTTP/1.1\r\nHost: example.org\r\n\r\n", target)
		case "upgrade-after-keepalive":
			// only the first request of a connection can start a WebSocket tunnel; a later one
			// carrying upgrade headers is an ordinary request and goes through the callbacks
			fmt.Fprintf(c, "GET %s HTTP/1.1\r\nHost: example.org\r\nUpgrade: websocket\r\nConnection: Upgrade\r\nSec-WebSocket-Key: dGhlIHNhbXBsZSBub25jZQ==\r\nSec-WebSocket-Version: 13\r\n\r\n", target)
		case "get":
			fmt.Fprintf(c, "GET %s HTTP/1.1\r\nHost: example.org\r\n\r\n", target)
		case "post":
			method = "POST"
			fmt.Fprintf(c, "POST %s HTTP/1.1\r\nHost: example.org\r\nContent-Length: 4\r\n\r\nbody", target)
		case "post-expect":
			method = "POST"
			fmt.Fprintf(c, "POST %s HTTP/1.1\r\nHost: example.org\r\nExpect: 100-continue\r\nContent-Length: 4\r\n\r\n", target)
		}
		// read one response if any; then learn whether BFE closes
		respBytes, m, closed, perr := readOneResponse(c, method, 8*time.Second)
		sentBody := false
		if reqKind == "post-expect" && perr == nil && m != nil && m.Status == 100 {
			// BFE solicits the body: legitimate only when somebody is going to read it, i.e.
			// when the request is being proxied - not when a module answers the request itself
			moduleAnswers := pi >= 0 && pi <= 2 && (verdict == bfe_module.BfeHandlerResponse || verdict == bfe_module.BfeHandlerRedirect || verdict == bfe_module.BfeHandlerClose)
			if moduleAnswers {
				wit["client_got"] = clipS(respBytes)
				rec.Fail(rt, "interim-100-before-module-verdict:"+pname, wit, "%s verdict at %s: the client was sent \"100 Continue\" instead of exactly the module's answer", verdictName[verdict], pname)
				return
			}
			c.Write([]byte("body"))
			sentBody = true
			var rb []byte
			rb, m, closed, perr = readOneResponse(c, method, 8*time.Second)
			respBytes = rb
		}
		if reqKind == "post-expect" && !sentBody && perr == nil && !closed {
			// final response without a 100: like a client that gives up waiting, send the announced
			// body anyway (RFC 7231 5.1.1), so that BFE is not left waiting for it until its read timeout
			c.Write([]byte("body"))
		}
		if (reqKind == "post" || reqKind == "post-expect") && perr == nil && !closed {
			// after a request with a body the sentinel probe is not used (an unread body makes
			// closing legitimate); just learn whether BFE closes by itself
			waitClose := 300 * time.Millisecond
			if verdict == bfe_module.BfeHandlerFinish || rfStop >= 0 {
				waitClose = 6 * time.Second // a close is due: give it time (returns as soon as it happens)
			}
			more, cl := sys.ReadAllTimeout(c, waitClose)
			closed = cl && len(more) == 0
			if len(more) > 0 {
				wit["after"] = clipS(more)
				rec.Fail(rt, "garbage-after-response:"+pname, wit, "bytes after the response: %q", clipS(more))
				return
			}
		} else if perr == nil && !closed {
			// does BFE keep the connection open? a sentinel answers that deterministically
			fmt.Fprintf(c, "GET %s/s HTTP/1.1\r\nHost: example.org\r\nConnection: close\r\n\r\n", target)
			more, _ := sys.ReadAllTimeout(c, 8*time.Second)
			if len(more) == 0 {
				closed = true
			} else if sm, serr := ref.ParseResponse(more, "GET", true); serr != nil || sm.Status != 200 {
				wit["after"] = clipS(more)
				rec.Fail(rt, "garbage-after-response:"+pname, wit, "bytes after the response are not the sentinel's answer: %q", clipS(more))
				return
			}
			w.forget(target + "/s")
		}
		hub.mu.Lock()
		hub.acceptVerdict = nil
		alog := append([]string(nil), hub.acceptLog...)
		hub.mu.Unlock()
		log := s.logCopy()
		if pi < 0 {
			log = append(alog, log...)
		}
		seen := w.seenFor(target)
		w.forget(target)
		wit["log"] = log
		wit["client_got"] = clipS(respBytes)
		wit["backend_contacts"] = len(seen)

		// (1) order within every point that ran: slots 0..k consecutive, stopping at the first non-GoOn
		perPoint := map[string][]string{}
		var order []string
		for _, e := range log {
			p := e[:strings.IndexByte(e, '/')]
			if _, ok := perPoint[p]; !ok {
				order = append(order, p)
			}
			perPoint[p] = append(perPoint[p], e)
		}
		for p, es := range perPoint {
			wantN := nSlots
			if p == pname && stop < nSlots {
				wantN = stop + 1
			} else if p == "HandleRequestFinish" && rfStop >= 0 {
				wantN = rfStop + 1
			}
			if len(es) != wantN {
				if !rec.Fail(rt, "chain-length:"+p, wit, "at %s %d filters ran, want %d (chain %v)", p, len(es), wantN, names) {
					return
				}
			}
			for i, e := range es {
				if e != fmt.Sprintf("%s/%d", p, i) {
					if !rec.Fail(rt, "chain-order:"+p, wit, "at %s invocation %d was %s", p, i, e) {
						return
					}
				}
			}
		}
		// points run in pipeline order
		idx := map[string]int{"HandleAccept": -1}
		for i, p := range c48Points {
			idx[bfe_module.CallbackPointName(p)] = i
		}
		for i := 1; i < len(order); i++ {
			if idx[order[i]] < idx[order[i-1]] {
				if !rec.Fail(rt, "point-order", wit, "callback points ran out of order: %v", order) {
					return
				}
			}
		}
		// (2) effect of the first non-GoOn verdict
		isReqPoint := pi >= 0 && pi <= 2
		switch {
		case verdict == bfe_module.BfeHandlerGoOn:
			if perr != nil || m == nil || m.Status != 200 || len(seen) != 1 {
				rec.Fail(rt, "all-goon-not-proxied", wit, "all filters said GoOn but the request was not proxied normally (err=%v)", perr)
				return
			}
			ran := 0
			for _, p := range order {
				if p != "HandleAccept" {
					ran++
				}
			}
			if ran != len(c48Points) {
				if !rec.Fail(rt, "point-skipped", wit, "with GoOn everywhere only these points ran: %v", order) {
					return
				}
			}
		case verdict == bfe_module.BfeHandlerClose:
			if len(respBytes) != 0 || !closed {
				if !rec.Fail(rt, "close-sent-data:"+pname, wit, "Close verdict at %s but client received %d bytes (closed=%v)", pname, len(respBytes), closed) {
					return
				}
			}
			if len(seen) != 0 {
				rec.Fail(rt, "close-contacted-backend:"+pname, wit, "Close verdict at %s but a backend was contacted", pname)
				return
			}
		case verdict == bfe_module.BfeHandlerRedirect:
			if perr != nil || m == nil || m.Status != s.RedirCode || len(m.Get("Location")) != 1 || m.Get("Location")[0] != s.RedirURL {
				rec.Fail(rt, "redirect-not-sent:"+pname, wit, "Redirect verdict at %s: client got err=%v msg=%+v", pname, perr, m)
				return
			}
			if isReqPoint && len(seen) != 0 {
				rec.Fail(rt, "redirect-contacted-backend:"+pname, wit, "Redirect verdict at %s but a backend was contacted", pname)
				return
			}
			// "exactly that response": nothing of a backend response may be mixed into the redirect
			if strings.Contains(string(respBytes), "ok b0") || m.Has("X-Backend") {
				rec.Fail(rt, "redirect-mixed-with-backend-response:"+pname, wit, "Redirect verdict at %s: the client's response carries parts of the backend's response: %q", pname, clipS(respBytes))
				return
			}
		case verdict == bfe_module.BfeHandlerResponse:
			if perr != nil || m == nil || m.Status != s.RespStatus || string(m.Body) != s.RespBody || len(m.Get("X-Mod")) != 1 || m.Get("X-Mod")[0] != fmt.Sprint(n) {
				rec.Fail(rt, "response-not-sent:"+pname, wit, "Response verdict at %s (status %d body %q): client got err=%v msg=%+v", pname, s.RespStatus, s.RespBody, perr, m)
				return
			}
			if len(seen) != 0 {
				rec.Fail(rt, "response-contacted-backend:"+pname, wit, "Response verdict at %s but a backend was contacted", pname)
				return
			}
		case verdict == bfe_module.BfeHandlerFinish:
			if !closed {
				if !rec.Fail(rt, "finish-not-closed:"+pname, wit, "Finish verdict at %s but the connection stayed open", pname) {
					return
				}
			}
			if perr != nil && len(respBytes) > 0 {
				if !rec.Fail(rt, "finish-bad-reply:"+pname, wit, "Finish verdict at %s: reply does not parse: %v", pname, perr) {
					return
				}
			}
			if m != nil && len(respBytes) > m.ConsumedLen {
				if !rec.Fail(rt, "finish-extra-bytes:"+pname, wit, "Finish verdict at %s: more than one response", pname) {
					return
				}
			}
			if (isReqPoint || point == bfe_module.HandleForward) && len(seen) != 0 {
				rec.Fail(rt, "finish-contacted-backend:"+pname, wit, "Finish verdict at %s but a backend was contacted", pname)
				return
			}
		}
		// the cooperating second point: whatever ended the request earlier, a Finish verdict in the
		// HandleRequestFinish chain closes the connection after the reply
		if rfStop >= 0 && verdict != bfe_module.BfeHandlerClose && !closed {
			rec.Fail(rt, "finish-not-closed:HandleRequestFinish-after-"+verdictName[verdict]+"@"+pname, wit, "a filter at HandleRequestFinish returned Finish (after %s at %s) but the connection stayed open", verdictName[verdict], pname)
		}
	})
}

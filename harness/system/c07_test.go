package system

import (
	"crypto/tls"
	"fmt"
	"io"
	"net"
	"strings"
	"sync"
	"testing"
	"time"

	"github.com/bfenetworks/bfe/bfe_module"
	"pgregory.net/rapid"

	"verif/harness/internal/ev"
	"verif/harness/internal/sys"
)

// C07: active-connection counts match in-flight requests.

func connNums() (sum int, min int, detail string) {
	var parts []string
	min = 0
	for _, b := range hub.knownBackends() {
		n := b.ConnNum()
		sum += n
		if n < min {
			min = n
		}
		parts = append(parts, fmt.Sprintf("%s=%d", b.Name, n))
	}
	return sum, min, strings.Join(parts, " ")
}

// waitZero polls until every known backend reports 0 (FinishReq runs after the client
// already has its response) or a negative count shows up; returns the last detail.
func waitQuiescent(d time.Duration) (sum, min int, detail string) {
	deadline := time.Now().Add(d)
	for {
		sum, min, detail = connNums()
		if min < 0 || sum == 0 || time.Now().After(deadline) {
			return
		}
		time.Sleep(time.Millisecond)
	}
}

// c07Hold describes the generated part of the "chold" cluster's backend table
// (reloaded while requests are held): per-port name suffix and weight, plus an optional
// extra member on a refused port.
type c07Hold struct {
	Rename [3]int // name generation of the backend on ports[i] (h<i> / h<i>-r<gen>)
	Weight [3]int // 0 = default 10
	Dead   bool
}

func c07Conf(version string, p []int, hv c07Hold) *sys.DataConf {
	cl := sys.Cluster{Name: "c", RetryMax: 2, CrossRetry: 0, RetryLevel: 1, TimeoutResponseHeaderMs: 250, TimeoutConnSrvMs: 500, BalanceMode: "WLC"}
	sc := sys.SubCluster{Name: "s0", Weight: 100}
	for i, port := range p[:3] {
		sc.Backends = append(sc.Backends, sys.BackendSpec{Name: fmt.Sprintf("b%d", i), Addr: "127.0.0.1", Port: port, Weight: 10})
	}
	sc.Backends = append(sc.Backends, sys.BackendSpec{Name: "dead0", Addr: "127.0.0.1", Port: 1, Weight: 10})
	cl.Sub = []sys.SubCluster{sc}
	// "flap" cluster: one backend that the health state machine takes out of rotation after
	// two request failures and brings back after one successful TCP probe (every 20 ms)
	fl := sys.Cluster{Name: "cflap", RetryMax: 0, RetryLevel: 0, TimeoutResponseHeaderMs: 30000, TimeoutConnSrvMs: 500, FailNum: 2, CheckIntervalMs: 20,
		Sub: []sys.SubCluster{{Name: "sf", Weight: 100, Backends: []sys.BackendSpec{{Name: "bflap", Addr: "127.0.0.1", Port: p[3], Weight: 10}}}}}
	// "hold" cluster: same backends as c, but a response header timeout long enough for a
	// batch of requests to be parked inside backends however loaded the machine is (RetryMax 3:
	// a request that first meets the refused member a reload may add moves on to a live one)
	hl := sys.Cluster{Name: "chold", RetryMax: 3, RetryLevel: 0, FailNum: 1, CheckIntervalMs: 1000, TimeoutResponseHeaderMs: 30000, TimeoutConnSrvMs: 2000, BalanceMode: "WLC"}
	hsc := sys.SubCluster{Name: "sh", Weight: 100}
	for i, port := range p[:3] {
		name := fmt.Sprintf("h%d", i)
		if hv.Rename[i] > 0 {
			name = fmt.Sprintf("h%d-r%d", i, hv.Rename[i])
		}
		wt := hv.Weight[i]
		if wt == 0 {
			wt = 10
		}
		hsc.Backends = append(hsc.Backends, sys.BackendSpec{Name: name, Addr: "127.0.0.1", Port: port, Weight: wt})
	}
	if hv.Dead {
		hsc.Backends = append(hsc.Backends, sys.BackendSpec{Name: "hdead", Addr: "127.0.0.1", Port: 2, Weight: 10})
	}
	hl.Sub = []sys.SubCluster{hsc}
	d := sys.SimpleConf(version, []sys.Cluster{cl, fl, hl}, []sys.Rule{
		{Cond: `req_path_prefix_in("/c07h/", false)`, Cluster: "chold"},
		{Cond: `req_path_prefix_in("/c07f/", false)`, Cluster: "cflap"},
		{Cond: `default_t()`, Cluster: "c"},
	})
	d.DefaultProduct = "p" // TLS stream connections carry no host
	return d
}

// balancerCounts reads ConnNum of the backend objects the balancer of a cluster currently
// schedules over (what least-connection balancing uses), keyed by port.
func balancerCounts(w *world, cluster string) (map[int]int, string) {
	out := map[int]int{}
	var parts []string
	bal, err := w.rig.Srv.VerifBalTable().Lookup(cluster)
	if err != nil {
		return out, "lookup: " + err.Error()
	}
	for i := 0; i < bal.SubClusterNum(); i++ {
		_, brr := bal.VerifSubClusterAt(i)
		if brr == nil {
			continue
		}
		for j := 0; j < brr.Len(); j++ {
			b := brr.VerifBackendAt(j)
			out[b.Port] += b.ConnNum()
			parts = append(parts, fmt.Sprintf("%s:%d=%d", b.Name, b.Port, b.ConnNum()))
		}
	}
	return out, strings.Join(parts, " ")
}

// settle waits (bounded) until no counter is above zero any more: an inconclusive case
// must not leave requests in flight that the next case would count as its own.
func settle(w *world) {
	waitQuiescent(8 * time.Second)
	deadline := time.Now().Add(8 * time.Second)
	for time.Now().Before(deadline) {
		busy := false
		for _, cl := range []string{"c", "chold", "cflap"} {
			cnt, _ := balancerCounts(w, cl)
			for _, v := range cnt {
				busy = busy || v != 0
			}
		}
		if !busy {
			return
		}
		time.Sleep(2 * time.Millisecond)
	}
}

func TestC07(t *testing.T) {
	rec := ev.New("C07", "requests through an in-process BFE whose cluster mixes live harness backends and refused ports (RetryMax 2, retry-GET); per request a generated per-arrival backend fault script (close before response, header timeout, half response, good) and a generated module verdict (Finish at HandleForward, Response/Redirect/Close/Finish at request points, Finish/Redirect at HandleReadResponse, Finish at HandleRequestFinish); plus batches of 2..6 concurrent requests held inside backends (optionally overlapped by backend-table reloads), a backend flapping through the health state machine while a request is held, and 1..3 WebSocket (http/https) or TLS-stream tunnels held open. Oracle: ConnNum() of every backend the balancer ever returned is never negative, equals the number of held requests while they are inside a backend exchange, and is 0 at quiescence. non-trivial: >=1 retry, or a forward-phase Finish, or a held batch; distinct by script")
	var ports []int
	w := startWorld(t, 4, sys.Options{AfterInit: installFilters, NextProtos: []string{"stream", "http/1.1"}}, func(p []int) *sys.DataConf {
		ports = p
		return c07Conf("v0", p, c07Hold{})
	})
	n := 0
	var holdVar c07Hold // current generated state of chold's backend table
	rapid.Check(t, func(rt *rapid.T) {
		n++
		mode := rapid.SampledFrom([]string{"single", "single", "single", "single", "single", "batch", "batch", "flap", "tunnel"}).Draw(rt, "mode")
		if mode == "flap" {
			// a request is held inside the backend while other requests' failures take the
			// backend out of rotation and the health checker brings it back
			nfail := rapid.IntRange(2, 4).Draw(rt, "nfail")
			rec.Case(fmt.Sprintf("flap%d", nfail), true, "flap")
			rec.Sample(map[string]any{"mode": "flap", "failures": nfail})
			w.mu.Lock()
			w.holdCh = make(chan struct{})
			hold := w.holdCh
			w.mu.Unlock()
			held := fmt.Sprintf("/c07f/%d/held", n)
			w.setScript(held, &respScript{Fault: "hold"})
			done := make(chan struct{})
			go func() {
				defer close(done)
				w.exchange([]byte(fmt.Sprintf("POST %s HTTP/1.1\r\nHost: example.org\r\nContent-Length: 2\r\nConnection: close\r\n\r\nhi", held)), 25*time.Second)
			}()
			release := func() {
				close(hold)
				<-done
				w.forget(held)
			}
			deadline := time.Now().Add(10 * time.Second)
			for len(w.seenFor(held)) == 0 {
				if time.Now().After(deadline) {
					release()
					settle(w)
					rec.Class("flap-inconclusive")
					return
				}
				time.Sleep(time.Millisecond)
			}
			for i := 0; i < nfail; i++ {
				tg := fmt.Sprintf("/c07f/%d/x%d", n, i)
				w.setScript(tg, &respScript{Fault: "close-before-response"})
				w.exchange([]byte(fmt.Sprintf("POST %s HTTP/1.1\r\nHost: example.org\r\nContent-Length: 2\r\nConnection: close\r\n\r\nhi", tg)), 10*time.Second)
				w.forget(tg)
			}
			// wait until the backend serves again (health checker brought it back)
			back := false
			for i := 0; i < 400 && !back; i++ {
				tg := fmt.Sprintf("/c07f/%d/p%d", n, i)
				resp, _, _ := w.exchange([]byte(fmt.Sprintf("GET %s HTTP/1.1\r\nHost: example.org\r\nConnection: close\r\n\r\n", tg)), 5*time.Second)
				w.forget(tg)
				back = strings.HasPrefix(string(resp), "HTTP/1.1 200")
				if !back {
					time.Sleep(10 * time.Millisecond)
				}
			}
			if !back {
				release()
				settle(w)
				rec.Class("flap-inconclusive")
				return
			}
			rec.Class("flap-backend-recovered")
			var heldCount = -1000
			detail := ""
			deadline = time.Now().Add(3 * time.Second)
			for {
				for _, b := range hub.knownBackends() {
					if b.Name == "bflap" {
						heldCount = b.ConnNum()
					}
				}
				_, _, detail = connNums()
				if heldCount == 1 || time.Now().After(deadline) {
					break
				}
				time.Sleep(time.Millisecond)
			}
			wit := map[string]any{"mode": "flap", "failures": nfail, "conn_nums_while_held": detail}
			release()
			if heldCount != 1 {
				if !rec.Fail(rt, "flap-held-count-mismatch", wit, "one request is inside the backend exchange after the backend flapped, but its ConnNum is %d (%s)", heldCount, detail) {
					return
				}
			}
			sum, min, detail := waitQuiescent(5 * time.Second)
			wit["conn_nums_after"] = detail
			if min < 0 || sum != 0 {
				rec.Fail(rt, "nonzero-after-flap", wit, "after the held request finished: %s", detail)
			}
			return
		}
		if mode == "tunnel" {
			// WebSocket upgrades (http/https) and TLS-offload stream connections take their backend
			// from the same balancer through their own connect loops (bfe_websocket, bfe_stream):
			// 1..3 tunnels are opened towards cluster c (which also has a refused member), held
			// inside the backend, counted, released
			k := rapid.IntRange(1, 3).Draw(rt, "tunnels")
			var kinds []string
			for i := 0; i < k; i++ {
				kinds = append(kinds, rapid.SampledFrom([]string{"ws", "wss", "stream"}).Draw(rt, "tunnel-kind"))
			}
			rec.Case(fmt.Sprintf("tunnel%v|%d", kinds, n), true, "tunnel")
			rec.Sample(map[string]any{"mode": "tunnel", "kinds": kinds})
			w.mu.Lock()
			w.holdCh = make(chan struct{})
			hold := w.holdCh
			w.mu.Unlock()
			var conns []net.Conn
			var targets []string
			for i, kind := range kinds {
				// WebSocket upgrades go to the hold cluster (30 s response header timeout: the held
				// backend answer must not be abandoned and retried); stream connections carry no
				// path and land on the default cluster c
				tg := fmt.Sprintf("/c07h/%d/t%d", n, i)
				targets = append(targets, tg)
				w.setScript(tg, &respScript{Fault: "hold"})
				var c net.Conn
				var err error
				switch kind {
				case "ws":
					c, err = w.rig.Dial()
				case "wss":
					c, err = sys.DialTLS(w.rig.HTTPSAddr, []string{"http/1.1"}, tls.VersionTLS12, tls.VersionTLS12)
				default:
					c, err = sys.DialTLS(w.rig.HTTPSAddr, []string{"stream"}, tls.VersionTLS12, tls.VersionTLS12)
				}
				if err != nil {
					rt.Fatalf("rig: dial %s: %v", kind, err)
				}
				conns = append(conns, c)
				if kind == "stream" {
					// opaque bytes for BFE; our backend happens to speak HTTP
					fmt.Fprintf(c, "GET %s HTTP/1.1\r\nHost: example.org\r\n\r\n", tg)
				} else {
					fmt.Fprintf(c, "GET %s HTTP/1.1\r\nHost: example.org\r\nUpgrade: websocket\r\nConnection: Upgrade\r\nSec-WebSocket-Key: dGhlIHNhbXBsZSBub25jZQ==\r\nSec-WebSocket-Version: 13\r\n\r\n", tg)
				}
			}
			closeAll := func() {
				close(hold)
				for _, c := range conns {
					c.SetReadDeadline(time.Now().Add(5 * time.Second))
					io.Copy(io.Discard, c)
					c.Close()
				}
				for _, tg := range targets {
					w.forget(tg)
				}
			}
			deadline := time.Now().Add(10 * time.Second)
			heldAt := map[int]int{}
			for {
				in := 0
				heldAt = map[int]int{}
				for _, tg := range targets {
					open := 0
					for _, sr := range w.seenFor(tg) {
						if sr.Conn.EOF() {
							continue // an attempt BFE has given up on
						}
						open++
						for i, b := range w.backends {
							if b.Name == sr.Backend {
								heldAt[ports[i]]++
							}
						}
					}
					if open == 1 {
						in++
					}
				}
				if in >= k {
					break
				}
				if time.Now().After(deadline) {
					closeAll()
					settle(w)
					rec.Class("tunnel-inconclusive")
					return
				}
				time.Sleep(time.Millisecond)
			}
			tunnelCounts := func() (map[int]int, string) {
				a, ad := balancerCounts(w, "c")
				b, bd := balancerCounts(w, "chold")
				for p, v := range b {
					a[p] += v
				}
				return a, ad + " | " + bd
			}
			balCnt, balDetail := tunnelCounts()
			wit := map[string]any{"mode": "tunnel", "kinds": kinds, "held_at_port": fmt.Sprint(heldAt), "balancer_conn_nums_while_open": balDetail}
			closeAll()
			for _, port := range ports[:3] {
				if balCnt[port] != heldAt[port] {
					if !rec.Fail(rt, "tunnel-count-mismatch", wit, "backend on port %d carries %d open tunnels but its count is %d (%s)", port, heldAt[port], balCnt[port], balDetail) {
						return
					}
				}
			}
			deadline = time.Now().Add(8 * time.Second)
			for {
				balCnt, balDetail = tunnelCounts()
				bad := false
				for _, v := range balCnt {
					bad = bad || v != 0
				}
				if !bad {
					break
				}
				if time.Now().After(deadline) {
					wit["balancer_conn_nums_after"] = balDetail
					rec.Fail(rt, "tunnel-nonzero-at-quiescence", wit, "all tunnels are closed but the counts are %s", balDetail)
					return
				}
				time.Sleep(2 * time.Millisecond)
			}
			for _, b := range w.backends {
				b.Reset()
			}
			return
		}
		if mode == "batch" {
			k := rapid.IntRange(2, 6).Draw(rt, "k")
			nreload := rapid.SampledFrom([]int{0, 0, 1, 2}).Draw(rt, "nreload")
			if nreload > 0 {
				rec.Case(fmt.Sprintf("batch%d+reload%d", k, nreload), true, "batch", "batch-with-table-reload")
			} else {
				rec.Case(fmt.Sprintf("batch%d", k), true, "batch")
			}
			rec.Sample(map[string]any{"mode": "batch", "k": k, "reloads_while_held": nreload})
			w.mu.Lock()
			w.holdCh = make(chan struct{})
			hold := w.holdCh
			w.mu.Unlock()
			var wg sync.WaitGroup
			var targets []string
			for i := 0; i < k; i++ {
				tg := fmt.Sprintf("/c07h/%d/h%d", n, i)
				targets = append(targets, tg)
				w.setScript(tg, &respScript{Fault: "hold"})
				wg.Add(1)
				go func() {
					defer wg.Done()
					w.exchange([]byte(fmt.Sprintf("POST %s HTTP/1.1\r\nHost: example.org\r\nContent-Length: 2\r\nConnection: close\r\n\r\nhi", tg)), 25*time.Second)
				}()
			}
			// wait until all k requests are inside a backend
			deadline := time.Now().Add(10 * time.Second)
			for {
				in := 0
				for _, tg := range targets {
					in += len(w.seenFor(tg))
				}
				if in >= k {
					break
				}
				if time.Now().After(deadline) {
					close(hold)
					wg.Wait()
					settle(w)
					rec.Class("batch-inconclusive")
					return
				}
				time.Sleep(time.Millisecond)
			}
			// which harness backend (port) holds how many of them
			heldAt := map[int]int{}
			for _, tg := range targets {
				for _, sr := range w.seenFor(tg) {
					for i, b := range w.backends {
						if b.Name == sr.Backend {
							heldAt[ports[i]]++
						}
					}
				}
			}
			wit := map[string]any{"mode": "batch", "k": k, "held_at_port": fmt.Sprint(heldAt)}
			// optionally the operator reloads the backend table while the requests are in
			// flight: members renamed (same address), re-weighted, a member added/removed
			for r := 0; r < nreload; r++ {
				for i := range holdVar.Rename {
					switch rapid.IntRange(0, 3).Draw(rt, "edit") {
					case 0:
						holdVar.Rename[i]++
					case 1:
						holdVar.Weight[i] = rapid.SampledFrom([]int{1, 5, 10, 20}).Draw(rt, "weight")
					}
				}
				holdVar.Dead = rapid.Bool().Draw(rt, "dead-member")
				if err := w.rig.Reload(c07Conf(fmt.Sprintf("v%d.%d", n, r), ports, holdVar)); err != nil {
					close(hold)
					wg.Wait()
					rt.Fatalf("rig: reload failed: %v", err)
				}
			}
			wit["reloads_while_held"] = nreload
			wit["table_after_reloads"] = fmt.Sprintf("%+v", holdVar)
			sum, min, detail := connNums()
			balCnt, balDetail := balancerCounts(w, "chold")
			wit["conn_nums_while_held"] = detail
			wit["balancer_conn_nums_while_held"] = balDetail
			close(hold)
			wg.Wait()
			for _, tg := range targets {
				w.forget(tg)
			}
			suffix := ""
			if nreload > 0 {
				suffix = "-after-reload"
			}
			if min < 0 || sum != k {
				if !rec.Fail(rt, "held-count-mismatch"+suffix, wit, "%d requests are inside backend exchanges but ConnNum sum is %d (%s)", k, sum, detail) {
					return
				}
			}
			for _, port := range ports[:3] {
				if balCnt[port] != heldAt[port] {
					if !rec.Fail(rt, "balancer-count-mismatch"+suffix, wit, "backend on port %d holds %d requests but the balancer's count for it is %d (%s)", port, heldAt[port], balCnt[port], balDetail) {
						return
					}
				}
			}
			sum, min, detail = waitQuiescent(5 * time.Second)
			wit["conn_nums_after"] = detail
			if min < 0 || sum != 0 {
				if !rec.Fail(rt, "nonzero-after-batch"+suffix, wit, "after all held requests finished: %s", detail) {
					return
				}
			}
			// the objects the balancer schedules over must be back at zero as well
			deadline = time.Now().Add(5 * time.Second)
			for {
				balCnt, balDetail = balancerCounts(w, "chold")
				nz := false
				for _, v := range balCnt {
					nz = nz || v != 0
				}
				if !nz || time.Now().After(deadline) {
					if nz {
						wit["balancer_conn_nums_after"] = balDetail
						rec.Fail(rt, "balancer-nonzero-after-batch"+suffix, wit, "after all held requests finished the balancer's counts are %s", balDetail)
					}
					break
				}
				time.Sleep(time.Millisecond)
			}
			return
		}
		target := fmt.Sprintf("/c07/%d", n)
		method := rapid.SampledFrom([]string{"GET", "GET", "POST"}).Draw(rt, "method")
		nfault := rapid.IntRange(0, 3).Draw(rt, "nfault")
		var faults []string
		for i := 0; i < nfault; i++ {
			faults = append(faults, rapid.SampledFrom([]string{"close-before-response", "stall", "half-response", ""}).Draw(rt, "fault"))
		}
		w.setScript(target, &respScript{Seq: &faultSeq{faults: faults}})
		verdictAt := rapid.SampledFrom([]string{"none", "none", "forward-finish", "forward-finish", "request-response", "request-redirect", "request-close", "request-finish", "readresponse-finish", "readresponse-redirect", "requestfinish-finish"}).Draw(rt, "verdict")
		fsn := &filtScript{V: map[int][]int{}, RespStatus: 403, RespBody: "no", RedirURL: "http://r.example/", RedirCode: 302}
		slot := rapid.IntRange(0, nSlots-1).Draw(rt, "slot")
		chain := func(v int) []int {
			c := make([]int, slot+1)
			for i := range c {
				c[i] = bfe_module.BfeHandlerGoOn
			}
			c[slot] = v
			return c
		}
		rp := reqPoints[rapid.IntRange(0, 2).Draw(rt, "reqpoint")]
		switch verdictAt {
		case "forward-finish":
			fsn.V[bfe_module.HandleForward] = chain(bfe_module.BfeHandlerFinish)
		case "request-response":
			fsn.V[rp] = chain(bfe_module.BfeHandlerResponse)
		case "request-redirect":
			fsn.V[rp] = chain(bfe_module.BfeHandlerRedirect)
		case "request-close":
			fsn.V[rp] = chain(bfe_module.BfeHandlerClose)
		case "request-finish":
			fsn.V[rp] = chain(bfe_module.BfeHandlerFinish)
		case "readresponse-finish":
			fsn.V[bfe_module.HandleReadResponse] = chain(bfe_module.BfeHandlerFinish)
		case "readresponse-redirect":
			fsn.V[bfe_module.HandleReadResponse] = chain(bfe_module.BfeHandlerRedirect)
		case "requestfinish-finish":
			fsn.V[bfe_module.HandleRequestFinish] = chain(bfe_module.BfeHandlerFinish)
		}
		hub.set(target, fsn)
		defer hub.del(target)
		var rq string
		if method == "POST" {
			rq = fmt.Sprintf("POST %s HTTP/1.1\r\nHost: example.org\r\nContent-Length: 2\r\nConnection: close\r\n\r\nhi", target)
		} else {
			rq = fmt.Sprintf("GET %s HTTP/1.1\r\nHost: example.org\r\nConnection: close\r\n\r\n", target)
		}
		_, _, err := w.exchange([]byte(rq), 10*time.Second)
		if err != nil {
			rt.Fatalf("rig: %v", err)
		}
		log := fsn.logCopy()
		forwards := 0
		for _, e := range log {
			if e == "HandleForward/0" {
				forwards++
			}
		}
		w.forget(target)
		nontrivial := forwards > 1 || verdictAt == "forward-finish"
		rec.Case(fmt.Sprintf("%s|%v|%s@%d/%d", method, faults, verdictAt, rp, slot), nontrivial, "verdict:"+verdictAt, fmt.Sprintf("attempts:%d", forwards), "method:"+method)
		rec.Sample(map[string]any{"method": method, "faults": faults, "verdict": verdictAt, "slot": slot, "attempts": forwards})
		sum, min, detail := waitQuiescent(5 * time.Second)
		wit := map[string]any{"method": method, "faults": faults, "verdict": verdictAt, "slot": slot, "filter_log": log, "conn_nums": detail}
		if min < 0 {
			rec.Fail(rt, "negative:"+verdictAt, wit, "a backend's active-connection count went negative after the request finished: %s", detail)
			return
		}
		if sum != 0 {
			rec.Fail(rt, "nonzero-at-quiescence:"+verdictAt, wit, "no request in flight but counts are %s", detail)
			return
		}
		for _, b := range w.backends {
			b.Reset()
		}
	})
}

package system

import (
	"bytes"
	"fmt"
	"sort"
	"strings"
	"testing"
	"time"

	"github.com/bfenetworks/bfe/bfe_http"
	"pgregory.net/rapid"

	"verif/harness/internal/ev"
	"verif/harness/internal/ref"
	"verif/harness/internal/sys"
)

// C25: whatever the frontend protocol, the bytes written to an HTTP backend form
// exactly one well-formed HTTP/1.1 request equal to the accepted one; no client
// supplied name or value can add fields or messages.

var c25Hostile = []string{
	" ", "\t", "\r", "\n", "\r\n", "\x00", ":", "\x7f", "\xe9", "\x0b",
	"\r\nX-Injected: 1", "\nX-Injected: 1",
	"\r\n\r\nGET /injected HTTP/1.1\r\nHost: example.org\r\n\r\n",
	" HTTP/1.1\r\nX-Injected: 1\r\nX-Pad: ",
	" /injected HTTP/1.1\r\nX-Injected:",
}

// BFE's own additions to a forwarded request (observed on a rig without modules;
// all are BFE-generated, none carries client-chosen names).
var c25Added = map[string]bool{
	"host": true, "x-forwarded-for": true, "x-forwarded-host": true, "x-forwarded-port": true, "x-forwarded-proto": true,
	"x-real-ip": true, "x-real-port": true, "x-bfe-ip": true, "content-length": true, "transfer-encoding": true,
	"connection": true, "user-agent": true, "accept-encoding": true, "x-ssl": true, "x-ssl-header": true,
}

type c25Field struct {
	Name, Value string
	Hostile     bool
}

func c25Token(rt *rapid.T, label string) string {
	return rapid.StringMatching(`[a-z][a-z0-9-]{0,7}`).Draw(rt, label)
}

// inject puts a hostile snippet at a generated position of s.
func c25Inject(rt *rapid.T, front, s, label string) string {
	pool := c25Hostile
	if front == "h1" {
		// on the HTTP/1 wire CRLF is the client's own field/message separator: a value
		// containing CRLF+field or CRLF CRLF+request simply *is* another field / a
		// pipelined request of the client, not an injection. Only bytes that are
		// invalid inside an h1 token/value are hostile there.
		pool = c25Hostile[:10]
	}
	h := rapid.SampledFrom(pool).Draw(rt, label+"-snip")
	pos := rapid.IntRange(0, len(s)).Draw(rt, label+"-pos")
	return s[:pos] + h + s[pos:]
}

func TestC25(t *testing.T) {
	rec := ev.New("C25", "requests with hostile bytes (SP, HTAB, CR, LF, NUL, ':', 0x7f, non-ASCII, CRLF+field, CRLF CRLF+request) placed in method, target, authority, header names or values are sent over HTTP/1.1, HTTP/2 (x/net framer+hpack over TLS) and SPDY/3.1 to an in-process BFE; the bytes every harness backend connection received are parsed by a strict RFC 7230 parser. History modes on a cluster with backend keep-alive: an upload answered early by the backend and then aborted/stalled by its client (RST, FIN, stall; Content-Length or chunked framing) followed by other clients' requests, and 4..16 concurrent requests with 4..24 distinctive fields each; every element of the byte stream of every backend connection must be one issued request with its own method, fields and body (a truncated one must be a prefix of its own client's bytes). non-trivial: a client-controlled token contains a byte outside token/field-vchar; distinct by frontend+request")
	w := startWorld(t, 3, sys.Options{}, func(ports []int) *sys.DataConf {
		cl := sys.OneBackendCluster("c", ports[0])
		cl.TimeoutResponseHeaderMs = 1500
		cl.RetryMax = 0
		// second cluster: backend keep-alive on (BFE's default of 2 idle connections per backend),
		// used by the history modes
		ck := sys.OneBackendCluster("cka", ports[1])
		ck.TimeoutResponseHeaderMs = 1500
		ck.RetryMax = 0
		ck.MaxIdleConnsPerHost = 2
		// third cluster: two backends, failed attempts of body-less GETs may be retried
		crt := sys.Cluster{Name: "crt", RetryMax: 1, RetryLevel: 1, TimeoutResponseHeaderMs: 1500, MaxIdleConnsPerHost: 2, Sub: []sys.SubCluster{{Name: "crt.sub", Weight: 100,
			Backends: []sys.BackendSpec{{Name: "r1", Addr: "127.0.0.1", Port: ports[1], Weight: 10}, {Name: "r2", Addr: "127.0.0.1", Port: ports[2], Weight: 10}}}}}
		return sys.SimpleConf("v0", []sys.Cluster{cl, ck, crt}, []sys.Rule{
			{Cond: `req_path_prefix_in("/c25k/rt/", false)`, Cluster: "crt"},
			{Cond: `req_path_prefix_in("/c25k/", false)`, Cluster: "cka"},
			{Cond: `default_t()`, Cluster: "c"},
		})
	})
	ka := &c25KA{off: map[*sys.BackendConn]int{}}
	n := 0
	rapid.Check(t, func(rt *rapid.T) {
		n++
		if mode := rapid.SampledFrom([]string{"single", "single", "single", "single", "single", "single", "aborted-upload", "concurrent", "h2-upload-then-reset", "h2-upload-backend-fails"}).Draw(rt, "mode"); mode != "single" {
			c25Sequence(rt, rec, w, n, mode, ka)
			return
		}
		front := rapid.SampledFrom([]string{"h1", "h2", "spdy"}).Draw(rt, "frontend")
		base := fmt.Sprintf("/c25/%d", n)
		method := rapid.SampledFrom([]string{"GET", "POST", "PUT", "DELETE", "OPTIONS", "PURGE"}).Draw(rt, "method")
		target := base + "/" + c25Token(rt, "seg") + "?k=" + c25Token(rt, "qv")
		authority := "example.org"
		where := rapid.SampledFrom([]string{"none", "method", "target", "authority", "name", "value", "value", "name"}).Draw(rt, "where")
		hostile := where != "none"
		var fields []c25Field
		nf := rapid.IntRange(0, 3).Draw(rt, "nfields")
		for i := 0; i < nf; i++ {
			fields = append(fields, c25Field{Name: "x-c" + c25Token(rt, "fname"), Value: rapid.StringMatching(`[a-zA-Z0-9 ,;=-]{0,12}`).Draw(rt, "fval")})
		}
		switch where {
		case "method":
			method = c25Inject(rt, front, method, "m")
		case "target":
			target = base + c25Inject(rt, front, "/"+c25Token(rt, "seg2"), "t")
		case "authority":
			authority = c25Inject(rt, front, authority, "a")
		case "name":
			fields = append(fields, c25Field{Name: c25Inject(rt, front, "x-h"+c25Token(rt, "hn"), "n"), Value: "v", Hostile: true})
		case "value":
			fields = append(fields, c25Field{Name: "x-h" + c25Token(rt, "hn"), Value: c25Inject(rt, front, "val", "v"), Hostile: true})
		}
		if front == "h1" && where == "name" {
			if nm := fields[len(fields)-1].Name; nm[0] == ' ' || nm[0] == '\t' {
				// a header line starting with SP/HTAB is an obs-fold continuation of the
				// previous field on the HTTP/1 wire (RFC 7230 3.2.4 lets a proxy unfold it)
				rec.Excluded("h1-obs-fold")
				return
			}
		}
		var body []byte
		if method == "POST" || method == "PUT" || rapid.IntRange(0, 5).Draw(rt, "bodyish") == 0 {
			body = []byte(rapid.StringMatching(`[a-z]{1,20}`).Draw(rt, "body"))
		}
		fpr := fmt.Sprintf("%s|%q|%q|%q|%q|%q", front, method, target, authority, fields, body)
		rec.Case(fpr, hostile, "front:"+front, "where:"+where)
		rec.Sample(map[string]any{"frontend": front, "method": method, "target": target, "authority": authority, "fields": fmt.Sprintf("%q", fields), "body": string(body)})

		// ---- send
		accepted := false // BFE answered 200 from the backend
		switch front {
		case "h1":
			var sb bytes.Buffer
			fmt.Fprintf(&sb, "%s %s HTTP/1.1\r\nHost: %s\r\nConnection: close\r\n", method, target, authority)
			for _, f := range fields {
				fmt.Fprintf(&sb, "%s: %s\r\n", f.Name, f.Value)
			}
			if body != nil {
				fmt.Fprintf(&sb, "Content-Length: %d\r\n", len(body))
			}
			if hb := sb.Bytes(); bytes.Contains(hb, []byte("\n\n")) || bytes.Contains(hb, []byte("\n\r\n")) {
				// a hostile CR/LF produced an empty line inside our header section: on the
				// HTTP/1 wire that simply ends the client's own header section early (a lenient
				// parser may take bare LF as line terminator), the rest is the client's garbage
				rec.Excluded("h1-early-blank-line")
				return
			}
			sb.WriteString("\r\n")
			sb.Write(body)
			resp, _, err := w.exchange(sb.Bytes(), 1500*time.Millisecond)
			if err != nil {
				rt.Fatalf("rig: %v", err)
			}
			accepted = bytes.HasPrefix(resp, []byte("HTTP/1.1 200"))
		case "h2":
			cl, err := sys.NewH2Client(w.rig.HTTPSAddr)
			if err != nil {
				rt.Fatalf("rig: h2 dial: %v", err)
			}
			hf := []sys.H2Field{{":method", method}, {":scheme", "https"}, {":path", target}, {":authority", authority}}
			for _, f := range fields {
				hf = append(hf, sys.H2Field{f.Name, f.Value})
			}
			if body != nil && rapid.Bool().Draw(rt, "h2cl") {
				hf = append(hf, sys.H2Field{"content-length", fmt.Sprint(len(body))})
			}
			res, err := cl.Request(hf, body, 4*time.Second)
			cl.Close()
			if err != nil {
				rec.Class("h2-client-timeout")
			}
			accepted = res != nil && res.Status == "200"
		case "spdy":
			cl, err := sys.NewSpdyClient(w.rig.HTTPSAddr)
			if err != nil {
				rt.Fatalf("rig: spdy dial: %v", err)
			}
			h := bfe_http.Header{":method": {method}, ":scheme": {"https"}, ":path": {target}, ":host": {authority}, ":version": {"HTTP/1.1"}}
			for _, f := range fields {
				h[f.Name] = append(h[f.Name], f.Value)
			}
			if body != nil && rapid.Bool().Draw(rt, "spdycl") {
				h["content-length"] = []string{fmt.Sprint(len(body))}
			}
			res, err := cl.Request(h, body, 4*time.Second)
			cl.Close()
			if err != nil {
				rec.Class("spdy-client-timeout")
			}
			accepted = res != nil && res.Header != nil && strings.HasPrefix(res.Header.Get(":status"), "200")
		}
		if accepted {
			rec.Class("accepted")
		} else {
			rec.Class("not-accepted")
		}

		// ---- oracle over everything any backend connection received during this case
		b := w.backends[0]
		conns := b.Conns()
		b.Reset()
		w.mu.Lock()
		w.seen = map[string][]seenReq{}
		w.mu.Unlock()
		var msgs []*ref.Message
		wit := map[string]any{"frontend": front, "method": method, "target": target, "authority": authority, "fields": fmt.Sprintf("%q", fields), "body": string(body)}
		for ci, bc := range conns {
			deadline := time.Now().Add(4 * time.Second)
			for !bc.EOF() && time.Now().Before(deadline) {
				time.Sleep(2 * time.Millisecond)
			}
			if !bc.EOF() {
				rec.Class("backend-conn-not-closed")
			}
			data := bc.Bytes()
			wit[fmt.Sprintf("backend_conn_%d", ci)] = string(data)
			off := 0
			for off < len(data) {
				m, err := ref.ParseRequest(data[off:])
				if err != nil {
					key := "malformed-request-forwarded:" + front + ":" + where
					if !rec.Fail(rt, key, wit, "backend received bytes that are not a well-formed HTTP/1.1 request (%v): %q", err, clipS(data[off:])) {
						return
					}
					break
				}
				msgs = append(msgs, m)
				off += m.ConsumedLen
			}
		}
		if len(msgs) == 0 {
			if accepted {
				rt.Fatalf("rig: response 200 but no backend request")
			}
			return
		}
		if len(msgs) > 1 {
			if !rec.Fail(rt, "extra-message:"+front+":"+where, wit, "one client request produced %d backend requests (targets %v)", len(msgs), targetsOf(msgs)) {
				return
			}
		}
		m := msgs[0]
		// names: subset of client names + BFE additions
		clientNames := map[string]bool{}
		for _, f := range fields {
			if front == "h1" {
				// a lenient h1 parser may split a raw value at bare LF: every "name" a line could start with
				for _, ln := range strings.Split(f.Name+": "+f.Value, "\n") {
					if i := strings.IndexByte(ln, ':'); i >= 0 {
						clientNames[strings.ToLower(strings.Trim(ln[:i], " \t\r"))] = true
					}
				}
			} else {
				clientNames[strings.ToLower(f.Name)] = true
			}
		}
		for _, f := range m.Fields {
			ln := strings.ToLower(f.Name)
			if !clientNames[ln] && !c25Added[ln] {
				if !rec.Fail(rt, "field-added:"+front+":"+where, wit, "backend request has field %q (%q) that the client never sent as a field name", f.Name, f.Value) {
					return
				}
			}
		}
		// non-hostile parts must arrive unchanged
		if where != "method" && m.Method != method {
			if !rec.Fail(rt, "method-changed:"+front, wit, "method %q forwarded as %q", method, m.Method) {
				return
			}
		}
		if where != "target" && m.Target != target {
			if !rec.Fail(rt, "target-changed:"+front, wit, "target %q forwarded as %q", target, m.Target) {
				return
			}
		}
		bf := lowerFields(m)
		want := map[string][]string{}
		for _, f := range fields {
			if !f.Hostile {
				want[strings.ToLower(f.Name)] = append(want[strings.ToLower(f.Name)], strings.Trim(f.Value, " \t"))
			}
		}
		for name, vals := range want {
			hostileSameName := false
			for _, f := range fields {
				if f.Hostile && strings.EqualFold(f.Name, name) {
					hostileSameName = true
				}
			}
			if hostileSameName {
				continue
			}
			got := append([]string(nil), bf[name]...)
			// a proxy may legitimately combine repeated fields with ", "
			gj, wj := strings.Join(got, ", "), strings.Join(vals, ", ")
			if front != "h1" {
				sort.Strings(vals)
				wj2 := strings.Join(vals, ", ")
				if gj != wj && gj != wj2 && !sameMultiset(got, vals) {
					if !rec.Fail(rt, "value-changed:"+front, wit, "field %q: client sent %q, backend got %q", name, vals, got) {
						return
					}
				}
			} else if gj != wj {
				if !rec.Fail(rt, "value-changed:"+front, wit, "field %q: client sent %q, backend got %q", name, vals, got) {
					return
				}
			}
		}
		if !bytes.Equal(m.Body, body) && !(len(m.Body) == 0 && len(body) == 0) {
			if !rec.Fail(rt, "body-changed:"+front, wit, "body %q forwarded as %q", body, m.Body) {
				return
			}
		}
	})
}

func sameMultiset(a, b []string) bool {
	if len(a) != len(b) {
		return false
	}
	x, y := append([]string(nil), a...), append([]string(nil), b...)
	sort.Strings(x)
	sort.Strings(y)
	for i := range x {
		if x[i] != y[i] {
			return false
		}
	}
	return true
}

func targetsOf(ms []*ref.Message) (out []string) {
	for _, m := range ms {
		out = append(out, m.Target)
	}
	return
}

func clipS(b []byte) string {
	if len(b) > 300 {
		return string(b[:300]) + "..."
	}
	return string(b)
}

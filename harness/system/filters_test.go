package system

import (
	"fmt"
	"io/ioutil"
	"strings"
	"sync"

	"github.com/bfenetworks/bfe/bfe_balance/backend"
	"github.com/bfenetworks/bfe/bfe_basic"
	"github.com/bfenetworks/bfe/bfe_http"
	"github.com/bfenetworks/bfe/bfe_module"
	"github.com/bfenetworks/bfe/bfe_server"
)

// Harness-registered module filters: nSlots filters per callback point, each
// looking its verdict up in a script keyed by the request target. Unscripted
// requests get GoOn everywhere.

const nSlots = 4

var reqPoints = []int{bfe_module.HandleBeforeLocation, bfe_module.HandleFoundProduct, bfe_module.HandleAfterLocation}
var resPoints = []int{bfe_module.HandleReadResponse, bfe_module.HandleRequestFinish}

type filtScript struct {
	V map[int][]int // point -> verdict per slot (missing = GoOn)
	// Response verdict payload
	RespStatus int
	RespBody   string
	RespHeader map[string]string
	// Redirect verdict payload
	RedirURL  string
	RedirCode int

	mu  sync.Mutex
	Log []string // "point/slot" in invocation order
}

func (s *filtScript) log(point, slot int) {
	s.mu.Lock()
	s.Log = append(s.Log, fmt.Sprintf("%s/%d", bfe_module.CallbackPointName(point), slot))
	s.mu.Unlock()
}

func (s *filtScript) logCopy() []string {
	s.mu.Lock()
	defer s.mu.Unlock()
	return append([]string(nil), s.Log...)
}

type filterHub struct {
	mu       sync.Mutex
	scripts  map[string]*filtScript
	backends map[*backend.BfeBackend]bool
	// session level (HandleAccept): verdict for the next accepted connection
	acceptVerdict []int
	acceptLog     []string
	finishLog     int
}

var hub = &filterHub{scripts: map[string]*filtScript{}, backends: map[*backend.BfeBackend]bool{}}

func (h *filterHub) set(target string, s *filtScript) {
	h.mu.Lock()
	h.scripts[target] = s
	h.mu.Unlock()
}

func (h *filterHub) del(target string) {
	h.mu.Lock()
	delete(h.scripts, target)
	h.mu.Unlock()
}

func (h *filterHub) get(req *bfe_basic.Request) *filtScript {
	if req == nil || req.HttpRequest == nil {
		return nil
	}
	h.mu.Lock()
	defer h.mu.Unlock()
	return h.scripts[req.HttpRequest.RequestURI]
}

func (h *filterHub) knownBackends() []*backend.BfeBackend {
	h.mu.Lock()
	defer h.mu.Unlock()
	var out []*backend.BfeBackend
	for b := range h.backends {
		out = append(out, b)
	}
	return out
}

func verdictOf(s *filtScript, point, slot int) int {
	if s == nil {
		return bfe_module.BfeHandlerGoOn
	}
	vs := s.V[point]
	if slot < len(vs) {
		return vs[slot]
	}
	return bfe_module.BfeHandlerGoOn
}

// installFilters is passed as sys.Options.AfterInit.
func installFilters(srv *bfe_server.BfeServer) error {
	cb := srv.CallBacks
	for slot := 0; slot < nSlots; slot++ {
		slot := slot
		if err := cb.AddFilter(bfe_module.HandleAccept, (func(sess *bfe_basic.Session) int {
			hub.mu.Lock()
			defer hub.mu.Unlock()
			v := bfe_module.BfeHandlerGoOn
			if slot < len(hub.acceptVerdict) {
				v = hub.acceptVerdict[slot]
			}
			if hub.acceptVerdict != nil {
				hub.acceptLog = append(hub.acceptLog, fmt.Sprintf("HandleAccept/%d", slot))
			}
			return v
		})); err != nil {
			return err
		}
		for _, p := range reqPoints {
			p := p
			if err := cb.AddFilter(p, (func(req *bfe_basic.Request) (int, *bfe_http.Response) {
				s := hub.get(req)
				if s == nil {
					return bfe_module.BfeHandlerGoOn, nil
				}
				s.log(p, slot)
				v := verdictOf(s, p, slot)
				switch v {
				case bfe_module.BfeHandlerResponse:
					res := bfe_basic.CreateInternalResp(req, s.RespStatus)
					for k, val := range s.RespHeader {
						res.Header.Set(k, val)
					}
					res.Body = ioutil.NopCloser(strings.NewReader(s.RespBody))
					res.ContentLength = int64(len(s.RespBody))
					res.Header.Set("Content-Length", fmt.Sprint(len(s.RespBody)))
					return v, res
				case bfe_module.BfeHandlerRedirect:
					req.Redirect.Url = s.RedirURL
					req.Redirect.Code = s.RedirCode
				}
				return v, nil
			})); err != nil {
				return err
			}
		}
		if err := cb.AddFilter(bfe_module.HandleForward, (func(req *bfe_basic.Request) int {
			if slot == 0 && req.Trans.Backend != nil {
				hub.mu.Lock()
				hub.backends[req.Trans.Backend] = true
				hub.mu.Unlock()
			}
			s := hub.get(req)
			if s == nil {
				return bfe_module.BfeHandlerGoOn
			}
			s.log(bfe_module.HandleForward, slot)
			return verdictOf(s, bfe_module.HandleForward, slot)
		})); err != nil {
			return err
		}
		for _, p := range resPoints {
			p := p
			if err := cb.AddFilter(p, (func(req *bfe_basic.Request, res *bfe_http.Response) int {
				s := hub.get(req)
				if s == nil {
					return bfe_module.BfeHandlerGoOn
				}
				s.log(p, slot)
				v := verdictOf(s, p, slot)
				if v == bfe_module.BfeHandlerRedirect {
					req.Redirect.Url = s.RedirURL
					req.Redirect.Code = s.RedirCode
				}
				return v
			})); err != nil {
				return err
			}
		}
	}
	return cb.AddFilter(bfe_module.HandleFinish, (func(sess *bfe_basic.Session) int {
		hub.mu.Lock()
		hub.finishLog++
		hub.mu.Unlock()
		return bfe_module.BfeHandlerGoOn
	}))
}

package system

import (
	"fmt"
	"net"
	"strings"
	"sync"
	"testing"
	"time"

	"github.com/bfenetworks/bfe/bfe_basic"
	"github.com/bfenetworks/bfe/bfe_server"
	"pgregory.net/rapid"

	"verif/harness/internal/ev"
	"verif/harness/internal/sys"
)

// C08: retries are safe and bounded.

type attempt struct {
	RetryTime int
	Backend   string
	Sub       string
	Cross     bool
}

var (
	attMu    sync.Mutex
	attempts = map[string][]attempt{} // by request target
)

// attemptLogger is a HandleForward filter: it runs once per attempt, right after the
// balancer picked a backend (also for attempts that then fail to connect).
func attemptLogger(req *bfe_basic.Request) int {
	if req.HttpRequest != nil && req.Trans.Backend != nil {
		a := attempt{RetryTime: req.RetryTime, Backend: req.Trans.Backend.Name, Sub: req.Trans.Backend.SubCluster}
		if req.Stat != nil {
			a.Cross = req.Stat.IsCrossCluster
		}
		attMu.Lock()
		attempts[req.HttpRequest.RequestURI] = append(attempts[req.HttpRequest.RequestURI], a)
		attMu.Unlock()
	}
	return 1 // BfeHandlerGoOn
}

func takeAttempts(target string) []attempt {
	attMu.Lock()
	defer attMu.Unlock()
	a := attempts[target]
	delete(attempts, target)
	return a
}

const c08BigBody = 300000

type c08Sub struct {
	Name    string
	Weight  int
	Members []string // backend names: "b<i>" live, "dead<j>" refused
}

func c08Conf(version, cname string, ports []int, subs []c08Sub, retryMax, cross, level, idle, failNum int) *sys.DataConf {
	cl := sys.Cluster{Name: cname, RetryMax: retryMax, CrossRetry: cross, RetryLevel: level, TimeoutResponseHeaderMs: 250,
		TimeoutConnSrvMs: 500, HashStrategy: 0, HashHeader: "X-Uid", MaxIdleConnsPerHost: idle, FailNum: failNum, CheckIntervalMs: 200}
	for _, s := range subs {
		sc := sys.SubCluster{Name: s.Name, Weight: s.Weight}
		for _, m := range s.Members {
			if strings.HasPrefix(m, "dead") {
				var j int
				fmt.Sscanf(m, "dead%d", &j)
				sc.Backends = append(sc.Backends, sys.BackendSpec{Name: m + "." + s.Name, Addr: "127.0.0.1", Port: 1 + j, Weight: 10})
			} else {
				var i int
				fmt.Sscanf(m, "b%d", &i)
				sc.Backends = append(sc.Backends, sys.BackendSpec{Name: m, Addr: "127.0.0.1", Port: ports[i], Weight: 10})
			}
		}
		cl.Sub = append(cl.Sub, sc)
	}
	return sys.SimpleConf(version, []sys.Cluster{cl}, nil)
}

func TestC08(t *testing.T) {
	rec := ev.New("C08", "per case a generated cluster (1..3 sub-clusters + optional GSLB_BLACKHOLE, members drawn from 6 live harness backends and refused ports, RetryMax 0..3, CrossRetry 0..2, RetryLevel connect-only|retry-GET) is hot-reloaded into an in-process BFE; a generated request (GET/HEAD/POST/PUT/DELETE, no body / Content-Length / chunked body) meets a generated per-arrival fault script at live backends (close before response, header timeout, half response, good). A HandleForward filter logs every attempt (RetryTime, backend, sub-cluster, cross flag). non-trivial: >=1 failed attempt; distinct by conf+request+faults")
	var ports []int
	w := startWorld(t, 6, sys.Options{AfterInit: func(srv *bfe_server.BfeServer) error {
		return srv.CallBacks.AddFilter(5 /*HandleForward*/, attemptLogger)
	}}, func(p []int) *sys.DataConf {
		ports = p
		return c08Conf("v0", "c", p, []c08Sub{{"s0", 100, []string{"b0"}}}, 0, 0, 0, 0, 1000000)
	})
	n := 0
	rapid.Check(t, func(rt *rapid.T) {
		n++
		target := fmt.Sprintf("/c08/%d", n)
		retryMax := rapid.IntRange(0, 3).Draw(rt, "retryMax")
		cross := rapid.IntRange(0, 2).Draw(rt, "crossRetry")
		level := rapid.IntRange(0, 1).Draw(rt, "retryLevel")
		nsub := rapid.IntRange(1, 3).Draw(rt, "nsub")
		var subs []c08Sub
		live := 0
		for i := 0; i < nsub; i++ {
			s := c08Sub{Name: fmt.Sprintf("s%d", i), Weight: rapid.SampledFrom([]int{0, 1, 50, 100}).Draw(rt, "w")}
			nm := rapid.IntRange(1, 3).Draw(rt, "nmem")
			for j := 0; j < nm; j++ {
				if rapid.IntRange(0, 2).Draw(rt, "dead") == 0 {
					s.Members = append(s.Members, fmt.Sprintf("dead%d", j))
				} else if live < 6 {
					s.Members = append(s.Members, fmt.Sprintf("b%d", live))
					live++
				}
			}
			if len(s.Members) == 0 {
				s.Members = []string{"dead0"}
			}
			subs = append(subs, s)
		}
		totalW := 0
		for _, s := range subs {
			totalW += s.Weight
		}
		if totalW == 0 {
			subs[0].Weight = 100
		}
		blackhole := rapid.IntRange(0, 3).Draw(rt, "blackhole") == 0
		if blackhole {
			subs = append(subs, c08Sub{Name: "GSLB_BLACKHOLE", Weight: rapid.SampledFrom([]int{0, 30}).Draw(rt, "bw")})
		}
		// the cluster is either the one the balancer already knows or one that this reload
		// introduces (its balancer is created by the gslb reload and must get the configured
		// retry limits, not built-in defaults)
		cname := "c"
		if rapid.IntRange(0, 2).Draw(rt, "new-cluster") == 0 {
			cname = fmt.Sprintf("c%d", n)
		}
		// backend keep-alive: off, or BFE's default of 2 idle connections per backend
		idle := rapid.SampledFrom([]int{0, 2}).Draw(rt, "max-idle-conns")
		abortedUpload := rapid.IntRange(0, 5).Draw(rt, "upload-aborted-on-reused-conn") == 0
		if abortedUpload {
			idle = 2
		}
		// health state machine: practically off, or a backend leaves rotation after one failed
		// request (refused members then stay out, so whole sub-clusters can be without a backend)
		failNum := rapid.SampledFrom([]int{1000000, 1000000, 1}).Draw(rt, "fail-num")
		// another conjunction too rare to wait for: the only other sub-cluster has lost all its
		// backends to the health state machine when the cross retry comes, while the assigned
		// sub-cluster still has a healthy one
		ejectedCross := !abortedUpload && rapid.IntRange(0, 7).Draw(rt, "cross-retry-into-ejected-subcluster") == 0
		if ejectedCross {
			subs = []c08Sub{{"s0", 100, []string{"b0", "b1", "b2"}}, {"s1", 100, []string{"dead0", "dead1"}}}
			if rapid.Bool().Draw(rt, "swap") {
				subs = []c08Sub{{"s0", 100, []string{"dead0", "dead1"}}, {"s1", 100, []string{"b0", "b1", "b2"}}}
			}
			failNum, level = 1, 1
			retryMax = rapid.IntRange(0, 1).Draw(rt, "rm2")
			cross = rapid.IntRange(1, 2).Draw(rt, "cr2")
		}
		conf := c08Conf(fmt.Sprintf("v%d", n), cname, ports, subs, retryMax, cross, level, idle, failNum)
		if err := w.rig.Reload(conf); err != nil {
			rec.Excluded("conf-rejected")
			return
		}
		method := rapid.SampledFrom([]string{"GET", "GET", "GET", "HEAD", "POST", "PUT", "DELETE"}).Draw(rt, "method")
		bodyKind := "none"
		if method == "POST" || method == "PUT" {
			bodyKind = rapid.SampledFrom([]string{"cl", "chunked", "cl0", "big"}).Draw(rt, "body")
		} else if method == "GET" {
			bodyKind = rapid.SampledFrom([]string{"none", "none", "none", "cl", "chunked", "cl0"}).Draw(rt, "body")
		}
		nfault := rapid.IntRange(0, 5).Draw(rt, "nfault")
		var faults []string
		for i := 0; i < nfault; i++ {
			faults = append(faults, rapid.SampledFrom([]string{"close-before-response", "stall", "half-response", "", "rst-on-header"}).Draw(rt, "fault"))
		}
		// warm-up requests leave idle keep-alive connections to the live backends in BFE's
		// pool, so that the request under test may travel on a re-used connection
		warm := rapid.SampledFrom([]int{0, 0, 4}).Draw(rt, "warmups")
		if failNum == 1 && rapid.Bool().Draw(rt, "warm-for-health") {
			warm = 6
		}
		if ejectedCross {
			method, bodyKind, warm = "GET", "none", 8
			faults = nil
			for i := 0; i <= retryMax; i++ {
				faults = append(faults, "close-before-response")
			}
		}
		if abortedUpload {
			// a conjunction too rare to wait for: an upload on a re-used backend connection
			// that the backend aborts while the body is still being streamed
			method, bodyKind, warm = rapid.SampledFrom([]string{"POST", "PUT", "GET"}).Draw(rt, "m2"), "big", 4
			faults = append([]string{"rst-on-header"}, faults...)
		}
		uid := rapid.StringMatching(`[a-z0-9]{1,6}`).Draw(rt, "uid")
		// fault script: k-th arrival at any live backend gets faults[k]
		fs := &faultSeq{faults: faults}
		w.setScript(target, &respScript{Seq: fs})
		var rq strings.Builder
		fmt.Fprintf(&rq, "%s %s HTTP/1.1\r\nHost: example.org\r\nX-Uid: %s\r\nConnection: close\r\n", method, target, uid)
		switch bodyKind {
		case "cl":
			rq.WriteString("Content-Length: 5\r\n\r\nhello")
		case "cl0":
			rq.WriteString("Content-Length: 0\r\n\r\n")
		case "chunked":
			rq.WriteString("Transfer-Encoding: chunked\r\n\r\n5\r\nhello\r\n0\r\n\r\n")
		case "big":
			fmt.Fprintf(&rq, "Content-Length: %d\r\n\r\n", c08BigBody)
		default:
			rq.WriteString("\r\n")
		}
		fpr := fmt.Sprintf("%v|%v|rm%d cr%d lv%d idle%d fn%d|%s %s|%v|%s|w%d", subs, cname != "c", retryMax, cross, level, idle, failNum, method, bodyKind, faults, uid, warm)
		wit := map[string]any{"subclusters": fmt.Sprintf("%+v", subs), "RetryMax": retryMax, "CrossRetry": cross, "RetryLevel": level,
			"request": rq.String(), "faults": faults, "cluster_new_in_this_reload": cname != "c", "warmup_requests": warm, "MaxIdleConnsPerHost": idle, "FailNum": failNum}

		for i := 0; i < warm; i++ {
			wt := fmt.Sprintf("%s/w%d", target, i)
			wuid := uid
			if failNum == 1 {
				// spread over the sub-clusters (the hash key decides), so that refused members
				// everywhere have met the health state machine before the request under test
				wuid = fmt.Sprintf("w%d%s", i, uid)
			}
			w.exchange([]byte(fmt.Sprintf("GET %s HTTP/1.1\r\nHost: example.org\r\nX-Uid: %s\r\nConnection: close\r\n\r\n", wt, wuid)), 5*time.Second)
			takeAttempts(wt)
			w.forget(wt)
		}
		var resp []byte
		var err error
		if bodyKind == "big" {
			// the body is streamed in two parts: the second part is sent once a backend has the
			// header section (or shortly after), so a backend-side abort hits BFE mid-body
			var c net.Conn
			c, err = w.rig.Dial()
			if err == nil {
				body := strings.Repeat("x", c08BigBody)
				// the first part exceeds BFE's request write buffer, so the header section
				// reaches the backend before the rest of the body exists
				const first = 64 << 10
				c.Write([]byte(rq.String() + body[:first]))
				for i := 0; i < 300 && len(w.seenFor(target)) == 0; i++ {
					time.Sleep(time.Millisecond)
				}
				c.SetWriteDeadline(time.Now().Add(10 * time.Second))
				for off := first; off < len(body); off += 32 << 10 {
					end := off + 32<<10
					if end > len(body) {
						end = len(body)
					}
					if _, werr := c.Write([]byte(body[off:end])); werr != nil {
						break
					}
					time.Sleep(200 * time.Microsecond)
				}
				resp, _ = sys.ReadAllTimeout(c, 10*time.Second)
				c.Close()
			}
		} else {
			resp, _, err = w.exchange([]byte(rq.String()), 10*time.Second)
		}
		if err != nil {
			rt.Fatalf("rig: %v", err)
		}
		atts := takeAttempts(target)
		seen := w.seenFor(target)
		w.forget(target)
		wit["attempts"] = fmt.Sprintf("%+v", atts)
		wit["client_got"] = clipS(resp)
		failed := 0
		// classify each attempt's outcome as the harness knows it
		liveArrival := 0
		kinds := make([]string, len(atts))
		for i, a := range atts {
			if strings.HasPrefix(a.Backend, "dead") {
				kinds[i] = "connect-fail"
				failed++
				continue
			}
			f := ""
			if liveArrival < len(faults) {
				f = faults[liveArrival]
			}
			liveArrival++
			if f == "" {
				kinds[i] = "ok"
			} else {
				kinds[i] = f
				failed++
			}
		}
		wit["attempt_outcomes"] = kinds
		cls := []string{"method:" + method, "body:" + bodyKind, fmt.Sprintf("attempts:%d", len(atts))}
		if cname != "c" {
			cls = append(cls, "cluster-new-in-reload")
		}
		if warm > 0 && idle > 0 {
			cls = append(cls, "warmed-idle-pool")
		}
		if ejectedCross {
			cls = append(cls, "scenario:cross-retry-into-ejected-subcluster")
		}
		cls = append(cls, fmt.Sprintf("backend-keepalive:%v", idle > 0), fmt.Sprintf("health-ejects-after-one-failure:%v", failNum == 1))
		for _, k := range kinds {
			cls = append(cls, "outcome:"+k)
		}
		rec.Case(fpr, failed > 0, cls...)
		rec.Sample(map[string]any{"subclusters": fmt.Sprintf("%+v", subs), "RetryMax": retryMax, "CrossRetry": cross, "RetryLevel": level, "method": method, "body": bodyKind, "faults": faults, "attempts": fmt.Sprintf("%+v", atts)})

		// (a) bound
		if len(atts) > 1+retryMax+cross {
			if !rec.Fail(rt, "too-many-attempts", wit, "%d attempts with RetryMax=%d CrossRetry=%d", len(atts), retryMax, cross) {
				return
			}
		}
		// (b) legality of every retry
		bodyless := bodyKind == "none" || bodyKind == "cl0" // Content-Length: 0 is no body
		for i := 0; i+1 < len(atts); i++ {
			switch kinds[i] {
			case "connect-fail":
			case "ok":
				if !rec.Fail(rt, "retry-after-success", wit, "attempt %d succeeded but attempt %d followed", i, i+1) {
					return
				}
			default:
				if !(method == "GET" && bodyless && level == 1) {
					key := "unsafe-retry:" + method + ":" + bodyKind + fmt.Sprintf(":level%d", level)
					if !rec.Fail(rt, key, wit, "attempt %d failed after connecting (%s) and the %s request (body %s, RetryLevel %d) was sent again", i, kinds[i], method, bodyKind, level) {
						return
					}
				}
			}
		}
		// a request with a body reaches at most one live backend
		if !bodyless && len(seen) > 1 {
			if !rec.Fail(rt, "body-replayed", wit, "request with body reached %d live backends", len(seen)) {
				return
			}
		}
		// (c) sub-cluster discipline
		if len(atts) > 0 {
			s0 := atts[0].Sub
			firstCross := atts[0].Cross || atts[0].RetryTime > retryMax
			for i, a := range atts {
				if a.Sub == "GSLB_BLACKHOLE" {
					rec.Fail(rt, "blackhole-forwarded", wit, "attempt %d went to the blackhole sub-cluster", i)
					return
				}
				isCross := a.RetryTime > retryMax
				if !isCross && !a.Cross && a.Sub != s0 && !firstCross {
					if !rec.Fail(rt, "in-cluster-retry-changed-subcluster", wit, "attempt %d (RetryTime %d <= RetryMax) went to %s, first attempt to %s", i, a.RetryTime, a.Sub, s0) {
						return
					}
				}
				if isCross && !firstCross && a.Sub == s0 {
					if !rec.Fail(rt, "cross-retry-same-subcluster", wit, "cross attempt %d (RetryTime %d > RetryMax %d) went to the assigned sub-cluster %s", i, a.RetryTime, retryMax, s0) {
						return
					}
				}
				if isCross {
					for _, s := range subs {
						if s.Name == a.Sub && s.Weight < 0 {
							rec.Fail(rt, "cross-retry-negative-weight", wit, "cross attempt to sub-cluster %s with negative weight", s.Name)
							return
						}
					}
				}
			}
		}
		for _, b := range w.backends {
			b.Reset()
		}
	})
}

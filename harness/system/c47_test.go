package system

import (
	"bytes"
	"crypto/tls"
	"fmt"
	"net"
	"sync"
	"testing"
	"time"

	"pgregory.net/rapid"

	"verif/harness/internal/ev"
	"verif/harness/internal/sys"
)

// C47: WebSocket and TLS stream tunnels are byte-transparent.

type tunnelScript struct {
	Mode          string   // ws | wss | stream
	B2C           [][]byte // backend -> client chunks (B2C[0] is coalesced with the 101 response in ws modes)
	WantC2B       int      // bytes the backend expects from the client
	BackendCloses bool
	Graceful      bool
	// results
	done      chan struct{}
	Recv      []byte
	SawEOF    bool
	HeaderOK  bool
	ReqHeader []byte
}

var (
	tunMu  sync.Mutex
	tunCur *tunnelScript
)

func payload(n, seed int) []byte {
	b := make([]byte, n)
	x := uint32(seed*2654435761 + 12345)
	for i := range b {
		x = x*1664525 + 1013904223
		b[i] = byte(x >> 24)
	}
	return b
}

func readUntil(c net.Conn, want int, have []byte, d time.Duration) (data []byte, eof bool) {
	data = have
	buf := make([]byte, 64*1024)
	deadline := time.Now().Add(d)
	for want < 0 || len(data) < want {
		c.SetReadDeadline(deadline)
		n, err := c.Read(buf)
		data = append(data, buf[:n]...)
		if err != nil {
			if ne, ok := err.(net.Error); ok && ne.Timeout() {
				return data, false
			}
			return data, true
		}
	}
	return data, false
}

func tunnelBackend(bc *sys.BackendConn) {
	tunMu.Lock()
	s := tunCur
	tunMu.Unlock()
	if s == nil {
		return
	}
	defer close(s.done)
	c := bc.Conn
	var early []byte
	if s.Mode != "stream" {
		// read the forwarded upgrade request up to the end of its header section
		var hdr []byte
		buf := make([]byte, 4096)
		c.SetReadDeadline(time.Now().Add(10 * time.Second))
		for {
			n, err := c.Read(buf)
			hdr = append(hdr, buf[:n]...)
			if i := bytes.Index(hdr, []byte("\r\n\r\n")); i >= 0 {
				s.ReqHeader = hdr[:i+4]
				early = append(early, hdr[i+4:]...)
				s.HeaderOK = true
				break
			}
			if err != nil {
				return
			}
		}
	}
	var wg sync.WaitGroup
	wg.Add(1)
	go func() {
		defer wg.Done()
		for i, ch := range s.B2C {
			if i == 0 && s.Mode != "stream" {
				ch = append([]byte("HTTP/1.1 101 Switching Protocols\r\nUpgrade: websocket\r\nConnection: Upgrade\r\n\r\n"), ch...)
			}
			if _, err := c.Write(ch); err != nil {
				return
			}
		}
		if len(s.B2C) == 0 && s.Mode != "stream" {
			c.Write([]byte("HTTP/1.1 101 Switching Protocols\r\nUpgrade: websocket\r\nConnection: Upgrade\r\n\r\n"))
		}
	}()
	if s.BackendCloses {
		if s.Graceful {
			s.Recv, s.SawEOF = readUntil(c, s.WantC2B, early, 15*time.Second)
			wg.Wait()
			c.Close()
			return
		}
		// abrupt: stop sending right after the last write. Half-close and drain instead of
		// close(): closing a socket with unread data makes the kernel send RST, which may
		// destroy bytes still queued towards the peer - that loss would be TCP's, not BFE's.
		wg.Wait()
		closeWrite(c)
		s.Recv, s.SawEOF = readUntil(c, -1, early, 15*time.Second)
		return
	}
	s.Recv, s.SawEOF = readUntil(c, -1, early, 15*time.Second)
	wg.Wait()
}

func TestC47(t *testing.T) {
	rec := ev.New("C47", "WebSocket upgrades over http and https and TLS-offload stream connections (std crypto/tls client, ALPN stream) through an in-process BFE to a raw harness backend; generated payload chunk plans in both directions (1 B..128 KiB, early client bytes in the same write as the upgrade request, TLS handshakes full / resumed by session ticket / resumed with the first client bytes in the same TCP segment as the client's Finished, early backend bytes in the same write as the 101 response), an idle period longer than ClientReadTimeout inside the tunnel, close initiator client|backend, graceful (after receiving everything) or abrupt (right after its last write). Oracle: the closer's stream arrives complete and unchanged, the other direction complete (graceful) or as a prefix (abrupt), and the non-closing side sees EOF. non-trivial: early coalesced bytes or both directions carry data; distinct by mode+plan")
	tb, err := sys.NewBackend("tun", tunnelBackend)
	if err != nil {
		t.Fatal(err)
	}
	// the cluster also has a refused member: about half of the tunnels reach the backend on the
	// second attempt of the connect loops in bfe_websocket / bfe_stream
	cl := sys.Cluster{Name: "c", RetryMax: 2, TimeoutConnSrvMs: 1000, Sub: []sys.SubCluster{{Name: "c.sub", Weight: 100, Backends: []sys.BackendSpec{
		{Name: "tun", Addr: "127.0.0.1", Port: tb.Port, Weight: 10}, {Name: "dead", Addr: "127.0.0.1", Port: 1, Weight: 10}}}}}
	d := sys.SimpleConf("v0", []sys.Cluster{cl}, nil)
	d.DefaultProduct = "p"
	rig, err := sys.Start(sys.Options{Data: d, NextProtos: []string{"stream", "http/1.1"}, SessionTickets: true, ClientReadTimeout: 2})
	sessCache := map[string]tls.ClientSessionCache{"wss": tls.NewLRUClientSessionCache(4), "stream": tls.NewLRUClientSessionCache(4)}
	if err != nil {
		t.Fatal(err)
	}
	// obtain a session ticket per TLS mode once (no tunnel script is installed yet, the backend
	// just closes); later cases resume from these caches
	for mode, proto := range map[string]string{"wss": "http/1.1", "stream": "stream"} {
		pc, err := tls.DialWithDialer(&net.Dialer{Timeout: 5 * time.Second}, "tcp", rig.HTTPSAddr, &tls.Config{InsecureSkipVerify: true, ServerName: "example.org",
			NextProtos: []string{proto}, MinVersion: tls.VersionTLS12, MaxVersion: tls.VersionTLS12, ClientSessionCache: sessCache[mode]})
		if err != nil {
			t.Fatalf("rig: priming handshake: %v", err)
		}
		pc.Close()
	}
	time.Sleep(100 * time.Millisecond)
	tb.Reset()
	n := 0
	rapid.Check(t, func(rt *rapid.T) {
		n++
		mode := rapid.SampledFrom([]string{"ws", "wss", "stream"}).Draw(rt, "mode")
		sizes := []int{1, 2, 100, 1000, 4096, 16384, 65536, 131072}
		plan := func(label string) [][]byte {
			k := rapid.IntRange(0, 4).Draw(rt, label+"-n")
			var out [][]byte
			for i := 0; i < k; i++ {
				out = append(out, payload(rapid.SampledFrom(sizes).Draw(rt, label+"-size"), rapid.IntRange(0, 1000).Draw(rt, label+"-seed")))
			}
			return out
		}
		c2b := plan("c2b")
		b2c := plan("b2c")
		earlyC := rapid.Bool().Draw(rt, "early-client") && len(c2b) > 0
		// one case in eight keeps the established tunnel idle beyond ClientReadTimeout before the last client chunk
		idleGap := rapid.IntRange(0, 7).Draw(rt, "idle-gap") == 0 && len(c2b) > 1
		tlsShape := "full"
		if mode != "ws" {
			tlsShape = rapid.SampledFrom([]string{"full", "resumed", "resumed-coalesced"}).Draw(rt, "tls-handshake")
		}
		backendCloses := rapid.Bool().Draw(rt, "backend-closes")
		graceful := rapid.Bool().Draw(rt, "graceful")
		var c2bAll, b2cAll []byte
		for _, ch := range c2b {
			c2bAll = append(c2bAll, ch...)
		}
		for _, ch := range b2c {
			b2cAll = append(b2cAll, ch...)
		}
		s := &tunnelScript{Mode: mode, B2C: b2c, WantC2B: len(c2bAll), BackendCloses: backendCloses, Graceful: graceful, done: make(chan struct{})}
		tunMu.Lock()
		tunCur = s
		tunMu.Unlock()
		nontrivial := earlyC || (len(c2bAll) > 0 && len(b2cAll) > 0) || (mode != "stream" && len(b2c) > 0)
		shape := fmt.Sprintf("%s/%s c2b=%v b2c=%v early=%v closer=%v graceful=%v", mode, tlsShape, lens(c2b), lens(b2c), earlyC, map[bool]string{true: "backend", false: "client"}[backendCloses], graceful)
		rec.Case(shape+fmt.Sprint(len(c2bAll)^len(b2cAll)<<7), nontrivial, "mode:"+mode, fmt.Sprintf("closer-backend:%v", backendCloses), fmt.Sprintf("graceful:%v", graceful), fmt.Sprintf("early-client:%v", earlyC), "tls-handshake:"+tlsShape, fmt.Sprintf("idle-beyond-read-timeout:%v", idleGap))
		rec.Sample(map[string]any{"shape": shape})
		wit := map[string]any{"shape": shape}

		var c net.Conn
		var cc *coalesceConn
		switch mode {
		case "ws":
			c, err = rig.Dial()
		default:
			proto := map[string]string{"wss": "http/1.1", "stream": "stream"}[mode]
			cfg := &tls.Config{InsecureSkipVerify: true, ServerName: "example.org", NextProtos: []string{proto}, MinVersion: tls.VersionTLS12, MaxVersion: tls.VersionTLS12,
				ClientSessionCache: sessCache[mode]}
			if tlsShape == "full" {
				cfg.ClientSessionCache = nil
			}
			var raw net.Conn
			raw, err = net.DialTimeout("tcp", rig.HTTPSAddr, 5*time.Second)
			if err == nil {
				cc = &coalesceConn{Conn: raw, hold: tlsShape == "resumed-coalesced"}
				tc := tls.Client(cc, cfg)
				tc.SetDeadline(time.Now().Add(10 * time.Second))
				if err = tc.Handshake(); err != nil {
					raw.Close()
				} else {
					tc.SetDeadline(time.Time{})
					c = tc
				}
			}
			if err == nil {
				if c.(*tls.Conn).ConnectionState().DidResume {
					rec.Class("tls-resumed")
				} else if tlsShape != "full" {
					rec.Class("tls-resumption-not-offered-or-refused")
				}
			}
		}
		if err != nil {
			rt.Fatalf("rig: dial %s: %v", mode, err)
		}
		defer c.Close()
		first := []byte{}
		rest := c2b
		if mode != "stream" {
			first = []byte(fmt.Sprintf("GET /c47/%d HTTP/1.1\r\nHost: example.org\r\nUpgrade: websocket\r\nConnection: Upgrade\r\nSec-WebSocket-Key: dGhlIHNhbXBsZSBub25jZQ==\r\nSec-WebSocket-Version: 13\r\n\r\n", n))
			if earlyC {
				first = append(first, c2b[0]...)
				rest = c2b[1:]
			}
		}
		if cc != nil && cc.hold {
			// resumed handshake: the client speaks last, its Finished is still in our write buffer.
			// Put the first client bytes behind it and send both in one TCP segment.
			if len(first) > 0 {
				c.Write(first)
				first = nil
			} else if len(rest) > 0 {
				c.Write(rest[0])
				rest = rest[1:]
			}
			if n := cc.release(); n > 0 {
				rec.Class("first-bytes-coalesced-with-finished")
			}
		}
		var wg sync.WaitGroup
		wg.Add(1)
		go func() {
			defer wg.Done()
			if len(first) > 0 {
				if _, err := c.Write(first); err != nil {
					return
				}
			}
			for i, ch := range rest {
				if idleGap && i == len(rest)-1 {
					// the tunnel sits idle for longer than the server's ClientReadTimeout (2 s here)
					time.Sleep(2600 * time.Millisecond)
				}
				if _, err := c.Write(ch); err != nil {
					return
				}
			}
		}()
		// client side reading: in ws modes first the 101 header
		var got []byte
		clientEOF := false
		hdrLen := 0
		if mode != "stream" {
			var hb []byte
			hb, clientEOF = readUntilHeader(c, 15*time.Second)
			i := bytes.Index(hb, []byte("\r\n\r\n"))
			if i < 0 || !bytes.HasPrefix(hb, []byte("HTTP/1.1 101")) {
				wit["client_got"] = clipS(hb)
				wg.Wait()
				c.Close()
				<-waitDone(s.done, 15*time.Second)
				if !s.HeaderOK {
					rt.Fatalf("rig: backend never saw the upgrade request; client got %q", clipS(hb))
				}
				rec.Fail(rt, "upgrade-response-lost:"+mode, wit, "client did not receive the backend's 101 response: %q", clipS(hb))
				return
			}
			hdrLen = i + 4
			got = append(got, hb[hdrLen:]...)
		}
		if !backendCloses {
			// client is the closer
			if graceful && !clientEOF {
				got, clientEOF = readUntil(c, len(b2cAll), got, 15*time.Second)
				wg.Wait()
			} else {
				wg.Wait()
				closeWrite(c) // see tunnelBackend: half-close + drain, never close() over unread data
				if !clientEOF {
					got, clientEOF = readUntil(c, -1, got, 15*time.Second)
				}
			}
			c.Close()
		} else if !clientEOF {
			got, clientEOF = readUntil(c, -1, got, 15*time.Second)
			wg.Wait()
		}
		select {
		case <-s.done:
		case <-time.After(20 * time.Second):
			rec.Class("backend-side-timeout")
			return
		}
		tunMu.Lock()
		tunCur = nil
		tunMu.Unlock()
		key := func(k string) string { return k + ":" + mode }
		// closer's stream complete; other direction complete if graceful else prefix
		if backendCloses {
			if !bytes.Equal(got, b2cAll) {
				rec.Fail(rt, key("b2c-corrupt"), wit, "backend closed after sending %d bytes; client received %d bytes (first difference at %d)", len(b2cAll), len(got), firstDiff(got, b2cAll))
				return
			}
			if !clientEOF {
				rec.Class("client-no-eof-inconclusive")
			}
			if graceful {
				if !bytes.Equal(s.Recv, c2bAll) {
					rec.Fail(rt, key("c2b-corrupt"), wit, "client sent %d bytes, backend received %d (first difference at %d)", len(c2bAll), len(s.Recv), firstDiff(s.Recv, c2bAll))
					return
				}
			} else if !bytes.HasPrefix(c2bAll, s.Recv) {
				rec.Fail(rt, key("c2b-corrupt"), wit, "backend received bytes that are not a prefix of what the client sent (first difference at %d)", firstDiff(s.Recv, c2bAll))
				return
			}
		} else {
			if !bytes.Equal(s.Recv, c2bAll) {
				rec.Fail(rt, key("c2b-corrupt"), wit, "client closed after sending %d bytes; backend received %d bytes (first difference at %d)", len(c2bAll), len(s.Recv), firstDiff(s.Recv, c2bAll))
				return
			}
			if !s.SawEOF {
				rec.Class("backend-no-eof-inconclusive")
			}
			if graceful {
				if !bytes.Equal(got, b2cAll) {
					rec.Fail(rt, key("b2c-corrupt"), wit, "backend sent %d bytes, client received %d (first difference at %d)", len(b2cAll), len(got), firstDiff(got, b2cAll))
					return
				}
			} else if !bytes.HasPrefix(b2cAll, got) {
				rec.Fail(rt, key("b2c-corrupt"), wit, "client received bytes that are not a prefix of what the backend sent (first difference at %d)", firstDiff(got, b2cAll))
				return
			}
		}
		tb.Reset()
	})
}

func closeWrite(c net.Conn) {
	switch x := c.(type) {
	case *net.TCPConn:
		x.CloseWrite()
	case *tls.Conn:
		x.CloseWrite()
	}
}

func waitDone(ch chan struct{}, d time.Duration) chan struct{} {
	out := make(chan struct{})
	go func() {
		select {
		case <-ch:
		case <-time.After(d):
		}
		close(out)
	}()
	return out
}

func readUntilHeader(c net.Conn, d time.Duration) (data []byte, eof bool) {
	buf := make([]byte, 4096)
	deadline := time.Now().Add(d)
	for !bytes.Contains(data, []byte("\r\n\r\n")) {
		c.SetReadDeadline(deadline)
		n, err := c.Read(buf)
		data = append(data, buf[:n]...)
		if err != nil {
			if ne, ok := err.(net.Error); ok && ne.Timeout() {
				return data, false
			}
			return data, true
		}
	}
	return data, false
}

func lens(p [][]byte) (out []int) {
	for _, b := range p {
		out = append(out, len(b))
	}
	return
}

func firstDiff(a, b []byte) int {
	n := len(a)
	if len(b) < n {
		n = len(b)
	}
	for i := 0; i < n; i++ {
		if a[i] != b[i] {
			return i
		}
	}
	return n
}

// coalesceConn delays writes while hold is set (they go out with the next Read or release),
// so that consecutive TLS flights and records leave in one TCP segment.
type coalesceConn struct {
	net.Conn
	mu   sync.Mutex
	buf  []byte
	hold bool
}

func (c *coalesceConn) Write(p []byte) (int, error) {
	c.mu.Lock()
	defer c.mu.Unlock()
	if c.hold {
		c.buf = append(c.buf, p...)
		return len(p), nil
	}
	return c.Conn.Write(p)
}

func (c *coalesceConn) flush() int {
	c.mu.Lock()
	b := c.buf
	c.buf = nil
	c.mu.Unlock()
	if len(b) > 0 {
		c.Conn.Write(b)
	}
	return len(b)
}

func (c *coalesceConn) Read(p []byte) (int, error) {
	c.flush()
	return c.Conn.Read(p)
}

func (c *coalesceConn) release() int {
	c.mu.Lock()
	c.hold = false
	c.mu.Unlock()
	return c.flush()
}

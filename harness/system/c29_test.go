package system

import (
	"bytes"
	"encoding/json"
	"fmt"
	"net"
	"os"
	"path/filepath"
	"strconv"
	"strings"
	"testing"
	"time"

	"pgregory.net/rapid"

	"verif/harness/internal/ev"
	"verif/harness/internal/sys"
)

// C29: client address cannot be spoofed by untrusted peers.

var c29Universe = []string{
	"10.0.0.0", "10.0.0.1", "10.0.0.9", "10.0.0.10", "10.0.0.11", "10.0.0.255", "10.0.1.0", "10.255.255.255", "11.0.0.0",
	"30.1.1.1", "30.1.1.2", "127.0.0.1", "192.168.0.1", "9.255.255.255",
	"fd00::1", "fd00::2", "fd00::ffff", "fd00:1::", "::1", "2001:db8::1",
}

func ipLE(a, b net.IP) bool { return bytes.Compare(a.To16(), b.To16()) <= 0 }

func TestC29(t *testing.T) {
	rec := ev.New("C29", "trusted-source tables (generated IPv4/IPv6 ranges, loaded through mod_trust_clientip's reload handler: from a path= file, from the rewritten configured file, or from the configured file right after a path= reload of another table), a generated socket peer address (a harness listener served by BfeServer.ServeHttp reports it as RemoteAddr) and generated X-Real-Ip/X-Real-Port/X-Forwarded-For/X-Forwarded-Port request headers (valid, invalid, multiple, spoofing an address inside a routed range); the client address BFE uses is observed through a req_cip_range route and through the X-Real-*/X-Forwarded-For headers a harness backend receives. non-trivial: a spoofing header is present; distinct by table+peer+headers")
	ln, err := sys.NewFakeAddrListener()
	if err != nil {
		t.Fatal(err)
	}
	w := startWorld(t, 2, sys.Options{Modules: []string{"mod_trust_clientip", "mod_header"}}, func(ports []int) *sys.DataConf {
		c20 := sys.OneBackendCluster("c20", ports[0])
		cdef := sys.OneBackendCluster("cdef", ports[1])
		return sys.SimpleConf("v0", []sys.Cluster{c20, cdef}, []sys.Rule{
			{Cond: `req_cip_range("20.0.0.0", "20.255.255.255")`, Cluster: "c20"},
			{Cond: `default_t()`, Cluster: "cdef"},
		})
	})
	w.rig.ServeOn(ln)
	addr := ln.Addr().String()
	n := 0
	rigFailures := 0
	rapid.Check(t, func(rt *rapid.T) {
		n++
		// trust table
		nr := rapid.IntRange(0, 3).Draw(rt, "nranges")
		type rg struct{ Begin, End string }
		var ranges []rg
		for i := 0; i < nr; i++ {
			a := rapid.SampledFrom(c29Universe).Draw(rt, "ra")
			b := rapid.SampledFrom(c29Universe).Draw(rt, "rb")
			ia, ib := net.ParseIP(a), net.ParseIP(b)
			if (ia.To4() == nil) != (ib.To4() == nil) {
				b = a
				ib = ia
			}
			if !ipLE(ia, ib) {
				a, b = b, a
			}
			ranges = append(ranges, rg{a, b})
		}
		// adjacent-block shape: a range ending at x.y.z.255 plus a disjoint one further inside
		// the next /24, with the peer in the gap between them (or just outside)
		peerOverride := ""
		if rapid.IntRange(0, 3).Draw(rt, "adjacent-shape") == 0 {
			b := rapid.SampledFrom([]string{"10.0.0", "10.0.255", "30.1.1", "127.0.0"}).Draw(rt, "block")
			var o [3]int
			fmt.Sscanf(b, "%d.%d.%d", &o[0], &o[1], &o[2])
			next := fmt.Sprintf("%d.%d.%d", o[0], o[1], o[2]+1)
			if o[2] == 255 {
				next = fmt.Sprintf("%d.%d.0", o[0], o[1]+1)
			}
			lo := rapid.IntRange(50, 150).Draw(rt, "gap-lo")
			ranges = append(ranges, rg{b + ".0", b + ".255"}, rg{fmt.Sprintf("%s.%d", next, lo), next + ".200"})
			peerOverride = fmt.Sprintf("%s.%d", next, rapid.SampledFrom([]int{0, 1, lo - 1, lo, 200, 201, 255}).Draw(rt, "gap-peer"))
			nr = len(ranges)
		}
		// operators may push a new table under an unchanged Version string
		version := fmt.Sprint(n)
		if rapid.IntRange(0, 3).Draw(rt, "same-version") == 0 {
			version = "unchanged"
		}
		cfg := map[string]any{"Version": version, "Config": map[string]any{"t": ranges}}
		if nr == 0 {
			cfg["Config"] = map[string]any{}
		}
		bs, _ := json.Marshal(cfg)
		p := filepath.Join(w.rig.ConfRoot, "mod_trust_clientip", fmt.Sprintf("gen_%d.data", n%8))
		// the operator loads the table either from an explicit path= file, or by rewriting the
		// configured data file and reloading without path (possibly right after a path= reload
		// of some other table)
		via := rapid.SampledFrom([]string{"path", "path", "configured", "other-path-then-configured"}).Draw(rt, "reload-via")
		configured := filepath.Join(w.rig.ConfRoot, "mod_trust_clientip", "trust_client_ip.data")
		switch via {
		case "path":
			os.WriteFile(p, bs, 0o644)
			if err := w.rig.ReloadModule("mod_trust_clientip", p); err != nil {
				rt.Fatalf("rig: trust table reload failed for %s: %v", bs, err)
			}
		default:
			if via == "other-path-then-configured" {
				// some other table: everything trusted, or nothing
				other := `{"Version":"other","Config":{"all":[{"Begin":"0.0.0.0","End":"255.255.255.255"},{"Begin":"::","End":"ffff:ffff:ffff:ffff:ffff:ffff:ffff:ffff"}]}}`
				if rapid.Bool().Draw(rt, "other-empty") {
					other = `{"Version":"other","Config":{}}`
				}
				os.WriteFile(p, []byte(other), 0o644)
				if err := w.rig.ReloadModule("mod_trust_clientip", p); err != nil {
					rt.Fatalf("rig: trust table reload failed for %s: %v", other, err)
				}
			}
			os.WriteFile(configured, bs, 0o644)
			if err := w.rig.ReloadModule("mod_trust_clientip", ""); err != nil {
				rt.Fatalf("rig: trust table reload (configured file) failed for %s: %v", bs, err)
			}
		}
		peerIP := rapid.SampledFrom(c29Universe).Draw(rt, "peer")
		if peerOverride != "" {
			peerIP = peerOverride
		}
		peerPort := rapid.IntRange(1024, 65535).Draw(rt, "peerport")
		peer := &net.TCPAddr{IP: net.ParseIP(peerIP), Port: peerPort}
		trusted := false
		for _, r := range ranges {
			if ipLE(net.ParseIP(r.Begin), peer.IP) && ipLE(peer.IP, net.ParseIP(r.End)) {
				trusted = true
			}
		}
		// 1..3 requests on one client connection (same socket peer), each with its own header set
		nreq := rapid.IntRange(1, 3).Draw(rt, "requests-on-connection")
		ln.SetNext(peer)
		c, err := net.DialTimeout("tcp", addr, 5*time.Second)
		if err != nil {
			rt.Fatalf("rig: %v", err)
		}
		defer c.Close()
		for ri := 0; ri < nreq; ri++ {
			last := ri == nreq-1
			if !c29Request(rt, rec, w, c, n, ri, last, ranges, peer, trusted, &rigFailures) {
				return
			}
		}
	})
}

// c29Request sends one request of the sequence and judges it; false ends the case.
func c29Request(rt *rapid.T, rec *ev.Rec, w *world, c net.Conn, n, ri int, last bool, ranges any, peer *net.TCPAddr, trusted bool, rigFailures *int) bool {
	// headers
	var hdr []string
	spoof := false
	realIP := rapid.SampledFrom([]string{"", "", "20.1.2.3", "20.1.2.3", "20.255.255.255", "8.8.8.8", "2001:db8::5", "abc", "20.1.2.3, 1.1.1.1", " 20.1.2.3"}).Draw(rt, "xrealip")
	realIP2 := ""
	if realIP != "" {
		hdr = append(hdr, randCase(rt, "X-Real-Ip", "xri")+": "+realIP)
		spoof = true
		if rapid.IntRange(0, 4).Draw(rt, "second") == 0 {
			realIP2 = "20.9.9.9"
			hdr = append(hdr, "X-Real-Ip: "+realIP2)
		}
	}
	realPort := rapid.SampledFrom([]string{"", "", "4321", "4322", "52002", "abc", "70000"}).Draw(rt, "xrealport")
	if realPort != "" {
		hdr = append(hdr, randCase(rt, "X-Real-Port", "xrp")+": "+realPort)
	}
	xff := rapid.SampledFrom([]string{"", "", "20.4.5.6", "20.4.5.6, 30.2.2.2", "30.2.2.2, 20.4.5.6", "garbage", "20.4.5.6,", "LONG"}).Draw(rt, "xff")
	if xff == "LONG" {
		// a forged chain of several kilobytes
		xff = strings.TrimSuffix(strings.Repeat("20.4.5.6, ", rapid.SampledFrom([]int{300, 420, 1000}).Draw(rt, "xff-entries")), ", ")
	}
	if xff != "" {
		hdr = append(hdr, randCase(rt, "X-Forwarded-For", "xff")+": "+xff)
		spoof = true
	}
	xfp := rapid.SampledFrom([]string{"", "", "5555", "5555, 6666", "x"}).Draw(rt, "xfp")
	if xfp != "" {
		hdr = append(hdr, randCase(rt, "X-Forwarded-Port", "xfp")+": "+xfp)
	}
	// a client may also try to have BFE's own address headers stripped by nominating them
	// as hop-by-hop in its Connection header
	if nom := rapid.SampledFrom([]string{"", "", "", "X-Real-Ip", "x-real-ip, x-real-port", "X-Forwarded-For", "keep-alive, X-Real-Ip, X-Real-Port, X-Forwarded-For"}).Draw(rt, "conn-nominates"); nom != "" {
		hdr = append(hdr, "Connection: "+nom)
		spoof = true
	}
	target := fmt.Sprintf("/c29/%d/%d", n, ri)
	closeHdr := ""
	if last {
		closeHdr = "Connection: close\r\n"
	}
	raw := fmt.Sprintf("GET %s HTTP/1.1\r\nHost: example.org\r\n%s%s\r\n", target, closeHdr, joinCRLF(hdr))
	cls := []string{}
	if trusted {
		cls = append(cls, "trusted")
	} else {
		cls = append(cls, "untrusted")
	}
	if peer.IP.To4() == nil {
		cls = append(cls, "peer-v6")
	}
	if spoof {
		cls = append(cls, "spoof-header")
	}
	if ri > 0 {
		cls = append(cls, "later-request-on-connection")
	}
	hk := fmt.Sprint(hdr)
	if len(hk) > 200 {
		hk = fmt.Sprintf("%s...(%d)", hk[:200], len(hk))
	}
	rec.Case(fmt.Sprintf("%v|%s|%d|%s", ranges, peer, ri, hk), spoof, cls...)
	rec.Sample(map[string]any{"trust_ranges": ranges, "peer": peer.String(), "request_index_on_connection": ri, "headers": clipHdr(hdr)})
	wit := map[string]any{"trust_ranges": ranges, "peer": peer.String(), "headers": clipHdr(hdr), "trusted_by_model": trusted, "request_index_on_connection": ri}

	c.Write([]byte(raw))
	_, m, _, perr := readOneResponse(c, "GET", 8*time.Second)
	seen := w.seenFor(target)
	w.forget(target)
	if perr != nil || m == nil || m.Status != 200 || len(seen) != 1 || seen[0].Msg == nil {
		// the rig itself failed (e.g. backend connect timeout on an overloaded machine):
		// inconclusive, counted; the test fails as infrastructure only if this is frequent
		rec.Class("rig-not-proxied")
		*rigFailures++
		if *rigFailures > 20 {
			rt.Fatalf("rig: request not proxied %d times (err=%v, seen=%d)", *rigFailures, perr, len(seen))
		}
		return false
	}
	bf := lowerFields(seen[0].Msg)
	wit["backend_saw"] = string(seen[0].Conn.Bytes())
	routed := seen[0].Backend // b0 = c20 (client address inside 20/8), b1 = default
	if !trusted {
		if got := bf["x-real-ip"]; len(got) != 1 || !net.ParseIP(got[0]).Equal(peer.IP) {
			if !rec.Fail(rt, "untrusted-x-real-ip", wit, "untrusted peer %s: backend got X-Real-Ip %q", peer, got) {
				return false
			}
		}
		if got := bf["x-real-port"]; len(got) != 1 || got[0] != fmt.Sprint(peer.Port) {
			if !rec.Fail(rt, "untrusted-x-real-port", wit, "untrusted peer %s: backend got X-Real-Port %q", peer, got) {
				return false
			}
		}
		xf := strings.Join(bf["x-forwarded-for"], ", ")
		parts := strings.Split(xf, ",")
		last := strings.TrimSpace(parts[len(parts)-1])
		if !net.ParseIP(last).Equal(peer.IP) {
			if !rec.Fail(rt, "untrusted-xff-tail", wit, "untrusted peer %s: X-Forwarded-For %q does not end with the peer IP", peer, xf) {
				return false
			}
		}
		if routed != "b1" {
			if !rec.Fail(rt, "untrusted-condition-spoofed", wit, "untrusted peer %s was routed by req_cip_range(20/8) as if its client address were spoofed", peer) {
				return false
			}
		}
		return true
	}
	// trusted: documented precedence X-Real-Ip(+Port) else first of X-Forwarded-For(+Port)
	wantIP, wantPort := "", ""
	if realIP != "" {
		wantIP, wantPort = realIP, realPort
	} else if xff != "" {
		wantIP = strings.TrimSpace(strings.SplitN(xff, ",", 2)[0])
		if xfp != "" {
			wantPort = strings.TrimSpace(strings.SplitN(xfp, ",", 2)[0])
		}
	}
	ip := net.ParseIP(wantIP)
	if ip == nil {
		rec.Class("trusted-no-valid-header")
		return true
	}
	rec.Class("trusted-header-honoured-case")
	if got := bf["x-real-ip"]; len(got) != 1 || !net.ParseIP(got[0]).Equal(ip) {
		if !rec.Fail(rt, "trusted-x-real-ip", wit, "trusted peer %s with client address header %q: backend got X-Real-Ip %q", peer, wantIP, got) {
			return false
		}
	}
	in20 := ip.To4() != nil && ip.To4()[0] == 20
	if (routed == "b0") != in20 {
		if !rec.Fail(rt, "trusted-condition", wit, "trusted peer %s with client address %s: routed to %s", peer, ip, routed) {
			return false
		}
	}
	// the port that goes with the honoured address
	if pn, perr2 := strconv.Atoi(wantPort); perr2 == nil && pn > 0 && pn < 65536 && realIP != "" && realIP2 == "" {
		if got := bf["x-real-port"]; len(got) != 1 || got[0] != wantPort {
			if !rec.Fail(rt, "trusted-x-real-port", wit, "trusted peer %s with X-Real-Ip %q and X-Real-Port %q (request %d on the connection): backend got X-Real-Port %q", peer, wantIP, wantPort, ri, got) {
				return false
			}
		}
	}
	return true
}

func clipHdr(h []string) []string {
	out := append([]string(nil), h...)
	for i, x := range out {
		if len(x) > 120 {
			out[i] = fmt.Sprintf("%s...(%d bytes)", x[:120], len(x))
		}
	}
	return out
}

func joinCRLF(h []string) string {
	if len(h) == 0 {
		return ""
	}
	return strings.Join(h, "\r\n") + "\r\n"
}

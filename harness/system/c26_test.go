package system

import (
	"fmt"
	"sort"
	"strings"
	"testing"
	"time"

	"github.com/bfenetworks/bfe/bfe_http"
	"pgregory.net/rapid"

	"verif/harness/internal/ev"
	"verif/harness/internal/sys"
)

// C26: hop-by-hop headers are not forwarded (RFC 7230 6.1 + the statement's list).

var c26Hop = []string{"Keep-Alive", "Proxy-Authenticate", "Proxy-Authorization", "TE", "Trailer", "Upgrade"}

func randCase(rt *rapid.T, s, label string) string {
	mode := rapid.IntRange(0, 3).Draw(rt, label+"-case")
	switch mode {
	case 0:
		return s
	case 1:
		return strings.ToLower(s)
	case 2:
		return strings.ToUpper(s)
	}
	b := []byte(s)
	for i := range b {
		if i%2 == 1 {
			b[i] = strings.ToUpper(string(b[i]))[0]
		} else {
			b[i] = strings.ToLower(string(b[i]))[0]
		}
	}
	return string(b)
}

type c26Header struct{ Name, Value string }

func TestC26(t *testing.T) {
	rec := ev.New("C26", "HTTP/1.1 requests sent over a real socket to an in-process BFE proxying to a harness backend (the cluster also has a refused member, so about half of the requests arrive on a retry; mod_auth_request checks a quarter of them against an auth service first); header sets contain generated subsets of the listed hop-by-hop fields in random case (multi-line, empty first value, TE variants) and a Connection header nominating 0..3 other present fields; oracle inspects the bytes the backend received. non-trivial: at least one hop-by-hop or Connection-nominated field present; distinct by header list")
	// cluster: one live backend and a refused port, so that about half of the requests reach the
	// backend on a retry; mod_auth_request checks requests below /c26/auth/ against an auth
	// service (second harness backend, always 200) before they are proxied
	files := map[string]string{}
	w := startWorld(t, 2, sys.Options{Modules: []string{"mod_auth_request"}, Files: files}, func(ports []int) *sys.DataConf {
		files["mod_auth_request/mod_auth_request.conf"] = fmt.Sprintf("[Basic]\nDataPath = mod_auth_request/auth_request_rule.data\nAuthAddress = http://127.0.0.1:%d\nAuthTimeout = 3000\n\n[Log]\nOpenDebug = false\n", ports[1])
		files["mod_auth_request/auth_request_rule.data"] = `{"Version": "v1", "Config": {"p": [{"Cond": "req_path_prefix_in(\"/c26/auth/\", false)", "Enable": true}]}}`
		cl := sys.Cluster{Name: "c", RetryMax: 2, TimeoutConnSrvMs: 1000}
		cl.Sub = []sys.SubCluster{{Name: "c.sub", Weight: 100, Backends: []sys.BackendSpec{
			{Name: "b0", Addr: "127.0.0.1", Port: ports[0], Weight: 10},
			{Name: "dead", Addr: "127.0.0.1", Port: 1, Weight: 10}}}}
		return sys.SimpleConf("v0", []sys.Cluster{cl}, nil)
	})
	n := 0
	rapid.Check(t, func(rt *rapid.T) {
		n++
		target := fmt.Sprintf("/c26/%d", n)
		authChecked := rapid.IntRange(0, 3).Draw(rt, "auth-checked") == 0
		if authChecked {
			target = fmt.Sprintf("/c26/auth/%d", n)
		}
		var hs []c26Header
		classes := []string{}
		// end-to-end markers
		hs = append(hs, c26Header{"X-Keep-A", "1"})
		// hop headers
		hopPresent := map[string]bool{}
		for _, h := range c26Hop {
			if !rapid.Bool().Draw(rt, "has-"+h) {
				continue
			}
			name := randCase(rt, h, h)
			var vals []string
			switch h {
			case "TE":
				vals = rapid.SampledFrom([][]string{{"trailers"}, {"gzip"}, {"trailers, gzip"}, {"trailers", "gzip"}, {"gzip", "trailers"}, {"deflate;q=0.5"}}).Draw(rt, "te")
			case "Upgrade":
				vals = rapid.SampledFrom([][]string{{"h2c"}, {"foo/2"}, {"", "h2c"}, {"websocket"}, {"WebSocket"}, {"websocket, h2c"}}).Draw(rt, "upg")
			case "Keep-Alive":
				vals = rapid.SampledFrom([][]string{{"timeout=5, max=100"}, {"", "timeout=5"}}).Draw(rt, "ka")
			case "Trailer":
				vals = rapid.SampledFrom([][]string{{"X-Sum"}, {"Expires"}, {"", "X-Sum"}}).Draw(rt, "tr")
			default:
				vals = rapid.SampledFrom([][]string{{"Basic Zm9vOmJhcg=="}, {"", "Basic Zm9vOmJhcg=="}, {"x"}}).Draw(rt, "pv")
			}
			for _, v := range vals {
				hs = append(hs, c26Header{name, v})
			}
			hopPresent[h] = true
			classes = append(classes, "hop:"+h)
			if len(vals) > 1 {
				classes = append(classes, "multi-line")
			}
			if vals[0] == "" {
				classes = append(classes, "empty-first-value")
			}
		}
		// Connection-nominated fields
		nomN := rapid.IntRange(0, 3).Draw(rt, "nomN")
		var nominated []string
		var connVals []string
		for i := 0; i < nomN; i++ {
			nm := fmt.Sprintf("X-Hop-%c", 'a'+rapid.IntRange(0, 4).Draw(rt, "nom"))
			nominated = append(nominated, nm)
			hs = append(hs, c26Header{randCase(rt, nm, "nomh"), "secret"})
			connVals = append(connVals, randCase(rt, nm, "nomc"))
		}
		if rapid.Bool().Draw(rt, "conn-std") {
			connVals = append(connVals, rapid.SampledFrom([]string{"close", "keep-alive", "Keep-Alive"}).Draw(rt, "connstd"))
		}
		if len(connVals) > 0 {
			if rapid.Bool().Draw(rt, "conn-split") && len(connVals) > 1 {
				hs = append(hs, c26Header{randCase(rt, "Connection", "c1"), connVals[0]})
				hs = append(hs, c26Header{"Connection", strings.Join(connVals[1:], " , ")})
				classes = append(classes, "connection-multi-line")
			} else {
				hs = append(hs, c26Header{randCase(rt, "Connection", "c1"), strings.Join(connVals, ", ")})
			}
		}
		if nomN > 0 {
			classes = append(classes, "connection-nominated")
		}
		// shuffle deterministically via rapid
		perm := rapid.Permutation(hs).Draw(rt, "order")
		method := rapid.SampledFrom([]string{"GET", "POST"}).Draw(rt, "method")
		var sb strings.Builder
		fmt.Fprintf(&sb, "%s %s HTTP/1.1\r\nHost: example.org\r\n", method, target)
		for _, h := range perm {
			fmt.Fprintf(&sb, "%s: %s\r\n", h.Name, h.Value)
		}
		body, payload := "", ""
		if method == "POST" {
			body, payload = "abcde", "abcde"
			switch framing := rapid.SampledFrom([]string{"content-length", "chunked", "chunked+trailer-part"}).Draw(rt, "framing"); framing {
			case "content-length":
				fmt.Fprintf(&sb, "Content-Length: %d\r\n", len(body))
			case "chunked":
				sb.WriteString("Transfer-Encoding: chunked\r\n")
				body = "5\r\nabcde\r\n0\r\n\r\n"
				classes = append(classes, "chunked-request")
			default:
				sb.WriteString("Transfer-Encoding: chunked\r\n")
				body = "5\r\nabcde\r\n0\r\nX-Sum: 99\r\n\r\n"
				classes = append(classes, "chunked-request", "trailer-part-sent")
			}
		}
		sb.WriteString("\r\n" + body)
		raw := sb.String()
		nontrivial := len(hopPresent) > 0 || nomN > 0
		var fpl []string
		for _, h := range hs {
			fpl = append(fpl, strings.ToLower(h.Name)+"="+h.Value)
		}
		sort.Strings(fpl)
		if authChecked {
			classes = append(classes, "auth-request-checked")
		}
		rec.Case(method+"|"+strings.Join(fpl, "|")+fmt.Sprint(authChecked), nontrivial, classes...)
		rec.Sample(map[string]any{"request": raw})

		front := rapid.SampledFrom([]string{"h1", "h1", "h2", "spdy"}).Draw(rt, "frontend")
		if front != "h1" && hopPresent["Trailer"] {
			// HTTP/2 and SPDY requests have no Content-Length here, so BFE frames the body
			// chunked towards the backend and, having parsed the client's trailer
			// declaration, announces the trailers of ITS OWN message with a Trailer field.
			// That is the proxy's own framing (like its own Transfer-Encoding), not the
			// client's field passing through: out of the property's domain.
			rec.Excluded("trailer-declared-on-h2-spdy")
			front = "h1"
		}
		rec.Class("front:" + front)
		status := 0
		switch front {
		case "h1":
			_, m, _, err := w.exchangeOne([]byte(raw), method, 10*time.Second)
			if err != nil || m == nil {
				rt.Fatalf("C26 rig: no parsable response from BFE: %v", err)
			}
			status = m.Status
		case "h2":
			cl, err := sys.NewH2Client(w.rig.HTTPSAddr)
			if err != nil {
				rt.Fatalf("C26 rig: h2 dial: %v", err)
			}
			hf := []sys.H2Field{{":method", method}, {":scheme", "https"}, {":path", target}, {":authority", "example.org"}}
			for _, h := range perm {
				hf = append(hf, sys.H2Field{strings.ToLower(h.Name), h.Value})
			}
			res, _ := cl.Request(hf, []byte(payload), 5*time.Second)
			cl.Close()
			if res != nil && res.Status == "200" {
				status = 200
			}
		case "spdy":
			cl, err := sys.NewSpdyClient(w.rig.HTTPSAddr)
			if err != nil {
				rt.Fatalf("C26 rig: spdy dial: %v", err)
			}
			hh := bfe_http.Header{":method": {method}, ":scheme": {"https"}, ":path": {target}, ":host": {"example.org"}, ":version": {"HTTP/1.1"}}
			for _, h := range perm {
				hh[strings.ToLower(h.Name)] = append(hh[strings.ToLower(h.Name)], h.Value)
			}
			res, _ := cl.Request(hh, []byte(payload), 5*time.Second)
			cl.Close()
			if res != nil && res.Header != nil && strings.HasPrefix(res.Header.Get(":status"), "200") {
				status = 200
			}
		}
		m := struct{ Status int }{status}
		seen := w.seenFor(target)
		w.forget(target)
		if m.Status != 200 || len(seen) == 0 {
			// BFE rejected the request itself: nothing reached a backend
			rec.Class("rejected-by-bfe")
			if len(seen) > 0 {
				rt.Fatalf("C26 rig: status %d but backend saw request", m.Status)
			}
			return
		}
		if len(seen) != 1 || seen[0].Msg == nil {
			rt.Fatalf("C26 rig: expected exactly one backend request, got %d", len(seen))
		}
		bf := lowerFields(seen[0].Msg)
		wit := map[string]any{"request": raw, "backend_saw": string(seen[0].Conn.Bytes())}
		for _, h := range []string{"keep-alive", "proxy-authenticate", "proxy-authorization", "upgrade"} {
			if v, ok := bf[h]; ok {
				key := "hop-forwarded:" + h
				if len(v) > 1 && v[0] == "" || containsEmptyFirst(perm, h) {
					key = "empty-first-value-forwarded"
				}
				if !rec.Fail(rt, key, wit, "hop-by-hop field %q reached the backend: %q", h, v) {
					return
				}
			}
		}
		if v, ok := bf["trailer"]; ok {
			// A proxy that frames the forwarded body chunked itself may announce the trailers of ITS
			// OWN message (see the h2/spdy exclusion above). That reading only holds while the
			// announcement is truthful: the forwarded message is chunked, the names are the ones the
			// client declared, and a trailer part the client did send is delivered. Otherwise the
			// client's hop-by-hop field is simply passing through.
			delivered := false
			for _, tf := range seen[0].Msg.Trailers {
				if strings.EqualFold(tf.Name, "X-Sum") && tf.Value == "99" {
					delivered = true
				}
			}
			truthful := front == "h1" && body != payload && hopPresent["Trailer"] && len(bf["transfer-encoding"]) == 1 &&
				(!strings.Contains(body, "X-Sum: 99") || delivered)
			if truthful {
				rec.Class("trailer-announced-as-own-framing")
			} else if !rec.Fail(rt, "trailer-forwarded", wit, "Trailer field reached the backend: %q (forwarded message chunked: %v, client sent a trailer part: %v, delivered: %v)", v, len(bf["transfer-encoding"]) == 1, strings.Contains(body, "X-Sum: 99"), delivered) {
				return
			}
		}
		if v, ok := bf["te"]; ok {
			if !(len(v) == 1 && strings.EqualFold(strings.TrimSpace(v[0]), "trailers")) {
				if !rec.Fail(rt, "te-nontrailers-forwarded", wit, "TE other than 'trailers' reached the backend: %q", v) {
					return
				}
			}
		}
		// no Content-Length on h2/spdy, or a chunked h1 request: BFE frames the forwarded body chunked itself
		ownChunked := (front != "h1" && body != "") || (front == "h1" && body != payload)
		if v, ok := bf["transfer-encoding"]; ok && !(ownChunked && len(v) == 1 && v[0] == "chunked") {
			if !rec.Fail(rt, "transfer-encoding-forwarded", wit, "Transfer-Encoding reached the backend for a request without chunked body: %q", v) {
				return
			}
		}
		for _, cv := range bf["connection"] {
			for _, tok := range strings.Split(cv, ",") {
				tok = strings.ToLower(strings.TrimSpace(tok))
				if tok != "" && tok != "close" && tok != "keep-alive" {
					if !rec.Fail(rt, "connection-forwarded", wit, "client Connection option %q reached the backend", tok) {
						return
					}
				}
			}
		}
		for _, nm := range nominated {
			if v, ok := bf[strings.ToLower(nm)]; ok {
				if !rec.Fail(rt, "connection-nominated-forwarded", wit, "field %q nominated by the client's Connection header reached the backend: %q", nm, v) {
					return
				}
			}
		}
		if _, ok := bf["x-keep-a"]; !ok {
			rec.Class("end-to-end-marker-missing")
		}
	})
}

func containsEmptyFirst(hs []c26Header, lname string) bool {
	for _, h := range hs {
		if strings.ToLower(h.Name) == lname {
			return h.Value == ""
		}
	}
	return false
}

package system

import (
	"bytes"
	"fmt"
	"strings"
	"testing"
	"time"

	"github.com/bfenetworks/bfe/bfe_module"
	"pgregory.net/rapid"

	"verif/harness/internal/ev"
	"verif/harness/internal/ref"
	"verif/harness/internal/sys"
)

// C28: keep-alive connections stay in sync.

type c28Req struct {
	Kind   string // get, head, post-cl, post-chunked, post-expect, malformed, oversized
	Target string
	Method string
	Raw    []byte
	Early  bool
}

func TestC28(t *testing.T) {
	rec := ev.New("C28", "1..6 pipelined requests (GET, HEAD, POST with Content-Length / chunked / Expect: 100-continue, a malformed request or an oversized header in the middle) are written on one client connection in generated TCP segmentations, towards a cluster without or with backend keep-alive; request bodies carry decoy request text; backends answer normally, right after the header section without reading the body, close-delimited, or with an unsolicited interim 100 Continue first; modules answer some requests themselves. Oracle: responses parse in order, response i echoes request i's target, no backend ever sees a target that was only sent as body bytes. non-trivial: >=2 requests and >=1 with a body; distinct by sequence shape + segmentation")
	w := startWorld(t, 2, sys.Options{MaxHeaderBytes: 8192, AfterInit: installFilters}, func(ports []int) *sys.DataConf {
		cl := sys.Cluster{Name: "c", RetryMax: 0, TimeoutResponseHeaderMs: 3000, TimeoutReadClientMs: 3000}
		sc := sys.SubCluster{Name: "c.sub", Weight: 100}
		for i, p := range ports {
			sc.Backends = append(sc.Backends, sys.BackendSpec{Name: fmt.Sprintf("b%d", i), Addr: "127.0.0.1", Port: p, Weight: 10})
		}
		cl.Sub = []sys.SubCluster{sc}
		// the same backends behind a cluster with backend keep-alive (BFE's default of 2 idle
		// connections per backend): consecutive requests of one client connection, and of
		// consecutive cases, then share backend connections
		ck := cl
		ck.Name = "ck"
		ck.MaxIdleConnsPerHost = 2
		ksc := sc
		ksc.Name = "ck.sub"
		ck.Sub = []sys.SubCluster{ksc}
		return sys.SimpleConf("v0", []sys.Cluster{cl, ck}, []sys.Rule{
			{Cond: `req_path_prefix_in("/c28k/", false)`, Cluster: "ck"},
			{Cond: `default_t()`, Cluster: "c"},
		})
	})
	n := 0
	rapid.Check(t, func(rt *rapid.T) {
		n++
		k := rapid.IntRange(1, 6).Draw(rt, "nreq")
		pfx := "/c28"
		if rapid.Bool().Draw(rt, "backend-keepalive") {
			pfx = "/c28k"
		}
		var reqs []c28Req
		var filtTargets []string
		defer func() {
			for _, ft := range filtTargets {
				hub.del(ft)
			}
		}()
		hasBody := false
		for i := 0; i < k; i++ {
			target := fmt.Sprintf("%s/%d/%d", pfx, n, i)
			decoy := fmt.Sprintf("GET /smuggled/%d/%d HTTP/1.1\r\nHost: example.org\r\n\r\n", n, i)
			kind := rapid.SampledFrom([]string{"get", "get", "get", "head", "head", "post-cl", "post-cl", "post-cl", "post-chunked", "post-chunked", "post-expect", "post-expect", "malformed", "oversized"}).Draw(rt, "kind")
			r := c28Req{Kind: kind, Target: target, Method: "GET"}
			pad := rapid.SampledFrom([]int{0, 0, 1, 500, 5000}).Draw(rt, "pad")
			body := decoy + strings.Repeat("x", pad) + decoy
			switch kind {
			case "get":
				r.Raw = []byte(fmt.Sprintf("GET %s HTTP/1.1\r\nHost: example.org\r\n\r\n", target))
			case "head":
				r.Method = "HEAD"
				r.Raw = []byte(fmt.Sprintf("HEAD %s HTTP/1.1\r\nHost: example.org\r\n\r\n", target))
			case "post-cl":
				r.Method = "POST"
				r.Early = rapid.IntRange(0, 3).Draw(rt, "early") == 0
				r.Raw = []byte(fmt.Sprintf("POST %s HTTP/1.1\r\nHost: example.org\r\nContent-Length: %d\r\n\r\n%s", target, len(body), body))
				hasBody = true
			case "post-chunked":
				r.Method = "POST"
				r.Early = rapid.IntRange(0, 3).Draw(rt, "early") == 0
				var cb bytes.Buffer
				rest := []byte(body)
				for len(rest) > 0 {
					cn := rapid.IntRange(1, 200).Draw(rt, "cn")
					if cn > len(rest) {
						cn = len(rest)
					}
					fmt.Fprintf(&cb, "%x\r\n%s\r\n", cn, rest[:cn])
					rest = rest[cn:]
				}
				cb.WriteString("0\r\n\r\n")
				r.Raw = append([]byte(fmt.Sprintf("POST %s HTTP/1.1\r\nHost: example.org\r\nTransfer-Encoding: chunked\r\n\r\n", target)), cb.Bytes()...)
				hasBody = true
			case "post-expect":
				r.Method = "POST"
				r.Raw = []byte(fmt.Sprintf("POST %s HTTP/1.1\r\nHost: example.org\r\nExpect: 100-continue\r\nContent-Length: %d\r\n\r\n%s", target, len(body), body))
				hasBody = true
			case "malformed":
				r.Raw = []byte(fmt.Sprintf("GET%s\r\nHost: example.org\r\n\r\n", target))
			case "oversized":
				r.Raw = []byte(fmt.Sprintf("GET %s HTTP/1.1\r\nHost: example.org\r\nX-Big: %s\r\n\r\n", target, strings.Repeat("b", 20000)))
			}
			if r.Early {
				w.setScript(target, &respScript{Early: true})
			} else if kind != "malformed" && kind != "oversized" {
				switch rapid.IntRange(0, 7).Draw(rt, "variant") {
				case 0:
					// backend answers without Content-Length (close-delimited)
					r.Kind += "+nocl"
					w.setScript(target, &respScript{NoCL: true})
				case 1, 2:
					// a module answers the request itself, without reading the body
					r.Kind += "+modresp"
					pt := reqPoints[rapid.IntRange(0, 2).Draw(rt, "modpoint")]
					fs := &filtScript{V: map[int][]int{pt: {bfe_module.BfeHandlerResponse}}, RespStatus: 403, RespBody: "denied",
						RespHeader: map[string]string{"X-Echo-Target": target}}
					hub.set(target, fs)
					filtTargets = append(filtTargets, target)
				case 3:
					// the backend emits an interim 100 Continue nobody asked for (RFC 7231 6.2.1
					// lets a server do so) before its final response
					r.Kind += "+interim100"
					w.setScript(target, &respScript{Interim100: true})
				}
			}
			reqs = append(reqs, r)
		}
		var stream []byte
		var shape []string
		for _, r := range reqs {
			stream = append(stream, r.Raw...)
			s := r.Kind
			if r.Early {
				s += "+early"
			}
			shape = append(shape, s)
		}
		// segmentation
		var cuts []int
		ncut := rapid.IntRange(0, 6).Draw(rt, "ncut")
		// half of the cuts fall on structural boundaries: right after a CR, an LF, a CRLF or the
		// "0" of a last chunk (e.g. between "0\r\n" and the final "\r\n" of a chunked body)
		var edges []int
		for i := 1; i < len(stream); i++ {
			if stream[i-1] == '\r' || stream[i-1] == '\n' || (stream[i-1] == '0' && stream[i] == '\r') {
				edges = append(edges, i)
			}
		}
		// ... and the place where a chunked body is one CRLF short of complete gets extra weight
		var hot []int
		for i := 0; i+5 <= len(stream); i++ {
			if string(stream[i:i+5]) == "\r\n0\r\n" {
				hot = append(hot, i+5)
			}
		}
		for i := 0; i < ncut; i++ {
			if len(hot) > 0 && rapid.IntRange(0, 2).Draw(rt, "cut-before-final-crlf") == 0 {
				cuts = append(cuts, rapid.SampledFrom(hot).Draw(rt, "hot"))
			} else if len(edges) > 0 && rapid.Bool().Draw(rt, "cut-at-edge") {
				cuts = append(cuts, rapid.SampledFrom(edges).Draw(rt, "edge"))
			} else {
				cuts = append(cuts, rapid.IntRange(1, len(stream)).Draw(rt, "cut"))
			}
		}
		// the segments are either written back to back or spaced so that BFE reads them one by one
		spaced := ncut > 0 && rapid.Bool().Draw(rt, "spaced-segments")
		cls := []string{fmt.Sprintf("nreq:%d", k), fmt.Sprintf("backend-keepalive:%v", pfx == "/c28k"), fmt.Sprintf("spaced-segments:%v", spaced)}
		for _, s := range shape {
			cls = append(cls, "kind:"+s)
		}
		rec.Case(pfx+strings.Join(shape, ",")+fmt.Sprint(cuts), k >= 2 && hasBody, cls...)
		rec.Sample(map[string]any{"sequence": shape, "cuts": cuts, "stream_len": len(stream)})
		wit := map[string]any{"sequence": shape, "cuts": cuts, "n": n}

		c, err := w.rig.Dial()
		if err != nil {
			rt.Fatalf("rig: %v", err)
		}
		defer c.Close()
		done := make(chan struct{})
		go func() {
			defer close(done)
			prev := 0
			sorted := append([]int(nil), cuts...)
			for i := range sorted {
				for j := i + 1; j < len(sorted); j++ {
					if sorted[j] < sorted[i] {
						sorted[i], sorted[j] = sorted[j], sorted[i]
					}
				}
			}
			for _, cut := range append(sorted, len(stream)) {
				if cut > prev {
					if _, err := c.Write(stream[prev:cut]); err != nil {
						return
					}
					prev = cut
					if spaced && cut < len(stream) {
						time.Sleep(3 * time.Millisecond)
					}
				}
			}
		}()
		// read until close, or until all k responses parsed, or quiet for a while
		var got []byte
		buf := make([]byte, 64*1024)
		closed := false
		var resps []*ref.Message
		parsedUpTo := 0
		deadline := time.Now().Add(15 * time.Second)
		ri := 0 // index of the request the next final response belongs to
		parseMore := func() error {
			for parsedUpTo < len(got) && ri < len(reqs) {
				m, err := ref.ParseResponse(got[parsedUpTo:], reqs[ri].Method, closed)
				if err == ref.ErrIncomplete {
					return nil
				}
				if err != nil {
					return err
				}
				parsedUpTo += m.ConsumedLen
				if m.Status == 100 {
					if !strings.HasPrefix(reqs[ri].Kind, "post-expect") {
						return fmt.Errorf("100 Continue for request %d (%s) that did not expect it", ri, reqs[ri].Kind)
					}
					continue
				}
				resps = append(resps, m)
				ri++
			}
			return nil
		}
		var perr error
		for {
			if perr = parseMore(); perr != nil || ri >= len(reqs) || closed {
				break
			}
			c.SetReadDeadline(deadline)
			nr, rerr := c.Read(buf)
			got = append(got, buf[:nr]...)
			if rerr != nil {
				if ne, ok := rerr.(interface{ Timeout() bool }); ok && ne.Timeout() {
					rec.Class("timeout-waiting")
					break
				}
				closed = true
			}
		}
		if perr == nil && closed {
			perr = parseMore()
		}
		<-done
		sentinel := fmt.Sprintf("%s/%d/sentinel", pfx, n)
		announcedClose := len(resps) > 0 && strings.Contains(strings.ToLower(strings.Join(resps[len(resps)-1].Get("Connection"), ",")), "close")
		if perr == nil && ri >= len(reqs) && !closed && announcedClose {
			more, _ := sys.ReadAllTimeout(c, 8*time.Second)
			got = append(got, more...)
			closed = true
		}
		if perr == nil && ri >= len(reqs) && !closed {
			// every request was answered and the connection is still open: anything BFE
			// still has to say must come before the answer to a sentinel request
			fmt.Fprintf(c, "GET %s HTTP/1.1\r\nHost: example.org\r\nConnection: close\r\n\r\n", sentinel)
			more, _ := sys.ReadAllTimeout(c, 8*time.Second)
			rest := append(append([]byte(nil), got[parsedUpTo:]...), more...)
			sm, serr := ref.ParseResponse(rest, "GET", true)
			if serr == nil && pfx == "/c28k" && sm.ConsumedLen == len(rest) && sm.Status/100 == 5 {
				// backend connections that a scripted backend closed (early answers, close-delimited
				// responses) may still sit in BFE's idle pool: a well-formed, aligned 5xx is the
				// legitimate outcome of running into one
				rec.Class("sentinel-5xx-on-stale-backend-connection")
			} else if serr != nil || sm.ConsumedLen != len(rest) || sm.Status != 200 || len(sm.Get("X-Echo-Target")) != 1 || sm.Get("X-Echo-Target")[0] != sentinel {
				wit["after_last_response"] = clipS(rest)
				c.Close()
				rec.Fail(rt, "extra-response-bytes", wit, "after %d responses to %d requests the connection carries more than the sentinel's answer (err=%v): %q", len(resps), len(reqs), serr, clipS(rest))
				return
			}
			got = got[:parsedUpTo]
		}
		c.Close()
		wit["client_got"] = clipS(got)
		if perr != nil {
			rec.Fail(rt, "response-stream-malformed", wit, "response stream does not parse at offset %d: %v", parsedUpTo, perr)
			return
		}
		if parsedUpTo < len(got) && (ri >= len(reqs) || closed) {
			rest := got[parsedUpTo:]
			if _, err := ref.ParseResponse(rest, "GET", closed); err != ref.ErrIncomplete || ri >= len(reqs) {
				if !rec.Fail(rt, "extra-response-bytes", wit, "%d unexpected bytes after response %d of %d requests: %q", len(rest), len(resps), len(reqs), clipS(rest)) {
					return
				}
			}
		}
		// response i belongs to request i
		for i, m := range resps {
			echo := m.Get("X-Echo-Target")
			if m.Status == 200 {
				if len(echo) != 1 || echo[0] != reqs[i].Target {
					if !rec.Fail(rt, "response-order", wit, "response %d echoes target %v, want %s", i, echo, reqs[i].Target) {
						return
					}
				}
			} else {
				rec.Class(fmt.Sprintf("status:%d:%s", m.Status, reqs[i].Kind))
				if len(echo) > 0 && echo[0] != reqs[i].Target {
					if !rec.Fail(rt, "response-order", wit, "response %d (status %d) echoes target %v, want %s", i, m.Status, echo, reqs[i].Target) {
						return
					}
				}
			}
			if (reqs[i].Kind == "malformed" || reqs[i].Kind == "oversized") && m.Status == 200 {
				if !rec.Fail(rt, "bad-request-forwarded:"+reqs[i].Kind, wit, "request %d (%s) was answered 200", i, reqs[i].Kind) {
					return
				}
			}
		}
		// backends: only targets the client sent as requests, each at most once, never a decoy
		time.Sleep(0)
		w.mu.Lock()
		seen := w.seen
		w.seen = map[string][]seenReq{}
		w.mu.Unlock()
		valid := map[string]bool{}
		for _, r := range reqs {
			valid[r.Target] = true
			w.forget(r.Target)
		}
		valid[sentinel] = true
		for tgt, ss := range seen {
			if strings.HasPrefix(tgt, "/smuggled") {
				wit["backend_saw"] = clipS(ss[0].Conn.Bytes())
				if !rec.Fail(rt, "body-bytes-as-request", wit, "backend received request %s that the client only sent inside a request body", tgt) {
					return
				}
				continue
			}
			if tgt == "!malformed" {
				// truncated forward (client/BFE closed mid-body) is fine; malformed start of a request is not
				for _, s := range ss {
					if s.Err != ref.ErrIncomplete {
						rec.Class("backend-malformed-bytes")
					}
				}
				continue
			}
			if !valid[tgt] {
				if strings.HasPrefix(tgt, fmt.Sprintf("%s/%d/", pfx, n)) || !(strings.HasPrefix(tgt, "/c28/") || strings.HasPrefix(tgt, "/c28k/")) {
					if !rec.Fail(rt, "unknown-target-at-backend", wit, "backend saw target %q", tgt) {
						return
					}
				}
				continue
			}
			if len(ss) > 1 {
				if !rec.Fail(rt, "request-forwarded-twice", wit, "target %s reached backends %d times", tgt, len(ss)) {
					return
				}
			}
		}
		for _, b := range w.backends {
			b.Reset()
		}
	})
}

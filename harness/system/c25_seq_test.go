package system

import (
	"bytes"
	"fmt"
	"net"
	"strings"
	"sync"
	"time"

	"pgregory.net/rapid"

	"verif/harness/internal/ev"
	"verif/harness/internal/ref"
	"verif/harness/internal/sys"
)

// C25, histories: the property speaks about the bytes written to a backend
// connection. With backend keep-alive one connection carries a sequence of
// requests of different clients, so "exactly one well-formed request equal to the
// accepted one" must hold for every element of that sequence: an upload that was
// cut short must never be completed by bytes of somebody else's request, and
// requests written concurrently must not borrow each other's fields.

type c25Issued struct {
	Method string
	Fields map[string]string // lower-case name -> value (client fields only)
	Body   []byte            // the complete body the client announced
	Sent   int               // how many body bytes the client really sent
	CL     bool              // Content-Length framing (else chunked)
}

type c25KA struct {
	open []*sys.BackendConn       // keep-alive backend connections still open
	off  map[*sys.BackendConn]int // parsed prefix per connection
	// requests of earlier cases that sit truncated at the end of a still-open connection
	pending map[string]*c25Issued
}

// c25CheckStreams parses everything new on the keep-alive backend's connections.
func c25CheckStreams(rt *rapid.T, rec *ev.Rec, w *world, ka *c25KA, issued map[string]*c25Issued, mode string, wit map[string]any) bool {
	for tg, is := range ka.pending {
		issued[tg] = is
	}
	ka.pending = map[string]*c25Issued{}
	conns := append([]*sys.BackendConn(nil), ka.open...)
	for _, b := range w.backends[1:] {
		conns = append(conns, b.Conns()...)
		b.Reset()
	}
	ka.open = nil
	for ci, bc := range conns {
		data := bc.Bytes()
		off := ka.off[bc]
		if len(data) > off {
			wit[fmt.Sprintf("backend_conn_%d_new_bytes", ci)] = clipS(data[off:])
		}
		for off < len(data) {
			m, err := ref.ParseRequest(data[off:])
			if err == ref.ErrIncomplete {
				// a request cut short: completed with what its client still owed, it must be
				// exactly that client's request and nothing else
				tail := data[off:]
				hdrEnd := bytes.Index(tail, []byte("\r\n\r\n"))
				if hdrEnd < 0 {
					break
				}
				line := string(tail[:bytes.Index(tail, []byte("\r\n"))])
				parts := strings.Split(line, " ")
				if len(parts) != 3 {
					rec.Fail(rt, "malformed-request-forwarded:"+mode, wit, "backend received a truncated request with a bad request line %q", line)
					return false
				}
				is := issued[parts[1]]
				if is == nil {
					rec.Fail(rt, "unknown-request-forwarded:"+mode, wit, "backend received a (truncated) request for %q that no client sent in this case", parts[1])
					return false
				}
				if is.CL {
					got := tail[hdrEnd+4:]
					if !bytes.HasPrefix(is.Body, got) {
						rec.Fail(rt, "body-changed:"+mode, wit, "truncated upload %s: the %d body bytes at the backend are not a prefix of the client's body: %q", parts[1], len(got), clipS(got))
						return false
					}
				}
				if !bc.EOF() {
					ka.pending[parts[1]] = is
				}
				break
			}
			if err != nil {
				rec.Fail(rt, "malformed-request-forwarded:"+mode, wit, "backend received bytes that are not a well-formed HTTP/1.1 request (%v): %q", err, clipS(data[off:]))
				return false
			}
			off += m.ConsumedLen
			is := issued[m.Target]
			if is == nil {
				if strings.Contains(m.Target, "/c25k/") {
					// a request of an earlier case that was still in flight
					continue
				}
				rec.Fail(rt, "unknown-request-forwarded:"+mode, wit, "backend received a request for %q that no client sent", m.Target)
				return false
			}
			if m.Method != is.Method {
				rec.Fail(rt, "method-changed:"+mode, wit, "%s: method %q forwarded as %q", m.Target, is.Method, m.Method)
				return false
			}
			if !bytes.Equal(m.Body, is.Body) {
				rec.Fail(rt, "body-changed:"+mode, wit, "%s: client announced body %q (sent %d bytes of it), backend parsed body %q", m.Target, clipS(is.Body), is.Sent, clipS(m.Body))
				return false
			}
			got := map[string]string{}
			for _, f := range m.Fields {
				ln := strings.ToLower(f.Name)
				if c25Added[ln] {
					continue
				}
				want, ok := is.Fields[ln]
				if !ok {
					rec.Fail(rt, "field-added:"+mode, wit, "%s: backend request has field %q (%q) that its client never sent", m.Target, f.Name, f.Value)
					return false
				}
				if want != f.Value {
					rec.Fail(rt, "value-changed:"+mode, wit, "%s: field %q: client sent %q, backend got %q", m.Target, f.Name, want, f.Value)
					return false
				}
				got[ln] = f.Value
			}
			if len(got) != len(is.Fields) {
				rec.Fail(rt, "field-lost:"+mode, wit, "%s: client sent %d fields, backend got %d of them", m.Target, len(is.Fields), len(got))
				return false
			}
		}
		ka.off[bc] = off
		if bc.EOF() {
			delete(ka.off, bc)
		} else {
			ka.open = append(ka.open, bc)
		}
	}
	return true
}

func c25Sequence(rt *rapid.T, rec *ev.Rec, w *world, n int, mode string, ka *c25KA) {
	issued := map[string]*c25Issued{}
	wit := map[string]any{"mode": mode}
	base := fmt.Sprintf("/c25k/%d", n)
	get := func(i int) (string, bool) {
		tg := fmt.Sprintf("%s/f%d", base, i)
		fl := map[string]string{"x-follow": fmt.Sprint(i)}
		issued[tg] = &c25Issued{Method: "GET", Fields: fl, CL: true}
		resp, _, _ := w.exchange([]byte(fmt.Sprintf("GET %s HTTP/1.1\r\nHost: example.org\r\nX-Follow: %d\r\nConnection: close\r\n\r\n", tg, i)), 3*time.Second)
		return tg, bytes.HasPrefix(resp, []byte("HTTP/1.1 200"))
	}
	switch mode {
	case "aborted-upload":
		total := rapid.IntRange(20, 400).Draw(rt, "announced")
		sent := rapid.IntRange(0, total-1).Draw(rt, "sent")
		cl := rapid.Bool().Draw(rt, "content-length-framing")
		abort := rapid.SampledFrom([]string{"rst", "fin", "stall"}).Draw(rt, "abort")
		delayMs := rapid.SampledFrom([]int{0, 1, 20}).Draw(rt, "delay-ms")
		nfollow := rapid.IntRange(1, 3).Draw(rt, "followups")
		warm := rapid.Bool().Draw(rt, "warm")
		method := rapid.SampledFrom([]string{"POST", "PUT"}).Draw(rt, "method")
		rec.Case(fmt.Sprintf("abort|%d/%d|%v|%s|%d|%d|%v", sent, total, cl, abort, delayMs, nfollow, warm), true, "mode:aborted-upload", "abort:"+abort)
		rec.Sample(map[string]any{"mode": mode, "announced": total, "sent": sent, "content_length_framing": cl, "abort": abort, "followups": nfollow})
		for k, v := range map[string]any{"announced": total, "sent": sent, "content_length_framing": cl, "abort": abort, "delay_ms": delayMs, "followups": nfollow} {
			wit[k] = v
		}
		if warm {
			get(100)
		}
		body := bytes.Repeat([]byte("u"), total)
		tg := base + "/up"
		issued[tg] = &c25Issued{Method: method, Fields: map[string]string{"x-up": "1"}, Body: body, Sent: sent, CL: cl}
		w.setScript(tg, &respScript{EarlyKeep: true})
		c, err := w.rig.Dial()
		if err != nil {
			rt.Fatalf("rig: %v", err)
		}
		var sb bytes.Buffer
		fmt.Fprintf(&sb, "%s %s HTTP/1.1\r\nHost: example.org\r\nX-Up: 1\r\n", method, tg)
		if cl {
			fmt.Fprintf(&sb, "Content-Length: %d\r\n\r\n", total)
			sb.Write(body[:sent])
		} else {
			sb.WriteString("Transfer-Encoding: chunked\r\n\r\n")
			// one chunk announcing everything, of which only `sent` bytes follow
			fmt.Fprintf(&sb, "%x\r\n", total)
			sb.Write(body[:sent])
		}
		c.Write(sb.Bytes())
		// BFE (like net/http) drains the rest of the request body before it writes a response,
		// so the early answer normally stays inside BFE while the backend connection is
		// already back in the idle pool; wait until the backend has answered
		for i := 0; i < 300 && len(w.seenFor(tg)) == 0; i++ {
			time.Sleep(time.Millisecond)
		}
		if len(w.seenFor(tg)) > 0 {
			rec.Class("backend-answered-before-body-complete")
		}
		time.Sleep(time.Duration(rapid.SampledFrom([]int{0, 2, 30}).Draw(rt, "settle-ms")) * time.Millisecond)
		switch abort {
		case "rst":
			if tc, ok := c.(*net.TCPConn); ok {
				tc.SetLinger(0)
			}
			c.Close()
		case "fin":
			c.Close()
		}
		time.Sleep(time.Duration(delayMs) * time.Millisecond)
		for i := 0; i < nfollow; i++ {
			if _, ok := get(i); ok {
				rec.Class("followup-served")
			} else {
				rec.Class("followup-failed")
			}
		}
		if abort == "stall" {
			c.Close()
		}
		time.Sleep(20 * time.Millisecond)
		w.forget(tg)
	case "h2-upload-then-reset":
		// an HTTP/2 upload without content-length whose last DATA frame (END_STREAM) is followed
		// at once by RST_STREAM or by the loss of the connection: whatever reaches the backend
		// is either nothing, a truncated request, or the complete request with the complete body
		size := rapid.SampledFrom([]int{1, 100, 9009, 40000}).Draw(rt, "h2-body")
		how := rapid.SampledFrom([]string{"rst", "drop", "rst-then-drop"}).Draw(rt, "h2-abort")
		k := rapid.IntRange(1, 3).Draw(rt, "h2-streams")
		rec.Case(fmt.Sprintf("h2abort|%d|%s|%d|%d", size, how, k, n), true, "mode:h2-upload-then-reset", "h2-abort:"+how)
		rec.Sample(map[string]any{"mode": mode, "body": size, "abort": how, "streams": k})
		wit["body"], wit["abort"], wit["streams"] = size, how, k
		cl, err := sys.NewH2Client(w.rig.HTTPSAddr)
		if err != nil {
			rt.Fatalf("rig: h2 dial: %v", err)
		}
		for i := 0; i < k; i++ {
			tg := fmt.Sprintf("%s/h2up%d", base, i)
			body := bytes.Repeat([]byte{byte('a' + i)}, size)
			issued[tg] = &c25Issued{Method: "POST", Fields: map[string]string{"x-up": fmt.Sprint(i)}, Body: body, Sent: size, CL: false}
			cl.SendAborted([]sys.H2Field{{":method", "POST"}, {":scheme", "https"}, {":path", tg}, {":authority", "example.org"}, {"x-up", fmt.Sprint(i)}}, body, how != "drop")
		}
		if how != "rst" {
			cl.Close()
		}
		time.Sleep(time.Duration(rapid.SampledFrom([]int{5, 40}).Draw(rt, "h2-settle-ms")) * time.Millisecond)
		get(0)
		if how == "rst" {
			cl.Close()
		}
		time.Sleep(20 * time.Millisecond)
	case "h2-upload-backend-fails":
		// an HTTP/2 request with a body of unknown length is being uploaded when the first
		// backend drops the connection; the cluster allows retrying GETs. A retry may only
		// ever carry the complete body - the part already consumed cannot be replayed.
		method := rapid.SampledFrom([]string{"GET", "GET", "POST"}).Draw(rt, "h2-method")
		total := rapid.SampledFrom([]int{2000, 9009, 30000}).Draw(rt, "h2-total")
		first := rapid.IntRange(1, total-1).Draw(rt, "h2-first-part")
		rec.Case(fmt.Sprintf("h2retry|%s|%d|%d|%d", method, total, first, n), true, "mode:h2-upload-backend-fails", "h2-method:"+method)
		rec.Sample(map[string]any{"mode": mode, "method": method, "body": total, "first_part": first})
		wit["method"], wit["body"], wit["first_part"] = method, total, first
		tg := fmt.Sprintf("/c25k/rt/%d/up", n)
		body := bytes.Repeat([]byte("r"), total)
		issued[tg] = &c25Issued{Method: method, Fields: map[string]string{"x-up": "1"}, Body: body, Sent: total, CL: false}
		w.setScript(tg, &respScript{Seq: &faultSeq{faults: []string{"rst-on-header"}}})
		cl, err := sys.NewH2Client(w.rig.HTTPSAddr)
		if err != nil {
			rt.Fatalf("rig: h2 dial: %v", err)
		}
		id, err := cl.StartRequest([]sys.H2Field{{":method", method}, {":scheme", "https"}, {":path", tg}, {":authority", "example.org"}, {"x-up", "1"}})
		if err == nil {
			cl.Fr.WriteData(id, false, body[:first])
			for i := 0; i < 300 && len(w.seenFor(tg)) == 0; i++ {
				time.Sleep(time.Millisecond)
			}
			time.Sleep(time.Duration(rapid.SampledFrom([]int{0, 5, 30}).Draw(rt, "h2-gap-ms")) * time.Millisecond)
			cl.Fr.WriteData(id, true, body[first:])
			cl.ReadResponse(id, 3*time.Second)
		}
		cl.Close()
		w.forget(tg)
		time.Sleep(20 * time.Millisecond)
	case "concurrent":
		k := rapid.IntRange(8, 24).Draw(rt, "clients")
		nf := rapid.IntRange(4, 24).Draw(rt, "fields-per-request")
		rec.Case(fmt.Sprintf("concurrent|%d|%d|%d", k, nf, n), true, "mode:concurrent")
		rec.Sample(map[string]any{"mode": mode, "clients": k, "fields_per_request": nf})
		wit["clients"], wit["fields_per_request"] = k, nf
		// three bursts per case: all clients of a burst are released together
		for round := 0; round < 3; round++ {
			var wg sync.WaitGroup
			start := make(chan struct{})
			for i := 0; i < k; i++ {
				tg := fmt.Sprintf("%s/r%d/p%d", base, round, i)
				fl := map[string]string{}
				var sb bytes.Buffer
				body := []byte(fmt.Sprintf("body-of-%d-%d", n, i))
				fmt.Fprintf(&sb, "POST %s HTTP/1.1\r\nHost: example.org\r\nConnection: close\r\nContent-Length: %d\r\n", tg, len(body))
				for j := 0; j < nf; j++ {
					name := fmt.Sprintf("x-p%d-%c%d", i, 'a'+rune((j*7+i)%26), j)
					val := fmt.Sprintf("v-%d-%d-%d", n, i, j)
					fl[name] = val
					fmt.Fprintf(&sb, "%s: %s\r\n", name, val)
				}
				sb.WriteString("\r\n")
				sb.Write(body)
				issued[tg] = &c25Issued{Method: "POST", Fields: fl, Body: body, Sent: len(body), CL: true}
				raw := sb.Bytes()
				wg.Add(1)
				go func() {
					defer wg.Done()
					c, err := w.rig.Dial()
					if err != nil {
						return
					}
					defer c.Close()
					<-start
					c.Write(raw)
					sys.ReadAllTimeout(c, 5*time.Second)
				}()
			}
			time.Sleep(2 * time.Millisecond)
			close(start)
			wg.Wait()
		}
	}
	c25CheckStreams(rt, rec, w, ka, issued, mode, wit)
	w.mu.Lock()
	w.seen = map[string][]seenReq{}
	w.mu.Unlock()
}

package system

import (
	"fmt"
	"testing"
	"time"

	"verif/harness/internal/sys"
)

func okHandler(name string) func(bc *sys.BackendConn) {
	return func(bc *sys.BackendConn) {
		off := 0
		for {
			m, err := bc.ReadRequest(off, 10*time.Second)
			if err != nil {
				return
			}
			off += m.ConsumedLen
			body := "hello from " + name
			fmt.Fprintf(bc.Conn, "HTTP/1.1 200 OK\r\nContent-Length: %d\r\nX-Backend: %s\r\n\r\n%s", len(body), name, body)
		}
	}
}

func TestSmoke(t *testing.T) {
	b, err := sys.NewBackend("b0", okHandler("b0"))
	if err != nil {
		t.Fatal(err)
	}
	rig, err := sys.Start(sys.Options{Modules: []string{"mod_header"}, Data: sys.SimpleConf("v1", []sys.Cluster{sys.OneBackendCluster("c", b.Port)}, nil)})
	if err != nil {
		t.Fatal(err)
	}
	c, err := rig.Dial()
	if err != nil {
		t.Fatal(err)
	}
	fmt.Fprintf(c, "GET /x?a=1 HTTP/1.1\r\nHost: example.org\r\nConnection: close, Foo\r\nFoo: bar\r\n\r\n")
	data, closed := sys.ReadAllTimeout(c, 5*time.Second)
	t.Logf("closed=%v response=%q", closed, data)
	for _, bc := range b.Conns() {
		t.Logf("backend got %q", bc.Bytes())
	}
}

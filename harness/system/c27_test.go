package system

import (
	"bytes"
	"fmt"
	"sort"
	"strings"
	"testing"
	"time"

	"pgregory.net/rapid"

	"verif/harness/internal/ev"
	"verif/harness/internal/ref"
	"verif/harness/internal/sys"
)

// C27: HTTP/1 responses to clients are correctly framed.

func c27Body(rt *rapid.T) []byte {
	n := rapid.SampledFrom([]int{0, 1, 2, 7, 100, 511, 512, 513, 4095, 4096, 4097, 8192, 33000, 70000}).Draw(rt, "bodylen")
	b := make([]byte, n)
	seed := rapid.IntRange(0, 250).Draw(rt, "bodyseed")
	for i := range b {
		b[i] = byte('a' + (i*7+seed)%26)
		if i%61 == 60 {
			b[i] = '\n'
		}
	}
	return b
}

func chunkedEncode(rt *rapid.T, body []byte) []byte {
	var out bytes.Buffer
	rest := body
	for len(rest) > 0 {
		n := rapid.IntRange(1, 5000).Draw(rt, "chunk")
		if n > len(rest) {
			n = len(rest)
		}
		fmt.Fprintf(&out, "%x\r\n", n)
		out.Write(rest[:n])
		out.WriteString("\r\n")
		rest = rest[n:]
	}
	out.WriteString("0\r\n\r\n")
	return out.Bytes()
}

func TestC27(t *testing.T) {
	rec := ev.New("C27", "a harness backend answers with a generated well-formed raw response (status incl. 1xx/204/304, framing: Content-Length / chunked / close-delimited / HTTP/1.0, Connection options, end-to-end fields, bodies 0..70000 B) to a generated client request (GET/HEAD/POST, HTTP/1.0|1.1, keep-alive/close) through an in-process BFE; client-side bytes are parsed by a strict RFC 7230 response parser and a pipelined sentinel request detects trailing garbage. Requests to a cluster without a reachable member (GET, POST, POST with Expect: 100-continue) are answered by BFE itself and must also be exactly one response. One cluster keeps backend connections alive; there the backend may append a stale second response or junk behind its response, and a later client's request must still get its own answer. non-trivial: anything but GET/HTTP/1.1 with 200+Content-Length; distinct by request+response shape")
	w := startWorld(t, 1, sys.Options{}, func(ports []int) *sys.DataConf {
		// three clusters on the same backend that differ in ResFlushInterval
		// (-1 flush immediately = shipped default, 0 never, 3 ms periodic)
		cl := sys.OneBackendCluster("c", ports[0])
		cl.TimeoutResponseHeaderMs = 3000
		cf0 := sys.OneBackendCluster("cf0", ports[0])
		cf0.TimeoutResponseHeaderMs = 3000
		cf0.ResFlushIntervalMs = sys.ResFlushZero
		cf3 := sys.OneBackendCluster("cf3", ports[0])
		cf3.TimeoutResponseHeaderMs = 3000
		cf3.ResFlushIntervalMs = 3
		// and one with backend keep-alive (BFE's default of 2 idle connections per backend)
		cka := sys.OneBackendCluster("cka", ports[0])
		cka.TimeoutResponseHeaderMs = 3000
		cka.MaxIdleConnsPerHost = 2
		// and one whose only member refuses connections: BFE answers those requests itself
		cdead := sys.Cluster{Name: "cdead", RetryMax: 0, TimeoutConnSrvMs: 500, Sub: []sys.SubCluster{{Name: "cdead.sub", Weight: 100,
			Backends: []sys.BackendSpec{{Name: "dead", Addr: "127.0.0.1", Port: 1, Weight: 10}}}}}
		return sys.SimpleConf("v0", []sys.Cluster{cl, cf0, cf3, cka, cdead}, []sys.Rule{
			{Cond: `req_path_prefix_in("/c27dead/", false)`, Cluster: "cdead"},
			{Cond: `req_path_prefix_in("/c27ka/", false)`, Cluster: "cka"},
			{Cond: `req_path_prefix_in("/c27f0/", false)`, Cluster: "cf0"},
			{Cond: `req_path_prefix_in("/c27f3/", false)`, Cluster: "cf3"},
			{Cond: `default_t()`, Cluster: "c"},
		})
	})
	n := 0
	rapid.Check(t, func(rt *rapid.T) {
		n++
		if rapid.IntRange(0, 11).Draw(rt, "bfe-generated-response") == 0 {
			c27Generated(rt, rec, w, n)
			return
		}
		flush := rapid.SampledFrom([]string{"c27", "c27", "c27f0", "c27f3", "c27f3", "c27ka", "c27ka"}).Draw(rt, "flush-cluster")
		target := fmt.Sprintf("/%s/%d", flush, n)
		method := rapid.SampledFrom([]string{"GET", "GET", "HEAD", "POST"}).Draw(rt, "method")
		cver := rapid.SampledFrom([]string{"HTTP/1.1", "HTTP/1.1", "HTTP/1.0"}).Draw(rt, "cver")
		cconn := rapid.SampledFrom([]string{"", "keep-alive", "close"}).Draw(rt, "cconn")
		status := rapid.SampledFrom([]int{200, 200, 200, 201, 204, 206, 301, 304, 400, 404, 500, 503, 102, 199}).Draw(rt, "status")
		bver := rapid.SampledFrom([]string{"HTTP/1.1", "HTTP/1.1", "HTTP/1.0"}).Draw(rt, "bver")
		framing := rapid.SampledFrom([]string{"cl", "cl", "chunked", "close", "cl+close"}).Draw(rt, "framing")
		if bver == "HTTP/1.0" && framing == "chunked" {
			framing = "close"
		}
		bconn := rapid.SampledFrom([]string{"", "close", "keep-alive"}).Draw(rt, "bconn")
		noBody := method == "HEAD" || status/100 == 1 || status == 204 || status == 304
		body := c27Body(rt)
		slowClient := rapid.IntRange(0, 11).Draw(rt, "slow-client") == 0
		if slowClient && flush != "c27f3" && rapid.Bool().Draw(rt, "slow-on-periodic-flush") {
			// a slow client matters most where a periodic flusher runs beside the copy loop
			flush = "c27f3"
			target = fmt.Sprintf("/%s/%d", flush, n)
		}
		if slowClient {
			// large enough to fill the loopback socket buffers while the client is not reading
			big := rapid.SampledFrom([]int{300000, 1200000, 5000000}).Draw(rt, "bigbody")
			body = bytes.Repeat(append(body, 'z'), big/(len(body)+1)+1)[:big]
		}
		ne2e := rapid.IntRange(0, 3).Draw(rt, "ne2e")
		var e2e []ref.Field
		for i := 0; i < ne2e; i++ {
			e2e = append(e2e, ref.Field{Name: "X-E2e-" + rapid.StringMatching(`[a-c]`).Draw(rt, "e2en"), Value: rapid.StringMatching(`[a-zA-Z0-9,;= -]{0,10}`).Draw(rt, "e2ev")})
		}
		// backend raw response
		var raw bytes.Buffer
		fmt.Fprintf(&raw, "%s %d Reason\r\n", bver, status)
		for _, f := range e2e {
			fmt.Fprintf(&raw, "%s: %s\r\n", f.Name, strings.TrimSpace(f.Value))
		}
		if bconn != "" {
			fmt.Fprintf(&raw, "Connection: %s\r\n", bconn)
		}
		closeAfter := framing == "close" || framing == "cl+close" || bconn == "close" || bver == "HTTP/1.0"
		var wantBody []byte
		switch {
		case noBody:
			if framing == "cl" || framing == "cl+close" {
				if status == 204 || status/100 == 1 {
					// RFC 7230 3.3.2: no Content-Length in 1xx/204 responses
				} else {
					fmt.Fprintf(&raw, "Content-Length: %d\r\n", len(body))
				}
			}
			raw.WriteString("\r\n")
		case framing == "cl" || framing == "cl+close":
			fmt.Fprintf(&raw, "Content-Length: %d\r\n\r\n", len(body))
			raw.Write(body)
			wantBody = body
		case framing == "chunked":
			raw.WriteString("Transfer-Encoding: chunked\r\n\r\n")
			raw.Write(chunkedEncode(rt, body))
			wantBody = body
		default: // close-delimited
			raw.WriteString("\r\n")
			raw.Write(body)
			wantBody = body
		}
		// on a kept-alive backend connection the backend may (wrongly) send more than one
		// response: a stale second response or junk right behind the first one must never be
		// taken for the answer to a later request
		stale := ""
		if !closeAfter && flush == "c27ka" && rapid.IntRange(0, 2).Draw(rt, "stale-extra") == 0 {
			stale = rapid.SampledFrom([]string{"HTTP/1.1 200 OK\r\nContent-Length: 9\r\nX-Stale: 1\r\n\r\nSTALEBODY", "HTTP/1.1 200 OK\r\nContent-Len", "junk\r\n\r\n"}).Draw(rt, "stale")
			raw.WriteString(stale)
		}
		var bursts []int
		for i, nb := 0, rapid.IntRange(0, 4).Draw(rt, "nbursts"); i < nb; i++ {
			bursts = append(bursts, rapid.SampledFrom([]int{1, 40, 100, 300, 511, 600, 1500, 2000, 5000}).Draw(rt, "burst"))
		}
		// the end of a chunked body may arrive well after its last data (several flush intervals later)
		tailPause := 0
		if framing == "chunked" && !noBody && stale == "" && rapid.IntRange(0, 2).Draw(rt, "tail-pause") == 0 {
			tailPause = rapid.SampledFrom([]int{4, 10, 25}).Draw(rt, "tail-pause-ms")
		}
		w.setScript(target, &respScript{Raw: raw.Bytes(), CloseAfter: closeAfter, Bursts: bursts, TailPauseMs: tailPause})
		// client request
		var rq bytes.Buffer
		fmt.Fprintf(&rq, "%s %s %s\r\nHost: example.org\r\n", method, target, cver)
		if cconn != "" {
			fmt.Fprintf(&rq, "Connection: %s\r\n", cconn)
		}
		if method == "POST" {
			rq.WriteString("Content-Length: 3\r\n\r\nabc")
		} else {
			rq.WriteString("\r\n")
		}
		shape := fmt.Sprintf("%s %s conn=%q | %s %d %s bconn=%q len=%d e2e=%d", method, cver, cconn, bver, status, framing, bconn, len(body), ne2e)
		trivial := method == "GET" && cver == "HTTP/1.1" && status == 200 && framing == "cl" && bver == "HTTP/1.1" && bconn == "" && cconn == ""
		shape += fmt.Sprintf(" flush=%s bursts=%v slow=%v", flush, bursts, slowClient)
		cls := []string{"framing:" + framing, fmt.Sprintf("status:%dxx", status/100), "method:" + method, "client:" + cver, "flush:" + flush, fmt.Sprintf("bursts:%d", len(bursts))}
		if slowClient {
			cls = append(cls, "slow-client")
		}
		if stale != "" {
			cls = append(cls, "stale-bytes-after-backend-response")
		}
		if tailPause > 0 {
			cls = append(cls, "chunked-terminator-delayed")
		}
		if noBody {
			cls = append(cls, "bodiless")
		}
		rec.Case(shape+fmt.Sprintf("%v", e2e), !trivial, cls...)
		rec.Sample(map[string]any{"request": rq.String(), "backend_response_head": clipS(raw.Bytes())})
		wit := map[string]any{"request": rq.String(), "backend_response": clipS(raw.Bytes()), "shape": shape}

		if stale != "" {
			// the unsolicited bytes leave that backend connection off by one for whoever uses it
			// next: retire the backend's connections at the end of this case so that the
			// misbehaviour injected here cannot leak into later cases
			defer func() {
				for _, bc := range w.backends[0].Conns() {
					bc.Conn.Close()
				}
				w.backends[0].Reset()
				time.Sleep(5 * time.Millisecond)
			}()
		}
		c, err := w.rig.Dial()
		if err != nil {
			rt.Fatalf("rig: %v", err)
		}
		defer c.Close()
		c.Write(rq.Bytes())
		if slowClient {
			// a client that does not read for a while: with a large body BFE's writes
			// (and periodic flushes) block on it while the backend body ends
			time.Sleep(40 * time.Millisecond)
		}
		respBytes, m, closed, perr := readOneResponse(c, method, 15*time.Second)
		w.forget(target)
		wit["client_got"] = clipS(respBytes)
		if perr != nil {
			if perr == ref.ErrIncomplete || strings.Contains(perr.Error(), "timeout") {
				key := "undelimited-not-closed"
				if closed {
					key = "truncated-response"
				}
				rec.Fail(rt, key+":"+c27Key(status, framing, method, cver), wit, "client cannot delimit the response (closed=%v, %v): %q", closed, perr, clipS(respBytes))
				return
			}
			rec.Fail(rt, "malformed-response:"+c27Key(status, framing, method, cver), wit, "client-side bytes are not a well-formed response: %v", perr)
			return
		}
		if m.Status != status {
			// BFE answering 500 for a response it refuses is acceptable only if it is itself well-formed; count it
			rec.Class(fmt.Sprintf("status-replaced:%d->%d", status, m.Status))
			if m.Status/100 != 5 {
				if !rec.Fail(rt, "status-changed", wit, "backend status %d delivered as %d", status, m.Status) {
					return
				}
			}
			return
		}
		if m.Chunked && cver == "HTTP/1.0" {
			if !rec.Fail(rt, "chunked-to-http10", wit, "chunked framing sent to an HTTP/1.0 client") {
				return
			}
		}
		if m.Chunked && m.Proto == "HTTP/1.0" {
			// a message that labels itself HTTP/1.0 has no chunked coding: a recipient that goes by
			// the status line reads the raw chunk stream as a body without end
			if !rec.Fail(rt, "chunked-in-http10-message", wit, "response labelled %s uses Transfer-Encoding: chunked (client spoke %s)", m.Proto, cver) {
				return
			}
		}
		if !bytes.Equal(m.Body, wantBody) && !(len(m.Body) == 0 && len(wantBody) == 0) {
			if !rec.Fail(rt, "body-changed:"+c27Key(status, framing, method, cver), wit, "body differs: got %d bytes, want %d", len(m.Body), len(wantBody)) {
				return
			}
		}
		// end-to-end fields
		got := map[string][]string{}
		for _, f := range m.Fields {
			if strings.HasPrefix(strings.ToLower(f.Name), "x-e2e-") {
				got[strings.ToLower(f.Name)] = append(got[strings.ToLower(f.Name)], f.Value)
			}
		}
		want := map[string][]string{}
		for _, f := range e2e {
			want[strings.ToLower(f.Name)] = append(want[strings.ToLower(f.Name)], strings.TrimSpace(f.Value))
		}
		if !sameFieldMap(got, want) {
			if !rec.Fail(rt, "e2e-header-changed", wit, "end-to-end fields differ: got %v want %v", got, want) {
				return
			}
		}
		// after the response: nothing but (for an open connection) the answer to a sentinel request
		rest := respBytes[m.ConsumedLen:]
		if !closed {
			connTok := strings.ToLower(strings.Join(m.Get("Connection"), ","))
			if strings.Contains(connTok, "close") || (m.Proto == "HTTP/1.0" && !strings.Contains(connTok, "keep-alive")) {
				// BFE announced that it closes: collect whatever precedes the close
				more, cl := sys.ReadAllTimeout(c, 5*time.Second)
				rest = append(rest, more...)
				closed = true
				if !cl {
					rec.Class("announced-close-but-still-open")
				}
			}
		}
		if !closed {
			fmt.Fprintf(c, "GET %s/s HTTP/1.1\r\nHost: example.org\r\nConnection: close\r\n\r\n", target)
			more, _ := sys.ReadAllTimeout(c, 5*time.Second)
			rest = append(rest, more...)
			if len(rest) == 0 {
				// no byte at all within the time budget (overloaded machine, 5 MB bodies under the
				// race detector): says nothing about framing either way
				rec.Class("sentinel-no-answer-inconclusive")
				return
			}
			sm, serr := ref.ParseResponse(rest, "GET", true)
			if serr == nil && flush == "c27ka" && sm.Status/100 == 5 && len(rest) == sm.ConsumedLen {
				// the harness backend closed a connection BFE was entitled to keep (in this or an earlier
				// case: connections are retired after injected misbehaviour; or e.g. HTTP/1.0 +
				// Connection: keep-alive, then close): the sentinel ran into the stale pooled
				// connection (or into the stale bytes the backend left on it) and BFE answered 5xx -
				// well-formed and aligned, which is all that matters here
				rec.Class("sentinel-5xx-on-stale-backend-connection")
			} else if serr == nil && stale != "" && len(rest) == sm.ConsumedLen && len(sm.Get("X-Stale")) == 1 {
				// BFE matched the backend's unsolicited second response to the next request on that
				// connection (HTTP/1.1 associates responses by order; the backend misbehaved). That is
				// outside what C27 states - the relayed bytes are still exactly one well-formed
				// response - so it is only counted.
				rec.Class("observed:unsolicited-backend-response-answered-next-request")
			} else if serr != nil || sm.Status != 200 || !bytes.HasPrefix(sm.Body, []byte("ok b0")) || len(rest) != sm.ConsumedLen {
				wit["after_response"] = clipS(rest)
				rec.Fail(rt, "desync-after-response:"+c27Key(status, framing, method, cver), wit, "bytes after the response are not exactly the sentinel's response (err=%v): %q", serr, clipS(rest))
				return
			}
			w.forget(target + "/s")
		} else if len(rest) > 0 {
			wit["after_response"] = clipS(rest)
			rec.Fail(rt, "trailing-garbage:"+c27Key(status, framing, method, cver), wit, "%d bytes after the response before close: %q", len(rest), clipS(rest))
			return
		}
		if flush == "c27ka" {
			// a later request of another client (possibly on the same backend connection) gets its own answer
			ft := target + "/f"
			_, fm, _, ferr := w.exchangeOne([]byte(fmt.Sprintf("GET %s HTTP/1.1\r\nHost: example.org\r\nConnection: close\r\n\r\n", ft)), "GET", 8*time.Second)
			w.forget(ft)
			if ferr != nil || fm == nil {
				rec.Class("followup-no-response")
			} else if stale != "" {
				// after an unsolicited backend response the association on that backend connection
				// is off by one until it is closed: not judged (see above), only counted
				if len(fm.Get("X-Echo-Target")) != 1 || fm.Get("X-Echo-Target")[0] != ft {
					rec.Class("observed:unsolicited-backend-response-answered-next-request")
				}
			} else if fm.Status == 200 && (len(fm.Get("X-Echo-Target")) != 1 || fm.Get("X-Echo-Target")[0] != ft || !bytes.HasPrefix(fm.Body, []byte("ok b0"))) {
				wit["followup_got"] = fmt.Sprintf("%d %v %q", fm.Status, fm.Get("X-Echo-Target"), clipS(fm.Body))
				rec.Fail(rt, "followup-got-foreign-response", wit, "a later request %s on the keep-alive cluster was answered with somebody else's response: %q", ft, clipS(fm.Body))
				return
			} else if fm.Status != 200 {
				rec.Class(fmt.Sprintf("followup-status:%d", fm.Status))
			}
		}
	})
}

func c27Key(status int, framing, method, cver string) string {
	s := fmt.Sprintf("%dxx", status/100)
	if status == 204 || status == 304 {
		s = fmt.Sprint(status)
	}
	if method != "HEAD" {
		method = "nonHEAD"
	}
	return s + ":" + framing + ":" + method + ":" + cver
}

func sameFieldMap(a, b map[string][]string) bool {
	if len(a) != len(b) {
		return false
	}
	for k, va := range a {
		vb := append([]string(nil), b[k]...)
		x := append([]string(nil), va...)
		sort.Strings(x)
		sort.Strings(vb)
		if strings.Join(x, "\x00") != strings.Join(vb, "\x00") {
			// a proxy may combine repeated fields into one comma separated value
			if strings.Join(va, ", ") != strings.Join(b[k], ", ") {
				return false
			}
		}
	}
	return true
}

// c27Generated: the response is produced by BFE itself (no backend can be reached). The
// request may announce a body with Expect: 100-continue that nobody is going to read. The
// client must still see exactly one well-formed final response, then a close or - on a
// kept connection - nothing but the answer to the next request.
func c27Generated(rt *rapid.T, rec *ev.Rec, w *world, n int) {
	kind := rapid.SampledFrom([]string{"get", "post", "post-expect", "post-expect-chunked"}).Draw(rt, "generated-request")
	cver := rapid.SampledFrom([]string{"HTTP/1.1", "HTTP/1.1", "HTTP/1.0"}).Draw(rt, "cver")
	cconn := rapid.SampledFrom([]string{"", "keep-alive", "close"}).Draw(rt, "cconn")
	if cver == "HTTP/1.0" && strings.HasPrefix(kind, "post-expect") {
		kind = "post"
	}
	target := fmt.Sprintf("/c27dead/%d", n)
	var rq bytes.Buffer
	method := "GET"
	if kind != "get" {
		method = "POST"
	}
	fmt.Fprintf(&rq, "%s %s %s\r\nHost: example.org\r\n", method, target, cver)
	if cconn != "" {
		fmt.Fprintf(&rq, "Connection: %s\r\n", cconn)
	}
	switch kind {
	case "get":
		rq.WriteString("\r\n")
	case "post":
		rq.WriteString("Content-Length: 3\r\n\r\nabc")
	case "post-expect":
		rq.WriteString("Expect: 100-continue\r\nContent-Length: 3\r\n\r\n")
	default:
		rq.WriteString("Expect: 100-continue\r\nTransfer-Encoding: chunked\r\n\r\n")
	}
	shape := fmt.Sprintf("bfe-generated %s %s conn=%q", kind, cver, cconn)
	rec.Case(shape+fmt.Sprint(n%7), true, "bfe-generated-response", "generated:"+kind, "client:"+cver)
	rec.Sample(map[string]any{"request": rq.String(), "backend": "unreachable"})
	wit := map[string]any{"request": rq.String(), "shape": shape}
	c, err := w.rig.Dial()
	if err != nil {
		rt.Fatalf("rig: %v", err)
	}
	defer c.Close()
	c.Write(rq.Bytes())
	respBytes, m, closed, perr := readOneResponse(c, method, 10*time.Second)
	wit["client_got"] = clipS(respBytes)
	if perr == nil && m != nil && m.Status == 100 {
		// BFE asks for the body after all (it may, as long as a final response follows)
		if kind == "post-expect" {
			c.Write([]byte("abc"))
		} else {
			c.Write([]byte("3\r\nabc\r\n0\r\n\r\n"))
		}
		var more []byte
		more, m, closed, perr = readOneResponse(c, method, 10*time.Second)
		respBytes = more
		wit["client_got_after_100"] = clipS(more)
		rec.Class("generated:100-before-final")
	}
	if perr != nil || m == nil {
		rec.Fail(rt, "generated-response-malformed:"+kind, wit, "BFE's own response does not parse as one response (closed=%v): %v", closed, perr)
		return
	}
	if m.Status/100 != 5 {
		rec.Class(fmt.Sprintf("generated-status:%d", m.Status))
	}
	rest := respBytes[m.ConsumedLen:]
	if !closed {
		if strings.HasPrefix(kind, "post-expect") {
			// the announced body was never sent; a client that gives up waiting sends it now
			if kind == "post-expect" {
				c.Write([]byte("abc"))
			} else {
				c.Write([]byte("3\r\nabc\r\n0\r\n\r\n"))
			}
		}
		fmt.Fprintf(c, "GET /c27/%d/gs HTTP/1.1\r\nHost: example.org\r\nConnection: close\r\n\r\n", n)
		more, _ := sys.ReadAllTimeout(c, 6*time.Second)
		rest = append(rest, more...)
		w.forget(fmt.Sprintf("/c27/%d/gs", n))
		if len(rest) > 0 {
			sm, serr := ref.ParseResponse(rest, "GET", true)
			if serr != nil || len(rest) != sm.ConsumedLen || sm.Status == 100 {
				wit["after_response"] = clipS(rest)
				rec.Fail(rt, "generated-response-followed-by-garbage:"+kind, wit, "after BFE's own response the connection carries more than one answer to the next request (err=%v): %q", serr, clipS(rest))
			}
		}
		return
	}
	if len(rest) > 0 {
		wit["after_response"] = clipS(rest)
		rec.Fail(rt, "generated-response-followed-by-garbage:"+kind, wit, "%d bytes after BFE's own response before close: %q", len(rest), clipS(rest))
	}
}

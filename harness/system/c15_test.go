package system

import (
	"crypto/tls"
	"encoding/json"
	"fmt"
	"net"
	"net/url"
	"os"
	"path/filepath"
	"strings"
	"sync"
	"sync/atomic"
	"testing"
	"time"

	"pgregory.net/rapid"

	"verif/harness/internal/ev"
	"verif/harness/internal/ref"
	"verif/harness/internal/sys"
)

// C15: hot reload is atomic and race-free (binary built with -race).
//
// Two server-data versions A and B disagree on BOTH the host->product table and
// the product->cluster rules: A maps example.org to product pa whose only rule
// sends to cluster ca; B maps it to pb -> cb. A request handled under a mixed
// snapshot (product of one version, rule table of the other) finds no rule and is
// answered 500; under one snapshot it is always proxied to the backend of ca or cb.

func c15Conf(ver string, ports []int, gslbAlt bool) *sys.DataConf {
	mk := func(name string, i, j int) sys.Cluster {
		cl := sys.Cluster{Name: name, RetryMax: 1}
		sc := sys.SubCluster{Name: name + ".s", Weight: 100}
		for _, k := range []int{i, j} {
			sc.Backends = append(sc.Backends, sys.BackendSpec{Name: fmt.Sprintf("b%d", k), Addr: "127.0.0.1", Port: ports[k], Weight: 10})
		}
		if gslbAlt {
			sc.Backends = sc.Backends[:1]
		}
		cl.Sub = []sys.SubCluster{sc}
		return cl
	}
	d := &sys.DataConf{Version: ver, Clusters: []sys.Cluster{mk("ca", 0, 1), mk("cb", 2, 3)}}
	if strings.HasPrefix(ver, "A") {
		d.Hosts = map[string][]string{"ta": {"example.org"}}
		d.HostTags = map[string][]string{"pa": {"ta"}}
		d.Rules = map[string][]sys.Rule{"pa": {{Cond: "default_t()", Cluster: "ca"}}}
	} else {
		d.Hosts = map[string][]string{"tb": {"example.org"}}
		d.HostTags = map[string][]string{"pb": {"tb"}}
		d.Rules = map[string][]sys.Rule{"pb": {{Cond: "default_t()", Cluster: "cb"}}}
	}
	return d
}

func TestC15(t *testing.T) {
	rec := ev.New("C15", "stress plans (2..6 client goroutines on keep-alive and fresh HTTP/1 connections, some requests held inside backends, 0..2 TLS clients whose handshakes use the default TLS rule; 1..3 reloader goroutines issuing generated sequences of server-data, gslb, TLS (alternating between rule files that differ in every default-rule field) and module-data (trust table, GeoIP database) reloads and deliberately inconsistent gslb file sets that must be refused, through the real reload entry points) against an in-process BFE built with the race detector. Each request is one case; non-trivial = its lifetime overlapped at least one reload (measured by timestamps). Oracle: no race report, every request is answered 200 by a backend of the cluster one single server-data version selects (a mixed snapshot yields 500), held requests complete")
	var ports []int
	w := startWorld(t, 4, sys.Options{Modules: []string{"mod_trust_clientip", "mod_header", "mod_geo"},
		Files: map[string]string{"mod_geo/mod_geo.conf": "[basic]\nGeoDBPath = /repo/bfe_modules/mod_geo/test_data/mod_geo/geo.db\n"}}, func(p []int) *sys.DataConf {
		ports = p
		return c15Conf("A0", p, false)
	})
	// pre-write the configuration versions once (reloads then only read files)
	var verFiles []map[string]string
	for i, v := range []struct {
		ver string
		alt bool
	}{{"A1", false}, {"B1", false}, {"A2", true}, {"B2", true}} {
		fs, err := w.rig.WriteVersion(c15Conf(v.ver, ports, v.alt))
		if err != nil {
			t.Fatal(err)
		}
		_ = i
		verFiles = append(verFiles, fs)
	}
	// a file set the gslb reload must refuse: gslb.data names a cluster that cluster_table.data lacks
	badFiles, err := w.rig.WriteVersion(c15Conf("A3", ports, false))
	if err != nil {
		t.Fatal(err)
	}
	{
		raw, err := os.ReadFile(badFiles["gslb.data"])
		if err != nil {
			t.Fatal(err)
		}
		var g map[string]any
		if err := json.Unmarshal(raw, &g); err != nil {
			t.Fatal(err)
		}
		g["Clusters"].(map[string]any)["cghost"] = map[string]any{"cghost.s": 100}
		out, _ := json.Marshal(g)
		os.WriteFile(badFiles["gslb.data"], out, 0o644)
	}
	// two TLS rule files that differ in every default-rule field (used by handshakes that
	// match neither a VIP nor an SNI rule)
	var tlsDirs []string
	for i, def := range []map[string]any{
		{"DefaultNextProtos": []string{"h2", "http/1.1"}, "DefaultChacha20": true, "DefaultDynamicRecord": true},
		{"DefaultNextProtos": []string{"http/1.1"}, "DefaultChacha20": false, "DefaultDynamicRecord": false},
	} {
		dir := filepath.Join(w.rig.ConfRoot, fmt.Sprintf("tlsalt%d", i))
		os.MkdirAll(dir, 0o755)
		cert, err := os.ReadFile(filepath.Join(w.rig.ConfRoot, "tls_conf", "server_cert_conf.data"))
		if err != nil {
			t.Fatal(err)
		}
		os.WriteFile(filepath.Join(dir, "server_cert_conf.data"), cert, 0o644)
		raw, err := os.ReadFile(filepath.Join(w.rig.ConfRoot, "tls_conf", "tls_rule_conf.data"))
		if err != nil {
			t.Fatal(err)
		}
		var rule map[string]any
		if err := json.Unmarshal(raw, &rule); err != nil {
			t.Fatal(err)
		}
		for k, v := range def {
			rule[k] = v
		}
		rule["Version"] = fmt.Sprintf("alt%d", i)
		out, _ := json.Marshal(rule)
		os.WriteFile(filepath.Join(dir, "tls_rule_conf.data"), out, 0o644)
		tlsDirs = append(tlsDirs, dir)
	}
	var reqSeq int64
	round := 0
	rapid.Check(t, func(rt *rapid.T) {
		round++
		nClients := rapid.IntRange(2, 6).Draw(rt, "clients")
		nReloaders := rapid.IntRange(1, 3).Draw(rt, "reloaders")
		var plans [][]string
		for r := 0; r < nReloaders; r++ {
			plans = append(plans, rapid.SliceOfN(rapid.SampledFrom([]string{"server-data", "server-data", "gslb", "tls", "module", "server-data+gslb", "geo", "gslb-refused"}), 10, 40).Draw(rt, "plan"))
		}
		perClient := rapid.IntRange(20, 60).Draw(rt, "requests-per-client")
		holdEvery := rapid.IntRange(5, 20).Draw(rt, "hold-every")
		rec.Sample(map[string]any{"clients": nClients, "reloaders": nReloaders, "plans": plans, "requests_per_client": perClient})

		type span struct{ a, b time.Time }
		var relMu sync.Mutex
		var reloads []span
		var wg sync.WaitGroup
		stop := make(chan struct{})
		var relErr atomic.Value
		for r := 0; r < nReloaders; r++ {
			plan := plans[r]
			r := r
			wg.Add(1)
			go func() {
				defer wg.Done()
				for i := 0; ; i++ {
					select {
					case <-stop:
						return
					default:
					}
					kind := plan[i%len(plan)]
					fs := verFiles[(i+r)%len(verFiles)]
					t0 := time.Now()
					var err error
					switch kind {
					case "server-data":
						err = w.rig.ReloadServerData(fs)
					case "gslb":
						err = w.rig.ReloadGslb(fs)
					case "server-data+gslb":
						if err = w.rig.ReloadServerData(fs); err == nil {
							err = w.rig.ReloadGslb(fs)
						}
					case "tls":
						q := url.Values{}
						if i%3 != 2 {
							q.Set("path", tlsDirs[(i+r)%2])
						}
						err = w.rig.Srv.TLSConfReload(q)
					case "module":
						err = w.rig.ReloadModule("mod_trust_clientip", "")
					case "geo":
						// swaps the memory-mapped GeoIP database requests look their client address up in
						err = w.rig.ReloadModule("mod_geo", "")
					case "gslb-refused":
						// an inconsistent file set: the reload must fail and leave everything as it was
						if e := w.rig.ReloadGslb(badFiles); e == nil {
							err = fmt.Errorf("gslb reload accepted a gslb.data naming a cluster without backends")
						}
					}
					if err != nil {
						relErr.Store(fmt.Sprintf("%s reload failed: %v", kind, err))
					}
					relMu.Lock()
					reloads = append(reloads, span{t0, time.Now()})
					relMu.Unlock()
				}
			}()
		}
		type result struct {
			id     string
			a, b   time.Time
			status int
			echo   string
			back   string
			err    string
		}
		var resMu sync.Mutex
		var results []result
		var cwg sync.WaitGroup
		w.mu.Lock()
		w.holdCh = make(chan struct{})
		hold := w.holdCh
		w.mu.Unlock()
		for cidx := 0; cidx < nClients; cidx++ {
			cidx := cidx
			cwg.Add(1)
			go func() {
				defer cwg.Done()
				keep := cidx%2 == 0
				conn, err := w.rig.Dial()
				if err != nil {
					return
				}
				for i := 0; i < perClient; i++ {
					seq := atomic.AddInt64(&reqSeq, 1)
					target := fmt.Sprintf("/c15/%d", seq)
					held := int(seq)%holdEvery == 0
					if held {
						w.setScript(target, &respScript{Fault: "hold"})
					}
					if !keep && i > 0 {
						conn.Close()
						conn, err = w.rig.Dial()
						if err != nil {
							return
						}
					}
					t0 := time.Now()
					fmt.Fprintf(conn, "GET %s HTTP/1.1\r\nHost: example.org\r\n\r\n", target)
					_, m, closed, perr := readOneResponse(conn, "GET", 30*time.Second)
					r := result{id: target, a: t0, b: time.Now()}
					if perr != nil || m == nil {
						r.err = fmt.Sprintf("no parsable response: %v", perr)
					} else {
						r.status = m.Status
						r.echo = strings.Join(m.Get("X-Echo-Target"), ",")
						r.back = strings.Join(m.Get("X-Backend"), ",")
					}
					resMu.Lock()
					results = append(results, r)
					resMu.Unlock()
					if held {
						w.forget(target)
					}
					if closed || perr != nil || (m != nil && strings.Contains(strings.ToLower(strings.Join(m.Get("Connection"), ",")), "close")) {
						conn.Close()
						conn, err = w.rig.Dial()
						if err != nil {
							return
						}
					}
				}
				conn.Close()
			}()
		}
		// TLS clients whose handshake matches neither a VIP nor an SNI rule (default rule)
		nTLS := rapid.IntRange(0, 2).Draw(rt, "tls-clients")
		var tlsHandshakes, tlsFailed int64
		for k := 0; k < nTLS; k++ {
			cwg.Add(1)
			go func() {
				defer cwg.Done()
				for i := 0; i < perClient/2; i++ {
					d := &net.Dialer{Timeout: 5 * time.Second}
					c, err := tls.DialWithDialer(d, "tcp", w.rig.HTTPSAddr, &tls.Config{InsecureSkipVerify: true, ServerName: "nomatch.test", NextProtos: []string{"h2", "http/1.1"}})
					if err != nil {
						atomic.AddInt64(&tlsFailed, 1)
						continue
					}
					atomic.AddInt64(&tlsHandshakes, 1)
					if p := c.ConnectionState().NegotiatedProtocol; p != "h2" {
						fmt.Fprintf(c, "GET /c15tls/%d HTTP/1.1\r\nHost: example.org\r\nConnection: close\r\n\r\n", i)
						sys.ReadAllTimeout(c, 5*time.Second)
					}
					c.Close()
				}
			}()
		}
		// release held requests shortly after they reached a backend, while reloads continue
		relDone := make(chan struct{})
		go func() {
			defer close(relDone)
			tick := time.NewTicker(15 * time.Millisecond)
			defer tick.Stop()
			for {
				select {
				case <-stop:
					return
				case <-tick.C:
					w.mu.Lock()
					old := w.holdCh
					w.holdCh = make(chan struct{})
					w.mu.Unlock()
					close(old)
				}
			}
		}()
		_ = hold
		cwg.Wait()
		close(stop)
		wg.Wait()
		<-relDone
		w.mu.Lock()
		close(w.holdCh)
		w.holdCh = nil
		w.seen = map[string][]seenReq{}
		w.mu.Unlock()
		for _, b := range w.backends {
			b.Reset()
		}
		if e := relErr.Load(); e != nil {
			rt.Fatalf("rig: %v", e)
		}
		overlapped := 0
		for _, r := range results {
			ov := false
			for _, s := range reloads {
				if s.a.Before(r.b) && r.a.Before(s.b) {
					ov = true
					break
				}
			}
			if ov {
				overlapped++
			}
			rec.Case(r.id, ov, map[bool]string{true: "overlapped-reload", false: "no-overlap"}[ov])
			wit := map[string]any{"request": r.id, "overlapped_reload": ov, "status": r.status, "backend": r.back, "error": r.err}
			if r.err != "" {
				if !rec.Fail(rt, "request-lost-during-reload", wit, "request %s got no response: %s", r.id, r.err) {
					continue
				}
			}
			if r.status != 200 {
				if !rec.Fail(rt, "mixed-snapshot", wit, "request %s was answered %d: it was not routed under one single configuration version", r.id, r.status) {
					continue
				}
			}
			if r.echo != r.id {
				if !rec.Fail(rt, "wrong-response", wit, "request %s got the response of %q", r.id, r.echo) {
					continue
				}
			}
		}
		rec.Add("tls_default_rule_handshakes", tlsHandshakes)
		rec.Add("tls_handshakes_failed", tlsFailed)
		rec.Add("reloads", int64(len(reloads)))
		rec.Add("requests_overlapping_reload", int64(overlapped))
		_ = ref.ErrIncomplete
	})
}

package hpack

// C31: HPACK decoding conforms to RFC 7541.
//
// Every generated header block is decoded by
//   - ref:  the RFC 7541 reference decoder of ref_test.go (own logic),
//   - xnet: golang.org/x/net/http2/hpack (unrelated implementation),
//   - bfe delivered in one Write + Close,
//   - bfe delivered split at generated cut points + Close,
// all with the same settings (table size, allowed maximum, string limit) and
// the same history of earlier blocks (so the dynamic tables are populated).
//
// Demands on bfe (and nothing else):
//   - never panics;
//   - if ref and xnet both reject the block, bfe rejects it (Write or Close);
//   - if ref rejects it for one of the classes named by the property
//     (Huffman padding > 7 bits, padding that is not an EOS prefix, encoded EOS,
//     index 0 / beyond the tables, size update above the allowed maximum,
//     over-long integer) bfe rejects it, whatever xnet says;
//   - if bfe accepts, the emitted fields equal those of every oracle that accepts;
//   - split delivery is equivalent to whole delivery.
// bfe rejecting a block the oracles accept is allowed by the statement and only counted.

import (
	"encoding/hex"
	"encoding/json"
	"fmt"
	"os"
	"runtime/debug"
	"sort"
	"strconv"
	"strings"
	"testing"

	bhpack "github.com/bfenetworks/bfe/bfe_http2/hpack"
	xhpack "golang.org/x/net/http2/hpack"
	"pgregory.net/rapid"

	"verif/harness/internal/ev"
)

const c31Rule = "sessions of 1..6 header blocks against decoders with generated settings (table size 0..64k, allowed-max changes between blocks, string limit); blocks are built representation by representation (indexed / 3 literal kinds / size update; static+dynamic+boundary indexes; Huffman and raw strings incl. long-code octets; non-minimal integers), then either left clean, byte-mutated, or given one constructed RFC violation; every block is delivered whole and split; for a quarter of the blocks the consumer drives SetEmitEnabled the way readMetaFrame does (on before the block, off from the emit callback after the k-th field) or toggles it between Write fragments, and later blocks reference what was inserted meanwhile. One evaluation = one block. non-trivial: the block has >=1 Huffman string or >=1 indexed field (or is a constructed violation); distinct by settings+history length+block bytes+cuts"

// namedKinds are the reference error kinds the property statement lists explicitly.
var namedKinds = map[string]bool{
	kHuffPadLong: true, kHuffPadBits: true, kHuffEOS: true, kIndexZero: true, kIndexRange: true,
	kSizeTooLarge: true, kVarint: true,
}

type c31Step struct {
	Allowed int64     `json:"allowed"` // -1: unchanged
	Block   string    `json:"block_hex"`
	Cuts    []int     `json:"cuts"`
	Intent  string    `json:"intent,omitempty"`
	Emit    *emitSpec `json:"emit,omitempty"`
}

// emitSpec says how the consumer drives Decoder.SetEmitEnabled around one block. bfe's
// Framer.readMetaFrame enables emission before a block and disables it from inside the emit
// callback after the first invalid field; the rest of the block (further Write fragments
// included) is decoded with emission off "to stay in sync", the connection lives on.
type fragToggle struct {
	At int  `json:"at"` // offset of a fragment boundary (1..len-1); SetEmitEnabled(On) is called before the fragment starting there
	On bool `json:"on"`
}

type emitSpec struct {
	Start    int          `json:"start"`     // before the block: -1 leave as is, 0 SetEmitEnabled(false), 1 SetEmitEnabled(true)
	OffAfter int          `json:"off_after"` // k >= 1: the emit callback calls SetEmitEnabled(false) after the k-th emitted field; 0: never
	Frag     []fragToggle `json:"between_fragments,omitempty"`
}

type c31Witness struct {
	Tab    uint32    `json:"table_size"`
	MaxStr int       `json:"max_string_len"`
	Steps  []c31Step `json:"steps"`
	Note   string    `json:"note,omitempty"`
}

type c31Session struct {
	w      c31Witness
	ref    *refDec
	x      *xhpack.Decoder
	xOut   []hf
	bw, bs *bhpack.Decoder
	bwOut  []hf
	bsOut  []hf
	stepNo int

	emitOn       bool      // modelled EmitEnabled state (same for all decoders)
	nextEmit     *emitSpec // consumed by the next feed
	offAfter     int
	xN, bwN, bsN int // fields emitted in the current block, per decoder
}

func newC31Session(tab uint32, maxStr int) *c31Session {
	s := &c31Session{w: c31Witness{Tab: tab, MaxStr: maxStr}, emitOn: true}
	s.ref = newRefDec(tab)
	s.ref.maxStr = maxStr
	s.x = xhpack.NewDecoder(tab, func(f xhpack.HeaderField) {
		s.xOut = append(s.xOut, hf{f.Name, f.Value, f.Sensitive})
		if s.xN++; s.xN == s.offAfter {
			s.x.SetEmitEnabled(false)
		}
	})
	s.bw = bhpack.NewDecoder(tab, func(f bhpack.HeaderField) error {
		s.bwOut = append(s.bwOut, hf{f.Name, f.Value, f.Sensitive})
		if s.bwN++; s.bwN == s.offAfter {
			s.bw.SetEmitEnabled(false)
		}
		return nil
	})
	s.bs = bhpack.NewDecoder(tab, func(f bhpack.HeaderField) error {
		s.bsOut = append(s.bsOut, hf{f.Name, f.Value, f.Sensitive})
		if s.bsN++; s.bsN == s.offAfter {
			s.bs.SetEmitEnabled(false)
		}
		return nil
	})
	if maxStr != 0 {
		s.x.SetMaxStringLength(maxStr)
		s.bw.SetMaxStringLength(maxStr)
		s.bs.SetMaxStringLength(maxStr)
	}
	return s
}

func (s *c31Session) setAllowed(v uint32) {
	s.ref.allowed = v
	s.x.SetAllowedMaxDynamicTableSize(v)
	s.bw.SetAllowedMaxDynamicTableSize(v)
	s.bs.SetAllowedMaxDynamicTableSize(v)
}

func splitAt(b []byte, cuts []int) [][]byte {
	c := append([]int(nil), cuts...)
	sort.Ints(c)
	var out [][]byte
	prev := 0
	for _, x := range c {
		if x < prev {
			x = prev
		}
		if x > len(b) {
			x = len(b)
		}
		out = append(out, b[prev:x])
		prev = x
	}
	return append(out, b[prev:])
}

type blockInfo struct {
	intent  string // "", "mutated", or violation intent
	huff    bool
	indexed bool
}

// feed delivers one block to all decoders and applies the oracle. It returns
// true when the session can go on (everybody accepted the block).
func (s *c31Session) feed(tb ev.TB, rec *ev.Rec, allowed int64, block []byte, cuts []int, info blockInfo) bool {
	if allowed >= 0 {
		s.setAllowed(uint32(allowed))
	}
	// emission control for this block (normalised: toggles at distinct fragment boundaries inside the block)
	spec := emitSpec{Start: -1}
	if s.nextEmit != nil {
		spec = *s.nextEmit
		s.nextEmit = nil
	}
	togg := map[int]bool{}
	var toggAt []int
	for _, t := range spec.Frag {
		if _, dup := togg[t.At]; t.At >= 1 && t.At < len(block) && !dup {
			togg[t.At] = t.On
			toggAt = append(toggAt, t.At)
		}
	}
	sort.Ints(toggAt)
	spec.Frag = nil
	for _, at := range toggAt {
		spec.Frag = append(spec.Frag, fragToggle{at, togg[at]})
	}
	step := c31Step{Allowed: allowed, Block: hex.EncodeToString(block), Cuts: cuts, Intent: info.intent}
	emitStart := s.emitOn
	if spec.Start >= 0 {
		emitStart = spec.Start == 1
	}
	emitTouched := spec.Start >= 0 || spec.OffAfter > 0 || len(toggAt) > 0
	everOff := !emitStart || spec.OffAfter > 0 || len(toggAt) > 0 // emission may be off at some point of the block
	if emitTouched {
		sp := spec
		step.Emit = &sp
	}
	s.w.Steps = append(s.w.Steps, step)
	s.stepNo++
	s.offAfter, s.xN, s.bwN, s.bsN = spec.OffAfter, 0, 0, 0

	refAll, refEnds, refE := s.ref.decodeBlockEx(block)
	refKind := ""
	if refE != nil {
		refKind = refE.Kind
	}
	// fields the consumer gets to see: a representation is parsed by the Write that completes it,
	// i.e. after every toggle placed before its last octet
	var refOut []hf
	emitEnd := emitStart
	{
		ti, n := 0, 0
		for i, f := range refAll {
			for ti < len(toggAt) && toggAt[ti] < refEnds[i] {
				emitEnd = togg[toggAt[ti]]
				ti++
			}
			if emitEnd {
				refOut = append(refOut, f)
				if n++; n == spec.OffAfter {
					emitEnd = false
				}
			}
		}
		for ; ti < len(toggAt); ti++ {
			emitEnd = togg[toggAt[ti]]
		}
	}

	// deliver: fragments at the given cuts plus the toggle offsets; SetEmitEnabled before the fragment at a toggle offset
	deliver := func(write func([]byte) error, closeFn func() error, setEmit func(bool), cuts []int) error {
		if spec.Start >= 0 {
			setEmit(spec.Start == 1)
		}
		off := 0
		done := map[int]bool{}
		for _, ch := range splitAt(block, append(append([]int(nil), cuts...), toggAt...)) {
			if on, ok := togg[off]; ok && !done[off] {
				done[off] = true
				setEmit(on)
			}
			in := append([]byte(nil), ch...) // Write must not rely on the caller keeping the slice
			if err := write(in); err != nil {
				return err
			}
			for i := range in {
				in[i] = 0xAA
			}
			off += len(ch)
		}
		return closeFn()
	}

	s.xOut = nil
	var xErr error
	xPanic := ev.Try(func() {
		xErr = deliver(func(b []byte) error { _, e := s.x.Write(b); return e }, s.x.Close, s.x.SetEmitEnabled, nil)
	})
	xOK := xErr == nil && xPanic == nil

	s.bwOut = nil
	var wErr error
	wPanic, wSite := tryStack(func() {
		wErr = deliver(func(b []byte) error { _, e := s.bw.Write(b); return e }, s.bw.Close, s.bw.SetEmitEnabled, nil)
	})
	s.bsOut = nil
	var sErr error
	sPanic, sSite := tryStack(func() {
		sErr = deliver(func(b []byte) error { _, e := s.bs.Write(b); return e }, s.bs.Close, s.bs.SetEmitEnabled, cuts)
	})

	intent := info.intent
	if intent == "" {
		intent = "clean"
	}
	classes := []string{"gen:" + intent, "ref:" + orOK(refKind), "xnet:" + okErr(xOK), "bfe:" + okErr(wErr == nil && wPanic == nil)}
	if len(cuts) > 0 {
		classes = append(classes, "split-delivery")
	}
	if info.huff {
		classes = append(classes, "has-huffman")
	}
	if info.indexed {
		classes = append(classes, "has-indexed")
	}
	if s.stepNo > 1 {
		classes = append(classes, "after-history")
	}
	if emitTouched {
		classes = append(classes, "emit-control")
		if spec.OffAfter > 0 && len(refOut) >= spec.OffAfter && len(refAll) > len(refOut) {
			classes = append(classes, "emit-disabled-mid-block-by-callback")
		}
		if len(toggAt) > 0 {
			classes = append(classes, "emit-toggled-between-fragments")
		}
	}
	if refE == nil && len(refAll) > len(refOut) {
		classes = append(classes, "fields-dropped-while-emit-off")
	}
	if len(s.ref.dyn) > 0 {
		classes = append(classes, "dyn-table-nonempty")
	}
	nt := info.huff || info.indexed || (info.intent != "" && info.intent != "mutated")
	rec.Case(fmt.Sprintf("%d/%d/%d/%d/%x/%v/%v", s.w.Tab, s.w.MaxStr, s.stepNo, allowed, block, cuts, step.Emit), nt, classes...)

	if wPanic != nil || sPanic != nil {
		site := wSite
		if wPanic == nil {
			site = sSite
		}
		s.w.Note = fmt.Sprintf("panic whole=%v split=%v", wPanic, sPanic)
		rec.Fail(tb, "panic-"+site, s.w, "bfe hpack decoder panicked at %s (whole=%v, split=%v) on block %x (reference verdict: %s)", site, wPanic, sPanic, block, orOK(refKind))
		return false
	}
	if xPanic != nil {
		rec.Class("xnet-panic")
	}

	if refE != nil && everOff && !refE.Inc && (refKind == kHuffPadLong || refKind == kHuffPadBits || refKind == kHuffEOS || refKind == kStrLen) {
		// documented (readString): with emission disabled the strings of literals that are not
		// added to the table are not decompressed, so their Huffman / length errors go unnoticed.
		rec.Class("unasserted:string-error-in-dropped-literal:" + refKind)
		return false
	}
	mustErr := false
	switch {
	case refE != nil && !xOK:
		mustErr = true
	case refE != nil && xOK:
		if namedKinds[refKind] {
			mustErr = true
			rec.Class("named-class-xnet-accepts:" + refKind)
		} else {
			rec.Class("unasserted:ref-only-rejects:" + refKind)
		}
	case refE == nil && !xOK:
		rec.Class("unasserted:xnet-only-rejects")
	}
	if mustErr {
		if wErr == nil {
			rec.Fail(tb, "accepts-"+refKind, s.w, "bfe accepted (whole delivery) block %x that RFC 7541 rejects: %v (xnet ok=%v); emitted %v", block, refE, xOK, s.bwOut)
			return false
		}
		if sErr == nil {
			rec.Fail(tb, "accepts-"+refKind, s.w, "bfe accepted (split delivery %v) block %x that RFC 7541 rejects: %v (xnet ok=%v); emitted %v", cuts, block, refE, xOK, s.bsOut)
			return false
		}
	}
	if refE == nil && xOK && !hfListEq(refOut, s.xOut) {
		// the two oracles disagree on an accepted block: no verdict possible
		rec.Class("unasserted:oracles-differ-on-fields")
		return false
	}
	check := func(name string, err error, out []hf) bool {
		if err != nil {
			return true
		}
		if refE == nil && !hfListEq(out, refOut) {
			rec.Fail(tb, "wrong-fields", s.w, "bfe (%s) emitted %v, RFC 7541 reference emits %v for block %x", name, out, refOut, block)
			return false
		}
		if xOK && !hfListEq(out, s.xOut) {
			rec.Fail(tb, "wrong-fields", s.w, "bfe (%s) emitted %v, x/net emits %v for block %x", name, out, s.xOut, block)
			return false
		}
		return true
	}
	if !check("whole", wErr, s.bwOut) || !check("split", sErr, s.bsOut) {
		return false
	}
	if (wErr == nil) != (sErr == nil) {
		if s.w.MaxStr == 0 {
			rec.Fail(tb, "split-vs-whole", s.w, "whole delivery err=%v but split delivery %v err=%v for block %x", wErr, cuts, sErr, block)
			return false
		}
		rec.Class("unasserted:split-vs-whole-with-string-limit")
		return false
	}
	if wErr == nil && !hfListEq(s.bwOut, s.bsOut) {
		rec.Fail(tb, "split-vs-whole", s.w, "whole delivery emitted %v, split delivery %v emitted %v", s.bwOut, cuts, s.bsOut)
		return false
	}
	if refE == nil && xOK && wErr != nil {
		rec.Class("bfe-stricter-than-oracles")
	}
	if refE == nil && wErr == nil && sErr == nil {
		// RFC 7541 4.x: the decoder's table after the block (whatever was emitted or dropped)
		for _, d := range []struct {
			name string
			dec  *bhpack.Decoder
		}{{"whole", s.bw}, {"split", s.bs}} {
			ents, size, max, _ := d.dec.VerifDynTab()
			same := len(ents) == len(s.ref.dyn) && size == s.ref.size && max == s.ref.max
			for i := 0; same && i < len(ents); i++ {
				r := s.ref.dyn[len(ents)-1-i]
				same = ents[i].Name == r.Name && ents[i].Value == r.Value
			}
			if !same {
				key := "table-diverges"
				if everOff {
					key = "table-diverges-emit-off"
				}
				rec.Fail(tb, key, s.w, "after block %x (%s delivery, emit control %+v) the decoder's dynamic table is %v (size %d, max %d); RFC 7541 gives %v (newest first; size %d, max %d)", block, d.name, step.Emit, ents, size, max, s.ref.dyn, s.ref.size, s.ref.max)
				return false
			}
		}
	}
	s.emitOn = emitEnd
	return refE == nil && xOK && wErr == nil && sErr == nil
}

// tryStack runs f; on panic it returns the panic value and a short site name
// (innermost function of the in-tree hpack/http2 packages on the stack + kind of runtime error).
func tryStack(f func()) (p any, site string) {
	defer func() {
		if p = recover(); p != nil {
			site = "unknown"
			for _, l := range strings.Split(string(debug.Stack()), "\n") {
				if i := strings.Index(l, "bfe/bfe_http2"); i >= 0 && !strings.HasPrefix(l, "\t") {
					fn := l[i:]
					if j := strings.LastIndex(fn, "("); j > 0 {
						fn = fn[:j]
					}
					if j := strings.LastIndex(fn, "."); j >= 0 {
						fn = fn[j+1:]
					}
					site = fn
					break
				}
			}
			msg := fmt.Sprint(p)
			switch {
			case strings.Contains(msg, "nil pointer"):
				site += "-nil-deref"
			case strings.Contains(msg, "index out of range"):
				site += "-index-range"
			case strings.Contains(msg, "slice bounds"):
				site += "-slice-bounds"
			default:
				site += "-other"
			}
		}
	}()
	f()
	return nil, ""
}

func orOK(s string) string {
	if s == "" {
		return "ok"
	}
	return s
}

func okErr(ok bool) string {
	if ok {
		return "ok"
	}
	return "err"
}

// ---------------- generators ----------------

var c31Names = []string{":method", ":path", ":authority", "cookie", "x-a", "x-bb", "accept-encoding", "content-length", "", "X-Upper", "x\x00y", "set-cookie", "www-authenticate", "a", "\xff"}
var c31Values = []string{"", "a", "GET", "/", "gzip, deflate", "0", "1234567890", "\xff\xfe", "v1", "v2", "https", "/index.html", "\x00", "!!!!", "Mon, 21 Oct 2013 20:13:21 GMT", "\x16\x0a\x0d"}

func genStr(rt *rapid.T, dict []string, label string) string {
	switch rapid.IntRange(0, 9).Draw(rt, label+"-kind") {
	case 0, 1, 2, 3, 4:
		return rapid.SampledFrom(dict).Draw(rt, label)
	case 5, 6, 7:
		return string(rapid.SliceOfN(rapid.Byte(), 0, 24).Draw(rt, label+"-bytes"))
	case 8:
		// printable, compressible
		n := rapid.IntRange(0, 60).Draw(rt, label+"-n")
		return strings.Repeat(rapid.SampledFrom([]string{"a", "e0", "xyz", "-"}).Draw(rt, label+"-unit"), n)
	default:
		n := rapid.IntRange(100, 400).Draw(rt, label+"-long")
		b := make([]byte, n)
		seed := rapid.Byte().Draw(rt, label+"-seed")
		for i := range b {
			b[i] = 'a' + (seed+byte(i*7))%26
		}
		return string(b)
	}
}

func genIndex(rt *rapid.T, n int, label string) uint64 {
	k := rapid.IntRange(0, 99).Draw(rt, label+"-class")
	switch {
	case k < 40:
		return uint64(rapid.IntRange(1, 61).Draw(rt, label))
	case k < 80 && n > 0:
		return uint64(61 + rapid.IntRange(1, n).Draw(rt, label))
	case k < 88:
		return uint64(61 + n) // last valid index
	case k < 94:
		return uint64(61 + n + 1) // first invalid index
	case k < 97:
		return 0
	default:
		return rapid.Uint64Range(62, 1<<40).Draw(rt, label)
	}
}

func intPad(rt *rapid.T, label string) int {
	if rapid.IntRange(0, 9).Draw(rt, label+"-padq") == 0 {
		return rapid.IntRange(1, 6).Draw(rt, label+"-pad")
	}
	return 0
}

// genRepr appends one well-formed representation (its index may still be out of range).
func genRepr(rt *rapid.T, dst []byte, n int, info *blockInfo) []byte {
	k := rapid.IntRange(0, 99).Draw(rt, "repr")
	switch {
	case k < 35:
		info.indexed = true
		return refAppendInt(dst, 0x80, 7, genIndex(rt, n, "idx"), intPad(rt, "idx"))
	default:
		var first byte
		var prefix uint = 4
		switch {
		case k < 70:
			first, prefix = 0x40, 6
		case k < 85:
			first = 0x00
		default:
			first = 0x10
		}
		if rapid.Bool().Draw(rt, "name-indexed") {
			idx := genIndex(rt, n, "nidx")
			if idx == 0 {
				idx = 1
			}
			dst = refAppendInt(dst, first, prefix, idx, intPad(rt, "nidx"))
		} else {
			dst = append(dst, first)
			h := rapid.Bool().Draw(rt, "name-huff")
			info.huff = info.huff || h
			dst = refAppendString(dst, genStr(rt, c31Names, "name"), h, intPad(rt, "nlen"))
		}
		h := rapid.Bool().Draw(rt, "value-huff")
		info.huff = info.huff || h
		return refAppendString(dst, genStr(rt, c31Values, "value"), h, intPad(rt, "vlen"))
	}
}

// literalWithRawString builds a literal representation whose name or value is
// the given raw (already encoded, possibly invalid) string octets.
func literalWithRawString(kind int, inName bool, raw []byte, huff bool) []byte {
	first := []byte{0x40, 0x00, 0x10}[kind%3]
	h := byte(0)
	if huff {
		h = 0x80
	}
	var dst []byte
	if inName {
		dst = append(dst, first)
		dst = refAppendInt(dst, h, 7, uint64(len(raw)), 0)
		dst = append(dst, raw...)
		return refAppendString(dst, "v", false, 0)
	}
	dst = append(dst, first|1) // name = static index 1 (:authority)
	dst = refAppendInt(dst, h, 7, uint64(len(raw)), 0)
	return append(dst, raw...)
}

func overlongInt(first byte, prefix uint, cont int, fill byte, last byte) []byte {
	dst := []byte{first | byte(1<<prefix-1)}
	for i := 0; i < cont-1; i++ {
		dst = append(dst, 0x80|fill)
	}
	return append(dst, last&0x7f)
}

var violationKinds = []string{"huff-pad-long", "huff-pad-bits", "huff-eos", "index-zero", "index-range", "size-too-large", "size-pos", "varint-overlong"}

// genViolation returns the octets of one representation built to violate RFC 7541 in the way `kind` says.
func genViolation(rt *rapid.T, kind string, st *refDec, info *blockInfo) []byte {
	lk := rapid.IntRange(0, 2).Draw(rt, "lit-kind")
	inName := rapid.Bool().Draw(rt, "in-name")
	sym := func(label string, max int) string {
		return string(rapid.SliceOfN(rapid.Byte(), 0, max).Draw(rt, label))
	}
	switch kind {
	case "huff-pad-long":
		info.huff = true
		var bb bitBuf
		bb.putStr(sym("syms", 6))
		bb.padOnes()
		extra := rapid.IntRange(1, 3).Draw(rt, "extra-ff")
		for i := 0; i < extra; i++ {
			bb.put(0xff, 8)
		}
		return literalWithRawString(lk, inName, bb.b, true)
	case "huff-pad-bits":
		info.huff = true
		var bb bitBuf
		bb.putStr(sym("syms", 6))
		for bb.n%8 == 0 {
			bb.put(uint64(huffCode['a']), int(huffLen['a']))
		}
		p := 8 - bb.n%8
		pat := rapid.IntRange(0, 1<<uint(p)-2).Draw(rt, "pad-pattern")
		bb.put(uint64(pat), p)
		return literalWithRawString(lk, inName, bb.b, true)
	case "huff-eos":
		info.huff = true
		var bb bitBuf
		bb.putStr(sym("before", 5))
		bb.put(eosCode, eosLen)
		bb.putStr(sym("after", 3))
		bb.padOnes()
		return literalWithRawString(lk, inName, bb.b, true)
	case "index-zero":
		info.indexed = true
		return []byte{0x80}
	case "index-range":
		info.indexed = true
		idx := uint64(61 + len(st.dyn) + 1 + rapid.SampledFrom([]int{0, 0, 0, 1, 5, 1000, 1 << 20}).Draw(rt, "beyond"))
		switch rapid.IntRange(0, 3).Draw(rt, "where") {
		case 0:
			return refAppendInt(nil, 0x80, 7, idx, 0)
		case 1:
			return refAppendString(refAppendInt(nil, 0x40, 6, idx, 0), "v", false, 0)
		case 2:
			return refAppendString(refAppendInt(nil, 0x00, 4, idx, 0), "v", false, 0)
		default:
			return refAppendString(refAppendInt(nil, 0x10, 4, idx, 0), "v", true, 0)
		}
	case "size-too-large":
		over := uint64(st.allowed) + 1 + uint64(rapid.SampledFrom([]int{0, 0, 1, 100, 1 << 20}).Draw(rt, "over"))
		return refAppendInt(nil, 0x20, 5, over, 0)
	case "size-pos":
		v := uint64(0)
		if st.allowed > 0 {
			v = uint64(rapid.Uint32Range(0, st.allowed).Draw(rt, "size"))
		}
		return refAppendInt(nil, 0x20, 5, v, 0)
	case "varint-overlong":
		cont := rapid.IntRange(10, 14).Draw(rt, "cont")
		fill := byte(rapid.SampledFrom([]int{0, 0, 1, 0x7f}).Draw(rt, "fill"))
		last := byte(rapid.SampledFrom([]int{0, 1, 0x7f}).Draw(rt, "last"))
		switch rapid.IntRange(0, 4).Draw(rt, "where") {
		case 0:
			info.indexed = true
			return overlongInt(0x80, 7, cont, fill, last)
		case 1:
			return refAppendString(overlongInt(0x40, 6, cont, fill, last), "v", false, 0)
		case 2:
			return refAppendString(overlongInt(0x00, 4, cont, fill, last), "v", false, 0)
		case 3:
			return overlongInt(0x20, 5, cont, fill, last)
		default:
			// string length
			return append(append([]byte{0x41}, overlongInt(0x00, 7, cont, fill, last)...), 'x')
		}
	}
	panic("unknown violation kind " + kind)
}

func mutateBytes(rt *rapid.T, b []byte) []byte {
	b = append([]byte(nil), b...)
	n := rapid.IntRange(1, 3).Draw(rt, "nmut")
	for i := 0; i < n; i++ {
		if len(b) == 0 {
			b = append(b, rapid.Byte().Draw(rt, "ins0"))
			continue
		}
		pos := rapid.IntRange(0, len(b)-1).Draw(rt, "mpos")
		switch rapid.IntRange(0, 6).Draw(rt, "mkind") {
		case 0:
			b[pos] ^= 1 << uint(rapid.IntRange(0, 7).Draw(rt, "bit"))
		case 1:
			b[pos] = rapid.Byte().Draw(rt, "byte")
		case 2:
			b = append(b[:pos], b[pos+1:]...)
		case 3:
			b = append(b[:pos], append([]byte{rapid.Byte().Draw(rt, "ins")}, b[pos:]...)...)
		case 4:
			b = b[:pos]
		case 5:
			b[pos] = rapid.SampledFrom([]byte{0xff, 0x7f, 0x80, 0x00, 0x3f, 0x1f, 0x0f}).Draw(rt, "special")
		default:
			b = append(b, b[pos:]...)
		}
	}
	return b
}

// genBlock generates one header block against the current reference state.
func genBlock(rt *rapid.T, st *refDec, wantViolation bool) ([]byte, blockInfo) {
	var info blockInfo
	var blk []byte
	track := st.clone()
	trackOK := true
	appendRepr := func(r []byte) {
		blk = append(blk, r...)
		if trackOK {
			if _, e := track.decodeBlock(r); e != nil {
				trackOK = false
			}
		}
	}
	// leading size updates
	nsu := rapid.SampledFrom([]int{0, 0, 0, 0, 1, 1, 2}).Draw(rt, "n-size-updates")
	for i := 0; i < nsu; i++ {
		v := uint32(0)
		if st.allowed > 0 {
			v = rapid.SampledFrom([]uint32{0, st.allowed, st.allowed / 2, 40, 100}).Draw(rt, "su")
			if v > st.allowed {
				v = st.allowed
			}
		}
		appendRepr(refAppendInt(nil, 0x20, 5, uint64(v), intPad(rt, "su")))
	}
	var nrep int
	if rapid.IntRange(0, 14).Draw(rt, "filler") == 0 {
		// filler block: many small incremental literals, so that indexes >= 127 exist
		nrep = rapid.IntRange(60, 130).Draw(rt, "nfill")
		for i := 0; i < nrep; i++ {
			appendRepr([]byte{0x40, 0x01, 'a' + byte(i%26), 0x01, '0' + byte(i%10)})
		}
	}
	nrep = rapid.IntRange(0, 10).Draw(rt, "nrepr")
	vpos := -1
	kind := ""
	if wantViolation {
		kind = rapid.SampledFrom(violationKinds).Draw(rt, "violation")
		vpos = rapid.IntRange(0, nrep).Draw(rt, "vpos")
		if kind == "size-too-large" {
			vpos = 0 // must be in a legal position to be this class
		}
		if kind == "size-pos" && vpos == 0 {
			vpos = 1
			if nrep == 0 {
				nrep = 1
			}
		}
		info.intent = kind
	}
	for i := 0; i <= nrep; i++ {
		if i == vpos {
			appendRepr(genViolation(rt, kind, track, &info))
		}
		if i < nrep {
			appendRepr(genRepr(rt, nil, len(track.dyn), &info))
		}
	}
	if !wantViolation && rapid.IntRange(0, 9).Draw(rt, "mutate") < 4 {
		info.intent = "mutated"
		blk = mutateBytes(rt, blk)
	}
	return blk, info
}

func genCuts(rt *rapid.T, n int) []int {
	if n == 0 {
		return nil
	}
	switch rapid.IntRange(0, 5).Draw(rt, "cut-mode") {
	case 0:
		return nil
	case 1: // every byte separately
		if n > 80 {
			n = 80
		}
		c := make([]int, 0, n)
		for i := 1; i < n; i++ {
			c = append(c, i)
		}
		return c
	default:
		return rapid.SliceOfN(rapid.IntRange(0, n), 1, 5).Draw(rt, "cuts")
	}
}

var c31Tabs = []uint32{0, 33, 64, 100, 200, 4096, 4096, 4096, 65536}

func c31Replay(t *testing.T, rec *ev.Rec, path string) {
	b, err := os.ReadFile(path)
	if err != nil {
		t.Fatalf("replay: %v", err)
	}
	var f struct {
		Witness c31Witness `json:"witness"`
	}
	if err := json.Unmarshal(b, &f); err != nil {
		t.Fatalf("replay: %v", err)
	}
	s := newC31Session(f.Witness.Tab, f.Witness.MaxStr)
	for _, st := range f.Witness.Steps {
		blk, _ := hex.DecodeString(st.Block)
		s.nextEmit = st.Emit
		if !s.feed(t, rec, st.Allowed, blk, st.Cuts, blockInfo{intent: st.Intent}) {
			break
		}
	}
}

// c31Sweep enumerates the constructed violation classes deterministically.
// c31EmitSweep: what Framer.readMetaFrame does after an invalid field - emission switched off from
// the emit callback, the rest of the block decoded "to stay in sync" - then later blocks using the
// entries inserted meanwhile; and index / size-update errors while emission is off.
func c31EmitSweep(t *testing.T, rec *ev.Rec) {
	lit := func(first byte, name, value string, huff bool) []byte {
		return refAppendString(refAppendString([]byte{first}, name, huff, 0), value, huff, 0)
	}
	for _, huff := range []bool{false, true} {
		for _, cuts := range [][]int{nil, {1, 2, 3, 5, 8, 13, 21, 30}} {
			for off := 1; off <= 3; off++ {
				s := newC31Session(4096, 0)
				b1 := append(lit(0x40, "Bad-Name", "x", huff), lit(0x40, "x-new", "value-1", huff)...)
				b1 = append(b1, refAppendString([]byte{0x40 | 32}, "a=b", huff, 0)...) // cookie (static name 32), indexed
				b1 = append(b1, lit(0x00, "x-plain", "p", huff)...)
				s.nextEmit = &emitSpec{Start: 1, OffAfter: off}
				if !s.feed(t, rec, -1, b1, cuts, blockInfo{intent: "sweep:emit-off", huff: huff}) {
					continue
				}
				// next block: full index of and name reference to the entries inserted while emission was off
				b2 := []byte{0x80 | 62, 0x80 | 63, 0x80 | 64}
				b2 = append(b2, refAppendString([]byte{0x00 | 15, 63 - 15}, "other", huff, 0)...)
				s.nextEmit = &emitSpec{Start: 1}
				if !s.feed(t, rec, -1, b2, cuts, blockInfo{intent: "sweep:emit-off-followup", huff: huff, indexed: true}) {
					continue
				}
				// invalid references while emission is off must still be decoding errors
				for _, bad := range [][]byte{{0x82, 0x80}, {0x82, 0x80 | 65}, append([]byte{0x82}, refAppendString([]byte{0x40 | 63, 10}, "v", huff, 0)...), append([]byte{0x82}, refAppendString([]byte{0x0f, 65 - 15}, "v", huff, 0)...), {0x82, 0x3f, 0xe2, 0x1f}} {
					c := newC31Session(4096, 0)
					c.nextEmit = &emitSpec{Start: 1}
					if !c.feed(t, rec, -1, b1, nil, blockInfo{intent: "history"}) {
						continue
					}
					c.nextEmit = &emitSpec{Start: 1, OffAfter: 1}
					c.feed(t, rec, -1, bad, cuts, blockInfo{intent: "sweep:emit-off-error", indexed: true})
				}
			}
		}
	}
}

func c31Sweep(t *testing.T, rec *ev.Rec) {
	// history: three dynamic entries
	pre := []byte{0x40, 0x03, 'x', '-', 'a', 0x02, 'v', '1', 0x40, 0x03, 'x', '-', 'b', 0x02, 'v', '2', 0x41, 0x01, 'h'}
	run := func(intent string, blk []byte, huff, indexed bool, cuts []int) {
		for _, tab := range []uint32{4096, 0} {
			s := newC31Session(tab, 0)
			if !s.feed(t, rec, -1, pre, nil, blockInfo{intent: "history"}) {
				continue
			}
			s.feed(t, rec, -1, blk, cuts, blockInfo{intent: intent, huff: huff, indexed: indexed})
		}
	}
	everyByte := func(n int) []int {
		var c []int
		for i := 1; i < n; i++ {
			c = append(c, i)
		}
		return c
	}
	prefixes := []string{"", "0", "00", "a0", "0a0", "!", "0!", "\x00", "aaaa", "\xff"}
	for lk := 0; lk < 3; lk++ {
		for _, inName := range []bool{false, true} {
			for _, pfx := range prefixes {
				// EOS at every alignment, at the end and in the middle
				for _, after := range []string{"", "a"} {
					var bb bitBuf
					bb.putStr(pfx)
					bb.put(eosCode, eosLen)
					bb.putStr(after)
					bb.padOnes()
					blk := literalWithRawString(lk, inName, bb.b, true)
					run("sweep:huff-eos", blk, true, false, nil)
					run("sweep:huff-eos", blk, true, false, everyByte(len(blk)))
				}
				// padding of 8..29 one bits
				for extra := 1; extra <= 3; extra++ {
					var bb bitBuf
					bb.putStr(pfx)
					bb.padOnes()
					for i := 0; i < extra; i++ {
						bb.put(0xff, 8)
					}
					blk := literalWithRawString(lk, inName, bb.b, true)
					run("sweep:huff-pad-long", blk, true, false, nil)
					run("sweep:huff-pad-long", blk, true, false, everyByte(len(blk)))
				}
				// every padding pattern with a 0 bit
				var base bitBuf
				base.putStr(pfx)
				if base.n%8 != 0 {
					p := 8 - base.n%8
					for pat := 0; pat < 1<<uint(p)-1; pat++ {
						bb := bitBuf{b: append([]byte(nil), base.b...), n: base.n}
						bb.put(uint64(pat), p)
						run("sweep:huff-pad-bits", literalWithRawString(lk, inName, bb.b, true), true, false, nil)
					}
				}
			}
		}
	}
	// indexes: 0, every valid one, first invalid ones (3 dynamic entries when tab=4096, none when tab=0)
	for idx := uint64(0); idx <= 70; idx++ {
		run("sweep:index", refAppendInt(nil, 0x80, 7, idx, 0), false, true, nil)
		if idx > 0 {
			run("sweep:index", refAppendString(refAppendInt(nil, 0x40, 6, idx, 0), "v", false, 0), false, true, nil)
			run("sweep:index", refAppendString(refAppendInt(nil, 0x00, 4, idx, 0), "v", false, 0), false, true, nil)
			run("sweep:index", refAppendString(refAppendInt(nil, 0x10, 4, idx, 0), "v", false, 0), false, true, nil)
		}
	}
	// size updates: at start (<=, ==, > allowed), after a field
	for _, v := range []uint64{0, 1, 4095, 4096, 4097, 8192, 1 << 32, 1<<32 + 4096} {
		run("sweep:size-update-start", refAppendInt(nil, 0x20, 5, v, 0), false, false, nil)
		run("sweep:size-update-mid", append([]byte{0x82}, refAppendInt(nil, 0x20, 5, v, 0)...), false, true, nil)
		run("sweep:size-update-twice", append(refAppendInt(nil, 0x20, 5, 0, 0), refAppendInt(nil, 0x20, 5, v, 0)...), false, false, nil)
	}
	// integers: 1..14 continuation octets in every integer position
	for cont := 1; cont <= 14; cont++ {
		for _, fill := range []byte{0, 0x7f} {
			for _, last := range []byte{0, 1, 0x7f} {
				run("sweep:varint", overlongInt(0x80, 7, cont, fill, last), false, true, nil)
				run("sweep:varint", refAppendString(overlongInt(0x40, 6, cont, fill, last), "v", false, 0), false, false, nil)
				run("sweep:varint", refAppendString(overlongInt(0x00, 4, cont, fill, last), "v", false, 0), false, false, nil)
				run("sweep:varint", overlongInt(0x20, 5, cont, fill, last), false, false, nil)
				blk := append(append([]byte{0x41}, overlongInt(0x00, 7, cont, fill, last)...), 'x')
				run("sweep:varint", blk, false, false, nil)
				run("sweep:varint", blk, false, false, everyByte(len(blk)))
			}
		}
	}
}

// genEmitSpec draws how the consumer drives SetEmitEnabled around a block of n octets.
func genEmitSpec(rt *rapid.T, n int) *emitSpec {
	sp := &emitSpec{Start: rapid.SampledFrom([]int{1, 1, 1, 1, -1, 0}).Draw(rt, "emit-start")}
	if rapid.IntRange(0, 2).Draw(rt, "emit-off-by-callback") > 0 {
		sp.OffAfter = rapid.IntRange(1, 4).Draw(rt, "emit-off-after")
	}
	if n >= 2 && rapid.IntRange(0, 2).Draw(rt, "emit-toggle-between-fragments") == 0 {
		k := rapid.IntRange(1, 2).Draw(rt, "n-toggles")
		for i := 0; i < k; i++ {
			sp.Frag = append(sp.Frag, fragToggle{At: rapid.IntRange(1, n-1).Draw(rt, "toggle-at"), On: rapid.IntRange(0, 2).Draw(rt, "toggle-on") == 0})
		}
	}
	return sp
}

func TestC31(t *testing.T) {
	rec := ev.New("C31", c31Rule)
	if p := os.Getenv("VERIF_REPLAY_JSON"); p != "" {
		c31Replay(t, rec, p)
		return
	}
	c31Sweep(t, rec)
	if os.Getenv("VERIF_HPACK_NOSWEEP") == "" { // development aid: show that the generated part finds it on its own
		c31EmitSweep(t, rec)
	}
	for _, in := range corpusInputs("FuzzC31") {
		c31FuzzOne(t, rec, in)
	}
	rapid.Check(t, func(rt *rapid.T) {
		tab := rapid.SampledFrom(c31Tabs).Draw(rt, "table-size")
		maxStr := 0
		if rapid.IntRange(0, 4).Draw(rt, "limit-strings") == 0 {
			maxStr = rapid.IntRange(1, 64).Draw(rt, "max-string-len")
		}
		s := newC31Session(tab, maxStr)
		nblocks := rapid.IntRange(1, 6).Draw(rt, "nblocks")
		for i := 0; i < nblocks; i++ {
			allowed := int64(-1)
			if rapid.IntRange(0, 4).Draw(rt, "change-allowed") == 0 {
				allowed = int64(rapid.SampledFrom(c31Tabs).Draw(rt, "allowed"))
			}
			stForGen := s.ref
			if allowed >= 0 {
				stForGen = s.ref.clone()
				stForGen.allowed = uint32(allowed)
			}
			wantV := rapid.IntRange(0, 99).Draw(rt, "violate") < 15+15*i
			blk, info := genBlock(rt, stForGen, wantV)
			cuts := genCuts(rt, len(blk))
			if rapid.IntRange(0, 3).Draw(rt, "emit-control") == 0 {
				s.nextEmit = genEmitSpec(rt, len(blk))
			} else if !s.emitOn {
				s.nextEmit = &emitSpec{Start: 1} // the consumer re-enables emission for the next block
			}
			if i == 0 {
				rec.Sample(map[string]any{"table_size": tab, "max_string_len": maxStr, "blocks": nblocks, "first_block_hex": hex.EncodeToString(blk), "intent": info.intent, "cuts": cuts})
			}
			if !s.feed(rt, rec, allowed, blk, cuts, info) {
				break
			}
		}
	})
}

// FuzzC31: byte 0 selects table size / history, byte 1 the string limit, byte 2 the
// split pattern; the rest is one header block. Same oracle as TestC31.
func FuzzC31(f *testing.F) {
	rec := ev.New("C31", c31Rule)
	f.Add([]byte{0x85, 0, 0, 0x82, 0x86, 0x84, 0x41, 0x8c, 0xf1, 0xe3, 0xc2, 0xe5, 0xf2, 0x3a, 0x6b, 0xa0, 0xab, 0x90, 0xf4, 0xff})
	f.Add([]byte{0x05, 0, 1, 0x00, 0x01, 'a', 0x85, 0x00, 0x3f, 0xff, 0xff, 0xff})
	f.Fuzz(func(t *testing.T, data []byte) { c31FuzzOne(t, rec, data) })
}

func c31FuzzOne(t ev.TB, rec *ev.Rec, data []byte) {
	if len(data) < 3 || len(data) > 4096 {
		return
	}
	tab := c31Tabs[int(data[0]&0x0f)%len(c31Tabs)]
	maxStr := 0
	if data[1]&0x80 != 0 {
		maxStr = int(data[1]&0x3f) + 1
	}
	s := newC31Session(tab, maxStr)
	if data[0]&0x80 != 0 {
		pre := []byte{0x40, 0x03, 'x', '-', 'a', 0x02, 'v', '1', 0x40, 0x03, 'x', '-', 'b', 0x02, 'v', '2', 0x41, 0x01, 'h'}
		if !s.feed(t, rec, -1, pre, nil, blockInfo{intent: "history"}) {
			return
		}
	}
	blk := data[3:]
	var cuts []int
	if step := int(data[2] & 0x0f); step > 0 {
		for i := step; i < len(blk) && len(cuts) < 64; i += step {
			cuts = append(cuts, i)
		}
	}
	if data[1]&0x40 != 0 {
		s.nextEmit = &emitSpec{Start: 1, OffAfter: 1 + int(data[2]>>4)&3}
	}
	s.feed(t, rec, -1, blk, cuts, blockInfo{intent: "fuzz-input"})
}

// corpusInputs reads the committed seed corpus of a native fuzz target
// (go fuzz corpus file format, one []byte value per file).
func corpusInputs(target string) [][]byte {
	root := os.Getenv("VERIF_ROOT")
	if root == "" {
		root = "/verif"
	}
	ents, _ := os.ReadDir(root + "/corpus/" + target)
	var out [][]byte
	for _, e := range ents {
		b, err := os.ReadFile(root + "/corpus/" + target + "/" + e.Name())
		if err != nil {
			continue
		}
		lines := strings.Split(strings.TrimSpace(string(b)), "\n")
		if len(lines) != 2 || !strings.HasPrefix(lines[1], "[]byte(") {
			continue
		}
		q, err := strconv.Unquote(strings.TrimSuffix(strings.TrimPrefix(lines[1], "[]byte("), ")"))
		if err != nil {
			continue
		}
		out = append(out, []byte(q))
	}
	return out
}

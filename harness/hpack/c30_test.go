package hpack

// C30: HPACK encoding round-trips and respects table limits.
//
// A session is a generated history of header lists written with the in-tree
// Encoder, interleaved with announced table size changes:
//   announce(v): the decoding side lowers/raises SETTINGS_HEADER_TABLE_SIZE
//                (Decoder.SetAllowedMaxDynamicTableSize(v)) and the encoder is told
//                (Encoder.SetMaxDynamicTableSize(v)) - what server.go does on SETTINGS;
//   limit(v):    the encoder's own cap (Encoder.SetMaxDynamicTableSizeLimit(v)).
// After every list the emitted block is decoded by the in-tree Decoder (whole or in
// two/three Writes), by the RFC 7541 reference decoder and by x/net's decoder.
//
// Oracle: decoded (name, value, never-index flag) == the list that was written, for
// the in-tree decoder and for both independent decoders (i.e. the octets are valid
// HPACK meaning the same list); after every list both in-tree dynamic tables
// (read through add-only accessors) have recomputed size == size counter <= own
// maximum <= negotiated size, and the encoder's table is the newest part of the
// decoder's table (so that every emitted index means the same entry on both sides).

import (
	"encoding/json"
	"fmt"
	"os"
	"strings"
	"testing"

	bhpack "github.com/bfenetworks/bfe/bfe_http2/hpack"
	xhpack "golang.org/x/net/http2/hpack"
	"pgregory.net/rapid"

	"verif/harness/internal/ev"
)

const c30Rule = "sessions of 2..10 header lists (1..12 fields; names/values from a small dictionary so that dynamic-table hits occur, plus random octets, empty and long values up to 6000 octets, 15% never-index; for 1 list in 5 the consumer disables emission from the emit callback after 1..4 fields, as readMetaFrame does, and the following lists reuse the entries inserted meanwhile) interleaved with 0..3 announce/limit table-size operations (sizes 0..8192, many near entry sizes). One evaluation = one session. non-trivial: at least one eviction happened or a size update was emitted between two lists; distinct by the full operation list"

type c30Op struct {
	Kind   string `json:"op"` // "block", "announce", "limit"
	V      uint32 `json:"v,omitempty"`
	Fields []hf   `json:"fields,omitempty"`
	Cuts   []int  `json:"cuts,omitempty"`
	// OffAfter k >= 1: the consumer's emit callback calls Decoder.SetEmitEnabled(false) after the k-th field
	// of this list (what Framer.readMetaFrame does after an invalid field); emission is enabled again
	// before the next list. The dropped fields must still update the decoder's table.
	OffAfter int `json:"emit_off_after,omitempty"`
}

type bytesSink struct{ b []byte }

func (s *bytesSink) Write(p []byte) (int, error) { s.b = append(s.b, p...); return len(p), nil }

func sumSize(ents []bhpack.HeaderField) uint32 {
	var n uint32
	for _, e := range ents {
		n += uint32(len(e.Name) + len(e.Value) + 32)
	}
	return n
}

func c30Run(tb ev.TB, rec *ev.Rec, ops []c30Op) {
	sink := &bytesSink{}
	enc := bhpack.NewEncoder(sink)
	var got []hf
	var dec *bhpack.Decoder
	offAfter := 0
	dec = bhpack.NewDecoder(4096, func(f bhpack.HeaderField) error {
		got = append(got, hf{f.Name, f.Value, f.Sensitive})
		if len(got) == offAfter {
			dec.SetEmitEnabled(false)
		}
		return nil
	})
	ref := newRefDec(4096)
	var xgot []hf
	xdec := xhpack.NewDecoder(4096, func(f xhpack.HeaderField) { xgot = append(xgot, hf{f.Name, f.Value, f.Sensitive}) })
	xAlive := true
	negotiated := uint32(4096)
	evictions, sizeUpdates, blocks := 0, 0, 0
	pendingSizeOp := false
	classes := map[string]bool{}
	w := map[string]any{"ops": ops}
	fail := func(key, format string, args ...any) bool {
		return rec.Fail(tb, key, w, format, args...)
	}

	for opi, op := range ops {
		switch op.Kind {
		case "announce":
			negotiated = op.V
			dec.SetAllowedMaxDynamicTableSize(op.V)
			ref.allowed = op.V
			xdec.SetAllowedMaxDynamicTableSize(op.V)
			enc.SetMaxDynamicTableSize(op.V)
			pendingSizeOp = true
			classes["op:announce"] = true
			continue
		case "limit":
			enc.SetMaxDynamicTableSizeLimit(op.V)
			pendingSizeOp = true
			classes["op:limit"] = true
			continue
		}
		blocks++
		sink.b = sink.b[:0]
		var perr any
		perr = ev.Try(func() {
			for _, f := range op.Fields {
				if err := enc.WriteField(bhpack.HeaderField{Name: f.Name, Value: f.Value, Sensitive: f.Sensitive}); err != nil {
					panic(fmt.Sprintf("WriteField error: %v", err))
				}
			}
		})
		if perr != nil {
			fail("encoder-panic", "op %d: Encoder.WriteField panicked/failed: %v", opi, perr)
			return
		}
		block := append([]byte(nil), sink.b...)

		// independent decoders first
		refBefore := len(ref.dyn)
		refOut, refE := ref.decodeBlock(block)
		if refE != nil {
			fail("invalid-hpack", "op %d: encoder output %x is not valid HPACK for the RFC 7541 reference decoder: %v (list %v)", opi, block, refE, op.Fields)
			return
		}
		if !hfListEq(refOut, op.Fields) {
			fail("ref-roundtrip", "op %d: encoder output %x decodes (RFC 7541 reference) to %v, written %v", opi, block, refOut, op.Fields)
			return
		}
		nInc, nSU := countReprs(block)
		if nInc-(len(ref.dyn)-refBefore) > 0 {
			evictions++
		}
		if nSU > 0 {
			sizeUpdates++
			classes[fmt.Sprintf("size-updates-in-block:%d", nSU)] = true
		}
		if pendingSizeOp && nSU == 0 {
			classes["size-op-without-update"] = true
		}
		pendingSizeOp = false
		if xAlive {
			xgot = nil
			_, xerr := xdec.Write(block)
			if xerr == nil {
				xerr = xdec.Close()
			}
			if xerr != nil {
				// x/net (this version) rejects a second leading size update when its table is
				// non-empty although RFC 7541 4.2 explicitly allows two; not an encoder fault.
				if nSU >= 2 {
					classes["xnet-quirk-two-size-updates"] = true
					xAlive = false
				} else {
					fail("invalid-hpack-xnet", "op %d: encoder output %x rejected by x/net decoder: %v", opi, block, xerr)
					return
				}
			} else if !hfListEq(xgot, op.Fields) {
				fail("xnet-roundtrip", "op %d: encoder output %x decodes (x/net) to %v, written %v", opi, block, xgot, op.Fields)
				return
			}
		}

		// in-tree decoder
		got = nil
		offAfter = op.OffAfter
		want := op.Fields
		if op.OffAfter > 0 && op.OffAfter < len(want) {
			want = want[:op.OffAfter]
			classes["emit-disabled-mid-list"] = true
		}
		var derr error
		perr = ev.Try(func() {
			dec.SetEmitEnabled(true)
			for _, ch := range splitAt(block, op.Cuts) {
				if _, derr = dec.Write(append([]byte(nil), ch...)); derr != nil {
					return
				}
			}
			derr = dec.Close()
		})
		if perr != nil {
			fail("decoder-panic", "op %d: Decoder panicked on encoder output %x: %v", opi, block, perr)
			return
		}
		if derr != nil {
			fail("decode-error", "op %d: Decoder rejects encoder output %x (cuts %v): %v", opi, block, op.Cuts, derr)
			return
		}
		if !hfListEq(got, want) {
			key := "roundtrip"
			for i := range got {
				if i < len(want) && got[i].Name == want[i].Name && got[i].Value == want[i].Value && got[i].Sensitive != want[i].Sensitive {
					key = "roundtrip-sensitive"
				}
			}
			fail(key, "op %d: decoded %v, written %v (emission disabled by the consumer after %d fields; block %x, cuts %v)", opi, got, want, op.OffAfter, block, op.Cuts)
			return
		}

		// table limits
		eEnts, eSize, eMax := enc.VerifDynTab()
		dEnts, dSize, dMax, dAllowed := dec.VerifDynTab()
		if s := sumSize(eEnts); s != eSize || eSize > eMax || eMax > negotiated {
			fail("encoder-table-limit", "op %d: encoder table: entries sum %d, size counter %d, max %d, negotiated %d", opi, s, eSize, eMax, negotiated)
			return
		}
		if s := sumSize(dEnts); s != dSize || dSize > dMax || dMax > negotiated || dAllowed != negotiated {
			fail("decoder-table-limit", "op %d: decoder table: entries sum %d, size counter %d, max %d, allowed %d, negotiated %d", opi, s, dSize, dMax, dAllowed, negotiated)
			return
		}
		// The encoder's table must be the newest part of the decoder's table (ents are oldest
		// first): every index the encoder can emit then means the same entry on both sides.
		// Extra *older* entries on the decoder side are harmless (they are evicted first) and
		// stay within the negotiated size checked above, so they are only counted.
		if eMax > dMax {
			fail("table-max-desync", "op %d: encoder table max %d > decoder table max %d (negotiated %d): the decoder will evict entries the encoder still references", opi, eMax, dMax, negotiated)
			return
		}
		if eMax != dMax {
			classes["decoder-max-above-encoder-max"] = true
		}
		same := len(eEnts) <= len(dEnts)
		for i := 0; same && i < len(eEnts); i++ {
			e, d := eEnts[len(eEnts)-1-i], dEnts[len(dEnts)-1-i]
			same = e.Name == d.Name && e.Value == d.Value
		}
		if !same {
			fail("table-desync", "op %d: encoder table %v is not the newest part of decoder table %v", opi, eEnts, dEnts)
			return
		}
		if len(eEnts) != len(dEnts) {
			classes["decoder-keeps-older-entries"] = true
		}
		if len(dEnts) != len(ref.dyn) {
			classes["table-differs-from-reference"] = true
		}
		if len(eEnts) > 0 {
			classes["dyn-table-used"] = true
		}
		if len(eEnts) >= 66 {
			classes["dyn-index>=127"] = true
		}
	}
	if evictions > 0 {
		classes["eviction"] = true
	}
	if sizeUpdates > 0 {
		classes["size-update-emitted"] = true
	}
	cl := make([]string, 0, len(classes))
	for k := range classes {
		cl = append(cl, k)
	}
	fpb, _ := json.Marshal(ops)
	rec.Case(string(fpb), evictions > 0 || sizeUpdates > 0, cl...)
	rec.Add("header_lists", int64(blocks))
}

// countReprs walks a block already accepted by the reference decoder and
// counts incremental-indexing literals and size updates.
func countReprs(p []byte) (inc, su int) {
	pos := 0
	skipStr := func() {
		l, np, _ := refReadInt(p, pos, 7)
		pos = np + int(l)
	}
	for pos < len(p) {
		b := p[pos]
		switch {
		case b&0x80 != 0:
			_, pos, _ = refReadInt(p, pos, 7)
		case b&0xe0 == 0x20:
			su++
			_, pos, _ = refReadInt(p, pos, 5)
		default:
			var prefix uint = 4
			if b&0xc0 == 0x40 {
				prefix = 6
				inc++
			}
			var idx uint64
			idx, pos, _ = refReadInt(p, pos, prefix)
			if idx == 0 {
				skipStr()
			}
			skipStr()
		}
	}
	return
}

var c30Names = []string{":method", ":path", ":status", "cookie", "set-cookie", "accept-encoding", "x-a", "x-b", "x-request-id", "content-length", "user-agent", "authorization", "", "Mixed-Case"}
var c30Values = []string{"", "GET", "200", "/", "/index.html", "gzip, deflate", "a", "b", "session=abcdef0123456789", "0", "Mozilla/5.0 (X11; Linux x86_64)", "\xff\x00\xfe", "0123456789012345678901234567890123456789"}
var c30Sizes = []uint32{0, 0, 31, 32, 33, 40, 64, 70, 100, 128, 200, 512, 4095, 4096, 4096, 4097, 8192}

func genC30Field(rt *rapid.T) hf {
	var f hf
	f.Name = rapid.SampledFrom(c30Names).Draw(rt, "name")
	if rapid.IntRange(0, 9).Draw(rt, "rand-name") == 0 {
		f.Name = string(rapid.SliceOfN(rapid.Byte(), 0, 20).Draw(rt, "name-bytes"))
	}
	switch rapid.IntRange(0, 19).Draw(rt, "value-kind") {
	case 0, 1:
		f.Value = string(rapid.SliceOfN(rapid.Byte(), 0, 40).Draw(rt, "value-bytes"))
	case 2:
		n := rapid.SampledFrom([]int{90, 126, 127, 128, 200, 300, 1000, 4064, 4065, 6000}).Draw(rt, "long")
		f.Value = strings.Repeat(rapid.SampledFrom([]string{"a", "\xfe", "0"}).Draw(rt, "unit"), n)
	default:
		f.Value = rapid.SampledFrom(c30Values).Draw(rt, "value")
	}
	f.Sensitive = rapid.IntRange(0, 99).Draw(rt, "sensitive") < 15
	return f
}

func genC30Ops(rt *rapid.T) []c30Op {
	var ops []c30Op
	nb := rapid.IntRange(2, 10).Draw(rt, "nblocks")
	for i := 0; i < nb; i++ {
		if i > 0 || rapid.Bool().Draw(rt, "size-op-first") {
			nso := rapid.SampledFrom([]int{0, 0, 1, 1, 2, 3}).Draw(rt, "n-size-ops")
			for j := 0; j < nso; j++ {
				kind := "announce"
				if rapid.IntRange(0, 3).Draw(rt, "limit?") == 0 {
					kind = "limit"
				}
				ops = append(ops, c30Op{Kind: kind, V: rapid.SampledFrom(c30Sizes).Draw(rt, "size")})
			}
		}
		nf := rapid.IntRange(1, 12).Draw(rt, "nfields")
		if rapid.IntRange(0, 19).Draw(rt, "many") == 0 {
			nf = rapid.IntRange(70, 140).Draw(rt, "nfields-many")
		}
		op := c30Op{Kind: "block"}
		for j := 0; j < nf; j++ {
			if nf > 50 {
				op.Fields = append(op.Fields, hf{Name: fmt.Sprintf("k%d", j), Value: ""})
				continue
			}
			op.Fields = append(op.Fields, genC30Field(rt))
		}
		if rapid.IntRange(0, 4).Draw(rt, "emit-off") == 0 {
			op.OffAfter = rapid.IntRange(1, 4).Draw(rt, "emit-off-after")
		}
		if rapid.Bool().Draw(rt, "split") {
			op.Cuts = rapid.SliceOfN(rapid.IntRange(0, 64), 1, 2).Draw(rt, "cuts")
		}
		ops = append(ops, op)
	}
	return ops
}

func TestC30(t *testing.T) {
	rec := ev.New("C30", c30Rule)
	if p := os.Getenv("VERIF_REPLAY_JSON"); p != "" {
		b, err := os.ReadFile(p)
		if err != nil {
			t.Fatal(err)
		}
		var f struct {
			Witness struct {
				Ops []c30Op `json:"ops"`
			} `json:"witness"`
		}
		if err := json.Unmarshal(b, &f); err != nil {
			t.Fatal(err)
		}
		c30Run(t, rec, f.Witness.Ops)
		return
	}
	// RFC 7541 4.2 scenario: shrink then grow between two lists, with entries in the table
	c30Run(t, rec, []c30Op{
		{Kind: "block", Fields: []hf{{"x-a", "1", false}, {"x-b", "2", false}, {"x-c", "3", false}}},
		{Kind: "announce", V: 40}, {Kind: "announce", V: 4096},
		{Kind: "block", Fields: []hf{{"x-a", "1", false}, {"x-b", "2", false}, {"x-c", "3", false}}},
		{Kind: "limit", V: 35},
		{Kind: "block", Fields: []hf{{"x-c", "3", false}, {"x-a", "1", true}}},
	})
	// readMetaFrame scenario: emission switched off after an invalid field, new entries follow, the next list uses them
	if os.Getenv("VERIF_HPACK_NOSWEEP") != "" { // development aid: show that the generated part finds it on its own
		goto generated
	}
	c30Run(t, rec, []c30Op{
		{Kind: "block", OffAfter: 1, Fields: []hf{{"Bad-Name", "x", false}, {"x-new", "value-1", false}, {"cookie", "a=b", false}, {"x-plain", "p", true}}},
		{Kind: "block", Cuts: []int{1, 3}, Fields: []hf{{"x-new", "value-1", false}, {"cookie", "a=b", false}, {"x-new", "other", false}, {"Bad-Name", "x", false}}},
	})
generated:
	rapid.Check(t, func(rt *rapid.T) {
		ops := genC30Ops(rt)
		nops := 0
		for _, o := range ops {
			if o.Kind != "block" {
				nops++
			}
		}
		rec.Sample(map[string]any{"ops": len(ops), "size_ops": nops, "first_list": ops[len(ops)-1].Fields[:1]})
		c30Run(rt, rec, ops)
	})
}

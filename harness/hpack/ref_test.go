package hpack

// Reference HPACK decoder written from RFC 7541 (sections 2.3, 4, 5, 6).
// It is deliberately naive: bit-by-bit Huffman decoding, a slice as dynamic
// table, one block decoded at a time. The decoding *logic* (integers,
// string literals, Huffman padding rules, table management, size updates)
// is independent of both bfe's in-tree hpack and golang.org/x/net's. Only the
// two constant tables of the RFC (Appendix A static table, Appendix B code
// book) are read through x/net's public API instead of being typed in again;
// the code book is validated structurally (Kraft equality incl. EOS, spot
// values from the RFC text).

import (
	"encoding/hex"
	"encoding/json"
	"fmt"
	"strings"

	xhpack "golang.org/x/net/http2/hpack"
)

type hf struct {
	Name, Value string
	Sensitive   bool
}

func (f hf) String() string {
	s := ""
	if f.Sensitive {
		s = "!"
	}
	return fmt.Sprintf("%q=%q%s", f.Name, f.Value, s)
}

// JSON form keeps arbitrary octets intact (hex) and adds a readable rendering.
type hfJSON struct {
	NameHex  string `json:"name_hex"`
	ValueHex string `json:"value_hex"`
	Text     string `json:"text,omitempty"`
	Never    bool   `json:"never_index,omitempty"`
}

func (f hf) MarshalJSON() ([]byte, error) {
	return json.Marshal(hfJSON{hex.EncodeToString([]byte(f.Name)), hex.EncodeToString([]byte(f.Value)), fmt.Sprintf("%.40q=%.40q", f.Name, f.Value), f.Sensitive})
}

func (f *hf) UnmarshalJSON(b []byte) error {
	var j hfJSON
	if err := json.Unmarshal(b, &j); err != nil {
		return err
	}
	n, err := hex.DecodeString(j.NameHex)
	if err != nil {
		return err
	}
	v, err := hex.DecodeString(j.ValueHex)
	if err != nil {
		return err
	}
	f.Name, f.Value, f.Sensitive = string(n), string(v), j.Never
	return nil
}

func hfListEq(a, b []hf) bool {
	if len(a) != len(b) {
		return false
	}
	for i := range a {
		if a[i] != b[i] {
			return false
		}
	}
	return true
}

var (
	huffCode  [256]uint32
	huffLen   [256]uint8
	huffSym   = map[uint64]int{} // len<<32|code -> symbol
	refStatic []hf               // index 1..61 at [0..60]
)

const (
	eosCode = 0x3fffffff
	eosLen  = 30
)

func init() {
	for c := 0; c < 256; c++ {
		s := string([]byte{byte(c)})
		l := int(xhpack.HuffmanEncodeLength(strings.Repeat(s, 8))) // (8*len+7)/8 == len
		enc := xhpack.AppendHuffmanString(nil, s)
		var v uint32
		for i := 0; i < l; i++ {
			v = v<<1 | uint32(enc[i/8]>>(7-uint(i%8))&1)
		}
		huffCode[c], huffLen[c] = v, uint8(l)
		k := uint64(l)<<32 | uint64(v)
		if _, dup := huffSym[k]; dup {
			panic("ref: duplicate huffman code")
		}
		huffSym[k] = c
	}
	// structural validation: complete prefix code together with EOS (Kraft sum == 1)
	var kraft uint64
	for c := 0; c < 256; c++ {
		if huffLen[c] < 5 || huffLen[c] > 30 {
			panic("ref: huffman length out of RFC range")
		}
		kraft += 1 << (32 - huffLen[c])
	}
	kraft += 1 << (32 - eosLen)
	if kraft != 1<<32 {
		panic("ref: huffman code book is not complete")
	}
	// spot values from RFC 7541 Appendix B
	spot := []struct {
		c    byte
		code uint32
		l    uint8
	}{{'0', 0x0, 5}, {'a', 0x3, 5}, {' ', 0x14, 6}, {0, 0x1ff8, 13}, {'!', 0x3f8, 10}, {'Z', 0xfd, 8}, {255, 0x3ffffee, 26}, {22, 0x3ffffffe, 30}}
	for _, s := range spot {
		if huffCode[s.c] != s.code || huffLen[s.c] != s.l {
			panic(fmt.Sprintf("ref: huffman spot check failed for %d: %x/%d", s.c, huffCode[s.c], huffLen[s.c]))
		}
	}
	// static table through the public decoder API
	for i := 1; i <= 61; i++ {
		var got []xhpack.HeaderField
		d := xhpack.NewDecoder(0, func(f xhpack.HeaderField) { got = append(got, f) })
		if _, err := d.Write([]byte{0x80 | byte(i)}); err != nil || len(got) != 1 {
			panic("ref: cannot read static table")
		}
		refStatic = append(refStatic, hf{Name: got[0].Name, Value: got[0].Value})
	}
	if refStatic[1] != (hf{Name: ":method", Value: "GET"}) || refStatic[60].Name != "www-authenticate" || refStatic[15].Value != "gzip, deflate" {
		panic("ref: static table spot check failed")
	}
}

// refErr kinds (the classes named by property C31 have their own kind).
const (
	kTruncated     = "truncated"
	kIndexZero     = "index-zero"
	kIndexRange    = "index-range"
	kSizeTooLarge  = "size-update-too-large"
	kSizeUpdatePos = "size-update-pos"
	kVarint        = "varint-overlong"
	kHuffPadLong   = "huff-pad-long"
	kHuffPadBits   = "huff-pad-bits"
	kHuffEOS       = "huff-eos"
	kStrLen        = "string-limit"
)

type refErr struct {
	Kind string
	Pos  int
	Inc  bool // the failing representation is a literal with incremental indexing
}

func (e *refErr) Error() string { return fmt.Sprintf("ref: %s at %d", e.Kind, e.Pos) }

// refHuffDecode decodes a Huffman string per RFC 7541 5.2.
func refHuffDecode(v []byte) (string, string) {
	var out []byte
	var cur uint64
	var n uint
	for _, b := range v {
		for i := 7; i >= 0; i-- {
			cur = cur<<1 | uint64(b>>uint(i)&1)
			n++
			if n == eosLen && cur == eosCode {
				return "", kHuffEOS
			}
			if s, ok := huffSym[uint64(n)<<32|cur]; ok {
				out = append(out, byte(s))
				cur, n = 0, 0
			}
		}
	}
	if n > 0 {
		ones := cur == (1<<n)-1
		switch {
		case !ones:
			return "", kHuffPadBits // incomplete symbol / padding containing a 0 bit
		case n > 7:
			return "", kHuffPadLong
		}
	}
	return string(out), ""
}

// refHuffEncode returns the code bits of s followed by tail (extra raw bits),
// without padding; nbits is the number of valid bits.
type bitBuf struct {
	b []byte
	n int
}

func (bb *bitBuf) put(code uint64, l int) {
	for i := l - 1; i >= 0; i-- {
		if bb.n%8 == 0 {
			bb.b = append(bb.b, 0)
		}
		if code>>uint(i)&1 == 1 {
			bb.b[len(bb.b)-1] |= 1 << (7 - uint(bb.n%8))
		}
		bb.n++
	}
}

func (bb *bitBuf) putStr(s string) {
	for i := 0; i < len(s); i++ {
		bb.put(uint64(huffCode[s[i]]), int(huffLen[s[i]]))
	}
}

// padOnes pads with 1 bits to the next byte boundary.
func (bb *bitBuf) padOnes() {
	for bb.n%8 != 0 {
		bb.put(1, 1)
	}
}

func refHuffEncode(s string) []byte {
	var bb bitBuf
	bb.putStr(s)
	bb.padOnes()
	return bb.b
}

type refDec struct {
	dyn     []hf // newest first
	size    uint32
	max     uint32
	allowed uint32
	maxStr  int
}

func newRefDec(tab uint32) *refDec { return &refDec{max: tab, allowed: tab} }

func (r *refDec) clone() *refDec {
	c := *r
	c.dyn = append([]hf(nil), r.dyn...)
	return &c
}

func entSize(f hf) uint32 { return uint32(len(f.Name) + len(f.Value) + 32) }

func (r *refDec) evictTo(limit uint32) {
	for r.size > limit && len(r.dyn) > 0 {
		last := r.dyn[len(r.dyn)-1]
		r.dyn = r.dyn[:len(r.dyn)-1]
		r.size -= entSize(last)
	}
}

func (r *refDec) add(f hf) {
	f.Sensitive = false
	sz := entSize(f)
	if sz > r.max {
		r.dyn, r.size = nil, 0
		return
	}
	r.evictTo(r.max - sz)
	r.dyn = append([]hf{f}, r.dyn...)
	r.size += sz
}

func (r *refDec) at(i uint64) (hf, string) {
	if i == 0 {
		return hf{}, kIndexZero
	}
	if i <= 61 {
		return refStatic[i-1], ""
	}
	if i-61 > uint64(len(r.dyn)) {
		return hf{}, kIndexRange
	}
	return r.dyn[i-62], ""
}

// maximum number of continuation octets of an integer (implementation limit,
// RFC 7541 5.1: "Integer encodings that exceed implementation limits -- in
// value or octet length -- MUST be treated as decoding errors").
const refMaxCont = 9

func refReadInt(p []byte, pos int, prefix uint) (uint64, int, string) {
	if pos >= len(p) {
		return 0, pos, kTruncated
	}
	mask := uint64(1)<<prefix - 1
	v := uint64(p[pos]) & mask
	pos++
	if v < mask {
		return v, pos, ""
	}
	for k := 1; ; k++ {
		if pos >= len(p) {
			return 0, pos, kTruncated
		}
		b := p[pos]
		pos++
		if k > refMaxCont || (k == refMaxCont && b&0x80 != 0) {
			return 0, pos, kVarint
		}
		v += uint64(b&0x7f) << (7 * uint(k-1))
		if b&0x80 == 0 {
			return v, pos, ""
		}
	}
}

func (r *refDec) readString(p []byte, pos int) (string, int, string) {
	if pos >= len(p) {
		return "", pos, kTruncated
	}
	huff := p[pos]&0x80 != 0
	l, pos, e := refReadInt(p, pos, 7)
	if e != "" {
		return "", pos, e
	}
	if r.maxStr != 0 && l > uint64(r.maxStr) {
		return "", pos, kStrLen
	}
	if l > uint64(len(p)-pos) {
		return "", pos, kTruncated
	}
	raw := p[pos : pos+int(l)]
	pos += int(l)
	if !huff {
		return string(raw), pos, ""
	}
	s, e := refHuffDecode(raw)
	if e != "" {
		return "", pos, e
	}
	if r.maxStr != 0 && len(s) > r.maxStr {
		return "", pos, kStrLen
	}
	return s, pos, ""
}

// decodeBlock decodes one complete header block.
func (r *refDec) decodeBlock(p []byte) ([]hf, *refErr) {
	out, _, e := r.decodeBlockEx(p)
	return out, e
}

// decodeBlockEx additionally returns, for every emitted field, the offset just
// after its representation (needed to model SetEmitEnabled toggles between fragments).
func (r *refDec) decodeBlockEx(p []byte) ([]hf, []int, *refErr) {
	var out []hf
	var ends []int
	pos := 0
	sawField := false
	for pos < len(p) {
		start := pos
		b := p[pos]
		switch {
		case b&0x80 != 0: // 6.1 indexed
			idx, np, e := refReadInt(p, pos, 7)
			if e != "" {
				return nil, nil, &refErr{Kind: e, Pos: start, Inc: p[start]&0xc0 == 0x40}
			}
			f, e := r.at(idx)
			if e != "" {
				return nil, nil, &refErr{Kind: e, Pos: start, Inc: p[start]&0xc0 == 0x40}
			}
			pos = np
			out = append(out, hf{Name: f.Name, Value: f.Value})
			ends = append(ends, pos)
			sawField = true
		case b&0xe0 == 0x20: // 6.3 size update
			if sawField {
				return nil, nil, &refErr{Kind: kSizeUpdatePos, Pos: start}
			}
			v, np, e := refReadInt(p, pos, 5)
			if e != "" {
				return nil, nil, &refErr{Kind: e, Pos: start, Inc: p[start]&0xc0 == 0x40}
			}
			if v > uint64(r.allowed) {
				return nil, nil, &refErr{Kind: kSizeTooLarge, Pos: start}
			}
			pos = np
			r.max = uint32(v)
			r.evictTo(r.max)
		default: // 6.2 literals
			var prefix uint = 4
			inc := b&0xc0 == 0x40
			never := b&0xf0 == 0x10
			if inc {
				prefix = 6
			}
			idx, np, e := refReadInt(p, pos, prefix)
			if e != "" {
				return nil, nil, &refErr{Kind: e, Pos: start, Inc: p[start]&0xc0 == 0x40}
			}
			pos = np
			var f hf
			if idx != 0 {
				nf, e := r.at(idx)
				if e != "" {
					return nil, nil, &refErr{Kind: e, Pos: start, Inc: p[start]&0xc0 == 0x40}
				}
				f.Name = nf.Name
			} else {
				f.Name, pos, e = r.readString(p, pos)
				if e != "" {
					return nil, nil, &refErr{Kind: e, Pos: start, Inc: p[start]&0xc0 == 0x40}
				}
			}
			f.Value, pos, e = r.readString(p, pos)
			if e != "" {
				return nil, nil, &refErr{Kind: e, Pos: start, Inc: p[start]&0xc0 == 0x40}
			}
			if inc {
				r.add(f)
			}
			f.Sensitive = never
			out = append(out, f)
			ends = append(ends, pos)
			sawField = true
		}
	}
	return out, ends, nil
}

// ---- encoding helpers used by the generators (not by any oracle) ----

// refAppendInt appends v with an n-bit prefix; extra redundant continuation
// octets (0x80 ... 0x00) are added when pad > 0 and the multi-octet form is used.
func refAppendInt(dst []byte, first byte, prefix uint, v uint64, pad int) []byte {
	mask := uint64(1)<<prefix - 1
	if v < mask {
		return append(dst, first|byte(v))
	}
	dst = append(dst, first|byte(mask))
	v -= mask
	for v >= 128 {
		dst = append(dst, byte(v&0x7f)|0x80)
		v >>= 7
	}
	if pad == 0 {
		return append(dst, byte(v))
	}
	dst = append(dst, byte(v)|0x80)
	for i := 1; i < pad; i++ {
		dst = append(dst, 0x80)
	}
	return append(dst, 0x00)
}

func refAppendString(dst []byte, s string, huff bool, lenPad int) []byte {
	if !huff {
		dst = refAppendInt(dst, 0, 7, uint64(len(s)), lenPad)
		return append(dst, s...)
	}
	enc := refHuffEncode(s)
	dst = refAppendInt(dst, 0x80, 7, uint64(len(enc)), lenPad)
	return append(dst, enc...)
}

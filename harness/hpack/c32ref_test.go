package hpack

// Reference model of the frame layer of RFC 7540 (sections 4.1, 4.2, 6.1-6.10),
// written from the RFC text. It reads a byte stream frame by frame and says, for
// every frame, either which fields a reader must report or which frame-level rules
// the frame breaks (with the error code and level the RFC assigns).

import (
	"encoding/binary"
	"fmt"
)

const (
	ftData         = 0
	ftHeaders      = 1
	ftPriority     = 2
	ftRST          = 3
	ftSettings     = 4
	ftPushPromise  = 5
	ftPing         = 6
	ftGoAway       = 7
	ftWindowUpdate = 8
	ftContinuation = 9

	ecProtocol    = 1
	ecFlowControl = 3
	ecFrameSize   = 6
)

type refSetting struct {
	ID  uint16
	Val uint32
}

type refFrame struct {
	Type, Flags uint8
	Length      uint32
	Stream      uint32
	Body        []byte // DATA data, header block fragment, GOAWAY debug data, PING data, unknown payload
	HasPrio     bool
	Dep         uint32
	Excl        bool
	Weight      uint8
	Code        uint32 // RST_STREAM / GOAWAY error code
	Last        uint32 // GOAWAY last stream id
	Promise     uint32
	Incr        uint32
	Settings    []refSetting
}

func (f *refFrame) String() string {
	return fmt.Sprintf("{type=%d flags=%#x len=%d stream=%d body=%x prio=%v/%d/%v/%d code=%d last=%d promise=%d incr=%d settings=%v}",
		f.Type, f.Flags, f.Length, f.Stream, trunc(f.Body), f.HasPrio, f.Dep, f.Excl, f.Weight, f.Code, f.Last, f.Promise, f.Incr, f.Settings)
}

func trunc(b []byte) []byte {
	if len(b) > 24 {
		return b[:24]
	}
	return b
}

// refRule is one broken frame-level rule.
type refRule struct {
	Name   string
	Code   uint32
	Conn   bool // a connection error of this code satisfies the rule
	Stream bool // a stream error (on the frame's stream) of this code satisfies the rule
	Any    bool // the RFC only implies "malformed": any error satisfies the rule
}

func connRule(name string, code uint32) refRule { return refRule{Name: name, Code: code, Conn: true} }

// RFC 7540 5.4.1: "an endpoint MAY choose to treat a stream error as a connection error"
func streamRule(name string, code uint32) refRule {
	return refRule{Name: name, Code: code, Conn: true, Stream: true}
}

type refReader struct {
	maxRead    uint32
	contStream uint32 // != 0: a header block is open on this stream
}

type refStep struct {
	Kind     string // "frame", "eof", "io", "too-large", "error"
	Frame    *refFrame
	Rules    []refRule
	Optional string // non-empty: bfe is known to deliberately reject this RFC-legal frame (reason); either outcome is accepted
	LateIWS  bool   // SETTINGS whose only fault is a non-first INITIAL_WINDOW_SIZE > 2^31-1 (see c32_test.go)
	BadValue *refSetting
	End      int // offset after the frame
}

// next reads the frame starting at p[pos:].
func (r *refReader) next(p []byte, pos int) refStep {
	rest := p[pos:]
	if len(rest) == 0 {
		return refStep{Kind: "eof", End: pos}
	}
	if len(rest) < 9 {
		return refStep{Kind: "io", End: len(p)}
	}
	f := &refFrame{
		Length: uint32(rest[0])<<16 | uint32(rest[1])<<8 | uint32(rest[2]),
		Type:   rest[3],
		Flags:  rest[4],
		Stream: binary.BigEndian.Uint32(rest[5:9]) & 0x7fffffff,
	}
	if f.Length > r.maxRead {
		return refStep{Kind: "too-large", Frame: f, End: len(p)} // 4.2: FRAME_SIZE_ERROR; the framer documents ErrFrameTooLarge
	}
	if uint32(len(rest)-9) < f.Length {
		return refStep{Kind: "io", Frame: f, End: len(p)}
	}
	pl := rest[9 : 9+f.Length]
	st := refStep{Kind: "frame", Frame: f, End: pos + 9 + int(f.Length)}
	add := func(rl refRule) { st.Rules = append(st.Rules, rl) }

	// 6.10 / 6.2: a header block must not be interleaved with anything else
	if r.contStream != 0 {
		if f.Type != ftContinuation {
			add(connRule("non-continuation-inside-header-block", ecProtocol))
		} else if f.Stream != r.contStream {
			add(connRule("continuation-wrong-stream", ecProtocol))
		}
	} else if f.Type == ftContinuation {
		add(connRule("continuation-without-headers", ecProtocol))
	}

	// padding common to DATA, HEADERS, PUSH_PROMISE
	unpad := func(b []byte) (body []byte, pad int, ok bool) {
		if f.Flags&0x8 == 0 {
			return b, 0, true
		}
		if len(b) == 0 {
			add(refRule{Name: "padded-flag-without-pad-length", Any: true})
			return nil, 0, false
		}
		return b[1:], int(b[0]), true
	}

	switch f.Type {
	case ftData:
		if f.Stream == 0 {
			add(connRule("data-stream-0", ecProtocol))
		}
		if b, pad, ok := unpad(pl); ok {
			if pad > len(b) { // pad length >= frame payload length (which includes the pad length octet)
				add(connRule("data-pad-exceeds-payload", ecProtocol))
			} else {
				f.Body = b[:len(b)-pad]
			}
		}
	case ftHeaders:
		if f.Stream == 0 {
			add(connRule("headers-stream-0", ecProtocol))
		}
		if b, pad, ok := unpad(pl); ok {
			short := false
			if f.Flags&0x20 != 0 {
				if len(b) < 5 {
					add(refRule{Name: "headers-priority-truncated", Any: true})
					short = true
				} else {
					v := binary.BigEndian.Uint32(b[:4])
					f.HasPrio, f.Dep, f.Excl, f.Weight = true, v&0x7fffffff, v>>31 == 1, b[4]
					b = b[5:]
				}
			}
			if !short {
				if pad > len(b) {
					add(streamRule("headers-pad-exceeds-payload", ecProtocol))
				} else {
					f.Body = b[:len(b)-pad]
					if len(f.Body) == 0 {
						st.Optional = "HEADERS with empty header block fragment"
					}
				}
			}
		}
	case ftPriority:
		if f.Stream == 0 {
			add(connRule("priority-stream-0", ecProtocol))
		}
		if len(pl) != 5 {
			add(streamRule("priority-length", ecFrameSize))
		} else {
			v := binary.BigEndian.Uint32(pl[:4])
			f.HasPrio, f.Dep, f.Excl, f.Weight = true, v&0x7fffffff, v>>31 == 1, pl[4]
		}
	case ftRST:
		if f.Stream == 0 {
			add(connRule("rst-stream-0", ecProtocol))
		}
		if len(pl) != 4 {
			add(connRule("rst-length", ecFrameSize))
		} else {
			f.Code = binary.BigEndian.Uint32(pl)
		}
	case ftSettings:
		if f.Stream != 0 {
			add(connRule("settings-stream-nonzero", ecProtocol))
		}
		if f.Flags&0x1 != 0 && len(pl) != 0 {
			add(connRule("settings-ack-with-payload", ecFrameSize))
		}
		if len(pl)%6 != 0 {
			add(connRule("settings-length", ecFrameSize))
		} else {
			seenIWS := false
			for i := 0; i+6 <= len(pl); i += 6 {
				s := refSetting{binary.BigEndian.Uint16(pl[i:]), binary.BigEndian.Uint32(pl[i+2:])}
				f.Settings = append(f.Settings, s)
				if s.ID == 4 {
					if s.Val > 1<<31-1 && st.BadValue == nil {
						if seenIWS {
							st.LateIWS = true
						}
						add(connRule("settings-initial-window-too-large", ecFlowControl))
						bad := s
						st.BadValue = &bad
					}
					seenIWS = true
				}
			}
		}
	case ftPushPromise:
		if f.Stream == 0 {
			add(connRule("push-promise-stream-0", ecProtocol))
		}
		if b, pad, ok := unpad(pl); ok {
			if len(b) < 4 {
				add(refRule{Name: "push-promise-truncated", Any: true})
			} else {
				f.Promise = binary.BigEndian.Uint32(b[:4]) & 0x7fffffff
				b = b[4:]
				if pad > len(b) {
					add(connRule("push-promise-pad-exceeds-payload", ecProtocol))
				} else {
					f.Body = b[:len(b)-pad]
				}
			}
		}
	case ftPing:
		if f.Stream != 0 {
			add(connRule("ping-stream-nonzero", ecProtocol))
		}
		if len(pl) != 8 {
			add(connRule("ping-length", ecFrameSize))
		} else {
			f.Body = pl
		}
	case ftGoAway:
		if f.Stream != 0 {
			add(connRule("goaway-stream-nonzero", ecProtocol))
		}
		if len(pl) < 8 {
			add(connRule("goaway-length", ecFrameSize))
		} else {
			f.Last = binary.BigEndian.Uint32(pl[:4]) & 0x7fffffff
			f.Code = binary.BigEndian.Uint32(pl[4:8])
			f.Body = pl[8:]
		}
	case ftWindowUpdate:
		if len(pl) != 4 {
			add(connRule("window-update-length", ecFrameSize))
		} else {
			f.Incr = binary.BigEndian.Uint32(pl) & 0x7fffffff
			if f.Incr == 0 {
				if f.Stream == 0 {
					add(connRule("window-update-zero-connection", ecProtocol))
				} else {
					add(streamRule("window-update-zero-stream", ecProtocol))
				}
			}
		}
	case ftContinuation:
		if f.Stream == 0 {
			add(connRule("continuation-stream-0", ecProtocol))
		}
		f.Body = pl
	default:
		f.Body = pl // 4.1: unknown types are ignored, i.e. handed over as they are
	}
	return st
}

// accepted updates the header-block state after a frame the reader accepted.
func (r *refReader) accepted(f *refFrame) {
	if f.Type == ftHeaders || f.Type == ftContinuation {
		if f.Flags&0x4 != 0 {
			r.contStream = 0
		} else {
			r.contStream = f.Stream
		}
	}
}

// rawFrame serialises a frame header + payload; length < 0 means len(payload).
func rawFrame(typ, flags uint8, stream uint32, payload []byte, length int) []byte {
	if length < 0 {
		length = len(payload)
	}
	b := []byte{byte(length >> 16), byte(length >> 8), byte(length), typ, flags, byte(stream >> 24), byte(stream >> 16), byte(stream >> 8), byte(stream)}
	return append(b, payload...)
}

func be32(v uint32) []byte { return []byte{byte(v >> 24), byte(v >> 16), byte(v >> 8), byte(v)} }

package spdy

// Guarded probes for C39's allocation clause: frames whose declared sizes / counts could make a
// reader ask for gigabytes are read in a child process (this test binary re-executed) that first
// puts itself under an address-space limit. A child that dies with "out of memory" while reading a
// frame is the violation (reported by the parent through the usual finding keys), not an
// infrastructure problem.

import (
	"bytes"
	"encoding/hex"
	"encoding/json"
	"fmt"
	"os"
	"os/exec"
	"strings"
	"syscall"
	"testing"
	"time"

	"verif/harness/internal/ev"
)

const c39ChildLimitMB = 3072

// TestC39Child is the child side; it does nothing unless VERIF_C39_CHILD carries hex frames.
func TestC39Child(t *testing.T) {
	spec := os.Getenv("VERIF_C39_CHILD")
	if spec == "" {
		t.Skip("child side of the guarded C39 probes")
	}
	spdyDict()
	lim := uint64(c39ChildLimitMB) << 20
	if err := syscall.Setrlimit(syscall.RLIMIT_AS, &syscall.Rlimit{Cur: lim, Max: lim}); err != nil {
		fmt.Printf("C39CHILD NOLIMIT %v\n", err)
		return
	}
	for i, hx := range strings.Split(spec, ",") {
		a, err := hex.DecodeString(hx)
		if err != nil {
			continue
		}
		fmt.Printf("C39CHILD BEGIN %d\n", i)
		os.Stdout.Sync()
		res := c39Probe(a)
		b, _ := json.Marshal(res)
		fmt.Printf("C39CHILD END %d %s\n", i, b)
	}
}

// c39ChildProbes runs the probes in guarded children and applies the verdicts.
func c39ChildProbes(tb ev.TB, rec *ev.Rec, raws []c39Raw) {
	results := make([]*c39Res, len(raws))
	start := 0
	for start < len(raws) {
		var hx []string
		for _, r := range raws[start:] {
			hx = append(hx, hex.EncodeToString(r.A))
		}
		cmd := exec.Command(os.Args[0], "-test.run", "^TestC39Child$", "-test.count", "1", "-test.timeout", "120s")
		var env []string
		for _, e := range os.Environ() {
			if !strings.HasPrefix(e, "VERIF_EV_OUT=") && !strings.HasPrefix(e, "VERIF_REPLAY_DIR=") && !strings.HasPrefix(e, "VERIF_C39_CHILD=") {
				env = append(env, e)
			}
		}
		cmd.Env = append(env, "VERIF_C39_CHILD="+strings.Join(hx, ","), "GOTRACEBACK=none")
		var out bytes.Buffer
		cmd.Stdout, cmd.Stderr = &out, &out
		done := make(chan error, 1)
		if err := cmd.Start(); err != nil {
			tb.Fatalf("harness: cannot start the guarded child: %v", err)
		}
		go func() { done <- cmd.Wait() }()
		var werr error
		select {
		case werr = <-done:
		case <-time.After(150 * time.Second):
			cmd.Process.Kill()
			<-done
			tb.Fatalf("harness: guarded child timed out (inconclusive)")
		}
		text := out.String()
		if strings.Contains(text, "C39CHILD NOLIMIT") {
			tb.Fatalf("harness: the child could not set its address-space limit: %s", text)
		}
		begun := -1
		for _, l := range strings.Split(text, "\n") {
			var i int
			if n, _ := fmt.Sscanf(l, "C39CHILD BEGIN %d", &i); n == 1 {
				begun = i
			}
			if strings.HasPrefix(l, "C39CHILD END ") {
				rest := strings.TrimPrefix(l, "C39CHILD END ")
				sp := strings.IndexByte(rest, ' ')
				if sp < 0 {
					continue
				}
				fmt.Sscanf(rest[:sp], "%d", &i)
				var res c39Res
				if json.Unmarshal([]byte(rest[sp+1:]), &res) == nil && start+i < len(raws) {
					results[start+i] = &res
				}
			}
		}
		next := len(raws)
		if begun >= 0 && start+begun < len(raws) && results[start+begun] == nil {
			// the child died inside probe `begun`
			why := ""
			for _, l := range strings.Split(text, "\n") {
				if strings.Contains(l, "out of memory") || strings.Contains(l, "cannot allocate memory") || strings.Contains(l, "signal: killed") {
					why = strings.TrimSpace(l)
					break
				}
			}
			if why == "" && werr != nil && strings.Contains(werr.Error(), "killed") {
				why = werr.Error()
			}
			if why == "" {
				tb.Fatalf("harness: guarded child died for an unknown reason (%v) in probe %d:\n%s", werr, begun, tail(text, 2000))
			}
			results[start+begun] = &c39Res{Died: why}
			next = start + begun + 1
		} else if werr != nil && begun < 0 {
			tb.Fatalf("harness: guarded child failed before the first probe (%v):\n%s", werr, tail(text, 2000))
		}
		start = next
	}
	for i, r := range raws {
		if results[i] == nil {
			tb.Fatalf("harness: no result for guarded probe %d", i)
		}
		c39Verdict(tb, rec, r, *results[i])
	}
}

func tail(s string, n int) string {
	if len(s) > n {
		return s[len(s)-n:]
	}
	return s
}

// c39GuardedSweep: declared sizes and counts no frame of a few dozen bytes can justify.
func c39GuardedSweep(t *testing.T, rec *ev.Rec) {
	var raws []c39Raw
	// SETTINGS entry counts >= 2^29 whose low bits agree with the declared length (4+8*count wraps in 32 bits)
	for _, m := range []uint32{1, 2, 4, 7} {
		for _, k := range []uint32{0, 1, 2, 5} {
			body := u32(m<<29 | k)
			for i := uint32(0); i < k; i++ {
				body = append(body, u32(7, 65536)...)
			}
			raws = append(raws, c39Raw{A: ctlFrame(tSettings, 0, body), Class: "guarded-settings-count-wrap", Incons: true})
		}
	}
	// counts that do not wrap but are far beyond the frame
	for _, n := range []uint32{1 << 24, 1 << 28, 0x7fffffff, 0xffffffff} {
		raws = append(raws, c39Raw{A: ctlFrame(tSettings, 0, u32(n, 7, 1)), Class: "guarded-settings-count-huge", Incons: true})
	}
	// header blocks: name / value length prefixes and pair counts up to 4 GB
	for _, typ := range []uint16{tSynStream, tSynReply, tHeaders} {
		pl := headerPrefixLen(typ)
		mk := func(raw []byte) []byte {
			return ctlFrame(typ, 0, append(append(u32(1, 0), 0, 0)[:pl], newRefDeflater().block(raw)...))
		}
		for _, over := range []uint32{1 << 27, 0x7fffffff, 0xffffffff} {
			raws = append(raws, c39Raw{A: mk(append(u32(1, over), 'a')), Class: "guarded-length-prefix", Incons: true})
			raws = append(raws, c39Raw{A: mk(append(append(u32(1, 1), 'a'), u32(over)...)), Class: "guarded-length-prefix", Incons: true})
			raws = append(raws, c39Raw{A: mk(u32(over)), Class: "guarded-pair-count", Incons: true, KeyHint: "pair-count"})
		}
	}
	c39ChildProbes(t, rec, raws)
}

package spdy

// Independent SPDY/3 wire reference used by the C39/C40 checks: written from
// the SPDY/3 draft (frame layouts, name/value header block, zlib with the
// protocol dictionary and one sync flush per frame). It shares no code with
// bfe_spdy; only the dictionary constant is obtained through the shim and is
// verified against the dictionary id given in the spec.

import (
	"bytes"
	"compress/zlib"
	"encoding/binary"
	"fmt"
	"hash/adler32"
	"io"
	"strings"
	"sync"

	"github.com/bfenetworks/bfe/bfe_spdy"
)

const (
	tSynStream    = 1
	tSynReply     = 2
	tRstStream    = 3
	tSettings     = 4
	tPing         = 6
	tGoAway       = 7
	tHeaders      = 8
	tWindowUpdate = 9

	spdyDictID = 0xe3c6a7c2 // adler32 of the SPDY/3 dictionary (spec value)
)

var (
	dictOnce sync.Once
	dictVal  []byte
)

func spdyDict() []byte {
	dictOnce.Do(func() {
		dictVal = bfe_spdy.VerifHeaderDictionary()
		if adler32.Checksum(dictVal) != spdyDictID {
			panic("harness: SPDY dictionary does not match the spec's dictionary id")
		}
	})
	return dictVal
}

// ---- compression contexts ----

// refDeflater is an independent sender-side header compression context.
type refDeflater struct {
	buf bytes.Buffer
	zw  *zlib.Writer
}

func newRefDeflater() *refDeflater {
	d := &refDeflater{}
	zw, err := zlib.NewWriterLevelDict(&d.buf, zlib.BestCompression, spdyDict())
	if err != nil {
		panic(err)
	}
	d.zw = zw
	return d
}

// block compresses raw as one header block ending in a sync flush.
func (d *refDeflater) block(raw []byte) []byte {
	d.zw.Write(raw)
	d.zw.Flush()
	out := append([]byte(nil), d.buf.Bytes()...)
	d.buf.Reset()
	return out
}

// refInflater is an independent receiver-side header compression context.
// It keeps every compressed block of the connection and re-inflates the whole
// history for each frame, so that it sees exactly the bytes a frame's block
// decompresses to (no read-ahead questions, no sticky decoder state).
type refInflater struct {
	all     []byte
	prevOut int
}

// frameBlock returns the decompressed bytes contributed by this frame's block.
func (u *refInflater) frameBlock(comp []byte) []byte {
	u.all = append(u.all, comp...)
	out := inflateBytes(u.all, 256<<20)
	if len(out) < u.prevOut {
		return nil
	}
	raw := out[u.prevOut:]
	u.prevOut = len(out)
	return raw
}

// inflateBytes returns what a fresh context gets out of comp (at most limit bytes).
func inflateBytes(comp []byte, limit int) []byte {
	zr, err := zlib.NewReaderDict(bytes.NewReader(comp), spdyDict())
	if err != nil {
		return nil
	}
	var out bytes.Buffer
	io.CopyN(&out, zr, int64(limit))
	return out.Bytes()
}

// ---- header blocks ----

type refPair struct{ name, value string }

// rawBlock serialises pairs as a SPDY/3 name/value block.
func rawBlock(pairs []refPair) []byte {
	var b bytes.Buffer
	binary.Write(&b, binary.BigEndian, uint32(len(pairs)))
	for _, p := range pairs {
		binary.Write(&b, binary.BigEndian, uint32(len(p.name)))
		b.WriteString(p.name)
		binary.Write(&b, binary.BigEndian, uint32(len(p.value)))
		b.WriteString(p.value)
	}
	return b.Bytes()
}

// parseBlock parses a decompressed name/value block strictly: every declared
// length must be present and nothing may be left over.
func parseBlock(raw []byte) ([]refPair, error) {
	if len(raw) < 4 {
		return nil, fmt.Errorf("block of %d bytes has no pair count", len(raw))
	}
	n := binary.BigEndian.Uint32(raw)
	raw = raw[4:]
	var pairs []refPair
	rd := func(what string) (string, error) {
		if len(raw) < 4 {
			return "", fmt.Errorf("%s length prefix missing (%d bytes left)", what, len(raw))
		}
		l := binary.BigEndian.Uint32(raw)
		raw = raw[4:]
		if uint64(l) > uint64(len(raw)) {
			return "", fmt.Errorf("%s declares %d bytes but only %d remain in the block", what, l, len(raw))
		}
		s := string(raw[:l])
		raw = raw[l:]
		return s, nil
	}
	for i := uint32(0); i < n; i++ {
		name, err := rd("name")
		if err != nil {
			return pairs, err
		}
		val, err := rd("value")
		if err != nil {
			return pairs, err
		}
		pairs = append(pairs, refPair{name, val})
	}
	if len(raw) != 0 {
		return pairs, fmt.Errorf("%d bytes left in the block after the %d declared pairs", len(raw), n)
	}
	return pairs, nil
}

// ---- frames ----

type refFrame struct {
	control bool
	version uint16
	typ     uint16
	flags   uint8
	stream  uint32 // data frames
	payload []byte
}

// refSplit cuts the first frame off b using only the common 8-byte header.
func refSplit(b []byte) (f refFrame, rest []byte, err error) {
	if len(b) < 8 {
		return f, nil, fmt.Errorf("short frame header: %d bytes", len(b))
	}
	w0 := binary.BigEndian.Uint32(b[0:4])
	w1 := binary.BigEndian.Uint32(b[4:8])
	length := int(w1 & 0xffffff)
	f.flags = uint8(w1 >> 24)
	if w0&0x80000000 != 0 {
		f.control = true
		f.version = uint16(w0 >> 16 & 0x7fff)
		f.typ = uint16(w0)
	} else {
		f.stream = w0
	}
	if len(b)-8 < length {
		return f, nil, fmt.Errorf("declared length %d but %d bytes follow", length, len(b)-8)
	}
	f.payload = b[8 : 8+length]
	return f, b[8+length:], nil
}

func ctlFrame(typ uint16, flags uint8, payload []byte) []byte {
	b := make([]byte, 8, 8+len(payload))
	binary.BigEndian.PutUint16(b[0:], 0x8000|3)
	binary.BigEndian.PutUint16(b[2:], typ)
	binary.BigEndian.PutUint32(b[4:], uint32(flags)<<24|uint32(len(payload))&0xffffff)
	return append(b, payload...)
}

func dataFrame(stream uint32, flags uint8, data []byte) []byte {
	b := make([]byte, 8, 8+len(data))
	binary.BigEndian.PutUint32(b[0:], stream&0x7fffffff)
	binary.BigEndian.PutUint32(b[4:], uint32(flags)<<24|uint32(len(data))&0xffffff)
	return append(b, data...)
}

func u32(vs ...uint32) []byte {
	b := make([]byte, 4*len(vs))
	for i, v := range vs {
		binary.BigEndian.PutUint32(b[4*i:], v)
	}
	return b
}

func headerPrefixLen(typ uint16) int {
	switch typ {
	case tSynStream:
		return 10
	case tSynReply, tHeaders:
		return 4
	}
	return -1
}

// refMaxDeclared walks a header-bearing frame the way any SPDY/3 reader must
// (first frame of a fresh context) and returns the largest name/value length
// prefix it meets before the block ends or becomes inconsistent, and which
// kind of prefix ("name"/"value") declares more bytes than the block holds.
func refMaxDeclared(stream []byte) (uint32, string) {
	f, _, err := refSplit(stream)
	if err != nil || !f.control {
		return 0, ""
	}
	pl := headerPrefixLen(f.typ)
	if pl < 0 {
		return 0, ""
	}
	if len(f.payload) < pl {
		// length smaller than the fixed prefix: a reader may run into the following bytes
		if len(stream) >= 8+pl {
			return refWalkMax(stream[8+pl:])
		}
		return 0, ""
	}
	return refWalkMax(f.payload[pl:])
}

func refWalkMax(comp []byte) (max uint32, over string) {
	raw := inflateBytes(comp, 16<<20)
	if len(raw) < 4 {
		return 0, ""
	}
	n := binary.BigEndian.Uint32(raw)
	raw = raw[4:]
	if n > 1024 {
		return 0, ""
	}
	for i := uint32(0); i < 2*n; i++ {
		if len(raw) < 4 {
			return
		}
		l := binary.BigEndian.Uint32(raw)
		raw = raw[4:]
		if l > max {
			max = l
		}
		if uint64(l) > uint64(len(raw)) {
			over = "name"
			if i%2 == 1 {
				over = "value"
			}
			return
		}
		raw = raw[l:]
	}
	return
}

// inflateAll returns how many bytes a fresh context can get out of comp
// (at most limit) and how many of them are NUL.
func inflateAll(comp []byte, limit int) (n int, nul int) {
	raw := inflateBytes(comp, limit)
	return len(raw), bytes.Count(raw, []byte{0})
}

func asciiLower(s string) string {
	b := []byte(s)
	for i, c := range b {
		if 'A' <= c && c <= 'Z' {
			b[i] = c + 'a' - 'A'
		}
	}
	return string(b)
}

func isASCII(s string) bool {
	for i := 0; i < len(s); i++ {
		if s[i] >= 0x80 {
			return false
		}
	}
	return true
}

// acceptableWireNames lists the encodings of a header name a lower-casing
// SPDY writer may put on the wire: ASCII-only folding, or full Unicode
// lower-casing (what bfe documents by calling strings.ToLower).
func acceptableWireNames(name string) []string {
	a := asciiLower(name)
	u := strings.ToLower(name)
	if a == u {
		return []string{a}
	}
	return []string{a, u}
}

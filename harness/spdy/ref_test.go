package spdy

// Independent SPDY/3 wire reference used by the C39/C40 checks: written from
// the SPDY/3 draft (frame layouts, name/value header block, zlib with the
// protocol dictionary and one sync flush per frame). It shares no code with
// bfe_spdy; only the dictionary constant is obtained through the shim and is
// verified against the dictionary id given in the spec.

import (
	"bytes"
	"compress/zlib"
	"encoding/binary"
	"errors"
	"fmt"
	"hash/adler32"
	"io"
	"strings"
	"sync"

	"github.com/bfenetworks/bfe/bfe_spdy"
)

const (
	tSynStream    = 1
	tSynReply     = 2
	tRstStream    = 3
	tSettings     = 4
	tPing         = 6
	tGoAway       = 7
	tHeaders      = 8
	tWindowUpdate = 9

	spdyDictID = 0xe3c6a7c2 // adler32 of the SPDY/3 dictionary (spec value)
)

var (
	dictOnce sync.Once
	dictVal  []byte
)

func spdyDict() []byte {
	dictOnce.Do(func() {
		dictVal = bfe_spdy.VerifHeaderDictionary()
		if adler32.Checksum(dictVal) != spdyDictID {
			panic("harness: SPDY dictionary does not match the spec's dictionary id")
		}
	})
	return dictVal
}

// ---- compression contexts ----

// refDeflater is an independent sender-side header compression context.
type refDeflater struct {
	buf bytes.Buffer
	zw  *zlib.Writer
}

func newRefDeflater() *refDeflater {
	d := &refDeflater{}
	zw, err := zlib.NewWriterLevelDict(&d.buf, zlib.BestCompression, spdyDict())
	if err != nil {
		panic(err)
	}
	d.zw = zw
	return d
}

// block compresses raw as one header block ending in a sync flush.
func (d *refDeflater) block(raw []byte) []byte {
	d.zw.Write(raw)
	d.zw.Flush()
	out := append([]byte(nil), d.buf.Bytes()...)
	d.buf.Reset()
	return out
}

// refInflater is an independent receiver-side header compression context. It
// never reads past the bytes it was fed for the current frame unless the
// caller asks for more than the block contains (then the context is dead,
// exactly as on a real connection).
type refInflater struct {
	feed bytes.Buffer
	zr   io.ReadCloser
	dead error
}

func (u *refInflater) add(comp []byte) { u.feed.Write(comp) }

func (u *refInflater) read(p []byte) error {
	if u.dead != nil {
		return u.dead
	}
	if u.zr == nil {
		zr, err := zlib.NewReaderDict(&u.feed, spdyDict())
		if err != nil {
			u.dead = err
			return err
		}
		u.zr = zr
	}
	if _, err := io.ReadFull(u.zr, p); err != nil {
		u.dead = err
		return err
	}
	return nil
}

// inflateAll returns how many bytes a fresh context can get out of comp
// (at most limit) and how many of them are NUL.
func inflateAll(comp []byte, limit int) (n int, nul int) {
	zr, err := zlib.NewReaderDict(bytes.NewReader(comp), spdyDict())
	if err != nil {
		return 0, 0
	}
	buf := make([]byte, 32<<10)
	for n < limit {
		k, err := zr.Read(buf)
		n += k
		nul += bytes.Count(buf[:k], []byte{0})
		if err != nil || k == 0 {
			break
		}
	}
	return
}

// ---- header blocks ----

type refPair struct{ name, value string }

// rawBlock serialises pairs as a SPDY/3 name/value block.
func rawBlock(pairs []refPair) []byte {
	var b bytes.Buffer
	binary.Write(&b, binary.BigEndian, uint32(len(pairs)))
	for _, p := range pairs {
		binary.Write(&b, binary.BigEndian, uint32(len(p.name)))
		b.WriteString(p.name)
		binary.Write(&b, binary.BigEndian, uint32(len(p.value)))
		b.WriteString(p.value)
	}
	return b.Bytes()
}

var errRefOver = errors.New("declared length exceeds reference cap")

const refCap = 8 << 20

// readBlock parses one name/value block from the context. A declared length
// that the block does not contain yields an error (and kills the context).
func (u *refInflater) readBlock() ([]refPair, error) {
	var w [4]byte
	if err := u.read(w[:]); err != nil {
		return nil, fmt.Errorf("pair count: %w", err)
	}
	n := binary.BigEndian.Uint32(w[:])
	if n > 1<<16 {
		return nil, fmt.Errorf("pair count %d", n)
	}
	var pairs []refPair
	rd := func(what string) (string, error) {
		if err := u.read(w[:]); err != nil {
			return "", fmt.Errorf("%s length: %w", what, err)
		}
		l := binary.BigEndian.Uint32(w[:])
		if l > refCap {
			u.dead = errRefOver
			return "", fmt.Errorf("%s length %d: %w", what, l, errRefOver)
		}
		b := make([]byte, l)
		if err := u.read(b); err != nil {
			return "", fmt.Errorf("%s of declared length %d: %w", what, l, err)
		}
		return string(b), nil
	}
	for i := uint32(0); i < n; i++ {
		name, err := rd("name")
		if err != nil {
			return pairs, err
		}
		val, err := rd("value")
		if err != nil {
			return pairs, err
		}
		pairs = append(pairs, refPair{name, val})
	}
	return pairs, nil
}

// ---- frames ----

type refFrame struct {
	control bool
	version uint16
	typ     uint16
	flags   uint8
	stream  uint32 // data frames
	payload []byte
}

// refSplit cuts the first frame off b using only the common 8-byte header.
func refSplit(b []byte) (f refFrame, rest []byte, err error) {
	if len(b) < 8 {
		return f, nil, fmt.Errorf("short frame header: %d bytes", len(b))
	}
	w0 := binary.BigEndian.Uint32(b[0:4])
	w1 := binary.BigEndian.Uint32(b[4:8])
	length := int(w1 & 0xffffff)
	f.flags = uint8(w1 >> 24)
	if w0&0x80000000 != 0 {
		f.control = true
		f.version = uint16(w0 >> 16 & 0x7fff)
		f.typ = uint16(w0)
	} else {
		f.stream = w0
	}
	if len(b)-8 < length {
		return f, nil, fmt.Errorf("declared length %d but %d bytes follow", length, len(b)-8)
	}
	f.payload = b[8 : 8+length]
	return f, b[8+length:], nil
}

func ctlFrame(typ uint16, flags uint8, payload []byte) []byte {
	b := make([]byte, 8, 8+len(payload))
	binary.BigEndian.PutUint16(b[0:], 0x8000|3)
	binary.BigEndian.PutUint16(b[2:], typ)
	binary.BigEndian.PutUint32(b[4:], uint32(flags)<<24|uint32(len(payload))&0xffffff)
	return append(b, payload...)
}

func dataFrame(stream uint32, flags uint8, data []byte) []byte {
	b := make([]byte, 8, 8+len(data))
	binary.BigEndian.PutUint32(b[0:], stream&0x7fffffff)
	binary.BigEndian.PutUint32(b[4:], uint32(flags)<<24|uint32(len(data))&0xffffff)
	return append(b, data...)
}

func u32(vs ...uint32) []byte {
	b := make([]byte, 4*len(vs))
	for i, v := range vs {
		binary.BigEndian.PutUint32(b[4*i:], v)
	}
	return b
}

func headerPrefixLen(typ uint16) int {
	switch typ {
	case tSynStream:
		return 10
	case tSynReply, tHeaders:
		return 4
	}
	return -1
}

// refMaxDeclared walks a header-bearing frame the way any SPDY/3 reader must
// (first frame of a fresh context) and returns the largest name/value length
// prefix it meets before the block ends or becomes inconsistent.
func refMaxDeclared(a []byte) uint32 {
	f, _, err := refSplit(a)
	if err != nil || !f.control {
		return 0
	}
	pl := headerPrefixLen(f.typ)
	if pl < 0 || len(f.payload) < pl {
		// length underflow: the reader may run into the following bytes
		if pl >= 0 && len(a) >= 8+pl {
			return refWalkMax(a[8+pl:])
		}
		return 0
	}
	return refWalkMax(f.payload[pl:])
}

func refWalkMax(comp []byte) (max uint32) {
	u := &refInflater{}
	u.add(comp)
	var w [4]byte
	if u.read(w[:]) != nil {
		return 0
	}
	n := binary.BigEndian.Uint32(w[:])
	if n > 1024 {
		return 0
	}
	for i := uint32(0); i < 2*n; i++ {
		if u.read(w[:]) != nil {
			return
		}
		l := binary.BigEndian.Uint32(w[:])
		if l > max {
			max = l
		}
		if l > 1<<20 {
			return
		}
		if u.read(make([]byte, l)) != nil {
			return
		}
	}
	return
}

func asciiLower(s string) string {
	b := []byte(s)
	for i, c := range b {
		if 'A' <= c && c <= 'Z' {
			b[i] = c + 'a' - 'A'
		}
	}
	return string(b)
}

func isASCII(s string) bool {
	for i := 0; i < len(s); i++ {
		if s[i] >= 0x80 {
			return false
		}
	}
	return true
}

// acceptableWireNames lists the encodings of a header name a lower-casing
// SPDY writer may put on the wire: ASCII-only folding, or full Unicode
// lower-casing (what bfe documents by calling strings.ToLower).
func acceptableWireNames(name string) []string {
	a := asciiLower(name)
	u := strings.ToLower(name)
	if a == u {
		return []string{a}
	}
	return []string{a, u}
}

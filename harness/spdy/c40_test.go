package spdy

// C40: the SPDY/3.1 server enforces stream and flow-control rules and never
// panics on any client frame sequence.
//
// A scripted client (bfe_spdy.Framer over one end of a net.Pipe) drives the
// real server connection (handleConn+serve through the shim). The handlers are
// puppets steered by the script (read k body bytes / write m bytes / return).
// The oracle is a client-side ledger written from the SPDY/3.1 draft
// (sections 2.3.2, 2.4.2, 2.6.8): nothing in it looks at server internals.
// PING round trips are the only synchronisation; wall-clock is used only as a
// watchdog whose expiry makes the case inconclusive, never a violation.

import (
	"bufio"
	"fmt"
	"io"
	"net"
	"strconv"
	"strings"
	"sync"
	"sync/atomic"
	"testing"
	"time"

	"github.com/baidu/go-lib/web-monitor/metrics"
	"github.com/bfenetworks/bfe/bfe_http"
	"github.com/bfenetworks/bfe/bfe_spdy"
	"pgregory.net/rapid"

	"verif/harness/internal/ev"
)

const c40Rule = "scripts of 4..40 client steps (SYN_STREAM with valid/even/lower/duplicate ids, DATA on open/half-closed/closed/never-opened streams with sizes around the stream and session windows, WINDOW_UPDATE, SETTINGS initial window changes, RST_STREAM, handler read/write/return commands) against one server connection, each step followed by PING barriers. non-trivial: at least one stream was opened and the script executed an overdraw, a DATA frame on a non-open stream, an invalid SYN_STREAM id, a handler write that had to stop at a window, or a SETTINGS change with a live stream. distinct by the executed step list"

const (
	c40Watchdog   = 30 * time.Second
	c40HardRounds = 6
	spdyInitWin   = 65536
)

// ---------- puppet handlers ----------

type c40Cmd struct {
	op string // read, write, finish
	n  int
}

type c40Ack struct {
	op   string
	data []byte
	n    int
	err  error
}

type c40Handler struct {
	sid    string
	cmds   chan c40Cmd
	acks   chan c40Ack
	exited chan struct{}
	wOff   int // bytes written so far (handler goroutine only)
	reading int32 // set (atomically) right before a body read is issued
}

func pat(sid uint32, off int, dir int) byte {
	return byte(off*31 + int(sid)*17 + (off >> 8) + dir*101)
}

func patBytes(sid uint32, off, n, dir int) []byte {
	b := make([]byte, n)
	for i := range b {
		b[i] = pat(sid, off+i, dir)
	}
	return b
}

type c40Rig struct {
	mu       sync.Mutex
	handlers map[string][]*c40Handler // by x-sid header
	started  chan *c40Handler
	// ConnState hook (public bfe_http.Server field, called on the serve loop): when armed, the next
	// StateIdle notification - issued from inside closeStream when the last open stream closes - parks
	// the serve loop until released, so that a handler read can be placed between "stream closed" and
	// "read notification processed".
	armed   bool
	inHook  chan struct{}
	release chan struct{}
}

func (r *c40Rig) connState(_ net.Conn, s bfe_http.ConnState) {
	if s != bfe_http.StateIdle {
		return
	}
	r.mu.Lock()
	armed := r.armed
	r.armed = false
	r.mu.Unlock()
	if !armed {
		return
	}
	r.inHook <- struct{}{}
	select {
	case <-r.release:
	case <-time.After(c40Watchdog):
	}
}

func (r *c40Rig) arm(on bool) {
	r.mu.Lock()
	r.armed = on
	r.mu.Unlock()
}

func (r *c40Rig) ServeHTTP(w bfe_http.ResponseWriter, req *bfe_http.Request) {
	h := &c40Handler{sid: req.Header.Get("X-Sid"), cmds: make(chan c40Cmd, 64), acks: make(chan c40Ack, 64), exited: make(chan struct{})}
	r.mu.Lock()
	r.handlers[h.sid] = append(r.handlers[h.sid], h)
	r.mu.Unlock()
	r.started <- h
	defer close(h.exited)
	sid64, _ := strconv.ParseUint(h.sid, 10, 32)
	sid := uint32(sid64)
	for c := range h.cmds {
		switch c.op {
		case "read":
			buf := make([]byte, c.n)
			atomic.StoreInt32(&h.reading, 1)
			n, err := io.ReadFull(req.Body, buf)
			h.acks <- c40Ack{op: "read", data: buf[:n], n: n, err: err}
		case "write":
			n, err := w.Write(patBytes(sid, h.wOff, c.n, 1))
			h.wOff += n
			if f, ok := w.(bfe_http.Flusher); ok && err == nil {
				f.Flush()
			}
			h.acks <- c40Ack{op: "write", n: n, err: err}
		case "closebody":
			err := req.Body.Close()
			h.acks <- c40Ack{op: "closebody", err: err}
		case "finish":
			return
		}
	}
}

func (r *c40Rig) count(sid string) int {
	r.mu.Lock()
	defer r.mu.Unlock()
	return len(r.handlers[sid])
}

// ---------- client side ----------

type c40Rx struct {
	f   bfe_spdy.Frame
	err error
}

type c40Stream struct {
	id         uint32
	h          *c40Handler
	clientFin  bool
	closed     bool  // closed as far as the client can know (RST either way, or both FINs)
	serverFin  bool
	sent       int64 // accepted DATA bytes
	buffered   int   // accepted, not yet read by the handler
	consumed   int64 // read by the handler
	credit     int64 // stream-level WINDOW_UPDATE credits received
	creditOpt  int64 // credits the server may or may not send (reads after the client's FIN)
	creditWant int64 // credits the server must send
	recvWin    int64 // server's advertised window as the client sees it
	sendWin    int64 // what the server may still send on this stream
	commanded  int64 // bytes the handler was told to write
	received   int64 // DATA bytes received
	busy       bool  // handler inside an asynchronous write
	wantRst    bool  // the server must reset this stream
	gotRst     bool
	mayRst     bool // RST from the server is legitimate (CANCEL after handler return, duplicate SYN)
	finishing  bool
	bodyClosed bool   // the handler closed the request body while the stream is open
	overLim    string // which window the pending overdraw exceeded ("stream"/"session")
	refused    bool  // SYN_STREAM was a bad request (3.2.1): the id is used up, no handler is expected
	tainted    bool  // outcome of an earlier step on this stream is not fixed by the property: no further verdicts on it
	declCL     int64 // declared Content-Length, -1 if none
}

type c40Case struct {
	tb      ev.TB
	rec     *ev.Rec
	rig     *c40Rig
	cc      net.Conn
	bw      *bufio.Writer
	fr      *bfe_spdy.Framer
	rx      chan c40Rx
	done    chan struct{}
	steps   []string
	failed  bool
	incon   string
	dead    bool // connection gone / GOAWAY seen
	goAway  bool
	wantEnd bool // GOAWAY or close is a legitimate reaction from now on

	streams   map[uint32]*c40Stream
	order     []uint32
	maxID     uint32
	pingID    uint32
	cliInit   int64 // SETTINGS_INITIAL_WINDOW_SIZE the client announced (server's send window for new streams)
	advInit   int64 // initial window advertised by the server
	sessRecv  int64
	sessSend  int64
	sessCred  int64
	consumed  int64
	unknownRstWant map[uint32]bool
	badSyn    []string // x-sid values of SYN_STREAMs that must not reach a handler
	flags     map[string]bool
	leak      int64
	sessSlack int64 // bytes of which the client cannot know whether the session window was charged (see content-length mismatch)
	mayEnd    bool // this step may legitimately be answered by GOAWAY/close (not required)
	negInc    bool // this step raised a window that the client had driven negative (legal, 2.6.8)
}

func (c *c40Case) witness() map[string]any {
	return map[string]any{"steps": append([]string(nil), c.steps...)}
}

func (c *c40Case) fail(key, format string, a ...any) {
	if c.failed {
		return
	}
	c.failed = true
	c.rec.Fail(c.tb, key, c.witness(), "after steps %v: "+format, append([]any{c.steps}, a...)...)
}

func (c *c40Case) inconclusive(why string) {
	if c.incon == "" {
		c.incon = why
	}
}

func (c *c40Case) stop() bool { return c.failed || c.incon != "" || c.dead }

func (c *c40Case) write(f bfe_spdy.Frame) {
	if c.stop() {
		return
	}
	c.cc.SetWriteDeadline(time.Now().Add(c40Watchdog))
	err := c.fr.WriteFrame(f)
	if err == nil {
		err = c.bw.Flush()
	}
	if err != nil {
		if ne, ok := err.(net.Error); ok && ne.Timeout() {
			c.inconclusive("client write watchdog")
			return
		}
		// the server closed the connection
		c.connGone(err)
	}
}

func (c *c40Case) connGone(err error) {
	if c.dead {
		return
	}
	c.dead = true
	if !c.wantEnd && !c.mayEnd {
		key := "unexpected-close"
		if c.negInc {
			// the server ends the session 250 ms after queueing its GOAWAY; under load the close can
			// overtake the GOAWAY frame, so the status is not always observable
			key = "window-change-rejected-on-negative-window"
		}
		c.fail(key, "the server closed the connection (%v) although every frame sent so far was legal", err)
	}
}

// handle applies one frame received from the server to the ledger.
func (c *c40Case) handle(f bfe_spdy.Frame) {
	switch f := f.(type) {
	case *bfe_spdy.SettingsFrame:
		for _, s := range f.FlagIdValues {
			if s.Id == bfe_spdy.SettingsInitialWindowSize {
				c.advInit = int64(s.Value)
			}
		}
	case *bfe_spdy.PingFrame:
		// matched by the caller
	case *bfe_spdy.WindowUpdateFrame:
		d := int64(f.DeltaWindowSize)
		if f.StreamId == 0 {
			c.sessCred += d
			c.sessRecv += d
			if c.sessCred > c.consumed {
				c.fail("session-over-credit", "session WINDOW_UPDATE credits total %d but the handlers consumed only %d bytes", c.sessCred, c.consumed)
			}
			return
		}
		st := c.streams[uint32(f.StreamId)]
		if st == nil {
			c.fail("credit-unknown-stream", "WINDOW_UPDATE(%d) for stream %d which was never opened", d, f.StreamId)
			return
		}
		st.credit += d
		st.recvWin += d
		if st.credit > st.creditWant+st.creditOpt {
			c.fail("stream-over-credit", "stream %d WINDOW_UPDATE credits total %d but only %d bytes were consumed from it", st.id, st.credit, st.creditWant+st.creditOpt)
		}
	case *bfe_spdy.SynReplyFrame:
		st := c.streams[uint32(f.StreamId)]
		if st != nil && st.refused {
			return // an error reply (3.2.1 wants a 400) is as good as the reset bfe sends
		}
		if st == nil || st.h == nil {
			c.fail("reply-unknown-stream", "SYN_REPLY for stream %d which has no handler", f.StreamId)
			return
		}
		if f.CFHeader.Flags&bfe_spdy.ControlFlagFin != 0 {
			c.serverFin(st)
		}
	case *bfe_spdy.DataFrame:
		st := c.streams[uint32(f.StreamId)]
		if st != nil && st.refused {
			n := int64(len(f.Data))
			if n > c.sessSend {
				c.fail("send-over-session-window", "server sent DATA of %d bytes on stream %d but the session window the client granted has only %d left", n, st.id, c.sessSend)
			}
			c.sessSend -= n
			return
		}
		if st == nil || st.h == nil {
			c.fail("data-unknown-stream", "DATA(%d bytes) for stream %d which has no handler", len(f.Data), f.StreamId)
			return
		}
		n := int64(len(f.Data))
		if n > 0 {
			if n > c.sessSend {
				c.fail("send-over-session-window", "server sent DATA of %d bytes on stream %d but the session window the client granted has only %d left", n, st.id, c.sessSend)
				return
			}
			if !st.closed && n > st.sendWin {
				c.fail("send-over-stream-window", "server sent DATA of %d bytes on stream %d but the stream window the client granted has only %d left", n, st.id, st.sendWin)
				return
			}
			if st.received+n > st.commanded {
				c.fail("data-beyond-written", "stream %d: %d bytes received but the handler wrote only %d", st.id, st.received+n, st.commanded)
				return
			}
			want := patBytes(st.id, int(st.received), int(n), 1)
			if string(want) != string(f.Data) {
				c.fail("data-corrupt", "stream %d: DATA at offset %d differs from what the handler wrote", st.id, st.received)
				return
			}
			st.received += n
			st.sendWin -= n
			c.sessSend -= n
		}
		if f.Flags&bfe_spdy.DataFlagFin != 0 {
			c.serverFin(st)
		}
	case *bfe_spdy.RstStreamFrame:
		id := uint32(f.StreamId)
		if c.unknownRstWant[id] {
			delete(c.unknownRstWant, id)
			return
		}
		st := c.streams[id]
		if st == nil {
			c.fail("rst-unknown-stream", "RST_STREAM(status %d) for stream %d which the client never used", f.Status, id)
			return
		}
		if st.wantRst {
			st.wantRst = false
			st.gotRst = true
			c.closeStream(st)
			return
		}
		if st.mayRst || st.closed || st.tainted {
			st.gotRst = true
			c.closeStream(st)
			return
		}
		key := "unexpected-rst"
		if c.negInc && f.Status == bfe_spdy.FlowControlError {
			key = "window-change-rejected-on-negative-window"
		}
		c.fail(key, "server reset stream %d with status %d although the client obeyed every stream and window rule on it (clientFin=%v sent=%d recvWin=%d sessRecv=%d sendWin=%d)",
			id, f.Status, st.clientFin, st.sent, st.recvWin, c.sessRecv, st.sendWin)
	case *bfe_spdy.GoAwayFrame:
		c.goAway = true
		if !c.wantEnd && !c.mayEnd {
			key := "unexpected-goaway"
			if c.negInc && f.Status == bfe_spdy.GoAwayStatus(bfe_spdy.FlowControlError) {
				key = "window-change-rejected-on-negative-window"
			}
			c.fail(key, "GOAWAY(status %d) although every frame sent so far was legal", f.Status)
		}
		c.dead = true
	default:
		c.fail("unexpected-frame", "server sent a %T", f)
	}
}

func (c *c40Case) serverFin(st *c40Stream) {
	st.serverFin = true
	if st.clientFin {
		c.closeStream(st)
	}
}

func (c *c40Case) closeStream(st *c40Stream) {
	if !st.closed {
		st.closed = true
		c.leak += int64(st.buffered)
		st.buffered = 0
	}
}

// next waits for one frame from the server.
func (c *c40Case) next(t *time.Timer) bool {
	select {
	case rx := <-c.rx:
		if rx.err != nil {
			c.connGone(rx.err)
			return false
		}
		c.handle(rx.f)
		if pf, ok := rx.f.(*bfe_spdy.PingFrame); ok && pf.Id == c.pingID {
			return false
		}
		return !c.failed && !c.dead
	case <-t.C:
		c.inconclusive("watchdog waiting for the PING reply")
		return false
	}
}

// round is one PING round trip: every frame the server queued before it
// processed the PING on its connection-level queue has arrived when it returns.
func (c *c40Case) round() {
	if c.stop() {
		return
	}
	c.pingID += 2
	c.write(&bfe_spdy.PingFrame{Id: c.pingID})
	if c.stop() {
		return
	}
	t := time.NewTimer(c40Watchdog)
	defer t.Stop()
	for c.next(t) {
	}
}

// settleHard runs rounds until cond holds; it must hold within c40HardRounds rounds.
func (c *c40Case) settleHard(cond func() bool, key, format string, a ...any) {
	for i := 0; i < c40HardRounds; i++ {
		c.round()
		if c.stop() || cond() {
			return
		}
	}
	c.fail(key, format, a...)
}

// settleSoft runs rounds until cond holds; giving up is inconclusive (liveness is not part of the property).
func (c *c40Case) settleSoft(cond func() bool, what string) {
	deadline := time.Now().Add(c40Watchdog)
	for i := 0; ; i++ {
		if c.stop() || cond() {
			return
		}
		c.round()
		if time.Now().After(deadline) {
			c.inconclusive("watchdog: " + what)
			return
		}
		if i > 20 {
			time.Sleep(time.Millisecond) // let handler goroutines run; not a correctness signal
		}
	}
}

func (c *c40Case) waitAck(h *c40Handler, op string) (c40Ack, bool) {
	select {
	case a := <-h.acks:
		if a.op != op {
			c.inconclusive("harness: ack " + a.op + " while waiting for " + op)
			return a, false
		}
		return a, true
	case <-time.After(c40Watchdog):
		c.inconclusive("watchdog waiting for handler " + op)
		return c40Ack{}, false
	}
}

// writesQuiescent: every busy handler either got all its bytes through or is stopped by a window.
func (c *c40Case) writesQuiescent() bool {
	for _, id := range c.order {
		st := c.streams[id]
		if !st.busy || st.closed || st.tainted {
			continue
		}
		if st.received < st.commanded && st.sendWin > 0 && c.sessSend > 0 {
			return false
		}
	}
	return true
}

// reapWrites collects the acks of writes that are complete (all bytes arrived or stream closed).
func (c *c40Case) reapWrites() {
	for _, id := range c.order {
		st := c.streams[id]
		if st.busy && (st.closed || st.received >= st.commanded) {
			if _, ok := c.waitAck(st.h, "write"); !ok {
				return
			}
			st.busy = false
		} else if st.busy {
			c.flags["write-blocked-by-window"] = true
		}
	}
}

func (c *c40Case) creditsSettled() bool {
	if c.sessCred != c.consumed {
		return false
	}
	for _, id := range c.order {
		st := c.streams[id]
		if !st.closed && st.credit < st.creditWant {
			return false
		}
	}
	return true
}

func (c *c40Case) rstsSettled() bool {
	if len(c.unknownRstWant) > 0 {
		return false
	}
	for _, id := range c.order {
		if c.streams[id].wantRst {
			return false
		}
	}
	return true
}

// barrier after every step.
func (c *c40Case) barrier() {
	for i := 0; ; i++ {
		c.round()
		if c.stop() || (c.rstsSettled() && c.creditsSettled()) {
			break
		}
		if i+1 >= c40HardRounds {
			key := "reaction-missing"
			for _, id := range c.order {
				if st := c.streams[id]; st.wantRst && st.overLim != "" {
					// DATA beyond the advertised window was not refused
					key = st.overLim + "-window-overdraw-accepted"
				}
			}
			c.fail(key, "after %d PING round trips the server still owes: %s", c40HardRounds, c.owed())
			break
		}
	}
	if c.stop() {
		return
	}
	c.settleSoft(c.writesQuiescent, "handler writes neither complete nor window-blocked")
	if c.stop() {
		return
	}
	c.reapWrites()
}

func (c *c40Case) owed() string {
	var o []string
	if c.sessCred != c.consumed {
		o = append(o, fmt.Sprintf("session WINDOW_UPDATE credits %d for %d consumed bytes", c.sessCred, c.consumed))
	}
	for id := range c.unknownRstWant {
		o = append(o, fmt.Sprintf("RST_STREAM for DATA on never-opened stream %d", id))
	}
	for _, id := range c.order {
		st := c.streams[id]
		if st.wantRst {
			o = append(o, fmt.Sprintf("RST_STREAM for stream %d", id))
		}
		if !st.closed && st.credit < st.creditWant {
			o = append(o, fmt.Sprintf("stream %d WINDOW_UPDATE credits %d for %d consumed bytes", id, st.credit, st.creditWant))
		}
	}
	return strings.Join(o, "; ")
}

// ---------- script steps ----------

type c40Step struct {
	Op         string
	A, B, C, D int
}

func (c *c40Case) pick(sel int, pred func(*c40Stream) bool) *c40Stream {
	var cand []*c40Stream
	for _, id := range c.order {
		if st := c.streams[id]; pred(st) {
			cand = append(cand, st)
		}
	}
	if len(cand) == 0 {
		return nil
	}
	return cand[sel%len(cand)]
}

func (c *c40Case) log(format string, a ...any) { c.steps = append(c.steps, fmt.Sprintf(format, a...)) }

func (c *c40Case) synFrame(id uint32, sidTag string, fin bool, cl ...int64) *bfe_spdy.SynStreamFrame {
	f := &bfe_spdy.SynStreamFrame{StreamId: bfe_spdy.StreamId(id), Headers: bfe_http.Header{}}
	method := "POST"
	if fin {
		method = "GET"
		f.CFHeader.Flags = bfe_spdy.ControlFlagFin
	}
	f.Headers.Set(":method", method)
	f.Headers.Set(":path", "/s"+sidTag)
	f.Headers.Set(":version", "HTTP/1.1")
	f.Headers.Set(":host", "c40.example")
	f.Headers.Set(":scheme", "http")
	f.Headers.Set("x-sid", sidTag)
	if len(cl) > 0 && cl[0] >= 0 {
		f.Headers.Set("content-length", strconv.FormatInt(cl[0], 10))
	}
	return f
}

func (c *c40Case) stepSyn(s c40Step) {
	kind := "valid"
	switch {
	case s.A == 9:
		kind = "even"
	case s.A == 8:
		kind = "lower"
	case s.A == 7:
		kind = "duplicate"
	case s.A == 6:
		kind = "refused"
	}
	fin := s.B%4 == 0
	switch kind {
	case "refused":
		// a SYN_STREAM with a valid id that is a bad request (3.2.1). Whatever the answer (bfe resets the
		// stream), the id has been used: ids below it stay invalid, it cannot be opened again, and frames
		// for it are frames for a closed stream.
		id := c.maxID + 2
		if c.maxID == 0 {
			id = 1
		}
		id += uint32(2 * (s.C % 3))
		variant := []string{"no-method", "head-with-body", "bad-scheme", "no-host", "no-path"}[s.D%5]
		tag := fmt.Sprintf("refused-%d", id)
		c.log("SYN-refused(%d %s)", id, variant)
		c.flags["refused-syn"] = true
		st := &c40Stream{id: id, closed: true, clientFin: true, refused: true, tainted: true, mayRst: true, declCL: -1}
		c.streams[id] = st
		c.order = append(c.order, id)
		c.maxID = id
		f := c.synFrame(id, tag, variant != "head-with-body" && fin)
		switch variant {
		case "no-method":
			f.Headers.Del(":method")
		case "head-with-body":
			f.Headers.Set(":method", "HEAD")
		case "bad-scheme":
			f.Headers.Set(":scheme", "ftp")
		case "no-host":
			f.Headers.Del(":host")
		case "no-path":
			f.Headers.Del(":path")
		}
		c.write(f)
		c.round()
		// should the server have chosen to serve it after all, do not mistake that handler for the next stream's
		for {
			select {
			case h := <-c.rig.started:
				if h.sid != tag {
					c.fail("handler-wrong-stream", "handler started for x-sid %q after the refused SYN_STREAM %d", h.sid, id)
				}
				continue
			default:
			}
			break
		}
	case "valid":
		id := c.maxID + 2
		if c.maxID == 0 {
			id = 1
		}
		id += uint32(2 * (s.C % 3))
		tag := strconv.Itoa(int(id))
		cl := int64(-1)
		if !fin && s.B%7 == 3 {
			cl = int64(s.D % 3000)
		}
		c.log("SYN(%d fin=%v cl=%d)", id, fin, cl)
		st := &c40Stream{id: id, clientFin: fin, recvWin: c.advInit, sendWin: c.cliInit, declCL: cl}
		c.streams[id] = st
		c.order = append(c.order, id)
		c.maxID = id
		c.write(c.synFrame(id, tag, fin, cl))
		if c.stop() {
			return
		}
		select {
		case h := <-c.rig.started:
			if h.sid != tag {
				c.fail("handler-wrong-stream", "handler started for x-sid %q after SYN_STREAM %d", h.sid, id)
				return
			}
			st.h = h
		case <-time.After(c40Watchdog):
			// either the handler goroutine is starved (inconclusive) or the server refused a
			// legal SYN_STREAM; a refusal shows up as RST/GOAWAY in the barrier below.
			c.round()
			if !c.stop() {
				c.inconclusive("watchdog waiting for the handler of a legal SYN_STREAM")
			}
			return
		}
		c.flags["opened"] = true
	case "even", "lower":
		var id uint32
		if kind == "even" {
			id = c.maxID + 1 + uint32(2*(s.C%3))
			if c.maxID == 0 {
				id = 2 + uint32(2*(s.C%3))
			}
		} else {
			if c.maxID < 3 {
				return
			}
			id = c.maxID - 2 - uint32(2*(s.C%2))
			if id < 1 || id >= c.maxID {
				id = 1
			}
		}
		tag := fmt.Sprintf("bad-%s-%d", kind, id)
		c.log("SYN-%s(%d fin=%v)", kind, id, fin)
		c.flags["invalid-syn-"+kind] = true
		c.badSyn = append(c.badSyn, tag)
		// SPDY/3.1 2.3.2: session error. RST of that id, GOAWAY or close are all "rejected".
		c.wantEnd = true
		c.write(c.synFrame(id, tag, fin))
		c.expectSessionEnd(tag, id)
	case "duplicate":
		if c.maxID == 0 {
			return
		}
		id := c.maxID
		tag := fmt.Sprintf("bad-dup-%d", id)
		c.log("SYN-duplicate(%d fin=%v)", id, fin)
		c.flags["invalid-syn-duplicate"] = true
		c.badSyn = append(c.badSyn, tag)
		st := c.streams[id]
		// 2.3.2: stream error PROTOCOL_ERROR for that stream id
		if st.closed {
			c.unknownRstWant[id] = true
		} else {
			st.wantRst = true
		}
		c.write(c.synFrame(id, tag, fin))
	}
}

// expectSessionEnd: after an invalid stream id the server must reject: the SYN must never reach a
// handler (checked at the end) and the session is expected to end (GOAWAY/close) or the id be reset.
func (c *c40Case) expectSessionEnd(tag string, id uint32) {
	if c.stop() {
		return
	}
	t := time.NewTimer(c40Watchdog)
	defer t.Stop()
	c.pingID += 2
	c.write(&bfe_spdy.PingFrame{Id: c.pingID})
	sawRst := false
	for !c.stop() {
		select {
		case rx := <-c.rx:
			if rx.err != nil {
				c.connGone(rx.err)
				return
			}
			if r, ok := rx.f.(*bfe_spdy.RstStreamFrame); ok && uint32(r.StreamId) == id && (c.streams[id] == nil || c.streams[id].closed) {
				sawRst = true
				continue
			}
			c.handle(rx.f)
			if pf, ok := rx.f.(*bfe_spdy.PingFrame); ok && pf.Id == c.pingID {
				if !sawRst {
					c.fail("invalid-syn-not-rejected", "SYN_STREAM with invalid id %d (max seen %d) was answered by neither RST_STREAM, GOAWAY nor close before the next PING reply", id, c.maxID)
				}
				return
			}
		case <-t.C:
			c.inconclusive("watchdog after invalid SYN_STREAM")
			return
		}
	}
}

func (c *c40Case) stepData(s c40Step) {
	target := "open"
	switch s.A % 10 {
	case 6:
		target = "half-closed"
	case 7:
		target = "closed"
	case 8:
		target = "never-opened"
	}
	fin := s.C%5 == 0
	switch target {
	case "open":
		st := c.pick(s.D, func(x *c40Stream) bool { return !x.closed && !x.clientFin && x.h != nil && !x.tainted })
		if st == nil {
			return
		}
		w := st.recvWin
		lim := "stream"
		if c.sessRecv < w {
			w = c.sessRecv
			lim = "session"
		}
		if w < 0 {
			w = 0
		}
		var n int64
		switch s.B % 10 {
		case 0:
			n = 0
		case 1, 2, 3:
			n = int64(1 + s.D%200)
		case 4, 5:
			n = int64(s.D) % (w + 1)
		case 6:
			n = w
		case 7:
			n = w + 1
		case 8:
			n = w + 1 + int64(s.D%5000)
		case 9:
			n = w / 2
		}
		if n > 1<<20 {
			n = 1 << 20
		}
		over := n > w
		if c.sessSlack > 0 {
			hi := st.recvWin
			if c.sessRecv+c.sessSlack < hi {
				hi = c.sessRecv + c.sessSlack
			}
			if over && n <= hi {
				return // verdict would depend on the uncertain part of the session window
			}
		}
		if st.bodyClosed && !over {
			// A legal DATA frame of a client that cannot know the handler closed the body: whatever the server does
			// with the stream (bfe resets it), the octets were sent within the advertised windows and use them up.
			c.log("DATA-body-closed(%d n=%d fin=%v win=%d/%s)", st.id, n, fin, w, lim)
			c.flags["data-after-body-close"] = true
			st.recvWin -= n
			c.sessRecv -= n
			st.tainted, st.mayRst = true, true
			df := &bfe_spdy.DataFrame{StreamId: bfe_spdy.StreamId(st.id), Data: patBytes(st.id, int(st.sent), int(n), 0)}
			if fin {
				df.Flags = bfe_spdy.DataFlagFin
				st.clientFin = true
				if st.serverFin {
					c.closeStream(st)
				}
			}
			c.write(df)
			return
		}
		if st.declCL >= 0 && (st.sent+n > st.declCL || (fin && st.sent+n != st.declCL)) {
			// body length contradicts the declared Content-Length (3.2.1: the request is bad). What exactly the
			// server does is not fixed by the property: tolerate a reset, give no further verdicts on this stream.
			c.log("DATA-cl-mismatch(%d n=%d fin=%v sent=%d cl=%d over=%v)", st.id, n, fin, st.sent, st.declCL, over)
			c.flags["content-length-mismatch"] = true
			st.tainted, st.mayRst = true, true
			if !over {
				// the server may or may not have charged these bytes to the session window
				c.sessRecv -= n
				c.sessSlack += n
			}
			df := &bfe_spdy.DataFrame{StreamId: bfe_spdy.StreamId(st.id), Data: patBytes(st.id, int(st.sent), int(n), 0)}
			if fin {
				df.Flags = bfe_spdy.DataFlagFin
			}
			c.write(df)
			return
		}
		c.log("DATA(%d n=%d fin=%v win=%d/%s over=%v)", st.id, n, fin, w, lim, over)
		df := &bfe_spdy.DataFrame{StreamId: bfe_spdy.StreamId(st.id), Data: patBytes(st.id, int(st.sent), int(n), 0)}
		if fin {
			df.Flags = bfe_spdy.DataFlagFin
		}
		if over {
			c.flags["overdraw-"+lim] = true
			st.overLim = lim
			st.wantRst = true // 2.6.8: FLOW_CONTROL_ERROR; the bytes must never reach the handler
		} else {
			if n > 0 && n == w {
				c.flags["data-exact-window"] = true
			}
			st.sent += n
			st.buffered += int(n)
			st.recvWin -= n
			c.sessRecv -= n
			if fin {
				st.clientFin = true
				if st.serverFin {
					c.closeStream(st)
				}
			}
		}
		c.write(df)
	case "half-closed":
		st := c.pick(s.D, func(x *c40Stream) bool { return !x.closed && x.clientFin && x.h != nil && !x.tainted })
		if st == nil {
			return
		}
		n := 1 + s.D%100
		c.log("DATA-after-FIN(%d n=%d)", st.id, n)
		c.flags["data-half-closed"] = true
		st.wantRst = true
		c.write(&bfe_spdy.DataFrame{StreamId: bfe_spdy.StreamId(st.id), Data: make([]byte, n)})
	case "closed":
		st := c.pick(s.D, func(x *c40Stream) bool { return x.closed && !c.unknownRstWant[x.id] })
		if st == nil {
			return
		}
		n := 1 + s.D%100
		c.log("DATA-closed(%d n=%d)", st.id, n)
		c.flags["data-closed"] = true
		c.unknownRstWant[st.id] = true
		c.write(&bfe_spdy.DataFrame{StreamId: bfe_spdy.StreamId(st.id), Data: make([]byte, n)})
	case "never-opened":
		id := c.maxID + 2 + uint32(2*(s.D%3))
		if s.D%2 == 0 {
			id++ // even ids too
		}
		if c.streams[id] != nil || c.unknownRstWant[id] {
			return
		}
		n := 1 + s.D%100
		c.log("DATA-never-opened(%d n=%d)", id, n)
		c.flags["data-never-opened"] = true
		c.unknownRstWant[id] = true
		c.write(&bfe_spdy.DataFrame{StreamId: bfe_spdy.StreamId(id), Data: make([]byte, n)})
	}
}

func (c *c40Case) stepRead(s c40Step) {
	st := c.pick(s.A, func(x *c40Stream) bool { return !x.closed && !x.busy && x.h != nil && x.buffered > 0 && !x.finishing && !x.tainted && !x.bodyClosed })
	if st == nil {
		return
	}
	k := st.buffered
	switch s.B % 4 {
	case 0:
		k = 1 + s.D%k
	case 1:
		k = (k + 1) / 2
	}
	c.log("HREAD(%d k=%d of %d clientFin=%v)", st.id, k, st.buffered, st.clientFin)
	st.h.cmds <- c40Cmd{op: "read", n: k}
	a, ok := c.waitAck(st.h, "read")
	if !ok {
		return
	}
	if a.n > k || string(a.data) != string(patBytes(st.id, int(st.consumed), a.n, 0)) {
		c.fail("handler-got-wrong-bytes", "handler of stream %d read %d bytes at offset %d that differ from the accepted DATA", st.id, a.n, st.consumed)
		return
	}
	if a.n < k {
		c.fail("accepted-data-lost", "handler of stream %d could read only %d of %d buffered accepted bytes (err %v)", st.id, a.n, k, a.err)
		return
	}
	c.flags["handler-read"] = true
	st.consumed += int64(k)
	st.buffered -= k
	c.consumed += int64(k)
	if st.clientFin {
		st.creditOpt += int64(k)
	} else {
		st.creditWant += int64(k)
	}
}

func (c *c40Case) stepWrite(s c40Step) {
	st := c.pick(s.A, func(x *c40Stream) bool { return !x.closed && !x.busy && x.h != nil && !x.finishing && !x.tainted })
	if st == nil {
		return
	}
	var m int
	switch s.B % 6 {
	case 0, 1:
		m = 1 + s.D%300
	case 2:
		m = 1 + s.D%5000
	case 3:
		m = 1 + s.D%40000
	case 4:
		m = 60000 + s.D%20000
	case 5:
		m = int(st.sendWin) + 1 + s.D%100
		if m < 1 {
			m = 1
		}
		if m > 200000 {
			m = 200000
		}
	}
	c.log("HWRITE(%d m=%d sendWin=%d sess=%d)", st.id, m, st.sendWin, c.sessSend)
	st.commanded += int64(m)
	st.busy = true
	st.h.cmds <- c40Cmd{op: "write", n: m}
}

func (c *c40Case) stepFinish(s c40Step) {
	st := c.pick(s.A, func(x *c40Stream) bool { return !x.busy && x.h != nil && !x.finishing })
	if st == nil {
		return
	}
	c.log("HFINISH(%d clientFin=%v closed=%v buffered=%d)", st.id, st.clientFin, st.closed, st.buffered)
	st.finishing = true
	st.mayRst = true // CANCEL if the client has not finished sending
	close(st.h.cmds)
	select {
	case <-st.h.exited:
	case <-time.After(c40Watchdog):
		c.inconclusive("watchdog waiting for handler return")
		return
	}
	if st.closed {
		return
	}
	// the server ends the stream: FIN, then RST(CANCEL) when the client side is still open
	c.settleSoft(func() bool { return st.closed || (st.serverFin && st.gotRst) }, "stream end after handler return")
	if !c.stop() {
		c.closeStream(st)
	}
}

func (c *c40Case) stepWU(s c40Step) {
	var d int64
	switch s.B % 5 {
	case 0:
		d = int64(1 + s.D%100)
	case 1, 2:
		d = int64(1 + s.D%20000)
	case 3:
		d = int64(60000 + s.D%40000)
	case 4:
		d = 1
	}
	switch s.A % 8 {
	case 0, 1, 2:
		c.log("WU(session +%d)", d)
		c.sessSend += d
		c.write(&bfe_spdy.WindowUpdateFrame{StreamId: 0, DeltaWindowSize: uint32(d)})
	case 7:
		st := c.pick(s.D, func(x *c40Stream) bool { return x.closed })
		if st == nil {
			return
		}
		c.log("WU-closed(%d +%d)", st.id, d)
		c.write(&bfe_spdy.WindowUpdateFrame{StreamId: bfe_spdy.StreamId(st.id), DeltaWindowSize: uint32(d)})
	default:
		st := c.pick(s.D, func(x *c40Stream) bool { return !x.closed && x.h != nil })
		if st == nil {
			return
		}
		c.log("WU(%d +%d sendWin=%d)", st.id, d, st.sendWin)
		if st.sendWin < 0 {
			c.flags["wu-on-negative-window"] = true
			c.negInc = true
		}
		st.sendWin += d
		c.write(&bfe_spdy.WindowUpdateFrame{StreamId: bfe_spdy.StreamId(st.id), DeltaWindowSize: uint32(d)})
	}
}


// stepMisc sends frames whose handling the property does not pin down beyond "no panic, rules still enforced".
func (c *c40Case) stepMisc(s c40Step) {
	anyStream := func() uint32 {
		if len(c.order) == 0 || s.C%4 == 0 {
			return c.maxID + 2 + uint32(s.D%4)
		}
		return c.order[s.D%len(c.order)]
	}
	switch s.A % 12 {
	case 0, 1:
		id := anyStream()
		c.log("HEADERS(%d)", id)
		c.write(&bfe_spdy.HeadersFrame{StreamId: bfe_spdy.StreamId(id), Headers: bfe_http.Header{"x-a": {"b"}}})
	case 2, 3:
		id := anyStream()
		c.log("SYN_REPLY(%d)", id)
		c.write(&bfe_spdy.SynReplyFrame{StreamId: bfe_spdy.StreamId(id), Headers: bfe_http.Header{":status": {"200"}, ":version": {"HTTP/1.1"}}})
	case 4:
		c.log("SETTINGS(other ids)")
		c.write(&bfe_spdy.SettingsFrame{FlagIdValues: []bfe_spdy.SettingsFlagIdValue{{Id: bfe_spdy.SettingsMaxConcurrentStreams, Value: uint32(s.D)},
			{Flag: bfe_spdy.FlagSettingsPersistValue, Id: bfe_spdy.SettingsRoundTripTime, Value: 1}, {Id: 0xabcdef, Value: 0xffffffff}}})
	case 5:
		c.log("PING(even id)")
		c.write(&bfe_spdy.PingFrame{Id: 2 + 2*uint32(s.D%1000)})
	case 6:
		c.log("GOAWAY from client")
		c.write(&bfe_spdy.GoAwayFrame{LastGoodStreamId: 0, Status: bfe_spdy.GoAwayOK})
	case 7, 8:
		st := c.pick(s.D, func(x *c40Stream) bool { return !x.closed && x.h != nil && !x.tainted && x.sendWin > 0 })
		if st == nil {
			return
		}
		// 2.6.8: a WINDOW_UPDATE taking the window beyond 2^31-1 must end the stream or the session
		c.log("WU-overflow(%d sendWin=%d)", st.id, st.sendWin)
		c.flags["wu-overflow"] = true
		st.tainted, st.mayRst, c.mayEnd = true, true, true
		st.sendWin += 0x7fffffff
		c.write(&bfe_spdy.WindowUpdateFrame{StreamId: bfe_spdy.StreamId(st.id), DeltaWindowSize: 0x7fffffff})
	case 9:
		if s.B%3 != 0 || c.sessSend <= 0 {
			return
		}
		c.log("WU-overflow(session sess=%d)", c.sessSend)
		c.flags["wu-overflow"] = true
		c.wantEnd = true
		c.sessSend += 0x7fffffff
		c.write(&bfe_spdy.WindowUpdateFrame{StreamId: 0, DeltaWindowSize: 0x7fffffff})
	case 10:
		if s.B%3 != 0 {
			return
		}
		id := c.maxID + 2
		c.log("RST-idle(%d)", id)
		c.wantEnd = true // 2.4.2 / h2-like: reset of a stream that was never opened; ending the session is legitimate
		c.write(&bfe_spdy.RstStreamFrame{StreamId: bfe_spdy.StreamId(id), Status: bfe_spdy.Cancel})
	case 11:
		st := c.pick(s.D, func(x *c40Stream) bool { return !x.closed && x.h != nil && !x.tainted })
		if st == nil {
			c.log("WU(session +0)")
			c.write(&bfe_spdy.WindowUpdateFrame{StreamId: 0, DeltaWindowSize: 0})
			return
		}
		c.log("WU(%d +0 sendWin=%d)", st.id, st.sendWin)
		if st.sendWin < 0 {
			c.negInc = true
		}
		c.write(&bfe_spdy.WindowUpdateFrame{StreamId: bfe_spdy.StreamId(st.id), DeltaWindowSize: 0})
	}
}

var c40Inits = []int64{0, 1, 100, 1000, 4096, 16384, 65536, 100000, 1 << 20}

func (c *c40Case) stepSettings(s c40Step) {
	v := c40Inits[s.A%len(c40Inits)]
	delta := v - c.cliInit
	live := false
	for _, id := range c.order {
		if !c.streams[id].closed {
			live = true
		}
	}
	c.log("SETTINGS(initial_window=%d was %d)", v, c.cliInit)
	for _, id := range c.order {
		if st := c.streams[id]; !st.closed && st.sendWin < 0 {
			c.negInc = true
			c.flags["settings-on-negative-window"] = true
		}
	}
	if live && delta != 0 {
		c.flags["settings-change-live"] = true
	}
	apply := func() {
		for _, id := range c.order {
			if st := c.streams[id]; !st.closed {
				st.sendWin += delta
			}
		}
	}
	c.cliInit = v
	f := &bfe_spdy.SettingsFrame{FlagIdValues: []bfe_spdy.SettingsFlagIdValue{{Id: bfe_spdy.SettingsInitialWindowSize, Value: uint32(v)}}}
	if delta >= 0 {
		apply() // the server may use the larger windows as soon as it has the frame
		c.write(f)
		return
	}
	// a decrease binds the server only once it has processed the frame: first PING reply after it
	c.write(f)
	c.round()
	apply()
}

func (c *c40Case) stepRst(s c40Step) {
	st := c.pick(s.A, func(x *c40Stream) bool { return (x.h != nil && (!x.closed || s.B%4 == 0)) || (x.refused && s.B%2 == 0) })
	if st == nil {
		return
	}
	if st.refused {
		c.flags["rst-refused-stream"] = true
	}
	c.log("RST(%d closed=%v busy=%v refused=%v)", st.id, st.closed, st.busy, st.refused)
	c.flags["client-rst"] = true
	c.closeStream(st)
	st.wantRst = false
	c.write(&bfe_spdy.RstStreamFrame{StreamId: bfe_spdy.StreamId(st.id), Status: bfe_spdy.Cancel})
}


// stepRace closes the only open stream (client RST_STREAM, or a stream error provoked by DATA) and lets its
// handler consume the buffered body bytes while the serve loop is parked inside closeStream (ConnState hook):
// the read notification then reaches the serve loop after the stream is closed. The consumed bytes are consumed
// bytes all the same: the session window must be replenished by them.
func (c *c40Case) stepRace(s c40Step) {
	open := 0
	for _, id := range c.order {
		if !c.streams[id].closed {
			open++
		}
	}
	st := c.pick(0, func(x *c40Stream) bool {
		return !x.closed && !x.busy && x.h != nil && x.buffered > 0 && !x.finishing && !x.tainted && !x.bodyClosed
	})
	if st == nil || open != 1 {
		return
	}
	k := st.buffered
	if s.B%3 == 0 {
		k = 1 + s.D%k
	}
	how := "client-rst"
	var f bfe_spdy.Frame = &bfe_spdy.RstStreamFrame{StreamId: bfe_spdy.StreamId(st.id), Status: bfe_spdy.Cancel}
	if s.A%2 == 1 {
		if st.clientFin {
			how = "data-after-fin"
			f = &bfe_spdy.DataFrame{StreamId: bfe_spdy.StreamId(st.id), Data: make([]byte, 1+s.D%50)}
		} else {
			how = "overdraw"
			f = &bfe_spdy.DataFrame{StreamId: bfe_spdy.StreamId(st.id), Data: make([]byte, st.recvWin+1)}
		}
	}
	c.log("CLOSE-WHILE-READING(%d %s k=%d of %d)", st.id, how, k, st.buffered)
	c.rig.arm(true)
	defer c.rig.arm(false)
	buffered := st.buffered
	if how == "client-rst" {
		c.closeStream(st)
	} else {
		st.wantRst = true
	}
	c.write(f)
	c.pingID += 2
	c.write(&bfe_spdy.PingFrame{Id: c.pingID})
	if c.stop() {
		return
	}
	t := time.NewTimer(c40Watchdog)
	defer t.Stop()
	parked := false
wait:
	for {
		select {
		case <-c.rig.inHook:
			parked = true
			break wait
		case rx := <-c.rx:
			if rx.err != nil {
				c.connGone(rx.err)
				return
			}
			c.handle(rx.f)
			if pf, ok := rx.f.(*bfe_spdy.PingFrame); ok && pf.Id == c.pingID {
				break wait // the close did not take the serve loop through the hook
			}
			if c.stop() {
				return
			}
		case <-t.C:
			c.inconclusive("watchdog waiting for the serve loop in the ConnState hook")
			return
		}
	}
	if parked {
		c.flags["read-after-stream-close"] = true
		atomic.StoreInt32(&st.h.reading, 0)
		st.h.cmds <- c40Cmd{op: "read", n: k}
		// give the handler the time to take the bytes out of the pipe (coverage only, not a verdict)
		for i := 0; i < 4000 && atomic.LoadInt32(&st.h.reading) == 0; i++ {
			time.Sleep(50 * time.Microsecond)
		}
		time.Sleep(time.Millisecond)
		c.rig.release <- struct{}{}
		a, ok := c.waitAck(st.h, "read")
		if !ok {
			return
		}
		if a.n > buffered || string(a.data) != string(patBytes(st.id, int(st.consumed), a.n, 0)) {
			want := patBytes(st.id, int(st.consumed), a.n, 0)
			d := 0
			for d < a.n && d < len(want) && a.data[d] == want[d] {
				d++
			}
			c.fail("handler-got-wrong-bytes", "handler of stream %d read %d bytes (of %d buffered) at offset %d that differ from the accepted DATA: first difference at +%d, got % x want % x (err %v)", st.id, a.n, buffered, st.consumed, d, c39Head(a.data[d:], 8), c39Head(want[d:], 8), a.err)
			return
		}
		if a.n > 0 {
			c.flags["consumed-after-stream-close"] = true
		}
		st.consumed += int64(a.n)
		c.consumed += int64(a.n)
		st.creditOpt += int64(a.n)
		for c.next(t) {
		}
	}
}


// stepCloseBody: the handler closes the request body although the client may still be sending.
func (c *c40Case) stepCloseBody(s c40Step) {
	st := c.pick(s.A, func(x *c40Stream) bool {
		return !x.closed && !x.busy && x.h != nil && !x.finishing && !x.tainted && !x.clientFin && !x.bodyClosed && x.declCL < 0
	})
	if st == nil {
		return
	}
	c.log("HCLOSEBODY(%d buffered=%d)", st.id, st.buffered)
	c.flags["handler-closed-body"] = true
	st.h.cmds <- c40Cmd{op: "closebody"}
	if _, ok := c.waitAck(st.h, "closebody"); !ok {
		return
	}
	st.bodyClosed = true
}

// ---------- one case ----------

var (
	c40Counters sync.Once
	c40PanicConn, c40PanicStream *metrics.Counter
)

func c40Run(tb ev.TB, rec *ev.Rec, script []c40Step) {
	c40Counters.Do(func() {
		c40PanicConn, c40PanicStream = new(metrics.Counter), new(metrics.Counter)
		s := bfe_spdy.GetSpdyState()
		s.SpdyPanicConn, s.SpdyPanicStream = c40PanicConn, c40PanicStream
	})
	pc0, ps0 := c40PanicConn.Get(), c40PanicStream.Get()

	cliEnd, srvEnd := net.Pipe()
	rig := &c40Rig{handlers: map[string][]*c40Handler{}, started: make(chan *c40Handler, 256), inHook: make(chan struct{}, 1), release: make(chan struct{}, 1)}
	hs := &bfe_http.Server{ReadTimeout: 120 * time.Second, GracefulShutdownTimeout: time.Second, ConnState: rig.connState}
	sc := bfe_spdy.VerifHandleConn(&bfe_spdy.Server{}, hs, srvEnd, rig)
	if sc == nil {
		tb.Fatalf("handleConn returned nil")
	}
	c := &c40Case{tb: tb, rec: rec, rig: rig, cc: cliEnd, rx: make(chan c40Rx, 1<<12), done: make(chan struct{}),
		streams: map[uint32]*c40Stream{}, cliInit: spdyInitWin, advInit: spdyInitWin, sessRecv: spdyInitWin, sessSend: spdyInitWin,
		unknownRstWant: map[uint32]bool{}, flags: map[string]bool{}, pingID: 1}
	c.bw = bufio.NewWriterSize(cliEnd, 1<<16)
	fr, err := bfe_spdy.NewFramer(c.bw, cliEnd)
	if err != nil {
		tb.Fatalf("NewFramer: %v", err)
	}
	c.fr = fr
	go func() {
		defer close(c.done)
		sc.Serve()
	}()
	readerDone := make(chan struct{})
	go func() {
		defer close(readerDone)
		for {
			f, err := fr.ReadFrame()
			c.rx <- c40Rx{f, err}
			if err != nil {
				return
			}
		}
	}()

	c.round() // picks up the server's SETTINGS
	for _, s := range script {
		if c.stop() {
			break
		}
		c.negInc, c.mayEnd = false, false
		switch s.Op {
		case "misc":
			c.stepMisc(s)
		case "race":
			c.stepRace(s)
		case "closebody":
			c.stepCloseBody(s)
		case "syn":
			c.stepSyn(s)
		case "data":
			c.stepData(s)
		case "read":
			c.stepRead(s)
		case "write":
			c.stepWrite(s)
		case "finish":
			c.stepFinish(s)
		case "wu":
			c.stepWU(s)
		case "settings":
			c.stepSettings(s)
		case "rst":
			c.stepRst(s)
		case "ping":
			c.log("PING")
		}
		if c.stop() {
			break
		}
		c.barrier()
	}

	// tear down: close the client side, let every puppet return, wait for serve() to end
	cliEnd.Close()
	select {
	case <-c.done:
	case <-time.After(c40Watchdog):
		c.inconclusive("watchdog waiting for serve() to return after the client closed")
	}
	rig.mu.Lock()
	var all []*c40Handler
	for _, hs := range rig.handlers {
		all = append(all, hs...)
	}
	rig.mu.Unlock()
	for _, h := range all {
		func() {
			defer func() { recover() }() // cmds already closed by HFINISH
			close(h.cmds)
		}()
	}
	for _, h := range all {
		select {
		case <-h.exited:
		case <-time.After(c40Watchdog):
			c.inconclusive("watchdog waiting for a handler to return at teardown")
		}
	}
	srvEnd.Close()
	select {
	case <-readerDone:
	case <-time.After(c40Watchdog):
	}
	fr.ReleaseWriter()

	// verdicts that need the whole run
	for _, tag := range c.badSyn {
		if n := rig.count(tag); n > 0 && !c.failed {
			c.fail("invalid-syn-accepted", "SYN_STREAM %s reached a request handler (%d invocation(s)); max stream id before it was lower/equal or the id is even", tag, n)
		}
	}
	for _, id := range c.order {
		if n := rig.count(strconv.Itoa(int(id))); n > 1 && !c.failed {
			c.fail("handler-started-twice", "stream %d reached %d request handlers", id, n)
		}
	}
	if d := c40PanicConn.Get() - pc0; d != 0 && !c.failed {
		c.fail("panic-serve-loop", "the connection's serve loop panicked (SpdyPanicConn +%d)", d)
	}
	if d := c40PanicStream.Get() - ps0; d != 0 && !c.failed {
		c.fail("panic-handler-goroutine", "a panic was recovered on a request handler goroutine inside bfe_spdy (SpdyPanicStream +%d)", d)
	}

	nt := c.flags["opened"] && (c.flags["overdraw-stream"] || c.flags["overdraw-session"] || c.flags["data-half-closed"] || c.flags["data-closed"] ||
		c.flags["data-never-opened"] || c.flags["invalid-syn-even"] || c.flags["invalid-syn-lower"] || c.flags["invalid-syn-duplicate"] ||
		c.flags["write-blocked-by-window"] || c.flags["settings-change-live"] || c.flags["refused-syn"] || c.flags["consumed-after-stream-close"] || c.flags["data-after-body-close"])
	var classes []string
	for k := range c.flags {
		classes = append(classes, k)
	}
	if c.leak > 0 {
		classes = append(classes, "info:unread-bytes-at-stream-close(no session credit)")
	}
	if c.incon != "" {
		classes = append(classes, "inconclusive")
		rec.Excluded("inconclusive: " + c.incon)
	}
	if c.goAway {
		classes = append(classes, "ended-by-goaway")
	}
	rec.Case(strings.Join(c.steps, ";"), nt && c.incon == "", classes...)
	rec.Sample(map[string]any{"steps": c.steps})
}

func genC40Script(rt *rapid.T, maxSteps int) []c40Step {
	n := rapid.IntRange(4, maxSteps).Draw(rt, "nSteps")
	ops := []string{"syn", "syn", "syn", "data", "data", "data", "data", "data", "read", "read", "read", "read", "write", "write", "write", "finish", "wu", "wu", "settings", "rst", "ping", "misc", "misc", "race", "race", "closebody"}
	script := []c40Step{{Op: "syn", A: 0, B: rapid.IntRange(0, 7).Draw(rt, "firstFin"), C: rapid.IntRange(0, 2).Draw(rt, "firstGap")}}
	for i := 1; i < n; i++ {
		s := c40Step{Op: rapid.SampledFrom(ops).Draw(rt, "op")}
		s.A = rapid.IntRange(0, 39).Draw(rt, "a")
		s.B = rapid.IntRange(0, 59).Draw(rt, "b")
		s.C = rapid.IntRange(0, 59).Draw(rt, "c")
		s.D = rapid.IntRange(0, 1<<20).Draw(rt, "d")
		if s.Op == "syn" {
			// invalid even/lower ids end the session: keep them rare
			switch k := rapid.IntRange(0, 39).Draw(rt, "synKind"); {
			case k == 20: // (rapid favours the ends of a range, so the rare kinds sit in the middle)
				s.A = 9
			case k == 21:
				s.A = 8
			case k >= 22 && k <= 25:
				s.A = 7
			case k >= 26 && k <= 29:
				s.A = 6
			default:
				s.A = 0
			}
		}
		script = append(script, s)
	}
	return script
}

func TestC40(t *testing.T) {
	rec := ev.New("C40", c40Rule)
	// deterministic scripts: one per rule
	fixed := [][]c40Step{
		{{Op: "syn", B: 1}, {Op: "data", A: 0, B: 6}, {Op: "data", A: 0, B: 7}},                                  // exact window, then overdraw
		{{Op: "syn", B: 1}, {Op: "data", A: 0, B: 7}},                                                            // overdraw by one
		{{Op: "syn", B: 1}, {Op: "syn", B: 1}, {Op: "data", A: 0, B: 9, D: 0}, {Op: "data", A: 0, B: 6, D: 1}, {Op: "data", A: 0, B: 7, D: 0}}, // session window
		{{Op: "syn", B: 1}, {Op: "data", A: 0, B: 1, D: 99}, {Op: "read", A: 0, B: 2}, {Op: "data", A: 0, B: 6}, {Op: "read", A: 0, B: 0, D: 10}},
		{{Op: "syn", B: 1}, {Op: "data", A: 0, B: 1, C: 0, D: 50}, {Op: "data", A: 6, D: 3}},                      // DATA after FIN
		{{Op: "syn", B: 1}, {Op: "rst", A: 0, B: 1}, {Op: "data", A: 7, D: 3}},                                   // DATA after RST
		{{Op: "syn", B: 1}, {Op: "data", A: 8, D: 3}, {Op: "data", A: 8, D: 4}},                                  // DATA on idle ids
		{{Op: "syn", B: 1}, {Op: "syn", A: 9}},                                                                   // even id
		{{Op: "syn", B: 1, C: 2}, {Op: "syn", A: 8}},                                                             // lower id
		{{Op: "syn", B: 1}, {Op: "syn", A: 7}, {Op: "data", A: 7, D: 1}},                                         // duplicate id
		{{Op: "syn", B: 1}, {Op: "write", A: 0, B: 4, D: 10000}, {Op: "wu", A: 4, B: 1, D: 5000}, {Op: "wu", A: 0, B: 3}, {Op: "wu", A: 4, B: 3}}, // write > window
		{{Op: "settings", A: 1}, {Op: "syn", B: 1}, {Op: "write", A: 0, B: 0, D: 50}, {Op: "wu", A: 4, B: 0, D: 10}, {Op: "settings", A: 3}, {Op: "settings", A: 0}, {Op: "finish", A: 0}},
		{{Op: "syn", B: 1}, {Op: "syn", B: 1}, {Op: "write", A: 0, B: 3, D: 39000}, {Op: "write", A: 1, B: 3, D: 39000}, {Op: "wu", A: 0, B: 1, D: 3000}, {Op: "wu", A: 0, B: 3}},
		{{Op: "syn", B: 0}, {Op: "write", A: 0, B: 0}, {Op: "finish", A: 0}, {Op: "data", A: 7, D: 2}},
		{{Op: "syn", B: 1}, {Op: "data", A: 0, B: 1, D: 10}, {Op: "finish", A: 0}, {Op: "data", A: 7, D: 2}, {Op: "syn", B: 1}},
	}
	fixed = append(fixed,
		// window driven negative by a SETTINGS decrease, then raised again (SETTINGS / WINDOW_UPDATE): legal per 2.6.8
		[]c40Step{{Op: "syn", B: 1}, {Op: "write", A: 0, B: 0, D: 199}, {Op: "settings", A: 2}, {Op: "settings", A: 6}},
		[]c40Step{{Op: "syn", B: 1}, {Op: "write", A: 0, B: 0, D: 199}, {Op: "settings", A: 2}, {Op: "wu", A: 4, B: 1, D: 500}})
	fixed = append(fixed,
		// a refused SYN_STREAM uses its id up: lower id, same id again, late RST_STREAM for it
		[]c40Step{{Op: "syn", B: 1}, {Op: "syn", A: 6, C: 2, D: 1}, {Op: "syn", A: 8}},
		[]c40Step{{Op: "syn", A: 6, C: 1, D: 0}, {Op: "syn", A: 8}},
		[]c40Step{{Op: "syn", B: 1}, {Op: "syn", A: 6, D: 0}, {Op: "syn", A: 7}, {Op: "syn", B: 1}},
		[]c40Step{{Op: "syn", B: 1}, {Op: "syn", A: 6, D: 3}, {Op: "rst", A: 1, B: 0}, {Op: "ping"}, {Op: "syn", B: 1}},
		[]c40Step{{Op: "syn", A: 6, D: 2}, {Op: "data", A: 7, D: 3}, {Op: "syn", A: 6, D: 4}, {Op: "syn", A: 7}},
		// DATA sent while the handler has closed the body still uses up the session window: the rest of it, and not more, is left
		[]c40Step{{Op: "syn", B: 1}, {Op: "syn", B: 1}, {Op: "closebody", A: 0}, {Op: "data", A: 0, B: 4, C: 1, D: 30000}, {Op: "data", A: 0, B: 6, C: 1}, {Op: "data", A: 0, B: 7, C: 1}},
		[]c40Step{{Op: "syn", B: 1}, {Op: "syn", B: 1}, {Op: "data", A: 0, B: 1, C: 1, D: 99}, {Op: "closebody", A: 0}, {Op: "data", A: 0, B: 9, C: 1}, {Op: "data", A: 0, B: 9, C: 1, D: 1}, {Op: "data", A: 0, B: 7, C: 1}},
		// bytes consumed by the handler after the stream was closed still replenish the session window
		[]c40Step{{Op: "syn", B: 1}, {Op: "data", A: 0, B: 1, C: 1, D: 199}, {Op: "read", A: 0, B: 0, D: 99}, {Op: "race", A: 0, B: 1}, {Op: "syn", B: 1}},
		[]c40Step{{Op: "syn", B: 1}, {Op: "data", A: 0, B: 1, C: 1, D: 150}, {Op: "race", A: 1, B: 1}},
		[]c40Step{{Op: "syn", B: 1}, {Op: "data", A: 0, B: 1, C: 0, D: 150}, {Op: "race", A: 1, B: 0, D: 7}})
	for _, sc := range fixed {
		c40Run(t, rec, sc)
	}
	maxSteps := ev.N(30, 40)
	rapid.Check(t, func(rt *rapid.T) {
		c40Run(rt, rec, genC40Script(rt, maxSteps))
	})
}

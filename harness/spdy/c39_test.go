package spdy

// C39: SPDY frames round-trip through the shared compression context (a) and
// reading any byte stream never panics, keeps frame boundaries and allocates
// no more than the frame can justify (b).

import (
	"bytes"
	"encoding/binary"
	"fmt"
	"io"
	"os"
	"path/filepath"
	"reflect"
	"runtime"
	"sort"
	"strings"
	"testing"

	"github.com/bfenetworks/bfe/bfe_http"
	"github.com/bfenetworks/bfe/bfe_spdy"
	"pgregory.net/rapid"

	"verif/harness/internal/ev"
)

const c39Rule = "(a) sequences of 1..8 frames of every type written by one Framer and read by another (one compression context each way), header sets with multi-valued, upper-case, non-ASCII and invalid-UTF-8 names; every written frame is first decoded by an independent SPDY/3 wire reference, then by ReadFrame, both compared with the generated fields. non-trivial: >=2 header-bearing frames in the sequence or a non-ASCII name. (b) byte streams A||PING where A is a constructed/mutated frame whose declared length equals its actual length; non-trivial: A's length field or header block is inconsistent with its type's structure. distinct by the frame descriptors / bytes of A"

// ---------- (a) round trip ----------

type c39Hdr struct {
	Name   string
	Values []string
}

type c39Frame struct {
	Kind     string
	StreamId uint32
	Assoc    uint32
	Prio     uint8
	Slot     uint8
	Flags    uint8
	Status   uint32
	Id       uint32
	Delta    uint32
	Settings [][3]uint32 // flag, id, value
	Hdrs     []c39Hdr
	Data     []byte
}

func (f c39Frame) String() string {
	var b strings.Builder
	fmt.Fprintf(&b, "%s{sid=%d", f.Kind, f.StreamId)
	switch f.Kind {
	case "syn_stream":
		fmt.Fprintf(&b, " assoc=%d prio=%d slot=%d flags=%#x", f.Assoc, f.Prio, f.Slot, f.Flags)
	case "syn_reply", "headers":
		fmt.Fprintf(&b, " flags=%#x", f.Flags)
	case "rst", "goaway":
		fmt.Fprintf(&b, " status=%d", f.Status)
	case "settings":
		fmt.Fprintf(&b, " flags=%#x settings=%v", f.Flags, f.Settings)
	case "ping":
		fmt.Fprintf(&b, " id=%d", f.Id)
	case "window_update":
		fmt.Fprintf(&b, " delta=%d", f.Delta)
	case "data":
		fmt.Fprintf(&b, " flags=%#x data=%d:%x", f.Flags, len(f.Data), c39Head(f.Data, 8))
	}
	for _, h := range f.Hdrs {
		fmt.Fprintf(&b, " %q=", h.Name)
		for i, v := range h.Values {
			if i > 0 {
				b.WriteByte(',')
			}
			if len(v) > 40 {
				fmt.Fprintf(&b, "%q..(%d)", v[:40], len(v))
			} else {
				fmt.Fprintf(&b, "%q", v)
			}
		}
	}
	b.WriteByte('}')
	return b.String()
}

func c39Head(b []byte, n int) []byte {
	if len(b) > n {
		return b[:n]
	}
	return b
}

func (f c39Frame) hasHeaders() bool {
	return f.Kind == "syn_stream" || f.Kind == "syn_reply" || f.Kind == "headers"
}

func (f c39Frame) bfeHeaders() bfe_http.Header {
	h := make(bfe_http.Header, len(f.Hdrs))
	for _, x := range f.Hdrs {
		h[x.Name] = append([]string(nil), x.Values...)
	}
	return h
}

func (f c39Frame) build() bfe_spdy.Frame {
	switch f.Kind {
	case "syn_stream":
		fr := &bfe_spdy.SynStreamFrame{StreamId: bfe_spdy.StreamId(f.StreamId), AssociatedToStreamId: bfe_spdy.StreamId(f.Assoc),
			Priority: f.Prio, Slot: f.Slot, Headers: f.bfeHeaders()}
		fr.CFHeader.Flags = bfe_spdy.ControlFlags(f.Flags)
		return fr
	case "syn_reply":
		fr := &bfe_spdy.SynReplyFrame{StreamId: bfe_spdy.StreamId(f.StreamId), Headers: f.bfeHeaders()}
		fr.CFHeader.Flags = bfe_spdy.ControlFlags(f.Flags)
		return fr
	case "headers":
		fr := &bfe_spdy.HeadersFrame{StreamId: bfe_spdy.StreamId(f.StreamId), Headers: f.bfeHeaders()}
		fr.CFHeader.Flags = bfe_spdy.ControlFlags(f.Flags)
		return fr
	case "rst":
		return &bfe_spdy.RstStreamFrame{StreamId: bfe_spdy.StreamId(f.StreamId), Status: bfe_spdy.RstStreamStatus(f.Status)}
	case "settings":
		fr := &bfe_spdy.SettingsFrame{}
		fr.CFHeader.Flags = bfe_spdy.ControlFlags(f.Flags)
		for _, s := range f.Settings {
			fr.FlagIdValues = append(fr.FlagIdValues, bfe_spdy.SettingsFlagIdValue{Flag: bfe_spdy.SettingsFlag(s[0]), Id: bfe_spdy.SettingsId(s[1]), Value: s[2]})
		}
		return fr
	case "ping":
		return &bfe_spdy.PingFrame{Id: f.Id}
	case "goaway":
		return &bfe_spdy.GoAwayFrame{LastGoodStreamId: bfe_spdy.StreamId(f.StreamId), Status: bfe_spdy.GoAwayStatus(f.Status)}
	case "window_update":
		return &bfe_spdy.WindowUpdateFrame{StreamId: bfe_spdy.StreamId(f.StreamId), DeltaWindowSize: f.Delta}
	case "data":
		return &bfe_spdy.DataFrame{StreamId: bfe_spdy.StreamId(f.StreamId), Flags: bfe_spdy.DataFlags(f.Flags), Data: append([]byte(nil), f.Data...)}
	}
	panic("kind " + f.Kind)
}

var c39TypeCode = map[string]uint16{"syn_stream": tSynStream, "syn_reply": tSynReply, "rst": tRstStream, "settings": tSettings,
	"ping": tPing, "goaway": tGoAway, "headers": tHeaders, "window_update": tWindowUpdate}

// expectedPairs: for every generated header the wire value and the acceptable wire names.
type c39Want struct {
	names []string
	value string
	vals  []string
	orig  string
}

func (f c39Frame) wants() []c39Want {
	var w []c39Want
	for _, h := range f.Hdrs {
		w = append(w, c39Want{names: acceptableWireNames(h.Name), value: strings.Join(h.Values, "\x00"), vals: h.Values, orig: h.Name})
	}
	return w
}

// matchPairs checks that got is a permutation of want; it returns the wire names in want order.
func matchPairs(got []refPair, want []c39Want) ([]string, error) {
	if len(got) != len(want) {
		return nil, fmt.Errorf("%d pairs on the wire, %d headers written", len(got), len(want))
	}
	used := make([]bool, len(got))
	out := make([]string, len(want))
next:
	for i, w := range want {
		for j, g := range got {
			if used[j] || g.value != w.value {
				continue
			}
			for _, n := range w.names {
				if g.name == n {
					used[j] = true
					out[i] = g.name
					continue next
				}
			}
		}
		return nil, fmt.Errorf("header %q=%q not found on the wire (wire pairs: %s)", w.orig, c39Head([]byte(w.value), 40), fmtPairs(got))
	}
	return out, nil
}

func fmtPairs(ps []refPair) string {
	var b strings.Builder
	for i, p := range ps {
		if i > 6 {
			b.WriteString(" ...")
			break
		}
		fmt.Fprintf(&b, " %q=%q", p.name, c39Head([]byte(p.value), 40))
	}
	return b.String()
}

// lenChanging reports whether lower-casing some name of the frame changes its byte length.
func (f c39Frame) lenChanging() bool {
	for _, h := range f.Hdrs {
		if len(strings.ToLower(h.Name)) != len(h.Name) {
			return true
		}
	}
	return false
}

// refCheckWire decodes one written frame with the wire reference and compares it with the descriptor.
// It returns the wire header names (in descriptor order).
func refCheckWire(wire []byte, f c39Frame, u *refInflater) (names []string, key string, err error) {
	rf, rest, e := refSplit(wire)
	if e != nil {
		return nil, "wire-frame-length", e
	}
	if len(rest) != 0 {
		return nil, "wire-frame-length", fmt.Errorf("%d bytes written beyond the declared frame length", len(rest))
	}
	p := rf.payload
	be := binary.BigEndian
	if f.Kind == "data" {
		if rf.control || rf.stream != f.StreamId || rf.flags != f.Flags || !bytes.Equal(p, f.Data) {
			return nil, "wire-data", fmt.Errorf("data frame on the wire: stream=%d flags=%#x len=%d", rf.stream, rf.flags, len(p))
		}
		return nil, "", nil
	}
	if !rf.control || rf.version != 3 || rf.typ != c39TypeCode[f.Kind] {
		return nil, "wire-control-header", fmt.Errorf("control=%v version=%d type=%d, want type %d", rf.control, rf.version, rf.typ, c39TypeCode[f.Kind])
	}
	bad := func(format string, a ...any) ([]string, string, error) {
		return nil, "wire-" + f.Kind, fmt.Errorf(format, a...)
	}
	wantFlags := f.Flags
	switch f.Kind {
	case "rst", "ping", "goaway", "window_update":
		wantFlags = 0
	}
	if rf.flags != wantFlags {
		return bad("flags %#x on the wire, want %#x", rf.flags, wantFlags)
	}
	switch f.Kind {
	case "rst", "goaway", "window_update":
		second := f.Status
		if f.Kind == "window_update" {
			second = f.Delta
		}
		if len(p) != 8 || be.Uint32(p) != f.StreamId || be.Uint32(p[4:]) != second {
			return bad("payload %x", p)
		}
	case "ping":
		if len(p) != 4 || be.Uint32(p) != f.Id {
			return bad("payload %x", p)
		}
	case "settings":
		if len(p) != 4+8*len(f.Settings) || be.Uint32(p) != uint32(len(f.Settings)) {
			return bad("payload length %d for %d settings", len(p), len(f.Settings))
		}
		for i, s := range f.Settings {
			if be.Uint32(p[4+8*i:]) != s[0]<<24|s[1] || be.Uint32(p[8+8*i:]) != s[2] {
				return bad("setting %d encoded as %x", i, p[4+8*i:12+8*i])
			}
		}
	case "syn_stream", "syn_reply", "headers":
		pl := headerPrefixLen(rf.typ)
		if len(p) < pl || be.Uint32(p) != f.StreamId {
			return bad("payload prefix %x", c39Head(p, 10))
		}
		if f.Kind == "syn_stream" && (be.Uint32(p[4:]) != f.Assoc || p[8] != f.Prio<<5 || p[9] != f.Slot) {
			return bad("payload prefix %x", p[:10])
		}
		pairs, e := parseBlock(u.frameBlock(p[pl:]))
		if e != nil {
			k := "wire-block-malformed"
			if f.lenChanging() {
				k = "name-len-before-lower"
			}
			return nil, k, fmt.Errorf("header block is not a well-formed SPDY/3 name/value block: %v (decoded so far:%s)", e, fmtPairs(pairs))
		}
		names, e = matchPairs(pairs, f.wants())
		if e != nil {
			k := "wire-block-mismatch"
			if f.lenChanging() {
				k = "name-len-before-lower"
			}
			return nil, k, e
		}
	}
	return names, "", nil
}

func cfField(v reflect.Value, name string) uint64 {
	return v.FieldByName("CFHeader").FieldByName(name).Uint()
}

// compareRead checks the frame returned by ReadFrame against the descriptor.
func compareRead(got bfe_spdy.Frame, f c39Frame, wireNames []string, wireLen int) error {
	want := f.build()
	if reflect.TypeOf(got) != reflect.TypeOf(want) {
		return fmt.Errorf("read back a %T, wrote a %T", got, want)
	}
	gv := reflect.ValueOf(got).Elem()
	if f.Kind != "data" {
		if v, t, l := cfField(gv, "version"), cfField(gv, "frameType"), cfField(gv, "length"); v != 3 || t != uint64(c39TypeCode[f.Kind]) || l != uint64(wireLen-8) {
			return fmt.Errorf("control header version=%d type=%d length=%d, want 3/%d/%d", v, t, l, c39TypeCode[f.Kind], wireLen-8)
		}
		wantFlags := uint64(f.Flags)
		switch f.Kind {
		case "rst", "ping", "goaway", "window_update":
			wantFlags = 0
		}
		if fl := cfField(gv, "Flags"); fl != wantFlags {
			return fmt.Errorf("flags %#x, want %#x", fl, wantFlags)
		}
	}
	var hdr bfe_http.Header
	switch g := got.(type) {
	case *bfe_spdy.SynStreamFrame:
		if uint32(g.StreamId) != f.StreamId || uint32(g.AssociatedToStreamId) != f.Assoc || g.Priority != f.Prio || g.Slot != f.Slot {
			return fmt.Errorf("syn_stream fields sid=%d assoc=%d prio=%d slot=%d", g.StreamId, g.AssociatedToStreamId, g.Priority, g.Slot)
		}
		hdr = g.Headers
	case *bfe_spdy.SynReplyFrame:
		if uint32(g.StreamId) != f.StreamId {
			return fmt.Errorf("syn_reply sid=%d", g.StreamId)
		}
		hdr = g.Headers
	case *bfe_spdy.HeadersFrame:
		if uint32(g.StreamId) != f.StreamId {
			return fmt.Errorf("headers sid=%d", g.StreamId)
		}
		hdr = g.Headers
	case *bfe_spdy.RstStreamFrame:
		if uint32(g.StreamId) != f.StreamId || uint32(g.Status) != f.Status {
			return fmt.Errorf("rst sid=%d status=%d", g.StreamId, g.Status)
		}
	case *bfe_spdy.SettingsFrame:
		if len(g.FlagIdValues) != len(f.Settings) {
			return fmt.Errorf("%d settings read, %d written", len(g.FlagIdValues), len(f.Settings))
		}
		for i, s := range f.Settings {
			x := g.FlagIdValues[i]
			if uint32(x.Flag) != s[0] || uint32(x.Id) != s[1] || x.Value != s[2] {
				return fmt.Errorf("setting %d read as %+v, written %v", i, x, s)
			}
		}
	case *bfe_spdy.PingFrame:
		if g.Id != f.Id {
			return fmt.Errorf("ping id=%d", g.Id)
		}
	case *bfe_spdy.GoAwayFrame:
		if uint32(g.LastGoodStreamId) != f.StreamId || uint32(g.Status) != f.Status {
			return fmt.Errorf("goaway last=%d status=%d", g.LastGoodStreamId, g.Status)
		}
	case *bfe_spdy.WindowUpdateFrame:
		if uint32(g.StreamId) != f.StreamId || g.DeltaWindowSize != f.Delta {
			return fmt.Errorf("window_update sid=%d delta=%d", g.StreamId, g.DeltaWindowSize)
		}
	case *bfe_spdy.DataFrame:
		if uint32(g.StreamId) != f.StreamId || uint8(g.Flags) != f.Flags || !bytes.Equal(g.Data, f.Data) {
			return fmt.Errorf("data sid=%d flags=%#x len=%d", g.StreamId, g.Flags, len(g.Data))
		}
	}
	if f.hasHeaders() {
		// header names are case-insensitive: compare under ASCII case folding
		got := map[string][]string{}
		for k, v := range hdr {
			fk := asciiLower(k)
			if _, dup := got[fk]; dup {
				return fmt.Errorf("two keys fold to %q", fk)
			}
			got[fk] = v
		}
		if len(got) != len(f.Hdrs) {
			return fmt.Errorf("%d header names read, %d written: %q", len(got), len(f.Hdrs), keysOf(got))
		}
		for i, h := range f.Hdrs {
			v, ok := got[asciiLower(wireNames[i])]
			if !ok {
				return fmt.Errorf("header %q (wire name %q) missing; read names %q", h.Name, wireNames[i], keysOf(got))
			}
			if !reflect.DeepEqual(v, h.Values) {
				return fmt.Errorf("header %q read with values %q, written %q", h.Name, v, h.Values)
			}
		}
	}
	return nil
}

func keysOf(m map[string][]string) []string {
	var ks []string
	for k := range m {
		ks = append(ks, k)
	}
	sort.Strings(ks)
	return ks
}

// c39RoundTrip runs one frame sequence. class labels and non-triviality are computed here.
func c39RoundTrip(tb ev.TB, rec *ev.Rec, seq []c39Frame, origin string) {
	c39RoundTripP(tb, rec, seq, origin, nil)
}

func c39RoundTripP(tb ev.TB, rec *ev.Rec, seq []c39Frame, origin string, pre *c39Prelude) {
	var desc []string
	nHdrFrames, nonASCII, lenChanging, multi, upper := 0, false, false, false, false
	for _, f := range seq {
		desc = append(desc, f.String())
		if f.hasHeaders() {
			nHdrFrames++
		}
		for _, h := range f.Hdrs {
			if !isASCII(h.Name) {
				nonASCII = true
			}
			if len(strings.ToLower(h.Name)) != len(h.Name) {
				lenChanging = true
			}
			if len(h.Values) > 1 {
				multi = true
			}
			if asciiLower(h.Name) != h.Name {
				upper = true
			}
		}
	}
	classes := []string{"a:" + origin}
	for _, f := range seq {
		classes = append(classes, "a:kind-"+f.Kind)
	}
	if nHdrFrames >= 2 {
		classes = append(classes, "a:shared-context>=2")
	}
	if nonASCII {
		classes = append(classes, "a:non-ascii-name")
	}
	if lenChanging {
		classes = append(classes, "a:lower-changes-length")
	}
	if multi {
		classes = append(classes, "a:multi-valued")
	}
	if upper {
		classes = append(classes, "a:upper-case-name")
	}
	bigBlock := false
	for _, f := range seq {
		for _, h := range f.Hdrs {
			for _, v := range h.Values {
				if isNoise(v) {
					bigBlock = true
				}
			}
		}
	}
	if bigBlock {
		classes = append(classes, "a:incompressible-value>=20KB")
	}
	fpr := "a|" + strings.Join(desc, "|")
	witness := map[string]any{"part": "a", "frames": desc}
	preFailed := false
	if pre != nil {
		var pd []string
		for _, f := range pre.Frames {
			pd = append(pd, f.String())
		}
		witness["earlier_framer"] = map[string]any{"frames": pd, "transport_fails_after_bytes": pre.Budget}
		fpr = fmt.Sprintf("pre(%d)|%s||%s", pre.Budget, strings.Join(pd, "|"), fpr)
		preFailed = pre.run(tb)
		classes = append(classes, "a:earlier-framer-released")
		if preFailed {
			classes = append(classes, "a:earlier-framer-write-failed")
		}
	}
	rec.Case(fpr, nHdrFrames >= 2 || nonASCII || (preFailed && nHdrFrames >= 1), classes...)

	var wire bytes.Buffer
	wf, err := bfe_spdy.NewFramer(&wire, nil)
	if err != nil {
		tb.Fatalf("NewFramer: %v", err)
	}
	defer wf.ReleaseWriter()
	var rin bytes.Buffer
	rf, err := bfe_spdy.NewFramer(io.Discard, &rin)
	if err != nil {
		tb.Fatalf("NewFramer: %v", err)
	}
	defer rf.ReleaseWriter()
	u := &refInflater{}
	for i, f := range seq {
		witness["failing_frame"] = i
		wire.Reset()
		var werr error
		if p := ev.Try(func() { werr = wf.WriteFrame(f.build()) }); p != nil {
			rec.Fail(tb, "panic-writeframe", witness, "WriteFrame(%s) panicked: %v", f, p)
			return
		}
		if werr != nil {
			rec.Fail(tb, "write-error-"+f.Kind, witness, "WriteFrame(%s) failed: %v", f, werr)
			return
		}
		b := append([]byte(nil), wire.Bytes()...)
		names, key, e := refCheckWire(b, f, u)
		if e != nil && preFailed && strings.HasPrefix(key, "wire-block") {
			key = "stale-block-after-failed-write-on-released-framer"
		}
		if e != nil {
			rec.Fail(tb, key, witness, "frame %d %s: written bytes do not encode the frame: %v", i, f, e)
			return // context is unusable behind a malformed block
		}
		rin.Write(b)
		var got bfe_spdy.Frame
		var rerr error
		if p := ev.Try(func() { got, rerr = rf.ReadFrame() }); p != nil {
			rec.Fail(tb, "panic-readframe", witness, "ReadFrame panicked on the bytes written for frame %d %s: %v", i, f, p)
			return
		}
		if rerr != nil {
			rec.Fail(tb, "read-error-"+f.Kind, witness, "frame %d %s: ReadFrame failed on a well-formed frame: %v", i, f, rerr)
			return
		}
		if e := compareRead(got, f, names, len(b)); e != nil {
			rec.Fail(tb, "read-mismatch-"+f.Kind, witness, "frame %d %s: read back differently: %v", i, f, e)
			return
		}
		if rin.Len() != 0 {
			rec.Fail(tb, "read-left-bytes-"+f.Kind, witness, "frame %d %s: ReadFrame left %d of %d bytes unread", i, f, rin.Len(), len(b))
			return
		}
	}
}

// ---------- generators for (a) ----------

var c39HopNames = map[string]bool{"connection": true, "host": true, "keep-alive": true, "proxy-connection": true, "transfer-encoding": true}

var c39SpecialNames = []string{
	":path", ":method", ":version", ":host", ":scheme", ":status", "content-type", "Content-Length", "X-Forwarded-For", "SET-COOKIE",
	"é", "É", "x-É-y", "ÄÖÜ", "日本", "Ω", // length-preserving lower-casing
	"İ", "x-İ", "K", "KK", "ẞ", "Ⱥ", "Ⱦ-x", // lower-casing changes the byte length
	"\xff", "x-\xff", "\xc3", "a\x80b", "\xf0\x9f", "\xed\xa0\x80", "X\xfe\xfeY", // invalid UTF-8
	"with space", "a:b", "tab\tname", "", "-", "_", "0",
}

// genName draws a header name; names whose lower-casing changes the byte length (known finding
// name-len-before-lower ends the sequence) are only produced when lc is set.
func genName(rt *rapid.T, lc bool) string {
	n := genName1(rt)
	if !lc && len(strings.ToLower(n)) != len(n) {
		n = fmt.Sprintf("x-%x", n)
	}
	return n
}

func genName1(rt *rapid.T) string {
	switch rapid.IntRange(0, 9).Draw(rt, "nameKind") {
	case 0, 1, 2:
		return rapid.StringMatching(`[a-z][a-z0-9-]{0,14}`).Draw(rt, "lname")
	case 3, 4:
		return rapid.StringMatching(`[A-Za-z][A-Za-z0-9-]{0,14}`).Draw(rt, "mname")
	case 5, 6:
		return rapid.SampledFrom(c39SpecialNames).Draw(rt, "sname")
	case 7:
		// arbitrary unicode
		return rapid.StringN(1, 8, 24).Draw(rt, "uname")
	default:
		// arbitrary bytes (mostly invalid UTF-8)
		return string(rapid.SliceOfN(rapid.Byte(), 1, 8).Draw(rt, "bname"))
	}
}

func genValue(rt *rapid.T, allowLong bool) string {
	k := rapid.IntRange(0, 11).Draw(rt, "valKind")
	var b []byte
	switch {
	case k == 0:
		return ""
	case k <= 5:
		return rapid.StringMatching(`[ -~]{1,30}`).Draw(rt, "aval")
	case k <= 8:
		b = rapid.SliceOfN(rapid.ByteRange(1, 255), 1, 40).Draw(rt, "bval")
	case k <= 10 || !allowLong:
		n := rapid.IntRange(100, 5000).Draw(rt, "midLen")
		seed := rapid.SliceOfN(rapid.ByteRange(1, 255), 1, 16).Draw(rt, "midSeed")
		b = bytes.Repeat(seed, n/len(seed)+1)[:n]
	default:
		if rapid.Bool().Draw(rt, "incompressible") {
			// poorly compressible (a big opaque cookie): the compressed header block itself gets large
			return noiseValue(rapid.Uint64().Draw(rt, "noiseSeed"), rapid.IntRange(20000, 70000).Draw(rt, "noiseLen"))
		}
		n := rapid.IntRange(60000, 70000).Draw(rt, "longLen")
		seed := rapid.SliceOfN(rapid.ByteRange(1, 255), 1, 64).Draw(rt, "longSeed")
		b = bytes.Repeat(seed, n/len(seed)+1)[:n]
	}
	return string(b)
}

// isNoise: a long value without a short period (the long compressible class repeats a seed of <= 64 bytes).
func isNoise(v string) bool {
	if len(v) < 20000 {
		return false
	}
	for p := 1; p <= 64; p++ {
		if v[p:p+256] == v[:256] {
			return false
		}
	}
	return true
}

// noiseValue is a deterministic pseudo-random (incompressible) header value without NUL bytes.
func noiseValue(seed uint64, n int) string {
	x := seed | 1
	b := make([]byte, n)
	for i := range b {
		x ^= x << 13
		x ^= x >> 7
		x ^= x << 17
		b[i] = byte(x>>24)%255 + 1
	}
	return string(b)
}

// c39Prelude is an earlier "connection" of the same process: a Framer that writes header frames to a
// transport which fails after Budget bytes, and is then released (as serverConn does on teardown).
// Framers recycle their compression context through a pool, so the case's own Framer may inherit it.
type c39Prelude struct {
	Frames []c39Frame
	Budget int
}

type failAfter struct{ left int }

func (w *failAfter) Write(p []byte) (int, error) {
	if len(p) > w.left {
		n := w.left
		w.left = 0
		return n, fmt.Errorf("transport closed")
	}
	w.left -= len(p)
	return len(p), nil
}

// run plays the prelude; it reports whether a write failed.
func (p *c39Prelude) run(tb ev.TB) (failed bool) {
	fr, err := bfe_spdy.NewFramer(&failAfter{left: p.Budget}, nil)
	if err != nil {
		tb.Fatalf("NewFramer: %v", err)
	}
	for _, f := range p.Frames {
		var werr error
		if pv := ev.Try(func() { werr = fr.WriteFrame(f.build()) }); pv != nil || werr != nil {
			failed = true
			break // a connection is torn down at its first write error
		}
	}
	fr.ReleaseWriter()
	return
}

func genHeaders(rt *rapid.T, lc bool) []c39Hdr {
	n := rapid.IntRange(0, 7).Draw(rt, "nHdrs")
	if rapid.IntRange(0, 19).Draw(rt, "manyHdrs") == 0 {
		n = rapid.IntRange(8, 60).Draw(rt, "nHdrsMany")
	}
	seen := map[string]bool{}
	var hs []c39Hdr
	for len(hs) < n {
		name := genName(rt, lc)
		folds := []string{asciiLower(name), asciiLower(strings.ToLower(name))}
		if c39HopNames[folds[0]] || c39HopNames[folds[1]] || seen[folds[0]] || seen[folds[1]] {
			name = fmt.Sprintf("x%d-%s", len(hs), name)
			folds = []string{asciiLower(name), asciiLower(strings.ToLower(name))}
			if seen[folds[0]] || seen[folds[1]] {
				continue
			}
		}
		seen[folds[0]], seen[folds[1]] = true, true
		nv := 1
		if rapid.IntRange(0, 3).Draw(rt, "multi") == 0 {
			nv = rapid.IntRange(2, 4).Draw(rt, "nVals")
		}
		var vs []string
		for j := 0; j < nv; j++ {
			vs = append(vs, genValue(rt, folds[0] != ":path"))
		}
		hs = append(hs, c39Hdr{Name: name, Values: vs})
	}
	return hs
}

func genStreamID(rt *rapid.T, label string) uint32 {
	switch rapid.IntRange(0, 3).Draw(rt, label+"Kind") {
	case 0:
		return uint32(rapid.IntRange(1, 10).Draw(rt, label))
	case 1:
		return rapid.SampledFrom([]uint32{1, 2, 0x7fffffff, 0x7ffffffe, 0x40000000, 0x08000000, 0x00ffffff, 0x01000000}).Draw(rt, label)
	default:
		return rapid.Uint32Range(1, 0x7fffffff).Draw(rt, label)
	}
}

func genFrame(rt *rapid.T, lc bool) c39Frame {
	kinds := []string{"syn_stream", "syn_stream", "syn_reply", "syn_reply", "headers", "headers", "rst", "settings", "ping", "goaway", "window_update", "data"}
	f := c39Frame{Kind: rapid.SampledFrom(kinds).Draw(rt, "kind")}
	f.StreamId = genStreamID(rt, "sid")
	anyFlags := func() uint8 {
		if rapid.Bool().Draw(rt, "legalFlags") {
			return uint8(rapid.IntRange(0, 3).Draw(rt, "flags"))
		}
		return rapid.Byte().Draw(rt, "flagsAny")
	}
	switch f.Kind {
	case "syn_stream":
		f.Assoc = genStreamID(rt, "assoc") - 1
		f.Prio = uint8(rapid.IntRange(0, 7).Draw(rt, "prio"))
		f.Slot = rapid.Byte().Draw(rt, "slot")
		f.Flags = anyFlags()
		f.Hdrs = genHeaders(rt, lc)
	case "syn_reply", "headers":
		f.Flags = anyFlags()
		f.Hdrs = genHeaders(rt, lc)
	case "rst":
		f.Status = rapid.OneOf(rapid.Uint32Range(1, 11), rapid.Uint32Range(1, 0xffffffff)).Draw(rt, "status")
	case "goaway":
		f.StreamId--
		f.Status = rapid.OneOf(rapid.Uint32Range(0, 2), rapid.Uint32()).Draw(rt, "status")
	case "settings":
		f.Flags = anyFlags()
		n := rapid.IntRange(0, 6).Draw(rt, "nSettings")
		if rapid.IntRange(0, 29).Draw(rt, "manySettings") == 0 {
			n = rapid.IntRange(7, 1024).Draw(rt, "nSettingsMany")
		}
		for i := 0; i < n; i++ {
			id := rapid.OneOf(rapid.Uint32Range(1, 8), rapid.Uint32Range(0, 0xffffff)).Draw(rt, "setId")
			f.Settings = append(f.Settings, [3]uint32{uint32(rapid.Byte().Draw(rt, "setFlag")), id, rapid.Uint32().Draw(rt, "setVal")})
		}
	case "ping":
		f.StreamId = 0
		f.Id = rapid.OneOf(rapid.Uint32Range(1, 100), rapid.Uint32Range(1, 0xffffffff)).Draw(rt, "pingId")
	case "window_update":
		if rapid.Bool().Draw(rt, "sessionWU") {
			f.StreamId = 0
		}
		f.Delta = rapid.OneOf(rapid.Uint32Range(1, 70000), rapid.Uint32Range(0, 0x7fffffff)).Draw(rt, "delta")
	case "data":
		f.Flags = anyFlags()
		n := rapid.OneOf(rapid.IntRange(0, 64), rapid.IntRange(0, 20000)).Draw(rt, "dataLen")
		seed := rapid.SliceOfN(rapid.Byte(), 1, 32).Draw(rt, "dataSeed")
		f.Data = bytes.Repeat(seed, n/len(seed)+1)[:n]
	}
	return f
}

func c39Sweep(t *testing.T, rec *ev.Rec) {
	hdr := []c39Hdr{{":method", []string{"GET"}}, {"Accept", []string{"a", "b"}}, {"x-empty", []string{""}}}
	base := []c39Frame{
		{Kind: "syn_stream", StreamId: 1, Assoc: 0, Prio: 7, Slot: 255, Flags: 1, Hdrs: hdr},
		{Kind: "syn_reply", StreamId: 1, Flags: 1, Hdrs: hdr},
		{Kind: "headers", StreamId: 0x7fffffff, Hdrs: hdr},
		{Kind: "rst", StreamId: 0x7fffffff, Status: 0xffffffff},
		{Kind: "settings", Flags: 1, Settings: [][3]uint32{{255, 0xffffff, 0xffffffff}, {1, 7, 65536}}},
		{Kind: "ping", Id: 0xffffffff},
		{Kind: "goaway", StreamId: 0, Status: 0},
		{Kind: "window_update", StreamId: 0, Delta: 0x7fffffff},
		{Kind: "data", StreamId: 0x7fffffff, Flags: 255, Data: []byte("hello")},
		{Kind: "data", StreamId: 1, Data: nil},
	}
	for _, f := range base {
		c39RoundTrip(t, rec, []c39Frame{f}, "sweep")
	}
	c39RoundTrip(t, rec, base, "sweep")
	// a large, poorly compressible header value in the middle of a history, on each header-bearing kind
	for _, kind := range []string{"syn_stream", "syn_reply", "headers"} {
		for _, n := range []int{20000, 33000, 48000, 70000} {
			small := c39Frame{Kind: "syn_reply", StreamId: 1, Hdrs: hdr}
			big := c39Frame{Kind: kind, StreamId: 3, Hdrs: []c39Hdr{{"cookie", []string{noiseValue(uint64(n), n)}}, {"x-a", []string{"b"}}}}
			c39RoundTrip(t, rec, []c39Frame{small, big, {Kind: "headers", StreamId: 3, Hdrs: hdr}, {Kind: "syn_stream", StreamId: 5, Hdrs: hdr}, big, small}, "sweep")
		}
	}
	// an earlier Framer whose transport fails inside a header frame is released; the next Framer must be clean
	for _, kind := range []string{"syn_stream", "syn_reply", "headers"} {
		for _, budget := range []int{0, 7, 8, 12, 20, 60, 1 << 20} {
			pre := &c39Prelude{Frames: []c39Frame{{Kind: "ping", Id: 1}, {Kind: kind, StreamId: 1, Hdrs: []c39Hdr{{"x-earlier-connection", []string{"secret-of-another-client"}}, {"set-cookie", []string{noiseValue(7, 300)}}}}}, Budget: budget}
			c39RoundTripP(t, rec, []c39Frame{{Kind: "syn_reply", StreamId: 1, Hdrs: hdr}, {Kind: "headers", StreamId: 1, Hdrs: hdr}}, "sweep", pre)
		}
	}
	for _, n := range c39SpecialNames {
		if c39HopNames[asciiLower(n)] {
			continue
		}
		for _, kind := range []string{"syn_stream", "syn_reply", "headers"} {
			f := c39Frame{Kind: kind, StreamId: 3, Hdrs: []c39Hdr{{n, []string{"v"}}}}
			g := c39Frame{Kind: "syn_reply", StreamId: 5, Hdrs: []c39Hdr{{"after", []string{"w"}}}}
			c39RoundTrip(t, rec, []c39Frame{f, g}, "sweep")
		}
	}
}

// ---------- (b) byte streams ----------

const c39SentinelID = 0x0badcafd

var c39Sentinel = ctlFrame(tPing, 0, u32(c39SentinelID))

type c39Raw struct {
	A       []byte
	Class   string
	Incons  bool   // length field / block inconsistent with the type's structure
	KeyHint string // discriminating feature for finding keys
	Child   bool   // declared sizes beyond 64 MB: probe in a child process under an address-space limit
}

func typeName(a []byte) string {
	if len(a) < 4 {
		return "short"
	}
	if a[0]&0x80 == 0 {
		return "data"
	}
	switch binary.BigEndian.Uint16(a[2:]) {
	case tSynStream:
		return "syn-stream"
	case tSynReply:
		return "syn-reply"
	case tRstStream:
		return "rst-stream"
	case tSettings:
		return "settings"
	case tPing:
		return "ping"
	case tGoAway:
		return "goaway"
	case tHeaders:
		return "headers"
	case tWindowUpdate:
		return "window-update"
	}
	return "unknown-type"
}

// c39AllocBound: what a frame of these bytes can justify. Header blocks may legitimately expand
// (zlib) and are held a few times (bytes, string, split values); every NUL separator costs a
// string header and slice growth. Everything else is bounded by the bytes present plus fixed
// decoder state (zlib window and tables, bufio, maps sized by the capped counts).
func c39AllocBound(a []byte) uint64 {
	d, nul := 0, 0
	for _, off := range []int{8 + 4, 8 + 10} {
		if len(a) > off {
			x, y := inflateAll(a[off:], 64<<20)
			if x > d {
				d = x
			}
			if y > nul {
				nul = y
			}
		}
	}
	return uint64(8*d + 128*nul + 8*len(a) + 256<<10)
}

// c39Res is what one probe of A||PING observed.
type c39Res struct {
	Panic1   string // panic of ReadFrame(A)
	Alloc    uint64 // TotalAlloc delta of ReadFrame(A)
	Err1     string // error of ReadFrame(A) ("" = accepted)
	First    string
	Panic2   string
	Second   string // "" if the second ReadFrame returned exactly the sentinel
	Third    string // "" if the third ReadFrame returned io.EOF
	Died     string // child process died while reading A (out of memory ...)
	Excluded bool
}

// c39Probe reads A||PING with a fresh Framer (in this process).
func c39Probe(a []byte) (res c39Res) {
	stream := append(append([]byte(nil), a...), c39Sentinel...)
	fr, err := bfe_spdy.NewFramer(io.Discard, bytes.NewReader(stream))
	if err != nil {
		panic(err)
	}
	defer fr.ReleaseWriter()
	var f1 bfe_spdy.Frame
	var e1 error
	var m0, m1 runtime.MemStats
	runtime.ReadMemStats(&m0)
	p := ev.Try(func() { f1, e1 = fr.ReadFrame() })
	runtime.ReadMemStats(&m1)
	res.Alloc = m1.TotalAlloc - m0.TotalAlloc
	if p != nil {
		res.Panic1 = fmt.Sprint(p)
		return
	}
	if e1 != nil {
		res.Err1 = e1.Error()
		if res.Err1 == "" {
			res.Err1 = "error"
		}
		return
	}
	res.First = fmt.Sprintf("%#v", f1)
	if len(res.First) > 300 {
		res.First = res.First[:300]
	}
	var f2 bfe_spdy.Frame
	var e2 error
	if p := ev.Try(func() { f2, e2 = fr.ReadFrame() }); p != nil {
		res.Panic2 = fmt.Sprint(p)
		return
	}
	if pf, ok := f2.(*bfe_spdy.PingFrame); e2 != nil || !ok || pf.Id != c39SentinelID {
		res.Second = fmt.Sprintf("(%#v, %v)", f2, e2)
		if len(res.Second) > 300 {
			res.Second = res.Second[:300]
		}
		return
	}
	var e3 error
	if p := ev.Try(func() { _, e3 = fr.ReadFrame() }); p != nil || e3 != io.EOF {
		res.Third = fmt.Sprintf("panic=%v err=%v", p, e3)
	}
	return
}

// c39HugeCount reports a SETTINGS entry count whose slice would exceed 64 MB: such frames are only
// probed in a child process under an address-space limit.
func c39HugeCount(a []byte) bool {
	return len(a) >= 12 && a[0]&0x80 != 0 && binary.BigEndian.Uint16(a[2:]) == tSettings && binary.BigEndian.Uint32(a[8:]) > (64<<20)/12
}

func c39ReadRaw(tb ev.TB, rec *ev.Rec, r c39Raw) {
	md, _ := refMaxDeclared(append(append([]byte(nil), r.A...), c39Sentinel...))
	if md > 64<<20 || c39HugeCount(r.A) {
		if r.Child {
			c39ChildProbes(tb, rec, []c39Raw{r})
			return
		}
		rec.Case("b|"+fmt.Sprintf("%x", r.A), r.Incons, "b:"+r.Class, "b:type-"+typeName(r.A))
		rec.Excluded("b: declared length/count > 64 MB (only probed in the guarded child process of the sweep)")
		return
	}
	c39Verdict(tb, rec, r, c39Probe(r.A))
}

func c39Verdict(tb ev.TB, rec *ev.Rec, r c39Raw, res c39Res) {
	tn := typeName(r.A)
	rec.Case("b|"+fmt.Sprintf("%x", r.A), r.Incons, "b:"+r.Class, "b:type-"+tn)
	witness := map[string]any{"part": "b", "class": r.Class, "A_hex": fmt.Sprintf("%x", c39Head(r.A, 4096)), "A_len": len(r.A), "B_hex": fmt.Sprintf("%x", c39Sentinel)}
	md, overKind := refMaxDeclared(append(append([]byte(nil), r.A...), c39Sentinel...))
	bound := c39AllocBound(r.A)
	allocKey := "alloc-" + tn
	if overKind != "" {
		// the block declares a name/value longer than what it carries
		allocKey = "alloc-" + overKind + "-length-prefix"
	} else if r.KeyHint != "" {
		allocKey = "alloc-" + r.KeyHint
	}
	witness["over_declared"] = overKind
	witness["max_declared"] = md
	if res.Died != "" {
		rec.Class("b:alloc-over-bound")
		rec.Fail(tb, allocKey, witness, "reading a %d-byte %s frame (%s) killed the process under a %d MB address-space limit: %s (justified allocation bound %d bytes)", len(r.A), tn, r.Class, c39ChildLimitMB, res.Died, bound)
		return
	}
	if res.Panic1 != "" {
		if !rec.Fail(tb, "panic-readframe-"+tn, witness, "ReadFrame panicked on a %s frame (%s): %v", tn, r.Class, res.Panic1) {
			return
		}
	}
	if res.Alloc > bound {
		witness["alloc_bytes"] = res.Alloc
		witness["bound_bytes"] = bound
		rec.Class("b:alloc-over-bound")
		if !rec.Fail(tb, allocKey, witness, "ReadFrame allocated %d bytes for a %d-byte %s frame (%s); justified bound %d", res.Alloc, len(r.A), tn, r.Class, bound) {
			return
		}
	}
	if res.Panic1 != "" {
		return
	}
	if res.Err1 != "" {
		rec.Class("b:A-rejected")
		return
	}
	rec.Class("b:A-accepted")
	if res.Panic2 != "" {
		rec.Fail(tb, "panic-readframe-after-"+tn, witness, "second ReadFrame panicked after a %s frame (%s): %v", tn, r.Class, res.Panic2)
		return
	}
	if res.Second != "" {
		witness["first_frame"] = res.First
		rec.Fail(tb, "boundary-lost-"+tn, witness, "ReadFrame accepted a %d-byte %s frame (%s) without error but the next ReadFrame returned %s instead of the sentinel PING that follows it", len(r.A), tn, r.Class, res.Second)
		return
	}
	if res.Third != "" {
		rec.Fail(tb, "boundary-lost-"+tn, witness, "after A and the sentinel the stream is not at EOF: %s", res.Third)
	}
}

// header block anomalies
func genBlockFrame(rt *rapid.T) c39Raw {
	typ := rapid.SampledFrom([]uint16{tSynStream, tSynReply, tHeaders}).Draw(rt, "htype")
	sid := uint32(rapid.IntRange(1, 9).Draw(rt, "sid"))
	np := rapid.IntRange(0, 4).Draw(rt, "nPairs")
	var pairs []refPair
	for i := 0; i < np; i++ {
		pairs = append(pairs, refPair{fmt.Sprintf("n%d-%s", i, rapid.StringMatching(`[a-z]{0,6}`).Draw(rt, "pn")),
			rapid.StringMatching(`[ -~]{0,20}`).Draw(rt, "pv")})
	}
	raw := rawBlock(pairs)
	anomaly := rapid.SampledFrom([]string{"valid", "valid", "name-len-over", "value-len-over", "count-over-actual", "count-over-limit",
		"trailing-raw", "trailing-compressed", "short-prefix", "cut-payload", "upper-name", "dup-name", "garbage-block", "nul-values", "expanding-value"}).Draw(rt, "anomaly")
	over := func() uint32 {
		return rapid.SampledFrom([]uint32{1 << 16, 300000, 1 << 19, 1 << 19, 1<<19 + 12345, 1 << 20, 1 << 20, 1 << 22, 0x7fffffff, 0xffffffff}).Draw(rt, "over")
	}
	r := c39Raw{Class: "hdr-" + anomaly, Incons: anomaly != "valid"}
	var tail []byte
	switch anomaly {
	case "name-len-over", "value-len-over":
		if len(pairs) == 0 {
			pairs = []refPair{{"a", "b"}}
		}
		// rebuild with the last pair's name/value length over-declared
		last := pairs[len(pairs)-1]
		raw = rawBlock(pairs[:len(pairs)-1])
		binary.BigEndian.PutUint32(raw, uint32(len(pairs)))
		v := over()
		if rapid.Bool().Draw(rt, "byOne") {
			v = uint32(len(last.name) + 1)
			if anomaly == "value-len-over" {
				v = uint32(len(last.value) + 1)
			}
		}
		if anomaly == "name-len-over" {
			raw = append(raw, u32(v)...)
			raw = append(raw, last.name...)
			raw = append(raw, u32(uint32(len(last.value)))...)
			raw = append(raw, last.value...)
		} else {
			raw = append(raw, u32(uint32(len(last.name)))...)
			raw = append(raw, last.name...)
			raw = append(raw, u32(v)...)
			raw = append(raw, last.value...)
		}
	case "count-over-actual":
		binary.BigEndian.PutUint32(raw, uint32(len(pairs)+rapid.IntRange(1, 3).Draw(rt, "extraCount")))
	case "count-over-limit":
		binary.BigEndian.PutUint32(raw, rapid.SampledFrom([]uint32{1025, 5000, 100000, 200000}).Draw(rt, "bigCount"))
		r.KeyHint = "pair-count"
	case "trailing-raw":
		raw = append(raw, rapid.SliceOfN(rapid.Byte(), 1, 12).Draw(rt, "trailRaw")...)
	case "trailing-compressed":
		tail = rapid.SliceOfN(rapid.Byte(), 1, 12).Draw(rt, "trailComp")
		if rapid.Bool().Draw(rt, "bigTail") {
			// more than any read-ahead buffer of the decompressor can swallow
			tail = bytes.Repeat(tail, rapid.IntRange(4100, 20000).Draw(rt, "tailLen")/len(tail)+1)
		}
	case "upper-name":
		raw = rawBlock(append(pairs, refPair{"X-Upper", "v"}))
	case "dup-name":
		raw = rawBlock(append(pairs, refPair{"dup", "1"}, refPair{"dup", "2"}))
	case "nul-values":
		n := rapid.IntRange(1, 2000).Draw(rt, "nNul")
		raw = rawBlock(append(pairs, refPair{"many", strings.Repeat("\x00", n)}))
	case "expanding-value":
		n := rapid.IntRange(10000, 300000).Draw(rt, "nExp")
		raw = rawBlock(append(pairs, refPair{"big", strings.Repeat("a", n)}))
	}
	comp := newRefDeflater().block(raw)
	if anomaly == "garbage-block" {
		comp = rapid.SliceOfN(rapid.Byte(), 0, 40).Draw(rt, "garbage")
	}
	comp = append(comp, tail...)
	var prefix []byte
	if typ == tSynStream {
		prefix = append(u32(sid, 0), byte(rapid.IntRange(0, 7).Draw(rt, "prio")<<5), 0)
	} else {
		prefix = u32(sid)
	}
	payload := append(prefix, comp...)
	switch anomaly {
	case "short-prefix":
		payload = payload[:rapid.IntRange(0, len(prefix)-1).Draw(rt, "shortLen")]
	case "cut-payload":
		payload = payload[:rapid.IntRange(len(prefix), len(payload)-1).Draw(rt, "cutLen")]
	}
	r.A = ctlFrame(typ, uint8(rapid.IntRange(0, 1).Draw(rt, "hflags")), payload)
	return r
}

func genFixedFrame(rt *rapid.T) c39Raw {
	typ := rapid.SampledFrom([]uint16{tRstStream, tPing, tGoAway, tWindowUpdate, tSettings}).Draw(rt, "ftype")
	var body []byte
	switch typ {
	case tPing:
		body = u32(uint32(rapid.IntRange(1, 1000).Draw(rt, "pid")))
	case tSettings:
		n := rapid.IntRange(0, 4).Draw(rt, "nset")
		body = u32(uint32(n))
		for i := 0; i < n; i++ {
			body = append(body, u32(uint32(rapid.IntRange(1, 8).Draw(rt, "sid")), rapid.Uint32().Draw(rt, "sval"))...)
		}
	default:
		body = u32(uint32(rapid.IntRange(1, 9).Draw(rt, "sid")), uint32(rapid.IntRange(1, 11).Draw(rt, "second")))
	}
	r := c39Raw{}
	shape := rapid.SampledFrom([]string{"exact", "extra", "extra", "short", "short", "count-over", "count-under"}).Draw(rt, "shape")
	flags := uint8(0)
	if rapid.IntRange(0, 5).Draw(rt, "setFlags") == 0 {
		flags = rapid.Byte().Draw(rt, "fflags")
	}
	switch shape {
	case "extra":
		extra := rapid.SliceOfN(rapid.Byte(), 1, 16).Draw(rt, "extra")
		if rapid.Bool().Draw(rt, "extraWord") {
			extra = make([]byte, 4*rapid.IntRange(1, 3).Draw(rt, "extraWords"))
		}
		body = append(body, extra...)
		r.Incons = true
	case "short":
		body = body[:rapid.IntRange(0, len(body)-1).Draw(rt, "shortTo")]
		r.Incons = true
	case "count-over":
		if typ == tSettings {
			binary.BigEndian.PutUint32(body, binary.BigEndian.Uint32(body)+uint32(rapid.SampledFrom([]int{1, 2, 1000, 1025, 1 << 20}).Draw(rt, "cntOver")))
			r.Incons = true
		}
	case "count-under":
		if typ == tSettings && binary.BigEndian.Uint32(body) > 0 {
			binary.BigEndian.PutUint32(body, binary.BigEndian.Uint32(body)-1)
			r.Incons = true
		}
	}
	r.Class = "fixed-" + shape
	r.A = ctlFrame(typ, flags, body)
	if typ == tSettings && rapid.IntRange(0, 11).Draw(rt, "wrapCount") == 5 {
		// count = true count + m*2^29: 4+8*count wraps to the declared length in 32-bit arithmetic
		n := rapid.IntRange(0, 6).Draw(rt, "wrapEntries")
		m := uint32(rapid.IntRange(1, 7).Draw(rt, "wrapM"))
		body = u32(m<<29 | uint32(n))
		for i := 0; i < n; i++ {
			body = append(body, u32(uint32(rapid.IntRange(1, 8).Draw(rt, "sid")), rapid.Uint32().Draw(rt, "sval"))...)
		}
		r = c39Raw{A: ctlFrame(tSettings, 0, body), Class: "fixed-settings-count-wrap", Incons: true, Child: true}
	}
	return r
}

func genOtherFrame(rt *rapid.T) c39Raw {
	switch rapid.IntRange(0, 2).Draw(rt, "other") {
	case 0:
		n := rapid.OneOf(rapid.IntRange(0, 16), rapid.IntRange(0, 5000)).Draw(rt, "dlen")
		sid := uint32(rapid.IntRange(0, 5).Draw(rt, "dsid"))
		return c39Raw{Class: "data", A: dataFrame(sid, uint8(rapid.IntRange(0, 1).Draw(rt, "dflags")), bytes.Repeat([]byte{0x5a}, n))}
	case 1:
		typ := rapid.SampledFrom([]uint16{0, 5, 10, 11, 0xffff}).Draw(rt, "utype")
		return c39Raw{Class: "unknown-type", A: ctlFrame(typ, rapid.Byte().Draw(rt, "uflags"), rapid.SliceOfN(rapid.Byte(), 0, 24).Draw(rt, "ubody"))}
	default:
		// random bytes behind a consistent common header
		body := rapid.SliceOfN(rapid.Byte(), 0, 64).Draw(rt, "rbody")
		hd := rapid.SliceOfN(rapid.Byte(), 5, 5).Draw(rt, "rhead")
		a := append([]byte{hd[0], hd[1], hd[2], hd[3], hd[4], 0, 0, byte(len(body))}, body...)
		if rapid.Bool().Draw(rt, "knownType") {
			a[0], a[1], a[2] = 0x80, 3, 0
			a[3] = byte(rapid.SampledFrom([]int{1, 2, 3, 4, 6, 7, 8, 9}).Draw(rt, "rtype"))
		}
		return c39Raw{Class: "random-consistent", A: a, Incons: true}
	}
}

func genRaw(rt *rapid.T) c39Raw {
	var r c39Raw
	switch rapid.IntRange(0, 9).Draw(rt, "rawKind") {
	case 0, 1, 2, 3:
		r = genBlockFrame(rt)
	case 4, 5, 6:
		r = genFixedFrame(rt)
	default:
		r = genOtherFrame(rt)
	}
	if rapid.IntRange(0, 4).Draw(rt, "mutate") == 0 && len(r.A) > 8 {
		// byte mutations that keep the declared length equal to the actual one
		n := rapid.IntRange(1, 3).Draw(rt, "nMut")
		for i := 0; i < n; i++ {
			pos := rapid.IntRange(0, len(r.A)-1).Draw(rt, "mutPos")
			if pos >= 5 && pos <= 7 {
				continue
			}
			r.A[pos] ^= byte(1 << rapid.IntRange(0, 7).Draw(rt, "mutBit"))
		}
		r.Class += "+mutated"
		r.KeyHint = ""
		r.Incons = true
	}
	return r
}

func c39RawSweep(t *testing.T, rec *ev.Rec) {
	for _, typ := range []uint16{tRstStream, tGoAway, tWindowUpdate} {
		for l := 0; l <= 16; l++ {
			body := append(u32(1, 1), make([]byte, 8)...)[:l]
			c39ReadRaw(t, rec, c39Raw{A: ctlFrame(typ, 0, body), Class: "sweep-fixed-length", Incons: l != 8})
		}
	}
	for l := 0; l <= 12; l++ {
		body := append(u32(7), make([]byte, 8)...)[:l]
		c39ReadRaw(t, rec, c39Raw{A: ctlFrame(tPing, 0, body), Class: "sweep-fixed-length", Incons: l != 4})
	}
	for n := uint32(0); n <= 3; n++ {
		for l := 0; l <= 28; l += 4 {
			body := append(u32(n, 7, 1, 7, 2, 7, 3), make([]byte, 4)...)[:l]
			c39ReadRaw(t, rec, c39Raw{A: ctlFrame(tSettings, 0, body), Class: "sweep-fixed-length", Incons: l != int(4+8*n)})
		}
	}
	for _, typ := range []uint16{tSynStream, tSynReply, tHeaders} {
		pl := headerPrefixLen(typ)
		full := append(append(u32(1, 0), 0, 0)[:pl], newRefDeflater().block(rawBlock([]refPair{{"a", "b"}}))...)
		for l := 0; l <= len(full); l++ {
			c39ReadRaw(t, rec, c39Raw{A: ctlFrame(typ, 0, full[:l]), Class: "sweep-header-length", Incons: l != len(full)})
		}
		for _, tl := range []int{1, 5, 4000, 4096, 4200, 9000, 70000} {
			c39ReadRaw(t, rec, c39Raw{A: ctlFrame(typ, 0, append(append([]byte(nil), full...), bytes.Repeat([]byte{0xa5}, tl)...)), Class: "sweep-trailing-compressed", Incons: true})
		}
		overs := []uint32{2, 1 << 16, 1 << 19, 1 << 20}
		if typ == tSynReply {
			overs = append(overs, 1<<24)
		}
		for _, over := range overs {
			for which := 0; which < 2; which++ {
				raw := u32(1)
				if which == 0 {
					raw = append(append(append(raw, u32(over)...), 'a'), append(u32(1), 'b')...)
				} else {
					raw = append(append(append(raw, u32(1)...), 'a'), append(u32(over), 'b')...)
				}
				a := ctlFrame(typ, 0, append(append(u32(1, 0), 0, 0)[:pl], newRefDeflater().block(raw)...))
				c39ReadRaw(t, rec, c39Raw{A: a, Class: "sweep-length-prefix", Incons: true})
			}
		}
	}
}

func TestC39(t *testing.T) {
	rec := ev.New("C39", c39Rule)
	spdyDict()
	c39Sweep(t, rec)
	c39RawSweep(t, rec)
	c39GuardedSweep(t, rec)
	maxSeq := ev.N(6, 8)
	rapid.Check(t, func(rt *rapid.T) {
		if rapid.Bool().Draw(rt, "part") {
			n := rapid.IntRange(1, maxSeq).Draw(rt, "nFrames")
			lc := rapid.IntRange(0, 5).Draw(rt, "lenChangingNames") == 0
			var seq []c39Frame
			for i := 0; i < n; i++ {
				seq = append(seq, genFrame(rt, lc))
			}
			desc := make([]string, len(seq))
			for i, f := range seq {
				desc[i] = f.String()
			}
			rec.Sample(map[string]any{"part": "a", "frames": desc})
			var pre *c39Prelude
			if rapid.IntRange(0, 3).Draw(rt, "prelude") == 0 {
				pre = &c39Prelude{}
				for i, n := 0, rapid.IntRange(1, 3).Draw(rt, "preFrames"); i < n; i++ {
					f := genFrame(rt, false)
					if i == n-1 && !f.hasHeaders() {
						f = c39Frame{Kind: "syn_reply", StreamId: 1, Hdrs: genHeaders(rt, false)}
					}
					pre.Frames = append(pre.Frames, f)
				}
				// somewhere inside (mostly) the last frame, or beyond everything (no failure)
				pre.Budget = rapid.OneOf(rapid.IntRange(0, 40), rapid.IntRange(0, 400), rapid.IntRange(0, 100000)).Draw(rt, "preBudget")
			}
			c39RoundTripP(rt, rec, seq, "generated", pre)
		} else {
			r := genRaw(rt)
			rec.Sample(map[string]any{"part": "b", "class": r.Class, "A_hex": fmt.Sprintf("%x", c39Head(r.A, 64)), "A_len": len(r.A)})
			c39ReadRaw(rt, rec, r)
		}
	})
}

// FuzzC39: raw bytes A (length field forced consistent) followed by the sentinel PING.
func FuzzC39(f *testing.F) {
	rec := ev.New("C39", c39Rule)
	spdyDict()
	f.Add(ctlFrame(tPing, 0, u32(1)))
	f.Add(ctlFrame(tRstStream, 0, u32(1, 1)))
	f.Add(ctlFrame(tSettings, 0, u32(1, 7, 65536)))
	f.Add(ctlFrame(tGoAway, 0, u32(1, 0)))
	f.Add(ctlFrame(tWindowUpdate, 0, u32(1, 100)))
	f.Add(dataFrame(1, 1, []byte("hello")))
	for _, typ := range []uint16{tSynStream, tSynReply, tHeaders} {
		pl := headerPrefixLen(typ)
		f.Add(ctlFrame(typ, 0, append(append(u32(1, 0), 0, 0)[:pl], newRefDeflater().block(rawBlock([]refPair{{":method", "GET"}, {"accept", "a\x00b"}}))...)))
	}
	f.Fuzz(func(t *testing.T, a []byte) {
		if len(a) < 8 || len(a) > 1<<16 {
			return
		}
		a = append([]byte(nil), a...)
		n := len(a) - 8
		a[5], a[6], a[7] = byte(n>>16), byte(n>>8), byte(n)
		c39ReadRaw(t, rec, c39Raw{A: a, Class: "fuzz", Incons: true})
	})
}

// TestC39WriteCorpus writes the seed corpus of FuzzC39 (go fuzz corpus file format) into the
// directory named by VERIF_WRITE_CORPUS; it is a maintenance helper and skipped otherwise.
func TestC39WriteCorpus(t *testing.T) {
	dir := os.Getenv("VERIF_WRITE_CORPUS")
	if dir == "" {
		t.Skip("maintenance helper")
	}
	hb := func(typ uint16, raw []byte) []byte {
		return ctlFrame(typ, 0, append(append(u32(1, 0), 0, 0)[:headerPrefixLen(typ)], newRefDeflater().block(raw)...))
	}
	seeds := map[string][]byte{
		"ping":                 ctlFrame(tPing, 0, u32(1)),
		"ping-len8":            ctlFrame(tPing, 0, u32(1, 2)),
		"rst-len0":             ctlFrame(tRstStream, 0, nil),
		"rst-len12":            ctlFrame(tRstStream, 0, u32(1, 1, 0)),
		"settings-count-short": ctlFrame(tSettings, 0, u32(1)),
		"settings-extra":       ctlFrame(tSettings, 0, u32(0, 7, 1)),
		"goaway-len4":          ctlFrame(tGoAway, 0, u32(1)),
		"wu":                   ctlFrame(tWindowUpdate, 0, u32(1, 100)),
		"data":                 dataFrame(1, 1, []byte("hello")),
		"data-sid0":            dataFrame(0, 0, []byte("x")),
		"syn-stream":           hb(tSynStream, rawBlock([]refPair{{":method", "GET"}, {":path", "/"}, {"accept", "a\x00b"}})),
		"syn-reply":            hb(tSynReply, rawBlock([]refPair{{":status", "200"}})),
		"headers":              hb(tHeaders, rawBlock([]refPair{{"x", "y"}})),
		"syn-reply-name-1mb":   hb(tSynReply, append(u32(1, 1<<20), 'a')),
		"headers-value-1mb":    hb(tHeaders, append(append(u32(1, 1), 'a'), u32(1<<20)...)),
		"syn-stream-count-big": hb(tSynStream, u32(100000)),
		"syn-stream-len4":      ctlFrame(tSynStream, 0, u32(1)),
		"syn-reply-upper":      hb(tSynReply, rawBlock([]refPair{{"X-Upper", "v"}})),
		"unknown-type":         ctlFrame(11, 3, []byte{1, 2, 3}),
	}
	if err := os.MkdirAll(dir, 0o755); err != nil {
		t.Fatal(err)
	}
	for name, b := range seeds {
		if err := os.WriteFile(filepath.Join(dir, name), []byte(fmt.Sprintf("go test fuzz v1\n[]byte(%q)\n", b)), 0o644); err != nil {
			t.Fatal(err)
		}
	}
}

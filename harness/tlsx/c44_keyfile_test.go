package tlsx

import (
	"bytes"
	"encoding/hex"
	"encoding/json"
	"fmt"
	"os"
	"path/filepath"
	"strings"
	"sync"

	"github.com/bfenetworks/bfe/bfe_config/bfe_tls_conf/session_ticket_key_conf"
	"github.com/bfenetworks/bfe/bfe_tls"
	"pgregory.net/rapid"

	"verif/harness/internal/ev"
)

// C44, key material: "issued by this server with its current key" presupposes
// that the current key is the one the operator configured. The ticket key
// reaches the server through session_ticket_key_conf.SessionTicketKeyConfLoad
// (bfe_server init and /reload/tls_session_ticket_key). Documented formats
// (docs/en_us/configuration/tls_conf/session_ticket_key.data.md and the
// loader's own comments): a JSON object {Version, SessionTicketKey = 96 hex
// digits}, or a raw file of exactly 48 bytes. Oracle: a file loads only if it
// is in one of these formats and then yields exactly that key; files in the
// documented formats must load. For a file that loads although it is in
// neither format the harness also shows the consequence: a ticket sealed under
// "the first 48 bytes of the file" is offered to a server configured the way
// bfe_server configures it.

var (
	keyDirOnce sync.Once
	keyDir     string
)

func c44KeyPath() string {
	keyDirOnce.Do(func() {
		base := os.Getenv("VERIF_WORK")
		d, err := os.MkdirTemp(base, "c44key")
		if err != nil {
			d, _ = os.MkdirTemp("", "c44key")
		}
		keyDir = d
	})
	return filepath.Join(keyDir, "session_ticket_key.data")
}

// refKey: the key a documented-format file designates (nil: not a documented format).
func c44RefKey(content []byte) []byte {
	var ref struct {
		Version          string
		SessionTicketKey string
	}
	if err := json.NewDecoder(bytes.NewReader(content)).Decode(&ref); err == nil {
		k, err := hex.DecodeString(ref.SessionTicketKey)
		if err == nil && len(k) == 48 && ref.Version != "" {
			return k
		}
		return nil
	}
	if len(content) == 48 {
		return content
	}
	return nil
}

func c44CheckKeyFile(tb ev.TB, rec *ev.Rec, class string, content []byte, mustLoad bool) {
	path := c44KeyPath()
	if err := os.WriteFile(path, content, 0o644); err != nil {
		rec.Excluded("keyfile-write-failed")
		return
	}
	rec.Case(fmt.Sprintf("keyfile:%x", content), true, "keyfile", "keyfile/"+class)
	w := map[string]any{"kind": "keyfile", "class": class, "content_hex": hex.EncodeToString(content), "len": len(content)}
	var conf session_ticket_key_conf.SessionTicketKeyConf
	var err error
	if p := ev.Try(func() { conf, err = session_ticket_key_conf.SessionTicketKeyConfLoad(path) }); p != nil {
		rec.Fail(tb, "keyfile-loader-panic", w, "SessionTicketKeyConfLoad panicked: %v", p)
		return
	}
	ref := c44RefKey(content)
	if err != nil {
		rec.Class("keyfile/rejected")
		if mustLoad {
			rec.Fail(tb, "keyfile-documented-format-rejected/"+class, w, "a %s key file was rejected: %v", class, err)
		}
		return
	}
	rec.Class("keyfile/loaded")
	got, derr := hex.DecodeString(conf.SessionTicketKey)
	if ref != nil && derr == nil && bytes.Equal(got, ref) {
		return
	}
	// loaded, but not (as) a documented format: show what that means for tickets
	consequence := ""
	if derr == nil && len(got) == 48 {
		srv := &c41Srv{Cert: "rsa"}
		cfg := srv.build()
		copy(cfg.SessionTicketKeyName[:], got[:16]) // as bfe_server.initTLSSessionTicket does
		copy(cfg.SessionTicketKey[:], got[16:])
		forger := &bfe_tls.Config{}
		if len(content) >= 48 {
			copy(forger.SessionTicketKey[:], content[16:48]) // public: the literal beginning of the file
		}
		st := &bfe_tls.VerifHS{Kind: "sessionState", Vers: vTLS12, CipherSuite: 0xc02f, MasterSecret: patternBytes(48, 0x42)}
		if ticket, e := bfe_tls.VerifEncryptTicket(forger, st); e == nil {
			ff, _, _ := sendRawHello(cfg, &rawHello{Vers: vTLS12, Suites: []uint16{0xc02f}, Curves: []uint16{23}, Ticket: ticket, SessionID: patternBytes(32, 1)})
			if ff.Resumed {
				consequence = "; a ticket sealed under bytes 16..48 of the file (no secret involved) is resumed by a server using this key"
			}
		}
	}
	rec.Fail(tb, "keyfile-undocumented-format-loaded", w, "a %d-byte key file that is neither the JSON format nor a 48-byte raw key was loaded as key %s%s", len(content), conf.SessionTicketKey, consequence)
}

func c44KeyJSON(version string, keyHex string, indent bool) []byte {
	m := map[string]string{"Version": version, "SessionTicketKey": keyHex}
	var b []byte
	if indent {
		b, _ = json.MarshalIndent(m, "", "    ")
	} else {
		b, _ = json.Marshal(m)
	}
	return b
}

func c44KeyFileSweep(tb ev.TB, rec *ev.Rec) {
	key := hex.EncodeToString(patternBytes(48, 0x6b))
	doc := c44KeyJSON("init version", key, true)
	c44CheckKeyFile(tb, rec, "json", doc, true)
	c44CheckKeyFile(tb, rec, "json-trailing-newline", append(append([]byte{}, doc...), '\n'), true)
	for n := 0; n < len(doc); n++ { // every truncation of a well-formed file
		c44CheckKeyFile(tb, rec, "json-truncated", doc[:n], false)
	}
	for n := 0; n <= 130; n++ {
		raw := patternBytes(n, 0x91)
		for i := range raw {
			raw[i] |= 0x80 // never the start of a JSON value
		}
		c44CheckKeyFile(tb, rec, map[bool]string{true: "raw48", false: "raw-other-length"}[n == 48], raw, n == 48)
	}
}

func c44KeyFileBatch(rt *rapid.T, rec *ev.Rec) {
	keyBytes := rapid.SliceOfN(rapid.Byte(), 48, 48).Draw(rt, "key")
	keyHex := hex.EncodeToString(keyBytes)
	if rapid.Bool().Draw(rt, "upper") {
		keyHex = strings.ToUpper(keyHex)
	}
	version := rapid.SampledFrom([]string{"v1", "init version", "2026-09-21 10:00:00", "x"}).Draw(rt, "version")
	doc := c44KeyJSON(version, keyHex, rapid.Bool().Draw(rt, "indent"))
	c44CheckKeyFile(rt, rec, "json", doc, true)
	n := rapid.IntRange(3, 8).Draw(rt, "nfiles")
	for i := 0; i < n; i++ {
		switch rapid.IntRange(0, 6).Draw(rt, "fkind") {
		case 0:
			c44CheckKeyFile(rt, rec, "json-truncated", doc[:rapid.IntRange(0, len(doc)-1).Draw(rt, "cut")], false)
		case 1: // damaged in the middle: one structural byte replaced
			d := append([]byte{}, doc...)
			pos := rapid.IntRange(0, len(d)-1).Draw(rt, "pos")
			d[pos] = rapid.SampledFrom([]byte{'{', '}', '"', ':', ',', 'x', 0}).Draw(rt, "repl")
			c44CheckKeyFile(rt, rec, "json-damaged", d, false)
		case 2:
			c44CheckKeyFile(rt, rec, "json-short-key", c44KeyJSON(version, keyHex[:rapid.IntRange(0, 95).Draw(rt, "klen")], false), false)
		case 3:
			c44CheckKeyFile(rt, rec, "json-no-version", c44KeyJSON("", keyHex, false), false)
		case 4:
			raw := append([]byte{}, keyBytes...)
			raw[0] |= 0x80
			c44CheckKeyFile(rt, rec, "raw48", raw, true)
		case 5:
			l := rapid.IntRange(0, 200).Draw(rt, "rawlen")
			raw := patternBytes(l, keyBytes[0])
			for j := range raw {
				raw[j] |= 0x80
			}
			c44CheckKeyFile(rt, rec, map[bool]string{true: "raw48", false: "raw-other-length"}[l == 48], raw, l == 48)
		default: // raw key followed by what an editor or a copy might add
			raw := append([]byte{}, keyBytes...)
			raw[0] |= 0x80
			raw = append(raw, rapid.SampledFrom([]string{"\n", "\r\n", " ", "\x00", "extra-bytes"}).Draw(rt, "suffix")...)
			c44CheckKeyFile(rt, rec, "raw48-with-suffix", raw, false)
		}
	}
}

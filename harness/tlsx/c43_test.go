package tlsx

import (
	"bytes"
	"crypto/aes"
	"crypto/cipher"
	"crypto/des"
	"crypto/hmac"
	"crypto/sha1"
	"fmt"
	"testing"

	"github.com/bfenetworks/bfe/bfe_tls"
	"pgregory.net/rapid"

	"verif/harness/internal/ev"
)

// C43: CBC padding removal accepts exactly valid padding.
// Oracle (from the property statement / RFC 5246 6.2.3.2): with p = last byte,
// valid <=> p+1 <= len && the final p+1 bytes all equal p; then exactly p+1
// bytes are removed; otherwise good == 0.

func c43Model(b []byte) (valid bool, remove int) {
	if len(b) == 0 {
		return false, 0
	}
	p := int(b[len(b)-1])
	if p+1 > len(b) {
		return false, 0
	}
	for _, x := range b[len(b)-p-1:] {
		if int(x) != p {
			return false, 0
		}
	}
	return true, p + 1
}

func c43Check(tb ev.TB, rec *ev.Rec, payload []byte, class string) {
	in := append([]byte(nil), payload...)
	out, good := bfe_tls.VerifRemovePadding(in)
	valid, remove := c43Model(payload)
	p := -1
	if len(payload) > 0 {
		p = int(payload[len(payload)-1])
	}
	nt := p >= 0 && (p+1 >= len(payload)-1 && p+1 <= len(payload)+1 || class == "corrupt-far" || class == "corrupt")
	rec.Case(fmt.Sprintf("%x", payload), nt, class)
	w := map[string]any{"payload_hex": fmt.Sprintf("%x", payload), "class": class}
	if good != 0 && good != 255 {
		rec.Fail(tb, "good-not-mask", w, "good=%d is neither 0 nor 255 for %x", good, payload)
	}
	if valid {
		if good != 255 {
			rec.Fail(tb, "valid-rejected", w, "valid padding p=%d len=%d reported bad", p, len(payload))
			return
		}
		if len(out) != len(payload)-remove || !bytes.Equal(out, payload[:len(payload)-remove]) {
			rec.Fail(tb, "wrong-removal", w, "valid padding p=%d len=%d: %d bytes removed, want %d", p, len(payload), len(payload)-len(out), remove)
		}
	} else if good != 0 {
		rec.Fail(tb, "invalid-accepted", w, "invalid padding accepted: len=%d p=%d tail=%x", len(payload), p, tail(payload, 8))
	}
}

func tail(b []byte, n int) []byte {
	if len(b) > n {
		return b[len(b)-n:]
	}
	return b
}

func TestC43(t *testing.T) {
	rec := ev.New("C43", "payloads: exhaustive for len<=2 (len 3 in thorough); generated: random bytes, constructed valid paddings of every p in 0..255 behind random prefixes, and every single-byte corruption position of the padding window incl. the farthest byte. plus records protected by the harness (HMAC-SHA1 then CBC under AES-128/AES-256/3DES, TLS 1.0/1.1/1.2, padding of 1..256 bytes incl. more than one block, one padding byte or the length byte corrupted) handed to the record layer's decrypt. non-trivial: p+1 within {len-1,len,len+1}, a corrupted valid padding, or a record whose padding is corrupted or longer than a block; distinct by payload bytes")
	// exhaustive part
	maxLen := ev.N(2, 3)
	var enum func(prefix []byte, n int)
	enum = func(prefix []byte, n int) {
		if len(prefix) == n {
			c43Check(t, rec, prefix, "exhaustive")
			return
		}
		for v := 0; v < 256; v++ {
			enum(append(prefix, byte(v)), n)
		}
	}
	for n := 0; n <= maxLen; n++ {
		enum(nil, n)
	}
	rec.Set("exhaustive_up_to_len", int64(maxLen))
	// every valid padding length with every corruption position (deterministic sweep)
	for p := 0; p <= 255; p++ {
		for _, pre := range []int{0, 1, 20} {
			b := make([]byte, pre+p+1)
			for i := range b {
				if i < pre {
					b[i] = byte(7 * i)
				} else {
					b[i] = byte(p)
				}
			}
			c43Check(t, rec, b, "valid")
			for pos := pre; pos < len(b)-1; pos++ {
				c := append([]byte(nil), b...)
				c[pos] ^= 0x40
				cl := "corrupt"
				if pos == pre {
					cl = "corrupt-far"
				}
				c43Check(t, rec, c, cl)
			}
		}
	}
	rapid.Check(t, func(rt *rapid.T) {
		kind := rapid.IntRange(0, 5).Draw(rt, "kind")
		if kind >= 4 {
			c43Record(rt, rec)
			return
		}
		switch kind {
		case 0:
			b := rapid.SliceOfN(rapid.Byte(), 0, 600).Draw(rt, "payload")
			rec.Sample(map[string]any{"kind": "random", "len": len(b), "tail_hex": fmt.Sprintf("%x", tail(b, 6))})
			c43Check(rt, rec, b, "random")
		default:
			p := rapid.IntRange(0, 255).Draw(rt, "p")
			pre := rapid.SliceOfN(rapid.Byte(), 0, 300).Draw(rt, "prefix")
			b := append([]byte(nil), pre...)
			for i := 0; i <= p; i++ {
				b = append(b, byte(p))
			}
			class := "valid"
			if kind >= 2 {
				// corrupt one byte of the padding window (not the length byte)
				if p > 0 {
					var off int
					if kind == 3 {
						off = p // farthest padding byte
						class = "corrupt-far"
					} else {
						off = rapid.IntRange(1, p).Draw(rt, "off")
						class = "corrupt"
					}
					delta := byte(rapid.IntRange(1, 255).Draw(rt, "delta"))
					b[len(b)-1-off] ^= delta
				}
			}
			rec.Sample(map[string]any{"kind": class, "p": p, "prefix_len": len(pre)})
			c43Check(rt, rec, b, class)
		}
	})
}

// ---- record-layer part: the same property observed where TLS uses it. One record is
// protected by the harness (std crypto: HMAC-SHA1, then CBC with generated padding bytes)
// and handed to bfe's halfConn.decrypt keyed for the same suite and version.

type c43Suite struct {
	id        uint16
	name      string
	keyLen    int
	blockSize int
}

var c43Suites = []c43Suite{{0x002f, "AES128-CBC-SHA", 16, 16}, {0x0035, "AES256-CBC-SHA", 32, 16}, {0x000a, "3DES-CBC-SHA", 24, 8}}

func c43Record(rt *rapid.T, rec *ev.Rec) {
	su := rapid.SampledFrom(c43Suites).Draw(rt, "suite")
	version := rapid.SampledFrom([]uint16{0x0301, 0x0302, 0x0303}).Draw(rt, "version")
	key := rapid.SliceOfN(rapid.Byte(), su.keyLen, su.keyLen).Draw(rt, "key")
	iv := rapid.SliceOfN(rapid.Byte(), su.blockSize, su.blockSize).Draw(rt, "iv")
	macKey := rapid.SliceOfN(rapid.Byte(), 20, 20).Draw(rt, "mackey")
	var seq [8]byte
	seq[7] = byte(rapid.IntRange(0, 255).Draw(rt, "seq"))
	data := rapid.SliceOfN(rapid.Byte(), 0, 80).Draw(rt, "data")
	// MAC over seq || type,version,len || data (RFC 5246 6.2.3.1)
	hdr := []byte{23, byte(version >> 8), byte(version), byte(len(data) >> 8), byte(len(data))}
	h := hmac.New(sha1.New, macKey)
	h.Write(seq[:])
	h.Write(hdr)
	h.Write(data)
	plain := append(append([]byte(nil), data...), h.Sum(nil)...)
	// padding: minimal length to reach the block size plus k extra blocks (up to 255)
	minPad := su.blockSize - 1 - len(plain)%su.blockSize
	maxK := (255 - minPad) / su.blockSize
	k := rapid.IntRange(0, maxK).Draw(rt, "extra-blocks")
	if rapid.Bool().Draw(rt, "minimal") {
		k = 0
	}
	p := minPad + k*su.blockSize
	pad := bytes.Repeat([]byte{byte(p)}, p+1)
	class := "valid"
	switch rapid.IntRange(0, 3).Draw(rt, "corruption") {
	case 1:
		if p > 0 {
			off := rapid.IntRange(0, p-1).Draw(rt, "corrupt-off") // not the length byte
			pad[off] ^= byte(rapid.IntRange(1, 255).Draw(rt, "delta"))
			class = "corrupt"
			if off == 0 {
				class = "corrupt-far"
			}
		}
	case 2:
		// length byte pointing elsewhere (still a multiple of the block size in total)
		np := rapid.IntRange(0, 255).Draw(rt, "length-byte")
		if np != p {
			pad[len(pad)-1] = byte(np)
			class = "length-byte-changed"
		}
	}
	plain = append(plain, pad...)
	valid, remove := c43Model(plain)
	// a "valid" verdict of the model on a changed length byte still fails the MAC later unless the
	// removal leaves data||MAC intact: the record is good only if exactly our padding is removed
	wantOK := valid && remove == p+1
	var blk cipher.Block
	if su.blockSize == 8 {
		blk, _ = des.NewTripleDESCipher(key)
	} else {
		blk, _ = aes.NewCipher(key)
	}
	body := append([]byte(nil), plain...)
	var wire []byte
	if version >= 0x0302 {
		eiv := rapid.SliceOfN(rapid.Byte(), su.blockSize, su.blockSize).Draw(rt, "explicit-iv")
		cipher.NewCBCEncrypter(blk, eiv).CryptBlocks(body, body)
		wire = append(append([]byte(nil), eiv...), body...)
	} else {
		cipher.NewCBCEncrypter(blk, iv).CryptBlocks(body, body)
		wire = body
	}
	record := append([]byte{23, byte(version >> 8), byte(version), byte(len(wire) >> 8), byte(len(wire))}, wire...)
	cls := []string{"record:" + class, fmt.Sprintf("record:tls1.%d", version-0x0301), "record:" + su.name}
	if k > 0 {
		cls = append(cls, "record:padding-longer-than-one-block")
	}
	rec.Case(fmt.Sprintf("rec|%x|%d|%x", version, su.id, plain), class != "valid" || k > 0, cls...)
	rec.Sample(map[string]any{"kind": "record", "suite": su.name, "version": fmt.Sprintf("%#04x", version), "data_len": len(data), "padding_len_byte": p, "class": class})
	w := map[string]any{"suite": su.name, "version": fmt.Sprintf("%#04x", version), "data_hex": fmt.Sprintf("%x", data), "padding_hex": fmt.Sprintf("%x", pad), "class": class,
		"key_hex": fmt.Sprintf("%x", key), "iv_hex": fmt.Sprintf("%x", iv), "mac_key_hex": fmt.Sprintf("%x", macKey), "seq": seq[7], "record_hex": fmt.Sprintf("%x", record)}
	ok, got := bfe_tls.VerifCBCDecrypt(version, su.id, key, iv, macKey, seq, record)
	vname := fmt.Sprintf("tls1.%d", version-0x0301)
	if wantOK && !ok {
		rec.Fail(rt, "record-valid-padding-rejected/"+vname, w, "%s %s: record with valid padding (p=%d, %d bytes of padding) and correct MAC was rejected", su.name, vname, p, p+1)
		return
	}
	if !wantOK && ok {
		rec.Fail(rt, "record-invalid-padding-accepted/"+vname, w, "%s %s: record with invalid padding %x (class %s) was accepted", su.name, vname, tail(pad, 8), class)
		return
	}
	if ok {
		if !bytes.Equal(got, data) {
			rec.Fail(rt, "record-wrong-removal/"+vname, w, "%s %s: plaintext after padding/MAC removal is %x, want %x", su.name, vname, got, data)
		}
	}
}

package tlsx

import (
	"bytes"
	"fmt"
	"testing"

	"github.com/bfenetworks/bfe/bfe_tls"
	"pgregory.net/rapid"

	"verif/harness/internal/ev"
)

// C43: CBC padding removal accepts exactly valid padding.
// Oracle (from the property statement / RFC 5246 6.2.3.2): with p = last byte,
// valid <=> p+1 <= len && the final p+1 bytes all equal p; then exactly p+1
// bytes are removed; otherwise good == 0.

func c43Model(b []byte) (valid bool, remove int) {
	if len(b) == 0 {
		return false, 0
	}
	p := int(b[len(b)-1])
	if p+1 > len(b) {
		return false, 0
	}
	for _, x := range b[len(b)-p-1:] {
		if int(x) != p {
			return false, 0
		}
	}
	return true, p + 1
}

func c43Check(tb ev.TB, rec *ev.Rec, payload []byte, class string) {
	in := append([]byte(nil), payload...)
	out, good := bfe_tls.VerifRemovePadding(in)
	valid, remove := c43Model(payload)
	p := -1
	if len(payload) > 0 {
		p = int(payload[len(payload)-1])
	}
	nt := p >= 0 && (p+1 >= len(payload)-1 && p+1 <= len(payload)+1 || class == "corrupt-far" || class == "corrupt")
	rec.Case(fmt.Sprintf("%x", payload), nt, class)
	w := map[string]any{"payload_hex": fmt.Sprintf("%x", payload), "class": class}
	if good != 0 && good != 255 {
		rec.Fail(tb, "good-not-mask", w, "good=%d is neither 0 nor 255 for %x", good, payload)
	}
	if valid {
		if good != 255 {
			rec.Fail(tb, "valid-rejected", w, "valid padding p=%d len=%d reported bad", p, len(payload))
			return
		}
		if len(out) != len(payload)-remove || !bytes.Equal(out, payload[:len(payload)-remove]) {
			rec.Fail(tb, "wrong-removal", w, "valid padding p=%d len=%d: %d bytes removed, want %d", p, len(payload), len(payload)-len(out), remove)
		}
	} else if good != 0 {
		rec.Fail(tb, "invalid-accepted", w, "invalid padding accepted: len=%d p=%d tail=%x", len(payload), p, tail(payload, 8))
	}
}

func tail(b []byte, n int) []byte {
	if len(b) > n {
		return b[len(b)-n:]
	}
	return b
}

func TestC43(t *testing.T) {
	rec := ev.New("C43", "payloads: exhaustive for len<=2 (len 3 in thorough); generated: random bytes, constructed valid paddings of every p in 0..255 behind random prefixes, and every single-byte corruption position of the padding window incl. the farthest byte. non-trivial: p+1 within {len-1,len,len+1} or a corrupted valid padding; distinct by payload bytes")
	// exhaustive part
	maxLen := ev.N(2, 3)
	var enum func(prefix []byte, n int)
	enum = func(prefix []byte, n int) {
		if len(prefix) == n {
			c43Check(t, rec, prefix, "exhaustive")
			return
		}
		for v := 0; v < 256; v++ {
			enum(append(prefix, byte(v)), n)
		}
	}
	for n := 0; n <= maxLen; n++ {
		enum(nil, n)
	}
	rec.Set("exhaustive_up_to_len", int64(maxLen))
	// every valid padding length with every corruption position (deterministic sweep)
	for p := 0; p <= 255; p++ {
		for _, pre := range []int{0, 1, 20} {
			b := make([]byte, pre+p+1)
			for i := range b {
				if i < pre {
					b[i] = byte(7 * i)
				} else {
					b[i] = byte(p)
				}
			}
			c43Check(t, rec, b, "valid")
			for pos := pre; pos < len(b)-1; pos++ {
				c := append([]byte(nil), b...)
				c[pos] ^= 0x40
				cl := "corrupt"
				if pos == pre {
					cl = "corrupt-far"
				}
				c43Check(t, rec, c, cl)
			}
		}
	}
	rapid.Check(t, func(rt *rapid.T) {
		kind := rapid.IntRange(0, 3).Draw(rt, "kind")
		switch kind {
		case 0:
			b := rapid.SliceOfN(rapid.Byte(), 0, 600).Draw(rt, "payload")
			rec.Sample(map[string]any{"kind": "random", "len": len(b), "tail_hex": fmt.Sprintf("%x", tail(b, 6))})
			c43Check(rt, rec, b, "random")
		default:
			p := rapid.IntRange(0, 255).Draw(rt, "p")
			pre := rapid.SliceOfN(rapid.Byte(), 0, 300).Draw(rt, "prefix")
			b := append([]byte(nil), pre...)
			for i := 0; i <= p; i++ {
				b = append(b, byte(p))
			}
			class := "valid"
			if kind >= 2 {
				// corrupt one byte of the padding window (not the length byte)
				if p > 0 {
					var off int
					if kind == 3 {
						off = p // farthest padding byte
						class = "corrupt-far"
					} else {
						off = rapid.IntRange(1, p).Draw(rt, "off")
						class = "corrupt"
					}
					delta := byte(rapid.IntRange(1, 255).Draw(rt, "delta"))
					b[len(b)-1-off] ^= delta
				}
			}
			rec.Sample(map[string]any{"kind": class, "p": p, "prefix_len": len(pre)})
			c43Check(rt, rec, b, class)
		}
	})
}

package tlsx

import (
	"encoding/hex"
	"encoding/json"
	"fmt"
	"os"
	"path/filepath"
	"reflect"
	"testing"

	"github.com/bfenetworks/bfe/bfe_tls"
	"pgregory.net/rapid"

	"verif/harness/internal/ev"
)

// C45: handshake messages round-trip and parse safely.
//
// structured: for every message type of handshake_messages.go and for
// sessionState (ticket.go) a generator fills the fields the way the handshake
// code does; marshal -> unmarshal must succeed and give back the same field
// values (compared here field by field, plus bfe's own equal()).
// bytes: arbitrary byte strings and mutated marshalled messages are parsed
//  (1) from an exactly-sized allocation (cap == len), so that an access past
//      the message panics,
//  (2) from the front of a larger allocation whose tail holds canary bytes,
//      twice with different canaries: result and parsed fields must not depend
//      on bytes behind the message,
//  and, when parsing succeeds, the parsed value is marshalled from scratch and
//  parsed again: it must parse and give the same fields (marshal∘unmarshal is
//  idempotent on parsed values).

type hs = bfe_tls.VerifHS

func normBytes(b []byte) []byte {
	if len(b) == 0 {
		return nil
	}
	return b
}

func normBB(b [][]byte) [][]byte {
	if len(b) == 0 {
		return nil
	}
	out := make([][]byte, len(b))
	for i := range b {
		out[i] = append([]byte{}, b[i]...) // empty elements stay empty, not nil
	}
	return out
}

// c45Norm returns a deep copy with empty slices folded to nil and the fields
// that are derived on parse only (JA3 inputs) dropped.
func c45Norm(v *hs) *hs {
	o := *v
	o.Random, o.SessionId, o.CompressionMethods = normBytes(append([]byte(nil), v.Random...)), normBytes(append([]byte(nil), v.SessionId...)), normBytes(append([]byte(nil), v.CompressionMethods...))
	o.SupportedPoints, o.SessionTicket = normBytes(append([]byte(nil), v.SupportedPoints...)), normBytes(append([]byte(nil), v.SessionTicket...))
	o.Key, o.Response, o.Ciphertext, o.VerifyData = normBytes(append([]byte(nil), v.Key...)), normBytes(append([]byte(nil), v.Response...)), normBytes(append([]byte(nil), v.Ciphertext...)), normBytes(append([]byte(nil), v.VerifyData...))
	o.CertificateTypes, o.Signature, o.Ticket, o.MasterSecret = normBytes(append([]byte(nil), v.CertificateTypes...)), normBytes(append([]byte(nil), v.Signature...)), normBytes(append([]byte(nil), v.Ticket...)), normBytes(append([]byte(nil), v.MasterSecret...))
	o.Certificates, o.CertificateAuthorities = normBB(v.Certificates), normBB(v.CertificateAuthorities)
	o.CipherSuites = append([]uint16(nil), v.CipherSuites...)
	o.SupportedCurves = append([]uint16(nil), v.SupportedCurves...)
	o.SigAndHashes = append([][2]uint8(nil), v.SigAndHashes...)
	o.AlpnProtocols = append([]string(nil), v.AlpnProtocols...)
	o.NextProtos = append([]string(nil), v.NextProtos...)
	o.Padding, o.ExtensionIds = false, nil
	return &o
}

func c45Equal(a, b *hs) bool { return reflect.DeepEqual(c45Norm(a), c45Norm(b)) }

func c45Diff(a, b *hs) string {
	na, nb := c45Norm(a), c45Norm(b)
	va, vb := reflect.ValueOf(*na), reflect.ValueOf(*nb)
	var out string
	for i := 0; i < va.NumField(); i++ {
		if !reflect.DeepEqual(va.Field(i).Interface(), vb.Field(i).Interface()) {
			out += fmt.Sprintf("%s: %v != %v; ", va.Type().Field(i).Name, va.Field(i).Interface(), vb.Field(i).Interface())
		}
	}
	if len(out) > 600 {
		out = out[:600] + "..."
	}
	return out
}

// ---- structured generators

func gBytes(rt *rapid.T, min, max int, label string) []byte {
	// rapid favours short slices; every length prefix has its own boundaries, so pick
	// boundary lengths (max, max-1, 255..257) explicitly now and then
	if max > 8 && rapid.IntRange(0, 5).Draw(rt, label+"-edge") == 0 {
		cands := []int{max}
		for _, c := range []int{max - 1, 255, 256, 257} {
			if c >= min && c <= max {
				cands = append(cands, c)
			}
		}
		n := rapid.SampledFrom(cands).Draw(rt, label+"-len")
		return patternBytes(n, rapid.Byte().Draw(rt, label+"-salt"))
	}
	return rapid.SliceOfN(rapid.Byte(), min, max).Draw(rt, label)
}

// c45CraftHello builds a client/server hello by hand: fixed part plus a list of
// extensions whose bodies are the shapes length-prefixed parsers trip over
// (empty, lone zero bytes, vectors whose inner length is exact / one short /
// one long, nested u16+u8 vectors).
func c45CraftHello(rt *rapid.T, kind string) []byte {
	var b []byte
	b = append(b, 3, rapid.Byte().Draw(rt, "minor"))
	b = append(b, patternBytes(32, 7)...)
	sid := rapid.SliceOfN(rapid.Byte(), 0, 4).Draw(rt, "sid")
	b = append(b, byte(len(sid)))
	b = append(b, sid...)
	if kind == "clientHello" {
		b = append(b, 0, 2, 0xc0, 0x2f, 1, 0)
	} else {
		b = append(b, 0xc0, 0x2f, 0)
	}
	ids := []int{0, 5, 10, 11, 13, 16, 21, 35, 13172, 0xff01, 0xff02, 0x1234}
	var exts []byte
	n := rapid.IntRange(0, 3).Draw(rt, "next")
	for i := 0; i < n; i++ {
		id := rapid.SampledFrom(ids).Draw(rt, "extid")
		x := rapid.SliceOfN(rapid.Byte(), 0, 6).Draw(rt, "x")
		var body []byte
		switch rapid.IntRange(0, 13).Draw(rt, "shape") {
		case 0:
		case 1:
			body = []byte{0}
		case 2:
			body = []byte{0, 0}
		case 3:
			body = []byte{0, 0, 0}
		case 4:
			body = append(u16(len(x)), x...)
		case 5:
			body = append(u16(len(x)+1), x...)
		case 6:
			body = append(u16(len(x)+2), x...)
		case 7:
			body = append([]byte{byte(len(x))}, x...)
		case 8:
			body = append([]byte{byte(len(x) + 1)}, x...)
		case 9: // u16 outer, u8 inner (ALPN / server_name shapes)
			inner := append([]byte{byte(len(x))}, x...)
			body = append(u16(len(inner)), inner...)
		case 10:
			inner := append([]byte{0}, append(u16(len(x)), x...)...)
			body = append(u16(len(inner)), inner...)
		case 11: // list of u8-prefixed strings whose last entry claims one byte more than is left
			inner := append([]byte{2, 'h', '2', byte(len(x) + 1)}, x...)
			body = append(u16(len(inner)), inner...)
		case 12: // well-formed list of u8-prefixed strings
			inner := append([]byte{2, 'h', '2', byte(len(x))}, x...)
			body = append(u16(len(inner)), inner...)
		default:
			body = x
		}
		exts = append(exts, u16(id)...)
		exts = append(exts, u16(len(body))...)
		exts = append(exts, body...)
	}
	if n > 0 || rapid.Bool().Draw(rt, "emptyexts") {
		b = append(b, u16(len(exts))...)
		b = append(b, exts...)
	}
	typ := byte(1)
	if kind == "serverHello" {
		typ = 2
	}
	return append([]byte{typ, byte(len(b) >> 16), byte(len(b) >> 8), byte(len(b))}, b...)
}

func gProto(rt *rapid.T, label string) string {
	if rapid.IntRange(0, 15).Draw(rt, label+"-long") == 0 {
		return string(gBytes(rt, 255, 255, label))
	}
	return string(gBytes(rt, 1, 20, label))
}

func gSigHashes(rt *rapid.T, min, max int) [][2]uint8 {
	n := rapid.IntRange(min, max).Draw(rt, "nsh")
	var out [][2]uint8
	for i := 0; i < n; i++ {
		out = append(out, [2]uint8{rapid.Byte().Draw(rt, "hash"), rapid.Byte().Draw(rt, "sig")})
	}
	return out
}

func c45Gen(rt *rapid.T, kind string) (v *hs, nonEmptyVector bool) {
	v = &hs{Kind: kind}
	ne := func(n int) {
		if n > 0 {
			nonEmptyVector = true
		}
	}
	switch kind {
	case "clientHello":
		v.Vers = rapid.SampledFrom([]uint16{vSSL30, vTLS10, vTLS11, vTLS12, vTLS13, 0, 0xffff}).Draw(rt, "vers")
		v.Random = gBytes(rt, 32, 32, "random")
		v.SessionId = gBytes(rt, 0, 32, "sid")
		v.CipherSuites = rapid.SliceOfN(rapid.Uint16(), 0, 40).Draw(rt, "suites")
		// 0x00ff (renegotiation SCSV) in the list is a second encoding of SecureRenegotiation
		for i, s := range v.CipherSuites {
			if s == 0x00ff {
				v.CipherSuites[i] = 0x00fe
			}
		}
		v.CompressionMethods = gBytes(rt, 0, 3, "comp")
		v.NextProtoNeg = rapid.Bool().Draw(rt, "npn")
		v.ServerName = string(gBytes(rt, 0, 40, "sni"))
		v.OcspStapling = rapid.Bool().Draw(rt, "ocsp")
		v.SupportedCurves = rapid.SliceOfN(rapid.Uint16(), 0, 5).Draw(rt, "curves")
		v.SupportedPoints = gBytes(rt, 0, 3, "points")
		v.TicketSupported = rapid.Bool().Draw(rt, "ticketok")
		if v.TicketSupported {
			v.SessionTicket = gBytes(rt, 0, 120, "ticket")
		}
		v.SigAndHashes = gSigHashes(rt, 0, 6)
		v.SecureRenegotiation = rapid.Bool().Draw(rt, "reneg")
		na := rapid.IntRange(0, 4).Draw(rt, "nalpn")
		for i := 0; i < na; i++ {
			v.AlpnProtocols = append(v.AlpnProtocols, gProto(rt, "alpn"))
		}
		ne(len(v.SessionId) + len(v.CipherSuites) + len(v.ServerName) + len(v.SupportedCurves) + len(v.SessionTicket) + len(v.SigAndHashes) + na)
	case "serverHello":
		v.Vers = rapid.SampledFrom([]uint16{vSSL30, vTLS10, vTLS11, vTLS12, 0xffff}).Draw(rt, "vers")
		v.Random = gBytes(rt, 32, 32, "random")
		v.SessionId = gBytes(rt, 0, 32, "sid")
		v.CipherSuite = rapid.Uint16().Draw(rt, "suite")
		v.CompressionMethod = rapid.Byte().Draw(rt, "comp")
		v.NextProtoNeg = rapid.Bool().Draw(rt, "npn")
		if v.NextProtoNeg {
			n := rapid.IntRange(0, 4).Draw(rt, "nnp")
			for i := 0; i < n; i++ {
				v.NextProtos = append(v.NextProtos, gProto(rt, "np"))
			}
		}
		v.OcspStapling = rapid.Bool().Draw(rt, "ocsp")
		v.TicketSupported = rapid.Bool().Draw(rt, "ticketok")
		v.SecureRenegotiation = rapid.Bool().Draw(rt, "reneg")
		if rapid.Bool().Draw(rt, "hasalpn") {
			v.AlpnProtocol = gProto(rt, "alpn")
		}
		ne(len(v.SessionId) + len(v.NextProtos) + len(v.AlpnProtocol))
	case "certificate":
		n := rapid.IntRange(0, 4).Draw(rt, "ncerts")
		for i := 0; i < n; i++ {
			v.Certificates = append(v.Certificates, gBytes(rt, 1, 300, "cert"))
		}
		ne(n)
	case "serverKeyExchange":
		v.Key = gBytes(rt, 0, 300, "key")
		ne(len(v.Key))
	case "certificateStatus":
		if rapid.IntRange(0, 4).Draw(rt, "ocsp") > 0 {
			v.StatusType = 1
			v.Response = gBytes(rt, 0, 200, "resp")
		} else {
			v.StatusType = rapid.SampledFrom([]uint8{0, 2, 255}).Draw(rt, "stype")
		}
		ne(len(v.Response))
	case "serverHelloDone":
	case "clientKeyExchange":
		v.Ciphertext = gBytes(rt, 0, 300, "ct")
		ne(len(v.Ciphertext))
	case "finished":
		v.VerifyData = gBytes(rt, 0, 48, "vd")
		ne(len(v.VerifyData))
	case "nextProto":
		v.Proto = string(gBytes(rt, 0, 255, "proto"))
		ne(len(v.Proto))
	case "certificateRequest":
		v.HasSignatureAndHash = rapid.Bool().Draw(rt, "hassig")
		v.CertificateTypes = gBytes(rt, 1, 5, "ctypes")
		if v.HasSignatureAndHash {
			v.SigAndHashes = gSigHashes(rt, 0, 6)
		}
		n := rapid.IntRange(0, 3).Draw(rt, "ncas")
		for i := 0; i < n; i++ {
			v.CertificateAuthorities = append(v.CertificateAuthorities, gBytes(rt, 1, 100, "ca"))
		}
		ne(1)
	case "certificateVerify":
		v.HasSignatureAndHash = rapid.Bool().Draw(rt, "hassig")
		if v.HasSignatureAndHash {
			v.SigAndHash = [2]uint8{rapid.Byte().Draw(rt, "hash"), rapid.Byte().Draw(rt, "sig")}
		}
		v.Signature = gBytes(rt, 0, 300, "sig")
		ne(len(v.Signature))
	case "newSessionTicket":
		v.Ticket = gBytes(rt, 0, 300, "ticket")
		ne(len(v.Ticket))
	case "sessionState":
		v.Vers = rapid.Uint16().Draw(rt, "vers")
		v.CipherSuite = rapid.Uint16().Draw(rt, "suite")
		v.MasterSecret = gBytes(rt, 0, 48, "ms")
		n := rapid.IntRange(0, 3).Draw(rt, "ncerts")
		for i := 0; i < n; i++ {
			v.Certificates = append(v.Certificates, gBytes(rt, 0, 200, "cert"))
		}
		ne(len(v.MasterSecret) + n)
	}
	return v, nonEmptyVector
}

func c45Structured(tb ev.TB, rec *ev.Rec, v *hs, nt bool) []byte {
	w := map[string]any{"kind": v.Kind, "message": v}
	var wire []byte
	var out *hs
	var ok, bfeEq bool
	if p := ev.Try(func() { wire, out, ok, bfeEq = bfe_tls.VerifRoundTrip(v) }); p != nil {
		rec.Fail(tb, "roundtrip-panic/"+v.Kind, w, "marshal/unmarshal of a generated %s panicked: %v", v.Kind, p)
		return nil
	}
	rec.Case("s:"+v.Kind+":"+hex.EncodeToString(wire), nt, "structured", "structured/"+v.Kind)
	w["wire_hex"] = hex.EncodeToString(wire)
	if !ok {
		rec.Fail(tb, "marshalled-message-rejected/"+v.Kind, w, "unmarshal rejected the bytes marshal produced for a %s", v.Kind)
		return wire
	}
	if !c45Equal(v, out) {
		key := "roundtrip-not-equal/" + v.Kind
		if v.Kind == "clientHello" && v.SecureRenegotiation && !out.SecureRenegotiation {
			o2 := *out
			o2.SecureRenegotiation = true
			if c45Equal(v, &o2) {
				key = "clienthello-renegotiation-info-lost"
			}
		}
		if !rec.Fail(tb, key, w, "%s does not parse back to an equal message: %s", v.Kind, c45Diff(v, out)) {
			return wire
		}
		return wire
	}
	if !bfeEq {
		rec.Fail(tb, "bfe-equal-false/"+v.Kind, w, "fields are equal but %s.equal() reports a difference", v.Kind)
	}
	return wire
}

// c45Parse runs unmarshal on data placed as described and returns the result
// with a deep copy of the parsed fields.
func c45Parse(kind string, hasSig bool, buf []byte) (ok bool, out *hs, pan any) {
	pan = ev.Try(func() {
		var o *hs
		o, ok = bfe_tls.VerifUnmarshal(kind, hasSig, buf)
		out = c45Norm(o)
	})
	return
}

func c45Bytes(tb ev.TB, rec *ev.Rec, kind string, hasSig bool, data []byte, class string) {
	extra := map[string]any{}
	w := func() map[string]any { // built on failure only
		m := map[string]any{"kind": kind, "has_sig_and_hash": hasSig, "bytes_hex": hex.EncodeToString(data), "class": class}
		for k, v := range extra {
			m[k] = v
		}
		return m
	}
	rec.Case(fmt.Sprintf("b:%s:%v:%x", kind, hasSig, data), true, "bytes", "bytes/"+kind, "bytes/"+class)
	// (1) exactly-sized allocation
	exact := make([]byte, len(data))
	copy(exact, data)
	ok1, out1, pan := c45Parse(kind, hasSig, exact)
	if pan != nil {
		rec.Fail(tb, "unmarshal-panic/"+kind, w(), "%s.unmarshal panicked on %d bytes: %v", kind, len(data), pan)
		return
	}
	// (2) canaries behind the message
	var oks [2]bool
	var outs [2]*hs
	for i, canary := range []byte{0x00, 0xff} {
		big := make([]byte, len(data)+96)
		copy(big, data)
		for j := len(data); j < len(big); j++ {
			big[j] = canary ^ byte(j*13)
		}
		var p any
		oks[i], outs[i], p = c45Parse(kind, hasSig, big[:len(data)])
		if p != nil {
			rec.Fail(tb, "unmarshal-panic/"+kind, w(), "%s.unmarshal panicked (message in front of a larger buffer): %v", kind, p)
			return
		}
	}
	if oks[0] != ok1 || oks[1] != ok1 || ok1 && (!reflect.DeepEqual(out1, outs[0]) || !reflect.DeepEqual(out1, outs[1])) {
		rec.Fail(tb, "reads-past-message/"+kind, w(), "%s.unmarshal result depends on bytes behind the message (ok: %v %v %v)", kind, ok1, oks[0], oks[1])
		return
	}
	if !ok1 {
		rec.Class("bytes/rejected")
		return
	}
	rec.Class("bytes/accepted")
	rec.Class("bytes/accepted/" + kind)
	// (3) marshal the parsed value from scratch and parse again
	var wire []byte
	var out2 *hs
	var ok2 bool
	if p := ev.Try(func() { wire, out2, ok2, _ = bfe_tls.VerifRoundTrip(out1) }); p != nil {
		rec.Fail(tb, "remarshal-panic/"+kind, w(), "marshalling the parsed %s panicked: %v", kind, p)
		return
	}
	extra["remarshalled_hex"] = hex.EncodeToString(wire)
	if !ok2 {
		rec.Fail(tb, "reparse-rejected/"+kind, w(), "parsed %s, re-marshalled, is rejected by unmarshal", kind)
		return
	}
	if !c45Equal(out1, out2) {
		key := "reparse-not-equal/" + kind
		if kind == "clientHello" && out1.SecureRenegotiation && !out2.SecureRenegotiation {
			o := *out2
			o.SecureRenegotiation = true
			if c45Equal(out1, &o) {
				key = "clienthello-renegotiation-info-lost"
			}
		}
		rec.Fail(tb, key, w(), "parse(marshal(parse(x))) != parse(x) for %s: %s", kind, c45Diff(out1, out2))
	}
}

func c45Mutate(rt *rapid.T, wire []byte) ([]byte, string) {
	b := append([]byte(nil), wire...)
	kind := rapid.SampledFrom([]string{"flip", "setbyte", "delta", "trunc", "extend", "dup-tail", "zero-len"}).Draw(rt, "mut")
	if len(b) == 0 && kind != "extend" {
		kind = "extend"
	}
	switch kind {
	case "flip":
		b[rapid.IntRange(0, len(b)-1).Draw(rt, "pos")] ^= 1 << uint(rapid.IntRange(0, 7).Draw(rt, "bit"))
	case "setbyte":
		b[rapid.IntRange(0, len(b)-1).Draw(rt, "pos")] = rapid.SampledFrom([]byte{0, 1, 2, 0x7f, 0x80, 0xff}).Draw(rt, "val")
	case "delta": // nudge a (length) byte
		p := rapid.IntRange(0, len(b)-1).Draw(rt, "pos")
		b[p] += byte(rapid.SampledFrom([]int{1, 2, 3, 4, 255, 254, 253, 16}).Draw(rt, "delta"))
	case "trunc":
		b = b[:rapid.IntRange(0, len(b)-1).Draw(rt, "keep")]
	case "extend":
		b = append(b, gBytes(rt, 1, 12, "extra")...)
	case "dup-tail":
		n := rapid.IntRange(1, len(b)).Draw(rt, "n")
		b = append(b, b[len(b)-n:]...)
	case "zero-len":
		p := rapid.IntRange(0, len(b)-1).Draw(rt, "pos")
		b[p] = 0
		if p+1 < len(b) {
			b[p+1] = 0
		}
	}
	return b, kind
}

// fix the 3-byte handshake length after a mutation so that the inner parser is reached more often
func c45FixLen(b []byte) []byte {
	if len(b) >= 4 {
		n := len(b) - 4
		b[1], b[2], b[3] = byte(n>>16), byte(n>>8), byte(n)
	}
	return b
}

func TestC45(t *testing.T) {
	rec := ev.New("C45", "per message type (clientHello, serverHello, certificate, serverKeyExchange, certificateStatus, serverHelloDone, clientKeyExchange, finished, nextProto, certificateRequest, certificateVerify, newSessionTicket, sessionState): structured values filled like the handshake code does; arbitrary byte strings and marshalled messages mutated by bit flip / byte set / length nudge / truncate / extend / duplicate tail / zeroed length (with and without re-fixed outer length), parsed from an exactly-sized buffer and in front of canary bytes. non-trivial: structured message with at least one non-empty variable-length vector; every byte-string case; distinct by wire bytes")
	if w, ok := replayWitness(t); ok {
		replayC45(t, rec, w)
		return
	}
	if dir := os.Getenv("VERIF_WRITE_CORPUS"); dir != "" {
		c45WriteCorpus(t, dir)
		return
	}
	kinds := bfe_tls.VerifKinds
	// deterministic: the empty message and every short all-zero / all-ff string for every type
	for _, k := range kinds {
		for _, hasSig := range []bool{false, true} {
			for n := 0; n <= 48; n++ {
				c45Bytes(t, rec, k, hasSig, make([]byte, n), "zeros")
				ff := make([]byte, n)
				for i := range ff {
					ff[i] = 0xff
				}
				c45Bytes(t, rec, k, hasSig, ff, "ffs")
				if n >= 4 {
					c45Bytes(t, rec, k, hasSig, c45FixLen(make([]byte, n)), "zeros-fixlen")
					c45Bytes(t, rec, k, hasSig, c45FixLen(append([]byte(nil), ff...)), "ffs-fixlen")
				}
			}
		}
	}
	rapid.Check(t, func(rt *rapid.T) {
		kind := rapid.SampledFrom(kinds).Draw(rt, "kind")
		v, nt := c45Gen(rt, kind)
		rec.Sample(map[string]any{"kind": kind})
		wire := c45Structured(rt, rec, v, nt)
		if wire == nil {
			return
		}
		if kind == "sessionState" && len(v.MasterSecret) > 0 {
			// sessionState also travels sealed in a ticket: what decryptTicket parses must stay equal to
			// what was marshalled while later tickets are parsed (the parsed slices are kept by the handshake)
			other, _ := c45Gen(rt, "sessionState")
			other.MasterSecret = patternBytes(len(v.MasterSecret)+8, 0xEE)
			rec.Case("retain:"+hex.EncodeToString(wire), true, "sealed-state-retained")
			diff, pan := ticketRetention(v, []*hs{other, other})
			if pan != nil {
				rec.Fail(rt, "unmarshal-panic/sessionState", map[string]any{"message": v}, "decryptTicket panicked: %v", pan)
			} else if diff != "" {
				rec.Fail(rt, "sessionstate-aliases-shared-buffer", map[string]any{"kind": "sessionState-sealed", "message": v, "later": other},
					"sessionState parsed from a sealed ticket no longer equals the marshalled value after another ticket was parsed: %s", diff)
			}
		}
		hasSig := v.HasSignatureAndHash
		n := rapid.IntRange(1, 6).Draw(rt, "nmut")
		for i := 0; i < n; i++ {
			b, mk := c45Mutate(rt, wire)
			if rapid.Bool().Draw(rt, "second") {
				b, _ = c45Mutate(rt, b)
				mk = "double"
			}
			if rapid.Bool().Draw(rt, "fixlen") {
				b = c45FixLen(b)
			}
			// also feed one type's bytes to another type's parser now and then
			k2 := kind
			if rapid.IntRange(0, 7).Draw(rt, "cross") == 0 {
				k2 = rapid.SampledFrom(kinds).Draw(rt, "kind2")
				mk = "cross-type"
			}
			c45Bytes(rt, rec, k2, hasSig != (rapid.IntRange(0, 9).Draw(rt, "sigflip") == 0), b, mk)
		}
		if kind == "clientHello" || kind == "serverHello" {
			for i := 0; i < 3; i++ {
				c45Bytes(rt, rec, kind, false, c45CraftHello(rt, kind), "crafted-extensions")
			}
		}
		if rapid.IntRange(0, 3).Draw(rt, "rand") == 0 {
			c45Bytes(rt, rec, kind, rapid.Bool().Draw(rt, "hassig2"), gBytes(rt, 0, 200, "randbytes"), "random")
		}
	})
}

// FuzzC45: native fuzzing of every unmarshal with the same oracle.
func FuzzC45(f *testing.F) {
	rec := ev.New("C45", "native fuzz of <type>.unmarshal with the exact-size / canary / re-marshal oracle")
	kinds := bfe_tls.VerifKinds
	for i := range kinds {
		f.Add(uint8(i), []byte{byte(i), 0, 0, 0})
		f.Add(uint8(i)|0x80, []byte{})
	}
	f.Fuzz(func(t *testing.T, sel uint8, data []byte) {
		if len(data) > 1<<13 {
			return // keeps one execution far below the fuzz engine's 10 s per-input watchdog even on a starved machine
		}
		kind := kinds[int(sel&0x7f)%len(kinds)]
		c45Bytes(t, rec, kind, sel&0x80 != 0, data, "fuzz")
	})
}

// c45WriteCorpus writes seed corpus files (go fuzz v1 format): one valid
// marshalled message per type plus hostile length constants.
func c45WriteCorpus(t *testing.T, dir string) {
	os.MkdirAll(dir, 0o755)
	samples := map[string]*hs{
		"clientHello": {Kind: "clientHello", Vers: vTLS12, Random: patternBytes(32, 1), SessionId: patternBytes(8, 2), CipherSuites: []uint16{0xc02f, 0x002f, 0x00ff, 0x5600},
			CompressionMethods: []byte{0}, NextProtoNeg: true, ServerName: "verif.example", OcspStapling: true, SupportedCurves: []uint16{23, 24}, SupportedPoints: []byte{0},
			TicketSupported: true, SessionTicket: patternBytes(60, 3), SigAndHashes: [][2]uint8{{4, 1}, {2, 3}}, SecureRenegotiation: true, AlpnProtocols: []string{"h2", "http/1.1"}},
		"serverHello": {Kind: "serverHello", Vers: vTLS12, Random: patternBytes(32, 4), SessionId: patternBytes(32, 5), CipherSuite: 0xc02f, NextProtoNeg: true,
			NextProtos: []string{"spdy/3.1", "http/1.1"}, OcspStapling: true, TicketSupported: true, SecureRenegotiation: true, AlpnProtocol: "h2"},
		"certificate":        {Kind: "certificate", Certificates: [][]byte{patternBytes(70, 6), patternBytes(1, 7)}},
		"serverKeyExchange":  {Kind: "serverKeyExchange", Key: patternBytes(40, 8)},
		"certificateStatus":  {Kind: "certificateStatus", StatusType: 1, Response: patternBytes(30, 9)},
		"serverHelloDone":    {Kind: "serverHelloDone"},
		"clientKeyExchange":  {Kind: "clientKeyExchange", Ciphertext: patternBytes(66, 10)},
		"finished":           {Kind: "finished", VerifyData: patternBytes(12, 11)},
		"nextProto":          {Kind: "nextProto", Proto: "spdy/3.1"},
		"certificateRequest": {Kind: "certificateRequest", HasSignatureAndHash: true, CertificateTypes: []byte{1, 64}, SigAndHashes: [][2]uint8{{4, 1}}, CertificateAuthorities: [][]byte{patternBytes(20, 12)}},
		"certificateVerify":  {Kind: "certificateVerify", HasSignatureAndHash: true, SigAndHash: [2]uint8{4, 1}, Signature: patternBytes(64, 13)},
		"newSessionTicket":   {Kind: "newSessionTicket", Ticket: patternBytes(80, 14)},
		"sessionState":       {Kind: "sessionState", Vers: vTLS12, CipherSuite: 0xc02f, MasterSecret: patternBytes(48, 15), Certificates: [][]byte{patternBytes(30, 16)}},
	}
	write := func(name string, sel uint8, data []byte) {
		body := fmt.Sprintf("go test fuzz v1\nuint8(%d)\n[]byte(%q)\n", sel, data)
		if err := os.WriteFile(filepath.Join(dir, name), []byte(body), 0o644); err != nil {
			t.Fatal(err)
		}
	}
	for i, k := range bfe_tls.VerifKinds {
		wire := bfe_tls.VerifMarshal(samples[k])
		sel := uint8(i)
		if samples[k].HasSignatureAndHash {
			sel |= 0x80
		}
		write("valid-"+k, sel, wire)
		if len(wire) > 8 {
			h := append([]byte(nil), wire...)
			h[len(h)/2] = 0xff
			write("hostile-ff-"+k, sel, h)
			write("hostile-trunc-"+k, sel, wire[:len(wire)-3])
		}
	}
	b, _ := json.Marshal(len(samples))
	t.Logf("wrote corpus for %s message types to %s", b, dir)
}

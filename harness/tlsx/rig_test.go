package tlsx

// Shared rig for C41/C42/C44: buffered in-memory duplex connections, harness
// certificates, a hand-written ClientHello encoder and a reader for the
// server's first flight. Nothing here uses bfe_tls to produce or interpret
// bytes; it is written from RFC 5246 / 5077 / 7507.

import (
	"crypto/ecdsa"
	"crypto/elliptic"
	"crypto/rand"
	"crypto/rsa"
	"crypto/tls"
	"crypto/x509"
	"crypto/x509/pkix"
	"errors"
	"io"
	"math/big"
	"net"
	"sync"
	"time"

	"github.com/bfenetworks/bfe/bfe_tls"
)

// ---------------------------------------------------------------- bufconn

// halfPipe is one direction of a buffered pipe: writes never block.
type halfPipe struct {
	mu     sync.Mutex
	cond   *sync.Cond
	buf    []byte
	closed bool // no more writes will come
	broken bool // reader went away
}

func newHalfPipe() *halfPipe {
	h := &halfPipe{}
	h.cond = sync.NewCond(&h.mu)
	return h
}

func (h *halfPipe) write(p []byte) (int, error) {
	h.mu.Lock()
	defer h.mu.Unlock()
	if h.closed || h.broken {
		return 0, io.ErrClosedPipe
	}
	h.buf = append(h.buf, p...)
	h.cond.Broadcast()
	return len(p), nil
}

func (h *halfPipe) read(p []byte) (int, error) {
	h.mu.Lock()
	defer h.mu.Unlock()
	for len(h.buf) == 0 && !h.closed && !h.broken {
		h.cond.Wait()
	}
	if len(h.buf) > 0 {
		n := copy(p, h.buf)
		h.buf = h.buf[n:]
		return n, nil
	}
	if h.broken {
		return 0, io.ErrClosedPipe
	}
	return 0, io.EOF
}

func (h *halfPipe) closeWrite() {
	h.mu.Lock()
	h.closed = true
	h.cond.Broadcast()
	h.mu.Unlock()
}

func (h *halfPipe) breakRead() {
	h.mu.Lock()
	h.broken = true
	h.cond.Broadcast()
	h.mu.Unlock()
}

type bufConn struct {
	r, w    *halfPipe
	name    string
	maxRead int // >0: Read returns at most this many bytes per call (deterministic short reads)
}

type bufAddr string

func (a bufAddr) Network() string { return "buf" }
func (a bufAddr) String() string  { return string(a) }

func (c *bufConn) Read(p []byte) (int, error) {
	if c.maxRead > 0 && len(p) > c.maxRead {
		p = p[:c.maxRead]
	}
	return c.r.read(p)
}
func (c *bufConn) Write(p []byte) (int, error) { return c.w.write(p) }
func (c *bufConn) Close() error {
	c.w.closeWrite()
	c.r.breakRead()
	return nil
}
func (c *bufConn) CloseWrite()                        { c.w.closeWrite() }
func (c *bufConn) LocalAddr() net.Addr                { return bufAddr(c.name) }
func (c *bufConn) RemoteAddr() net.Addr               { return bufAddr(c.name + "-peer") }
func (c *bufConn) SetDeadline(t time.Time) error      { return nil }
func (c *bufConn) SetReadDeadline(t time.Time) error  { return nil }
func (c *bufConn) SetWriteDeadline(t time.Time) error { return nil }

// bufPipe returns two connected buffered ends.
func bufPipe() (*bufConn, *bufConn) {
	a, b := newHalfPipe(), newHalfPipe()
	return &bufConn{r: a, w: b, name: "a"}, &bufConn{r: b, w: a, name: "b"}
}

// watchdog closes the given conns after d unless stopped; fired reports a hit.
type watchdog struct {
	t     *time.Timer
	mu    sync.Mutex
	fired bool
}

func newWatchdog(d time.Duration, conns ...io.Closer) *watchdog {
	w := &watchdog{}
	w.t = time.AfterFunc(d, func() {
		w.mu.Lock()
		w.fired = true
		w.mu.Unlock()
		for _, c := range conns {
			c.Close()
		}
	})
	return w
}

func (w *watchdog) stop() bool {
	w.t.Stop()
	w.mu.Lock()
	defer w.mu.Unlock()
	return w.fired
}

// ---------------------------------------------------------------- certificates

type rigCerts struct {
	rsa, ecdsa    bfe_tls.Certificate
	roots         *x509.CertPool // trusts both server certs
	clientCA      *x509.CertPool // CA of the client certificate
	clientCert    tls.Certificate
	otherCA       *x509.CertPool // a CA that did NOT sign clientCert
	clientCertDER []byte
}

var (
	certsOnce sync.Once
	certs     *rigCerts
)

func mkCert(tmpl, parent *x509.Certificate, pub, parentKey any) []byte {
	der, err := x509.CreateCertificate(rand.Reader, tmpl, parent, pub, parentKey)
	if err != nil {
		panic(err)
	}
	return der
}

func getCerts() *rigCerts {
	certsOnce.Do(func() {
		rc := &rigCerts{roots: x509.NewCertPool(), clientCA: x509.NewCertPool(), otherCA: x509.NewCertPool()}
		nb, na := time.Now().Add(-24*time.Hour), time.Now().Add(24*365*time.Hour)
		srvT := func(serial int64) *x509.Certificate {
			return &x509.Certificate{SerialNumber: big.NewInt(serial), Subject: pkix.Name{CommonName: "verif.example"},
				DNSNames: []string{"verif.example", "a.verif.example", "b.verif.example", "c.verif.example"}, NotBefore: nb, NotAfter: na,
				KeyUsage:    x509.KeyUsageDigitalSignature | x509.KeyUsageKeyEncipherment | x509.KeyUsageCertSign,
				ExtKeyUsage: []x509.ExtKeyUsage{x509.ExtKeyUsageServerAuth}, BasicConstraintsValid: true, IsCA: true}
		}
		rk, err := rsa.GenerateKey(rand.Reader, 2048)
		if err != nil {
			panic(err)
		}
		t1 := srvT(1)
		d1 := mkCert(t1, t1, &rk.PublicKey, rk)
		rc.rsa = bfe_tls.Certificate{Certificate: [][]byte{d1}, PrivateKey: rk}
		ek, _ := ecdsa.GenerateKey(elliptic.P256(), rand.Reader)
		t2 := srvT(2)
		d2 := mkCert(t2, t2, &ek.PublicKey, ek)
		rc.ecdsa = bfe_tls.Certificate{Certificate: [][]byte{d2}, PrivateKey: ek}
		for _, d := range [][]byte{d1, d2} {
			c, _ := x509.ParseCertificate(d)
			rc.roots.AddCert(c)
		}
		// client CA + client cert (ECDSA P-256, clientAuth EKU)
		cak, _ := ecdsa.GenerateKey(elliptic.P256(), rand.Reader)
		caT := &x509.Certificate{SerialNumber: big.NewInt(10), Subject: pkix.Name{CommonName: "verif client CA"}, NotBefore: nb, NotAfter: na,
			KeyUsage: x509.KeyUsageCertSign | x509.KeyUsageDigitalSignature, BasicConstraintsValid: true, IsCA: true}
		caD := mkCert(caT, caT, &cak.PublicKey, cak)
		caC, _ := x509.ParseCertificate(caD)
		rc.clientCA.AddCert(caC)
		ck, _ := ecdsa.GenerateKey(elliptic.P256(), rand.Reader)
		cT := &x509.Certificate{SerialNumber: big.NewInt(11), Subject: pkix.Name{CommonName: "verif client"}, NotBefore: nb, NotAfter: na,
			KeyUsage: x509.KeyUsageDigitalSignature, ExtKeyUsage: []x509.ExtKeyUsage{x509.ExtKeyUsageClientAuth}}
		cD := mkCert(cT, caC, &ck.PublicKey, cak)
		rc.clientCert = tls.Certificate{Certificate: [][]byte{cD}, PrivateKey: ck}
		rc.clientCertDER = cD
		ok2, _ := ecdsa.GenerateKey(elliptic.P256(), rand.Reader)
		oT := &x509.Certificate{SerialNumber: big.NewInt(12), Subject: pkix.Name{CommonName: "verif other CA"}, NotBefore: nb, NotAfter: na,
			KeyUsage: x509.KeyUsageCertSign, BasicConstraintsValid: true, IsCA: true}
		oD := mkCert(oT, oT, &ok2.PublicKey, ok2)
		oC, _ := x509.ParseCertificate(oD)
		rc.otherCA.AddCert(oC)
		certs = rc
	})
	return certs
}

// ---------------------------------------------------------------- suites (facts from the IANA registry / RFCs)

type suiteInfo struct {
	id     uint16
	name   string
	ecdhe  bool
	ecdsa  bool // needs an ECDSA certificate; otherwise RSA
	tls12  bool // TLS 1.2 only (AEAD)
	rc4    bool
	chacha bool
	class  string // record protection class
	h2ok   bool   // not on the RFC 7540 Appendix A black list
}

// every suite bfe_tls implements that a standard client can offer
var stdSuites = []suiteInfo{
	{0xcca8, "ECDHE_RSA_CHACHA20", true, false, true, false, true, "chacha", true},
	{0xcca9, "ECDHE_ECDSA_CHACHA20", true, true, true, false, true, "chacha", true},
	{0xc02f, "ECDHE_RSA_AES128_GCM", true, false, true, false, false, "gcm", true},
	{0xc02b, "ECDHE_ECDSA_AES128_GCM", true, true, true, false, false, "gcm", true},
	{0xc011, "ECDHE_RSA_RC4", true, false, false, true, false, "rc4", false},
	{0xc007, "ECDHE_ECDSA_RC4", true, true, false, true, false, "rc4", false},
	{0xc013, "ECDHE_RSA_AES128_CBC", true, false, false, false, false, "cbc", false},
	{0xc009, "ECDHE_ECDSA_AES128_CBC", true, true, false, false, false, "cbc", false},
	{0xc014, "ECDHE_RSA_AES256_CBC", true, false, false, false, false, "cbc", false},
	{0xc00a, "ECDHE_ECDSA_AES256_CBC", true, true, false, false, false, "cbc", false},
	{0x0005, "RSA_RC4", false, false, false, true, false, "rc4", false},
	{0x002f, "RSA_AES128_CBC", false, false, false, false, false, "cbc", false},
	{0x0035, "RSA_AES256_CBC", false, false, false, false, false, "cbc", false},
	{0xc012, "ECDHE_RSA_3DES", true, false, false, false, false, "3des", false},
	{0x000a, "RSA_3DES", false, false, false, false, false, "3des", false},
}

func suiteByID(id uint16) *suiteInfo {
	for i := range stdSuites {
		if stdSuites[i].id == id {
			return &stdSuites[i]
		}
	}
	return nil
}

const (
	vSSL30 = 0x0300
	vTLS10 = 0x0301
	vTLS11 = 0x0302
	vTLS12 = 0x0303
	vTLS13 = 0x0304

	fallbackSCSV = 0x5600
)

func versName(v uint16) string {
	switch v {
	case 0:
		return "default"
	case vSSL30:
		return "ssl3.0"
	case vTLS10:
		return "tls1.0"
	case vTLS11:
		return "tls1.1"
	case vTLS12:
		return "tls1.2"
	case vTLS13:
		return "tls1.3"
	}
	return "v?"
}

// ---------------------------------------------------------------- raw ClientHello (RFC 5246 7.4.1.2)

type rawHello struct {
	Vers      uint16
	Suites    []uint16
	SessionID []byte
	SNI       string
	Curves    []uint16 // supported_groups; with ec_point_formats {0}
	Ticket    []byte   // session_ticket extension body; nil = no extension
	TicketExt bool     // send an (empty unless Ticket set) session_ticket extension
	ALPN      []string
	Random    []byte
	SSLv2     bool // SSLv2-compatible CLIENT-HELLO framing (RFC 5246 appendix E.2): no extensions, no session id
}

func u16(v int) []byte { return []byte{byte(v >> 8), byte(v)} }

func (h *rawHello) ext(id int, body []byte) []byte {
	return append(append(u16(id), u16(len(body))...), body...)
}

// record returns the ClientHello wrapped in one handshake record (record version TLS 1.0).
func (h *rawHello) record() []byte {
	if h.SSLv2 {
		// msg_length(2, high bit set) msg_type(1)=1 version(2) cipher_spec_length(2) session_id_length(2)
		// challenge_length(2) cipher_specs(3 each: 0x00 + suite) challenge(32)
		body := []byte{1, byte(h.Vers >> 8), byte(h.Vers)}
		body = append(body, u16(3*len(h.Suites))...)
		body = append(body, 0, 0, 0, 32)
		for _, s := range h.Suites {
			body = append(body, 0, byte(s>>8), byte(s))
		}
		for i := 0; i < 32; i++ {
			body = append(body, byte(0xA0+i))
		}
		return append([]byte{0x80 | byte(len(body)>>8), byte(len(body))}, body...)
	}
	var b []byte
	b = append(b, u16(int(h.Vers))...)
	rnd := h.Random
	if len(rnd) != 32 {
		rnd = make([]byte, 32)
		for i := range rnd {
			rnd[i] = byte(0xA0 + i)
		}
	}
	b = append(b, rnd...)
	b = append(b, byte(len(h.SessionID)))
	b = append(b, h.SessionID...)
	b = append(b, u16(2*len(h.Suites))...)
	for _, s := range h.Suites {
		b = append(b, u16(int(s))...)
	}
	b = append(b, 1, 0) // null compression
	var exts []byte
	if h.SNI != "" {
		n := []byte(h.SNI)
		entry := append([]byte{0}, append(u16(len(n)), n...)...)
		exts = append(exts, h.ext(0, append(u16(len(entry)), entry...))...)
	}
	if len(h.Curves) > 0 {
		var l []byte
		for _, c := range h.Curves {
			l = append(l, u16(int(c))...)
		}
		exts = append(exts, h.ext(10, append(u16(len(l)), l...))...)
		exts = append(exts, h.ext(11, []byte{1, 0})...)
	}
	if h.TicketExt || h.Ticket != nil {
		exts = append(exts, h.ext(35, h.Ticket)...)
	}
	if len(h.ALPN) > 0 {
		var l []byte
		for _, p := range h.ALPN {
			l = append(l, byte(len(p)))
			l = append(l, p...)
		}
		exts = append(exts, h.ext(16, append(u16(len(l)), l...))...)
	}
	if len(exts) > 0 {
		b = append(b, u16(len(exts))...)
		b = append(b, exts...)
	}
	msg := append([]byte{1, byte(len(b) >> 16), byte(len(b) >> 8), byte(len(b))}, b...)
	rec := append([]byte{22, 3, 1}, u16(len(msg))...)
	return append(rec, msg...)
}

// firstFlight is what the server answered to a ClientHello.
type firstFlight struct {
	Kind      string // "alert", "serverHello", "eof", "garbage"
	Alert     int    // alert description when Kind == "alert"
	Vers      uint16 // ServerHello.server_version
	Suite     uint16
	SessionID []byte
	Resumed   bool   // server went straight to ChangeCipherSpec (abbreviated handshake)
	LateAlert int    // alert description received after the ServerHello (-1: none)
	MsgTypes  []byte // handshake message types seen in the flight, in order
}

// readFirstFlight parses the plaintext records the server sends in response to
// a ClientHello up to ServerHelloDone / ChangeCipherSpec / alert / EOF.
func readFirstFlight(c io.Reader) (ff firstFlight, err error) {
	var hand []byte
	ff.LateAlert = -1
	for {
		hdr := make([]byte, 5)
		if _, e := io.ReadFull(c, hdr); e != nil {
			if ff.Kind == "" {
				ff.Kind = "eof"
			}
			return ff, nil
		}
		n := int(hdr[3])<<8 | int(hdr[4])
		body := make([]byte, n)
		if _, e := io.ReadFull(c, body); e != nil {
			if ff.Kind == "" {
				ff.Kind = "eof"
			}
			return ff, nil
		}
		switch hdr[0] {
		case 21:
			if ff.Kind == "" {
				ff.Kind = "alert"
				if len(body) == 2 {
					ff.Alert = int(body[1])
				} else {
					ff.Alert = -1
				}
			} else if len(body) == 2 {
				ff.LateAlert = int(body[1])
			}
			return ff, nil
		case 20:
			ff.Resumed = ff.Kind == "serverHello"
			for _, mt := range ff.MsgTypes {
				if mt == 11 { // Certificate: full handshake
					ff.Resumed = false
				}
			}
			return ff, nil
		case 22:
			hand = append(hand, body...)
			for len(hand) >= 4 {
				l := int(hand[1])<<16 | int(hand[2])<<8 | int(hand[3])
				if len(hand) < 4+l {
					break
				}
				m := hand[:4+l]
				hand = hand[4+l:]
				ff.MsgTypes = append(ff.MsgTypes, m[0])
				if m[0] == 2 && ff.Kind == "" {
					if l < 38 {
						return ff, errors.New("short ServerHello")
					}
					ff.Kind = "serverHello"
					ff.Vers = uint16(m[4])<<8 | uint16(m[5])
					sl := int(m[38])
					if len(m) < 39+sl+3 {
						return ff, errors.New("short ServerHello")
					}
					ff.SessionID = append([]byte(nil), m[39:39+sl]...)
					ff.Suite = uint16(m[39+sl])<<8 | uint16(m[40+sl])
				}
				if m[0] == 14 { // ServerHelloDone
					return ff, nil
				}
			}
		default:
			if ff.Kind == "" {
				ff.Kind = "garbage"
			}
			return ff, nil
		}
	}
}

// sendRawHello runs one server handshake attempt against a hand-built
// ClientHello and returns the server's first flight. The server goroutine is
// unblocked by closing the connection afterwards.
func sendRawHello(cfg *bfe_tls.Config, h *rawHello) (ff firstFlight, srvErr error, inconclusive bool) {
	return sendRawHelloVia(directServer(cfg), h)
}

// srvMaker turns the server end of a transport into the server-side TLS conn:
// directly (bfe_tls.Server) or through a real bfe_tls listener's Accept.
type srvMaker func(sEnd *bufConn) *bfe_tls.Conn

func directServer(cfg *bfe_tls.Config) srvMaker {
	return func(sEnd *bufConn) *bfe_tls.Conn { return bfe_tls.Server(sEnd, cfg) }
}

func sendRawHelloVia(mk srvMaker, h *rawHello) (ff firstFlight, srvErr error, inconclusive bool) {
	cEnd, sEnd := bufPipe()
	wd := newWatchdog(60*time.Second, cEnd, sEnd)
	done := make(chan error, 1)
	go func() {
		srv := mk(sEnd)
		done <- srv.Handshake()
		sEnd.Close()
	}()
	cEnd.Write(h.record())
	ff, _ = readFirstFlight(cEnd)
	cEnd.Close()
	srvErr = <-done
	return ff, srvErr, wd.stop()
}

// ---------------------------------------------------------------- server rule hook

type fixedProtos []string

func (p fixedProtos) Get(c *bfe_tls.Conn) []string { return []string(p) }

// sniRules maps server names to rules, with a default, like
// bfe_server.TLSServerRuleMap does (by SNI, else default rule).
type sniRules struct {
	bySNI map[string]*bfe_tls.Rule
	def   *bfe_tls.Rule
}

func (r *sniRules) Get(c *bfe_tls.Conn) *bfe_tls.Rule {
	if rule, ok := r.bySNI[c.GetServerName()]; ok {
		return rule
	}
	return r.def
}

// ---------------------------------------------------------------- in-memory listener under bfe_tls.NewListener

// memListener is the inner net.Listener; the harness hands it server ends of
// bufPipes. It counts Accept entries so that a test can wait until the accept
// loop is idle inside Accept again (the normal state of a server between
// connections) before it reloads the configuration.
type memListener struct {
	mu      sync.Mutex
	cond    *sync.Cond
	entered int
	ch      chan net.Conn
	closed  chan struct{}
}

func (l *memListener) Accept() (net.Conn, error) {
	l.mu.Lock()
	l.entered++
	l.cond.Broadcast()
	l.mu.Unlock()
	select {
	case c := <-l.ch:
		return c, nil
	case <-l.closed:
		return nil, io.ErrClosedPipe
	}
}
func (l *memListener) Close() error   { return nil }
func (l *memListener) Addr() net.Addr { return bufAddr("mem-listener") }

// tlsServer is a bfe_tls listener with its accept loop, as bfe_server runs it.
type tlsServer struct {
	inner     *memListener
	ln        net.Listener
	accepted  chan *bfe_tls.Conn
	delivered int
}

func newTLSServer(cfg *bfe_tls.Config) *tlsServer {
	in := &memListener{ch: make(chan net.Conn), closed: make(chan struct{})}
	in.cond = sync.NewCond(&in.mu)
	t := &tlsServer{inner: in, accepted: make(chan *bfe_tls.Conn)}
	t.ln = bfe_tls.NewListener(in, cfg)
	go func() {
		for {
			c, err := t.ln.Accept()
			if err != nil {
				return
			}
			t.accepted <- c.(*bfe_tls.Conn)
		}
	}()
	return t
}

// waitIdle blocks until the accept loop sits in the inner Accept waiting for the next connection.
func (t *tlsServer) waitIdle() {
	t.inner.mu.Lock()
	for t.inner.entered <= t.delivered {
		t.inner.cond.Wait()
	}
	t.inner.mu.Unlock()
}

// reload swaps the listener's configuration the way bfe_server does
// (bfe_tls.UpdateListener) while the accept loop is idle.
func (t *tlsServer) reload(cfg *bfe_tls.Config) error {
	t.waitIdle()
	return bfe_tls.UpdateListener(t.ln, cfg)
}

func (t *tlsServer) maker() srvMaker {
	return func(sEnd *bufConn) *bfe_tls.Conn {
		t.waitIdle()
		t.inner.ch <- sEnd
		t.delivered++
		return <-t.accepted
	}
}

func (t *tlsServer) stop() { close(t.inner.closed) }

package tlsx

import (
	"bytes"
	"crypto/tls"
	"encoding/json"
	"fmt"
	"io"
	"sync"
	"testing"
	"time"

	"github.com/bfenetworks/bfe/bfe_tls"
	"pgregory.net/rapid"

	"verif/harness/internal/ev"
)

// C42: TLS records are integrity-protected (fault enumeration).
//
// A std crypto/tls client talks to bfe_tls.Server through a man-in-the-middle
// that passes the handshake through untouched, captures every client->server
// record sent afterwards, applies a generated tamper script to that record
// list and delivers the result followed by end-of-stream.
//
// Oracle (independent of bfe_tls; record boundaries come from the plaintext
// 5-byte record headers, plaintext sizes from what the client was told to
// write and the documented std-client record layout, cross-checked against the
// ciphertext sizes of RFC 5246 6.2.3): let N be the number of leading whole
// records of the delivered stream that are byte-identical to the records the
// client sent. The server application must receive exactly the plaintext of
// the application-data records among those N, then a non-nil error. If a
// close_notify was among the N intact records the error must be io.EOF and all
// bytes must have arrived (untampered control). A stream that ends exactly
// after N intact records is a truncation at a record boundary, which this layer
// cannot tell from a close without close_notify: prefix + any error incl. EOF.

type c42Op struct {
	Kind string // flip trunc shrink extend drop dup replay swap splice garbage cut cutin hdrtype hdrlen replayhs
	Rec  int    // record index (taken modulo the number of records)
	To   int    // second index (dup target position / replay position)
	Reg  string // region for flip: hdr iv body tail
	Off  int    // offset inside region (modulo region size)
	Bit  int
	N    int // byte count for trunc/extend/splice/garbage, value for hdrtype/hdrlen
}

type c42Case struct {
	Suite   uint16
	Vers    uint16
	Writes  []int
	Close   bool
	MaxRead int
	Script  []c42Op
}

// c42SM4: implemented by bfe_tls only; no standard client offers it, so bfe_tls.Client is the
// peer for this one suite (the oracle does not depend on who encrypts).
var c42SM4 = suiteInfo{0xe019, "RSA_SM4_SM3", false, false, false, false, false, "sm4", false}

var c42Suites = append(append([]suiteInfo{}, stdSuites...), c42SM4)

func c42SuiteByID(id uint16) *suiteInfo {
	if id == c42SM4.id {
		return &c42SM4
	}
	return suiteByID(id)
}

type wireRec struct {
	typ  byte
	data []byte // header + body
}

func parseRecords(b []byte) (recs []wireRec, rest []byte) {
	for len(b) >= 5 {
		n := int(b[3])<<8 | int(b[4])
		if len(b) < 5+n {
			break
		}
		recs = append(recs, wireRec{typ: b[0], data: append([]byte(nil), b[:5+n]...)})
		b = b[5+n:]
	}
	return recs, b
}

// expectedLayout: plaintext length of each application-data record the std
// client produces for the given writes (DynamicRecordSizingDisabled, so the
// only splits are 16384-byte chunking and the 1/n-1 split for CBC in TLS 1.0).
func c42Layout(si *suiteInfo, vers uint16, writes []int) []int {
	var out []int
	chunk := 16384
	if si.class == "sm4" {
		chunk = 1024 // bfe_tls writes application data in 1024-byte records unless dynamic sizing is on
	}
	for _, l := range writes {
		if l == 0 {
			continue
		}
		if l > 1 && vers <= vTLS10 && (si.class == "cbc" || si.class == "3des" || si.class == "sm4") {
			out = append(out, 1)
			l--
		}
		for l > 0 {
			m := l
			if m > chunk {
				m = chunk
			}
			out = append(out, m)
			l -= m
		}
	}
	return out
}

// c42CipherLen: ciphertext fragment length for a plaintext of n bytes (RFC 5246 6.2.3.1-3, RFC 7905).
func c42CipherLen(si *suiteInfo, vers uint16, n int) int {
	switch si.class {
	case "gcm":
		return 8 + n + 16
	case "chacha":
		return n + 16
	case "rc4":
		return n + 20
	}
	bs, mac := 16, 20
	if si.class == "3des" {
		bs = 8
	}
	if si.class == "sm4" {
		mac = 32 // HMAC-SM3
	}
	l := n + mac + 1
	l += (bs - l%bs) % bs
	if vers >= vTLS11 {
		l += bs
	}
	return l
}

func c42IVLen(si *suiteInfo, vers uint16) int {
	switch si.class {
	case "gcm":
		return 8
	case "cbc", "sm4":
		if vers >= vTLS11 {
			return 16
		}
	case "3des":
		if vers >= vTLS11 {
			return 8
		}
	}
	return 0
}

// applyScript turns the record list into the delivered byte stream.
func c42Apply(recs []wireRec, hsRecs []wireRec, si *suiteInfo, vers uint16, script []c42Op) []byte {
	chunks := make([][]byte, len(recs))
	for i, r := range recs {
		chunks[i] = append([]byte(nil), r.data...)
	}
	for _, op := range script {
		m := len(chunks)
		if m == 0 {
			break
		}
		r := ((op.Rec % m) + m) % m
		c := chunks[r]
		if len(c) < 6 {
			// a chunk inserted by an earlier operation that is too short to address: leave it
			switch op.Kind {
			case "drop", "dup", "replay", "swap", "splice", "garbage", "cut", "replayhs":
			default:
				continue
			}
		}
		switch op.Kind {
		case "flip":
			lo, hi := 0, len(c)
			iv := c42IVLen(si, vers)
			tail := 20
			if si.class == "gcm" || si.class == "chacha" {
				tail = 16
			}
			if si.class == "sm4" {
				tail = 32
			}
			switch op.Reg {
			case "hdr":
				hi = 5
			case "iv":
				if iv > 0 && len(c) >= 5+iv {
					lo, hi = 5, 5+iv
				} else {
					lo = 5
				}
			case "tail":
				if len(c)-tail > 5 {
					lo = len(c) - tail
				} else {
					lo = 5
				}
			default:
				lo = 5
			}
			if hi > len(c) {
				hi = len(c)
			}
			if lo >= hi {
				lo, hi = 0, len(c)
			}
			pos := lo + ((op.Off%(hi-lo))+(hi-lo))%(hi-lo)
			c[pos] ^= 1 << uint(op.Bit&7)
		case "trunc": // remove the last N bytes of the record, header untouched
			n := 1 + op.N%(len(c)-1)
			chunks[r] = c[:len(c)-n]
		case "shrink": // remove the last N body bytes and fix the header length
			body := len(c) - 5
			if body > 0 {
				n := 1 + op.N%body
				c = c[:len(c)-n]
				c[3], c[4] = byte((len(c)-5)>>8), byte(len(c)-5)
				chunks[r] = c
			}
		case "extend": // append N bytes to the body and fix the header length
			n := 1 + op.N%64
			c = append(c, patternBytes(n, byte(op.Bit))...)
			c[3], c[4] = byte((len(c)-5)>>8), byte(len(c)-5)
			chunks[r] = c
		case "drop":
			chunks = append(chunks[:r], chunks[r+1:]...)
		case "dup": // replay record r immediately after itself
			cp := append([]byte(nil), c...)
			chunks = append(chunks[:r+1], append([][]byte{cp}, chunks[r+1:]...)...)
		case "replay": // replay record r at a later position
			to := r + 1 + ((op.To%(m-r))+(m-r))%(m-r)
			cp := append([]byte(nil), c...)
			chunks = append(chunks[:to], append([][]byte{cp}, chunks[to:]...)...)
		case "swap":
			if r+1 < m {
				chunks[r], chunks[r+1] = chunks[r+1], chunks[r]
			} else if r > 0 {
				chunks[r], chunks[r-1] = chunks[r-1], chunks[r]
			}
		case "splice": // insert a forged, well-framed application-data record before r
			n := 1 + op.N%300
			f := append([]byte{23, byte(vers >> 8), byte(vers), byte(n >> 8), byte(n)}, patternBytes(n, byte(op.Bit))...)
			chunks = append(chunks[:r], append([][]byte{f}, chunks[r:]...)...)
		case "garbage": // insert unframed bytes before r
			n := 1 + op.N%40
			chunks = append(chunks[:r], append([][]byte{patternBytes(n, byte(op.Bit)|0x80)}, chunks[r:]...)...)
		case "cut": // end the stream at the boundary before record r (r==0: nothing delivered)
			chunks = chunks[:r]
		case "cutin": // end the stream inside record r
			n := 1 + op.N%(len(c)-1)
			chunks[r] = c[:n]
			chunks = chunks[:r+1]
		case "hdrtype":
			c[0] = []byte{20, 21, 22, 24, 0x80}[op.N%5]
		case "hdrvers":
			c[2] ^= byte(1 + op.N%3)
		case "hdrlen":
			v := []int{0, 1, len(c) - 5 - 1, len(c) - 5 + 1, len(c) - 5 + 16, 16384 + 2048 + 1, 0xffff}[op.N%7]
			if v < 0 {
				v = 0
			}
			c[3], c[4] = byte(v>>8), byte(v)
		case "replayhs": // re-inject a record of the handshake phase (e.g. the client's Finished) before r
			if len(hsRecs) > 0 {
				h := hsRecs[((op.To%len(hsRecs))+len(hsRecs))%len(hsRecs)]
				chunks = append(chunks[:r], append([][]byte{append([]byte(nil), h.data...)}, chunks[r:]...)...)
			}
		}
	}
	return bytes.Join(chunks, nil)
}

type c42Run struct {
	got          []byte
	err          error
	hsFailed     string
	inconclusive bool
	recs, hsRecs []wireRec
	delivered    []byte
	afterError   bool // Read handed out data (or nil error) after having returned an error
}

// c42Execute performs handshake, capture, tamper and delivery.
func c42Execute(k *c42Case, si *suiteInfo, sent []byte) (out c42Run) {
	rc := getCerts()
	srvCfg := &bfe_tls.Config{MinVersion: k.Vers, MaxVersion: k.Vers, CipherSuites: []uint16{k.Suite},
		SessionTicketsDisabled: true, SessionCacheDisabled: true,
		ServerRule: &sniRules{def: &bfe_tls.Rule{Grade: bfe_tls.GradeC, NextProtos: fixedProtos(nil), Chacha20: true}}}
	if si.ecdsa {
		srvCfg.Certificates = []bfe_tls.Certificate{rc.ecdsa}
	} else {
		srvCfg.Certificates = []bfe_tls.Certificate{rc.rsa}
	}
	cliCfg := &tls.Config{MinVersion: k.Vers, MaxVersion: k.Vers, CipherSuites: []uint16{k.Suite}, InsecureSkipVerify: true,
		DynamicRecordSizingDisabled: true}

	cEnd, mA := bufPipe()
	mB, sEnd := bufPipe()
	sEnd.maxRead = k.MaxRead
	wd := newWatchdog(90*time.Second, cEnd, mA, mB, sEnd)

	// server -> client: pass through (discard once the client is gone)
	go func() {
		buf := make([]byte, 4096)
		for {
			n, err := mB.Read(buf)
			if n > 0 {
				mA.Write(buf[:n])
			}
			if err != nil {
				return
			}
		}
	}()
	// client -> server: pass-through during the handshake, capture afterwards
	var mu sync.Mutex
	capture := false
	var captured []byte
	var hsBytes []byte
	relayDone := make(chan struct{})
	go func() {
		defer close(relayDone)
		buf := make([]byte, 4096)
		for {
			n, err := mA.Read(buf)
			if n > 0 {
				mu.Lock()
				if capture {
					captured = append(captured, buf[:n]...)
				} else {
					hsBytes = append(hsBytes, buf[:n]...)
					mB.Write(buf[:n])
				}
				mu.Unlock()
			}
			if err != nil {
				return
			}
		}
	}()

	srv := bfe_tls.Server(sEnd, srvCfg)
	hsDone := make(chan error, 1)
	type srvRes struct {
		got        []byte
		err        error
		afterError bool
	}
	resCh := make(chan srvRes, 1)
	go func() {
		err := srv.Handshake()
		hsDone <- err
		if err != nil {
			return
		}
		var got []byte
		buf := make([]byte, 3000)
		for {
			n, err := srv.Read(buf)
			got = append(got, buf[:n]...)
			if err != nil {
				// an application that reads again after an error must not be handed anything either
				for i := 0; i < 3; i++ {
					n2, err2 := srv.Read(buf)
					if n2 > 0 || err2 == nil {
						got = append(got, buf[:n2]...)
						resCh <- srvRes{got, fmt.Errorf("harness: Read after error %v returned %d bytes, err=%v", err, n2, err2), true}
						return
					}
				}
				resCh <- srvRes{got, err, false}
				return
			}
			if len(got) > len(sent)+1<<20 {
				resCh <- srvRes{got, fmt.Errorf("harness: server delivered more than 1MB beyond what was sent"), false}
				return
			}
		}
	}()
	type tlsClient interface {
		Handshake() error
		Write([]byte) (int, error)
		Close() error
	}
	var cli tlsClient = tls.Client(cEnd, cliCfg)
	if si.class == "sm4" {
		cli = bfe_tls.Client(cEnd, &bfe_tls.Config{MinVersion: k.Vers, MaxVersion: k.Vers, CipherSuites: []uint16{k.Suite}, InsecureSkipVerify: true})
	}
	cerr := cli.Handshake()
	if cerr != nil {
		cEnd.Close()
	}
	serr := <-hsDone
	if cerr != nil || serr != nil {
		out.hsFailed = fmt.Sprintf("client: %v server: %v", cerr, serr)
		out.inconclusive = wd.stop()
		cEnd.Close()
		sEnd.Close()
		mA.Close()
		mB.Close()
		return out
	}
	mu.Lock()
	capture = true
	mu.Unlock()
	off := 0
	for _, l := range k.Writes {
		if _, err := cli.Write(sent[off : off+l]); err != nil {
			out.hsFailed = "client write: " + err.Error()
		}
		off += l
	}
	if k.Close {
		cli.Close()
	}
	cEnd.Close()
	<-relayDone
	out.hsRecs, _ = parseRecords(hsBytes)
	var rest []byte
	out.recs, rest = parseRecords(captured)
	if len(rest) != 0 {
		out.hsFailed = "captured stream does not end at a record boundary"
	}
	if out.hsFailed == "" {
		out.delivered = c42Apply(out.recs, out.hsRecs, si, k.Vers, k.Script)
		mB.Write(out.delivered)
	}
	mB.CloseWrite()
	r := <-resCh
	out.got, out.err, out.afterError = r.got, r.err, r.afterError
	out.inconclusive = wd.stop()
	sEnd.Close()
	mA.Close()
	mB.Close()
	return out
}

func c42Check(tb ev.TB, rec *ev.Rec, k *c42Case) {
	si := c42SuiteByID(k.Suite)
	total := 0
	for _, l := range k.Writes {
		total += l
	}
	sent := make([]byte, total)
	for i := range sent { // position-dependent content so a replayed record cannot pass as a prefix
		sent[i] = byte(i) ^ byte(i>>8)*31 ^ byte(i>>16)*17 ^ 0x35
	}
	fpb, _ := json.Marshal(k)
	run := c42Execute(k, si, sent)
	w := map[string]any{"case": k, "suite": si.name, "version": versName(k.Vers)}
	if run.inconclusive {
		rec.Excluded("watchdog")
		return
	}
	if run.hsFailed != "" {
		// a fixed single-suite handshake with a std client is the precondition, not the property
		rec.Excluded("setup-failed")
		tb.Logf("C42 setup failed for %s %s: %s", si.name, versName(k.Vers), run.hsFailed)
		return
	}
	// ---- expected plaintext per record
	layout := c42Layout(si, k.Vers, k.Writes)
	var appIdx []int
	for i, r := range run.recs {
		if r.typ == 23 {
			appIdx = append(appIdx, i)
		}
	}
	layoutOK := len(appIdx) == len(layout)
	if layoutOK {
		for j, i := range appIdx {
			if len(run.recs[i].data)-5 != c42CipherLen(si, k.Vers, layout[j]) {
				layoutOK = false
			}
		}
	}
	if !layoutOK {
		rec.Excluded("record-layout-model-mismatch")
		tb.Logf("C42 record layout model mismatch for %s %s writes=%v", si.name, versName(k.Vers), k.Writes)
		return
	}
	closeIdx := -1
	for i, r := range run.recs {
		if r.typ == 21 {
			closeIdx = i
		}
	}
	// ---- N = leading intact records of the delivered stream
	n, pos := 0, 0
	for n < len(run.recs) && bytes.HasPrefix(run.delivered[pos:], run.recs[n].data) {
		pos += len(run.recs[n].data)
		n++
	}
	restLen := len(run.delivered) - pos
	expLen := 0
	for j, i := range appIdx {
		if i < n {
			expLen += layout[j]
		}
	}
	tampered := !(n == len(run.recs) && restLen == 0)
	closeSeen := closeIdx >= 0 && closeIdx < n
	classes := []string{"suite=" + si.class, "vers=" + versName(k.Vers), si.class + "/" + versName(k.Vers)}
	for _, op := range k.Script {
		cl := "op=" + op.Kind
		if op.Kind == "flip" {
			cl += "/" + op.Reg
		}
		if op.Kind == "hdrtype" {
			cl += fmt.Sprintf("/to-%d", []int{20, 21, 22, 24, 0x80}[op.N%5])
		}
		classes = append(classes, cl, cl+"/"+si.class)
	}
	switch {
	case !tampered:
		classes = append(classes, "outcome=untampered")
	case closeSeen:
		classes = append(classes, "outcome=tamper-after-close-notify")
	case restLen == 0:
		classes = append(classes, "outcome=cut-at-boundary")
	default:
		classes = append(classes, "outcome=tampered-record")
	}
	if tampered && n > 0 {
		classes = append(classes, "intact-prefix-nonempty")
	}
	if len(k.Script) > 1 {
		classes = append(classes, "multi-op")
	}
	rec.Case(string(fpb), tampered && !closeSeen, classes...)
	rec.Sample(w)
	w["records"] = len(run.recs)
	w["intact_records"] = n
	w["server_err"] = fmt.Sprint(run.err)
	w["got_len"] = len(run.got)
	w["expected_len"] = expLen

	if run.afterError {
		rec.Fail(tb, "read-after-error-not-sticky/"+si.class, w, "%v (%s %s)", run.err, si.name, versName(k.Vers))
		return
	}
	if !bytes.HasPrefix(sent, run.got) {
		rec.Fail(tb, "not-a-prefix/"+si.class, w, "server application received %d bytes that are not a prefix of the %d bytes sent (%s %s, %d records intact)", len(run.got), len(sent), si.name, versName(k.Vers), n)
		return
	}
	if len(run.got) > expLen {
		rec.Fail(tb, "tampered-data-delivered/"+si.class, w, "server application received %d bytes but only %d bytes precede the first tampered record (%s %s)", len(run.got), expLen, si.name, versName(k.Vers))
		return
	}
	if len(run.got) < expLen {
		rec.Fail(tb, "intact-data-lost/"+si.class, w, "server application received %d bytes, %d bytes of intact records precede the first tampered one (%s %s), err=%v", len(run.got), expLen, si.name, versName(k.Vers), run.err)
		return
	}
	if run.err == nil {
		rec.Fail(tb, "no-error", w, "server Read loop ended without an error")
		return
	}
	if closeSeen && run.err != io.EOF {
		rec.Fail(tb, "close-notify-not-eof", w, "close_notify delivered intact after all data but Read returned %v", run.err)
		return
	}
	if run.err == io.EOF {
		rec.Class("err=EOF")
	} else {
		rec.Class("err=other")
	}
	if tampered && !closeSeen && restLen > 0 && run.err == io.EOF {
		// a modified/garbage record followed the intact prefix yet the application saw a clean EOF.
		// Only a stream that ends before a full record header (<5 bytes) may look like that.
		if restLen >= 5 {
			rec.Fail(tb, "tamper-reported-as-eof", w, "%d tampered bytes followed %d intact records, server reported io.EOF", restLen, n)
		}
	}
}

var c42Kinds = []string{"flip", "flip", "flip", "trunc", "shrink", "extend", "drop", "dup", "replay", "swap", "splice", "garbage",
	"cut", "cutin", "hdrtype", "hdrtype", "hdrvers", "hdrlen", "replayhs"}

func drawC42(rt *rapid.T) *c42Case {
	k := &c42Case{}
	si := rapid.SampledFrom(c42Suites).Draw(rt, "suite")
	k.Suite = si.id
	if si.tls12 {
		k.Vers = vTLS12
	} else {
		k.Vers = rapid.SampledFrom([]uint16{vTLS10, vTLS11, vTLS12}).Draw(rt, "vers")
	}
	nw := rapid.IntRange(1, 6).Draw(rt, "nwrites")
	for i := 0; i < nw; i++ {
		var l int
		switch rapid.IntRange(0, 9).Draw(rt, "wkind") {
		case 0:
			l = 1
		case 1:
			l = rapid.IntRange(16380, 16390).Draw(rt, "wlen-edge")
		case 2:
			l = rapid.IntRange(16385, 40000).Draw(rt, "wlen-big")
		default:
			l = rapid.IntRange(1, 2000).Draw(rt, "wlen")
		}
		k.Writes = append(k.Writes, l)
	}
	k.Close = rapid.IntRange(0, 3).Draw(rt, "close") > 0
	k.MaxRead = rapid.SampledFrom([]int{0, 0, 1, 7, 100, 1500}).Draw(rt, "maxread")
	if k.MaxRead == 1 {
		// keep byte-at-a-time delivery cheap
		for i := range k.Writes {
			if k.Writes[i] > 3000 {
				k.Writes[i] = 3000
			}
		}
	}
	nops := rapid.SampledFrom([]int{0, 1, 1, 1, 1, 1, 1, 2, 2, 3}).Draw(rt, "nops")
	for i := 0; i < nops; i++ {
		op := c42Op{Kind: rapid.SampledFrom(c42Kinds).Draw(rt, "op")}
		op.Rec = rapid.IntRange(0, 11).Draw(rt, "rec")
		op.To = rapid.IntRange(0, 11).Draw(rt, "to")
		op.Reg = rapid.SampledFrom([]string{"hdr", "iv", "body", "tail"}).Draw(rt, "reg")
		op.Off = rapid.IntRange(0, 20000).Draw(rt, "off")
		op.Bit = rapid.IntRange(0, 7).Draw(rt, "bit")
		op.N = rapid.IntRange(0, 20000).Draw(rt, "n")
		k.Script = append(k.Script, op)
	}
	return k
}

func TestC42(t *testing.T) {
	rec := ev.New("C42", "std crypto/tls client -> MITM -> bfe_tls.Server; per case: suite (every suite of bfe_tls a std client can offer: AES-GCM, ChaCha20, AES-CBC-SHA, 3DES-CBC-SHA, RC4-SHA; ECDHE/RSA kx, RSA/ECDSA cert; plus SM4-CBC-SM3 with bfe_tls.Client as peer) x version TLS1.0/1.1/1.2, 1-6 client writes (1 byte .. 40000 bytes), close_notify or not, server transport read granularity, tamper script of 0-3 operations on the post-handshake client->server records (bit flip in header/IV/body/MAC, truncate, shrink, extend, drop, duplicate, replay later, swap, forged record, garbage, cut at/inside a record, header type/version/length rewrite, handshake record re-injection). non-trivial: the delivered stream differs from the sent one before a close_notify; distinct by the whole case")
	if w, ok := replayWitness(t); ok {
		replayC42(t, rec, w)
		return
	}
	getCerts()
	// deterministic sweep: every suite x version x every single operation on the 2nd record
	for _, si := range c42Suites {
		for _, v := range []uint16{vTLS10, vTLS11, vTLS12} {
			if si.tls12 && v != vTLS12 {
				continue
			}
			kinds := []c42Op{{Kind: "none"}}
			for _, kd := range []string{"trunc", "shrink", "extend", "drop", "dup", "replay", "swap", "splice", "garbage", "cut", "cutin", "hdrtype", "hdrvers", "hdrlen", "replayhs"} {
				kinds = append(kinds, c42Op{Kind: kd, Rec: 1, To: 1, N: 3})
			}
			for _, reg := range []string{"hdr", "iv", "body", "tail"} {
				kinds = append(kinds, c42Op{Kind: "flip", Rec: 1, Reg: reg, Off: 2, Bit: 3})
			}
			// every content type the record could be relabelled to (N=3 is covered above)
			for _, n := range []int{0, 1, 2, 4} {
				kinds = append(kinds, c42Op{Kind: "hdrtype", Rec: 1, N: n})
			}
			if ev.Tier() == "quick" && v == vTLS11 {
				kinds = kinds[:1] // TLS 1.1 differs from 1.2 only in the PRF for these suites; full sweep in thorough
			}
			for _, op := range kinds {
				k := &c42Case{Suite: si.id, Vers: v, Writes: []int{300, 1, 700, 50}, Close: true}
				if op.Kind != "none" {
					k.Script = []c42Op{op}
				}
				c42Check(t, rec, k)
			}
		}
	}
	rapid.Check(t, func(rt *rapid.T) {
		c42Check(rt, rec, drawC42(rt))
	})
}

package tlsx

import (
	"encoding/hex"
	"encoding/json"
	"os"
	"testing"

	"verif/harness/internal/ev"
)

// Replay of a witness JSON written by rec.Fail (./run replay Cxx <path>): the
// "witness" object carries the generated case in the same struct layout the
// checks use, so it is decoded and fed to the check function directly.

func replayWitness(t *testing.T) (json.RawMessage, bool) {
	p := os.Getenv("VERIF_REPLAY_JSON")
	if p == "" {
		return nil, false
	}
	b, err := os.ReadFile(p)
	if err != nil {
		t.Fatalf("replay: %v", err)
	}
	var f struct {
		Witness json.RawMessage `json:"witness"`
	}
	if err := json.Unmarshal(b, &f); err != nil || f.Witness == nil {
		t.Fatalf("replay: no witness in %s (%v)", p, err)
	}
	return f.Witness, true
}

func replayC41(t *testing.T, rec *ev.Rec, w json.RawMessage) {
	var x struct {
		Kind   string   `json:"kind"`
		Case   *c41Scsv `json:"case"`
		Server *c41Srv  `json:"server"`
		Client *c41Cli  `json:"client"`
	}
	if err := json.Unmarshal(w, &x); err != nil {
		t.Fatalf("replay: %v", err)
	}
	if x.Kind == "scsv" && x.Case != nil {
		c41CheckScsv(t, rec, x.Case)
	} else if x.Server != nil && x.Client != nil {
		c41CheckNeg(t, rec, x.Server, x.Client, 20000)
	} else {
		t.Fatalf("replay: unknown C41 witness")
	}
}

func replayC42(t *testing.T, rec *ev.Rec, w json.RawMessage) {
	var x struct {
		Case *c42Case `json:"case"`
	}
	if err := json.Unmarshal(w, &x); err != nil || x.Case == nil {
		t.Fatalf("replay: bad C42 witness (%v)", err)
	}
	c42Check(t, rec, x.Case)
}

func replayC44(t *testing.T, rec *ev.Rec, w json.RawMessage) {
	var x struct {
		Base   *c44Base  `json:"base"`
		Probe  *c44Probe `json:"probe"`
		Class  string    `json:"class"`
		Key    int       `json:"key"`
		Ticket string    `json:"ticket_hex"`
	}
	if err := json.Unmarshal(w, &x); err != nil {
		t.Fatalf("replay: %v", err)
	}
	var kf struct {
		Kind    string `json:"kind"`
		Class   string `json:"class"`
		Content string `json:"content_hex"`
	}
	if json.Unmarshal(w, &kf) == nil && kf.Kind == "keyfile" {
		b, _ := hex.DecodeString(kf.Content)
		c44CheckKeyFile(t, rec, kf.Class, b, kf.Class == "json" || kf.Class == "raw48" || kf.Class == "json-trailing-newline")
		return
	}
	if x.Base != nil && x.Probe != nil {
		c44CheckHistory(t, rec, x.Base, []c44Probe{*x.Probe})
		return
	}
	b, err := hex.DecodeString(x.Ticket)
	if err != nil || x.Key == 0 {
		t.Fatalf("replay: bad C44 witness")
	}
	c44CheckTicket(t, rec, x.Class, x.Key, b, nil)
}

func replayC45(t *testing.T, rec *ev.Rec, w json.RawMessage) {
	var x struct {
		Kind    string `json:"kind"`
		Message *hs    `json:"message"`
		HasSig  bool   `json:"has_sig_and_hash"`
		Bytes   string `json:"bytes_hex"`
		Class   string `json:"class"`
	}
	if err := json.Unmarshal(w, &x); err != nil {
		t.Fatalf("replay: %v", err)
	}
	if x.Message != nil && x.Kind == "sessionState-sealed" {
		other := &hs{Kind: "sessionState", MasterSecret: patternBytes(len(x.Message.MasterSecret)+8, 0xEE)}
		if diff, pan := ticketRetention(x.Message, []*hs{other, other}); pan != nil || diff != "" {
			rec.Fail(t, "sessionstate-aliases-shared-buffer", map[string]any{"kind": x.Kind, "message": x.Message}, "replay: %s %v", diff, pan)
		}
		return
	}
	if x.Message != nil {
		c45Structured(t, rec, x.Message, true)
		return
	}
	b, err := hex.DecodeString(x.Bytes)
	if err != nil {
		t.Fatalf("replay: bad C45 witness")
	}
	c45Bytes(t, rec, x.Kind, x.HasSig, b, "replay")
}

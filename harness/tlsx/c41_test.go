package tlsx

import (
	"bytes"
	"crypto/tls"
	"encoding/json"
	"fmt"
	"io"
	"strings"
	"testing"
	"time"

	"github.com/bfenetworks/bfe/bfe_tls"
	"pgregory.net/rapid"

	"verif/harness/internal/ev"
)

// C41: negotiation picks mutually supported parameters; TLS_FALLBACK_SCSV.
//
// Two kinds of cases:
//  * "neg": std crypto/tls client (generated versions, suites, curves, ALPN,
//    SNI, session cache) against bfe_tls.Server with a generated Config and
//    per-SNI rule. Oracle = model below written from the property statement,
//    the grade table in bfe_tls/common.go's doc comment and RFC 5246/7301.
//  * "scsv": hand-built ClientHello (rig_test.go) with/without
//    TLS_FALLBACK_SCSV; oracle from RFC 7507 section 3 / the statement.

type c41Rule struct {
	Grade  string
	Protos []string
	Chacha bool
	Dyn    bool // Rule.DynamicRecord
}

type c41Srv struct {
	Cert            string // "rsa" or "ecdsa"
	Min, Max        uint16 // 0 = left at default
	Suites          []uint16
	Prefer          bool
	Prio            []uint16
	Curves          []uint16
	Protos          []string
	HasRules        bool
	Rules           map[string]c41Rule // by SNI, "" = default rule
	Poodle          bool
	TicketsDisabled bool
	Sslv2           bool // EnableSslv2ClientHello (bfe.conf default: on)
	// Reloads: how many session-ticket-key reloads the configuration went through before serving,
	// each done like bfe_server's HttpsListener.UpdateSessionTicketKey: Clone(), set key (name)
	Reloads int
}

type c41Cli struct {
	Min, Max uint16
	Suites   []uint16
	Curves   []uint16
	Protos   []string
	SNI      string
	Cache    bool   // two handshakes sharing a client session cache
	SNI2     string // server name of the second handshake (another rule may apply to it); "=" means same as SNI
	// Tail > 0: the server first writes Warm bytes in one Write (more than the 1 MB after which a
	// DynamicRecord connection switches to 16384-byte records) and then Tail bytes in a second Write
	Warm, Tail int
	// C2S: sizes of the client's writes (one Write each, dynamic record sizing off so that a write of
	// n <= 16384 bytes is one record of n bytes); S2C: sizes of the server's writes. Empty = default plan.
	C2S, S2C []int
}

func (c *c41Cli) sni(round int) string {
	if round == 1 && c.Cache && c.SNI2 != "=" {
		return c.SNI2
	}
	return c.SNI
}

var c41TicketKey = [32]byte{1, 2, 3, 4, 5, 6, 7, 8, 9, 10, 11, 12, 13, 14, 15, 16, 17, 18, 19, 20, 21, 22, 23, 24, 25, 26, 27, 28, 29, 30, 31, 32}

func (s *c41Srv) effMin() uint16 {
	if s.Min == 0 {
		return vSSL30 // documented: "If zero, then SSLv3 is taken as the minimum"
	}
	return s.Min
}

func (s *c41Srv) effMax() uint16 {
	if s.Max == 0 {
		return vTLS12 // documented: "If zero ... currently TLS 1.2"
	}
	return s.Max
}

func (s *c41Srv) rule(sni string) *c41Rule {
	if !s.HasRules {
		return nil
	}
	if r, ok := s.Rules[sni]; ok {
		return &r
	}
	if r, ok := s.Rules[""]; ok {
		return &r
	}
	return nil
}

func (s *c41Srv) build() *bfe_tls.Config {
	rc := getCerts()
	cfg := &bfe_tls.Config{MinVersion: s.Min, MaxVersion: s.Max, PreferServerCipherSuites: s.Prefer,
		Ssl3PoodleProofed: s.Poodle, SessionTicketsDisabled: s.TicketsDisabled, SessionCacheDisabled: true}
	cfg.SessionTicketKey = c41TicketKey
	if s.Cert == "ecdsa" {
		cfg.Certificates = []bfe_tls.Certificate{rc.ecdsa}
	} else {
		cfg.Certificates = []bfe_tls.Certificate{rc.rsa}
	}
	if s.Suites != nil {
		cfg.CipherSuites = append([]uint16{}, s.Suites...)
	}
	if s.Prio != nil {
		cfg.CipherSuitesPriority = append([]uint16{}, s.Prio...)
	}
	for _, c := range s.Curves {
		cfg.CurvePreferences = append(cfg.CurvePreferences, bfe_tls.CurveID(c))
	}
	cfg.NextProtos = s.Protos
	if s.HasRules {
		sr := &sniRules{bySNI: map[string]*bfe_tls.Rule{}}
		for name, r := range s.Rules {
			rule := &bfe_tls.Rule{Grade: r.Grade, NextProtos: fixedProtos(r.Protos), Chacha20: r.Chacha, DynamicRecord: r.Dyn}
			if name == "" {
				sr.def = rule
			} else {
				sr.bySNI[name] = rule
			}
		}
		cfg.ServerRule = sr
	}
	cfg.EnableSslv2ClientHello = s.Sslv2
	for i := 0; i < s.Reloads; i++ {
		c2 := cfg.Clone()
		c2.SessionTicketKey[0] ^= byte(i + 1)
		c2.SessionTicketKeyName[0] = byte(i + 1)
		cfg = c2
	}
	return cfg
}

func (c *c41Cli) build(cache tls.ClientSessionCache) *tls.Config { return c.buildFor(cache, c.SNI) }

func (c *c41Cli) buildFor(cache tls.ClientSessionCache, sni string) *tls.Config {
	cfg := &tls.Config{MinVersion: c.Min, MaxVersion: c.Max, CipherSuites: append([]uint16{}, c.Suites...),
		InsecureSkipVerify: true, ServerName: sni, NextProtos: c.Protos, ClientSessionCache: cache,
		DynamicRecordSizingDisabled: len(c.C2S) > 0}
	for _, cv := range c.Curves {
		cfg.CurvePreferences = append(cfg.CurvePreferences, tls.CurveID(cv))
	}
	return cfg
}

// ---- model

type c41Exp struct {
	ok        bool
	why       string
	vNeg      uint16
	common    []uint16 // suites the client offered and the server enables for this connection
	srvProtos []string
	grade     string
}

func contains16(l []uint16, v uint16) bool {
	for _, x := range l {
		if x == v {
			return true
		}
	}
	return false
}

func containsStr(l []string, v string) bool {
	for _, x := range l {
		if x == v {
			return true
		}
	}
	return false
}

// enabledSuites: suites of srvList the server enables for a connection with
// the given negotiated version / rule / certificate / curve overlap.
func c41Enabled(s *c41Srv, rule *c41Rule, vNeg uint16, curvesOK bool) []uint16 {
	list := s.Suites
	if list == nil {
		for _, si := range stdSuites {
			list = append(list, si.id)
		}
	}
	grade := "C"
	chacha := false
	if rule != nil {
		grade, chacha = rule.Grade, rule.Chacha
	}
	var out []uint16
	for _, id := range list {
		si := suiteByID(id)
		if si == nil { // not implemented (or not offerable by our clients)
			continue
		}
		if si.ecdhe && !curvesOK {
			continue
		}
		if si.ecdsa != (s.Cert == "ecdsa") {
			continue
		}
		if si.tls12 && vNeg < vTLS12 {
			continue
		}
		if si.chacha && !chacha {
			continue
		}
		// grade table (www.ssllabs.com based, bfe_tls/common.go): A+/A: no RC4; B: RC4 only with
		// SSLv3, and SSLv3 only with RC4; C: RC4 allowed, SSLv3 only with RC4 when poodle-proofed.
		rc4OK, onlyRC4 := false, false
		switch grade {
		case "A+", "A":
		case "B":
			if vNeg == vSSL30 {
				rc4OK, onlyRC4 = true, true
			}
		default:
			rc4OK = true
			if vNeg == vSSL30 && s.Poodle {
				onlyRC4 = true
			}
		}
		if si.rc4 && !rc4OK {
			continue
		}
		if !si.rc4 && onlyRC4 {
			continue
		}
		if !contains16(out, id) {
			out = append(out, id)
		}
	}
	return out
}

func c41Model(s *c41Srv, cliMin, cliMaxLegacy uint16, cliSuites, cliCurves []uint16, sni string) c41Exp {
	e := c41Exp{grade: "C"}
	rule := s.rule(sni)
	if rule != nil {
		e.grade = rule.Grade
		e.srvProtos = rule.Protos
	} else {
		e.srvProtos = s.Protos
	}
	if cliMaxLegacy < s.effMin() {
		e.why = "client-max-below-server-min"
		return e
	}
	e.vNeg = cliMaxLegacy
	if e.vNeg > s.effMax() {
		e.vNeg = s.effMax()
	}
	if e.vNeg < cliMin {
		e.why = "server-max-below-client-min"
		return e
	}
	if e.grade == "A+" && e.vNeg < vTLS12 || e.grade == "A" && e.vNeg < vTLS10 {
		e.why = "grade-forbids-version"
		return e
	}
	srvCurves := s.Curves
	if len(srvCurves) == 0 {
		srvCurves = []uint16{23, 24, 25}
	}
	curvesOK := false
	for _, c := range cliCurves {
		if contains16(srvCurves, c) && (c == 23 || c == 24 || c == 25) {
			curvesOK = true
		}
	}
	for _, id := range c41Enabled(s, rule, e.vNeg, curvesOK) {
		if contains16(cliSuites, id) {
			e.common = append(e.common, id)
		}
	}
	if len(e.common) == 0 {
		e.why = "no-common-suite"
		return e
	}
	e.ok = true
	return e
}

// ---- running a std-client / bfe-server pair

type pairResult struct {
	cliErr, srvErr error
	cli            tls.ConnectionState
	srv            bfe_tls.ConnectionState
	c2sOK, s2cOK   bool
	dataNote       string
	inconclusive   bool
}

func runPair(srvCfg *bfe_tls.Config, cliCfg *tls.Config, c2s []byte, s2cWrites ...[]byte) (res pairResult) {
	return runPairVia(directServer(srvCfg), cliCfg, c2s, s2cWrites...)
}

func runPairVia(mk srvMaker, cliCfg *tls.Config, c2s []byte, s2cWrites ...[]byte) (res pairResult) {
	return runPairSplit(mk, cliCfg, [][]byte{c2s}, s2cWrites)
}

// runPairSplit: the client performs one Write per element of c2sWrites, the server one per element of s2cWrites.
func runPairSplit(mk srvMaker, cliCfg *tls.Config, c2sWrites, s2cWrites [][]byte) (res pairResult) {
	c2s := bytes.Join(c2sWrites, nil)
	s2c := bytes.Join(s2cWrites, nil)
	cEnd, sEnd := bufPipe()
	wd := newWatchdog(90*time.Second, cEnd, sEnd)
	type srvOut struct {
		err  error
		st   bfe_tls.ConnectionState
		ok   bool
		note string
	}
	done := make(chan srvOut, 1)
	go func() {
		var o srvOut
		defer func() { sEnd.Close(); done <- o }()
		srv := mk(sEnd)
		if o.err = srv.Handshake(); o.err != nil {
			return
		}
		o.st = srv.ConnectionState()
		got := make([]byte, len(c2s))
		if _, err := io.ReadFull(srv, got); err != nil {
			o.note = "server read: " + err.Error()
			return
		}
		if !bytes.Equal(got, c2s) {
			o.note = "server received different bytes"
			return
		}
		for _, wr := range s2cWrites { // one Conn.Write per element
			if _, err := srv.Write(wr); err != nil {
				o.note = "server write: " + err.Error()
				return
			}
		}
		o.ok = true
		// wait for the client's close
		buf := make([]byte, 16)
		srv.Read(buf)
		srv.Close()
	}()
	cli := tls.Client(cEnd, cliCfg)
	res.cliErr = cli.Handshake()
	if res.cliErr == nil {
		res.cli = cli.ConnectionState()
		var werr error
		for _, wr := range c2sWrites {
			if _, werr = cli.Write(wr); werr != nil {
				break
			}
		}
		if werr != nil {
			res.dataNote = "client write: " + werr.Error()
		} else {
			got := make([]byte, len(s2c))
			if _, err := io.ReadFull(cli, got); err != nil {
				res.dataNote = "client read: " + err.Error()
			} else if !bytes.Equal(got, s2c) {
				res.dataNote = "client received different bytes"
			} else {
				res.s2cOK = true
			}
		}
		cli.Close()
	}
	cEnd.Close()
	o := <-done
	res.srvErr, res.srv, res.c2sOK = o.err, o.st, o.ok
	if o.note != "" {
		res.dataNote += " | " + o.note
	}
	res.inconclusive = wd.stop()
	return res
}

func patternBytes(n int, salt byte) []byte {
	b := make([]byte, n)
	for i := range b {
		b[i] = byte(i*7+i>>8) ^ salt
	}
	return b
}

// ---- neg check

func c41CheckNeg(tb ev.TB, rec *ev.Rec, s *c41Srv, c *c41Cli, dataLen int) {
	legacy := c.Max
	if legacy > vTLS12 {
		legacy = vTLS12
	}
	cliCurves := c.Curves
	if len(cliCurves) == 0 {
		cliCurves = []uint16{29, 23, 24, 25} // std default: X25519, P-256, P-384, P-521
	}
	exp := c41Model(s, c.Min, legacy, c.Suites, cliCurves, c.SNI)
	fpb, _ := json.Marshal([]any{s, c})
	// non-trivial: client and server preference orders differ on the common suites
	nt := false
	if len(exp.common) >= 2 {
		pos := func(l []uint16, v uint16) int {
			for i, x := range l {
				if x == v {
					return i
				}
			}
			return -1
		}
		for i := 0; i+1 < len(exp.common) && !nt; i++ {
			a, b := exp.common[i], exp.common[i+1] // server order
			if pos(c.Suites, a) > pos(c.Suites, b) {
				nt = true
			}
		}
	}
	classes := []string{"neg", "neg/srvmax=" + versName(s.Max), "neg/srvmin=" + versName(s.Min), "neg/climax=" + versName(c.Max),
		"neg/grade=" + exp.grade, "neg/cert=" + s.Cert}
	if exp.ok {
		classes = append(classes, "neg/expect-ok")
	} else {
		classes = append(classes, "neg/expect-fail/"+exp.why)
	}
	if s.Prefer {
		if s.Prio != nil {
			classes = append(classes, "neg/server-pref-equiv-groups")
		} else {
			classes = append(classes, "neg/server-pref")
		}
	} else {
		classes = append(classes, "neg/client-pref")
	}
	if c.Cache {
		classes = append(classes, "neg/with-session-cache")
	}
	if s.Reloads > 0 {
		classes = append(classes, "neg/config-after-ticket-key-reload")
		if s.Min > vSSL30 {
			classes = append(classes, "neg/config-after-ticket-key-reload/non-default-min")
		}
	}
	rec.Case(string(fpb), nt, classes...)
	w := map[string]any{"kind": "neg", "server": s, "client": c}
	rec.Sample(w)

	var cache tls.ClientSessionCache
	rounds := 1
	if c.Cache {
		cache = &anyKeyCache{} // like a browser that keys its sessions by address, not by server name
		rounds = 2
	}
	srvCfg := s.build()
	for round := 0; round < rounds; round++ {
		sni := c.sni(round)
		if round == 1 {
			// the second connection is judged against the rule that applies to *it*
			exp = c41Model(s, c.Min, legacy, c.Suites, cliCurves, sni)
			if sni != c.SNI {
				rec.Class("neg/second-under-other-sni")
			}
		}
		c2s := patternBytes(dataLen, 0x5a)
		s2cw := [][]byte{patternBytes(dataLen/2+1, 0xc3)}
		if c.Tail > 0 && round == 0 {
			c2s = patternBytes(1+dataLen%3000, 0x5a)
			s2cw = [][]byte{patternBytes(c.Warm, 0xc3), patternBytes(c.Tail, 0x3c)}
			rec.Class("neg/warm-then-tail")
			if r := s.rule(sni); r != nil && r.Dyn {
				rec.Class("neg/warm-then-tail/dynamic-record-rule")
				if m := c.Tail % 16384; c.Tail > 16384 && m >= 1 && m <= 64 {
					rec.Class("neg/warm-then-tail/dynamic-record-rule/short-remainder")
				}
			}
		}
		c2sw := [][]byte{c2s}
		if round == 0 && (len(c.C2S) > 0 || len(c.S2C) > 0) {
			rec.Class("neg/write-size-plan")
			if len(c.C2S) > 0 {
				c2sw = nil
				for i, n := range c.C2S {
					c2sw = append(c2sw, patternBytes(n, byte(0x5a+i)))
				}
			}
			if len(c.S2C) > 0 {
				s2cw = nil
				for i, n := range c.S2C {
					s2cw = append(s2cw, patternBytes(n, byte(0xc3+i)))
				}
			}
		}
		res := runPairSplit(directServer(srvCfg), c.buildFor(cache, sni), c2sw, s2cw)
		if res.inconclusive {
			rec.Excluded("watchdog")
			return
		}
		if res.cliErr != nil || res.srvErr != nil {
			rec.Class("neg/failed")
			if exp.ok {
				// the one failure shape that is bfe's documented h2 downgrade (see notes): the
				// server answers "http/1.1" although the client only offered h2
				if res.cliErr != nil && strings.Contains(res.cliErr.Error(), "unadvertised ALPN") &&
					containsStr(exp.srvProtos, "h2") && containsStr(c.Protos, "h2") && !containsStr(c.Protos, "http/1.1") {
					if !rec.Fail(tb, "alpn-h2-downgrade-unoffered-http11", w, "server answered an ALPN protocol the client did not offer (client error: %v)", res.cliErr) {
						return
					}
				}
				rec.Fail(tb, "handshake-failed-despite-common-params", w,
					"round %d: model expects success (version %s, common suites %x) but client err=%v server err=%v",
					round, versName(exp.vNeg), exp.common, res.cliErr, res.srvErr)
			}
			return
		}
		rec.Class("neg/completed")
		// --- the statement, clause by clause
		v := res.srv.Version
		if res.cli.Version != v {
			rec.Fail(tb, "version-disagree", w, "client sees version %x, server %x", res.cli.Version, v)
			return
		}
		if v < s.effMin() || v > s.effMax() {
			rec.Fail(tb, "version-outside-server-range", w, "negotiated %s outside server range [%s,%s]", versName(v), versName(s.effMin()), versName(s.effMax()))
			return
		}
		if v > c.Max || v < c.Min {
			rec.Fail(tb, "version-outside-client-range", w, "negotiated %s, client range [%s,%s]", versName(v), versName(c.Min), versName(c.Max))
			return
		}
		if exp.grade == "A+" && v < vTLS12 {
			rec.Fail(tb, "version-below-grade", w, "grade A+ connection negotiated %s", versName(v))
			return
		}
		suite := res.srv.CipherSuite
		if res.cli.CipherSuite != suite {
			rec.Fail(tb, "suite-disagree", w, "client sees suite %04x, server %04x", res.cli.CipherSuite, suite)
			return
		}
		if !contains16(c.Suites, suite) {
			rec.Fail(tb, "suite-not-offered", w, "negotiated suite %04x was not offered by the client", suite)
			return
		}
		// enabled set at the version actually negotiated
		srvCurves := s.Curves
		if len(srvCurves) == 0 {
			srvCurves = []uint16{23, 24, 25}
		}
		curvesOK := false
		for _, cv := range cliCurves {
			if contains16(srvCurves, cv) && cv >= 23 && cv <= 25 {
				curvesOK = true
			}
		}
		if !contains16(c41Enabled(s, s.rule(sni), v, curvesOK), suite) {
			si := suiteByID(suite)
			key := "suite-not-enabled"
			if si != nil {
				switch {
				case si.rc4 && exp.grade != "C":
					key = "suite-rc4-under-grade-" + exp.grade
				case si.chacha:
					key = "suite-chacha-not-enabled-by-rule"
				case si.tls12 && v < vTLS12:
					key = "suite-tls12-only-below-tls12"
				case s.Suites != nil && !contains16(s.Suites, suite):
					key = "suite-not-in-server-list"
				}
			}
			if round == 1 && res.srv.DidResume {
				key = "resumed-" + key
			}
			rec.Fail(tb, key, w, "negotiated suite %04x is not enabled by the server for this connection (grade %s, version %s)", suite, exp.grade, versName(v))
			return
		}
		if !exp.ok {
			rec.Fail(tb, "completed-without-common-params", w, "model: %s, yet the handshake completed with %s/%04x", exp.why, versName(v), suite)
			return
		}
		p := res.srv.NegotiatedProtocol
		if res.cli.NegotiatedProtocol != p {
			rec.Fail(tb, "alpn-disagree", w, "client sees ALPN %q, server %q", res.cli.NegotiatedProtocol, p)
			return
		}
		if p != "" {
			rec.Class("neg/alpn=" + p)
			if !containsStr(c.Protos, p) || !containsStr(exp.srvProtos, p) {
				si := suiteByID(suite)
				if p == "http/1.1" && containsStr(c.Protos, "h2") && containsStr(exp.srvProtos, "h2") && (v < vTLS12 || si == nil || !si.h2ok) {
					if !rec.Fail(tb, "alpn-h2-downgrade-unoffered-http11", w, "ALPN %q negotiated; server offers %v, client %v", p, exp.srvProtos, c.Protos) {
						return
					}
				}
				rec.Fail(tb, "alpn-not-mutual", w, "ALPN %q negotiated; server offers %v, client %v", p, exp.srvProtos, c.Protos)
				return
			}
		} else {
			rec.Class("neg/alpn-none")
		}
		if !res.c2sOK || !res.s2cOK {
			dir := "server-to-client"
			if !res.c2sOK {
				dir = "client-to-server"
			}
			rec.Fail(tb, "data-not-intact/"+dir, w, "application data did not flow intact (%s, suite %04x, %s): %s", dir, suite, versName(v), res.dataNote)
			return
		}
		if round == 1 {
			if res.srv.DidResume {
				rec.Class("neg/second-resumed")
			} else {
				rec.Class("neg/second-full")
			}
		}
	}
}

// ---- scsv check

type c41Scsv struct {
	Srv       c41Srv
	HelloVers uint16
	SCSV      bool
	ScsvFirst bool
	Suites    []uint16
	SNI       string
	Resume    bool // present a valid ticket of an earlier session at HelloVers
	V2        bool // SSLv2-compatible hello framing (no extensions)
}

func c41CheckScsv(tb ev.TB, rec *ev.Rec, k *c41Scsv) {
	s := &k.Srv
	fpb, _ := json.Marshal(k)
	classes := []string{"scsv", "scsv/srvmax=" + versName(s.Max), "scsv/hello=" + versName(k.HelloVers)}
	if k.SCSV {
		classes = append(classes, "scsv/present")
	} else {
		classes = append(classes, "scsv/absent")
	}
	mustRefuse := k.SCSV && k.HelloVers < s.effMax()
	if mustRefuse {
		classes = append(classes, "scsv/below-highest")
	} else if k.SCSV {
		classes = append(classes, "scsv/at-or-above-highest")
	}
	if k.Resume {
		classes = append(classes, "scsv/with-valid-ticket")
	}
	rec.Case(string(fpb), k.SCSV, classes...)
	w := map[string]any{"kind": "scsv", "case": k}
	rec.Sample(w)

	srvCfg := s.build()
	h := &rawHello{Vers: k.HelloVers, SNI: k.SNI, Curves: []uint16{23, 24, 25}, SSLv2: k.V2}
	modelSNI, modelCurves := k.SNI, []uint16{23, 24, 25}
	if k.V2 {
		// no extensions in this framing: no server name, no ticket; a client without the EC
		// extensions is taken to support P-256 uncompressed above SSLv3 (RFC 4492 section 4)
		modelSNI, modelCurves = "", nil
		if k.HelloVers > vSSL30 {
			modelCurves = []uint16{23}
		}
		rec.Class("scsv/sslv2-framing")
	}
	h.Suites = append(h.Suites, k.Suites...)
	if k.SCSV {
		if k.ScsvFirst {
			h.Suites = append([]uint16{fallbackSCSV}, h.Suites...)
		} else {
			h.Suites = append(h.Suites, fallbackSCSV)
		}
	}
	haveTicket := false
	if k.Resume && !k.V2 && k.HelloVers >= vTLS10 && k.HelloVers <= vTLS12 {
		// obtain a genuine ticket with a std client limited to HelloVers
		cache := &capCache{}
		cli := &c41Cli{Min: k.HelloVers, Max: k.HelloVers, Suites: k.Suites, SNI: k.SNI}
		res := runPair(srvCfg, cli.build(cache), []byte("x"), []byte("y"))
		if res.inconclusive {
			rec.Excluded("watchdog")
			return
		}
		if res.cliErr == nil && res.srvErr == nil && cache.last != nil {
			if ticket, _, err := cache.last.ResumptionState(); err == nil && len(ticket) > 0 {
				h.Ticket = ticket
				h.SessionID = patternBytes(32, 0x11)
				haveTicket = true
			}
		}
		if !haveTicket {
			rec.Class("scsv/ticket-unavailable")
		}
	}
	ff, _, inconclusive := sendRawHello(srvCfg, h)
	if inconclusive {
		rec.Excluded("watchdog")
		return
	}
	exp := c41Model(s, 0, k.HelloVers, k.Suites, modelCurves, modelSNI)
	if k.V2 && !s.Sslv2 {
		exp.ok, exp.why = false, "sslv2-hello-disabled"
	}
	switch ff.Kind {
	case "alert":
		rec.Class(fmt.Sprintf("scsv/answer=alert-%d", ff.Alert))
	default:
		rec.Class("scsv/answer=" + ff.Kind)
	}
	if mustRefuse {
		if ff.Kind == "serverHello" {
			key := "scsv-not-refused"
			switch {
			case k.V2:
				key = "scsv-ignored-in-sslv2-hello"
			case s.Max == 0:
				key = "scsv-ignored-default-maxversion"
			case ff.Resumed && haveTicket:
				key = "scsv-ignored-on-resumption"
			}
			rec.Fail(tb, key, w, "ClientHello version %s with TLS_FALLBACK_SCSV; server's highest enabled version is %s (MaxVersion field %s); server answered ServerHello %s (resumed=%v) instead of refusing",
				versName(k.HelloVers), versName(s.effMax()), versName(s.Max), versName(ff.Vers), ff.Resumed)
		}
		return
	}
	// not a fallback below the highest version: SCSV must not change the outcome
	if exp.ok {
		if ff.Kind != "serverHello" {
			key := "hello-refused-despite-common-params"
			if k.SCSV && ff.Kind == "alert" && ff.Alert == 86 {
				key = "scsv-refused-at-highest-version"
			}
			rec.Fail(tb, key, w, "ClientHello %s (scsv=%v) must proceed (server highest %s, common suites %x) but server answered %s alert=%d",
				versName(k.HelloVers), k.SCSV, versName(s.effMax()), exp.common, ff.Kind, ff.Alert)
			return
		}
		if ff.Vers != exp.vNeg {
			key := "serverhello-version"
			if ff.Vers > s.effMax() || ff.Vers < s.effMin() || ff.Vers > k.HelloVers {
				key = "version-outside-range"
			}
			// the statement only demands the range; the exact value is RFC 5246 E.1 (highest mutual)
			if key == "version-outside-range" {
				rec.Fail(tb, key, w, "ServerHello version %s for ClientHello %s, server range [%s,%s]", versName(ff.Vers), versName(k.HelloVers), versName(s.effMin()), versName(s.effMax()))
				return
			}
		}
		if !contains16(exp.common, ff.Suite) && !(haveTicket && ff.Resumed) {
			rec.Fail(tb, "suite-not-enabled", w, "ServerHello suite %04x not in offered∩enabled %x", ff.Suite, exp.common)
		}
	} else if ff.Kind == "serverHello" && exp.why != "no-common-suite" {
		rec.Fail(tb, "completed-without-common-params", w, "model: %s, yet the server answered ServerHello %s/%04x", exp.why, versName(ff.Vers), ff.Suite)
	} else if ff.Kind == "serverHello" && !contains16(k.Suites, ff.Suite) {
		rec.Fail(tb, "suite-not-offered", w, "ServerHello suite %04x was not offered", ff.Suite)
	}
}

// anyKeyCache hands the last stored session back whatever the key (std keys by
// ServerName; real clients may key by address, so a session made under one
// server name can be offered under another).
type anyKeyCache struct {
	last *tls.ClientSessionState
}

func (c *anyKeyCache) Get(key string) (*tls.ClientSessionState, bool) { return c.last, c.last != nil }
func (c *anyKeyCache) Put(key string, cs *tls.ClientSessionState)     { c.last = cs }

// capCache remembers the last session a std client stored.
type capCache struct {
	last *tls.ClientSessionState
}

func (c *capCache) Get(key string) (*tls.ClientSessionState, bool) { return nil, false }
func (c *capCache) Put(key string, cs *tls.ClientSessionState)     { c.last = cs }

// ---- generators

var (
	c41SrvSuiteIDs = func() []uint16 {
		var l []uint16
		for _, s := range stdSuites {
			l = append(l, s.id)
		}
		return append(l, 0xe019) // TLS_RSA_WITH_SM4_SM3: implemented by bfe, never offered by our clients
	}()
	c41CliSuiteIDs = func() []uint16 {
		var l []uint16
		for _, s := range stdSuites {
			l = append(l, s.id)
		}
		// suites a std client can offer that bfe_tls does not implement
		return append(l, tls.TLS_RSA_WITH_AES_128_GCM_SHA256, tls.TLS_ECDHE_RSA_WITH_AES_256_GCM_SHA384, tls.TLS_RSA_WITH_AES_128_CBC_SHA256)
	}()
	c41Protos = []string{"h2", "http/1.1", "spdy/3.1", "stream", "x-verif"}
	c41SNIs   = []string{"a.verif.example", "b.verif.example", "c.verif.example", ""}
)

func drawSubset16(rt *rapid.T, all []uint16, minN int, label string) []uint16 {
	p := rapid.Permutation(all).Draw(rt, label+"-perm")
	n := rapid.IntRange(minN, len(all)).Draw(rt, label+"-n")
	return append([]uint16{}, p[:n]...)
}

func drawProtos(rt *rapid.T, label string) []string {
	p := rapid.Permutation(c41Protos).Draw(rt, label+"-perm")
	n := rapid.IntRange(0, 3).Draw(rt, label+"-n")
	return append([]string{}, p[:n]...)
}

func drawSrv(rt *rapid.T) *c41Srv {
	s := &c41Srv{}
	s.Cert = rapid.SampledFrom([]string{"rsa", "rsa", "ecdsa"}).Draw(rt, "cert")
	for {
		s.Min = rapid.SampledFrom([]uint16{0, 0, vSSL30, vTLS10, vTLS11, vTLS12}).Draw(rt, "srvmin")
		s.Max = rapid.SampledFrom([]uint16{0, 0, vTLS10, vTLS11, vTLS12, vTLS12}).Draw(rt, "srvmax")
		if s.effMin() <= s.effMax() { // conf loader: max must not be below min
			break
		}
	}
	switch rapid.IntRange(0, 3).Draw(rt, "suitemode") {
	case 0: // nil = implementation default
	default:
		s.Suites = drawSubset16(rt, c41SrvSuiteIDs, 1, "srvsuites")
		if rapid.IntRange(0, 5).Draw(rt, "dup") == 0 { // the shipped default list repeats a group
			s.Suites = append(s.Suites, s.Suites[0])
		}
	}
	s.Prefer = rapid.Bool().Draw(rt, "prefer")
	if s.Prefer && s.Suites != nil && rapid.Bool().Draw(rt, "groups") {
		g := uint16(0)
		for i := range s.Suites {
			if i > 0 && rapid.Bool().Draw(rt, "newgroup") {
				g++
			}
			s.Prio = append(s.Prio, g)
		}
	}
	if rapid.Bool().Draw(rt, "srvcurves") {
		s.Curves = drawSubset16(rt, []uint16{23, 24, 25}, 1, "srvcurve")
	}
	s.Protos = drawProtos(rt, "cfgprotos")
	s.HasRules = rapid.IntRange(0, 3).Draw(rt, "hasrules") > 0
	if s.HasRules {
		s.Rules = map[string]c41Rule{}
		for _, name := range []string{"", "a.verif.example", "b.verif.example"} {
			if rapid.IntRange(0, 3).Draw(rt, "rule-"+name) == 0 {
				continue
			}
			s.Rules[name] = c41Rule{Grade: rapid.SampledFrom([]string{"A+", "A", "B", "C", "C"}).Draw(rt, "grade"),
				Protos: drawProtos(rt, "ruleprotos"), Chacha: rapid.Bool().Draw(rt, "chacha"), Dyn: rapid.Bool().Draw(rt, "dynrec")}
		}
	}
	s.Poodle = rapid.Bool().Draw(rt, "poodle")
	s.TicketsDisabled = rapid.IntRange(0, 4).Draw(rt, "noticket") == 0
	s.Sslv2 = rapid.IntRange(0, 3).Draw(rt, "sslv2hello") > 0
	s.Reloads = rapid.SampledFrom([]int{0, 0, 1, 2}).Draw(rt, "reloads")
	return s
}

func drawCli(rt *rapid.T) *c41Cli {
	c := &c41Cli{}
	for {
		c.Min = rapid.SampledFrom([]uint16{vTLS10, vTLS10, vTLS11, vTLS12}).Draw(rt, "climin")
		c.Max = rapid.SampledFrom([]uint16{vTLS10, vTLS11, vTLS12, vTLS12, vTLS13}).Draw(rt, "climax")
		if c.Min <= c.Max {
			break
		}
	}
	c.Suites = drawSubset16(rt, c41CliSuiteIDs, 1, "clisuites")
	if rapid.IntRange(0, 2).Draw(rt, "clicurves") == 0 {
		c.Curves = drawSubset16(rt, []uint16{29, 23, 24, 25}, 1, "clicurve")
	}
	c.Protos = drawProtos(rt, "cliprotos")
	c.SNI = rapid.SampledFrom(c41SNIs).Draw(rt, "sni")
	c.Cache = rapid.IntRange(0, 3).Draw(rt, "cache") == 0
	c.SNI2 = "="
	if c.Cache && rapid.Bool().Draw(rt, "othersni") {
		c.SNI2 = rapid.SampledFrom(c41SNIs).Draw(rt, "sni2")
	}
	if rapid.IntRange(0, 7).Draw(rt, "warm") == 0 {
		c.Warm = 1<<20 + rapid.IntRange(1, 5000).Draw(rt, "warmextra")
		k := rapid.IntRange(0, 3).Draw(rt, "tailk")
		c.Tail = k*16384 + rapid.IntRange(-3, 70).Draw(rt, "taildelta")
		if c.Tail < 1 {
			c.Tail = 1
		}
	} else if rapid.IntRange(0, 3).Draw(rt, "sizeplan") == 0 {
		// sizes around the powers of two where buffers grow and around the 16384-byte record limit
		edge := func(label string) int {
			k := rapid.SampledFrom([]int{1024, 1024, 2048, 4096, 8192, 16384, 16384, 32768}).Draw(rt, label+"-pow")
			n := k + rapid.IntRange(-40, 8).Draw(rt, label+"-delta")
			return n
		}
		for i, n := 0, rapid.IntRange(1, 3).Draw(rt, "ns2c"); i < n; i++ {
			c.S2C = append(c.S2C, edge("s2c"))
		}
		for i, n := 0, rapid.IntRange(1, 3).Draw(rt, "nc2s"); i < n; i++ {
			c.C2S = append(c.C2S, edge("c2s"))
		}
	}
	return c
}

func drawScsv(rt *rapid.T) *c41Scsv {
	k := &c41Scsv{Srv: *drawSrv(rt)}
	k.HelloVers = rapid.SampledFrom([]uint16{vSSL30, vTLS10, vTLS10, vTLS11, vTLS11, vTLS12, vTLS12, vTLS13}).Draw(rt, "hellovers")
	k.SCSV = rapid.IntRange(0, 4).Draw(rt, "scsv") > 0
	k.ScsvFirst = rapid.Bool().Draw(rt, "scsvfirst")
	k.Suites = drawSubset16(rt, c41SrvSuiteIDs[:len(c41SrvSuiteIDs)-1], 1, "hellosuites")
	k.SNI = rapid.SampledFrom(c41SNIs).Draw(rt, "sni")
	k.Resume = rapid.IntRange(0, 5).Draw(rt, "resume") == 0
	k.V2 = rapid.IntRange(0, 3).Draw(rt, "v2framing") == 0
	if k.V2 {
		k.Resume = false
		if len(k.Srv.Curves) > 0 && !contains16(k.Srv.Curves, 23) {
			k.Srv.Curves = nil // keep the server able to use the P-256 it assumes for an extension-less client
		}
	}
	return k
}

func TestC41(t *testing.T) {
	rec := ev.New("C41", "neg: std crypto/tls client (Min/MaxVersion TLS1.0-1.3, suite lists incl. legacy and unimplemented suites, curves, ALPN, SNI, session cache) x bfe_tls server config (Min/MaxVersion incl. default 0, suite list/default, server or client preference, equivalence groups, curves, RSA/ECDSA cert, per-SNI rule grade/NextProtos/chacha20); scsv: hand-built ClientHello with/without TLS_FALLBACK_SCSV at every version vs explicit and default MaxVersion, optionally with a valid ticket. non-trivial: client and server preference orders differ on the common suites, or SCSV present; distinct by (server config, client config)")
	if w, ok := replayWitness(t); ok {
		replayC41(t, rec, w)
		return
	}
	getCerts()
	// deterministic sweep of the SCSV clause: every hello version x every MaxVersion (explicit and default)
	for _, max := range []uint16{0, vTLS10, vTLS11, vTLS12} {
		for _, hv := range []uint16{vSSL30, vTLS10, vTLS11, vTLS12, vTLS13} {
			for _, scsv := range []bool{true, false} {
				for _, resume := range []bool{false, true} {
					if resume && (!scsv || hv < vTLS10 || hv > vTLS12) {
						continue
					}
					k := &c41Scsv{Srv: c41Srv{Cert: "rsa", Max: max}, HelloVers: hv, SCSV: scsv,
						Suites: []uint16{0xc02f, 0xc013, 0x002f, 0x0005}, Resume: resume}
					c41CheckScsv(t, rec, k)
					if !resume { // the same hello in SSLv2-compatible framing
						k2 := *k
						k2.V2, k2.Srv.Sslv2 = true, true
						c41CheckScsv(t, rec, &k2)
					}
				}
			}
		}
	}
	dataLen := ev.N(20000, 65536)
	// deterministic: a session made under a permissive rule is offered again under a stricter rule
	// (other server name); and the DynamicRecord write path around multiples of 16384 after the 1 MB ramp
	for _, suite := range []uint16{0x0005, 0xc011, 0xcca8, 0xc02f} {
		for _, strict := range []c41Rule{{Grade: "A", Chacha: true}, {Grade: "B", Chacha: true}, {Grade: "C", Chacha: false}, {Grade: "C", Chacha: true}} {
			srv := &c41Srv{Cert: "rsa", HasRules: true, Rules: map[string]c41Rule{
				"a.verif.example": {Grade: "C", Chacha: true}, "b.verif.example": strict}}
			// single-suite offer: the std client sends its own preference order (RC4 last), so a second
			// suite would win the first handshake
			cli := &c41Cli{Min: vTLS10, Max: vTLS12, Suites: []uint16{suite}, SNI: "a.verif.example", Cache: true, SNI2: "b.verif.example"}
			c41CheckNeg(t, rec, srv, cli, 500)
		}
	}
	for _, suite := range []uint16{0xc02f, 0xc013, 0x0005} {
		for _, tail := range []int{16384, 16384 + 1, 16384 + 64, 16384 + 65, 2*16384 + 30, 3*16384 - 1} {
			srv := &c41Srv{Cert: "rsa", HasRules: true, Rules: map[string]c41Rule{"": {Grade: "C", Dyn: true}}}
			cli := &c41Cli{Min: vTLS10, Max: vTLS12, Suites: []uint16{suite}, SNI2: "=", Warm: 1<<20 + 100, Tail: tail}
			c41CheckNeg(t, rec, srv, cli, 500)
		}
	}
	// deterministic: "application data then flows intact in both directions" at the sizes where the record
	// layer's buffers grow (server's first write, every size 900..1100 on AEAD suites, 990..1030 on the others)
	// and at the record size limit (client records of 16384-24..16384 bytes, every suite class x TLS1.1/1.2)
	for _, suite := range []uint16{0xc02f, 0xcca8, 0xc013, 0x0005} {
		lo, hi := 900, 1100
		if suite != 0xc02f {
			lo, hi = 990, 1030
		}
		if ev.Tier() == "thorough" {
			lo, hi = 880, 1120
		}
		for n := lo; n <= hi; n++ {
			srv := &c41Srv{Cert: "rsa", HasRules: true, Rules: map[string]c41Rule{"": {Grade: "C", Chacha: true}}}
			cli := &c41Cli{Min: vTLS10, Max: vTLS12, Suites: []uint16{suite}, SNI2: "=", S2C: []int{n, 40}}
			c41CheckNeg(t, rec, srv, cli, 64)
		}
	}
	for _, suite := range []uint16{0xc02f, 0xcca8, 0xc013, 0x002f, 0x000a, 0x0005} {
		for _, v := range []uint16{vTLS10, vTLS11, vTLS12} {
			if si := suiteByID(suite); si.tls12 && v != vTLS12 {
				continue
			}
			var sizes []int
			for n := 16384 - 24; n <= 16384; n++ {
				sizes = append(sizes, n)
			}
			srv := &c41Srv{Cert: "rsa", HasRules: true, Rules: map[string]c41Rule{"": {Grade: "C", Chacha: true}}}
			cli := &c41Cli{Min: v, Max: v, Suites: []uint16{suite}, SNI2: "=", C2S: sizes}
			c41CheckNeg(t, rec, srv, cli, 64)
		}
	}
	// deterministic: the version range must survive ticket-key reloads (Clone + UpdateListener path)
	for _, reloads := range []int{0, 1, 3} {
		for _, min := range []uint16{vTLS11, vTLS12} {
			for _, cmax := range []uint16{vTLS10, vTLS11, vTLS12} {
				srv := &c41Srv{Cert: "rsa", Min: min, Max: vTLS12, Reloads: reloads}
				cli := &c41Cli{Min: vTLS10, Max: cmax, Suites: []uint16{0xc013, 0x002f}, SNI2: "="}
				c41CheckNeg(t, rec, srv, cli, 300)
			}
		}
	}
	rapid.Check(t, func(rt *rapid.T) {
		if rapid.IntRange(0, 3).Draw(rt, "kind") == 0 {
			c41CheckScsv(rt, rec, drawScsv(rt))
			return
		}
		s, c := drawSrv(rt), drawCli(rt)
		n := dataLen
		if rapid.IntRange(0, 3).Draw(rt, "small") > 0 {
			n = rapid.IntRange(1, 3000).Draw(rt, "datalen")
		}
		c41CheckNeg(rt, rec, s, c, n)
	})
}

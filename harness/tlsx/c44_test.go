package tlsx

import (
	"bytes"
	"crypto/hmac"
	"crypto/sha256"
	"crypto/tls"
	"encoding/hex"
	"encoding/json"
	"fmt"
	"sync"
	"testing"

	"github.com/bfenetworks/bfe/bfe_tls"
	"pgregory.net/rapid"

	"verif/harness/internal/ev"
)

// C44: session resumption cannot be forged or used to bypass policy.
//
// history cases: a std crypto/tls client completes a full handshake with a
// bfe_tls server (session ticket, or session-ID cache when the client sends no
// ticket extension). Then several probes present the ticket / session ID again
// - unmodified, bit-flipped per region, truncated, extended, issued under a
// foreign key, random - to a server whose configuration was changed in between
// (ticket key rotated, tickets/cache disabled, other cache, suite removed,
// MinVersion raised, MaxVersion lowered, client certificate now required,
// client CA swapped, grade raised, chacha disabled, certificate type swapped).
// A probe is either a second std-client connection sharing the (mutating)
// client session cache (end-to-end: master secret, data) or a hand-built
// ClientHello whose first server flight shows the resumption decision
// (ServerHello directly followed by ChangeCipherSpec).
//
// Oracle (from the property statement / RFC 5077 / RFC 5246 7.4.1.2):
// resumed => credential byte-identical to the issued one AND same key/cache AND
// tickets/cache enabled AND original version within the current range AND
// original suite still enabled for the connection and offered by the client
// AND client-certificate policy satisfied by the original session; a resumed
// connection reports the original version, suite and master secret.
//
// direct cases: decryptTicket on arbitrary / mutated / harness-MACed byte
// strings: never panics; ok => HMAC-SHA256 over all but the last 32 bytes
// under the current key's MAC half matches.

type c44Srv struct {
	c41Srv
	Auth           int    // bfe_tls.ClientAuthType
	CA             string // "client" (signed the client cert) or "other"
	Key            int    // ticket key generation
	CacheOn        bool
	CacheID        int // which server-side session cache instance
	TicketsOff     bool
	RuleClientAuth bool // requirement expressed through the per-connection rule instead of Config.ClientAuth
}

type c44Base struct {
	Mode    string // "ticket" or "sessid"
	Srv     c44Srv
	CliMin  uint16
	CliMax  uint16
	Suites  []uint16
	CliCert bool
	// Listener: serve through a real bfe_tls listener (NewListener + accept loop) and apply every
	// configuration change with bfe_tls.UpdateListener while the accept loop is idle, as bfe_server's
	// reload paths do; otherwise each connection gets bfe_tls.Server(conn, config) directly
	Listener bool
}

type c44Mut struct {
	Kind string // none flip-iv flip-ct flip-mac flip trunc extend foreign foreign-mackey random
	Off  int
	Bit  int
	N    int
}

type c44Probe struct {
	Via       string // "raw" or "std"
	Mut       c44Mut
	Chg       []string
	HelloVers int // raw: 0 same as session, +1 / -1 one version above / below, 2 = TLS1.2
	DropSuite bool
}

var c44Keys = map[int][32]byte{
	1: {0x11, 2, 3, 4, 5, 6, 7, 8, 9, 10, 11, 12, 13, 14, 15, 16, 0x21, 18, 19, 20, 21, 22, 23, 24, 25, 26, 27, 28, 29, 30, 31, 32},
	2: {0x12, 2, 3, 4, 5, 6, 7, 8, 9, 10, 11, 12, 13, 14, 15, 16, 0x22, 18, 19, 20, 21, 22, 23, 24, 25, 26, 27, 28, 29, 30, 31, 32},
	// same encryption half as key 1, different MAC half
	3: {0x11, 2, 3, 4, 5, 6, 7, 8, 9, 10, 11, 12, 13, 14, 15, 16, 0x23, 18, 19, 20, 21, 22, 23, 24, 25, 26, 27, 28, 29, 30, 31, 32},
}

// memCache is the harness' ServerSessionCache (the role redis plays for bfe_server).
type memCache struct {
	mu   sync.Mutex
	m    map[string][]byte
	keys []string
}

func newMemCache() *memCache { return &memCache{m: map[string][]byte{}} }

func (c *memCache) Get(k string) ([]byte, bool) {
	c.mu.Lock()
	defer c.mu.Unlock()
	v, ok := c.m[k]
	return append([]byte(nil), v...), ok
}

func (c *memCache) Put(k string, v []byte) error {
	c.mu.Lock()
	defer c.mu.Unlock()
	c.m[k] = append([]byte(nil), v...)
	c.keys = append(c.keys, k)
	return nil
}

func (s *c44Srv) build(caches map[int]*memCache) *bfe_tls.Config {
	rc := getCerts()
	cfg := s.c41Srv.build()
	cfg.SessionTicketKey = c44Keys[s.Key]
	cfg.SessionTicketsDisabled = s.TicketsOff
	cfg.SessionCacheDisabled = !s.CacheOn
	if caches[s.CacheID] == nil {
		caches[s.CacheID] = newMemCache()
	}
	cfg.ServerSessionCache = caches[s.CacheID]
	ca := rc.clientCA
	if s.CA == "other" {
		ca = rc.otherCA
	}
	if s.RuleClientAuth && s.Auth == int(bfe_tls.RequireAndVerifyClientCert) {
		// the way bfe_server expresses client auth: Rule.ClientAuth + Rule.ClientCAs
		sr := cfg.ServerRule.(*sniRules)
		sr.def.ClientAuth = true
		sr.def.ClientCAs = ca
		sr.def.ClientCAName = "verif"
	} else {
		cfg.ClientAuth = bfe_tls.ClientAuthType(s.Auth)
		cfg.ClientCAs = ca
	}
	return cfg
}

// mutCache is the std client's session cache: remembers the first stored
// session and hands it back with a (possibly) replaced ticket.
type mutCache struct {
	first *tls.ClientSessionState
	mut   func([]byte) []byte
}

func (c *mutCache) Put(key string, cs *tls.ClientSessionState) {
	if c.first == nil && cs != nil {
		c.first = cs
	}
}

func (c *mutCache) Get(key string) (*tls.ClientSessionState, bool) {
	if c.first == nil {
		return nil, false
	}
	ticket, st, err := c.first.ResumptionState()
	if err != nil {
		return nil, false
	}
	if c.mut != nil {
		ticket = c.mut(append([]byte(nil), ticket...))
	}
	if len(ticket) == 0 {
		return nil, false
	}
	ns, err := tls.NewResumptionState(ticket, st)
	if err != nil {
		return nil, false
	}
	return ns, true
}

func c44MutateBytes(cred []byte, m c44Mut, mode string, foreign func(key int) []byte) []byte {
	b := append([]byte(nil), cred...)
	idx := func(lo, hi int) int {
		if hi <= lo {
			lo, hi = 0, len(b)
		}
		if hi <= lo {
			return -1
		}
		return lo + m.Off%(hi-lo)
	}
	flip := func(i int) {
		if i >= 0 && i < len(b) {
			b[i] ^= 1 << uint(m.Bit&7)
		}
	}
	switch m.Kind {
	case "none":
	case "flip":
		flip(idx(0, len(b)))
	case "flip-iv":
		flip(idx(0, 16))
	case "flip-ct":
		flip(idx(16, len(b)-32))
	case "flip-mac":
		flip(idx(len(b)-32, len(b)))
	case "trunc":
		if len(b) > 0 {
			b = b[:len(b)-1-m.N%len(b)]
		}
	case "extend":
		b = append(b, patternBytes(1+m.N%40, byte(m.Bit))...)
		if mode == "sessid" && len(b) > 32 {
			b = b[:32] // a session_id is at most 32 bytes on the wire
			b[31] ^= 0x01
		}
	case "foreign":
		b = foreign(2)
	case "foreign-mackey":
		b = foreign(3)
	case "random":
		b = patternBytes(len(b), byte(m.N)|1)
	}
	return b
}

func c44Apply(base c44Srv, chg []string, vers1 uint16, suite1 uint16) c44Srv {
	s := base
	s.Rules = map[string]c41Rule{"": base.Rules[""]}
	r := s.Rules[""]
	for _, c := range chg {
		switch c {
		case "rotate-key":
			s.Key = 2
		case "tickets-disabled":
			s.TicketsOff = true
		case "cache-disabled":
			s.CacheOn = false
		case "other-cache":
			s.CacheID = 2
		case "suite-removed":
			var l []uint16
			src := s.Suites
			if src == nil {
				for _, si := range stdSuites {
					src = append(src, si.id)
				}
			}
			for _, id := range src {
				if id != suite1 {
					l = append(l, id)
				}
			}
			if len(l) == 0 {
				l = []uint16{0xe019}
			}
			s.Suites, s.Prio = l, nil
		case "min-raised":
			if vers1 < vTLS12 {
				s.Min = vers1 + 1
				if s.Max != 0 && s.Max < s.Min {
					s.Max = s.Min
				}
			}
		case "max-lowered":
			if vers1 > vTLS10 {
				s.Max = vers1 - 1
				if s.Min > s.Max {
					s.Min = s.Max
				}
			}
		case "auth-require-any":
			s.Auth = int(bfe_tls.RequireAnyClientCert)
		case "auth-require-verify":
			s.Auth = int(bfe_tls.RequireAndVerifyClientCert)
		case "auth-require-verify-rule":
			s.Auth = int(bfe_tls.RequireAndVerifyClientCert)
			s.RuleClientAuth = true
		case "auth-verify-other-ca":
			s.Auth = int(bfe_tls.RequireAndVerifyClientCert)
			s.CA = "other"
		case "auth-none":
			s.Auth = int(bfe_tls.NoClientCert)
		case "ca-swapped":
			s.CA = "other"
		case "grade-A":
			r.Grade = "A"
		case "chacha-off":
			r.Chacha = false
		case "cert-swapped":
			if s.Cert == "rsa" {
				s.Cert = "ecdsa"
			} else {
				s.Cert = "rsa"
			}
		}
	}
	s.Rules[""] = r
	return s
}

type c44Session struct {
	vers    uint16
	suite   uint16
	ms      []byte
	hadCert bool
	cred    []byte // ticket or session id
	cache   *mutCache
}

func c44CheckHistory(tb ev.TB, rec *ev.Rec, base *c44Base, probes []c44Probe) {
	rc := getCerts()
	caches := map[int]*memCache{}
	srv1 := base.Srv.build(caches)
	mc := &mutCache{}
	cli := func(max uint16) *tls.Config {
		cfg := &tls.Config{MinVersion: base.CliMin, MaxVersion: max, CipherSuites: append([]uint16{}, base.Suites...),
			InsecureSkipVerify: true, ClientSessionCache: mc}
		if base.Mode == "sessid" {
			cfg.SessionTicketsDisabled = true
			cfg.ClientSessionCache = nil
		}
		if base.CliCert {
			cfg.Certificates = []tls.Certificate{rc.clientCert}
		}
		return cfg
	}
	mk := directServer(srv1)
	var ts *tlsServer
	if base.Listener {
		ts = newTLSServer(srv1)
		defer ts.stop()
		mk = ts.maker()
	}
	res := runPairVia(mk, cli(base.CliMax), []byte("first"), []byte("tsrif"))
	if res.inconclusive {
		rec.Excluded("watchdog")
		return
	}
	if res.cliErr != nil || res.srvErr != nil || !res.c2sOK || !res.s2cOK {
		rec.Excluded("first-handshake-failed")
		return
	}
	sess := &c44Session{vers: res.srv.Version, suite: res.srv.CipherSuite, ms: append([]byte(nil), res.srv.MasterSecret...),
		hadCert: len(res.srv.PeerCertificates) > 0, cache: mc}
	if base.Mode == "ticket" {
		if mc.first == nil {
			rec.Excluded("no-ticket-issued")
			return
		}
		t, _, err := mc.first.ResumptionState()
		if err != nil || len(t) == 0 {
			rec.Excluded("no-ticket-issued")
			return
		}
		sess.cred = t
	} else {
		c := caches[base.Srv.CacheID]
		if c == nil || len(c.keys) == 0 {
			rec.Excluded("no-session-id-stored")
			return
		}
		id, err := hex.DecodeString(c.keys[len(c.keys)-1])
		if err != nil || len(id) == 0 {
			rec.Excluded("no-session-id-stored")
			return
		}
		sess.cred = id
	}
	si1 := suiteByID(sess.suite)
	if si1 == nil {
		rec.Excluded("unknown-suite")
		return
	}
	foreign := func(key int) []byte {
		// a ticket with the same contents sealed by a server holding another key
		other := &bfe_tls.Config{SessionTicketKey: c44Keys[key]}
		st := &bfe_tls.VerifHS{Kind: "sessionState", Vers: sess.vers, CipherSuite: sess.suite, MasterSecret: sess.ms}
		if sess.hadCert {
			st.Certificates = [][]byte{rc.clientCertDER}
		}
		t, err := bfe_tls.VerifEncryptTicket(other, st)
		if err != nil {
			return patternBytes(len(sess.cred), 9)
		}
		return t
	}
	// the rule-dependent gates (Rule.Grade for RC4, Rule.Chacha20) only matter for sessions on such a
	// suite: whenever one was negotiated, also offer it under the rule that disables it
	tighten := ""
	if si1.rc4 {
		tighten = "grade-A"
	} else if si1.chacha {
		tighten = "chacha-off"
	}
	if tighten != "" {
		probes = append(append([]c44Probe{}, probes...),
			c44Probe{Via: "raw", Mut: c44Mut{Kind: "none"}, Chg: []string{tighten}},
			c44Probe{Via: "std", Mut: c44Mut{Kind: "none"}, Chg: []string{tighten}})
	}
	for pi := range probes {
		p := &probes[pi]
		if base.Mode == "sessid" {
			p.Via = "raw"
			if p.Mut.Kind == "foreign" || p.Mut.Kind == "foreign-mackey" || p.Mut.Kind == "flip-iv" || p.Mut.Kind == "flip-ct" || p.Mut.Kind == "flip-mac" {
				p.Mut.Kind = "flip"
			}
		}
		s2 := c44Apply(base.Srv, p.Chg, sess.vers, sess.suite)
		if s2.effMin() > s2.effMax() {
			rec.Excluded("inconsistent-version-range")
			continue
		}
		cred := c44MutateBytes(sess.cred, p.Mut, base.Mode, foreign)
		genuine := bytes.Equal(cred, sess.cred)
		// a ticket with the session's contents sealed under key K is, by construction of RFC 5077
		// tickets, exactly what a server holding K would have issued: valid iff K is the current key
		credKey := base.Srv.Key
		if base.Mode == "ticket" && p.Mut.Kind == "foreign" {
			credKey, genuine = 2, true
		}
		if base.Mode == "ticket" && p.Mut.Kind == "foreign-mackey" {
			credKey, genuine = 3, true
		}
		helloVers := sess.vers
		switch p.HelloVers {
		case 1:
			if helloVers < vTLS12 {
				helloVers++
			}
		case -1:
			if helloVers > vTLS10 {
				helloVers--
			}
		case 2:
			helloVers = vTLS12
		}
		helloSuites := append([]uint16{}, base.Suites...)
		if p.DropSuite {
			helloSuites = nil
			for _, id := range base.Suites {
				if id != sess.suite {
					helloSuites = append(helloSuites, id)
				}
			}
			if len(helloSuites) == 0 {
				helloSuites = []uint16{0x003c}
			}
		}
		// ---- model: which condition (if any) forbids resumption
		forbid := ""
		rule2 := s2.rule("")
		need := s2.Auth == int(bfe_tls.RequireAnyClientCert) || s2.Auth == int(bfe_tls.RequireAndVerifyClientCert)
		verify := s2.Auth == int(bfe_tls.VerifyClientCertIfGiven) || s2.Auth == int(bfe_tls.RequireAndVerifyClientCert)
		switch {
		case !genuine:
			forbid = "modified-credential/" + p.Mut.Kind
		case base.Mode == "ticket" && s2.Key != credKey:
			forbid = "ticket-not-under-current-key"
		case base.Mode == "ticket" && s2.TicketsOff:
			forbid = "tickets-disabled"
		case base.Mode == "sessid" && !s2.CacheOn:
			forbid = "session-cache-disabled"
		case base.Mode == "sessid" && s2.CacheID != base.Srv.CacheID:
			forbid = "not-in-this-cache"
		case sess.vers < s2.effMin() || sess.vers > s2.effMax():
			forbid = "version-outside-range"
		case !contains16(c41Enabled(&s2.c41Srv, rule2, sess.vers, true), sess.suite):
			forbid = "suite-not-enabled"
		case need && !sess.hadCert:
			forbid = "required-client-cert-missing"
		case verify && sess.hadCert && s2.CA == "other":
			forbid = "client-cert-unverifiable"
		case p.Via == "raw" && helloVers < sess.vers:
			forbid = "hello-version-below-session"
		case p.Via == "raw" && !contains16(helloSuites, sess.suite):
			forbid = "suite-not-offered"
		}
		control := forbid == "" && len(p.Chg) == 0 && (p.Via == "std" || helloVers == sess.vers)
		fpb, _ := json.Marshal([]any{base, p})
		classes := []string{"history", "mode=" + base.Mode, "via=" + p.Via, "mut=" + p.Mut.Kind, "suiteclass=" + si1.class, "vers=" + versName(sess.vers)}
		for _, c := range p.Chg {
			classes = append(classes, "chg="+c)
		}
		if len(p.Chg) == 0 {
			classes = append(classes, "chg=none")
		}
		if forbid == "" {
			classes = append(classes, "model=may-resume")
		} else {
			classes = append(classes, "model=forbid/"+forbid)
		}
		if sess.hadCert {
			classes = append(classes, "session-has-client-cert")
		}
		rec.Case(string(fpb), p.Mut.Kind != "none" || len(p.Chg) > 0, classes...)
		w := map[string]any{"base": base, "probe": p, "session_version": versName(sess.vers), "session_suite": fmt.Sprintf("%04x", sess.suite),
			"session_had_client_cert": sess.hadCert, "server2": s2, "model_forbids": forbid}
		rec.Sample(map[string]any{"base": base, "probe": p})

		srv2 := s2.build(caches)
		mk := directServer(srv2)
		if ts != nil {
			if err := ts.reload(srv2); err != nil {
				rec.Excluded("update-listener-failed")
				continue
			}
			mk = ts.maker()
			rec.Class("via-listener-reload")
		}
		resumed := false
		if p.Via == "raw" {
			h := &rawHello{Vers: helloVers, Suites: helloSuites, Curves: []uint16{23, 24, 25}}
			if base.Mode == "ticket" {
				h.Ticket = cred
				if len(cred) == 0 {
					h.Ticket = nil
					h.TicketExt = true
				}
				h.SessionID = patternBytes(32, 0x77)
			} else {
				h.SessionID = cred
			}
			ff, _, inc := sendRawHelloVia(mk, h)
			if inc {
				rec.Excluded("watchdog")
				continue
			}
			resumed = ff.Resumed
			if resumed {
				rec.Class("resumed")
				if forbid == "" {
					if ff.Vers != sess.vers {
						if !rec.Fail(tb, "resumed-at-different-version", w, "session negotiated at %s resumed with ServerHello version %s (ClientHello %s)", versName(sess.vers), versName(ff.Vers), versName(helloVers)) {
							continue
						}
					}
					if ff.Suite != sess.suite {
						rec.Fail(tb, "resumed-with-different-suite", w, "session suite %04x resumed with %04x", sess.suite, ff.Suite)
					}
				}
			} else {
				rec.Class("not-resumed")
			}
		} else {
			mc.mut = func(t []byte) []byte { return cred }
			keysBefore := 0
			if c := caches[s2.CacheID]; c != nil {
				keysBefore = len(c.keys)
			}
			r2 := runPairVia(mk, cli(base.CliMax), []byte("second"), []byte("dnoces"))
			mc.mut = nil
			if r2.inconclusive {
				rec.Excluded("watchdog")
				continue
			}
			completed := r2.cliErr == nil && r2.srvErr == nil
			resumed = completed && r2.srv.DidResume
			if completed {
				if need && len(r2.srv.PeerCertificates) == 0 {
					rec.Fail(tb, "client-cert-requirement-skipped", w, "connection completed (resumed=%v) without a client certificate although the server requires one", resumed)
				}
				if r2.cli.DidResume != r2.srv.DidResume {
					rec.Fail(tb, "didresume-disagree", w, "client DidResume=%v server DidResume=%v", r2.cli.DidResume, r2.srv.DidResume)
				}
			}
			if resumed {
				rec.Class("resumed")
				if r2.srv.Version != sess.vers {
					rec.Fail(tb, "resumed-at-different-version", w, "resumed connection reports version %s, session was %s", versName(r2.srv.Version), versName(sess.vers))
				}
				if r2.srv.CipherSuite != sess.suite {
					rec.Fail(tb, "resumed-with-different-suite", w, "resumed connection reports suite %04x, session was %04x", r2.srv.CipherSuite, sess.suite)
				}
				if !bytes.Equal(r2.srv.MasterSecret, sess.ms) {
					rec.Fail(tb, "resumed-with-different-master-secret", w, "resumed connection has another master secret")
				}
				if !r2.c2sOK || !r2.s2cOK {
					rec.Fail(tb, "resumed-data-not-intact", w, "data did not flow on the resumed connection: %s", r2.dataNote)
				}
				// On a resumption the ServerHello echoes the session id the *client* chose. Whatever entered
				// the server-side session cache during this connection is therefore keyed by an id the server
				// never issued: a hello carrying only that id must not be resumed.
				if c := caches[s2.CacheID]; c != nil && len(c.keys) > keysBefore {
					rec.Class("cache-entry-added-during-resumption")
					for _, k := range append([]string{}, c.keys[keysBefore:]...) {
						id, err := hex.DecodeString(k)
						if err != nil || len(id) == 0 || len(id) > 32 {
							continue
						}
						ff, _, inc := sendRawHelloVia(mk, &rawHello{Vers: sess.vers, Suites: base.Suites, Curves: []uint16{23, 24, 25}, SessionID: id})
						if inc {
							rec.Excluded("watchdog")
							continue
						}
						if ff.Resumed {
							if !rec.Fail(tb, "resumed-by-client-chosen-session-id", w, "after a ticket resumption the server honours the client-chosen session id %s (cached during the resumed handshake) without a ticket", k) {
								break
							}
						}
					}
				}
			} else {
				rec.Class("not-resumed")
			}
		}
		if resumed && forbid != "" {
			rec.Fail(tb, "resumed-despite/"+forbid, w, "server resumed the session although: %s", forbid)
		}
		if control && !resumed {
			rec.Fail(tb, "control-not-resumed", w, "unmodified credential, unchanged configuration: the server did not resume (the safety oracle would be vacuous)")
		}
	}
}

// ---- direct decryptTicket cases

func c44MAC(key [32]byte, body []byte) []byte {
	m := hmac.New(sha256.New, key[16:32])
	m.Write(body)
	return m.Sum(nil)
}

func c44CheckTicket(tb ev.TB, rec *ev.Rec, class string, keyGen int, in []byte, expectState *bfe_tls.VerifHS) {
	cfg := &bfe_tls.Config{SessionTicketKey: c44Keys[keyGen]}
	macOK := len(in) >= 16+32 && hmac.Equal(c44MAC(c44Keys[keyGen], in[:len(in)-32]), in[len(in)-32:])
	rec.Case(fmt.Sprintf("%d:%x", keyGen, in), true, "direct", "direct/"+class, fmt.Sprintf("direct/mac-valid=%v", macOK))
	w := map[string]any{"class": class, "key": keyGen, "ticket_hex": hex.EncodeToString(in)}
	var st *bfe_tls.VerifHS
	var ok bool
	if p := ev.Try(func() { st, ok = bfe_tls.VerifDecryptTicket(cfg, append([]byte(nil), in...)) }); p != nil {
		rec.Fail(tb, "decrypt-ticket-panic", w, "decryptTicket panicked: %v", p)
		return
	}
	if ok && !macOK {
		rec.Fail(tb, "ticket-accepted-with-bad-mac", w, "decryptTicket accepted %d bytes whose MAC is not valid under the current key", len(in))
		return
	}
	if ok {
		rec.Class("direct/accepted")
	}
	if expectState != nil {
		if !ok {
			rec.Fail(tb, "genuine-ticket-rejected", w, "a ticket just issued under the current key was rejected")
			return
		}
		if st.Vers != expectState.Vers || st.CipherSuite != expectState.CipherSuite || !bytes.Equal(st.MasterSecret, expectState.MasterSecret) ||
			len(st.Certificates) != len(expectState.Certificates) {
			rec.Fail(tb, "ticket-state-changed", w, "decrypted state differs from the encrypted one")
			return
		}
		for i := range st.Certificates {
			if !bytes.Equal(st.Certificates[i], expectState.Certificates[i]) {
				rec.Fail(tb, "ticket-state-changed", w, "decrypted state differs from the encrypted one (certificate %d)", i)
				return
			}
		}
	}
}

// ticketRetention: the state parsed from ticket A must still equal what was sealed after other
// tickets have been decrypted (a handshake keeps using sessionState.masterSecret / certificates
// while other connections check their tickets). Returns a description of the difference or "".
func ticketRetention(a *bfe_tls.VerifHS, others []*bfe_tls.VerifHS) (diff string, pan any) {
	cfg := &bfe_tls.Config{SessionTicketKey: c44Keys[1]}
	pan = ev.Try(func() {
		ta, err := bfe_tls.VerifEncryptTicket(cfg, a)
		if err != nil {
			diff = "encryptTicket: " + err.Error()
			return
		}
		sa, ok := bfe_tls.VerifDecryptTicket(cfg, ta)
		if !ok {
			diff = "genuine ticket rejected"
			return
		}
		for _, o := range others {
			tb, err := bfe_tls.VerifEncryptTicket(cfg, o)
			if err != nil {
				continue
			}
			bfe_tls.VerifDecryptTicket(cfg, tb)
		}
		if sa.Vers != a.Vers || sa.CipherSuite != a.CipherSuite {
			diff = "version/suite changed"
		} else if !bytes.Equal(sa.MasterSecret, a.MasterSecret) {
			diff = fmt.Sprintf("master secret now %x, sealed %x", sa.MasterSecret, a.MasterSecret)
		} else if len(sa.Certificates) != len(a.Certificates) {
			diff = "certificate count changed"
		} else {
			for i := range sa.Certificates {
				if !bytes.Equal(sa.Certificates[i], a.Certificates[i]) {
					diff = fmt.Sprintf("certificate %d changed", i)
				}
			}
		}
	})
	return
}

func c44DirectBatch(rt *rapid.T, rec *ev.Rec) {
	st := &bfe_tls.VerifHS{Kind: "sessionState",
		Vers:         rapid.SampledFrom([]uint16{vSSL30, vTLS10, vTLS11, vTLS12}).Draw(rt, "vers"),
		CipherSuite:  rapid.SampledFrom(c41SrvSuiteIDs).Draw(rt, "suite"),
		MasterSecret: rapid.SliceOfN(rapid.Byte(), 0, 48).Draw(rt, "ms")}
	nc := rapid.IntRange(0, 2).Draw(rt, "ncerts")
	for i := 0; i < nc; i++ {
		st.Certificates = append(st.Certificates, rapid.SliceOfN(rapid.Byte(), 0, 60).Draw(rt, "cert"))
	}
	cfg := &bfe_tls.Config{SessionTicketKey: c44Keys[1]}
	genuine, err := bfe_tls.VerifEncryptTicket(cfg, st)
	if err != nil {
		rt.Fatalf("encryptTicket: %v", err)
	}
	c44CheckTicket(rt, rec, "genuine", 1, genuine, st)
	// a second, different state of the same size decrypted afterwards must not disturb the first
	other := &bfe_tls.VerifHS{Kind: "sessionState", Vers: st.Vers ^ 1, CipherSuite: st.CipherSuite ^ 0x0101, MasterSecret: patternBytes(len(st.MasterSecret), 0xEE)}
	for _, c := range st.Certificates {
		other.Certificates = append(other.Certificates, patternBytes(len(c), 0xDD))
	}
	if len(st.MasterSecret) > 0 || len(st.Certificates) > 0 {
		rec.Case(fmt.Sprintf("retain:%x", genuine), true, "direct", "direct/state-retained-across-decrypts")
		diff, pan := ticketRetention(st, []*bfe_tls.VerifHS{other, other})
		if pan != nil {
			rec.Fail(rt, "decrypt-ticket-panic", map[string]any{"state": st}, "decryptTicket panicked: %v", pan)
		} else if diff != "" {
			rec.Fail(rt, "ticket-state-overwritten-by-later-ticket", map[string]any{"state": st, "later": other},
				"state parsed from a ticket changed after another ticket was decrypted: %s", diff)
		}
	}
	c44CheckTicket(rt, rec, "genuine-under-rotated-key", 2, genuine, nil)
	c44CheckTicket(rt, rec, "genuine-under-other-mac-key", 3, genuine, nil)
	n := rapid.IntRange(4, 12).Draw(rt, "nmut")
	for i := 0; i < n; i++ {
		kind := rapid.SampledFrom([]string{"flip-iv", "flip-ct", "flip-mac", "trunc", "extend", "random", "short", "remac-garbage", "remac-mutated", "remac-truncated"}).Draw(rt, "kind")
		m := c44Mut{Kind: kind, Off: rapid.IntRange(0, 4000).Draw(rt, "off"), Bit: rapid.IntRange(0, 7).Draw(rt, "bit"), N: rapid.IntRange(0, 4000).Draw(rt, "n")}
		var in []byte
		switch kind {
		case "short":
			in = rapid.SliceOfN(rapid.Byte(), 0, 60).Draw(rt, "short")
		case "remac-garbage": // arbitrary IV+ciphertext with a valid MAC: exercises the state parser behind the MAC
			body := rapid.SliceOfN(rapid.Byte(), 16, 120).Draw(rt, "body")
			in = append(append([]byte(nil), body...), c44MAC(c44Keys[1], body)...)
		case "remac-mutated": // genuine ticket, one ciphertext bit flipped, MAC recomputed
			body := append([]byte(nil), genuine[:len(genuine)-32]...)
			body[16+m.Off%(len(body)-16)] ^= 1 << uint(m.Bit)
			in = append(body, c44MAC(c44Keys[1], body)...)
		case "remac-truncated":
			body := append([]byte(nil), genuine[:len(genuine)-32]...)
			body = body[:16+m.N%(len(body)-16+1)]
			in = append(body, c44MAC(c44Keys[1], body)...)
		default:
			in = c44MutateBytes(genuine, m, "ticket", nil)
		}
		c44CheckTicket(rt, rec, kind, 1, in, nil)
	}
}

// ---- generators

var c44Changes = []string{"rotate-key", "tickets-disabled", "cache-disabled", "other-cache", "suite-removed", "min-raised", "max-lowered",
	"auth-require-any", "auth-require-verify", "auth-require-verify-rule", "auth-verify-other-ca", "auth-none", "ca-swapped", "grade-A", "chacha-off", "cert-swapped"}

func drawC44Base(rt *rapid.T) *c44Base {
	b := &c44Base{}
	b.Mode = rapid.SampledFrom([]string{"ticket", "ticket", "ticket", "sessid"}).Draw(rt, "mode")
	s := &b.Srv
	s.Cert = rapid.SampledFrom([]string{"rsa", "rsa", "ecdsa"}).Draw(rt, "cert")
	s.Max = rapid.SampledFrom([]uint16{0, vTLS10, vTLS11, vTLS12}).Draw(rt, "srvmax")
	s.Prefer = rapid.Bool().Draw(rt, "prefer")
	s.HasRules = true
	s.Rules = map[string]c41Rule{"": {Grade: rapid.SampledFrom([]string{"C", "C", "B", "A"}).Draw(rt, "grade"), Chacha: rapid.Bool().Draw(rt, "chacha")}}
	s.Key, s.CacheOn, s.CacheID, s.CA = 1, true, 1, "client"
	s.Auth = rapid.SampledFrom([]int{0, 0, 0, 1, 2, 3, 4}).Draw(rt, "auth")
	b.CliCert = rapid.Bool().Draw(rt, "clicert") || s.Auth == 2 || s.Auth == 4
	b.CliMin = vTLS10
	b.CliMax = rapid.SampledFrom([]uint16{vTLS10, vTLS11, vTLS12, vTLS12}).Draw(rt, "climax")
	var pool []uint16
	for _, si := range stdSuites {
		if si.ecdsa == (s.Cert == "ecdsa") {
			pool = append(pool, si.id)
		}
	}
	b.Suites = drawSubset16(rt, pool, 2, "suites")
	if rapid.Bool().Draw(rt, "srvlist") {
		s.Suites = drawSubset16(rt, c41SrvSuiteIDs, 6, "srvsuites")
	}
	b.Listener = rapid.Bool().Draw(rt, "listener")
	return b
}

func drawC44Probe(rt *rapid.T) c44Probe {
	p := c44Probe{}
	p.Via = rapid.SampledFrom([]string{"raw", "raw", "raw", "std"}).Draw(rt, "via")
	p.Mut.Kind = rapid.SampledFrom([]string{"none", "none", "none", "none", "flip-iv", "flip-ct", "flip-mac", "trunc", "extend", "foreign", "foreign-mackey", "random"}).Draw(rt, "mut")
	p.Mut.Off = rapid.IntRange(0, 4000).Draw(rt, "off")
	p.Mut.Bit = rapid.IntRange(0, 7).Draw(rt, "bit")
	p.Mut.N = rapid.IntRange(0, 4000).Draw(rt, "n")
	nchg := rapid.SampledFrom([]int{0, 0, 1, 1, 1, 2}).Draw(rt, "nchg")
	for i := 0; i < nchg; i++ {
		p.Chg = append(p.Chg, rapid.SampledFrom(c44Changes).Draw(rt, "chg"))
	}
	p.HelloVers = rapid.SampledFrom([]int{0, 0, 0, 1, -1, 2}).Draw(rt, "hellovers")
	p.DropSuite = rapid.IntRange(0, 9).Draw(rt, "dropsuite") == 0
	return p
}

func TestC44(t *testing.T) {
	rec := ev.New("C44", "history: first full handshake (std client; ticket or session-ID cache; RSA/ECDSA cert; TLS1.0-1.2; suites; grade; ClientAuth none..require+verify with/without client cert) then probes presenting the credential again (unmodified / bit flip in IV, ciphertext, MAC / truncated / extended / foreign key / foreign MAC key / random) via a second std-client connection or a hand-built ClientHello (version same/above/below, session suite offered or dropped) to a server with 0-2 config changes (key rotation, tickets/cache disabled, other cache, suite removed, min raised, max lowered, client cert required, CA swapped, grade A, chacha off, cert type swapped); direct: decryptTicket on genuine/mutated/arbitrary/re-MACed byte strings. non-trivial: credential modified or configuration changed (direct: all); distinct by (base, probe) / ticket bytes")
	if w, ok := replayWitness(t); ok {
		replayC44(t, rec, w)
		return
	}
	getCerts()
	// deterministic controls and single-change probes for both modes
	for _, mode := range []string{"ticket", "sessid", "ticket-rc4", "sessid-rc4", "ticket-chacha", "sessid-chacha"} {
		base := &c44Base{Mode: mode, CliMin: vTLS10, CliMax: vTLS12, Suites: []uint16{0xc02f, 0xc013, 0x002f}}
		switch mode {
		case "ticket-rc4", "sessid-rc4":
			base.Mode, base.Suites = mode[:6], []uint16{0x0005}
		case "ticket-chacha", "sessid-chacha":
			base.Mode, base.Suites = mode[:6], []uint16{0xcca8}
		}
		base.Srv.Cert, base.Srv.HasRules = "rsa", true
		base.Listener = true
		base.Srv.Rules = map[string]c41Rule{"": {Grade: "C", Chacha: true}}
		base.Srv.Key, base.Srv.CacheOn, base.Srv.CacheID, base.Srv.CA = 1, true, 1, "client"
		var probes []c44Probe
		probes = append(probes, c44Probe{Via: "raw", Mut: c44Mut{Kind: "none"}}, c44Probe{Via: "std", Mut: c44Mut{Kind: "none"}})
		for _, c := range c44Changes {
			probes = append(probes, c44Probe{Via: "raw", Mut: c44Mut{Kind: "none"}, Chg: []string{c}})
			probes = append(probes, c44Probe{Via: "std", Mut: c44Mut{Kind: "none"}, Chg: []string{c}})
		}
		for _, mk := range []string{"flip-iv", "flip-ct", "flip-mac", "trunc", "extend", "foreign", "foreign-mackey", "random"} {
			probes = append(probes, c44Probe{Via: "raw", Mut: c44Mut{Kind: mk, Off: 5, Bit: 2, N: 3}})
			probes = append(probes, c44Probe{Via: "std", Mut: c44Mut{Kind: mk, Off: 5, Bit: 2, N: 3}})
		}
		probes = append(probes, c44Probe{Via: "raw", Mut: c44Mut{Kind: "none"}, HelloVers: -1}, c44Probe{Via: "raw", Mut: c44Mut{Kind: "none"}, DropSuite: true})
		c44CheckHistory(t, rec, base, probes)
	}
	c44KeyFileSweep(t, rec)
	rapid.Check(t, func(rt *rapid.T) {
		switch rapid.IntRange(0, 6).Draw(rt, "kind") {
		case 0, 1:
			c44DirectBatch(rt, rec)
			return
		case 2:
			c44KeyFileBatch(rt, rec)
			return
		}
		base := drawC44Base(rt)
		n := rapid.IntRange(3, 8).Draw(rt, "nprobes")
		var probes []c44Probe
		for i := 0; i < n; i++ {
			probes = append(probes, drawC44Probe(rt))
		}
		c44CheckHistory(rt, rec, base, probes)
	})
}

package h2b

// C36: the HTTP/2 priority tree stays acyclic and priority processing terminates.
//
// Two variants:
//   direct    - the stream map is maintained exactly like serverConn does (insert on
//               HEADERS, optional adjustStreamPriority, delete on close, PRIORITY ->
//               adjustStreamPriority) and the unexported adjustStreamPriority is called
//               through a forwarding shim; thousands of sequences, invariant after every
//               step, every step under a watchdog.
//   black-box - a real ServeConn connection receives HEADERS(+priority)/PRIORITY/
//               RST_STREAM frames; after every frame a PING round trip proves priority
//               processing terminated, and the parent pointers of all streams seen so
//               far (open and closed) are read on the serve goroutine.
//
// Oracle (independent of bfe): following parent pointers from any stream ever created
// reaches nil without visiting a stream twice.

import (
	"fmt"
	"os"
	"runtime"
	"strings"
	"testing"
	"time"

	"github.com/bfenetworks/bfe/bfe_http2"
	"pgregory.net/rapid"

	"verif/harness/internal/ev"
)

type c36Op struct {
	Kind   string `json:"kind"` // open | close | prio
	ID     uint32 `json:"id"`
	HasP   bool   `json:"has_prio,omitempty"`
	Dep    uint32 `json:"dep,omitempty"`
	Excl   bool   `json:"excl,omitempty"`
	Weight uint8  `json:"weight,omitempty"`
	DepCls string `json:"dep_class,omitempty"`
	IDCls  string `json:"id_class,omitempty"`
}

func (o c36Op) enc() string {
	return fmt.Sprintf("%s:%d:%v:%d:%v:%d", o.Kind, o.ID, o.HasP, o.Dep, o.Excl, o.Weight)
}

func c36Fingerprint(ops []c36Op) string {
	var sb strings.Builder
	for _, o := range ops {
		sb.WriteString(o.enc())
		sb.WriteByte('|')
	}
	return sb.String()
}

type c36Stream = bfe_http2.VerifH2bStream

// c36Cycle returns a description of a parent-pointer cycle reachable from any of the
// given streams, or "".
func c36Cycle(all []*c36Stream) string {
	for _, s := range all {
		seen := map[*c36Stream]bool{}
		var path []uint32
		for p := s; p != nil; p = bfe_http2.VerifH2bStreamParent(p) {
			path = append(path, bfe_http2.VerifH2bStreamID(p))
			if seen[p] {
				return fmt.Sprintf("parent chain from stream %d revisits stream %d: %v", bfe_http2.VerifH2bStreamID(s), bfe_http2.VerifH2bStreamID(p), path)
			}
			seen[p] = true
		}
	}
	return ""
}

// c36View is a snapshot of the tree used by the generator and the non-trivial rule. It is
// taken while the tree is known to be acyclic.
type c36View struct {
	openIDs []uint32
	ptr     map[uint32]*c36Stream
	parent  map[*c36Stream]*c36Stream
	closed  []uint32
	maxID   uint32
}

func c36Snapshot(open map[uint32]*c36Stream, closed []uint32, maxID uint32) *c36View {
	v := &c36View{ptr: map[uint32]*c36Stream{}, parent: map[*c36Stream]*c36Stream{}, closed: closed, maxID: maxID}
	for id, st := range open {
		v.openIDs = append(v.openIDs, id)
		v.ptr[id] = st
		for p, n := st, 0; p != nil && n < 100000; p, n = bfe_http2.VerifH2bStreamParent(p), n+1 {
			if _, ok := v.parent[p]; ok {
				break
			}
			v.parent[p] = bfe_http2.VerifH2bStreamParent(p)
		}
	}
	sortU32(v.openIDs)
	return v
}

func sortU32(ks []uint32) {
	for i := 1; i < len(ks); i++ {
		for j := i; j > 0 && ks[j] < ks[j-1]; j-- {
			ks[j], ks[j-1] = ks[j-1], ks[j]
		}
	}
}

// isAncestor: a is a proper ancestor of s.
func (v *c36View) isAncestor(a, s *c36Stream) bool {
	for p, n := v.parent[s], 0; p != nil && n < 100000; p, n = v.parent[p], n+1 {
		if p == a {
			return true
		}
	}
	return false
}

// nontrivial: re-parenting onto a descendant, or an exclusive insert below a parent that
// has >= 2 other children (DESIGN NT rule). Evaluated on the tree before the step.
func (v *c36View) nontrivial(o c36Op) (bool, string) {
	if o.Kind == "close" || !o.HasP {
		return false, ""
	}
	st := v.ptr[o.ID]
	if o.Kind == "prio" && st == nil {
		return false, ""
	}
	dep := v.ptr[o.Dep]
	if o.Dep == o.ID {
		return false, ""
	}
	if st != nil && dep != nil && v.isAncestor(st, dep) {
		return true, "dep-on-descendant"
	}
	if o.Excl && (dep != nil || o.Dep == 0) {
		n := 0
		for _, id := range v.openIDs {
			if s := v.ptr[id]; s != st && v.parent[s] == dep {
				n++
			}
		}
		if n >= 2 {
			return true, "exclusive-2+siblings"
		}
	}
	return false, ""
}

// c36Gen draws the next operation given the current view.
func c36Gen(rt *rapid.T, v *c36View, i int, maxOpen int) c36Op {
	openIDs := v.openIDs
	kind := "open"
	if len(openIDs) > 0 {
		k := rapid.IntRange(0, 9).Draw(rt, fmt.Sprintf("op%d", i))
		switch {
		case k < 2 && len(openIDs) < maxOpen:
			kind = "open"
		case k < 3 && len(openIDs) > 1:
			kind = "close"
		default:
			kind = "prio"
		}
	}
	o := c36Op{Kind: kind}
	nextID := v.maxID + 2
	if v.maxID == 0 {
		nextID = 1
	}
	pickDep := func(self uint32) {
		var desc []uint32
		if st := v.ptr[self]; st != nil {
			for _, id := range openIDs {
				if id != self && v.isAncestor(st, v.ptr[id]) {
					desc = append(desc, id)
				}
			}
		}
		c := rapid.IntRange(0, 11).Draw(rt, fmt.Sprintf("depcls%d", i))
		switch {
		case c == 0:
			o.Dep, o.DepCls = 0, "root"
		case c == 1:
			o.Dep, o.DepCls = self, "self"
		case c == 2 && len(v.closed) > 0:
			o.Dep, o.DepCls = rapid.SampledFrom(v.closed).Draw(rt, fmt.Sprintf("dep%d", i)), "closed"
		case c == 3:
			o.Dep, o.DepCls = nextID+2*uint32(rapid.IntRange(1, 3).Draw(rt, fmt.Sprintf("dep%d", i))), "idle"
		case c <= 7 && len(desc) > 0:
			o.Dep, o.DepCls = rapid.SampledFrom(desc).Draw(rt, fmt.Sprintf("dep%d", i)), "descendant"
		default:
			if len(openIDs) > 0 {
				o.Dep = rapid.SampledFrom(openIDs).Draw(rt, fmt.Sprintf("dep%d", i))
				o.DepCls = "open"
				if o.Dep == self {
					o.DepCls = "self"
				} else if st := v.ptr[self]; st != nil && v.isAncestor(st, v.ptr[o.Dep]) {
					o.DepCls = "descendant"
				}
			} else {
				o.Dep, o.DepCls = 0, "root"
			}
		}
		o.Excl = rapid.Bool().Draw(rt, fmt.Sprintf("excl%d", i))
		o.Weight = uint8(rapid.IntRange(0, 255).Draw(rt, fmt.Sprintf("w%d", i)))
	}
	switch kind {
	case "open":
		o.ID = nextID
		if rapid.IntRange(0, 3).Draw(rt, fmt.Sprintf("skip%d", i)) == 0 {
			o.ID += 2 // the skipped id becomes an implicitly closed, never opened stream
		}
		o.HasP = rapid.IntRange(0, 3).Draw(rt, fmt.Sprintf("hasp%d", i)) != 0
		if o.HasP {
			pickDep(o.ID)
		}
	case "close":
		o.ID = rapid.SampledFrom(openIDs).Draw(rt, fmt.Sprintf("id%d", i))
	case "prio":
		o.HasP = true
		c := rapid.IntRange(0, 9).Draw(rt, fmt.Sprintf("idcls%d", i))
		switch {
		case c == 0 && len(v.closed) > 0:
			o.ID, o.IDCls = rapid.SampledFrom(v.closed).Draw(rt, fmt.Sprintf("id%d", i)), "closed"
		case c == 1:
			o.ID, o.IDCls = nextID+2, "idle"
		default:
			o.ID, o.IDCls = rapid.SampledFrom(openIDs).Draw(rt, fmt.Sprintf("id%d", i)), "open"
		}
		pickDep(o.ID)
	}
	return o
}

func c36Classes(o c36Op, ntWhy string) []string {
	cls := []string{"op:" + o.Kind}
	if o.HasP {
		cls = append(cls, "dep:"+o.DepCls)
		if o.Excl {
			cls = append(cls, "exclusive")
		}
		if o.Kind == "prio" {
			cls = append(cls, "prio-id:"+o.IDCls)
		}
		if o.Kind == "open" {
			cls = append(cls, "headers-with-priority")
		}
	}
	if ntWhy != "" {
		cls = append(cls, "nt:"+ntWhy)
	}
	return cls
}

// c36Shape is the finding-key part: the kind of step that produced the violation.
func c36Shape(o c36Op) string {
	s := o.Kind
	if o.HasP {
		cl := o.DepCls
		if cl == "" || cl == "sweep" {
			cl = "any"
		}
		s += "-dep-" + cl
		if o.Excl {
			s += "-excl"
		}
	}
	return s
}

// c36Tree is the direct variant's state: the map serverConn would hold plus every stream
// ever created.
type c36Tree struct {
	open   map[uint32]*c36Stream
	all    []*c36Stream
	closed []uint32
	maxID  uint32
}

func newC36Tree() *c36Tree { return &c36Tree{open: map[uint32]*c36Stream{}} }

func (t *c36Tree) view() *c36View { return c36Snapshot(t.open, t.closed, t.maxID) }

// apply performs one operation the way serverConn does (processHeaders: insert, then
// adjustStreamPriority when the frame carries priority; closeStream: delete from the
// map; processPriority: adjustStreamPriority).
func (t *c36Tree) apply(o c36Op) {
	p := bfe_http2.PriorityParam{StreamDep: o.Dep, Exclusive: o.Excl, Weight: o.Weight}
	switch o.Kind {
	case "open":
		st := bfe_http2.VerifH2bNewStream(o.ID)
		t.open[o.ID] = st
		t.all = append(t.all, st)
		if o.ID > t.maxID {
			t.maxID = o.ID
		}
		if o.HasP {
			bfe_http2.VerifH2bAdjustPriority(t.open, o.ID, p)
		}
	case "close":
		if _, ok := t.open[o.ID]; ok {
			delete(t.open, o.ID)
			t.closed = append(t.closed, o.ID)
		}
	case "prio":
		bfe_http2.VerifH2bAdjustPriority(t.open, o.ID, p)
	}
}

type c36Result struct {
	key string // "" = held
	msg string
}

// step applies o and checks acyclicity, in a goroutine bounded by the watchdog.
func (t *c36Tree) step(o c36Op) c36Result {
	resCh := make(chan c36Result, 1)
	go func() {
		t.apply(o)
		if c := c36Cycle(t.all); c != "" {
			resCh <- c36Result{"cycle/" + c36Shape(o), c}
			return
		}
		resCh <- c36Result{}
	}()
	timer := time.NewTimer(watchdog)
	defer timer.Stop()
	select {
	case r := <-resCh:
		return r
	case <-timer.C:
		if stackHas("adjustStreamPriority") {
			return c36Result{"hang/" + c36Shape(o), fmt.Sprintf("adjustStreamPriority did not return within %v", watchdog)}
		}
		return c36Result{"inconclusive", "watchdog expired outside adjustStreamPriority"}
	}
}

func stackHas(s string) bool {
	buf := make([]byte, 4<<20)
	buf = buf[:runtime.Stack(buf, true)]
	return strings.Contains(string(buf), s)
}

func TestC36(t *testing.T) {
	rec := ev.New("C36", "direct: stream map maintained like serverConn (open with/without priority, close, PRIORITY on open/closed/idle ids; dep = root/self/open/closed/idle/descendant, exclusive flag) with adjustStreamPriority via shim; black-box: real ServeConn connection, PING round trip + parent pointers read on the serve goroutine after every frame. non-trivial: >=1 step re-parents a stream onto one of its descendants or is an exclusive insert below a parent with >=2 other children; distinct by op sequence")

	// ---- deterministic sweep: every sequence of L PRIORITY updates over small shapes
	shapes := []struct {
		name string
		pre  []c36Op
	}{
		{"flat3", []c36Op{{Kind: "open", ID: 1}, {Kind: "open", ID: 3}, {Kind: "open", ID: 5}}},
		{"chain3", []c36Op{{Kind: "open", ID: 1}, {Kind: "open", ID: 3, HasP: true, Dep: 1}, {Kind: "open", ID: 5, HasP: true, Dep: 3}}},
		{"fork3", []c36Op{{Kind: "open", ID: 1}, {Kind: "open", ID: 3, HasP: true, Dep: 1}, {Kind: "open", ID: 5, HasP: true, Dep: 1}}},
		{"chain3-mid-closed", []c36Op{{Kind: "open", ID: 1}, {Kind: "open", ID: 3, HasP: true, Dep: 1}, {Kind: "open", ID: 5, HasP: true, Dep: 3}, {Kind: "close", ID: 3}}},
	}
	var alphabet []c36Op
	for _, id := range []uint32{1, 3, 5} {
		for _, dep := range []uint32{0, 1, 3, 5, 9} {
			for _, ex := range []bool{false, true} {
				alphabet = append(alphabet, c36Op{Kind: "prio", ID: id, HasP: true, Dep: dep, Excl: ex, Weight: 7, DepCls: "sweep", IDCls: "sweep"})
			}
		}
	}
	L := ev.N(2, 3)
	sweep := int64(0)
	if os.Getenv("H2B_C36_SKIP_SWEEP") != "" { // development aid for mutant testing of the generated part
		shapes = nil
	}
	if sh := os.Getenv("VERIF_SHARD"); sh != "" && sh != "0" { // the sweep is deterministic: one shard runs it
		shapes = nil
	}
	for _, sh := range shapes {
		var walk func(prefix []c36Op)
		walk = func(prefix []c36Op) {
			if len(prefix) == L {
				ops := append(append([]c36Op(nil), sh.pre...), prefix...)
				tr := newC36Tree()
				nt := false
				for i, o := range ops {
					if ok, _ := tr.view().nontrivial(o); ok {
						nt = true
					}
					res := tr.step(o)
					if res.key == "inconclusive" {
						t.Skipf("C36 sweep: %s", res.msg)
					}
					if res.key != "" {
						rec.Case("sweep:"+sh.name+":"+c36Fingerprint(prefix), nt, "sweep:"+sh.name)
						rec.Fail(t, res.key, map[string]any{"variant": "direct-sweep", "shape": sh.name, "ops": ops, "step": i}, "shape %s step %d (%s): %s", sh.name, i, o.enc(), res.msg)
						return
					}
				}
				sweep++
				rec.Case("sweep:"+sh.name+":"+c36Fingerprint(prefix), nt, "sweep:"+sh.name)
				return
			}
			for _, a := range alphabet {
				walk(append(prefix[:len(prefix):len(prefix)], a))
			}
		}
		walk(nil)
	}
	rec.Set("sweep_sequences", sweep)
	rec.Set("sweep_len", int64(L))

	const steps = 20
	const bbEvery = 12 // one black-box case per bbEvery rapid cases
	caseNo := 0
	rapid.Check(t, func(rt *rapid.T) {
		caseNo++
		if caseNo%bbEvery == 0 || os.Getenv("H2B_C36_ONLY_BB") != "" {
			c36BlackBox(rt, rec)
			return
		}
		tr := newC36Tree()
		var ops []c36Op
		nt := false
		classes := map[string]bool{"variant:direct": true}
		for i := 0; i < steps; i++ {
			v := tr.view()
			o := c36Gen(rt, v, i, 12)
			ok, why := v.nontrivial(o)
			if ok {
				nt = true
			}
			for _, c := range c36Classes(o, why) {
				classes[c] = true
			}
			ops = append(ops, o)
			res := tr.step(o)
			if res.key == "inconclusive" {
				rt.Skipf("C36: %s", res.msg)
			}
			if res.key != "" {
				rec.Case(c36Fingerprint(ops), nt, keys(classes)...)
				rec.Fail(rt, res.key, map[string]any{"variant": "direct", "ops": ops, "step": i}, "step %d (%s): %s", i, o.enc(), res.msg)
				return
			}
		}
		rec.Sample(map[string]any{"variant": "direct", "ops": ops})
		rec.Case(c36Fingerprint(ops), nt, keys(classes)...)
	})
}

func keys(m map[string]bool) []string {
	ks := make([]string, 0, len(m))
	for k := range m {
		ks = append(ks, k)
	}
	for i := 1; i < len(ks); i++ {
		for j := i; j > 0 && ks[j] < ks[j-1]; j-- {
			ks[j], ks[j-1] = ks[j-1], ks[j]
		}
	}
	return ks
}

// c36BlackBox drives a real connection.
func c36BlackBox(rt *rapid.T, rec *ev.Rec) {
	r, err := startRig(rigOpts{})
	if err != nil {
		rt.Skipf("C36: %v", err)
	}
	defer r.finish()
	known := map[*c36Stream]bool{}
	var knownList []*c36Stream
	var closed []uint32
	var maxID uint32
	var ops []c36Op
	nt := false
	classes := map[string]bool{"variant:blackbox": true}
	const steps = 14
	fail := func(key string, w map[string]any, format string, args ...any) {
		rec.Case(c36Fingerprint(ops), nt, keys(classes)...)
		rec.Fail(rt, key, w, format, args...)
	}
	for i := 0; i < steps; i++ {
		var v *c36View
		if !r.onLoop(func() { v = c36Snapshot(bfe_http2.VerifH2bStreams(r.sc), closed, maxID) }) {
			fail("bb-conn-ended", map[string]any{"variant": "blackbox", "ops": ops}, "connection ended before step %d", i)
			return
		}
		o := c36Gen(rt, v, i, 8)
		ok, why := v.nontrivial(o)
		if ok {
			nt = true
		}
		for _, c := range c36Classes(o, why) {
			classes[c] = true
		}
		ops = append(ops, o)
		switch o.Kind {
		case "open":
			fields := [][2]string{{":method", "GET"}, {":scheme", "https"}, {":path", fmt.Sprintf("/s/%d", o.ID)}, {":authority", "h2b.test"}, {"x-sid", fmt.Sprint(o.ID)}}
			var p *prio
			if o.HasP {
				p = &prio{Dep: o.Dep, Exclusive: o.Excl, Weight: o.Weight}
			}
			r.cli.write(headersFrames(o.ID, hpackLiteral(fields), true, p, -1, 0))
			if o.ID > maxID {
				maxID = o.ID
			}
		case "close":
			r.cli.write(rawFrame(fRST, 0, o.ID, u32(0x8)))
			closed = append(closed, o.ID)
		case "prio":
			r.cli.write(rawFrame(fPriority, 0, o.ID, prio{Dep: o.Dep, Exclusive: o.Excl, Weight: o.Weight}.bytes()))
		}
		w := map[string]any{"variant": "blackbox", "ops": ops, "step": i}
		switch b := r.cli.barrier(); b {
		case bAcked:
		case bTimeout:
			if stackHas("adjustStreamPriority") {
				fail("hang/"+c36Shape(o), w, "PING not answered within %v after step %d (%s); serve goroutine inside adjustStreamPriority", watchdog, i, o.enc())
				return
			}
			rt.Skipf("C36 black-box: watchdog expired outside adjustStreamPriority")
		default:
			fs, rerr := r.cli.snapshot()
			fail("bb-conn-ended", w, "connection ended (%v, read err %v) after legal step %d (%s); last frames %v", b, rerr, i, o.enc(), lastFrames(fs, 4))
			return
		}
		var cyc string
		if !r.onLoop(func() {
			for _, st := range bfe_http2.VerifH2bStreams(r.sc) {
				if !known[st] {
					known[st] = true
					knownList = append(knownList, st)
				}
			}
			// parents never seen in the map (streams opened and closed within one step)
			for k := 0; k < len(knownList) && k < 10000; k++ {
				if p := bfe_http2.VerifH2bStreamParent(knownList[k]); p != nil && !known[p] {
					known[p] = true
					knownList = append(knownList, p)
				}
			}
			cyc = c36Cycle(knownList)
		}) {
			fail("bb-conn-ended", w, "serve loop ended after step %d", i)
			return
		}
		if cyc != "" {
			fail("cycle/"+c36Shape(o), w, "step %d (%s): %s", i, o.enc(), cyc)
			return
		}
	}
	rec.Sample(map[string]any{"variant": "blackbox", "ops": ops})
	rec.Case(c36Fingerprint(ops), nt, keys(classes)...)
	if !r.finish() {
		rt.Skipf("C36 black-box: teardown watchdog")
	}
	if n, msgs := r.panics(); n != 0 || len(msgs) != 0 {
		site := "unknown"
		if len(msgs) > 0 {
			site = panicSite(msgs[0])
		}
		rec.Fail(rt, "bb-panic/"+site, map[string]any{"variant": "blackbox", "ops": ops}, "serve loop panicked (%d): %s", n, truncate(strings.Join(msgs, "\n"), 1500))
	}
}

func lastFrames(fs []frame, n int) []string {
	if len(fs) > n {
		fs = fs[len(fs)-n:]
	}
	out := make([]string, len(fs))
	for i, f := range fs {
		out[i] = f.String()
	}
	return out
}

package h2b

// C35: the HTTP/2 stream state machine is enforced and no client frame sequence drives the
// server into an internal-invariant panic.
//
// A scripted raw client talks to a real ServeConn connection. A case is: a generated
// legal prefix (requests with/without body, DATA, trailers, client RST_STREAM, handler
// completions controlled by the harness, PING/SETTINGS/WINDOW_UPDATE/PRIORITY noise), then
// the steps needed to establish the precondition of one chosen illegal step, the illegal
// step, and a few more legal steps when the connection survives.
//
// The reference model (c35Model) is written from RFC 7540 5.1/5.1.1/5.1.2/8.1/8.1.2 only.
// In "sync" cases every step is followed by a PING round trip, so the model knows the
// state of every stream and the illegal step is checked against the error class RFC 7540
// makes mandatory (see c35Expect). In "async" cases steps are sent back to back and race
// with handler completion; there only the schedule-independent parts are asserted.
// In every case: the client view ends in {PING answered, GOAWAY, close}, every frame the
// server sent is well-formed, requests that must not be delivered never reach the
// handler, and neither the H2PanicConn counter nor the log shows a recovered panic.

import (
	"fmt"
	"strings"
	"testing"
	"time"

	"pgregory.net/rapid"

	"verif/harness/internal/ev"
)

// ---------------------------------------------------------------- steps and model

type c35Step struct {
	Kind      string      `json:"kind"`
	SID       uint32      `json:"sid,omitempty"`
	XSID      string      `json:"x_sid,omitempty"`
	EndStream bool        `json:"end_stream,omitempty"`
	N         int         `json:"n,omitempty"`
	Variant   string      `json:"variant,omitempty"`
	Fields    [][2]string `json:"fields,omitempty"`
	Cut       int         `json:"continuation_cut,omitempty"`
	Pad       int         `json:"pad,omitempty"` // 0 = unpadded, k = pad length k-1
	Prio      *prio       `json:"priority,omitempty"`
	ReadBody  bool        `json:"read_body,omitempty"`
	Illegal   bool        `json:"illegal,omitempty"`
	Setup     bool        `json:"setup,omitempty"`
	Weak      bool        `json:"weak_oracle,omitempty"` // only "no panic, well-formed frames" is asserted
}

func (s c35Step) enc() string {
	p := ""
	if s.Prio != nil {
		p = fmt.Sprintf("%d/%v/%d", s.Prio.Dep, s.Prio.Exclusive, s.Prio.Weight)
	}
	return fmt.Sprintf("%s:%d:%v:%d:%s:%d:%d:%s:%v:%v", s.Kind, s.SID, s.EndStream, s.N, s.Variant, s.Cut, s.Pad, p, s.ReadBody, s.Fields)
}

const (
	mOpen = iota
	mHCR  // half-closed (remote): the client sent END_STREAM, the response is outstanding
	mClosed
)

type c35Stream struct {
	id         uint32
	state      int
	handler    bool // the harness handler runs for it and has not been released
	srvRST     bool // the server sent RST_STREAM on it
	cliRST     bool // the client sent RST_STREAM on it
	endedBy    string
	trailers   bool
	bodyClosed bool // the handler closed Request.Body while still running
	cl         int  // declared content-length, -1 when absent
	sent       int  // DATA payload octets sent so far
}

// room is how many more DATA octets the declared content-length allows (large when undeclared).
func (s *c35Stream) room() int {
	if s.cl < 0 {
		return 1 << 20
	}
	return s.cl - s.sent
}

type c35Model struct {
	streams map[uint32]*c35Stream
	order   []uint32
	maxID   uint32   // highest stream id the client has used for HEADERS
	skipped []uint32 // odd ids below maxID never used: implicitly closed (5.1.1)
	advMax  uint32
}

func (m *c35Model) active() int { // streams counted against SETTINGS_MAX_CONCURRENT_STREAMS (5.1.2)
	n := 0
	for _, s := range m.streams {
		if s.state != mClosed {
			n++
		}
	}
	return n
}

func (m *c35Model) pick(pred func(*c35Stream) bool) []uint32 {
	var out []uint32
	for _, id := range m.order {
		if pred(m.streams[id]) {
			out = append(out, id)
		}
	}
	return out
}

func (m *c35Model) nextID() uint32 {
	if m.maxID == 0 {
		return 1
	}
	return m.maxID + 2
}

func (m *c35Model) add(id uint32, endStream bool) *c35Stream {
	for x := m.nextID(); x < id; x += 2 {
		m.skipped = append(m.skipped, x)
	}
	s := &c35Stream{id: id, state: mOpen, handler: true, cl: -1}
	if endStream {
		s.state = mHCR
	}
	m.streams[id] = s
	m.order = append(m.order, id)
	if id > m.maxID {
		m.maxID = id
	}
	return s
}

// c35Expect is what RFC 7540 demands for an illegal step. Stream errors may be escalated
// to connection errors by any endpoint, so a connection error with one of connCodes is
// always acceptable; PROTOCOL_ERROR is accepted next to the specific code because it is
// the generic code.
type c35Expect struct {
	streamCodes []uint32 // acceptable RST_STREAM codes on the target stream; nil: a stream error is not acceptable
	connCodes   []uint32 // acceptable GOAWAY codes; nil: any code
	http4xx     bool     // a 4xx response instead of RST_STREAM is acceptable (8.1.2.6)
	ignoreOK    bool     // silently ignoring the frame is acceptable (5.1 closed, after the server sent RST_STREAM)
	noDeliver   bool     // the request must never reach the handler
	rule        string
}

var (
	codesProto       = []uint32{errProtocol}
	codesClosed      = []uint32{errStreamClosed, errProtocol}
	codesRefused     = []uint32{errProtocol, errRefused}
	c35IllegalKinds  = []string{"X-even-id", "X-lower-idle-id", "X-headers-closed", "X-headers-hcr", "X-data-hcr", "X-data-closed", "X-trailers-no-es", "X-trailers-pseudo", "X-malformed-req", "X-over-limit", "X-data-idle", "X-data-over-cl", "X-garbage-cl"}
	c35MalformedKind = []string{"pseudo-after-regular", "dup-method", "dup-path", "unknown-pseudo", "status-pseudo", "missing-method", "missing-path", "missing-scheme", "empty-path",
		"uppercase-name", "conn-connection", "conn-keep-alive", "conn-proxy-connection", "conn-transfer-encoding", "conn-upgrade", "te-gzip"}
)

func c35ExpectFor(st c35Step, target *c35Stream) c35Expect {
	switch st.Kind {
	case "X-even-id":
		return c35Expect{connCodes: codesProto, noDeliver: true, rule: "5.1.1 client streams use odd ids; MUST connection error PROTOCOL_ERROR"}
	case "X-lower-idle-id":
		return c35Expect{connCodes: codesClosed, noDeliver: true, rule: "5.1.1 new stream id must exceed all opened ids; MUST connection error PROTOCOL_ERROR"}
	case "X-headers-closed":
		return c35Expect{streamCodes: codesClosed, connCodes: codesClosed, ignoreOK: target != nil && target.srvRST, noDeliver: true, rule: "5.1 closed: HEADERS on a closed stream is an error (STREAM_CLOSED / 5.1.1 PROTOCOL_ERROR)"}
	case "X-headers-hcr":
		return c35Expect{streamCodes: codesClosed, connCodes: codesClosed, rule: "5.1 half-closed (remote): frames other than WINDOW_UPDATE/PRIORITY/RST_STREAM MUST be answered with a stream error STREAM_CLOSED"}
	case "X-data-hcr":
		return c35Expect{streamCodes: codesClosed, connCodes: codesClosed, rule: "5.1 half-closed (remote): DATA MUST be answered with a stream error STREAM_CLOSED"}
	case "X-data-closed":
		return c35Expect{streamCodes: codesClosed, connCodes: codesClosed, ignoreOK: target != nil && target.srvRST, rule: "5.1 closed: DATA MUST be treated as STREAM_CLOSED error (ignored only after the server's own RST_STREAM)"}
	case "X-trailers-no-es":
		return c35Expect{streamCodes: codesProto, connCodes: codesProto, rule: "8.1 trailers HEADERS without END_STREAM is malformed; 8.1.2.6 MUST stream error PROTOCOL_ERROR"}
	case "X-trailers-pseudo":
		return c35Expect{streamCodes: codesProto, connCodes: codesProto, rule: "8.1.2.1 pseudo-header fields MUST NOT appear in trailers; malformed"}
	case "X-malformed-req":
		return c35Expect{streamCodes: codesProto, connCodes: codesProto, http4xx: true, noDeliver: true, rule: "8.1.2 malformed request (" + st.Variant + "); 8.1.2.6 MUST stream error PROTOCOL_ERROR, MAY send an HTTP response first"}
	case "X-over-limit":
		return c35Expect{streamCodes: codesRefused, connCodes: nil, noDeliver: true, rule: "5.1.2 HEADERS exceeding the advertised SETTINGS_MAX_CONCURRENT_STREAMS MUST be a stream error PROTOCOL_ERROR or REFUSED_STREAM"}
	case "X-data-over-cl":
		return c35Expect{streamCodes: codesProto, connCodes: codesProto, rule: "8.1.2.6 DATA payload exceeding the declared content-length makes the request malformed; MUST stream error PROTOCOL_ERROR"}
	case "X-data-idle":
		return c35Expect{streamCodes: []uint32{errProtocol, errStreamClosed}, connCodes: codesClosed, rule: "5.1 idle: DATA on an idle stream is an error"}
	}
	return c35Expect{}
}

func c35MalformedFields(variant string, xsid string, id uint32) [][2]string {
	m, s, p, a := [2]string{":method", "GET"}, [2]string{":scheme", "https"}, [2]string{":path", fmt.Sprintf("/s/%d", id)}, [2]string{":authority", "h2b.test"}
	x := [2]string{"x-sid", xsid}
	switch variant {
	case "pseudo-after-regular":
		return [][2]string{m, s, a, x, p}
	case "dup-method":
		return [][2]string{m, {":method", "POST"}, s, p, a, x}
	case "dup-path":
		return [][2]string{m, s, p, {":path", "/other"}, a, x}
	case "unknown-pseudo":
		return [][2]string{m, s, p, a, {":bogus", "1"}, x}
	case "status-pseudo":
		return [][2]string{m, s, p, a, {":status", "200"}, x}
	case "missing-method":
		return [][2]string{s, p, a, x}
	case "missing-path":
		return [][2]string{m, s, a, x}
	case "missing-scheme":
		return [][2]string{m, p, a, x}
	case "empty-path":
		return [][2]string{m, s, {":path", ""}, a, x}
	case "uppercase-name":
		return [][2]string{m, s, p, a, x, {"X-Upper", "1"}}
	case "conn-connection":
		return [][2]string{m, s, p, a, x, {"connection", "close"}}
	case "conn-keep-alive":
		return [][2]string{m, s, p, a, x, {"keep-alive", "timeout=5"}}
	case "conn-proxy-connection":
		return [][2]string{m, s, p, a, x, {"proxy-connection", "keep-alive"}}
	case "conn-transfer-encoding":
		return [][2]string{m, s, p, a, x, {"transfer-encoding", "chunked"}}
	case "conn-upgrade":
		return [][2]string{m, s, p, a, x, {"upgrade", "h2c"}}
	case "te-gzip":
		return [][2]string{m, s, p, a, x, {"te", "gzip"}}
	}
	return [][2]string{m, s, p, a, x}
}

// ---------------------------------------------------------------- generation

type c35Gen struct {
	rt     *rapid.T
	m      *c35Model
	n      int
	s2cCap int // server->client socket buffer of this case
}

func (g *c35Gen) lbl(s string) string { g.n++; return fmt.Sprintf("%s%d", s, g.n) }

func (g *c35Gen) frameShape(st *c35Step, blockLen int) {
	if blockLen > 1 && rapid.IntRange(0, 4).Draw(g.rt, g.lbl("cont")) == 0 {
		st.Cut = rapid.IntRange(1, blockLen-1).Draw(g.rt, g.lbl("cut"))
	}
	if rapid.IntRange(0, 5).Draw(g.rt, g.lbl("padq")) == 0 {
		st.Pad = 1 + rapid.IntRange(0, 20).Draw(g.rt, g.lbl("pad"))
	}
}

func (g *c35Gen) prioFor(self uint32) *prio {
	if rapid.IntRange(0, 3).Draw(g.rt, g.lbl("prq")) != 0 {
		return nil
	}
	deps := []uint32{0}
	for _, id := range g.m.order {
		if id != self {
			deps = append(deps, id)
		}
	}
	return &prio{Dep: rapid.SampledFrom(deps).Draw(g.rt, g.lbl("dep")), Exclusive: rapid.Bool().Draw(g.rt, g.lbl("ex")), Weight: uint8(rapid.IntRange(0, 255).Draw(g.rt, g.lbl("w")))}
}

// req builds a legal request on a new stream.
func (g *c35Gen) req(endStream *bool, skip bool) c35Step {
	id := g.m.nextID()
	if skip || rapid.IntRange(0, 5).Draw(g.rt, g.lbl("skip")) == 0 {
		id += 2
	}
	st := c35Step{Kind: "req", SID: id, XSID: fmt.Sprint(id)}
	if endStream != nil {
		st.EndStream = *endStream
	} else {
		st.EndStream = rapid.Bool().Draw(g.rt, g.lbl("es"))
	}
	method := "GET"
	if !st.EndStream && rapid.Bool().Draw(g.rt, g.lbl("post")) {
		method = "POST"
	}
	st.Fields = [][2]string{{":method", method}, {":scheme", rapid.SampledFrom([]string{"https", "http"}).Draw(g.rt, g.lbl("sch"))}, {":path", fmt.Sprintf("/s/%d?q=1", id)}, {":authority", "h2b.test"}, {"x-sid", st.XSID}}
	for _, extra := range [][2]string{{"te", "trailers"}, {"cookie", "a=1"}, {"cookie", "b=2"}, {"user-agent", "h2b"}, {"trailer", "x-trailer"}} {
		if rapid.IntRange(0, 3).Draw(g.rt, g.lbl("hx")) == 0 {
			st.Fields = append(st.Fields, extra)
		}
	}
	if !st.EndStream && rapid.IntRange(0, 2).Draw(g.rt, g.lbl("clq")) == 0 {
		st.Fields = append(st.Fields, [2]string{"content-length", rapid.SampledFrom([]string{"0", "0", "3", "40"}).Draw(g.rt, g.lbl("cl"))})
	}
	st.Prio = g.prioFor(id)
	g.frameShape(&st, len(hpackLiteral(st.Fields)))
	return st
}

func c35DeclaredCL(fields [][2]string) int {
	for _, f := range fields {
		if f[0] == "content-length" {
			n := 0
			fmt.Sscanf(f[1], "%d", &n)
			return n
		}
	}
	return -1
}

// legal draws one legal step applicable in the current model state (nil if none).
func (g *c35Gen) legal() *c35Step {
	m := g.m
	open := m.pick(func(s *c35Stream) bool { return s.state == mOpen })
	live := m.pick(func(s *c35Stream) bool { return s.state != mClosed })
	pending := m.pick(func(s *c35Stream) bool { return s.handler })
	type opt struct {
		kind string
		w    int
	}
	var opts []opt
	if uint32(m.active()) < m.advMax && m.maxID < 4000 {
		opts = append(opts, opt{"req", 5})
	}
	// trailers end the stream: only legal when the declared content-length has been sent
	trailerOK := m.pick(func(s *c35Stream) bool { return s.state == mOpen && (s.cl < 0 || s.room() == 0) })
	if len(open) > 0 {
		opts = append(opts, opt{"data", 4})
	}
	if len(trailerOK) > 0 {
		opts = append(opts, opt{"trailers", 1})
	}
	if len(live) > 0 {
		opts = append(opts, opt{"rst", 1}, opt{"winupd-stream", 1})
	}
	if len(pending) > 0 {
		opts = append(opts, opt{"finish", 4})
	}
	// the handler closes the request body early: the client cannot know and keeps sending
	closable := m.pick(func(s *c35Stream) bool { return s.state == mOpen && s.handler && !s.bodyClosed })
	if len(closable) > 0 {
		opts = append(opts, opt{"close-body", 2})
	}
	// streams the server itself reset: a crossing client RST_STREAM is legal and must be ignored (5.1)
	srvReset := m.pick(func(s *c35Stream) bool { return s.state == mClosed && s.srvRST && !s.cliRST })
	if len(srvReset) > 0 {
		opts = append(opts, opt{"rst-crossing", 2})
	}
	// handler completion racing with a client RST_STREAM while the response is stuck in a small,
	// unread socket buffer
	racers := m.pick(func(s *c35Stream) bool { return s.handler && s.state != mClosed })
	if len(racers) > 0 && g.s2cCap <= 1024 {
		opts = append(opts, opt{"finish-race", 4})
	}
	opts = append(opts, opt{"ping", 1}, opt{"settings", 1}, opt{"winupd-conn", 1})
	if len(m.order) > 0 {
		opts = append(opts, opt{"priority", 1})
	}
	tot := 0
	for _, o := range opts {
		tot += o.w
	}
	k := rapid.IntRange(0, tot-1).Draw(g.rt, g.lbl("legal"))
	kind := ""
	for _, o := range opts {
		if k < o.w {
			kind = o.kind
			break
		}
		k -= o.w
	}
	st := c35Step{Kind: kind}
	switch kind {
	case "req":
		st = g.req(nil, false)
	case "data":
		st.SID = rapid.SampledFrom(open).Draw(g.rt, g.lbl("sid"))
		room := m.streams[st.SID].room()
		if room > 40 {
			room = 40
		}
		st.N = rapid.IntRange(0, room).Draw(g.rt, g.lbl("n"))
		st.EndStream = rapid.IntRange(0, 2).Draw(g.rt, g.lbl("es")) == 0
		if m.streams[st.SID].cl >= 0 && st.N != m.streams[st.SID].room() {
			st.EndStream = false // ending short of the declared length would be malformed
		}
		if rapid.IntRange(0, 4).Draw(g.rt, g.lbl("padq")) == 0 {
			st.Pad = 1 + rapid.IntRange(0, 10).Draw(g.rt, g.lbl("pad"))
		}
	case "trailers":
		st.SID = rapid.SampledFrom(trailerOK).Draw(g.rt, g.lbl("sid"))
		st.EndStream = true
		st.Fields = [][2]string{{"x-trailer", "t"}}
		g.frameShape(&st, len(hpackLiteral(st.Fields)))
	case "rst":
		st.SID = rapid.SampledFrom(live).Draw(g.rt, g.lbl("sid"))
		st.N = rapid.SampledFrom([]int{0x8, 0x0, 0x2}).Draw(g.rt, g.lbl("code"))
	case "close-body":
		st.SID = rapid.SampledFrom(closable).Draw(g.rt, g.lbl("sid"))
	case "rst-crossing":
		st.SID = rapid.SampledFrom(srvReset).Draw(g.rt, g.lbl("sid"))
		st.N = 0x8
	case "finish-race":
		st.SID = rapid.SampledFrom(racers).Draw(g.rt, g.lbl("sid"))
		// 4061..4096: HEADERS + one DATA|END_STREAM frame that overflows the 4 KiB write buffer;
		// larger bodies: several DATA frames
		st.N = rapid.SampledFrom([]int{4096, 4096, 4090, 4070, 6000, 9000, 300}).Draw(g.rt, g.lbl("body"))
		st.Variant = rapid.SampledFrom([]string{"rst", "rst", "rst-then-ping"}).Draw(g.rt, g.lbl("race"))
	case "finish":
		st.SID = rapid.SampledFrom(pending).Draw(g.rt, g.lbl("sid"))
		st.N = rapid.SampledFrom([]int{0, 0, 5, 300, 4096, 5000}).Draw(g.rt, g.lbl("body"))
		if m.streams[st.SID].state != mOpen {
			st.ReadBody = rapid.Bool().Draw(g.rt, g.lbl("rb"))
		}
	case "settings":
		st.Variant = rapid.SampledFrom([]string{"empty", "push0", "maxframe", "window", "tablesize", "unknown"}).Draw(g.rt, g.lbl("set"))
		st.N = rapid.IntRange(0, 3000).Draw(g.rt, g.lbl("val"))
	case "winupd-stream":
		st.SID = rapid.SampledFrom(live).Draw(g.rt, g.lbl("sid"))
		st.N = rapid.IntRange(1, 1000).Draw(g.rt, g.lbl("inc"))
	case "winupd-conn":
		st.N = rapid.IntRange(1, 1000).Draw(g.rt, g.lbl("inc"))
	case "priority":
		ids := append([]uint32{m.maxID + 2, m.maxID + 4}, m.order...)
		st.SID = rapid.SampledFrom(ids).Draw(g.rt, g.lbl("sid"))
		deps := []uint32{0}
		for _, id := range ids {
			if id != st.SID {
				deps = append(deps, id)
			}
		}
		st.Prio = &prio{Dep: rapid.SampledFrom(deps).Draw(g.rt, g.lbl("dep")), Exclusive: rapid.Bool().Draw(g.rt, g.lbl("ex")), Weight: uint8(rapid.IntRange(0, 255).Draw(g.rt, g.lbl("w")))}
	}
	return &st
}

// setupFor returns the next legal step needed before the illegal kind becomes
// applicable, or nil when it is applicable now.
func (g *c35Gen) setupFor(kind string) *c35Step {
	m := g.m
	yes, no := true, false
	mark := func(s c35Step) *c35Step { s.Setup = true; return &s }
	hcr := m.pick(func(s *c35Stream) bool { return s.state == mHCR && s.handler })
	open := m.pick(func(s *c35Stream) bool { return s.state == mOpen })
	closed := m.pick(func(s *c35Stream) bool { return s.state == mClosed })
	room := uint32(m.active()) < m.advMax
	switch kind {
	case "X-headers-hcr", "X-data-hcr":
		if len(hcr) > 0 {
			return nil
		}
		// half-closed via a non-empty DATA|END_STREAM that arrives after the handler closed the body
		if bc := m.pick(func(s *c35Stream) bool { return s.state == mOpen && s.handler && s.bodyClosed && s.cl < 0 }); len(bc) > 0 {
			return mark(c35Step{Kind: "data", SID: bc[0], N: rapid.IntRange(1, 30).Draw(g.rt, g.lbl("n")), EndStream: true})
		}
		anyClosedBody := len(m.pick(func(s *c35Stream) bool { return s.bodyClosed })) > 0
		if len(open) > 0 && m.streams[open[0]].handler && m.streams[open[0]].cl < 0 && !anyClosedBody && rapid.IntRange(0, 2).Draw(g.rt, g.lbl("viaCloseBody")) == 0 {
			return mark(c35Step{Kind: "close-body", SID: open[0]})
		}
		if len(open) > 0 && m.streams[open[0]].handler && m.streams[open[0]].cl < 0 && rapid.Bool().Draw(g.rt, g.lbl("viaData")) {
			if rapid.Bool().Draw(g.rt, g.lbl("viaTrailers")) {
				return mark(c35Step{Kind: "trailers", SID: open[0], EndStream: true, Fields: [][2]string{{"x-trailer", "t"}}})
			}
			return mark(c35Step{Kind: "data", SID: open[0], N: rapid.IntRange(0, 30).Draw(g.rt, g.lbl("n")), EndStream: true})
		}
		if !room {
			live := m.pick(func(s *c35Stream) bool { return s.state != mClosed })
			return mark(c35Step{Kind: "rst", SID: live[0], N: 0x8})
		}
		es := rapid.IntRange(0, 2).Draw(g.rt, g.lbl("es")) != 0
		return mark(g.req(&es, false))
	case "X-headers-closed", "X-data-closed":
		if len(closed) > 0 {
			return nil
		}
		live := m.pick(func(s *c35Stream) bool { return s.state != mClosed })
		if len(live) == 0 {
			return mark(g.req(nil, false))
		}
		if m.streams[live[0]].handler && rapid.Bool().Draw(g.rt, g.lbl("viaFinish")) {
			return mark(c35Step{Kind: "finish", SID: live[0]})
		}
		return mark(c35Step{Kind: "rst", SID: live[0], N: 0x8})
	case "X-trailers-no-es", "X-trailers-pseudo":
		if len(open) > 0 {
			return nil
		}
		if !room {
			live := m.pick(func(s *c35Stream) bool { return s.state != mClosed })
			return mark(c35Step{Kind: "rst", SID: live[0], N: 0x8})
		}
		return mark(g.req(&no, false))
	case "X-over-limit":
		if !room {
			return nil
		}
		if m.advMax > 8 {
			return nil // cannot fill a large limit cheaply; caller re-draws the kind
		}
		return mark(g.req(nil, false))
	case "X-data-over-cl":
		if len(m.pick(func(s *c35Stream) bool { return s.state == mOpen && s.cl >= 0 })) > 0 {
			return nil
		}
		if !room {
			live := m.pick(func(s *c35Stream) bool { return s.state != mClosed })
			return mark(c35Step{Kind: "rst", SID: live[0], N: 0x8})
		}
		r := g.req(&no, false)
		if c35DeclaredCL(r.Fields) < 0 {
			r.Fields = append(r.Fields, [2]string{"content-length", rapid.SampledFrom([]string{"0", "0", "3", "40"}).Draw(g.rt, g.lbl("cl"))})
		}
		return mark(r)
	case "X-garbage-cl":
		if !room {
			live := m.pick(func(s *c35Stream) bool { return s.state != mClosed })
			return mark(c35Step{Kind: "rst", SID: live[0], N: 0x8})
		}
		return nil
	case "X-lower-idle-id":
		if len(m.skipped) > 0 {
			return nil
		}
		if !room {
			live := m.pick(func(s *c35Stream) bool { return s.state != mClosed })
			return mark(c35Step{Kind: "rst", SID: live[0], N: 0x8})
		}
		return mark(g.req(&yes, true))
	}
	return nil
}

func (g *c35Gen) illegal(kind string) c35Step {
	m := g.m
	st := c35Step{Kind: kind, Illegal: true}
	validFields := func(id uint32, xsid string) [][2]string {
		return [][2]string{{":method", "GET"}, {":scheme", "https"}, {":path", fmt.Sprintf("/s/%d", id)}, {":authority", "h2b.test"}, {"x-sid", xsid}}
	}
	switch kind {
	case "X-even-id":
		st.SID = rapid.SampledFrom([]uint32{2, m.maxID + 1, m.maxID + 3, m.maxID + 101}).Draw(g.rt, g.lbl("sid"))
		if st.SID%2 == 1 {
			st.SID++
		}
		st.XSID = fmt.Sprintf("even-%d", st.SID)
		st.EndStream = rapid.Bool().Draw(g.rt, g.lbl("es"))
		st.Fields = validFields(st.SID, st.XSID)
	case "X-lower-idle-id":
		st.SID = rapid.SampledFrom(m.skipped).Draw(g.rt, g.lbl("sid"))
		st.XSID = fmt.Sprintf("low-%d", st.SID)
		st.EndStream = rapid.Bool().Draw(g.rt, g.lbl("es"))
		st.Fields = validFields(st.SID, st.XSID)
	case "X-headers-closed":
		cl := m.pick(func(s *c35Stream) bool { return s.state == mClosed })
		st.SID = rapid.SampledFrom(cl).Draw(g.rt, g.lbl("sid"))
		if rapid.Bool().Draw(g.rt, g.lbl("latest")) {
			st.SID = cl[len(cl)-1]
		}
		st.XSID = fmt.Sprintf("again-%d", st.SID)
		st.EndStream = rapid.Bool().Draw(g.rt, g.lbl("es"))
		if rapid.Bool().Draw(g.rt, g.lbl("asTrailers")) {
			st.Fields = [][2]string{{"x-trailer", "t"}, {"x-sid", st.XSID}}
		} else {
			st.Fields = validFields(st.SID, st.XSID)
		}
	case "X-headers-hcr":
		st.SID = rapid.SampledFrom(m.pick(func(s *c35Stream) bool { return s.state == mHCR && s.handler })).Draw(g.rt, g.lbl("sid"))
		st.XSID = fmt.Sprintf("again-%d", st.SID)
		st.EndStream = rapid.IntRange(0, 3).Draw(g.rt, g.lbl("es")) != 0
		if rapid.Bool().Draw(g.rt, g.lbl("asTrailers")) {
			st.Fields = [][2]string{{"x-trailer", "t"}}
		} else {
			st.Fields = validFields(st.SID, st.XSID)
		}
	case "X-data-hcr":
		st.SID = rapid.SampledFrom(m.pick(func(s *c35Stream) bool { return s.state == mHCR && s.handler })).Draw(g.rt, g.lbl("sid"))
		st.N = rapid.IntRange(0, 30).Draw(g.rt, g.lbl("n"))
		st.EndStream = rapid.Bool().Draw(g.rt, g.lbl("es"))
	case "X-data-closed":
		st.SID = rapid.SampledFrom(m.pick(func(s *c35Stream) bool { return s.state == mClosed })).Draw(g.rt, g.lbl("sid"))
		st.N = rapid.IntRange(0, 30).Draw(g.rt, g.lbl("n"))
		st.EndStream = rapid.Bool().Draw(g.rt, g.lbl("es"))
	case "X-trailers-no-es":
		st.SID = rapid.SampledFrom(m.pick(func(s *c35Stream) bool { return s.state == mOpen })).Draw(g.rt, g.lbl("sid"))
		st.Fields = [][2]string{{"x-trailer", "t"}}
	case "X-trailers-pseudo":
		st.SID = rapid.SampledFrom(m.pick(func(s *c35Stream) bool { return s.state == mOpen })).Draw(g.rt, g.lbl("sid"))
		st.EndStream = true
		st.Fields = [][2]string{{rapid.SampledFrom([]string{":path", ":method", ":status"}).Draw(g.rt, g.lbl("ps")), "/x"}, {"x-trailer", "t"}}
	case "X-malformed-req":
		st.SID = m.nextID()
		if rapid.IntRange(0, 2).Draw(g.rt, g.lbl("skip")) == 0 {
			st.SID += 2
		}
		st.XSID = fmt.Sprintf("bad-%d", st.SID)
		st.Variant = rapid.SampledFrom(c35MalformedKind).Draw(g.rt, g.lbl("variant"))
		st.EndStream = rapid.IntRange(0, 2).Draw(g.rt, g.lbl("es")) != 0
		st.Fields = c35MalformedFields(st.Variant, st.XSID, st.SID)
	case "X-over-limit":
		st.SID = m.nextID()
		st.XSID = fmt.Sprintf("over-%d", st.SID)
		st.EndStream = rapid.Bool().Draw(g.rt, g.lbl("es"))
		st.Fields = validFields(st.SID, st.XSID)
	case "X-data-over-cl":
		st.SID = rapid.SampledFrom(m.pick(func(s *c35Stream) bool { return s.state == mOpen && s.cl >= 0 })).Draw(g.rt, g.lbl("sid"))
		st.N = m.streams[st.SID].room() + rapid.IntRange(1, 20).Draw(g.rt, g.lbl("over"))
		st.EndStream = rapid.Bool().Draw(g.rt, g.lbl("es"))
	case "X-garbage-cl":
		// HEADERS with an unparsable content-length, then DATA: what the server must answer is
		// a matter of HTTP semantics, so only the no-panic part is asserted
		st.Weak = true
		st.SID = m.nextID()
		st.XSID = fmt.Sprintf("gcl-%d", st.SID)
		st.Variant = rapid.SampledFrom([]string{"abc", "1x", "", "-1", "99999999999999999999"}).Draw(g.rt, g.lbl("cl"))
		st.N = rapid.IntRange(1, 20).Draw(g.rt, g.lbl("n"))
		st.EndStream = rapid.Bool().Draw(g.rt, g.lbl("es"))
		st.Fields = append(validFields(st.SID, st.XSID), [2]string{"content-length", st.Variant})
		st.Fields[0][1] = "POST"
	case "X-data-idle":
		st.SID = m.nextID() + 2*uint32(rapid.IntRange(0, 3).Draw(g.rt, g.lbl("ahead")))
		st.N = rapid.IntRange(0, 30).Draw(g.rt, g.lbl("n"))
		st.EndStream = rapid.Bool().Draw(g.rt, g.lbl("es"))
	}
	if st.Fields != nil {
		g.frameShape(&st, len(hpackLiteral(st.Fields)))
	}
	return st
}

// ---------------------------------------------------------------- execution + oracle

type c35Run struct {
	rt      tbx
	rec     *ev.Rec
	r       *rig
	m       *c35Model
	sync    bool
	steps   []c35Step
	classes map[string]bool
	nt      bool
	alive   bool   // the connection is expected to be usable
	ended   string // "", "goaway", "closed"
	failed  bool
	forbid  []c35Forbid // requests that must never reach the handler
}

func (x *c35Run) witness() map[string]any {
	fs, rerr := x.r.cli.snapshot()
	return map[string]any{"max_streams_advertised": x.m.advMax, "sync": x.sync, "steps": x.steps, "server_frames_tail": lastFrames(fs, 12), "read_err": fmt.Sprint(rerr)}
}

func (x *c35Run) fingerprint() string {
	var sb strings.Builder
	fmt.Fprintf(&sb, "%d/%v/", x.m.advMax, x.sync)
	for _, s := range x.steps {
		sb.WriteString(s.enc())
		sb.WriteByte('|')
	}
	return sb.String()
}

func (x *c35Run) fail(key, format string, args ...any) {
	if x.failed {
		return
	}
	x.failed = true
	x.rec.Case(x.fingerprint(), x.nt, keys(x.classes)...)
	w := x.witness()
	x.r.finish()
	// a recovered panic explains most other symptoms: report it first
	if n, msgs := x.r.panics(); n != 0 || len(msgs) != 0 {
		site := "unknown"
		if len(msgs) > 0 {
			site = panicSite(msgs[0])
		}
		if !x.rec.Fail(x.rt, "panic/"+site, w, "serve loop panicked (%d) [%s]; first symptom: %s; log: %s", n, x.lastIllegal(), fmt.Sprintf(format, args...), truncate(strings.Join(msgs, "\n"), 1200)) {
			return
		}
	}
	x.rec.Fail(x.rt, key, w, format, args...)
}

func (x *c35Run) lastIllegal() string {
	for i := len(x.steps) - 1; i >= 0; i-- {
		if x.steps[i].Illegal {
			if x.steps[i].Variant != "" {
				return x.steps[i].Kind + "/" + x.steps[i].Variant
			}
			return x.steps[i].Kind
		}
	}
	return "no illegal step"
}

func (x *c35Run) send(st c35Step) {
	c := x.r.cli
	pad := st.Pad - 1
	switch st.Kind {
	case "req", "trailers", "X-even-id", "X-lower-idle-id", "X-headers-closed", "X-headers-hcr", "X-trailers-no-es", "X-trailers-pseudo", "X-malformed-req", "X-over-limit":
		c.write(headersFrames(st.SID, hpackLiteral(st.Fields), st.EndStream, st.Prio, pad, st.Cut))
	case "X-garbage-cl":
		c.write(headersFrames(st.SID, hpackLiteral(st.Fields), false, nil, -1, 0))
		c.write(dataFrame(st.SID, make([]byte, st.N), st.EndStream, -1))
	case "data", "X-data-hcr", "X-data-closed", "X-data-idle", "X-data-over-cl":
		c.write(dataFrame(st.SID, make([]byte, st.N), st.EndStream, pad))
	case "rst", "rst-crossing":
		c.write(rawFrame(fRST, 0, st.SID, u32(uint32(st.N))))
	case "ping":
	case "settings":
		var kv []uint32
		switch st.Variant {
		case "push0":
			kv = []uint32{0x2, 0}
		case "maxframe":
			kv = []uint32{0x5, 16384 + uint32(st.N)}
		case "window":
			kv = []uint32{0x4, 65535 + uint32(st.N)}
		case "tablesize":
			kv = []uint32{0x1, uint32(st.N)}
		case "unknown":
			kv = []uint32{0x99, uint32(st.N)}
		}
		c.write(rawFrame(fSettings, 0, 0, settingsPayload(kv...)))
	case "winupd-stream":
		c.write(rawFrame(fWindowUpdate, 0, st.SID, u32(uint32(st.N))))
	case "winupd-conn":
		c.write(rawFrame(fWindowUpdate, 0, 0, u32(uint32(st.N))))
	case "priority":
		c.write(rawFrame(fPriority, 0, st.SID, st.Prio.bytes()))
	}
}

type c35Forbid struct {
	xsid string
	key  string // finding-key suffix: kind[/variant][/context]
}

// c35MalformedClass groups the malformed-request variants by the RFC section that makes
// them malformed: the header list itself (8.1.2, 8.1.2.1) or the request it describes
// (8.1.2.2, 8.1.2.3).
func c35MalformedClass(variant string) string {
	switch variant {
	case "pseudo-after-regular", "dup-method", "dup-path", "unknown-pseudo", "status-pseudo", "uppercase-name":
		return "fieldlist"
	}
	return "request"
}

// keyFor is the finding-key suffix of an illegal step: kind, variant, and for steps that
// re-use stream ids the way the referenced stream ended.
func (x *c35Run) keyFor(st c35Step) string {
	key := st.Kind
	switch st.Kind {
	case "X-malformed-req":
		key += "/" + st.Variant
	case "X-headers-hcr":
		if st.EndStream {
			key += "/end-stream"
		} else {
			key += "/no-end-stream"
		}
		if t := x.m.streams[st.SID]; t != nil && t.bodyClosed {
			key += "/after-body-closed"
		}
	case "X-data-hcr":
		if t := x.m.streams[st.SID]; t != nil && t.bodyClosed {
			key += "/after-body-closed"
		}
	case "X-headers-closed", "X-data-closed":
		if t := x.m.streams[st.SID]; t != nil && t.endedBy != "" {
			key += "/after-" + t.endedBy
		}
	case "X-lower-idle-id":
		if t := x.m.streams[x.m.maxID]; t != nil && strings.HasPrefix(t.endedBy, "rejected") {
			key += "/after-" + t.endedBy
		}
	case "X-over-limit":
		ctx := ""
		for _, id := range x.m.order {
			if e := x.m.streams[id].endedBy; strings.HasPrefix(e, "rejected-") && (ctx == "" || e == "rejected-request") {
				ctx = e
			}
		}
		if ctx != "" {
			key += "/after-" + ctx
		}
	}
	return key
}

// reaction summarises what the server sent since frame index mark.
type c35Reaction struct {
	rst      *frame // RST_STREAM on the target stream
	goaway   *frame
	status   string // response status on the target stream
	respEnd  bool   // END_STREAM seen on the target stream
	bad      *frame
	otherRST []frame
}

func (x *c35Run) reaction(mark int, sid uint32) c35Reaction {
	fs, _ := x.r.cli.snapshot()
	var re c35Reaction
	for i := range fs {
		f := &fs[i]
		if f.Bad != "" && re.bad == nil {
			re.bad = f
		}
		if f.Typ == fGoAway && re.goaway == nil {
			re.goaway = f
		}
		if i < mark {
			continue
		}
		switch {
		case f.Typ == fRST && f.SID == sid && re.rst == nil:
			re.rst = f
		case f.Typ == fRST:
			re.otherRST = append(re.otherRST, *f)
		case f.Typ == fHeaders && f.SID == sid && re.status == "":
			re.status = f.Status
		}
		if (f.Typ == fHeaders || f.Typ == fData) && f.SID == sid && f.EndStream {
			re.respEnd = true
		}
	}
	return re
}

func inCodes(codes []uint32, c uint32) bool {
	for _, v := range codes {
		if v == c {
			return true
		}
	}
	return false
}

// connEnded handles a GOAWAY/close outcome of a step. It returns true when the case is over.
func (x *c35Run) noteEnded(b barrierRes) {
	x.alive = false
	if b == bGoAway {
		x.ended = "goaway"
	} else {
		x.ended = "closed"
	}
}

// exec runs one step. It returns false when the case must stop (failure or connection over).
func (x *c35Run) exec(st c35Step) bool {
	m := x.m
	x.steps = append(x.steps, st)
	x.classes["step:"+st.Kind] = true
	if st.Variant != "" && st.Illegal {
		x.classes["malformed:"+st.Variant] = true
	}
	if st.Cut > 0 {
		x.classes["continuation"] = true
	}
	target := m.streams[st.SID]
	var exp c35Expect
	if st.Illegal {
		exp = c35ExpectFor(st, target)
		if m.active() > 0 {
			x.nt = true
		}
		// under an async schedule the number of active streams is not known to the model
		if exp.noDeliver && (x.sync || st.Kind != "X-over-limit") {
			x.forbid = append(x.forbid, c35Forbid{st.XSID, x.keyFor(st)})
		}
		x.classes["illegal:"+st.Kind] = true
	}
	illegalKey := x.keyFor(st)
	mark := x.r.cli.nframes()
	if st.Kind == "finish" {
		return x.execFinish(st, target, mark)
	}
	if st.Kind == "finish-race" {
		return x.execFinishRace(st, target, mark)
	}
	if st.Kind == "close-body" {
		hs := x.handlerReady(fmt.Sprint(st.SID))
		if hs == nil {
			return true
		}
		hs.release <- hAction{CloseBody: true}
		if !x.r.h.waitFor(func() bool { return hs.bodyClosed || hs.returned }) {
			x.rt.Skipf("C35: watchdog waiting for the handler to close the body")
		}
		target.bodyClosed = true
		if !x.sync {
			return true
		}
		if b := x.r.cli.barrier(); b != bAcked {
			if b == bTimeout {
				x.rt.Skipf("C35: watchdog after close-body")
			}
			x.noteEnded(b)
			x.fail("legal-rejected/close-body", "connection ended (%v) after the handler of stream %d closed its request body", b, st.SID)
			return false
		}
		return true
	}
	x.send(st)
	// ---- model update for legal steps
	switch st.Kind {
	case "req":
		target = m.add(st.SID, st.EndStream)
		target.cl = c35DeclaredCL(st.Fields)
	case "data":
		target.sent += st.N
		if st.EndStream {
			target.state = mHCR
		}
	case "X-garbage-cl":
		g := m.add(st.SID, st.EndStream)
		g.state, g.handler, g.endedBy = mClosed, false, "garbage-cl"
	case "trailers":
		target.state = mHCR
		target.trailers = true
	case "rst":
		if target.state != mClosed {
			target.endedBy = "client-rst"
		}
		target.state = mClosed
		target.cliRST = true
	case "rst-crossing":
		target.cliRST = true
	case "X-malformed-req", "X-over-limit":
		// the id is used up whatever the server answers (5.1.1); the stream is closed once the
		// server has rejected it (srvRST is set below when a RST_STREAM is seen)
		rej := m.add(st.SID, true)
		rej.state = mClosed
		rej.handler = false
		rej.endedBy = "rejected-" + c35MalformedClass(st.Variant)
		if st.Kind == "X-over-limit" {
			rej.endedBy = "rejected-over-limit"
		}
		target = rej
	}
	if !x.sync {
		return true
	}
	b := x.r.cli.barrier()
	if b == bTimeout {
		x.rt.Skipf("C35: watchdog waiting for PING ack after %s", st.Kind)
	}
	if st.Weak {
		// nothing is demanded beyond the end-of-case checks; the script stops here because
		// the model no longer knows the state of the connection
		x.alive = false
		if b != bAcked {
			x.noteEnded(b)
		}
		return false
	}
	if !st.Illegal {
		if b != bAcked {
			x.noteEnded(b)
			re := x.reaction(mark, st.SID)
			key := "legal-rejected/" + st.Kind
			if st.Kind == "rst-crossing" && target != nil && target.endedBy != "" {
				key += "/after-" + target.endedBy
			}
			x.fail(key, "connection ended (%v, goaway %v) after legal step %s on stream %d", b, re.goaway, st.Kind, st.SID)
			return false
		}
		re := x.reaction(mark, st.SID)
		switch st.Kind {
		case "req":
			if re.rst != nil {
				x.fail("legal-rejected/req", "legal request on stream %d answered with %v", st.SID, re.rst)
				return false
			}
			if !x.r.h.waitFor(func() bool { return x.r.h.bySID[st.XSID] != nil }) {
				x.rt.Skipf("C35: watchdog waiting for handler of stream %d", st.SID)
			}
			hs := x.r.h.get(st.XSID)
			if hs.method != st.Fields[0][1] || hs.path != st.Fields[2][1] {
				x.fail("request-garbled", "stream %d: handler saw %s %s, client sent %s %s", st.SID, hs.method, hs.path, st.Fields[0][1], st.Fields[2][1])
				return false
			}
		case "data", "trailers":
			if re.rst != nil && st.Kind == "data" && target.bodyClosed {
				// the handler does not want the body: the server may reset the stream (any code)
				x.classes["data-after-close-body:rst"] = true
				target.state, target.srvRST, target.endedBy = mClosed, true, "server-rst"
				return true
			}
			if st.Kind == "data" && target.bodyClosed {
				x.classes["data-after-close-body:accepted"] = true
			}
			if re.rst != nil {
				x.fail("legal-rejected/"+st.Kind, "legal %s on open stream %d answered with %v", st.Kind, st.SID, re.rst)
				return false
			}
		case "settings":
			okw := x.r.cli.waitFor(func() bool {
				for _, f := range x.r.cli.frames[mark:] {
					if f.Typ == fSettings && f.Ack {
						return true
					}
				}
				return x.r.cli.rerr != nil
			})
			if !okw {
				x.rt.Skipf("C35: watchdog waiting for SETTINGS ack")
			}
		}
		return true
	}
	// ---- illegal step, sync mode: check the mandated error class
	re := x.reaction(mark, st.SID)
	switch b {
	case bGoAway:
		x.noteEnded(b)
		x.classes["outcome:goaway"] = true
		if exp.connCodes != nil && !inCodes(exp.connCodes, re.goaway.Code) {
			x.fail("wrong-goaway-code/"+st.Kind, "%s answered with %v; rule: %s", st.Kind, re.goaway, exp.rule)
			return false
		}
		return false
	case bClosed:
		x.noteEnded(b)
		x.classes["outcome:closed"] = true
		return false // a close without GOAWAY is an (abrupt) connection error; a panic behind it is caught at the end
	}
	// connection continues
	if exp.http4xx && re.status == "" {
		// a response may follow the PING ack (stream frames are scheduled after control frames)
		okw := x.r.cli.waitFor(func() bool {
			for _, f := range x.r.cli.frames[mark:] {
				if f.SID == st.SID && (f.Typ == fRST || f.Typ == fHeaders) {
					return true
				}
			}
			return x.r.h.count(st.XSID) > 0 || x.r.cli.rerr != nil || x.r.cli.goAwayLocked() != nil
		})
		if !okw {
			x.rt.Skipf("C35: watchdog waiting for the reaction to a malformed request")
		}
		re = x.reaction(mark, st.SID)
	}
	switch {
	case exp.http4xx && len(re.status) == 3 && re.status[0] == '4':
		// 8.1.2.6: an HTTP response before closing or resetting the stream
		x.classes["outcome:4xx"] = true
		okw := x.r.cli.waitFor(func() bool {
			for _, f := range x.r.cli.frames[mark:] {
				if f.SID == st.SID && (f.EndStream || f.Typ == fRST) {
					return true
				}
			}
			return x.r.cli.rerr != nil
		})
		if !okw {
			x.rt.Skipf("C35: watchdog waiting for the end of a 4xx response")
		}
		if x.r.cli.barrier() == bTimeout {
			x.rt.Skipf("C35: watchdog")
		}
	case re.rst != nil:
		x.classes["outcome:rst"] = true
		if exp.streamCodes == nil || !inCodes(exp.streamCodes, re.rst.Code) {
			x.fail("wrong-rst-code/"+st.Kind, "%s answered with %v; rule: %s", st.Kind, re.rst, exp.rule)
			return false
		}
		if target != nil {
			if target.state != mClosed {
				target.endedBy = "server-rst"
			}
			target.state = mClosed
			target.srvRST = true
		}
	case exp.ignoreOK && !(exp.noDeliver && x.deliveredSoon(st.XSID)):
		x.classes["outcome:ignored"] = true
	default:
		detail := ""
		if exp.noDeliver && x.r.h.count(st.XSID) > 0 {
			detail = " (the request was delivered to the handler)"
		}
		key := "illegal-accepted/" + illegalKey
		x.fail(key, "%s on stream %d was silently accepted%s: no RST_STREAM, no GOAWAY, connection answers PING; rule: %s", st.Kind, st.SID, detail, exp.rule)
		return false
	}
	return true
}

func (x *c35Run) execFinish(st c35Step, target *c35Stream, mark int) bool {
	hs := x.handlerReady(fmt.Sprint(st.SID))
	if hs == nil {
		// only possible under an async schedule after the connection ended
		target.handler = false
		return true
	}
	hs.release <- hAction{ReadBody: st.ReadBody, Body: st.N}
	wasLive := target.state != mClosed
	wasOpen := target.state == mOpen
	target.handler = false
	if wasLive {
		target.state = mClosed
		target.endedBy = "response"
		if wasOpen {
			target.srvRST = true // 8.1: the server may RST_STREAM(NO_ERROR) after a complete response
		}
	}
	if !x.sync {
		return true
	}
	if wasLive {
		okw := x.r.cli.waitFor(func() bool {
			for _, f := range x.r.cli.frames[mark:] {
				if f.SID == st.SID && (f.EndStream || f.Typ == fRST) {
					return true
				}
			}
			return x.r.cli.rerr != nil || x.r.cli.goAwayLocked() != nil
		})
		if !okw {
			x.rt.Skipf("C35: watchdog waiting for the response on stream %d", st.SID)
		}
	} else if !x.r.h.waitFor(func() bool { return hs.returned }) {
		x.rt.Skipf("C35: watchdog waiting for handler return")
	}
	b := x.r.cli.barrier()
	if b == bTimeout {
		x.rt.Skipf("C35: watchdog after finish")
	}
	if b != bAcked {
		x.noteEnded(b)
		x.fail("legal-rejected/finish", "connection ended (%v) when the handler of stream %d completed", b, st.SID)
		return false
	}
	if wasLive {
		re := x.reaction(mark, st.SID)
		if re.status != "200" {
			x.fail("response-lost", "handler of stream %d completed with status 200 but the client saw status %q, rst %v", st.SID, re.status, re.rst)
			return false
		}
		if re.rst != nil && re.rst.Code != errNo {
			x.fail("response-lost", "complete response on stream %d followed by %v", st.SID, re.rst)
			return false
		}
	}
	return true
}

// handlerReady waits until the handler for x-sid sid is registered. Under an async schedule
// the connection may already be over (then the handler may never start): nil is returned.
func (x *c35Run) handlerReady(sid string) *hstream {
	deadline := time.Now().Add(watchdog)
	for {
		if hs := x.r.h.get(sid); hs != nil {
			return hs
		}
		if !x.sync {
			fs, rerr := x.r.cli.snapshot()
			if rerr != nil {
				return nil
			}
			for i := range fs {
				if fs[i].Typ == fGoAway {
					return nil
				}
			}
		}
		if time.Now().After(deadline) {
			x.rt.Skipf("C35: watchdog waiting for handler registration")
		}
		time.Sleep(50 * time.Microsecond)
	}
}

// deliveredSoon gives a handler goroutine the server may have started for x-sid sid a short
// grace period to register. Wall-clock time only raises the chance of noticing a delivery;
// it can never produce a failure on its own.
func (x *c35Run) deliveredSoon(sid string) bool {
	for i := 0; i < 200; i++ {
		if x.r.h.count(sid) > 0 {
			return true
		}
		time.Sleep(100 * time.Microsecond)
	}
	return false
}

// execFinishRace: the client stops reading, the handler of the stream completes with a
// response that does not fit the server's write buffer plus the (small) socket buffer, so
// the server's frame write is stuck; the client then resets the stream, makes sure the
// server has processed the RST_STREAM (a following PING has been read off the connection:
// the server reads frame k+1 only after it processed frame k), resumes reading and checks
// that the connection still works. All of it is legal client behaviour.
func (x *c35Run) execFinishRace(st c35Step, target *c35Stream, mark int) bool {
	hs := x.handlerReady(fmt.Sprint(st.SID))
	if hs == nil {
		target.handler = false
		return true
	}
	x.classes["finish-race:"+st.Variant] = true
	s2c, c2s := x.r.cconn.r, x.r.cconn.w
	s2c.set(func() { s2c.paused = true })
	hs.release <- hAction{Body: st.N}
	// wait until the server's write is stuck (socket buffer full) or the handler is done
	stuck := false
	deadline := time.Now().Add(watchdog)
	for {
		full := false
		s2c.set(func() { full = s2c.pending() >= s2c.capacity })
		if full {
			stuck = true
			break
		}
		ret := false
		x.r.h.mu.Lock()
		ret = hs.returned
		x.r.h.mu.Unlock()
		if ret {
			break
		}
		if time.Now().After(deadline) {
			s2c.set(func() { s2c.paused = false })
			x.rt.Skipf("C35: watchdog waiting for the stuck response write")
		}
		time.Sleep(50 * time.Microsecond)
	}
	if stuck {
		x.classes["finish-race:write-stuck"] = true
	}
	x.r.cli.write(rawFrame(fRST, 0, st.SID, u32(0x8)))
	x.r.cli.pingSeq++
	x.r.cli.write(rawFrame(fPing, 0, 0, append(u32(0xC35A0000), u32(uint32(x.r.cli.pingSeq))...)))
	var want int64
	c2s.set(func() { want = c2s.written })
	if !c2s.waitFor(func() bool { return c2s.consumed >= want || c2s.rclosed }, watchdog) {
		s2c.set(func() { s2c.paused = false })
		x.rt.Skipf("C35: watchdog waiting for the server to read RST_STREAM+PING")
	}
	if target.state != mClosed {
		target.endedBy = "client-rst"
	}
	target.state = mClosed
	target.cliRST = true
	target.handler = false
	s2c.set(func() { s2c.paused = false })
	if !x.sync {
		return true
	}
	b := x.r.cli.barrier()
	if b == bTimeout {
		x.rt.Skipf("C35: watchdog after finish-race")
	}
	if b != bAcked {
		x.noteEnded(b)
		x.fail("legal-rejected/finish-race", "connection ended (%v) after the client reset stream %d while its response (%d bytes) was being written to a stalled reader", b, st.SID, st.N)
		return false
	}
	if !x.r.h.waitFor(func() bool { return hs.returned }) {
		x.rt.Skipf("C35: watchdog waiting for handler return")
	}
	return true
}

// finishCase runs the end-of-case checks shared by sync and async cases.
func (x *c35Run) finishCase() {
	if x.failed {
		return
	}
	if x.ended == "" {
		b := x.r.cli.barrier()
		switch b {
		case bTimeout:
			x.rt.Skipf("C35: watchdog at final PING")
		case bAcked:
			x.classes["end:ping-answered"] = true
		case bGoAway:
			x.classes["end:goaway"] = true
			if x.sync && x.alive {
				x.noteEnded(b)
				x.fail("late-goaway", "GOAWAY after all steps had been acknowledged")
				return
			}
		case bClosed:
			x.classes["end:closed"] = true
			if x.sync && x.alive {
				x.noteEnded(b)
				x.fail("late-close", "connection closed after all steps had been acknowledged")
				return
			}
		}
	} else {
		x.classes["end:"+x.ended] = true
	}
	fs, _ := x.r.cli.snapshot()
	for i := range fs {
		if fs[i].Bad != "" {
			key := "bad-server-frame"
			if strings.Contains(fs[i].Bad, "dynamic table size update MUST occur at the beginning") {
				key += "/hpack-size-update-mid-block"
			}
			x.fail(key, "server sent a malformed frame: %s (%v)", fs[i].Bad, fs[i])
			return
		}
	}
	for _, fb := range x.forbid {
		if x.r.h.count(fb.xsid) > 0 {
			hs := x.r.h.get(fb.xsid)
			x.fail("delivered/"+fb.key, "request %q that must be rejected reached the handler (%s %s)", fb.xsid, hs.method, hs.path)
			return
		}
	}
	w := x.witness()
	if !x.r.finish() {
		x.rt.Skipf("C35: teardown watchdog")
	}
	for _, fb := range x.forbid {
		if x.r.h.count(fb.xsid) > 0 {
			x.rec.Case(x.fingerprint(), x.nt, keys(x.classes)...)
			x.failed = true
			x.rec.Fail(x.rt, "delivered/"+fb.key, w, "request %q that must be rejected reached the handler", fb.xsid)
			return
		}
	}
	if n, msgs := x.r.panics(); n != 0 || len(msgs) != 0 {
		site := "unknown"
		if len(msgs) > 0 {
			site = panicSite(msgs[0])
		}
		x.rec.Case(x.fingerprint(), x.nt, keys(x.classes)...)
		x.failed = true
		x.rec.Fail(x.rt, "panic/"+site, w, "serve loop panicked (%d) [%s]: %s", n, x.lastIllegal(), truncate(strings.Join(msgs, "\n"), 1500))
		return
	}
	x.rec.Sample(map[string]any{"sync": x.sync, "max_streams": x.m.advMax, "steps": x.steps, "end": x.ended})
	x.rec.Case(x.fingerprint(), x.nt, keys(x.classes)...)
}

func TestC35(t *testing.T) {
	rec := ev.New("C35", "stateful client scripts against a real ServeConn connection: legal prefix (requests, DATA, trailers, client RST_STREAM, harness-controlled handler completion, PING/SETTINGS/WINDOW_UPDATE/PRIORITY), precondition set-up, one illegal step of 11 kinds (16 malformed-request variants), legal suffix; sync (PING barrier per step, RFC error class asserted) and async (back-to-back, racing handler completion) schedules. non-trivial: >=1 stream is open or half-closed when the illegal step is sent; distinct by script")
	rapid.Check(t, func(rt *rapid.T) {
		maxStreams := rapid.SampledFrom([]uint32{1, 2, 3, 5, 0}).Draw(rt, "maxStreams")
		// malformed requests have 16 variants: give the kind more weight
		kind := rapid.SampledFrom(append([]string{"none", "X-malformed-req", "X-malformed-req", "X-malformed-req", "X-malformed-req"}, c35IllegalKinds...)).Draw(rt, "illegal")
		if kind == "X-over-limit" && maxStreams == 0 {
			maxStreams = 2
		}
		syncMode := rapid.IntRange(0, 3).Draw(rt, "sync") != 0
		s2cCap := rapid.SampledFrom([]int{1 << 16, 1 << 16, 512, 16}).Draw(rt, "s2cBuffer")
		r, err := startRig(rigOpts{MaxStreams: maxStreams, S2CCap: s2cCap})
		if err != nil {
			rt.Skipf("C35: %v", err)
		}
		defer r.finish()
		m := &c35Model{streams: map[uint32]*c35Stream{}, advMax: r.advMax}
		x := &c35Run{rt: rt, rec: rec, r: r, m: m, sync: syncMode, classes: map[string]bool{}, alive: true}
		if syncMode {
			x.classes["schedule:sync"] = true
		} else {
			x.classes["schedule:async"] = true
		}
		x.classes[fmt.Sprintf("max-streams:%d", r.advMax)] = true
		g := &c35Gen{rt: rt, m: m, s2cCap: s2cCap}
		x.classes[fmt.Sprintf("s2c-buffer:%d", s2cCap)] = true
		nPrefix := rapid.IntRange(0, 8).Draw(rt, "prefix")
		for i := 0; i < nPrefix; i++ {
			if !x.exec(*g.legal()) {
				x.finishCase()
				return
			}
		}
		if kind != "none" {
			for guard := 0; guard < 12; guard++ {
				s := g.setupFor(kind)
				if s == nil {
					break
				}
				if !x.exec(*s) {
					x.finishCase()
					return
				}
			}
			if g.setupFor(kind) != nil || (kind == "X-over-limit" && uint32(m.active()) < m.advMax) {
				rec.Excluded("precondition of " + kind + " not reachable in this script")
			} else {
				if !x.exec(g.illegal(kind)) {
					x.finishCase()
					return
				}
				// a second illegal step that needs no set-up, e.g. re-using the id of a request the
				// server has just rejected
				last := x.steps[len(x.steps)-1]
				forceOver := last.Kind == "X-malformed-req" && c35MalformedClass(last.Variant) == "request" && m.advMax <= 5
				if rapid.Bool().Draw(rt, "second") || forceOver {
					var app []string
					for _, k2 := range []string{"X-headers-closed", "X-lower-idle-id", "X-data-closed", "X-even-id", "X-data-idle"} {
						if k2 == "X-even-id" || k2 == "X-data-idle" || (len(m.pick(func(s *c35Stream) bool { return s.state == mClosed })) > 0 && k2 != "X-lower-idle-id") || (k2 == "X-lower-idle-id" && len(m.skipped) > 0) {
							app = append(app, k2)
						}
					}
					// after a rejected request: does the advertised concurrency limit still hold?
					if m.advMax <= 5 && kind != "X-over-limit" {
						app = append(app, "X-over-limit")
						if kind == "X-malformed-req" {
							app = append(app, "X-over-limit", "X-over-limit", "X-over-limit", "X-over-limit")
						}
					}
					k2 := rapid.SampledFrom(app).Draw(rt, "illegal2")
					x.classes["second-illegal"] = true
					x.classes["second-illegal:"+k2] = true
					for guard := 0; guard < 8 && k2 == "X-over-limit"; guard++ {
						s := g.setupFor(k2)
						if s == nil {
							break
						}
						if !x.exec(*s) {
							x.finishCase()
							return
						}
					}
					if k2 == "X-over-limit" && uint32(m.active()) < m.advMax {
						rec.Excluded("precondition of second X-over-limit not reachable")
					} else if !x.exec(g.illegal(k2)) {
						x.finishCase()
						return
					}
				}
				nPost := rapid.IntRange(0, 3).Draw(rt, "post")
				for i := 0; i < nPost; i++ {
					if !x.exec(*g.legal()) {
						x.finishCase()
						return
					}
				}
			}
		} else {
			x.classes["illegal:none"] = true
		}
		x.finishCase()
	})
}

package h2b

// Rig shared by C35/C36/C37: an in-memory connection pair, a scripted raw HTTP/2
// client (own frame reader/writer and own literal-only HPACK encoder, so nothing on
// the client side of the wire depends on bfe_http2's Framer), a harness-controlled
// request handler, and panic observation (state counter + captured log).

import (
	"encoding/binary"
	"errors"
	"fmt"
	"io"
	"net"
	"regexp"
	"strings"
	"sync"
	"time"

	"github.com/baidu/go-lib/log"
	"github.com/baidu/go-lib/log/log4go"
	"github.com/baidu/go-lib/web-monitor/metrics"
	"github.com/bfenetworks/bfe/bfe_http"
	"github.com/bfenetworks/bfe/bfe_http2"
	"github.com/bfenetworks/bfe/bfe_http2/hpack"
)

// watchdog bounds every wait of the harness. Hitting it is inconclusive (skip), never
// a violation by itself.
const watchdog = 30 * time.Second

// ---------------------------------------------------------------- log + counters

type capWriter struct {
	mu   sync.Mutex
	recs []string
}

func (w *capWriter) LogWrite(rec *log4go.LogRecord) {
	w.mu.Lock()
	if len(w.recs) < 10000 {
		w.recs = append(w.recs, rec.Message)
	}
	w.mu.Unlock()
}
func (w *capWriter) Close() {}

func (w *capWriter) mark() int {
	w.mu.Lock()
	defer w.mu.Unlock()
	return len(w.recs)
}

func (w *capWriter) since(m int) []string {
	w.mu.Lock()
	defer w.mu.Unlock()
	if m > len(w.recs) {
		m = len(w.recs)
	}
	return append([]string(nil), w.recs[m:]...)
}

var (
	logCap   = &capWriter{}
	h2state  *bfe_http2.Http2State
	h2metric metrics.Metrics
	connCh   = make(chan *bfe_http2.VerifH2bConn, 16)
)

// rigInit prepares process-wide state the way bfe_server does: the package counters are
// allocated through metrics.Init (server_status.go), logging goes to a capturing writer
// at WARNING (bfe_http2 logs recovered serve-loop panics with Logger.Warn).
func rigInit() {
	log.Logger = make(log4go.Logger)
	log.Logger.AddFilter("cap", log4go.WARNING, logCap)
	h2state = bfe_http2.GetHttp2State()
	if err := h2metric.Init(h2state, "h2b", 3600); err != nil {
		panic(err)
	}
	bfe_http2.VerifH2bHookConns(func(sc *bfe_http2.VerifH2bConn) {
		select {
		case connCh <- sc:
		default:
		}
	})
}

func panicConnCount() int64 { return h2state.H2PanicConn.Get() }

var reBfeFunc = regexp.MustCompile(`bfe_http2\.(\(\*?\w+\)\.\w+|\w+)`)

// panicSite extracts a short stable description of a recovered panic from the logged
// message ("http2: panic serving ADDR: VALUE\nSTACK"): the panic value class and the
// first bfe_http2 function on the stack below the runtime panic frames.
func panicSite(msg string) string {
	val := msg
	if i := strings.Index(msg, "\n"); i >= 0 {
		val = msg[:i]
	}
	if i := strings.Index(val, "panic serving"); i >= 0 {
		val = val[i+len("panic serving"):]
		if j := strings.Index(val, ": "); j >= 0 {
			val = val[j+2:]
		}
	}
	class := "other"
	switch {
	case strings.Contains(val, "nil pointer"):
		class = "nil-deref"
	case strings.Contains(val, "internal error"), strings.Contains(val, "invariant"):
		class = "internal-invariant"
	case strings.Contains(val, "index out of range"), strings.Contains(val, "slice bounds"):
		class = "bounds"
	}
	fn := "unknown"
	for _, m := range reBfeFunc.FindAllString(msg, -1) {
		if strings.Contains(m, "notePanic") || strings.Contains(m, "serve") && strings.HasSuffix(m, ".serve") {
			continue
		}
		fn = strings.NewReplacer("(", "", ")", "", "*", "").Replace(strings.TrimPrefix(m, "bfe_http2."))
		break
	}
	return class + "@" + fn
}

// ---------------------------------------------------------------- in-memory conn

var (
	errMemClosed = errors.New("memconn: use of closed network connection")
	errMemPeer   = errors.New("memconn: write: broken pipe (peer closed)")
)

// halfPipe is one direction of the connection: a bounded byte queue ("socket buffer").
type halfPipe struct {
	mu       sync.Mutex
	cond     *sync.Cond
	buf      []byte
	off      int
	capacity int
	wclosed  bool // writer side closed: reader sees EOF after draining
	rclosed  bool // reader side closed: writer sees an error
	paused   bool // reader stalled (the peer application stopped reading)
	consumed int64
	written  int64
}

func newHalfPipe(capacity int) *halfPipe {
	h := &halfPipe{capacity: capacity}
	h.cond = sync.NewCond(&h.mu)
	return h
}

func (h *halfPipe) pending() int { return len(h.buf) - h.off }

func (h *halfPipe) write(p []byte) (int, error) {
	h.mu.Lock()
	defer h.mu.Unlock()
	n := 0
	for len(p) > 0 {
		for h.pending() >= h.capacity && !h.wclosed && !h.rclosed {
			h.cond.Wait()
		}
		if h.wclosed {
			return n, errMemClosed
		}
		if h.rclosed {
			return n, errMemPeer
		}
		k := h.capacity - h.pending()
		if k > len(p) {
			k = len(p)
		}
		if h.off > 0 && h.off >= len(h.buf)/2 {
			m := copy(h.buf, h.buf[h.off:])
			h.buf = h.buf[:m]
			h.off = 0
		}
		h.buf = append(h.buf, p[:k]...)
		p = p[k:]
		n += k
		h.written += int64(k)
		h.cond.Broadcast()
	}
	return n, nil
}

func (h *halfPipe) read(p []byte) (int, error) {
	h.mu.Lock()
	defer h.mu.Unlock()
	for {
		if h.rclosed {
			return 0, errMemClosed
		}
		if !h.paused {
			if h.pending() > 0 {
				k := copy(p, h.buf[h.off:])
				h.off += k
				h.consumed += int64(k)
				if h.off == len(h.buf) {
					h.buf = h.buf[:0]
					h.off = 0
				}
				h.cond.Broadcast()
				return k, nil
			}
			if h.wclosed {
				return 0, io.EOF
			}
		}
		h.cond.Wait()
	}
}

func (h *halfPipe) set(f func()) {
	h.mu.Lock()
	f()
	h.cond.Broadcast()
	h.mu.Unlock()
}

// waitFor waits (bounded by d) until pred holds; pred runs with h.mu held.
func (h *halfPipe) waitFor(pred func() bool, d time.Duration) bool {
	deadline := time.Now().Add(d)
	t := time.AfterFunc(d, func() { h.mu.Lock(); h.cond.Broadcast(); h.mu.Unlock() })
	defer t.Stop()
	h.mu.Lock()
	defer h.mu.Unlock()
	for !pred() {
		if !time.Now().Before(deadline) {
			return false
		}
		h.cond.Wait()
	}
	return true
}

type memAddr string

func (a memAddr) Network() string { return "mem" }
func (a memAddr) String() string  { return string(a) }

// memConn is a net.Conn end. Deadlines are accepted and ignored: the peer is infinitely
// patient, so none of bfe's idle timeouts can fire in the middle of a case under load.
type memConn struct {
	r, w *halfPipe
	name string
}

func (c *memConn) Read(p []byte) (int, error)  { return c.r.read(p) }
func (c *memConn) Write(p []byte) (int, error) { return c.w.write(p) }
func (c *memConn) Close() error {
	c.w.set(func() { c.w.wclosed = true })
	c.r.set(func() { c.r.rclosed = true })
	return nil
}
func (c *memConn) LocalAddr() net.Addr                { return memAddr(c.name + "-local") }
func (c *memConn) RemoteAddr() net.Addr               { return memAddr(c.name + "-remote") }
func (c *memConn) SetDeadline(t time.Time) error      { return nil }
func (c *memConn) SetReadDeadline(t time.Time) error  { return nil }
func (c *memConn) SetWriteDeadline(t time.Time) error { return nil }

func memPair(c2sCap, s2cCap int) (cli, srv *memConn) {
	c2s, s2c := newHalfPipe(c2sCap), newHalfPipe(s2cCap)
	return &memConn{r: s2c, w: c2s, name: "cli"}, &memConn{r: c2s, w: s2c, name: "srv"}
}

// ---------------------------------------------------------------- raw frames + HPACK encoder

const (
	fData         = 0x0
	fHeaders      = 0x1
	fPriority     = 0x2
	fRST          = 0x3
	fSettings     = 0x4
	fPushPromise  = 0x5
	fPing         = 0x6
	fGoAway       = 0x7
	fWindowUpdate = 0x8
	fContinuation = 0x9

	flEndStream  = 0x1
	flAck        = 0x1
	flEndHeaders = 0x4
	flPadded     = 0x8
	flPriority   = 0x20

	errNo           = 0x0
	errProtocol     = 0x1
	errInternal     = 0x2
	errFlowControl  = 0x3
	errStreamClosed = 0x5
	errFrameSize    = 0x6
	errRefused      = 0x7
	errCompression  = 0x9
	errCalm         = 0xb

	clientPreface = "PRI * HTTP/2.0\r\n\r\nSM\r\n\r\n"
)

func errName(c uint32) string {
	names := []string{"NO_ERROR", "PROTOCOL_ERROR", "INTERNAL_ERROR", "FLOW_CONTROL_ERROR", "SETTINGS_TIMEOUT", "STREAM_CLOSED",
		"FRAME_SIZE_ERROR", "REFUSED_STREAM", "CANCEL", "COMPRESSION_ERROR", "CONNECT_ERROR", "ENHANCE_YOUR_CALM", "INADEQUATE_SECURITY", "HTTP_1_1_REQUIRED"}
	if int(c) < len(names) {
		return names[c]
	}
	return fmt.Sprintf("0x%x", c)
}

func rawFrame(typ, flags byte, sid uint32, payload []byte) []byte {
	b := make([]byte, 9, 9+len(payload))
	b[0], b[1], b[2] = byte(len(payload)>>16), byte(len(payload)>>8), byte(len(payload))
	b[3], b[4] = typ, flags
	binary.BigEndian.PutUint32(b[5:], sid&0x7fffffff)
	return append(b, payload...)
}

func hpackInt(dst []byte, prefixBits uint, first byte, v uint64) []byte {
	max := uint64(1)<<prefixBits - 1
	if v < max {
		return append(dst, first|byte(v))
	}
	dst = append(dst, first|byte(max))
	v -= max
	for v >= 128 {
		dst = append(dst, byte(v&0x7f)|0x80)
		v >>= 7
	}
	return append(dst, byte(v))
}

// hpackLiteral encodes the fields as "literal header field without indexing - new name",
// no Huffman (RFC 7541 6.2.2): the simplest always-valid HPACK encoding.
func hpackLiteral(fields [][2]string) []byte {
	var b []byte
	for _, f := range fields {
		b = append(b, 0x00)
		b = hpackInt(b, 7, 0, uint64(len(f[0])))
		b = append(b, f[0]...)
		b = hpackInt(b, 7, 0, uint64(len(f[1])))
		b = append(b, f[1]...)
	}
	return b
}

type prio struct {
	Dep       uint32
	Exclusive bool
	Weight    uint8
}

func (p prio) bytes() []byte {
	b := make([]byte, 5)
	v := p.Dep & 0x7fffffff
	if p.Exclusive {
		v |= 1 << 31
	}
	binary.BigEndian.PutUint32(b, v)
	b[4] = p.Weight
	return b
}

// headersFrames builds HEADERS (+ CONTINUATION when cut > 0) for a header block.
func headersFrames(sid uint32, block []byte, endStream bool, p *prio, pad int, cut int) []byte {
	var flags byte
	if endStream {
		flags |= flEndStream
	}
	var pre, post []byte
	if pad >= 0 {
		flags |= flPadded
		pre = append(pre, byte(pad))
		post = make([]byte, pad)
	}
	if p != nil {
		flags |= flPriority
		pre = append(pre, p.bytes()...)
	}
	first, rest := block, []byte(nil)
	if cut > 0 && cut < len(block) {
		first, rest = block[:cut], block[cut:]
	} else {
		flags |= flEndHeaders
	}
	payload := append(append(append([]byte(nil), pre...), first...), post...)
	out := rawFrame(fHeaders, flags, sid, payload)
	if rest != nil {
		out = append(out, rawFrame(fContinuation, flEndHeaders, sid, rest)...)
	}
	return out
}

func dataFrame(sid uint32, data []byte, endStream bool, pad int) []byte {
	var flags byte
	if endStream {
		flags |= flEndStream
	}
	payload := data
	if pad >= 0 {
		flags |= flPadded
		payload = append(append([]byte{byte(pad)}, data...), make([]byte, pad)...)
	}
	return rawFrame(fData, flags, sid, payload)
}

func u32(v uint32) []byte { b := make([]byte, 4); binary.BigEndian.PutUint32(b, v); return b }

func settingsPayload(kv ...uint32) []byte {
	var b []byte
	for i := 0; i+1 < len(kv); i += 2 {
		b = append(b, byte(kv[i]>>8), byte(kv[i]))
		b = append(b, u32(kv[i+1])...)
	}
	return b
}

// ---------------------------------------------------------------- scripted client

type frame struct {
	Typ       byte
	Flags     byte
	SID       uint32
	Len       int
	Code      uint32 // RST_STREAM / GOAWAY error code
	LastID    uint32 // GOAWAY
	EndStream bool
	Ack       bool
	Status    string      // HEADERS :status
	Fields    [][2]string // HEADERS
	Settings  [][2]uint32
	Ping      uint64
	Incr      uint32
	Bad       string // malformed frame from the server
}

func (f frame) String() string {
	switch f.Typ {
	case fRST:
		return fmt.Sprintf("RST_STREAM(%d,%s)", f.SID, errName(f.Code))
	case fGoAway:
		return fmt.Sprintf("GOAWAY(last=%d,%s)", f.LastID, errName(f.Code))
	case fHeaders:
		return fmt.Sprintf("HEADERS(%d,status=%s,es=%v)", f.SID, f.Status, f.EndStream)
	case fData:
		return fmt.Sprintf("DATA(%d,len=%d,es=%v)", f.SID, f.Len, f.EndStream)
	case fPing:
		return fmt.Sprintf("PING(ack=%v)", f.Ack)
	case fSettings:
		return fmt.Sprintf("SETTINGS(ack=%v)", f.Ack)
	case fWindowUpdate:
		return fmt.Sprintf("WINDOW_UPDATE(%d,%d)", f.SID, f.Incr)
	}
	return fmt.Sprintf("FRAME(type=%d,sid=%d)", f.Typ, f.SID)
}

type client struct {
	conn    *memConn
	mu      sync.Mutex
	cond    *sync.Cond
	frames  []frame
	rerr    error // non-nil once the read loop has ended
	werr    error
	dec     *hpack.Decoder
	pingSeq uint64
	done    chan struct{}
}

func newClient(conn *memConn) *client {
	c := &client{conn: conn, done: make(chan struct{})}
	c.cond = sync.NewCond(&c.mu)
	c.dec = hpack.NewDecoder(4096, nil)
	go c.readLoop()
	return c
}

func (c *client) readLoop() {
	defer close(c.done)
	var hdr [9]byte
	var pendHeaders *frame
	var block []byte
	fail := func(err error) {
		c.mu.Lock()
		c.rerr = err
		c.cond.Broadcast()
		c.mu.Unlock()
	}
	for {
		if _, err := io.ReadFull(c.conn, hdr[:]); err != nil {
			fail(err)
			return
		}
		n := int(hdr[0])<<16 | int(hdr[1])<<8 | int(hdr[2])
		p := make([]byte, n)
		if _, err := io.ReadFull(c.conn, p); err != nil {
			fail(err)
			return
		}
		f := frame{Typ: hdr[3], Flags: hdr[4], SID: binary.BigEndian.Uint32(hdr[5:]) & 0x7fffffff, Len: n}
		emit := true
		if pendHeaders != nil && f.Typ != fContinuation {
			f.Bad = "non-CONTINUATION frame inside a header block"
		}
		switch f.Typ {
		case fData:
			f.EndStream = f.Flags&flEndStream != 0
			if f.SID == 0 {
				f.Bad = "DATA on stream 0"
			}
		case fHeaders:
			f.EndStream = f.Flags&flEndStream != 0
			q := p
			if f.Flags&flPadded != 0 && len(q) > 0 {
				pl := int(q[0])
				q = q[1:]
				if pl <= len(q) {
					q = q[:len(q)-pl]
				} else {
					f.Bad = "HEADERS padding exceeds payload"
				}
			}
			if f.Flags&flPriority != 0 && len(q) >= 5 {
				q = q[5:]
			}
			if f.SID == 0 {
				f.Bad = "HEADERS on stream 0"
			}
			block = append(block[:0], q...)
			if f.Flags&flEndHeaders == 0 {
				ff := f
				pendHeaders = &ff
				emit = false
			} else {
				c.decode(&f, block)
			}
		case fContinuation:
			if pendHeaders == nil || pendHeaders.SID != f.SID {
				f.Bad = "unexpected CONTINUATION"
			} else {
				block = append(block, p...)
				if f.Flags&flEndHeaders != 0 {
					f = *pendHeaders
					pendHeaders = nil
					c.decode(&f, block)
				} else {
					emit = false
				}
			}
		case fRST:
			if n != 4 {
				f.Bad = "RST_STREAM length != 4"
			} else {
				f.Code = binary.BigEndian.Uint32(p)
			}
			if f.SID == 0 {
				f.Bad = "RST_STREAM on stream 0"
			}
		case fGoAway:
			if n < 8 {
				f.Bad = "GOAWAY length < 8"
			} else {
				f.LastID = binary.BigEndian.Uint32(p) & 0x7fffffff
				f.Code = binary.BigEndian.Uint32(p[4:])
			}
		case fPing:
			f.Ack = f.Flags&flAck != 0
			if n != 8 {
				f.Bad = "PING length != 8"
			} else {
				f.Ping = binary.BigEndian.Uint64(p)
			}
		case fSettings:
			f.Ack = f.Flags&flAck != 0
			if n%6 != 0 || (f.Ack && n != 0) {
				f.Bad = "SETTINGS bad length"
			} else {
				for i := 0; i < n; i += 6 {
					f.Settings = append(f.Settings, [2]uint32{uint32(binary.BigEndian.Uint16(p[i:])), binary.BigEndian.Uint32(p[i+2:])})
				}
			}
		case fWindowUpdate:
			if n != 4 {
				f.Bad = "WINDOW_UPDATE length != 4"
			} else {
				f.Incr = binary.BigEndian.Uint32(p) & 0x7fffffff
			}
		}
		if emit {
			c.mu.Lock()
			c.frames = append(c.frames, f)
			c.cond.Broadcast()
			c.mu.Unlock()
		}
	}
}

func (c *client) decode(f *frame, block []byte) {
	hfs, err := c.dec.DecodeFull(block)
	if err != nil {
		f.Bad = "undecodable header block: " + err.Error()
		return
	}
	for _, hf := range hfs {
		f.Fields = append(f.Fields, [2]string{hf.Name, hf.Value})
		if hf.Name == ":status" {
			f.Status = hf.Value
		}
	}
}

func (c *client) write(b []byte) error {
	if c.werr != nil {
		return c.werr
	}
	if _, err := c.conn.Write(b); err != nil {
		c.werr = err
		return err
	}
	return nil
}

// waitFor waits until pred (evaluated with c.mu held) is true; false on watchdog expiry.
func (c *client) waitFor(pred func() bool) bool {
	deadline := time.Now().Add(watchdog)
	t := time.AfterFunc(watchdog, func() { c.mu.Lock(); c.cond.Broadcast(); c.mu.Unlock() })
	defer t.Stop()
	c.mu.Lock()
	defer c.mu.Unlock()
	for !pred() {
		if !time.Now().Before(deadline) {
			return false
		}
		c.cond.Wait()
	}
	return true
}

func (c *client) snapshot() ([]frame, error) {
	c.mu.Lock()
	defer c.mu.Unlock()
	return append([]frame(nil), c.frames...), c.rerr
}

func (c *client) nframes() int {
	c.mu.Lock()
	defer c.mu.Unlock()
	return len(c.frames)
}

type barrierRes int

const (
	bAcked barrierRes = iota
	bGoAway
	bClosed
	bTimeout
)

func (b barrierRes) String() string {
	return [...]string{"acked", "goaway", "closed", "timeout"}[b]
}

// errGoAwayLocked returns the first GOAWAY carrying an error code. A GOAWAY(NO_ERROR) is a
// graceful shutdown notice: the connection stays usable (RFC 7540 6.8), so it does not end
// a barrier.
func (c *client) errGoAwayLocked() *frame {
	for i := range c.frames {
		if c.frames[i].Typ == fGoAway && c.frames[i].Code != errNo {
			return &c.frames[i]
		}
	}
	return nil
}

func (c *client) goAwayLocked() *frame {
	for i := range c.frames {
		if c.frames[i].Typ == fGoAway {
			return &c.frames[i]
		}
	}
	return nil
}

// barrier sends a PING with a fresh payload and waits for its ACK, a GOAWAY or the end
// of the connection. Frames the server emitted while processing everything sent before
// the PING have been received once the ACK is seen, except frames of stream queues
// that are written after connection-level frames (handler responses), which callers wait
// for explicitly.
func (c *client) barrier() barrierRes {
	c.pingSeq++
	seq := 0xC350000000000000 | c.pingSeq
	p := make([]byte, 8)
	binary.BigEndian.PutUint64(p, seq)
	if c.write(rawFrame(fPing, 0, 0, p)) != nil {
		// connection already closed by the server; wait for the reader to see it
		if !c.waitFor(func() bool { return c.rerr != nil }) {
			return bTimeout
		}
		return bClosed
	}
	res := bTimeout
	c.waitFor(func() bool {
		for i := len(c.frames) - 1; i >= 0; i-- {
			if f := &c.frames[i]; f.Typ == fPing && f.Ack && f.Ping == seq {
				res = bAcked
				return true
			}
		}
		if c.errGoAwayLocked() != nil {
			res = bGoAway
			return true
		}
		if c.rerr != nil {
			res = bClosed
			return true
		}
		return false
	})
	return res
}

// ---------------------------------------------------------------- handler control

type hAction struct {
	ReadBody  bool
	Body      int
	Status    int
	CloseBody bool // close Request.Body and keep running (wait for the next action)
}

type hstream struct {
	sid        string
	method     string
	path       string
	serial     uint32
	release    chan hAction
	returned   bool
	bodyRead   int
	bodyErr    string
	bodyClosed bool
}

// handlerCtl is the request handler given to ServeConn. Every invocation registers
// itself (keyed by the x-sid request header the scripted client adds) and then blocks
// until the script releases it or the case ends.
type handlerCtl struct {
	mu      sync.Mutex
	cond    *sync.Cond
	invoked []*hstream
	bySID   map[string]*hstream
	done    chan struct{}
	auto    *hAction // when set, handlers do not wait for a release
	running int
}

func newHandlerCtl() *handlerCtl {
	h := &handlerCtl{bySID: map[string]*hstream{}, done: make(chan struct{})}
	h.cond = sync.NewCond(&h.mu)
	return h
}

func (h *handlerCtl) ServeHTTP(w bfe_http.ResponseWriter, r *bfe_http.Request) {
	hs := &hstream{sid: r.Header.Get("X-Sid"), method: r.Method, path: r.RequestURI, release: make(chan hAction, 1)}
	if r.State != nil {
		hs.serial = r.State.SerialNumber
	}
	h.mu.Lock()
	h.invoked = append(h.invoked, hs)
	if _, dup := h.bySID[hs.sid]; !dup {
		h.bySID[hs.sid] = hs
	}
	h.running++
	h.cond.Broadcast()
	h.mu.Unlock()
	defer func() {
		h.mu.Lock()
		hs.returned = true
		h.running--
		h.cond.Broadcast()
		h.mu.Unlock()
	}()
	var act hAction
	if h.auto != nil {
		act = *h.auto
	} else {
		for {
			select {
			case act = <-hs.release:
			case <-h.done:
				return
			}
			if !act.CloseBody {
				break
			}
			// the handler loses interest in the request body while it keeps running
			r.Body.Close()
			h.mu.Lock()
			hs.bodyClosed = true
			h.cond.Broadcast()
			h.mu.Unlock()
		}
	}
	if act.ReadBody {
		n, err := io.Copy(io.Discard, r.Body)
		h.mu.Lock()
		hs.bodyRead = int(n)
		if err != nil {
			hs.bodyErr = err.Error()
		}
		h.mu.Unlock()
	}
	if act.Status == 0 {
		act.Status = 200
	}
	w.Header().Set("X-Resp", "1")
	w.WriteHeader(act.Status)
	if act.Body > 0 {
		w.Write(make([]byte, act.Body))
	}
}

func (h *handlerCtl) waitFor(pred func() bool) bool {
	deadline := time.Now().Add(watchdog)
	t := time.AfterFunc(watchdog, func() { h.mu.Lock(); h.cond.Broadcast(); h.mu.Unlock() })
	defer t.Stop()
	h.mu.Lock()
	defer h.mu.Unlock()
	for !pred() {
		if !time.Now().Before(deadline) {
			return false
		}
		h.cond.Wait()
	}
	return true
}

func (h *handlerCtl) get(sid string) *hstream {
	h.mu.Lock()
	defer h.mu.Unlock()
	return h.bySID[sid]
}

func (h *handlerCtl) count(sid string) int {
	h.mu.Lock()
	defer h.mu.Unlock()
	n := 0
	for _, hs := range h.invoked {
		if hs.sid == sid {
			n++
		}
	}
	return n
}

// ---------------------------------------------------------------- rig

type rigOpts struct {
	MaxStreams uint32 // Server.MaxConcurrentStreams (0: bfe default 200)
	S2CCap     int    // server->client "socket buffer" in bytes
	Settings   []uint32
	Auto       *hAction
	Graceful   time.Duration // BaseConfig.GracefulShutdownTimeout
}

type rig struct {
	cli         *client
	cconn       *memConn
	sconn       *memConn
	sc          *bfe_http2.VerifH2bConn
	served      chan struct{}
	h           *handlerCtl
	panics0     int64
	logMark     int
	advMax      uint32 // SETTINGS_MAX_CONCURRENT_STREAMS as advertised to the client
	finished    bool
	closeNotify chan bool // BaseConfig.CloseNotifyCh: closing it starts bfe's graceful shutdown
}

// tbx is what the checks need from *testing.T / *rapid.T.
type tbx interface {
	Fatalf(format string, args ...any)
	Logf(format string, args ...any)
	Skipf(format string, args ...any)
}

var errRigTimeout = errors.New("rig: watchdog expired (inconclusive)")

func startRig(o rigOpts) (*rig, error) {
	if o.S2CCap <= 0 {
		o.S2CCap = 1 << 16
	}
	for len(connCh) > 0 {
		<-connCh
	}
	cc, sc := memPair(1<<21, o.S2CCap)
	r := &rig{cconn: cc, sconn: sc, served: make(chan struct{}), h: newHandlerCtl(), panics0: panicConnCount(), logMark: logCap.mark()}
	r.h.auto = o.Auto
	srv := &bfe_http2.Server{MaxConcurrentStreams: o.MaxStreams}
	r.closeNotify = make(chan bool)
	opts := &bfe_http2.ServeConnOpts{
		BaseConfig: &bfe_http.Server{ReadTimeout: 60 * time.Second, CloseNotifyCh: r.closeNotify, GracefulShutdownTimeout: o.Graceful},
		Handler:    r.h,
	}
	go func() {
		defer close(r.served)
		srv.ServeConn(sc, opts)
	}()
	select {
	case r.sc = <-connCh:
	case <-time.After(watchdog):
		r.finish()
		return nil, errRigTimeout
	}
	r.cli = newClient(cc)
	r.cli.write([]byte(clientPreface))
	r.cli.write(rawFrame(fSettings, 0, 0, settingsPayload(o.Settings...)))
	// wait for the server's SETTINGS and its ACK of ours, then ACK the server's
	gotSettings, gotAck := false, false
	ok := r.cli.waitFor(func() bool {
		for _, f := range r.cli.frames {
			if f.Typ == fSettings {
				if f.Ack {
					gotAck = true
				} else {
					gotSettings = true
				}
			}
		}
		return (gotSettings && gotAck) || r.cli.rerr != nil
	})
	if !ok {
		r.finish()
		return nil, errRigTimeout
	}
	if r.cli.rerr != nil {
		r.finish()
		return nil, fmt.Errorf("rig: connection ended during SETTINGS exchange: %v", r.cli.rerr)
	}
	r.advMax = 1<<32 - 1
	fs, _ := r.cli.snapshot()
	for _, f := range fs {
		if f.Typ == fSettings && !f.Ack {
			for _, s := range f.Settings {
				if s[0] == 0x3 {
					r.advMax = s[1]
				}
			}
		}
	}
	r.cli.write(rawFrame(fSettings, flAck, 0, nil))
	return r, nil
}

// finish closes the client end, releases all handlers and waits for ServeConn to return.
// ok=false means a watchdog expired.
func (r *rig) finish() (ok bool) {
	if r.finished {
		return true
	}
	r.finished = true
	r.cconn.Close()
	close(r.h.done)
	ok = true
	select {
	case <-r.served:
	case <-time.After(watchdog):
		ok = false
	}
	if r.cli != nil {
		select {
		case <-r.cli.done:
		case <-time.After(watchdog):
			ok = false
		}
	}
	if ok {
		ok = r.h.waitFor(func() bool { return r.h.running == 0 })
	}
	return ok
}

// panics returns the recovered serve-loop panics since the rig was started: counter delta
// and the logged messages.
func (r *rig) panics() (int64, []string) {
	var msgs []string
	for _, m := range logCap.since(r.logMark) {
		if strings.Contains(m, "panic serving") || strings.Contains(m, "internal error") {
			msgs = append(msgs, m)
		}
	}
	return panicConnCount() - r.panics0, msgs
}

// onLoop runs fn on the serve goroutine (false once the serve loop ended).
func (r *rig) onLoop(fn func()) bool { return bfe_http2.VerifH2bOnServeLoop(r.sc, fn) }

func truncate(s string, n int) string {
	if len(s) > n {
		return s[:n] + "..."
	}
	return s
}

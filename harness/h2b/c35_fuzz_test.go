package h2b

// FuzzC35: raw bytes sent after a valid client preface + SETTINGS exchange (thorough tier).
// Oracle inside the target: no recovered serve-loop/handler panic (H2PanicConn counter and
// captured log), ServeConn returns once the client half-closes, every frame the server
// sent is well-formed. Panics are reported under the same finding keys as TestC35.

import (
	"fmt"
	"os"
	"path/filepath"
	"strconv"
	"strings"
	"testing"
	"time"

	"verif/harness/internal/ev"
)

func c35Seeds() map[string][]byte {
	req := func(id uint32, es bool, method string) []byte {
		return headersFrames(id, hpackLiteral([][2]string{{":method", method}, {":scheme", "https"}, {":path", fmt.Sprintf("/s/%d", id)}, {":authority", "h2b.test"}, {"x-sid", fmt.Sprint(id)}}), es, nil, -1, 0)
	}
	cat := func(bs ...[]byte) []byte {
		var out []byte
		for _, b := range bs {
			out = append(out, b...)
		}
		return out
	}
	return map[string][]byte{
		"get":            req(1, true, "GET"),
		"post-data":      cat(req(1, false, "POST"), dataFrame(1, []byte("hello"), false, 3), dataFrame(1, nil, true, -1)),
		"post-trailers":  cat(req(1, false, "POST"), dataFrame(1, []byte("x"), false, -1), headersFrames(1, hpackLiteral([][2]string{{"x-trailer", "t"}}), true, nil, -1, 0)),
		"two-streams":    cat(req(1, true, "GET"), req(3, false, "POST"), rawFrame(fPriority, 0, 3, prio{Dep: 1, Weight: 9}.bytes()), rawFrame(fRST, 0, 3, u32(8)), rawFrame(fPing, 0, 0, make([]byte, 8))),
		"continuation":   headersFrames(1, hpackLiteral([][2]string{{":method", "GET"}, {":scheme", "https"}, {":path", "/c"}, {":authority", "a"}}), true, &prio{Dep: 0, Weight: 1}, 4, 7),
		"settings-wu":    cat(rawFrame(fSettings, 0, 0, settingsPayload(0x4, 70000, 0x5, 20000)), rawFrame(fWindowUpdate, 0, 0, u32(100)), req(1, false, "POST"), rawFrame(fWindowUpdate, 0, 1, u32(5))),
		"even-id":        req(2, true, "GET"),
		"data-idle":      dataFrame(5, []byte("zz"), true, -1),
		"rst-idle":       rawFrame(fRST, 0, 7, u32(0)),
		"data-after-es":  cat(req(1, false, "POST"), dataFrame(1, nil, true, -1), dataFrame(1, []byte("late"), false, -1)),
		"trailers-no-es": cat(req(1, false, "POST"), headersFrames(1, hpackLiteral([][2]string{{"x-trailer", "t"}}), false, nil, -1, 0)),
		"goaway-ping":    cat(rawFrame(fGoAway, 0, 0, append(u32(0), u32(0)...)), rawFrame(fPing, flAck, 0, make([]byte, 8)), rawFrame(fPushPromise, flEndHeaders, 1, append(u32(2), hpackLiteral([][2]string{{":method", "GET"}})...))),
	}
}

// TestC35GenCorpus writes the seed corpus files (development aid; H2B_GEN_CORPUS=<dir>).
func TestC35GenCorpus(t *testing.T) {
	dir := os.Getenv("H2B_GEN_CORPUS")
	if dir == "" {
		t.Skip("H2B_GEN_CORPUS not set")
	}
	os.MkdirAll(dir, 0o755)
	for name, b := range c35Seeds() {
		body := "go test fuzz v1\n[]byte(" + strconv.Quote(string(b)) + ")\n"
		if err := os.WriteFile(filepath.Join(dir, name), []byte(body), 0o644); err != nil {
			t.Fatal(err)
		}
	}
}

func FuzzC35(f *testing.F) {
	rec := ev.New("C35", "")
	for _, b := range c35Seeds() {
		f.Add(b)
	}
	f.Fuzz(func(t *testing.T, data []byte) {
		if len(data) > 1<<16 {
			t.Skip()
		}
		auto := &hAction{ReadBody: len(data)%2 == 0, Body: len(data) % 7}
		r, err := startRig(rigOpts{MaxStreams: uint32(len(data)%4) * 2, Auto: auto})
		if err != nil {
			t.Skipf("FuzzC35: %v", err)
		}
		defer r.finish()
		r.cli.write(data)
		// half-close: the server sees EOF after the last byte, processes everything and returns
		r.cconn.w.set(func() { r.cconn.w.wclosed = true })
		select {
		case <-r.served:
		case <-time.After(watchdog):
			t.Skipf("FuzzC35: ServeConn did not return within %v after EOF (inconclusive)", watchdog)
		}
		select {
		case <-r.cli.done:
		case <-time.After(watchdog):
			t.Skipf("FuzzC35: client reader did not finish")
		}
		fs, _ := r.cli.snapshot()
		w := map[string]any{"input_hex": fmt.Sprintf("%x", data), "server_frames_tail": lastFrames(fs, 12)}
		rec.Case(fmt.Sprintf("fuzz:%x", data), true, "fuzz")
		if !r.finish() {
			t.Skipf("FuzzC35: teardown watchdog")
		}
		if n, msgs := r.panics(); n != 0 || len(msgs) != 0 {
			site := "unknown"
			if len(msgs) > 0 {
				site = panicSite(msgs[0])
			}
			if rec.Fail(t, "panic/"+site, w, "FuzzC35: serve loop panicked (%d): %s", n, truncate(strings.Join(msgs, "\n"), 1500)) {
				return
			}
		}
		for i := range fs {
			if fs[i].Bad != "" {
				key := "bad-server-frame"
				if strings.Contains(fs[i].Bad, "dynamic table size update MUST occur at the beginning") {
					key += "/hpack-size-update-mid-block"
				}
				rec.Fail(t, key, w, "FuzzC35: server sent a malformed frame: %s (%v)", fs[i].Bad, fs[i])
				return
			}
		}
	})
}

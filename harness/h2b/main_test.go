package h2b

import (
	"testing"

	"verif/harness/internal/ev"
)

func TestMain(m *testing.M) {
	rigInit()
	ev.Main(m.Run)
}

package h2b

// C37: control-frame floods are bounded.
//
// A scripted client talks to a real ServeConn connection over an in-memory conn whose
// server->client direction is a bounded "socket buffer". After some normally-read warm-up
// traffic (and optionally earlier stall/drain phases) the client stops reading and sends a
// generated mix of frames that make the server queue control frames:
//   ping          PING (every ACK carries the PING's payload: cannot be coalesced)
//   hdr-malformed HEADERS on a new stream with a malformed header list -> RST_STREAM (8.1.2.6 MUST)
//   data-closed   DATA on a stream the client itself reset -> RST_STREAM(STREAM_CLOSED) (5.1 MUST)
//   settings      SETTINGS (ACKs are indistinguishable; a server may coalesce them, so they
//                 do not count towards the closure bound)
//
// Oracle (no bfe logic involved):
//   (A) the number of must-answer frames (ping / hdr-malformed / data-closed) the server
//       *accepted* (read off the connection) after the stall is at most
//       limit + 1 + slack, slack = (4096-byte write buffer + socket buffer) / 13 + 8:
//       responses that left the queue because they fit into the buffers (the smallest
//       response, RST_STREAM, is 13 bytes on the wire), the frame being written, the frame
//       being read. The flood is limit + slack + 2000 frames long, so a server that never
//       closes is caught with a margin of 2000 frames.
//   (B) the real length of the pending control-frame queue, read on the serve goroutine
//       every few frames, never exceeds limit + 1.
//   (C) no serve-loop panic.
// A watchdog expiry is inconclusive (skip).

import (
	"encoding/binary"
	"fmt"
	"os"
	"strings"
	"testing"
	"time"

	"github.com/bfenetworks/bfe/bfe_http2"
	"pgregory.net/rapid"

	"verif/harness/internal/ev"
)

type c37Seg struct {
	Kind  string `json:"kind"`
	Count int    `json:"count"`
	Arg   int    `json:"arg,omitempty"`
}

type c37Pattern struct {
	S2CCap    int      `json:"s2c_buffer"`
	WarmPings int      `json:"warm_pings"`
	WarmReqs  int      `json:"warm_requests"`
	PrePhases []int    `json:"pre_phases"` // stalled ping bursts that are drained afterwards
	Stalled   bool     `json:"stalled"`
	Download  string   `json:"download,omitempty"` // "", "big" (2 MiB response, split per max frame size), "drip" (window 1, one-byte WINDOW_UPDATEs)
	GoAway    string   `json:"goaway,omitempty"`   // "", "graceful" (server shutting down, GOAWAY(NO_ERROR)), "error" (provoked connection error)
	Segs      []c37Seg `json:"segments"`           // relative weights; scaled to the flood size
	Probe     int      `json:"probe_every"`
}

func (p c37Pattern) enc() string {
	var sb strings.Builder
	fmt.Fprintf(&sb, "%d/%d/%d/%v/%v/%d/%s/", p.S2CCap, p.WarmPings, p.WarmReqs, p.PrePhases, p.Stalled, p.Probe, p.GoAway+"/"+p.Download)
	for _, s := range p.Segs {
		fmt.Fprintf(&sb, "%s:%d:%d,", s.Kind, s.Count, s.Arg)
	}
	return sb.String()
}

var c37Kinds = []string{"ping", "hdr-malformed", "data-closed", "settings"}

// c37Mandatory: must the server answer this frame with a control frame of its own? After a
// graceful GOAWAY only PING stays must-answer (requests on new streams and their DATA may
// be discarded, 6.8); after an error GOAWAY nothing is (only the queue bound applies).
func c37Mandatory(kind, goaway string) bool {
	switch goaway {
	case "graceful":
		return kind == "ping"
	case "error":
		return false
	}
	return kind != "settings"
}

func c37Gen(rt *rapid.T) c37Pattern {
	p := c37Pattern{}
	p.S2CCap = rapid.SampledFrom([]int{1, 13, 17, 512, 4096, 65536}).Draw(rt, "s2c")
	p.WarmPings = rapid.IntRange(0, 4).Draw(rt, "warmPings")
	p.WarmReqs = rapid.IntRange(0, 3).Draw(rt, "warmReqs")
	np := rapid.SampledFrom([]int{0, 0, 1, 2}).Draw(rt, "prePhases")
	for i := 0; i < np; i++ {
		p.PrePhases = append(p.PrePhases, rapid.SampledFrom([]int{1, 50, 3000, 9000}).Draw(rt, fmt.Sprintf("pre%d", i)))
	}
	p.Stalled = rapid.IntRange(0, 7).Draw(rt, "stalled") != 0
	p.Download = rapid.SampledFrom([]string{"", "", "", "", "big", "drip", "drip"}).Draw(rt, "download")
	// downloads through a tiny socket buffer mean one goroutine hand-off per byte: only cost, no
	// additional behaviour of the write scheduler
	if p.Download == "big" && p.S2CCap < 65536 {
		p.Download = "drip"
	}
	if p.Download == "drip" && p.S2CCap < 4096 {
		p.Download = ""
	}
	p.GoAway = rapid.SampledFrom([]string{"", "", "", "", "graceful", "graceful", "error"}).Draw(rt, "goaway")
	shape := rapid.IntRange(0, 5).Draw(rt, "shape")
	switch {
	case !p.Stalled:
		p.Segs = []c37Seg{{Kind: "ping", Count: 1}}
	case shape <= 3: // pure flood of one kind
		p.Segs = []c37Seg{{Kind: c37Kinds[shape], Count: 1}}
	default: // mix
		n := rapid.IntRange(2, 6).Draw(rt, "nsegs")
		for i := 0; i < n; i++ {
			p.Segs = append(p.Segs, c37Seg{Kind: rapid.SampledFrom(c37Kinds).Draw(rt, fmt.Sprintf("k%d", i)), Count: rapid.IntRange(1, 8).Draw(rt, fmt.Sprintf("c%d", i))})
		}
	}
	for i := range p.Segs {
		switch p.Segs[i].Kind {
		case "hdr-malformed":
			p.Segs[i].Arg = rapid.IntRange(0, 3).Draw(rt, fmt.Sprintf("a%d", i))
		case "data-closed":
			p.Segs[i].Arg = rapid.SampledFrom([]int{0, 1, 4}).Draw(rt, fmt.Sprintf("a%d", i))
		case "settings":
			p.Segs[i].Arg = rapid.IntRange(0, 1).Draw(rt, fmt.Sprintf("a%d", i))
		}
	}
	p.Probe = rapid.SampledFrom([]int{53, 97, 499}).Draw(rt, "probe")
	return p
}

var c37Malformed = [][][2]string{
	{{":method", "GET"}, {":scheme", "https"}, {"x-a", "b"}, {":path", "/late-pseudo"}}, // pseudo after regular
	{{":method", "GET"}, {":method", "GET"}, {":scheme", "https"}, {":path", "/dup"}},   // duplicate pseudo
	{{":method", "GET"}, {":scheme", "https"}, {":path", "/x"}, {":bogus", "1"}},        // unknown pseudo
	{{":method", "GET"}, {":scheme", "https"}, {":path", "/x"}, {"Upper-Case", "1"}},    // uppercase field name
}

type c37Frame struct {
	kind string
	end  int64 // cumulative end offset in the flood byte stream
}

func c37Run(rt tbx, rec *ev.Rec, p c37Pattern) {
	switch os.Getenv("H2B_C37_DOWNLOAD") { // development aid (timing comparison, one variant alone)
	case "none":
		p.Download = ""
	case "drip":
		if p.Download == "big" {
			p.Download = "drip"
		}
	}

	classes := map[string]bool{}
	nt := p.Stalled
	kindsIn := map[string]bool{}
	for _, s := range p.Segs {
		kindsIn[s.Kind] = true
	}
	for k := range kindsIn {
		classes["flood:"+k] = true
	}
	if len(kindsIn) > 1 {
		classes["flood:mixed"] = true
	}
	classes[fmt.Sprintf("s2c-buffer:%d", p.S2CCap)] = true
	classes[fmt.Sprintf("pre-phases:%d", len(p.PrePhases))] = true
	if p.Stalled {
		classes["stalled"] = true
	} else {
		classes["control:reading-client"] = true
	}
	if p.WarmReqs > 0 {
		classes["warm-requests"] = true
	}
	if p.GoAway != "" {
		classes["goaway-before-flood:"+p.GoAway] = true
	}
	if p.Download != "" {
		classes["download-before-flood:"+p.Download] = true
	}
	done := func() { rec.Case(p.enc(), nt, keys(classes)...) }
	fail := func(key string, w map[string]any, format string, args ...any) {
		done()
		w["pattern"] = p
		rec.Fail(rt, key, w, format, args...)
	}

	// bfe's GracefulShutdownTimeout is configurable up to 300 s; the flood takes well under a second
	r, err := startRig(rigOpts{S2CCap: p.S2CCap, Graceful: 120 * time.Second})
	if err != nil {
		rt.Skipf("C37: %v", err)
	}
	defer r.finish()
	s2c, c2s := r.cconn.r, r.cconn.w
	var limit int
	if !r.onLoop(func() { limit = bfe_http2.VerifH2bMaxQueued(r.sc) }) {
		fail("conn-ended-early", map[string]any{}, "serve loop ended right after the SETTINGS exchange")
		return
	}
	if limit <= 0 || limit > 50000 {
		rt.Skipf("C37: configured limit %d outside the range this check can flood", limit)
	}
	expectAlive := func(what string) bool {
		if b := r.cli.barrier(); b != bAcked {
			if b == bTimeout {
				rt.Skipf("C37: watchdog during %s", what)
			}
			fs, rerr := r.cli.snapshot()
			fail("conn-ended-early", map[string]any{"phase": what}, "connection ended (%v, %v) during %s, before any flood; last frames %v", b, rerr, what, lastFrames(fs, 4))
			return false
		}
		return true
	}
	// ---- warm-up, read normally
	nextID := uint32(1)
	for i := 0; i < p.WarmPings; i++ {
		if !expectAlive("warm-up ping") {
			return
		}
	}
	for i := 0; i < p.WarmReqs; i++ {
		id := nextID
		nextID += 2
		r.cli.write(headersFrames(id, hpackLiteral([][2]string{{":method", "GET"}, {":scheme", "https"}, {":path", "/warm"}, {":authority", "h2b.test"}, {"x-sid", fmt.Sprint(id)}}), true, nil, -1, 0))
		sid := fmt.Sprint(id)
		if !r.h.waitFor(func() bool { return r.h.bySID[sid] != nil }) {
			rt.Skipf("C37: watchdog waiting for warm-up handler")
		}
		r.h.get(sid).release <- hAction{Body: 10}
		if !r.cli.waitFor(func() bool {
			for _, f := range r.cli.frames {
				if f.SID == id && f.EndStream {
					return true
				}
			}
			return r.cli.rerr != nil
		}) {
			rt.Skipf("C37: watchdog waiting for warm-up response")
		}
		if !expectAlive("warm-up request") {
			return
		}
	}
	// ---- a flow-controlled download, read completely: the response DATA has to be split by
	// the server's write scheduler (per max frame size, or per one-byte window increments)
	if p.Download != "" {
		id := nextID
		nextID += 2
		body := 2 << 20 // 128 frames of 16 KiB
		// SETTINGS_INITIAL_WINDOW_SIZE for the download only (restored afterwards)
		if p.Download == "big" {
			r.cli.write(rawFrame(fSettings, 0, 0, settingsPayload(0x4, 1<<30)))
			r.cli.write(rawFrame(fWindowUpdate, 0, 0, u32(1<<30-65535)))
		} else {
			r.cli.write(rawFrame(fSettings, 0, 0, settingsPayload(0x4, 1)))
			body = 120
		}
		r.cli.write(headersFrames(id, hpackLiteral([][2]string{{":method", "GET"}, {":scheme", "https"}, {":path", "/download"}, {":authority", "h2b.test"}, {"x-sid", fmt.Sprint(id)}}), true, nil, -1, 0))
		sid := fmt.Sprint(id)
		if !r.h.waitFor(func() bool { return r.h.bySID[sid] != nil }) {
			rt.Skipf("C37: watchdog waiting for download handler")
		}
		r.h.get(sid).release <- hAction{Body: body}
		scanned, got, granted, ended := 0, 0, 0, false
		for !ended {
			// drip: one more octet of stream window whenever everything granted so far has arrived
			if p.Download == "drip" && got > granted {
				granted = got
				r.cli.write(rawFrame(fWindowUpdate, 0, id, u32(1)))
			}
			stop := false
			if !r.cli.waitFor(func() bool {
				for ; scanned < len(r.cli.frames); scanned++ {
					if f := &r.cli.frames[scanned]; f.SID == id && f.Typ == fData {
						got += f.Len
						if f.EndStream {
							ended = true
						}
					}
				}
				stop = r.cli.rerr != nil || r.cli.errGoAwayLocked() != nil
				return ended || stop || (p.Download == "drip" && got > granted)
			}) {
				rt.Skipf("C37: watchdog waiting for the download")
			}
			if stop {
				break
			}
		}
		r.cli.write(rawFrame(fSettings, 0, 0, settingsPayload(0x4, 65535)))
		if !expectAlive("download (" + p.Download + ")") {
			return
		}
		rec.Add("download_bytes", int64(got))
	}
	// a stream closed by the client's own RST_STREAM, target of the data-closed kind
	closedID := nextID
	nextID += 2
	if kindsIn["data-closed"] {
		r.cli.write(headersFrames(closedID, hpackLiteral([][2]string{{":method", "POST"}, {":scheme", "https"}, {":path", "/reset-me"}, {":authority", "h2b.test"}, {"x-sid", fmt.Sprint(closedID)}}), false, nil, -1, 0))
		r.cli.write(rawFrame(fRST, 0, closedID, u32(0x8)))
		if !expectAlive("reset-stream setup") {
			return
		}
	}
	// ---- earlier stall/drain phases: k unread PINGs (k < limit), then the client catches up
	for pi, k := range p.PrePhases {
		if k >= limit {
			k = limit - 1
		}
		s2c.set(func() { s2c.paused = true })
		base := uint64(0xC37A000000000000) | uint64(pi)<<32
		for i := 0; i < k; i++ {
			b := make([]byte, 8)
			binary.BigEndian.PutUint64(b, base|uint64(i))
			r.cli.write(rawFrame(fPing, 0, 0, b))
		}
		s2c.set(func() { s2c.paused = false })
		lastSeq := base | uint64(k-1)
		okw := r.cli.waitFor(func() bool {
			for i := len(r.cli.frames) - 1; i >= 0; i-- {
				if f := &r.cli.frames[i]; f.Typ == fPing && f.Ack && f.Ping == lastSeq {
					return true
				}
			}
			return r.cli.rerr != nil || r.cli.errGoAwayLocked() != nil
		})
		if !okw {
			rt.Skipf("C37: watchdog draining pre-phase")
		}
		if !expectAlive(fmt.Sprintf("pre-phase %d (%d unread PINGs, below the limit, then drained)", pi, k)) {
			return
		}
	}

	// ---- optionally the connection is already in GOAWAY when the flood starts
	switch p.GoAway {
	case "graceful":
		close(r.closeNotify) // what bfe_server does on graceful restart / reload
		if !r.cli.waitFor(func() bool { return r.cli.goAwayLocked() != nil || r.cli.rerr != nil }) {
			rt.Skipf("C37: watchdog waiting for the graceful GOAWAY")
		}
		if b := r.cli.barrier(); b != bAcked {
			if b == bTimeout {
				rt.Skipf("C37: watchdog after graceful GOAWAY")
			}
			// the server preferred to hang up right after its GOAWAY: nothing left to flood
			classes["graceful:closed-at-once"] = true
			done()
			return
		}
	case "error":
		r.cli.write(headersFrames(nextID+1, hpackLiteral([][2]string{{":method", "GET"}, {":scheme", "https"}, {":path", "/even"}, {":authority", "h2b.test"}}), true, nil, -1, 0))
		if !r.cli.waitFor(func() bool { return r.cli.goAwayLocked() != nil || r.cli.rerr != nil }) {
			rt.Skipf("C37: watchdog waiting for the provoked GOAWAY")
		}
	}

	// ---- the flood
	const writeBuf = 4096 // bfe_http2's bufio.Writer size (http2.go bufWriterPool)
	slack := (writeBuf+p.S2CCap)/13 + 8
	total := limit + slack + 2000
	if !p.Stalled {
		total = limit + limit/5
	}
	wsum := 0
	for _, s := range p.Segs {
		wsum += s.Count
	}
	var buf []byte
	var frames []c37Frame
	mandatoryTotal := 0
	pingSeq := uint64(0xC37F000000000000)
	// segments repeat round-robin in blocks proportional to their weights until total frames exist
	blockUnit := 1
	if len(p.Segs) == 1 {
		blockUnit = total
	} else {
		blockUnit = rapidBlock(total, wsum)
	}
	winVal := uint32(65535)
	for len(frames) < total {
		for _, s := range p.Segs {
			for j := 0; j < s.Count*blockUnit && len(frames) < total; j++ {
				var fb []byte
				switch s.Kind {
				case "ping":
					pingSeq++
					b := make([]byte, 8)
					binary.BigEndian.PutUint64(b, pingSeq)
					fb = rawFrame(fPing, 0, 0, b)
				case "hdr-malformed":
					fb = headersFrames(nextID, hpackLiteral(c37Malformed[s.Arg%len(c37Malformed)]), true, nil, -1, 0)
					nextID += 2
				case "data-closed":
					fb = dataFrame(closedID, make([]byte, s.Arg), false, -1)
				case "settings":
					if s.Arg == 0 {
						fb = rawFrame(fSettings, 0, 0, nil)
					} else {
						winVal = 65535 + (winVal+1)%1000
						fb = rawFrame(fSettings, 0, 0, settingsPayload(0x4, winVal))
					}
				}
				buf = append(buf, fb...)
				frames = append(frames, c37Frame{kind: s.Kind, end: int64(len(buf))})
				if c37Mandatory(s.Kind, p.GoAway) {
					mandatoryTotal++
				}
			}
		}
	}
	if p.Stalled {
		s2c.set(func() { s2c.paused = true })
	}
	var base int64
	c2s.set(func() { base = c2s.written })
	maxZero, maxCounter, probes := 0, 0, 0
	serverClosed := false
	probe := func() bool {
		var cnt, zl int
		if os.Getenv("H2B_C37_NO_SHIM") != "" { // development aid: exercise the black-box oracle alone
			return true
		}
		if !r.onLoop(func() { cnt, zl = bfe_http2.VerifH2bQueued(r.sc) }) {
			return false
		}
		probes++
		if zl > maxZero {
			maxZero = zl
		}
		if cnt > maxCounter {
			maxCounter = cnt
		}
		return true
	}
	waitConsumed := func(target int64) bool {
		if !c2s.waitFor(func() bool { return c2s.consumed-base >= target || c2s.rclosed }, watchdog) {
			rt.Skipf("C37: watchdog waiting for the server to read the flood")
		}
		closed := false
		c2s.set(func() { closed = c2s.rclosed })
		return !closed
	}
	sent := 0
	for sent < len(frames) && !serverClosed {
		step := p.Probe
		if maxZero >= limit-1200 {
			// close to the limit the queue is probed every 16 frames (<= 32 queued frames apart), so
			// that overshooting the limit by a few dozen frames cannot slip between two probes
			step = 16
		}
		hi := sent + step
		if hi > len(frames) {
			hi = len(frames)
		}
		lo := int64(0)
		if sent > 0 {
			lo = frames[sent-1].end
		}
		if r.cli.write(buf[lo:frames[hi-1].end]) != nil {
			serverClosed = true
			break
		}
		sent = hi
		if !waitConsumed(frames[hi-1].end) {
			serverClosed = true
			break
		}
		if !probe() {
			serverClosed = true
		}
		if maxZero > limit+1 {
			break
		}
	}
	// how many whole frames did the server read?
	var consumed int64
	c2s.set(func() { consumed = c2s.consumed - base })
	accepted, acceptedMandatory := 0, 0
	for _, f := range frames {
		if f.end > consumed {
			break
		}
		accepted++
		if c37Mandatory(f.kind, p.GoAway) {
			acceptedMandatory++
		}
	}
	select {
	case <-bfe_http2.VerifH2bDone(r.sc):
		serverClosed = true
	default:
	}
	rec.Add("frames_flooded", int64(sent))
	rec.Add("probes", int64(probes))
	w := map[string]any{"limit": limit, "slack": slack, "flood_frames": len(frames), "must_answer_frames": mandatoryTotal, "sent": sent,
		"accepted": accepted, "accepted_must_answer": acceptedMandatory, "server_closed": serverClosed, "max_queue_len": maxZero, "max_counter": maxCounter}
	dom := "mixed"
	if len(kindsIn) == 1 {
		dom = p.Segs[0].Kind
	}
	if p.GoAway != "" {
		dom += "/after-" + p.GoAway + "-goaway"
	}
	if p.Download != "" {
		dom += "/after-" + p.Download + "-download"
	}
	if serverClosed {
		classes["outcome:closed"] = true
	} else {
		classes["outcome:open"] = true
	}
	if maxZero > limit+1 {
		fail("queue-over-limit/"+dom, w, "pending control-frame queue reached %d frames (limit %d) while the client was not reading", maxZero, limit)
		return
	}
	if p.Stalled && acceptedMandatory > limit+1+slack {
		fail("flood-not-closed/"+dom, w, "server accepted %d must-answer control-eliciting frames after the client stopped reading (limit %d + slack %d); closed=%v, observed queue length max %d, counter max %d",
			acceptedMandatory, limit, slack, serverClosed, maxZero, maxCounter)
		return
	}
	if p.Stalled && mandatoryTotal > limit+1+slack {
		// the flood was long enough to require closure
		classes["closure-required"] = true
		if !serverClosed {
			// cannot happen without tripping the bound above, kept as a guard
			fail("flood-not-closed/"+dom, w, "flood of %d must-answer frames fully accepted and connection still open", mandatoryTotal)
			return
		}
	}
	rec.Sample(map[string]any{"pattern": p, "result": w})
	done()
	if !r.finish() {
		rt.Skipf("C37: teardown watchdog")
	}
	if n, msgs := r.panics(); n != 0 || len(msgs) != 0 {
		site := "unknown"
		if len(msgs) > 0 {
			site = panicSite(msgs[0])
		}
		w["pattern"] = p
		rec.Fail(rt, "panic/"+site, w, "serve loop panicked (%d): %s", n, truncate(strings.Join(msgs, "\n"), 1500))
	}
}

// rapidBlock picks the block size so that a mix cycles through its segments a few dozen
// times over the flood.
func rapidBlock(total, wsum int) int {
	b := total / (wsum * 40)
	if b < 1 {
		b = 1
	}
	return b
}

func TestC37(t *testing.T) {
	rec := ev.New("C37", "flood patterns: socket buffer size, warm-up traffic, earlier stall/drain phases, then the client stops reading and sends limit+slack+2000 frames: pure PING / malformed-HEADERS (RST_STREAM) / DATA-on-reset-stream (RST_STREAM[+WINDOW_UPDATE]) / SETTINGS floods and weighted mixes. non-trivial: the client is stalled before the flood (the reading-client control pattern is trivial); distinct by pattern")
	// deterministic patterns first: one pure flood per kind with the smallest and a large socket buffer
	kinds := c37Kinds
	if sh := os.Getenv("VERIF_SHARD"); sh != "" && sh != "0" { // deterministic patterns: one shard runs them
		kinds = nil
	}
	for _, k := range kinds {
		for _, capb := range []int{1, 65536} {
			if ev.Tier() == "quick" && capb != 1 && k != "ping" {
				continue
			}
			p := c37Pattern{S2CCap: capb, WarmPings: 1, Stalled: true, Segs: []c37Seg{{Kind: k, Count: 1, Arg: 1}}, Probe: 97}
			c37Run(t, rec, p)
		}
	}
	if kinds != nil {
		c37Run(t, rec, c37Pattern{S2CCap: 65536, WarmPings: 1, Stalled: true, Download: "big", Segs: []c37Seg{{Kind: "ping", Count: 1}}, Probe: 97})
		c37Run(t, rec, c37Pattern{S2CCap: 4096, WarmPings: 1, Stalled: true, Download: "drip", Segs: []c37Seg{{Kind: "ping", Count: 1}}, Probe: 53})
		for _, ga := range []string{"graceful", "error"} {
			if os.Getenv("H2B_C37_ONLY_ERROR_GOAWAY") != "" && ga != "error" { // development aid
				continue
			}
			c37Run(t, rec, c37Pattern{S2CCap: 1, WarmPings: 1, Stalled: true, GoAway: ga, Segs: []c37Seg{{Kind: "ping", Count: 1}}, Probe: 97})
		}
	}
	rapid.Check(t, func(rt *rapid.T) {
		p := c37Gen(rt)
		if os.Getenv("H2B_C37_ONLY_ERROR_GOAWAY") != "" && p.GoAway == "graceful" {
			p.GoAway = "error"
		}
		c37Run(rt, rec, p)
	})
}

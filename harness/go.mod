module verif/harness

go 1.23

require (
	github.com/bfenetworks/bfe v0.0.0
	pgregory.net/rapid v1.3.0
)

require (
	github.com/baidu/go-lib v0.0.0-20200819072111-21df249f5e6a // indirect
	github.com/tjfoc/gmsm v1.3.2 // indirect
	golang.org/x/crypto v0.0.0-20200622213623-75b288015ac9 // indirect
	golang.org/x/sys v0.0.0-20210119212857-b64e53b001e4 // indirect
)

replace github.com/bfenetworks/bfe => /repo

package modsb

import (
	"testing"

	_ "pgregory.net/rapid"

	"verif/harness/internal/ev"
)

func TestMain(m *testing.M) { ev.Main(m.Run) }

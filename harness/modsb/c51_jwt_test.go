package modsb

import (
	"crypto"
	"crypto/ecdsa"
	"crypto/elliptic"
	"crypto/hmac"
	"crypto/rand"
	"crypto/rsa"
	"crypto/sha256"
	"crypto/sha512"
	"crypto/x509"
	"encoding/base64"
	"encoding/json"
	"encoding/pem"
	"fmt"
	"hash"
	"math/big"
	"strconv"
	"strings"
	"time"

	"pgregory.net/rapid"

	"verif/harness/internal/ev"
)

// ---- keys -----------------------------------------------------------------

type c51Key struct {
	ID  string
	Kty string // "oct" | "RSA" | "EC"
	Oct []byte
	RSA *rsa.PrivateKey
	EC  *ecdsa.PrivateKey
	Crv string
}

type c51Keys struct {
	All []*c51Key
}

func b64u(b []byte) string { return base64.RawURLEncoding.EncodeToString(b) }

// c51MakeKeys: key material is fresh per process (crypto/rand); no verdict depends on
// its value, only on which key signed which token.
func c51MakeKeys() (*c51Keys, error) {
	ks := &c51Keys{}
	for i, s := range []string{"jwt_example", "another-shared-secret-0123456789", "k"} {
		ks.All = append(ks.All, &c51Key{ID: fmt.Sprintf("oct%d", i), Kty: "oct", Oct: []byte(s)})
	}
	for i := 0; i < 2; i++ {
		k, err := rsa.GenerateKey(rand.Reader, 2048)
		if err != nil {
			return nil, err
		}
		ks.All = append(ks.All, &c51Key{ID: fmt.Sprintf("rsa%d", i), Kty: "RSA", RSA: k})
	}
	for i, c := range []elliptic.Curve{elliptic.P256(), elliptic.P256(), elliptic.P384(), elliptic.P521()} {
		k, err := ecdsa.GenerateKey(c, rand.Reader)
		if err != nil {
			return nil, err
		}
		ks.All = append(ks.All, &c51Key{ID: fmt.Sprintf("ec%d", i), Kty: "EC", EC: k, Crv: c.Params().Name})
	}
	return ks, nil
}

func (k *c51Key) jwk(alg string, withKid bool) map[string]any {
	m := map[string]any{"kty": k.Kty}
	switch k.Kty {
	case "oct":
		m["k"] = b64u(k.Oct)
	case "RSA":
		m["n"] = b64u(k.RSA.N.Bytes())
		m["e"] = b64u(big.NewInt(int64(k.RSA.E)).Bytes())
	case "EC":
		sz := (k.EC.Curve.Params().BitSize + 7) / 8
		m["crv"] = k.Crv
		m["x"] = b64u(k.EC.X.FillBytes(make([]byte, sz)))
		m["y"] = b64u(k.EC.Y.FillBytes(make([]byte, sz)))
	}
	if alg != "" {
		m["alg"] = alg
	}
	if withKid {
		m["kid"] = k.ID
	}
	return m
}

func c51Family(kty string, crv string) []string {
	switch kty {
	case "oct":
		return []string{"HS256", "HS384", "HS512"}
	case "RSA":
		return []string{"RS256", "RS384", "RS512", "PS256", "PS384", "PS512"}
	}
	switch crv {
	case "P-256":
		return []string{"ES256"}
	case "P-384":
		return []string{"ES384"}
	}
	return []string{"ES512"}
}

func c51Hasher(alg string) (crypto.Hash, func() hash.Hash) {
	switch alg[2:] {
	case "256":
		return crypto.SHA256, sha256.New
	case "384":
		return crypto.SHA384, sha512.New384
	}
	return crypto.SHA512, sha512.New
}

// c51Sign: JWS compact signature over signingInput with alg, hand-rolled on std crypto.
// For "HS*" the secret is `secret` (k.Oct normally).
func c51Sign(alg string, k *c51Key, secret []byte, signingInput string) ([]byte, error) {
	ch, nh := c51Hasher(alg)
	h := nh()
	h.Write([]byte(signingInput))
	digest := h.Sum(nil)
	switch alg[:2] {
	case "HS":
		m := hmac.New(nh, secret)
		m.Write([]byte(signingInput))
		return m.Sum(nil), nil
	case "RS":
		return rsa.SignPKCS1v15(rand.Reader, k.RSA, ch, digest)
	case "PS":
		return rsa.SignPSS(rand.Reader, k.RSA, ch, digest, &rsa.PSSOptions{SaltLength: rsa.PSSSaltLengthEqualsHash})
	case "ES":
		r, s, err := ecdsa.Sign(rand.Reader, k.EC, digest)
		if err != nil {
			return nil, err
		}
		sz := map[string]int{"ES256": 32, "ES384": 48, "ES512": 66}[alg]
		out := make([]byte, 2*sz)
		if len(r.Bytes()) > sz || len(s.Bytes()) > sz {
			return nil, fmt.Errorf("curve larger than the algorithm's field")
		}
		r.FillBytes(out[:sz])
		s.FillBytes(out[sz:])
		return out, nil
	}
	return nil, fmt.Errorf("alg %s", alg)
}

type c51JWK struct {
	Key *c51Key
	Alg string // "" = no alg member
	Kid bool
}

func c51LoadJWT(w *c51World, rules []map[string]any, keyfiles [][]c51JWK) (string, string, error) {
	w.n++
	var kfTxt []string
	for i, kf := range keyfiles {
		var arr []map[string]any
		for _, j := range kf {
			arr = append(arr, j.Key.jwk(j.Alg, j.Kid))
		}
		bs, _ := json.Marshal(arr)
		p, err := w.writeGen(fmt.Sprintf("jwk_%d_%d", w.n%4, i), bs)
		if err != nil {
			return "", "", err
		}
		rules[i]["KeyFile"] = p
		kfTxt = append(kfTxt, string(bs))
	}
	cfg := map[string]any{"Version": fmt.Sprint(w.n), "Config": map[string]any{"pjwt": rules}}
	bs, _ := json.Marshal(cfg)
	p, err := w.writeGen(fmt.Sprintf("auth_jwt_rule_%d.data", w.n%4), bs)
	if err != nil {
		return string(bs), "", err
	}
	return string(bs), strings.Join(kfTxt, "\n"), w.rig.ReloadModule("mod_auth_jwt", p)
}

func c51GenKeySet(rt *rapid.T, keys *c51Keys, label string) []c51JWK {
	n := rapid.IntRange(1, 3).Draw(rt, label+"-nkeys")
	var out []c51JWK
	used := map[string]bool{}
	for i := 0; i < n; i++ {
		k := keys.All[rapid.IntRange(0, len(keys.All)-1).Draw(rt, label+"-key")]
		if used[k.ID] {
			continue
		}
		used[k.ID] = true
		j := c51JWK{Key: k, Kid: rapid.Bool().Draw(rt, label+"-kid")}
		if rapid.IntRange(0, 2).Draw(rt, label+"-has-alg") != 0 {
			fam := c51Family(k.Kty, k.Crv)
			j.Alg = fam[rapid.IntRange(0, len(fam)-1).Draw(rt, label+"-alg")]
		}
		out = append(out, j)
	}
	return out
}

func c51JWT(rt *rapid.T, rec *ev.Rec, w *c51World, keys *c51Keys) {
	two := rapid.IntRange(0, 2).Draw(rt, "two-rules") == 0
	var rules []map[string]any
	var sets [][]c51JWK
	var realms []string
	if two {
		realm := rapid.SampledFrom([]string{"api", ""}).Draw(rt, "realm0")
		r := map[string]any{"Cond": `req_path_prefix_in("/api/", false)`}
		if realm != "" {
			r["Realm"] = realm
		}
		rules = append(rules, r)
		realms = append(realms, realm)
		sets = append(sets, c51GenKeySet(rt, keys, "s0"))
	}
	realm := rapid.SampledFrom([]string{"", "Restricted area", "jwt"}).Draw(rt, "realm1")
	r := map[string]any{"Cond": "default_t()"}
	if realm != "" {
		r["Realm"] = realm
	}
	rules = append(rules, r)
	realms = append(realms, realm)
	sets = append(sets, c51GenKeySet(rt, keys, "s1"))
	ruleJSON, keyTxt, err := c51LoadJWT(w, rules, sets)
	if err != nil {
		rt.Fatalf("harness: mod_auth_jwt refused generated config %s keys %s: %v", ruleJSON, keyTxt, err)
	}
	nreq := rapid.IntRange(1, 5).Draw(rt, "nreq")
	for q := 0; q < nreq; q++ {
		ri := len(rules) - 1
		path := "/x"
		if two && rapid.Bool().Draw(rt, "api-path") {
			ri, path = 0, "/api/x"
		}
		set := sets[ri]
		jk := set[rapid.IntRange(0, len(set)-1).Draw(rt, "signing-jwk")]
		k := jk.Key
		fam := c51Family(k.Kty, k.Crv)
		alg := jk.Alg
		if alg == "" {
			alg = fam[rapid.IntRange(0, len(fam)-1).Draw(rt, "alg-free")]
		}
		now := time.Now().Unix()
		claims := map[string]any{"sub": "user-1"}
		valid, near, mut := true, true, "none"
		signKey := k
		secret := k.Oct
		headerAlg := alg
		judge := true
		// time claims (valid side by default)
		if rapid.Bool().Draw(rt, "has-exp") {
			claims["exp"] = now + 3600
		}
		if rapid.Bool().Draw(rt, "has-nbf") {
			claims["nbf"] = now - 3600
		}
		if rapid.Bool().Draw(rt, "has-iat") {
			claims["iat"] = now - 3600
		}
		shape := ""
		authPrefix := "Bearer "
		hasHeader := true
		tamper := ""
		switch rapid.IntRange(0, 19).Draw(rt, "mutation") {
		case 0, 1, 2, 3:
		case 4:
			// another algorithm of the same family, same (right) key
			var others []string
			for _, a := range fam {
				if a != alg {
					others = append(others, a)
				}
			}
			if k.Kty == "EC" {
				// a curve has exactly one JWS algorithm; use a bigger hash with the same key
				others = nil
				for _, a := range []string{"ES256", "ES384", "ES512"} {
					if a != alg && map[string]int{"ES256": 32, "ES384": 48, "ES512": 66}[a] >= (k.EC.Curve.Params().BitSize+7)/8 {
						others = append(others, a)
					}
				}
			}
			if len(others) > 0 {
				headerAlg = others[rapid.IntRange(0, len(others)-1).Draw(rt, "other-alg")]
				mut = "alg-of-same-family"
				if jk.Alg != "" {
					valid = false
				} else if k.Kty == "EC" {
					// key without "alg": RFC 7518 ties the curve to one algorithm, but the statement
					// only speaks of "that key's algorithm": no judgement
					judge = false
					mut = "ec-other-hash-no-alg-member"
				}
			}
		case 5:
			// signed by a key that is not configured for this rule (same type)
			for _, o := range keys.All {
				inSet := false
				for _, j := range set {
					if j.Key.ID == o.ID {
						inSet = true
					}
				}
				if !inSet && o.Kty == k.Kty && (k.Kty != "EC" || o.Crv == k.Crv) {
					signKey, secret, mut, valid = o, o.Oct, "unconfigured-key", false
					break
				}
			}
		case 6:
			mut, valid, headerAlg = "alg-none", false, rapid.SampledFrom([]string{"none", "None", "NONE", "nOnE"}).Draw(rt, "none-case")
		case 7:
			// HMAC keyed with the configured RSA/EC public key
			if k.Kty != "oct" {
				var pub any
				if k.Kty == "RSA" {
					pub = &k.RSA.PublicKey
				} else {
					pub = &k.EC.PublicKey
				}
				der, _ := x509.MarshalPKIXPublicKey(pub)
				switch rapid.IntRange(0, 2).Draw(rt, "pub-as-secret") {
				case 0:
					secret = der
				case 1:
					secret = pem.EncodeToMemory(&pem.Block{Type: "PUBLIC KEY", Bytes: der})
				default:
					if k.Kty == "RSA" {
						secret = k.RSA.N.Bytes()
					} else {
						secret = k.EC.X.Bytes()
					}
				}
				headerAlg = rapid.SampledFrom([]string{"HS256", "HS384", "HS512"}).Draw(rt, "hs-alg")
				mut, valid = "hmac-with-public-key", false
			}
		case 8:
			claims["exp"] = now - 3600
			mut, valid = "expired", false
		case 9:
			claims["nbf"] = now + 3600
			mut, valid = "not-yet-valid", false
		case 10:
			claims["iat"] = now + 3600
			mut, valid = "issued-in-future", false
		case 11:
			tamper, mut, valid = "payload", "payload-tampered", false
		case 12:
			tamper, mut, valid = "signature", "signature-bit-flipped", false
		case 13:
			tamper, mut, valid = "sig-truncated", "signature-truncated", false
		case 14:
			shape, mut, valid = rapid.SampledFrom([]string{"two-segments", "four-segments", "empty", "dots", "not-base64", "header-not-json"}).Draw(rt, "shape"), "malformed-token", false
			near = false
		case 15:
			authPrefix = rapid.SampledFrom([]string{"Basic ", "Token ", "Bearer", "JWT ", "Bearer-"}).Draw(rt, "prefix")
			mut, valid = "wrong-auth-scheme", false
		case 16:
			hasHeader, mut, valid, near = false, "no-header", false, false
		case 17:
			// RFC 7235 auth-scheme is case-insensitive, the module compares "Bearer" exactly: no judgement
			authPrefix, mut, judge = rapid.SampledFrom([]string{"bearer ", "BEARER "}).Draw(rt, "prefix-case"), "scheme-case", false
		case 18:
			tamper, mut, valid = "sig-empty", "signature-removed", false
		case 19:
			// wrong secret of the right length / near secret
			if k.Kty == "oct" {
				secret = append(append([]byte{}, k.Oct...), 'x')
				mut, valid = "secret-one-byte-longer", false
			}
		}
		// build the token
		hdrJSON := map[string]any{"alg": headerAlg, "typ": "JWT"}
		if jk.Kid && rapid.Bool().Draw(rt, "send-kid") {
			hdrJSON["kid"] = k.ID
		}
		hb, _ := json.Marshal(hdrJSON)
		// NumericDate may be any JSON number (RFC 7519 section 2): integer, fraction or exponent form
		forms := map[string]string{}
		for _, c := range []string{"exp", "nbf", "iat"} {
			if _, ok := claims[c]; ok {
				forms[c] = rapid.SampledFrom([]string{"int", "int", "fraction", "exponent"}).Draw(rt, c+"-form")
			}
		}
		cb := c51ClaimsJSON(claims, forms)
		si := b64u(hb) + "." + b64u(cb)
		var sig []byte
		if strings.EqualFold(headerAlg, "none") {
			sig = nil
		} else {
			var serr error
			sig, serr = c51Sign(headerAlg, signKey, secret, si)
			if serr != nil {
				rec.Excluded("jwt-unsignable-combination")
				continue
			}
		}
		switch tamper {
		case "payload":
			claims["sub"] = "admin"
			cb2 := c51ClaimsJSON(claims, forms)
			si = b64u(hb) + "." + b64u(cb2)
		case "signature":
			sig[len(sig)/2] ^= 0x01
		case "sig-truncated":
			sig = sig[:len(sig)-1]
		case "sig-empty":
			sig = nil
		}
		tok := si + "." + b64u(sig)
		switch shape {
		case "two-segments":
			tok = si
		case "four-segments":
			tok = tok + "." + b64u(sig)
		case "empty":
			tok = ""
		case "dots":
			tok = ".."
		case "not-base64":
			tok = "!!!." + b64u(cb) + "." + b64u(sig)
		case "header-not-json":
			tok = b64u([]byte("not json")) + "." + b64u(cb) + "." + b64u(sig)
		}
		var hdrs []string
		if hasHeader {
			hdrs = append(hdrs, "Authorization: "+authPrefix+tok)
		}
		w.n++
		target := fmt.Sprintf("%s?n=%d", path, w.n)
		cls := []string{"jwt", "jwt-key-" + k.Kty, "jwt-alg-" + headerAlg, "jwt-mut-" + mut}
		if jk.Alg != "" {
			cls = append(cls, "jwt-jwk-has-alg")
		} else {
			cls = append(cls, "jwt-jwk-no-alg")
		}
		if !judge {
			cls = append(cls, "jwt-no-judgement")
		} else if valid {
			cls = append(cls, "jwt-valid")
		} else {
			cls = append(cls, "jwt-invalid")
		}
		for _, c := range []string{"exp", "nbf", "iat"} {
			if f, ok := forms[c]; ok && f != "int" {
				cls = append(cls, "jwt-"+c+"-"+f)
			}
		}
		var setDesc []string
		for _, j := range set {
			setDesc = append(setDesc, fmt.Sprintf("%s(alg=%q)", j.Key.ID, j.Alg))
		}
		claimDesc := map[string]any{}
		for _, c := range []string{"exp", "nbf", "iat"} {
			if v, ok := claims[c]; ok {
				claimDesc[c] = v.(int64) - now
			}
		}
		rec.Case(fmt.Sprintf("jwt|%v|%v|%s|%s|%s|%s|%s|%v|%s|%s|%v", setDesc, realms, path, k.ID, headerAlg, mut, shape, claimDesc, authPrefix, tamper, hdrJSON["kid"])+fmt.Sprint(forms), near && judge, cls...)
		desc := map[string]any{"scheme": "jwt", "rule_index": ri, "key_set": setDesc, "signed_with": signKey.ID, "token_alg": headerAlg, "claims_relative_to_now_s": claimDesc, "claims_json": string(cb), "mutation": mut, "authorization": authPrefix + clipStr(tok, 120), "model_valid": valid, "judged": judge}
		rec.Sample(desc)
		o := w.c51Send(w.rig.HTTPAddr, target, func(string) []byte { return c51Req("GET", target, "jwt.example.org", hdrs) })
		wit := map[string]any{"case": desc, "rules_file": ruleJSON, "key_files": keyTxt, "token": tok, "observed": o.String(), "response_head": clip(o.Raw, 300)}
		if o.Kind == "inconclusive" {
			rec.Excluded("no-response-inconclusive")
			continue
		}
		if !judge {
			rec.Class("jwt-no-judgement-" + o.Kind)
			continue
		}
		if valid {
			if o.Kind != "forwarded" {
				if !rec.Fail(rt, "jwt-valid-rejected/"+headerAlg, wit, "valid token (key %s, alg %s, claims %v) was not forwarded: %s", k.ID, headerAlg, claimDesc, o) {
					continue
				}
			}
			continue
		}
		if o.Kind == "forwarded" {
			key := "jwt-invalid-forwarded/" + mut
			if c := map[string]string{"expired": "exp", "not-yet-valid": "nbf", "issued-in-future": "iat"}[mut]; c != "" && forms[c] != "int" {
				// discriminating feature: the violated time claim is a fractional / exponent-form JSON number
				key += "/" + forms[c] + "-numericdate"
			}
			if mut == "alg-of-same-family" {
				key = "jwt-alg-substitution"
			}
			rec.Fail(rt, key, wit, "invalid token (%s: JWK %s alg=%q, token alg %s, signed with %s, claims %v) was forwarded to the backend", mut, k.ID, jk.Alg, headerAlg, signKey.ID, claimDesc)
			continue
		}
		wantRealm := realms[ri]
		if wantRealm == "" {
			wantRealm = "Restricted"
		}
		want := fmt.Sprintf("Bearer realm=%q", wantRealm)
		if o.Kind != "status" || o.Status != 401 {
			rec.Fail(rt, "jwt-rejection-not-401", wit, "invalid token (%s) answered with %s, documented rejection is 401", mut, o)
			continue
		}
		if got := hdr(o.Msg, "WWW-Authenticate"); len(got) != 1 || got[0] != want {
			rec.Fail(rt, "jwt-401-challenge", wit, "401 carries WWW-Authenticate %q, want %q", got, want)
		}
	}
}

// c51ClaimsJSON writes the claim set by hand so that the spelling of the numbers is under control.
func c51ClaimsJSON(claims map[string]any, forms map[string]string) []byte {
	var b strings.Builder
	fmt.Fprintf(&b, `{"sub":%q`, claims["sub"])
	for _, c := range []string{"exp", "nbf", "iat"} {
		v, ok := claims[c]
		if !ok {
			continue
		}
		t := v.(int64)
		switch forms[c] {
		case "fraction":
			fmt.Fprintf(&b, `,%q:%d.5`, c, t)
		case "exponent":
			fmt.Fprintf(&b, `,%q:%s`, c, strconv.FormatFloat(float64(t), 'e', -1, 64))
		default:
			fmt.Fprintf(&b, `,%q:%d`, c, t)
		}
	}
	b.WriteString("}")
	return []byte(b.String())
}

func clipStr(s string, n int) string {
	if len(s) > n {
		return s[:n] + "..."
	}
	return s
}

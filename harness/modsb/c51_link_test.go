package modsb

import (
	"crypto/md5"
	"encoding/base64"
	"encoding/json"
	"fmt"
	"strconv"
	"strings"
	"time"

	"pgregory.net/rapid"

	"verif/harness/internal/ev"
)

// ---- secure link: reference from docs/en_us/modules/mod_secure_link ------------

type c51Node struct {
	Type  string
	Param string
}

type c51LinkRule struct {
	Cond        string
	ChecksumKey *string // nil: module default "md5"
	ExpiresKey  *string // nil or "": no expiry check
	Nodes       []c51Node
}

func (r *c51LinkRule) checksumKey() string {
	if r.ChecksumKey == nil {
		return "md5"
	}
	return *r.ChecksumKey
}

func (r *c51LinkRule) expiresKey() string {
	if r.ExpiresKey == nil {
		return ""
	}
	return *r.ExpiresKey
}

// c51Sign2: the documented recipe — md5, standard base64, '+'->'-', '/'->'_', '=' removed.
func c51LinkSign(origin string) string {
	s := md5.Sum([]byte(origin))
	t := base64.StdEncoding.EncodeToString(s[:])
	t = strings.NewReplacer("+", "-", "/", "_", "=", "").Replace(t)
	return t
}

// own query reader: first value of key, "+" and %XX decoded (application/x-www-form-urlencoded).
func c51Query(target, key string) (string, bool) {
	i := strings.IndexByte(target, '?')
	if i < 0 {
		return "", false
	}
	for _, kv := range strings.Split(target[i+1:], "&") {
		k, v := kv, ""
		if j := strings.IndexByte(kv, '='); j >= 0 {
			k, v = kv[:j], kv[j+1:]
		}
		dk, ok1 := c51Unescape(k)
		dv, ok2 := c51Unescape(v)
		if !ok1 || !ok2 {
			continue
		}
		if dk == key {
			return dv, true
		}
	}
	return "", false
}

func c51Unescape(s string) (string, bool) {
	var b []byte
	for i := 0; i < len(s); i++ {
		switch s[i] {
		case '+':
			b = append(b, ' ')
		case '%':
			if i+2 >= len(s) {
				return "", false
			}
			h, l := unhex(s[i+1]), unhex(s[i+2])
			if h < 0 || l < 0 {
				return "", false
			}
			b = append(b, byte(h<<4|l))
			i += 2
		default:
			b = append(b, s[i])
		}
	}
	return string(b), true
}

// c51LinkOrigin concatenates the node values for a request.
func c51LinkOrigin(r *c51LinkRule, target, host, remote string, headers map[string]string) string {
	var b strings.Builder
	for _, n := range r.Nodes {
		switch strings.ToLower(n.Type) {
		case "label":
			b.WriteString(n.Param)
		case "query":
			v, _ := c51Query(target, n.Param)
			b.WriteString(v)
		case "header":
			b.WriteString(headers[strings.ToLower(n.Param)])
		case "host":
			b.WriteString(host)
		case "uri":
			b.WriteString(target)
		case "remote_addr":
			b.WriteString(remote)
		}
	}
	return b.String()
}

// c51LinkValid: the documented admission rule. why names the failing clause.
func c51LinkValid(r *c51LinkRule, target, host, remote string, headers map[string]string, now int64) (bool, string) {
	if ek := r.expiresKey(); ek != "" {
		v, _ := c51Query(target, ek)
		if v == "" {
			return false, "no-expires"
		}
		for i, c := range v {
			if !(c >= '0' && c <= '9') && !(i == 0 && (c == '-' || c == '+') && len(v) > 1) {
				return false, "expires-not-integer"
			}
		}
		e, err := strconv.ParseInt(v, 10, 64)
		if err != nil {
			return false, "expires-not-integer"
		}
		if now > e {
			return false, "expired"
		}
	}
	sum, _ := c51Query(target, r.checksumKey())
	if sum == "" {
		return false, "no-checksum"
	}
	if sum != c51LinkSign(c51LinkOrigin(r, target, host, remote, headers)) {
		return false, "bad-checksum"
	}
	return true, ""
}

func c51LoadLink(w *c51World, rules []c51LinkRule) (string, error) {
	w.n++
	var rs []map[string]any
	for _, r := range rules {
		m := map[string]any{"Cond": r.Cond}
		if r.ChecksumKey != nil {
			m["ChecksumKey"] = *r.ChecksumKey
		}
		if r.ExpiresKey != nil {
			m["ExpiresKey"] = *r.ExpiresKey
		}
		var ns []map[string]any
		for _, n := range r.Nodes {
			x := map[string]any{"Type": n.Type}
			if n.Param != "" || n.Type == "label" {
				x["Param"] = n.Param
			}
			ns = append(ns, x)
		}
		m["ExpressionNodes"] = ns
		rs = append(rs, m)
	}
	cfg := map[string]any{"Version": fmt.Sprint(w.n), "Config": map[string]any{"plink": rs}}
	bs, _ := json.Marshal(cfg)
	p, err := w.writeGen(fmt.Sprintf("secure_link_%d.data", w.n%4), bs)
	if err != nil {
		return string(bs), err
	}
	return string(bs), w.rig.ReloadModule("mod_secure_link", p)
}

func strp(s string) *string { return &s }

func c51GenLinkRule(rt *rapid.T, label, cond string) c51LinkRule {
	r := c51LinkRule{Cond: cond}
	switch rapid.IntRange(0, 3).Draw(rt, label+"-cksum-key") {
	case 0:
	case 1:
		r.ChecksumKey = strp("sign")
	case 2:
		r.ChecksumKey = strp("md5")
	case 3:
		r.ChecksumKey = strp("s")
	}
	switch rapid.IntRange(0, 4).Draw(rt, label+"-expires-key") {
	case 0:
	case 1:
		r.ExpiresKey = strp("")
	case 2, 3:
		r.ExpiresKey = strp("time")
	case 4:
		r.ExpiresKey = strp("expires")
	}
	n := rapid.IntRange(1, 5).Draw(rt, label+"-nnodes")
	for i := 0; i < n; i++ {
		switch rapid.IntRange(0, 11).Draw(rt, label+"-node") {
		case 0, 1, 2:
			r.Nodes = append(r.Nodes, c51Node{rapid.SampledFrom([]string{"label", "label", "Label"}).Draw(rt, label+"-ltype"), rapid.SampledFrom([]string{" secret", "s3cr3t", "k", "", "a b+c/d="}).Draw(rt, label+"-lparam")})
		case 3, 4:
			p := rapid.SampledFrom([]string{"time", "expires", "id", "u"}).Draw(rt, label+"-qparam")
			if ek := r.expiresKey(); ek != "" && rapid.Bool().Draw(rt, label+"-q-is-expiry") {
				p = ek
			}
			r.Nodes = append(r.Nodes, c51Node{"query", p})
		case 5, 6:
			r.Nodes = append(r.Nodes, c51Node{"header", rapid.SampledFrom([]string{"X-Token", "User-Agent", "x-token"}).Draw(rt, label+"-hparam")})
		case 7, 8:
			r.Nodes = append(r.Nodes, c51Node{"host", ""})
		case 9, 10:
			r.Nodes = append(r.Nodes, c51Node{rapid.SampledFrom([]string{"remote_addr", "REMOTE_ADDR"}).Draw(rt, label+"-rtype"), ""})
		case 11:
			r.Nodes = append(r.Nodes, c51Node{"uri", ""})
		}
	}
	return r
}

func c51Link(rt *rapid.T, rec *ev.Rec, w *c51World) {
	var rules []c51LinkRule
	two := rapid.IntRange(0, 2).Draw(rt, "two-rules") == 0
	if two {
		rules = append(rules, c51GenLinkRule(rt, "r0", `req_path_prefix_in("/dl/", false)`))
	}
	rules = append(rules, c51GenLinkRule(rt, "r1", "default_t()"))
	ruleJSON, err := c51LoadLink(w, rules)
	if err != nil {
		rt.Fatalf("harness: mod_secure_link refused generated config %s: %v", ruleJSON, err)
	}
	nreq := rapid.IntRange(1, 5).Draw(rt, "nreq")
	for q := 0; q < nreq; q++ {
		ri := len(rules) - 1
		path := "/x/file.bin"
		if two && rapid.Bool().Draw(rt, "dl-path") {
			ri, path = 0, "/dl/file.bin"
		}
		rule := &rules[ri]
		now := time.Now().Unix()
		w.n++
		// base query parameters
		params := [][2]string{{"n", fmt.Sprint(w.n)}}
		if rapid.Bool().Draw(rt, "has-id") {
			params = append(params, [2]string{"id", rapid.SampledFrom([]string{"7", "abc", "A-b_c"}).Draw(rt, "id")})
		}
		if rapid.Bool().Draw(rt, "has-u") {
			params = append(params, [2]string{"u", rapid.SampledFrom([]string{"bob", "x"}).Draw(rt, "u")})
		}
		exp := now + 3600
		ek := rule.expiresKey()
		mut := rapid.SampledFrom([]string{"none", "none", "none", "checksum-char", "wrong-secret", "expired-signed", "expiry-edited", "expires-garbled", "no-checksum", "no-expires", "dup-checksum-bad-first", "dup-checksum-good-first", "checksum-padded", "checksum-std-alphabet", "checksum-truncated", "path-edited", "header-edited", "checksum-of-other-rule",
			"checksum-last-char", "checksum-last-char", "checksum-ctl-inserted", "checksum-ctl-inserted", "checksum-char-appended", "checksum-one-pad"}).Draw(rt, "mutation")
		if mut == "expired-signed" {
			exp = now - 3600
		}
		expKey := ek
		if expKey == "" {
			expKey = "time" // parameter may still take part in the checksum through a query node
		}
		withExp := mut != "no-expires"
		if withExp {
			params = append(params, [2]string{expKey, fmt.Sprint(exp)})
		}
		headers := map[string]string{}
		var hdrLines []string
		if rapid.IntRange(0, 3).Draw(rt, "has-x-token") != 0 {
			headers["x-token"] = rapid.SampledFrom([]string{"tok123", "T"}).Draw(rt, "x-token")
			hdrLines = append(hdrLines, "X-Token: "+headers["x-token"])
		}
		if rapid.Bool().Draw(rt, "has-ua") {
			headers["user-agent"] = "verif/1.0"
			hdrLines = append(hdrLines, "User-Agent: verif/1.0")
		}
		host := "link.example.org"
		build := func(ps [][2]string) string {
			var kv []string
			for _, p := range ps {
				kv = append(kv, p[0]+"="+p[1])
			}
			return path + "?" + strings.Join(kv, "&")
		}
		ckPos := rapid.IntRange(0, len(params)).Draw(rt, "checksum-pos")
		var target string
		var localSeen string
		mk := func(local string) []byte {
			localSeen = local
			// sign the link as the documented generator would (without the checksum parameter itself)
			signRule := rule
			if mut == "checksum-of-other-rule" && len(rules) > 1 {
				signRule = &rules[1-ri]
			}
			origin := c51LinkOrigin(signRule, build(params), host, local, headers)
			if mut == "wrong-secret" {
				origin += "x"
			}
			sum := c51LinkSign(origin)
			switch mut {
			case "checksum-char":
				c := byte('A')
				if sum[3] == 'A' {
					c = 'B'
				}
				sum = sum[:3] + string(c) + sum[4:]
			case "checksum-padded":
				sum += "=="
			case "checksum-std-alphabet":
				sum = strings.NewReplacer("-", "%2B", "_", "/").Replace(sum)
			case "checksum-truncated":
				sum = sum[:len(sum)-1]
			case "checksum-last-char":
				// near miss: every other character of the base64url alphabet in the last position
				// (the 22nd character carries only 2 digest bits)
				const alpha = "ABCDEFGHIJKLMNOPQRSTUVWXYZabcdefghijklmnopqrstuvwxyz0123456789-_"
				c := alpha[rapid.IntRange(0, 63).Draw(rt, "last-char")]
				if c == sum[len(sum)-1] {
					c = alpha[(strings.IndexByte(alpha, c)+1)%64]
				}
				sum = sum[:len(sum)-1] + string(c)
			case "checksum-ctl-inserted":
				pos := rapid.SampledFrom([]int{0, 1, len(sum) / 2, len(sum) - 1, len(sum)}).Draw(rt, "ctl-pos")
				sum = sum[:pos] + rapid.SampledFrom([]string{"%0A", "%0D", "%0D%0A", "%20", "%09"}).Draw(rt, "ctl") + sum[pos:]
			case "checksum-char-appended":
				sum += "A"
			case "checksum-one-pad":
				sum += "="
			}
			ps := append([][2]string{}, params[:ckPos]...)
			switch mut {
			case "no-checksum":
			case "dup-checksum-bad-first":
				ps = append(ps, [2]string{rule.checksumKey(), "AAAAAAAAAAAAAAAAAAAAAA"}, [2]string{rule.checksumKey(), sum})
			case "dup-checksum-good-first":
				ps = append(ps, [2]string{rule.checksumKey(), sum}, [2]string{rule.checksumKey(), "AAAAAAAAAAAAAAAAAAAAAA"})
			default:
				ps = append(ps, [2]string{rule.checksumKey(), sum})
			}
			ps = append(ps, params[ckPos:]...)
			switch mut {
			case "expiry-edited":
				for i := range ps {
					if ps[i][0] == expKey {
						ps[i][1] = fmt.Sprint(now + 7200)
					}
				}
			case "expires-garbled":
				for i := range ps {
					if ps[i][0] == expKey {
						ps[i][1] = rapid.SampledFrom([]string{"abc", "12.5", "", "0x7fffffff", fmt.Sprint(exp) + "s", "-1", "1e12"}).Draw(rt, "garbled-expiry")
					}
				}
			}
			target = build(ps)
			if mut == "path-edited" {
				target = strings.Replace(target, "file.bin", "other.bin", 1)
			}
			hl := hdrLines
			if mut == "header-edited" {
				hl = nil
				for _, l := range hdrLines {
					if strings.HasPrefix(l, "X-Token: ") {
						l += "9"
					}
					hl = append(hl, l)
				}
			}
			return c51Req("GET", target, host, hl)
		}
		o := w.c51Send(w.rig.HTTPAddr, "", mk)
		// the verdict is recomputed from the request exactly as it was sent
		effHeaders := headers
		if mut == "header-edited" {
			effHeaders = map[string]string{}
			for k, v := range headers {
				effHeaders[k] = v
			}
			if v, ok := effHeaders["x-token"]; ok {
				effHeaders["x-token"] = v + "9"
			}
		}
		valid, why := c51LinkValid(rule, target, host, localSeen, effHeaders, now)
		if o.Kind == "status" && o.Status == 200 && w.sawTarget(target) {
			o.Kind = "forwarded"
		}
		var nodeDesc []string
		hasURI, hasRemote := false, false
		for _, n := range rule.Nodes {
			nodeDesc = append(nodeDesc, strings.ToLower(n.Type)+"("+n.Param+")")
			if strings.ToLower(n.Type) == "uri" {
				hasURI = true
			}
			if strings.ToLower(n.Type) == "remote_addr" {
				hasRemote = true
			}
		}
		cls := []string{"link", "link-mut-" + mut}
		if valid {
			cls = append(cls, "link-valid")
		} else {
			cls = append(cls, "link-invalid", "link-invalid-"+why)
		}
		if hasURI {
			cls = append(cls, "link-uri-node")
		}
		if hasRemote {
			cls = append(cls, "link-remote-addr-node")
		}
		if ek != "" {
			cls = append(cls, "link-expiry-checked")
		}
		tgtNoN := strings.Replace(target, fmt.Sprintf("n=%d", w.n), "n=", 1)
		// the checksum value depends on the ephemeral client port when remote_addr takes part: keep it out of the fingerprint
		if hasRemote {
			if v, ok := c51Query(tgtNoN, rule.checksumKey()); ok && v != "" {
				tgtNoN = strings.Replace(tgtNoN, v, "<sum>", -1)
			}
		}
		tgtNoN = strings.Replace(tgtNoN, fmt.Sprint(exp), "<exp>", -1)
		rec.Case(fmt.Sprintf("link|%s|%s|%v|%s", ruleJSON[strings.Index(ruleJSON, "Config"):], tgtNoN, hdrLines, mut), mut != "no-checksum" && !hasURI, cls...)
		desc := map[string]any{"scheme": "secure_link", "rule_index": ri, "checksum_key": rule.checksumKey(), "expires_key": ek, "nodes": nodeDesc, "target": target, "headers": hdrLines, "client_addr": localSeen, "mutation": mut, "model_valid": valid, "model_reason": why, "expires_minus_now_s": exp - now}
		rec.Sample(desc)
		wit := map[string]any{"case": desc, "rules_file": ruleJSON, "observed": o.String(), "response_head": clip(o.Raw, 300),
			"model_origin": c51LinkOrigin(rule, target, host, localSeen, effHeaders)}
		if o.Kind == "inconclusive" {
			rec.Excluded("no-response-inconclusive")
			continue
		}
		if valid {
			if o.Kind != "forwarded" {
				rec.Fail(rt, "link-valid-rejected", wit, "link signed per the documented recipe (nodes %v, mutation %s) was not forwarded: %s", nodeDesc, mut, o)
			}
			continue
		}
		if o.Kind == "forwarded" {
			key := "link-invalid-forwarded/" + why
			if why == "bad-checksum" && strings.HasPrefix(mut, "checksum-") {
				key += "/" + mut // discriminating feature: how the checksum differs from the right one
			}
			rec.Fail(rt, key, wit, "invalid link (%s; mutation %s; nodes %v) was forwarded to the backend", why, mut, nodeDesc)
			continue
		}
		if o.Kind == "closed" {
			// discriminating feature: no response bytes at all (the connection goroutine died)
			rec.Fail(rt, "link-rejection-closes-connection", wit, "invalid link (%s) got no response at all: the connection was closed, documented rejection is a 403 response", why)
			continue
		}
		if o.Kind != "status" || o.Status != 403 {
			rec.Fail(rt, "link-rejection-not-403", wit, "invalid link (%s) answered with %s, documented rejection is 403", why, o)
		}
	}
}

package modsb

import (
	"fmt"
	"net"
	"os"
	"path/filepath"
	"strings"
	"time"

	"verif/harness/internal/ref"
	"verif/harness/internal/sys"
)

// workDir is the per-process scratch directory (the driver sets VERIF_WORK).
func workDir() string {
	if w := os.Getenv("VERIF_WORK"); w != "" {
		return w
	}
	d, _ := os.MkdirTemp("", "verif-modsb")
	return d
}

func mustWrite(path string, data []byte) error {
	if err := os.MkdirAll(filepath.Dir(path), 0o755); err != nil {
		return err
	}
	return os.WriteFile(path, data, 0o644)
}

// result of one raw HTTP/1.1 exchange on a fresh connection
type exch struct {
	Raw     []byte       // everything received
	Msg     *ref.Message // first response, parsed strictly (nil if none / malformed)
	Closed  bool         // peer closed the connection
	Err     error        // parse error / timeout
	Timeout bool         // no complete response and no close within the budget (inconclusive)
}

// exchange sends raw on a fresh connection to addr and reads one response.
func exchange(addr string, raw []byte, method string, wait time.Duration) exch {
	c, err := net.DialTimeout("tcp", addr, 10*time.Second)
	if err != nil {
		return exch{Err: err, Timeout: true}
	}
	defer c.Close()
	c.SetWriteDeadline(time.Now().Add(wait))
	if _, err := c.Write(raw); err != nil {
		// the peer may already have closed (blocked connection); still read what is there
		_ = err
	}
	return readOne(c, method, wait)
}

// exchangeAll sends raw (which must ask for "Connection: close") on a fresh
// connection, reads until the peer closes (or wait passes) and parses the first
// response; bytes after it are Raw[Msg.ConsumedLen:].
func exchangeAll(addr string, raw []byte, method string, wait time.Duration) exch {
	c, err := net.DialTimeout("tcp", addr, 10*time.Second)
	if err != nil {
		return exch{Err: err, Timeout: true}
	}
	defer c.Close()
	c.SetWriteDeadline(time.Now().Add(wait))
	c.Write(raw)
	var e exch
	e.Raw, e.Closed = sys.ReadAllTimeout(c, wait)
	if !e.Closed {
		e.Timeout = true
		e.Err = fmt.Errorf("peer did not close within %v (have %d bytes)", wait, len(e.Raw))
		return e
	}
	if len(e.Raw) == 0 {
		return e
	}
	m, perr := ref.ParseResponse(e.Raw, method, true)
	if perr != nil {
		e.Err = perr
		return e
	}
	e.Msg = m
	return e
}

func readOne(c net.Conn, method string, wait time.Duration) exch {
	deadline := time.Now().Add(wait)
	buf := make([]byte, 64*1024)
	var e exch
	for {
		if len(e.Raw) > 0 {
			m, perr := ref.ParseResponse(e.Raw, method, e.Closed)
			if perr == nil {
				e.Msg = m
				return e
			}
			if perr != ref.ErrIncomplete {
				e.Err = perr
				return e
			}
		}
		if e.Closed {
			if len(e.Raw) > 0 {
				e.Err = ref.ErrIncomplete
			}
			return e
		}
		c.SetReadDeadline(deadline)
		n, rerr := c.Read(buf)
		e.Raw = append(e.Raw, buf[:n]...)
		if rerr != nil {
			if ne, ok := rerr.(net.Error); ok && ne.Timeout() {
				e.Timeout = true
				e.Err = fmt.Errorf("timeout waiting for response (have %d bytes)", len(e.Raw))
				return e
			}
			e.Closed = true
		}
	}
}

// hdr returns the values of a response field (case-insensitive).
func hdr(m *ref.Message, name string) []string {
	if m == nil {
		return nil
	}
	return m.Get(name)
}

func hdr1(m *ref.Message, name string) string {
	v := hdr(m, name)
	if len(v) == 0 {
		return ""
	}
	return strings.Join(v, ",")
}

// echoBackend answers every request with 200 and a fixed marker body.
const backendMarker = "BACKEND-REACHED"

func echoBackend() (*sys.Backend, error) {
	return sys.NewBackend("b0", func(bc *sys.BackendConn) {
		off := 0
		for {
			m, err := bc.ReadRequest(off, 30*time.Second)
			if err != nil {
				return
			}
			off += m.ConsumedLen
			body := backendMarker
			if m.Method == "HEAD" {
				body = ""
			}
			fmt.Fprintf(bc.Conn, "HTTP/1.1 200 OK\r\nContent-Length: %d\r\nX-Backend: b0\r\n\r\n%s", len(backendMarker), body)
		}
	})
}

func clip(b []byte, n int) string {
	if len(b) > n {
		return fmt.Sprintf("%q...(%d bytes)", b[:n], len(b))
	}
	return fmt.Sprintf("%q", b)
}

package modsb

import (
	"fmt"
	"net"
	"os"
	"path/filepath"
	"strings"
	"sync"
	"testing"
	"time"

	"pgregory.net/rapid"

	"verif/harness/internal/ev"
	"verif/harness/internal/ref"
	"verif/harness/internal/sys"
)

// C51: access-control modules admit exactly the valid requests.
//
// Rig: one in-process BFE with mod_block, mod_auth_basic, mod_auth_jwt and
// mod_secure_link, one product per module (hosts basic./jwt./link./block.example.org),
// all routed to a harness backend that records the targets it sees. Rule files,
// user files, JWK files and block lists are generated per case and loaded through
// the modules' reload handlers. "Forwarded" = the backend saw the request and the
// client got its 200; "rejected" = the documented rejection of the module.
// Credentials are produced by implementations that do not share code with the
// module: own md5-crypt/apr1, std sha1, hand-rolled JWS over std crypto, std md5.

type c51World struct {
	rig  *sys.Rig
	be   *sys.Backend
	ln   *sys.FakeAddrListener
	dir  string
	n    int
	mu   sync.Mutex
	seen map[string]int
}

func (w *c51World) sawTarget(t string) bool {
	w.mu.Lock()
	defer w.mu.Unlock()
	return w.seen[t] > 0
}

func c51Start(t *testing.T) *c51World {
	w := &c51World{seen: map[string]int{}}
	b, err := sys.NewBackend("b0", func(bc *sys.BackendConn) {
		off := 0
		for {
			m, err := bc.ReadRequest(off, 30*time.Second)
			if err != nil {
				return
			}
			off += m.ConsumedLen
			w.mu.Lock()
			w.seen[m.Target]++
			if len(w.seen) > 20000 {
				w.seen = map[string]int{m.Target: 1}
			}
			w.mu.Unlock()
			fmt.Fprintf(bc.Conn, "HTTP/1.1 200 OK\r\nContent-Length: %d\r\n\r\n%s", len(backendMarker), backendMarker)
		}
	})
	if err != nil {
		t.Fatal(err)
	}
	w.be = b
	w.dir = filepath.Join(workDir(), "c51")
	os.RemoveAll(w.dir)
	os.MkdirAll(w.dir, 0o755)
	rules := map[string][]sys.Rule{}
	hosts := map[string][]string{"t": {"example.org"}}
	tags := map[string][]string{"p": {"t"}}
	rules["p"] = []sys.Rule{{Cond: "default_t()", Cluster: "c"}}
	for _, p := range []string{"basic", "jwt", "link", "block"} {
		hosts["t"+p] = []string{p + ".example.org"}
		tags["p"+p] = []string{"t" + p}
		rules["p"+p] = []sys.Rule{{Cond: "default_t()", Cluster: "c"}}
	}
	data := &sys.DataConf{Version: "v0", Hosts: hosts, HostTags: tags, Rules: rules, Clusters: []sys.Cluster{sys.OneBackendCluster("c", b.Port)}}
	empty := `{"Version":"0","Config":{}}`
	rig, err := sys.Start(sys.Options{Modules: []string{"mod_block", "mod_auth_basic", "mod_auth_jwt", "mod_secure_link"},
		Files: map[string]string{
			"mod_auth_basic/auth_basic_rule.data":  empty,
			"mod_auth_jwt/auth_jwt_rule.data":      empty,
			"mod_secure_link/mod_secure_link.conf": "[Basic]\nDataPath = mod_secure_link/secure_link.data\n\n[Log]\nOpenDebug = false\n",
			"mod_secure_link/secure_link.data":     empty,
			"mod_block/block_rules.data":           empty,
			"mod_block/ip_blocklist.data":          "192.168.1.250\n",
		},
		Data: data})
	if err != nil {
		t.Fatalf("rig start: %v", err)
	}
	w.rig = rig
	ln, err := sys.NewFakeAddrListener()
	if err != nil {
		t.Fatal(err)
	}
	w.ln = ln
	rig.ServeOn(ln)
	return w
}

func (w *c51World) writeGen(name string, data []byte) (string, error) {
	p := filepath.Join(w.dir, name)
	return p, os.WriteFile(p, data, 0o644)
}

// c51Obs is what the client observed for one request.
type c51Obs struct {
	Kind   string // "forwarded" | "status" | "closed" | "inconclusive" | "malformed"
	Status int
	Msg    *ref.Message
	Raw    []byte
	Local  string // client side address of the connection ("ip:port")
}

// c51Send dials addr, lets mk build the request from the connection's local
// address, sends it and classifies the outcome.
func (w *c51World) c51Send(addr string, target string, mk func(local string) []byte) c51Obs {
	c, err := net.DialTimeout("tcp", addr, 10*time.Second)
	if err != nil {
		return c51Obs{Kind: "inconclusive"}
	}
	defer c.Close()
	local := c.LocalAddr().String()
	raw := mk(local)
	c.SetWriteDeadline(time.Now().Add(20 * time.Second))
	c.Write(raw)
	data, closed := sys.ReadAllTimeout(c, 25*time.Second)
	o := c51Obs{Raw: data, Local: local}
	if !closed {
		o.Kind = "inconclusive"
		return o
	}
	if len(data) == 0 {
		o.Kind = "closed"
		return o
	}
	m, perr := ref.ParseResponse(data, "GET", true)
	if perr != nil {
		o.Kind = "malformed"
		return o
	}
	o.Msg, o.Status = m, m.Status
	if m.Status == 200 && string(m.Body) == backendMarker && w.sawTarget(target) {
		o.Kind = "forwarded"
		return o
	}
	if m.Status >= 500 {
		o.Kind = "inconclusive" // backend unreachable etc.
		return o
	}
	o.Kind = "status"
	return o
}

func (o c51Obs) String() string {
	switch o.Kind {
	case "status":
		return fmt.Sprintf("status %d", o.Status)
	}
	return o.Kind
}

func c51Req(method, target, host string, hdrs []string) []byte {
	var b strings.Builder
	fmt.Fprintf(&b, "%s %s HTTP/1.1\r\nHost: %s\r\nConnection: close\r\n", method, target, host)
	for _, h := range hdrs {
		b.WriteString(h + "\r\n")
	}
	b.WriteString("\r\n")
	return []byte(b.String())
}

func TestC51(t *testing.T) {
	rec := ev.New("C51", "per case one scheme: BASIC (generated htpasswd files: apr1 / $1$ md5-crypt / {SHA} / bcrypt $2a$ $2b$ $2y$ entries, comments, 1-2 rules with realms; credentials = a stored user's password or one mutation of it: one char changed/added/dropped, case flipped, other user's password, unknown user, user of the other rule, scheme spelling, broken base64, no colon, no header), JWT (JWK sets of oct/RSA/EC keys with or without \"alg\"; hand-rolled JWS tokens: right key+alg, other algorithm of the family, unconfigured key, alg=none, HMAC keyed with the RSA public key, tampered payload/signature, exp/nbf/iat one hour either side of now, malformed shapes, header spellings), SECURE_LINK (ChecksumKey/ExpiresKey/node lists over label/query/header/host/uri/remote_addr; links signed per the documented md5/base64url recipe, then left intact or mutated: checksum char, wrong secret, expired, expiry edited, parameter missing/duplicated/padded), BLOCK (global IP list and product/global CLOSE/ALLOW rules over generated IPv4/IPv6 ranges; peers at range edges via a listener that reports the generated remote address); all through an in-process BFE, verdict = backend saw the request vs documented rejection. non-trivial: the credential / address is valid or exactly one mutation (or one address step) away from valid; distinct by config+request")
	w := c51Start(t)
	if got := c51MD5Crypt([]byte("123456"), []byte("mI7SilJz"), "$apr1$"); got != "$apr1$mI7SilJz$CWwYJyYKbhVDNl26sdUSh/" {
		t.Fatalf("harness: own apr1 implementation does not reproduce the documented example: %s", got)
	}
	keys, err := c51MakeKeys()
	if err != nil {
		t.Fatalf("harness: key generation: %v", err)
	}
	c51BasicSweep(t, rec, w)
	rapid.Check(t, func(rt *rapid.T) {
		switch rapid.IntRange(0, 3).Draw(rt, "scheme") {
		case 0:
			c51Basic(rt, rec, w)
		case 1:
			c51JWT(rt, rec, w, keys)
		case 2:
			c51Link(rt, rec, w)
		case 3:
			c51Block(rt, rec, w)
		}
	})
}
